import EaselModel.Stats.MinLemmas
import EaselModel.Stats.Rootfinder
/-! # Structural facts about `brent()`, `esl_min_ConjugateGradientDescent()` and the root finders that hold for EVERY numeric class
(so also for binary64): the value handed back is the objective at the point handed back; statuses; iteration caps. Core Lean only. -/
namespace EaselModel.Stats
open Num
variable {α : Type} [Num α]

/-! ## `brent()` -/

theorem brentUpdate_x_fx (s : BrentSt α) (u fu d e : α) :
    ((brentUpdate s u fu d e).x = u ∧ (brentUpdate s u fu d e).fx = fu ∧ leb fu s.fx = true) ∨
    ((brentUpdate s u fu d e).x = s.x ∧ (brentUpdate s u fu d e).fx = s.fx ∧ leb fu s.fx = false) := by
  unfold brentUpdate
  split
  · rename_i h
    left; exact ⟨rfl, rfl, h⟩
  · rename_i h
    right
    have h' : leb fu s.fx = false := by simpa using h
    repeat' split
    all_goals exact ⟨rfl, rfl, h'⟩

/-- how a pass of `brent()` can end or continue: stop on a non-finite interval with `fx = +inf`, stop converged with the current
    `(x, fx)`, or continue with a state whose `(x, fx)` is either the old one or the new trial point `(u, f(u))` with `f(u) ≤ fx` -/
theorem brentStep_cases (eps t : α) (fline : α → α) (s : BrentSt α) :
    (brentStep eps t fline s = .inl (s.x, one / zero) ∧ (isFinite ((0.5 : α) * (s.a + s.b)) = false ∨ isFinite s.x = false)) ∨
    (brentStep eps t fline s = .inl (s.x, s.fx)) ∨
    (∃ s', brentStep eps t fline s = .inr s' ∧
       ((s'.x = s.x ∧ s'.fx = s.fx) ∨ (s'.fx = fline s'.x ∧ leb s'.fx s.fx = true))) := by
  unfold brentStep
  simp only []
  split
  · rename_i h
    left
    refine ⟨rfl, ?_⟩
    simp only [Bool.or_eq_true, Bool.not_eq_true'] at h
    exact h
  · split
    · right; left; rfl
    · right; right
      refine ⟨_, rfl, ?_⟩
      rcases brentUpdate_x_fx s (brentTrial (eps * abs s.x + t) ((0.5 : α) * (s.a + s.b)) s).1
          (fline (brentTrial (eps * abs s.x + t) ((0.5 : α) * (s.a + s.b)) s).1)
          (brentTrial (eps * abs s.x + t) ((0.5 : α) * (s.a + s.b)) s).2.1
          (brentTrial (eps * abs s.x + t) ((0.5 : α) * (s.a + s.b)) s).2.2 with ⟨h1, h2, h3⟩ | ⟨h1, h2, _⟩
      · right
        rw [h2, h1]; exact ⟨rfl, h3⟩
      · left; exact ⟨h1, h2⟩

/-- **`brent()` hands back the objective at the point it hands back**: if the state entering the loop satisfies `fx = f(x)`, a result
    `(x, fx)` satisfies `fx = f(x)` — or the loop was left through the non-finite-interval exit (bad2f4e) with `fx = +inf`. -/
theorem brentLoop_value (eps t : α) (fline : α → α) : ∀ (k : Nat) (s : BrentSt α) (x fx : α),
    s.fx = fline s.x → brentLoop eps t fline k s = some (x, fx) →
    fx = fline x ∨ (fx = one / zero ∧ ∃ y : α, isFinite y = false) := by
  intro k
  induction k with
  | zero => intro s x fx _ h; simp [brentLoop] at h
  | succ k ih =>
    intro s x fx hs h
    unfold brentLoop at h
    rcases brentStep_cases eps t fline s with ⟨e, hf⟩ | e | ⟨s', e, hs'⟩
    · rw [e] at h
      simp only [Option.some.injEq, Prod.mk.injEq] at h
      right
      refine ⟨h.2.symm, ?_⟩
      rcases hf with hf | hf
      · exact ⟨_, hf⟩
      · exact ⟨_, hf⟩
    · rw [e] at h
      simp only [Option.some.injEq, Prod.mk.injEq] at h
      left; rw [← h.1, ← h.2]; exact hs
    · rw [e] at h
      simp only [] at h
      refine ih s' x fx ?_ h
      rcases hs' with ⟨h1, h2⟩ | ⟨h1, _⟩
      · rw [h2, h1]; exact hs
      · exact h1

/-- a NaN / infinite interval or start point ends `brent()` at once with `fx = +inf` (the repaired non-termination bad2f4e) -/
theorem brent_nonfinite_exit (cfg : MinCfg α) (fline : α → α) (a b : α)
    (h : isFinite ((0.5 : α) * (a + b)) = false ∨ isFinite (a + goldC * (b - a)) = false) :
    brentCG cfg fline a b = some (a + goldC * (b - a), one / zero) := by
  unfold brentCG brentFuel
  simp only []
  unfold brentLoop brentStep
  simp only []
  have : (!(isFinite ((0.5 : α) * (a + b))) || !(isFinite (a + goldC * (b - a)))) = true := by
    rcases h with h | h <;> simp [h]
  simp only [this, if_true]

theorem brentCG_value (cfg : MinCfg α) (fline : α → α) (a b x fx : α) (h : brentCG cfg fline a b = some (x, fx)) :
    fx = fline x ∨ (fx = one / zero ∧ ∃ y : α, isFinite y = false) := by
  unfold brentCG at h
  exact brentLoop_value _ _ fline _ _ x fx rfl h

/-! ## `esl_min_ConjugateGradientDescent()` -/

/-- the two kinds of numeric class the statement covers: `1/0` is recognised as non-finite (binary64), or nothing is non-finite (ℝ, ℚ) -/
def InfOK (α : Type) [Num α] : Prop := isFinite (one / zero : α) = false ∨ ∀ x : α, isFinite x = true

theorem cgLoop_value (hinf : InfOK α) (cfg : MinCfg α) (f : Array α → α) (df : Option (Array α → Array α)) :
    ∀ (k : Nat) (s : CGState α) (fx0 : α) (st : St) (x : Array α) (fx : α), fx0 = f s.x →
      (cgLoop cfg f df k s fx0).1 = .res st x fx → (st = .ok ∨ st = .enohalt) → fx = f x := by
  intro k
  induction k with
  | zero =>
    intro s fx0 st x fx h0 h _
    unfold cgLoop at h
    simp only [MinRes.res.injEq] at h
    rw [← h.2.1, ← h.2.2]; exact h0
  | succ k ih =>
    intro s fx0 st x fx h0 h hst
    unfold cgLoop at h
    simp only [] at h
    split at h
    · simp only [MinRes.res.injEq] at h
      rcases hst with c | c <;> (rw [c] at h; exact absurd h.1 (by decide))
    · split at h
      · cases h
      · rename_i _ br _ _ t fxb hb
        have hv := brentCG_value cfg (fun t => f (pointAt s.x s.cg t)) br.ax br.cx t fxb hb
        split at h
        · simp only [MinRes.res.injEq] at h
          rcases hst with c | c <;> (rw [c] at h; exact absurd h.1 (by decide))
        · rename_i hfin
          have hval : fxb = f (pointAt s.x s.cg t) := by
            rcases hv with hv | ⟨hv, y, hy⟩
            · exact hv
            · exfalso
              rcases hinf with hi | hi
              · rw [hv, hi] at hfin; simp at hfin
              · rw [hi y] at hy; cases hy
          split at h
          · simp only [MinRes.res.injEq] at h
            rw [← h.2.1, ← h.2.2]; exact hval
          · split at h
            · simp only [MinRes.res.injEq] at h
              rw [← h.2.1, ← h.2.2]; exact hval
            · exact ih _ _ st x fx hval h hst

/-- **`*opt_fx` is the objective at the returned point** whenever `esl_min_ConjugateGradientDescent` returns eslOK or eslENOHALT
    (every objective, gradient, configuration, start point; binary64 as well as ℝ) -/
theorem cgd_value (hinf : InfOK α) (cfg : MinCfg α) (f : Array α → α) (df : Option (Array α → Array α)) (x0 : Array α)
    (st : St) (x : Array α) (fx : α) (h : (cgd cfg f df x0).1 = .res st x fx) (hst : st = .ok ∨ st = .enohalt) : fx = f x := by
  unfold cgd at h
  simp only [] at h
  split at h
  · simp only [MinRes.res.injEq] at h
    rcases hst with c | c <;> (rw [c] at h; exact absurd h.1 (by decide))
  · split at h
    · simp only [MinRes.res.injEq] at h
      rw [← h.2.1, ← h.2.2]
    · exact cgLoop_value hinf cfg f df _ _ _ st x fx rfl h hst

/-! ## `esl_rootfinder.c` -/

theorem bisectionLoop_status (cfg : RootCfg α) (f : α → α) : ∀ (k : Nat) (iter : Int) (xl xr fl fr : α),
    let r := bisectionLoop cfg f k iter xl xr fl fr
    (r.st = .ok ∨ (r.st = .enohalt ∧ r.x = zero ∧ r.iter = iter + k + 1)) ∧ r.iter ≤ iter + k + 1 ∧ iter < r.iter := by
  intro k
  induction k with
  | zero => intro iter xl xr fl fr; unfold bisectionLoop; exact ⟨Or.inr ⟨rfl, rfl, by simp⟩, by simp, by show iter < iter + 1; omega⟩
  | succ k ih =>
    intro iter xl xr fl fr
    unfold bisectionLoop
    simp only []
    have step : ∀ a b c d, let r := bisectionLoop cfg f k (iter + 1) a b c d
        (r.st = .ok ∨ (r.st = .enohalt ∧ r.x = zero ∧ r.iter = iter + (k + 1 : Nat) + 1)) ∧ r.iter ≤ iter + (k + 1 : Nat) + 1 ∧ iter < r.iter := by
      intro a b c d
      have := ih (iter + 1) a b c d
      simp only [] at this ⊢
      obtain ⟨h1, h2, h3⟩ := this
      refine ⟨?_, by push_cast; omega, by omega⟩
      rcases h1 with h1 | ⟨h1, h1', h1''⟩
      · exact Or.inl h1
      · exact Or.inr ⟨h1, h1', by push_cast; omega⟩
    split
    · exact ⟨Or.inl rfl, by push_cast; omega, by show iter < iter + 1; omega⟩
    · split
      · exact ⟨Or.inl rfl, by push_cast; omega, by show iter < iter + 1; omega⟩
      · split
        · split
          · exact step _ _ _ _
          · exact step _ _ _ _
        · split
          · exact step _ _ _ _
          · exact step _ _ _ _

/-- `esl_root_Bisection`, every function and every numeric class: total (at most `max_iter - iter` rounds); the status is eslOK,
    eslEINVAL (`f(xl)·f(xr) ≥ 0`, nothing evaluated further) or eslENOHALT (then `*ret_x = 0` and `R->iter = max(iter, max_iter) + 1`) -/
theorem rootBisection_status (cfg : RootCfg α) (f : α → α) (iter0 : Int) (xl xr : α) :
    let r := rootBisection cfg f iter0 xl xr
    r.st = .ok ∨ (r.st = .einval ∧ r.x = zero ∧ r.iter = iter0 ∧ geb (f xl * f xr) zero = true) ∨
    (r.st = .enohalt ∧ r.x = zero ∧ r.iter = iter0 + (cfg.maxIter - iter0).toNat + 1) := by
  simp only []
  unfold rootBisection
  simp only []
  split
  · rename_i h; exact Or.inr (Or.inl ⟨rfl, rfl, rfl, h⟩)
  · have := (bisectionLoop_status cfg f (cfg.maxIter - iter0).toNat iter0 xl xr (f xl) (f xr)).1
    rcases this with h | h
    · exact Or.inl h
    · exact Or.inr (Or.inr h)

theorem newtonRootLoop_status (cfg : RootCfg α) (fdf : α → α × α) : ∀ (k : Nat) (iter : Int) (x0 x fx dfx : α),
    let r := newtonRootLoop cfg fdf k iter x0 x fx dfx
    ((r.st = .ok ∧ (eqb (fdf r.x).1 zero = true ∨
        (ltb (abs (r.x - r.xl)) (newtonTol cfg r.x) || ltb (abs (fdf r.x).1) cfg.residTol) = true)) ∨
     (r.st = .enohalt ∧ r.iter = iter + k + 1)) ∧ r.iter ≤ iter + k + 1 := by
  intro k
  induction k with
  | zero => intro iter x0 x fx dfx; unfold newtonRootLoop; exact ⟨Or.inr ⟨rfl, by simp⟩, by simp⟩
  | succ k ih =>
    intro iter x0 x fx dfx
    unfold newtonRootLoop
    simp only []
    split
    · rename_i h; exact ⟨Or.inl ⟨rfl, Or.inl h⟩, by push_cast; omega⟩
    · split
      · rename_i h; exact ⟨Or.inl ⟨rfl, Or.inr h⟩, by push_cast; omega⟩
      · have := ih (iter + 1) x (x - fx / dfx) (fdf (x - fx / dfx)).1 (fdf (x - fx / dfx)).2
        simp only [] at this
        obtain ⟨h1, h2⟩ := this
        refine ⟨?_, by push_cast; omega⟩
        rcases h1 with h1 | ⟨h1, h1'⟩
        · exact Or.inl h1
        · exact Or.inr ⟨h1, by push_cast; omega⟩

/-- `esl_root_NewtonRaphson`, every function and numeric class: total (at most `max_iter - iter` steps); status eslOK or eslENOHALT;
    eslOK exactly when the last step produced `f(x) == 0`, or `|x - x0| < abs_tolerance + rel_tolerance·x`, or `|f(x)| < residual_tol` -/
theorem rootNewton_status (cfg : RootCfg α) (fdf : α → α × α) (iter0 : Int) (x0 guess : α) :
    let r := rootNewton cfg fdf iter0 x0 guess
    (r.st = .ok ∧ (eqb (fdf r.x).1 zero = true ∨
        (ltb (abs (r.x - r.xl)) (newtonTol cfg r.x) || ltb (abs (fdf r.x).1) cfg.residTol) = true)) ∨
    (r.st = .enohalt ∧ r.iter = iter0 + (cfg.maxIter - iter0).toNat + 1) := by
  simp only []
  unfold rootNewton
  exact (newtonRootLoop_status cfg fdf _ iter0 x0 guess (fdf guess).1 (fdf guess).2).1

end EaselModel.Stats
