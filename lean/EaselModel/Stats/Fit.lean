import EaselModel.Stats.Histogram
import EaselModel.Generated.C11Src
/-! # Executable model of the maximum-likelihood fits (C11, kind H)

`esl_exp_FitComplete`, `esl_exp_FitCompleteScale`, `esl_exp_FitCompleteBinned`, `esl_lognormal_FitComplete`,
`esl_stats_DMean`, gumbel `lawless416`, `lawless422`, `esl_gumbel_FitComplete`, `FitCompleteLoc`, `FitCensored`,
`FitCensoredLoc` — same operation order as the C code, over the numeric class `Num`
(`Float`: bit-exact against the C build; `ℝ`: theorems in `FitLemmas.lean`). Core Lean only.

Iterations are fuel-bounded with the caps that are in the code (100 Newton steps, 100 bisection steps); the one loop
of the code that has no cap (`while (fx > 0.) right *= 2.`) gets `bracketFuel` and the outcome `.hang` when it is
exhausted. -/
namespace EaselModel.Stats
open Num

/-- result of a fit: status and returned parameters, or a fault / a non-terminating loop -/
inductive FitRes (α : Type) | res (st : St) (params : Array α) | fault | hang
  deriving Inhabited

variable {α : Type} [Num α]

/-- `s = 0.; for (i..) s += f(x[i]);` -/
@[inline] def sumMap (f : α → α) (xs : Array α) : α := xs.foldl (fun acc x => acc + f x) zero

def piConst : α := (3.14159265358979323846264338328 : α)

/-! ## exponential -/

/-- `mu = x[0]; for (i = 1..) if (x[i] < mu) mu = x[i];` -/
def minOf (xs : Array α) (x0 : α) : α := xs.foldl (fun mu x => if ltb x mu then x else mu) x0

/-- `esl_exp_FitComplete()` → `(mu, lambda)` -/
def expFitComplete (xs : Array α) : FitRes α :=
  if xs.size == 0 then .res .einval #[zero, zero] else
  let mu := minOf xs (xs.getD 0 zero)
  let mean := sumMap (fun x => x - mu) xs / ofInt xs.size
  .res .ok #[mu, one / mean]

/-- `esl_exp_FitCompleteScale()` → `(lambda)` -/
def expFitCompleteScale (xs : Array α) (mu : α) : FitRes α :=
  let mean := sumMap (fun x => x - mu) xs / ofInt xs.size
  .res .ok #[one / mean]

/-- the occupied-bin loop of `esl_exp_FitCompleteBinned()`: `(sa, sb)` -/
def expBinnedSums (h : Hist α) (mu : α) : Nat → Int → α → α → Out (α × α)
  | 0, _, sa, sb => .val (sa, sb)
  | k+1, i, sa, sb =>
    match getObs h.obs i with
    | .fault => .fault
    | .val c =>
      if c == 0 then expBinnedSums h mu k (i+1) sa sb else
      let ai := h.lbound i
      let bi := h.ubound i
      expBinnedSums h mu k (i+1) (sa + ofInt c * (ai - mu)) (sb + ofInt c * (bi - mu))

/-- `esl_exp_FitCompleteBinned()` → `(mu, lambda)` -/
def expFitCompleteBinned (h : Hist α) : FitRes α :=
  match h.datasetIs with
  | .trueCensored => .res .einval #[]
  | ds =>
    let mu := match ds with
      | .complete => if h.isRounded then h.lbound h.imin else h.xmin
      | _ => h.phi
    match expBinnedSums h mu (h.imax - h.cmin + 1).toNat h.cmin zero zero with
    | .fault => .fault
    | .val (sa, sb) => .res .ok #[mu, one / h.w * (log sb - log sa)]

/-! ## log-normal -/

/-- Kahan-compensated `Σ f(x_i)` exactly as coded: `y = f - c; t = s + y; c = (t - s) - y; s = t` -/
def kahanSum (f : α → α) (xs : Array α) : α :=
  (xs.foldl (fun (sc : α × α) x =>
      let y := f x - sc.2
      let t := sc.1 + y
      (t, (t - sc.1) - y)) (zero, zero)).1

/-- `esl_lognormal_FitComplete()` → `(mu, sigma)` -/
def lognormalFitComplete (xs : Array α) : FitRes α :=
  let n : α := ofInt xs.size
  let mu := kahanSum (fun x => log x) xs / n
  let ss := kahanSum (fun x => let z := log x - mu; z * z) xs
  .res .ok #[mu, sqrt (ss / ofInt ((xs.size : Int) - 1))]

/-- `esl_lognormal_FitCountHistogram(c, n)` with `c = c[0..n]` → `(mu, sigma)` -/
def lognormalFitCountHistogram (c : Array α) : FitRes α :=
  let bad : FitRes α := .res .einval #[-(one / zero), -(one / zero)]
  if !(eqb (c.getD 0 zero) zero) then bad else
  let idx := (List.range c.size).tail
  -- first pass (stops with eslEINVAL at the first negative count)
  if idx.any (fun i => !(gtb (c.getD i zero) zero) && ltb (c.getD i zero) zero) then bad else
  let (mu, ntot) := idx.foldl (fun (a : α × α) i =>
      let ci := c.getD i zero
      if gtb ci zero then (a.1 + ci * log (ofInt i), a.2 + ci) else a) (zero, zero)
  if leb ntot zero then bad else
  let mu := mu / ntot
  let sigma := idx.foldl (fun (acc : α) i =>
      let ci := c.getD i zero
      if gtb ci zero then let z := log (ofInt i) - mu; acc + ci * z * z else acc) zero
  .res .ok #[mu, sqrt (sigma / (ntot - one))]

/-! ## Gumbel -/

/-- `esl_stats_DMean()` → `(mean, variance)` -/
def dmean (xs : Array α) : α × α :=
  let sum := sumMap (fun x => x) xs
  let sqsum := sumMap (fun x => x * x) xs
  let n : α := ofInt xs.size
  (sum / n, if xs.size > 1 then abs ((sqsum - sum * sum / n) / (n - one)) else zero)

/-- `exp(-1. * lambda * x)` -/
@[inline] def eneg (lambda x : α) : α := exp (-one * lambda * x)

/-- `lawless416()` → `(f, df)` -/
def lawless416 (xs : Array α) (lambda : α) : α × α :=
  let xsum := sumMap (fun x => x) xs
  let xesum := sumMap (fun x => x * eneg lambda x) xs
  let xxesum := sumMap (fun x => x * x * eneg lambda x) xs
  let esum := sumMap (fun x => eneg lambda x) xs
  let n : α := ofInt xs.size
  ((one / lambda) - (xsum / n) + (xesum / esum),
   ((xesum / esum) * (xesum / esum)) - (xxesum / esum) - (one / (lambda * lambda)))

/-- `lawless422()` → `(f, df)` -/
def lawless422 (xs : Array α) (z : Int) (phi lambda : α) : α × α :=
  let xsum := sumMap (fun x => x) xs
  let esum := sumMap (fun x => eneg lambda x) xs
  let xesum := sumMap (fun x => x * eneg lambda x) xs
  let xxesum := sumMap (fun x => x * x * eneg lambda x) xs
  let zf : α := ofInt z
  let esum := esum + zf * eneg lambda phi
  let xesum := xesum + zf * phi * eneg lambda phi
  let xxesum := xxesum + zf * phi * phi * eneg lambda phi
  let n : α := ofInt xs.size
  (one / lambda - xsum / n + xesum / esum,
   ((xesum / esum) * (xesum / esum)) - (xxesum / esum) - (one / (lambda * lambda)))

def tol : α := (1e-5 : α)

/-- `for (i = 0; i < 100; i++) { f(lambda); if (fabs(fx) < tol) break; lambda -= fx/dfx; if (lambda <= 0.) lambda = 0.001; }`
    → `(i, lambda)`; `k` = remaining iterations -/
def newtonLoop (f : α → α × α) : Nat → Nat → α → Nat × α
  | 0, i, lambda => (i, lambda)
  | k+1, i, lambda =>
    let (fx, dfx) := f lambda
    if ltb (abs fx) tol then (i, lambda) else
    let lambda := lambda - fx / dfx
    let lambda := if leb lambda zero then (0.001 : α) else lambda
    newtonLoop f k (i+1) lambda

/-- `while (fx > 0.) { right *= 2.; if (right > 1000.) FAIL; f(right); }` → `some right` / `none` (failed to bracket);
    `.hang` when the fuel runs out (the C loop has no cap) -/
def bracketLoop (f : α → α × α) : Nat → α → α → Out (Option α)
  | 0, _, _ => .fault
  | k+1, fx, right =>
    if gtb fx zero then
      let right := right * (2.0 : α)
      if gtb right (1000.0 : α) then .val none else
      bracketLoop f k (f right).1 right
    else .val (some right)

/-- a double can be doubled at most 2098 times before it exceeds 1000 — unless it is 0 -/
def bracketFuel : Nat := 2200

/-- `for (i = 0; i < 100; i++) { mid = (left+right)/2.; f(mid); if (fabs(fx) < tol) break; if (fx > 0.) left = mid; else right = mid; }`
    → `(i, mid)` -/
def bisectLoop (f : α → α × α) : Nat → Nat → α → α → α → Nat × α
  | 0, i, _, _, mid => (i, mid)
  | k+1, i, left, right, _ =>
    let mid := (left + right) / (2.0 : α)
    let fx := (f mid).1
    if ltb (abs fx) tol then (i, mid) else
    if gtb fx zero then bisectLoop f k (i+1) mid right mid else bisectLoop f k (i+1) left mid mid

/-- steps 1–2.5 shared by `esl_gumbel_FitComplete()` / `FitCensored()`: ML lambda, or failure.
    `firstAtRight`: `FitCensored` evaluates the first bracketing test at `right`, `FitComplete` at the Newton leftover. -/
def gumbelLambda (f : α → α × α) (variance : α) (firstAtRight : Bool) : Out (Option α) :=
  let lambda0 := piConst / sqrt ((6.0 : α) * variance)
  let (i, lambda) := newtonLoop f 100 0 lambda0
  if i != 100 then .val (some lambda) else
  let right := piConst / sqrt ((6.0 : α) * variance)
  -- `FitCensored` only: `if (! (right > 0.)) { status = eslENORESULT; goto FAILURE; }`
  if firstAtRight && !(gtb right zero) then .val none else
  let fx := (f (if firstAtRight then right else lambda)).1
  match bracketLoop f bracketFuel fx right with
  | .fault => .fault
  | .val none => .val none
  | .val (some right) =>
    let (i, mid) := bisectLoop f 100 0 zero right zero
    if i == 100 then .val none else .val (some mid)

/-- `esl_gumbel_FitComplete()` → `(mu, lambda)` -/
def gumbelFitComplete (xs : Array α) : FitRes α :=
  if xs.size ≤ 1 then .res .einval #[zero, zero] else
  let variance := (dmean xs).2
  match gumbelLambda (lawless416 xs) variance fitCompleteBracketsAtRight with
  | .fault => .hang
  | .val none => .res .enoresult #[zero, zero]
  | .val (some lambda) =>
    let esum := sumMap (fun x => exp (-lambda * x)) xs
    let mu := -(log (esum / ofInt xs.size)) / lambda
    .res .ok #[mu, lambda]

/-- `esl_gumbel_FitCompleteLoc()` → `(mu)` -/
def gumbelFitCompleteLoc (xs : Array α) (lambda : α) : FitRes α :=
  if xs.size ≤ 1 then .res .einval #[zero] else
  let esum := sumMap (fun x => exp (-lambda * x)) xs
  .res .ok #[-(log (esum / ofInt xs.size)) / lambda]

/-- `esl_gumbel_FitCensored()` → `(mu, lambda)` -/
def gumbelFitCensored (xs : Array α) (z : Int) (phi : α) : FitRes α :=
  if xs.size ≤ 1 then .res .einval #[zero, zero] else
  let variance := (dmean xs).2
  match gumbelLambda (lawless422 xs z phi) variance true with
  | .fault => .hang
  | .val none => .res .enoresult #[zero, zero]
  | .val (some lambda) =>
    let esum := sumMap (fun x => exp (-lambda * x)) xs
    let esum := esum + ofInt z * exp (-one * lambda * phi)
    let mu := -(log (esum / ofInt xs.size)) / lambda
    .res .ok #[mu, lambda]

/-- `esl_gumbel_FitCensoredLoc()` → `(mu)` -/
def gumbelFitCensoredLoc (xs : Array α) (z : Int) (phi lambda : α) : FitRes α :=
  if xs.size ≤ 1 then .res .einval #[zero] else
  let esum := sumMap (fun x => exp (-lambda * x)) xs
  let esum := esum + ofInt z * exp (-one * lambda * phi)
  .res .ok #[-(log (esum / ofInt xs.size)) / lambda]

/-- dispatcher used by the driver: `a`, `b`, `z` are the extra arguments of the variant -/
def runFit (kind : String) (xs : Array α) (a b : α) (z : Int) : Option (FitRes α) :=
  match kind with
  | "exp" => some (expFitComplete xs)
  | "expscale" => some (expFitCompleteScale xs a)
  | "lognormal" => some (lognormalFitComplete xs)
  | "gumbel" => some (gumbelFitComplete xs)
  | "gumbelloc" => some (gumbelFitCompleteLoc xs a)
  | "gumbelcens" => some (gumbelFitCensored xs z a)
  | "gumbelcensloc" => some (gumbelFitCensoredLoc xs z a b)
  | _ => none

end EaselModel.Stats
