import EaselModel.Stats.Fit
import Mathlib.Analysis.SpecialFunctions.Log.Deriv
import Mathlib.Analysis.SpecialFunctions.Pow.Real
import Mathlib.Analysis.SpecialFunctions.Sqrt
import Mathlib.Tactic.Linarith
import Mathlib.Tactic.Ring
import Mathlib.Tactic.FieldSimp
/-! # The fits as real functions (C11): instance `Num ℝ` and the likelihood theorems

The same definitions that run bit-for-bit against the C code (`Fit.lean`, `Float` instance) are read here over `ℝ`.
Nothing is claimed about binary64 rounding (layer L0). -/
namespace EaselModel.Stats
open Real

noncomputable instance : Num ℝ where
  ofInt i := (i : ℝ)
  ltb a b := decide (a < b)
  leb a b := decide (a ≤ b)
  eqb a b := decide (a = b)
  ceil q := ((⌈q⌉ : Int) : ℝ)
  toInt q := if 0 ≤ q then ⌊q⌋ else ⌈q⌉
  isFinite _ := true
  exp := Real.exp
  log := Real.log
  sqrt := Real.sqrt
  abs q := |q|
  pow := Real.rpow
  dblMax := (2^53 - 1) * 2^971

@[simp] theorem ofInt_r (i : Int) : (Num.ofInt i : ℝ) = (i : ℝ) := rfl
@[simp] theorem zero_r : (Num.zero : ℝ) = 0 := by show ((0 : Int) : ℝ) = 0; simp
@[simp] theorem one_r : (Num.one : ℝ) = 1 := by show ((1 : Int) : ℝ) = 1; simp
@[simp] theorem ltb_r (a b : ℝ) : (Num.ltb a b = true) ↔ a < b := by simp [Num.ltb]
@[simp] theorem leb_r (a b : ℝ) : (Num.leb a b = true) ↔ a ≤ b := by simp [Num.leb]
@[simp] theorem gtb_r (a b : ℝ) : (Num.gtb a b = true) ↔ b < a := by simp [Num.gtb, Num.ltb]
@[simp] theorem exp_r (a : ℝ) : (Num.exp a : ℝ) = Real.exp a := rfl
@[simp] theorem log_r (a : ℝ) : (Num.log a : ℝ) = Real.log a := rfl
@[simp] theorem abs_r (a : ℝ) : (Num.abs a : ℝ) = |a| := rfl

/-- the accumulation loop is the sum -/
theorem foldl_add (f : ℝ → ℝ) (l : List ℝ) (a : ℝ) : l.foldl (fun acc x => acc + f x) a = a + (l.map f).sum := by
  induction l generalizing a with
  | nil => simp
  | cons x t ih => rw [List.foldl_cons, ih, List.map_cons, List.sum_cons]; ring

theorem sumMap_r (f : ℝ → ℝ) (xs : Array ℝ) : sumMap f xs = (xs.toList.map f).sum := by
  unfold sumMap
  rw [← Array.foldl_toList, foldl_add, zero_r, zero_add]

/-- the running minimum is a lower bound and is attained -/
theorem foldl_min (l : List ℝ) (a : ℝ) :
    let m := l.foldl (fun mu x => if Num.ltb x mu then x else mu) a
    (m ≤ a ∧ ∀ x ∈ l, m ≤ x) ∧ (m = a ∨ m ∈ l) := by
  induction l generalizing a with
  | nil => simp
  | cons x t ih =>
    simp only [List.foldl_cons]
    by_cases c : x < a
    · have hc : Num.ltb x a = true := (ltb_r _ _).2 c
      rw [if_pos hc]
      obtain ⟨⟨h1, h2⟩, h3⟩ := ih x
      refine ⟨⟨le_trans h1 (le_of_lt c), ?_⟩, ?_⟩
      · intro y hy
        rcases List.mem_cons.1 hy with rfl | hy
        · exact h1
        · exact h2 y hy
      · rcases h3 with h3 | h3
        · right; rw [h3]; exact List.mem_cons_self
        · right; exact List.mem_cons_of_mem _ h3
    · have hc : ¬ Num.ltb x a = true := by rw [ltb_r]; exact c
      rw [if_neg hc]
      obtain ⟨⟨h1, h2⟩, h3⟩ := ih a
      refine ⟨⟨h1, ?_⟩, ?_⟩
      · intro y hy
        rcases List.mem_cons.1 hy with rfl | hy
        · exact le_trans h1 (not_lt.1 c)
        · exact h2 y hy
      · rcases h3 with h3 | h3
        · left; exact h3
        · right; exact List.mem_cons_of_mem _ h3

/-! ## exponential -/

/-- log-likelihood of the exponential with location `mu` and rate `lam` (valid for `mu ≤ min xs`) -/
noncomputable def llExp (xs : List ℝ) (mu lam : ℝ) : ℝ := xs.length * Real.log lam - lam * (xs.map (fun x => x - mu)).sum

/-- in `lam`, the log-likelihood `n log lam - lam S` (`S > 0`) is maximal exactly at `lam = n / S` -/
theorem exp_rate_max (n S lam : ℝ) (hn : 0 < n) (hS : 0 < S) (hl : 0 < lam) :
    n * Real.log lam - lam * S ≤ n * Real.log (n / S) - (n / S) * S ∧
    (n * Real.log lam - lam * S = n * Real.log (n / S) - (n / S) * S → lam = n / S) := by
  have hr : 0 < lam * S / n := by positivity
  have hlog : Real.log (lam * S / n) ≤ lam * S / n - 1 := Real.log_le_sub_one_of_pos hr
  have e1 : Real.log (lam * S / n) = Real.log lam - Real.log (n / S) := by
    rw [show lam * S / n = lam / (n / S) by field_simp, Real.log_div (ne_of_gt hl) (by positivity)]
  have e2 : n / S * S = n := by field_simp
  constructor
  · rw [e2]
    have : n * (Real.log lam - Real.log (n / S)) ≤ n * (lam * S / n - 1) := by
      rw [← e1]; exact mul_le_mul_of_nonneg_left hlog (le_of_lt hn)
    have e3 : n * (lam * S / n - 1) = lam * S - n := by field_simp
    linarith
  · intro heq
    rw [e2] at heq
    -- equality forces log r = r - 1, hence r = 1
    have hr1 : Real.log (lam * S / n) = lam * S / n - 1 := by
      have e3 : n * (lam * S / n - 1) = lam * S - n := by field_simp
      have : n * Real.log (lam * S / n) = n * (lam * S / n - 1) := by rw [e1, e3]; linarith
      exact mul_left_cancel₀ (ne_of_gt hn) this
    have : lam * S / n = 1 := by
      by_contra hne
      have := Real.log_lt_sub_one_of_pos hr hne
      linarith
    field_simp at this ⊢
    linarith

end EaselModel.Stats

namespace EaselModel.Stats
open Real

theorem sum_sub_const (l : List ℝ) (c : ℝ) : (l.map (fun x => x - c)).sum = l.sum - l.length * c := by
  induction l with
  | nil => simp
  | cons a t ih => simp only [List.map_cons, List.sum_cons, List.length_cons, ih]; push_cast; ring

/-- what `esl_exp_FitComplete` returns on non-empty data: `mu` = the smallest observation, `lambda = 1/(mean - mu)` -/
theorem expFitComplete_eq (xs : Array ℝ) (hn : 0 < xs.size) :
    ∃ mu : ℝ, expFitComplete xs = .res .ok #[mu, 1 / ((xs.toList.map (fun x => x - mu)).sum / xs.size)] ∧
      mu ∈ xs.toList ∧ ∀ x ∈ xs.toList, mu ≤ x := by
  unfold expFitComplete
  have h0 : (xs.size == 0) = false := by rw [beq_eq_false_iff_ne]; omega
  simp only [h0, Bool.false_eq_true, if_false]
  have hx0 : xs.getD 0 Num.zero ∈ xs.toList := by
    rw [Array.getD_eq_getD_getElem?]
    have : xs[0]? = some xs[0] := by simp [hn]
    rw [this]; simp
  obtain ⟨⟨h1, h2⟩, h3⟩ := foldl_min xs.toList (xs.getD 0 Num.zero)
  refine ⟨minOf xs (xs.getD 0 Num.zero), ?_, ?_, ?_⟩
  · rw [sumMap_r, one_r]; rfl
  · unfold minOf; rw [← Array.foldl_toList]
    rcases h3 with h3 | h3
    · rw [h3]; exact hx0
    · exact h3
  · unfold minOf; rw [← Array.foldl_toList]; exact h2

/-- **exponential fit = likelihood maximiser.** For data with two distinct values (`Σ(xᵢ - min) > 0`), the returned
    `(mu, lambda)` maximises `n log λ - λ Σ(xᵢ - μ)` over all admissible `μ' ≤ min xᵢ`, `λ' > 0`, and `lambda` is the unique
    maximiser in `λ` at the returned `mu`. -/
theorem exp_fit_maximises (xs : List ℝ) (mu : ℝ) (hmu : ∀ x ∈ xs, mu ≤ x) (hS : 0 < (xs.map (fun x => x - mu)).sum)
    (hn : 0 < xs.length) (mu' lam' : ℝ) (hmu' : mu' ≤ mu) (hl : 0 < lam') :
    let lam := 1 / ((xs.map (fun x => x - mu)).sum / xs.length)
    llExp xs mu' lam' ≤ llExp xs mu lam ∧ (llExp xs mu lam' = llExp xs mu lam → lam' = lam) := by
  intro lam
  have hnr : (0 : ℝ) < xs.length := by exact_mod_cast hn
  have elam : lam = (xs.length : ℝ) / (xs.map (fun x => x - mu)).sum := by
    show 1 / ((xs.map (fun x => x - mu)).sum / xs.length) = _
    rw [one_div, inv_div]
  obtain ⟨m1, m2⟩ := exp_rate_max xs.length ((xs.map (fun x => x - mu)).sum) lam' hnr hS hl
  unfold llExp
  rw [elam]
  refine ⟨?_, m2⟩
  have : (xs.map (fun x => x - mu)).sum ≤ (xs.map (fun x => x - mu')).sum := by
    rw [sum_sub_const, sum_sub_const]
    have : (xs.length : ℝ) * mu' ≤ xs.length * mu := mul_le_mul_of_nonneg_left hmu' (le_of_lt hnr)
    linarith
  have : lam' * (xs.map (fun x => x - mu)).sum ≤ lam' * (xs.map (fun x => x - mu')).sum :=
    mul_le_mul_of_nonneg_left this (le_of_lt hl)
  linarith

/-! ## Gumbel -/

/-- Gumbel log-likelihood with `z` observations left-censored at `phi` (`z = 0`: complete data) -/
noncomputable def llGumbel (xs : List ℝ) (z : ℝ) (phi mu lam : ℝ) : ℝ :=
  xs.length * Real.log lam - (xs.map (fun x => lam * (x - mu))).sum - (xs.map (fun x => Real.exp (-lam * (x - mu)))).sum
    - z * Real.exp (-lam * (phi - mu))

/-- `Σ exp(-λ xᵢ) + z exp(-λ φ)` -/
noncomputable def gS (xs : List ℝ) (z phi lam : ℝ) : ℝ := (xs.map (fun x => Real.exp (-lam * x))).sum + z * Real.exp (-lam * phi)

theorem sum_map_mul_left (l : List ℝ) (c : ℝ) (f : ℝ → ℝ) : (l.map (fun x => c * f x)).sum = c * (l.map f).sum := by
  induction l with
  | nil => simp
  | cons a t ih => simp only [List.map_cons, List.sum_cons, ih]; ring

/-- the log-likelihood in closed form: `n log λ - λ Σx + nλμ - e^{λμ} S(λ)` -/
theorem llGumbel_closed (xs : List ℝ) (z phi mu lam : ℝ) :
    llGumbel xs z phi mu lam = xs.length * Real.log lam - lam * xs.sum + xs.length * (lam * mu) - Real.exp (lam * mu) * gS xs z phi lam := by
  unfold llGumbel gS
  have e1 : (xs.map (fun x => lam * (x - mu))).sum = lam * xs.sum - xs.length * (lam * mu) := by
    rw [sum_map_mul_left xs lam (fun x => x - mu), sum_sub_const]; ring
  have e2 : (xs.map (fun x => Real.exp (-lam * (x - mu)))).sum = Real.exp (lam * mu) * (xs.map (fun x => Real.exp (-lam * x))).sum := by
    rw [← sum_map_mul_left]
    congr 1; apply List.map_congr_left; intro x _
    rw [← Real.exp_add]; congr 1; ring
  have e3 : Real.exp (-lam * (phi - mu)) = Real.exp (lam * mu) * Real.exp (-lam * phi) := by
    rw [← Real.exp_add]; congr 1; ring
  rw [e1, e2, e3]; ring

/-- **Lawless 4.1.5 / 4.2.3: for the given `λ` the returned `μ` is the exact maximiser in `μ`.**
    `μ̂ = -log(S(λ)/n)/λ` with `S = Σ e^{-λxᵢ} + z e^{-λφ}`; for every `μ'`: `logL(μ', λ) ≤ logL(μ̂, λ)`. -/
theorem gumbel_mu_maximises (xs : List ℝ) (z phi lam : ℝ) (hn : 0 < xs.length) (hl : 0 < lam) (hS : 0 < gS xs z phi lam) (mu' : ℝ) :
    llGumbel xs z phi mu' lam ≤ llGumbel xs z phi (-(Real.log (gS xs z phi lam / xs.length)) / lam) lam := by
  have hnr : (0 : ℝ) < xs.length := by exact_mod_cast hn
  rw [llGumbel_closed, llGumbel_closed]
  set S := gS xs z phi lam
  set n : ℝ := (xs.length : ℝ)
  have hmu : lam * (-(Real.log (S / n)) / lam) = -Real.log (S / n) := by field_simp
  rw [hmu, Real.exp_neg, Real.exp_log (by positivity)]
  have e : (S / n)⁻¹ * S = n := by field_simp
  rw [e]
  -- n t' - S e^{t'} ≤ n t̂ - n  with t̂ = -log(S/n): e^u ≥ 1 + u for u = t' - t̂
  have hu := Real.add_one_le_exp (lam * mu' + Real.log (S / n))
  have e2 : Real.exp (lam * mu' + Real.log (S / n)) = Real.exp (lam * mu') * (S / n) := by
    rw [Real.exp_add, Real.exp_log (by positivity)]
  rw [e2] at hu
  have : n * (lam * mu' + Real.log (S / n) + 1) ≤ n * (Real.exp (lam * mu') * (S / n)) := mul_le_mul_of_nonneg_left hu (le_of_lt hnr)
  have e3 : n * (Real.exp (lam * mu') * (S / n)) = Real.exp (lam * mu') * S := by field_simp
  rw [e3] at this
  nlinarith

end EaselModel.Stats

namespace EaselModel.Stats
open Real

/-- `Σ xᵢ e^{-λxᵢ} + z φ e^{-λφ}` -/
noncomputable def gT (xs : List ℝ) (z phi lam : ℝ) : ℝ := (xs.map (fun x => x * Real.exp (-lam * x))).sum + z * phi * Real.exp (-lam * phi)

theorem hasDerivAt_exp_neg_mul (x lam : ℝ) : HasDerivAt (fun l : ℝ => Real.exp (-l * x)) (-(x * Real.exp (-lam * x))) lam := by
  have h1 : HasDerivAt (fun l : ℝ => -l * x) (-x) lam := by
    have := (hasDerivAt_id' lam).neg.mul_const x
    simpa using this
  have := h1.exp
  convert this using 1; ring

theorem hasDerivAt_sum_exp (xs : List ℝ) (lam : ℝ) :
    HasDerivAt (fun l : ℝ => (xs.map (fun x => Real.exp (-l * x))).sum) (-(xs.map (fun x => x * Real.exp (-lam * x))).sum) lam := by
  induction xs with
  | nil => simpa using hasDerivAt_const lam (0 : ℝ)
  | cons a t ih =>
    simp only [List.map_cons, List.sum_cons]
    have := (hasDerivAt_exp_neg_mul a lam).add ih
    exact this.congr_deriv (by ring)

theorem hasDerivAt_gS (xs : List ℝ) (z phi lam : ℝ) : HasDerivAt (fun l => gS xs z phi l) (-(gT xs z phi lam)) lam := by
  unfold gS gT
  have h2 := (hasDerivAt_exp_neg_mul phi lam).const_mul z
  have := (hasDerivAt_sum_exp xs lam).add h2
  exact this.congr_deriv (by ring)

/-- the profile log-likelihood `λ ↦ max_μ logL(μ, λ) = n log λ - λ Σx - n log(S(λ)/n) - n` -/
noncomputable def llGumbelProfile (xs : List ℝ) (z phi lam : ℝ) : ℝ :=
  xs.length * Real.log lam - lam * xs.sum - xs.length * Real.log (gS xs z phi lam / xs.length) - xs.length

/-- the profile really is the likelihood at the maximising `μ` -/
theorem llGumbelProfile_eq (xs : List ℝ) (z phi lam : ℝ) (hn : 0 < xs.length) (hl : 0 < lam) (hS : 0 < gS xs z phi lam) :
    llGumbelProfile xs z phi lam = llGumbel xs z phi (-(Real.log (gS xs z phi lam / xs.length)) / lam) lam := by
  have hnr : (0 : ℝ) < xs.length := by exact_mod_cast hn
  rw [llGumbel_closed]
  unfold llGumbelProfile
  have hmu : lam * (-(Real.log (gS xs z phi lam / xs.length)) / lam) = -Real.log (gS xs z phi lam / xs.length) := by field_simp
  rw [hmu, Real.exp_neg, Real.exp_log (by positivity)]
  have e : (gS xs z phi lam / xs.length)⁻¹ * gS xs z phi lam = xs.length := by field_simp
  rw [e]; ring

/-- Lawless eq. 4.1.6 / 4.2.2 as a real function of `λ` -/
noncomputable def lawlessF (xs : List ℝ) (z phi lam : ℝ) : ℝ := 1 / lam - xs.sum / xs.length + gT xs z phi lam / gS xs z phi lam

/-- **`lawless416`/`lawless422` is the derivative of the profile log-likelihood** (per sample): `d/dλ profile = n · f(λ)`.
    So a `λ` returned with `|f| < tol` is stationary within `n·tol`. -/
theorem lawless_is_profile_derivative (xs : List ℝ) (z phi lam : ℝ) (hn : 0 < xs.length) (hl : 0 < lam) (hS : 0 < gS xs z phi lam) :
    HasDerivAt (fun l => llGumbelProfile xs z phi l) (xs.length * lawlessF xs z phi lam) lam := by
  have hnr : (0 : ℝ) < xs.length := by exact_mod_cast hn
  unfold llGumbelProfile lawlessF
  have h1 : HasDerivAt (fun l : ℝ => (xs.length : ℝ) * Real.log l) ((xs.length : ℝ) * lam⁻¹) lam :=
    (Real.hasDerivAt_log (ne_of_gt hl)).const_mul _
  have h2 : HasDerivAt (fun l : ℝ => l * xs.sum) xs.sum lam := hasDerivAt_mul_const _
  have h3 : HasDerivAt (fun l : ℝ => gS xs z phi l / xs.length) (-(gT xs z phi lam) / xs.length) lam :=
    (hasDerivAt_gS xs z phi lam).div_const _
  have h4 := (h3.log (by positivity)).const_mul (xs.length : ℝ)
  have := ((h1.sub h2).sub h4).sub (hasDerivAt_const lam (xs.length : ℝ))
  refine this.congr_deriv ?_
  field_simp
  ring

/-- the model's `lawless416` over ℝ is `lawlessF` with `z = 0` -/
theorem lawless416_r (xs : Array ℝ) (lam : ℝ) : (lawless416 xs lam).1 = lawlessF xs.toList 0 0 lam := by
  unfold lawless416 lawlessF gT gS
  simp only [sumMap_r, one_r, ofInt_r, eneg, exp_r, Array.length_toList]
  simp only [zero_mul, add_zero, List.map_id', neg_mul, one_mul, Int.cast_natCast]

/-- the model's `lawless422` over ℝ is `lawlessF` -/
theorem lawless422_r (xs : Array ℝ) (z : Int) (phi lam : ℝ) : (lawless422 xs z phi lam).1 = lawlessF xs.toList z phi lam := by
  unfold lawless422 lawlessF gT gS
  simp only [sumMap_r, one_r, ofInt_r, eneg, exp_r, Array.length_toList]
  simp only [List.map_id', neg_mul, one_mul, Int.cast_natCast]

end EaselModel.Stats

namespace EaselModel.Stats
open Real

section Loops
variable {α : Type} [Num α]

/-- Newton/Raphson as coded: if it stops before the iteration cap, the last evaluated `|f|` is below the tolerance -/
theorem newtonLoop_stop (f : α → α × α) : ∀ (k i : Nat) (lam : α),
    (newtonLoop f k i lam).1 < i + k → Num.ltb (Num.abs (f (newtonLoop f k i lam).2).1) tol = true := by
  intro k
  induction k with
  | zero => intro i lam h; simp [newtonLoop] at h
  | succ k ih =>
    intro i lam h
    unfold newtonLoop at h ⊢
    simp only [] at h ⊢
    cases c : Num.ltb (Num.abs (f lam).1) tol
    · simp only [c, Bool.false_eq_true, if_false] at h ⊢
      exact ih _ _ (by omega)
    · simp only [c, if_true]

/-- the iteration counter never exceeds the cap: the loop is total by construction (100 steps) -/
theorem newtonLoop_le (f : α → α × α) : ∀ (k i : Nat) (lam : α), (newtonLoop f k i lam).1 ≤ i + k := by
  intro k
  induction k with
  | zero => intro i lam; simp [newtonLoop]
  | succ k ih =>
    intro i lam
    unfold newtonLoop
    simp only []
    cases c : Num.ltb (Num.abs (f lam).1) tol
    · simp only [Bool.false_eq_true, if_false]
      have := ih (i+1) (if Num.leb ((lam - (f lam).1 / (f lam).2)) Num.zero = true then (0.001 : α) else (lam - (f lam).1 / (f lam).2))
      omega
    · simp only [if_true]; omega

/-- bisection as coded: stopping before the cap means `|f(mid)| < tol` -/
theorem bisectLoop_stop (f : α → α × α) : ∀ (k i : Nat) (l r m : α),
    (bisectLoop f k i l r m).1 < i + k → Num.ltb (Num.abs (f (bisectLoop f k i l r m).2).1) tol = true := by
  intro k
  induction k with
  | zero => intro i l r m h; simp [bisectLoop] at h
  | succ k ih =>
    intro i l r m h
    unfold bisectLoop at h ⊢
    simp only [] at h ⊢
    cases c : Num.ltb (Num.abs (f ((l + r) / (2.0 : α))).1) tol
    · simp only [c, Bool.false_eq_true, if_false] at h ⊢
      cases c2 : Num.gtb (f ((l + r) / (2.0 : α))).1 Num.zero
      · simp only [c2, Bool.false_eq_true, if_false] at h ⊢; exact ih _ _ _ _ (by omega)
      · simp only [c2, if_true] at h ⊢; exact ih _ _ _ _ (by omega)
    · simp only [c, if_true]

end Loops

theorem two_r : ((2.0 : ℝ)) = 2 := by norm_num
theorem thousand_r : ((1000.0 : ℝ)) = 1000 := by norm_num

/-- the only loop of the Gumbel fits without an iteration cap (`while (fx > 0.) { right *= 2.; if (right > 1000.) fail; … }`)
    ends within `k+1` rounds as soon as `right·2^k > 1000`, `right > 0`: every positive binary64 satisfies this for `k = 2199`
    (the smallest positive double is 2⁻¹⁰⁷⁴). `right ≤ 0` / NaN is rejected before the loop since b44f0f8. -/
theorem bracketLoop_terminates (f : ℝ → ℝ × ℝ) : ∀ (k : Nat) (fx right : ℝ), 0 < right → 1000 < right * 2 ^ k →
    bracketLoop f (k + 1) fx right ≠ .fault := by
  intro k
  induction k with
  | zero =>
    intro fx right h0 h hc
    unfold bracketLoop at hc
    simp only [] at hc
    cases c : Num.gtb fx (Num.zero : ℝ)
    · simp only [c, Bool.false_eq_true, if_false] at hc; cases hc
    · simp only [c, if_true] at hc
      have : Num.gtb (right * (2.0 : ℝ)) (1000.0 : ℝ) = true := by rw [gtb_r, two_r, thousand_r]; simp at h; linarith
      simp only [this, if_true] at hc; cases hc
  | succ k ih =>
    intro fx right h0 h hc
    unfold bracketLoop at hc
    simp only [] at hc
    cases c : Num.gtb fx (Num.zero : ℝ)
    · simp only [c, Bool.false_eq_true, if_false] at hc; cases hc
    · simp only [c, if_true] at hc
      cases c2 : Num.gtb (right * (2.0 : ℝ)) (1000.0 : ℝ)
      · simp only [c2, Bool.false_eq_true, if_false] at hc
        exact ih _ _ (by rw [two_r]; positivity) (by rw [two_r]; rw [pow_succ] at h; nlinarith [h]) hc
      · simp only [c2, if_true] at hc; cases hc

end EaselModel.Stats

namespace EaselModel.Stats
open Real

/-- steps 1–2.5 of `esl_gumbel_FitComplete/FitCensored`: a `λ` is only returned when the last evaluation had `|f(λ)| < tol` -/
theorem gumbelLambda_stationary {α : Type} [Num α] (f : α → α × α) (variance : α) (b : Bool) (lam : α)
    (h : gumbelLambda f variance b = .val (some lam)) : Num.ltb (Num.abs (f lam).1) tol = true := by
  unfold gumbelLambda at h
  simp only [] at h
  have hle := newtonLoop_le f 100 0 (piConst / Num.sqrt ((6.0 : α) * variance))
  have hst := newtonLoop_stop f 100 0 (piConst / Num.sqrt ((6.0 : α) * variance))
  by_cases c : (newtonLoop f 100 0 (piConst / Num.sqrt ((6.0 : α) * variance))).1 = 100
  · simp only [c, bne_self_eq_false, Bool.false_eq_true, if_false] at h
    split at h
    · cases h
    · split at h
      · cases h
      · cases h
      · rename_i right _
        have hle2 := bisectLoop_stop f 100 0 Num.zero right Num.zero
        split at h
        · cases h
        · rename_i c3
          injection h with h; injection h with h
          rw [← h]
          apply hle2
          have : ∀ k i (l r m : α), (bisectLoop f k i l r m).1 ≤ i + k := by
            intro k
            induction k with
            | zero => intro i l r m; simp [bisectLoop]
            | succ k ih =>
              intro i l r m
              unfold bisectLoop; simp only []
              split
              · omega
              · split
                · have := ih (i+1) ((l + r) / (2.0 : α)) r ((l + r) / (2.0 : α)); omega
                · have := ih (i+1) l ((l + r) / (2.0 : α)) ((l + r) / (2.0 : α)); omega
          have := this 100 0 Num.zero right Num.zero
          simp only [beq_iff_eq] at c3
          omega
  · have hne : ((newtonLoop f 100 0 (piConst / Num.sqrt ((6.0 : α) * variance))).1 != 100) = true := by
      rw [bne_iff_ne]; exact c
    simp only [hne, if_true] at h
    injection h with h; injection h with h
    rw [← h]
    exact hst (by omega)

/-- **`esl_gumbel_FitComplete` returning eslOK**: `λ` is stationary for the profile likelihood within the Newton tolerance
    (`|f(λ)| < 10⁻⁵`, `f` = derivative of the profile log-likelihood per sample), and `μ` is exactly Lawless 4.1.5 — the
    maximiser in `μ` for that `λ` (`gumbel_mu_maximises`). -/
theorem gumbelFitComplete_ok (xs : Array ℝ) (mu lam : ℝ) (h : gumbelFitComplete xs = .res .ok #[mu, lam]) :
    |lawlessF xs.toList 0 0 lam| < (1e-5 : ℝ) ∧ mu = -(Real.log (gS xs.toList 0 0 lam / xs.size)) / lam := by
  unfold gumbelFitComplete at h
  split at h
  · injection h with h1 _; cases h1
  · simp only [] at h
    split at h
    · cases h
    · injection h with h1 _; cases h1
    · rename_i lambda hl
      injection h with _ h2
      have e1 : -(Num.log (sumMap (fun x => Num.exp (-lambda * x)) xs / Num.ofInt (xs.size : Int)) : ℝ) / lambda = mu := by
        have := congrArg (fun a : Array ℝ => a.getD 0 0) h2; simpa using this
      have e2 : lambda = lam := by
        have := congrArg (fun a : Array ℝ => a.getD 1 0) h2; simpa using this
      subst e2
      have hs := gumbelLambda_stationary _ _ _ _ hl
      rw [ltb_r, abs_r, lawless416_r] at hs
      refine ⟨hs, ?_⟩
      rw [← e1, sumMap_r]
      unfold gS
      simp

end EaselModel.Stats

namespace EaselModel.Stats
open Real

/-- **`esl_gumbel_FitCensored` returning eslOK** (`z` values censored at `phi`): `|f₄.₂.₂(λ)| < 10⁻⁵` and `μ` is Lawless 4.2.3. -/
theorem gumbelFitCensored_ok (xs : Array ℝ) (z : Int) (phi mu lam : ℝ) (h : gumbelFitCensored xs z phi = .res .ok #[mu, lam]) :
    |lawlessF xs.toList z phi lam| < (1e-5 : ℝ) ∧ mu = -(Real.log (gS xs.toList z phi lam / xs.size)) / lam := by
  unfold gumbelFitCensored at h
  split at h
  · injection h with h1 _; cases h1
  · simp only [] at h
    split at h
    · cases h
    · injection h with h1 _; cases h1
    · rename_i lambda hl
      injection h with _ h2
      have e1 : -(Num.log ((sumMap (fun x => Num.exp (-lambda * x)) xs + Num.ofInt z * Num.exp (-Num.one * lambda * phi)) / Num.ofInt (xs.size : Int)) : ℝ) / lambda = mu := by
        have := congrArg (fun a : Array ℝ => a.getD 0 0) h2; simpa using this
      have e2 : lambda = lam := by
        have := congrArg (fun a : Array ℝ => a.getD 1 0) h2; simpa using this
      subst e2
      have hs := gumbelLambda_stationary _ _ _ _ hl
      rw [ltb_r, abs_r, lawless422_r] at hs
      refine ⟨hs, ?_⟩
      rw [← e1, sumMap_r]
      unfold gS
      simp

/-- the fixed-λ fits return exactly Lawless 4.1.5 / 4.2.3 -/
theorem gumbelFitCensoredLoc_eq (xs : Array ℝ) (z : Int) (phi lam : ℝ) (hn : 1 < xs.size) :
    gumbelFitCensoredLoc xs z phi lam = .res .ok #[-(Real.log (gS xs.toList z phi lam / xs.size)) / lam] := by
  unfold gumbelFitCensoredLoc
  rw [if_neg (by omega), sumMap_r]
  unfold gS
  simp

theorem gumbelFitCompleteLoc_eq (xs : Array ℝ) (lam : ℝ) (hn : 1 < xs.size) :
    gumbelFitCompleteLoc xs lam = .res .ok #[-(Real.log (gS xs.toList 0 0 lam / xs.size)) / lam] := by
  unfold gumbelFitCompleteLoc
  rw [if_neg (by omega), sumMap_r]
  unfold gS
  simp

/-- no Gumbel fit can run forever: the model's `.hang` outcome needs the uncapped bracketing loop to exhaust 2200 doublings,
    impossible once `right·2²¹⁹⁹ > 1000` (true for every positive binary64) -/
theorem gumbelLambda_no_hang (f : ℝ → ℝ × ℝ) (variance : ℝ) (b : Bool)
    (hr : b = true ∨ 0 < piConst / Num.sqrt ((6.0 : ℝ) * variance))
    (hbig : 0 < piConst / Num.sqrt ((6.0 : ℝ) * variance) → 1000 < piConst / Num.sqrt ((6.0 : ℝ) * variance) * 2 ^ 2199) :
    gumbelLambda f variance b ≠ .fault := by
  unfold gumbelLambda
  simp only []
  split
  · intro hc; cases hc
  · split
    · intro hc; cases hc
    · rename_i c2
      have hpos : 0 < piConst / Num.sqrt ((6.0 : ℝ) * variance) := by
        rcases hr with hb | hp
        · subst hb
          simp only [Bool.true_and, Bool.not_eq_true', ← Bool.not_eq_true] at c2
          by_contra hc
          apply c2
          simp only [Bool.not_eq_true', Bool.not_eq_true]
          rw [Bool.eq_false_iff]; intro h; rw [gtb_r, zero_r] at h; exact hc h
        · exact hp
      have := bracketLoop_terminates f 2199 ((f (if b = true then piConst / Num.sqrt ((6.0 : ℝ) * variance) else (newtonLoop f 100 0 (piConst / Num.sqrt ((6.0 : ℝ) * variance))).2)).1) _ hpos (hbig hpos)
      split
      · rename_i hc; exact absurd hc this
      · intro hc; cases hc
      · split <;> (intro hc; cases hc)

end EaselModel.Stats

namespace EaselModel.Stats
open Real

/-- over ℝ the Kahan compensation term is identically 0: the loop is the plain sum -/
theorem kahan_foldl (f : ℝ → ℝ) (l : List ℝ) (s : ℝ) :
    l.foldl (fun (sc : ℝ × ℝ) x => (sc.1 + (f x - sc.2), (sc.1 + (f x - sc.2) - sc.1) - (f x - sc.2))) (s, 0) = (s + (l.map f).sum, 0) := by
  induction l generalizing s with
  | nil => simp
  | cons a t ih =>
    simp only [List.foldl_cons, List.map_cons, List.sum_cons, sub_zero]
    have e : (s + f a - s) - f a = 0 := by ring
    rw [e, ih]; congr 1; ring

theorem kahanSum_r (f : ℝ → ℝ) (xs : Array ℝ) : kahanSum f xs = (xs.toList.map f).sum := by
  unfold kahanSum
  rw [← Array.foldl_toList]
  have := kahan_foldl f xs.toList 0
  simp only [zero_r]
  rw [this]; simp

/-- `esl_lognormal_FitComplete` over ℝ: `mu` = mean of the logs, `sigma² = Σ(log xᵢ - mu)²/(n-1)` (the unbiased variance of the logs:
    NOT the ML `1/n` — the log-normal `sigma` is `√(n/(n-1))` times the likelihood maximiser, by design of the routine) -/
theorem lognormalFitComplete_eq (xs : Array ℝ) :
    lognormalFitComplete xs = .res .ok #[(xs.toList.map Real.log).sum / xs.size,
      Real.sqrt ((xs.toList.map (fun x => (Real.log x - (xs.toList.map Real.log).sum / xs.size) * (Real.log x - (xs.toList.map Real.log).sum / xs.size))).sum / ((xs.size : ℝ) - 1))] := by
  unfold lognormalFitComplete
  simp only [kahanSum_r, ofInt_r, log_r]
  have e1 : ((((xs.size : Int) - 1 : Int)) : ℝ) = (xs.size : ℝ) - 1 := by push_cast; ring
  simp only [Int.cast_natCast, e1]
  rfl

/-- for ANY `σ > 0` the mean of the logs maximises the log-normal log-likelihood in `μ`:
    `Σ (aᵢ - μ')² ≥ Σ (aᵢ - ā)²` with `aᵢ = log xᵢ` -/
theorem mean_minimises_squares (a : List ℝ) (hn : 0 < a.length) (mu' : ℝ) :
    (a.map (fun x => (x - a.sum / a.length) * (x - a.sum / a.length))).sum ≤ (a.map (fun x => (x - mu') * (x - mu'))).sum := by
  have hnr : (0 : ℝ) < a.length := by exact_mod_cast hn
  have key : ∀ (l : List ℝ) (m c : ℝ), (l.map (fun x => (x - c) * (x - c))).sum =
      (l.map (fun x => (x - m) * (x - m))).sum + 2 * (m - c) * (l.sum - l.length * m) + l.length * ((m - c) * (m - c)) := by
    intro l m c
    induction l with
    | nil => simp
    | cons x t ih => simp only [List.map_cons, List.sum_cons, List.length_cons, ih]; push_cast; ring
  rw [key a (a.sum / a.length) mu']
  have e : a.sum - a.length * (a.sum / a.length) = 0 := by field_simp; ring
  rw [e]
  have : 0 ≤ (a.length : ℝ) * ((a.sum / a.length - mu') * (a.sum / a.length - mu')) := mul_nonneg (le_of_lt hnr) (mul_self_nonneg _)
  linarith

end EaselModel.Stats
