import EaselModel.Stats.HistExpect
import EaselModel.Stats.HistLemmas
/-! # Expected counts and goodness of fit: memory safety and accounting (C11), every numeric class. Core Lean only. -/
namespace EaselModel.Stats
open Num
set_option linter.unusedSectionVars false
variable {α : Type} [Num α]

/-! ## `SetExpect` / `SetExpectedTail` -/

theorem setExpectLoop_size (h : Hist α) (cdf : α → α) : ∀ (k : Nat) (i : Int) (acc : Array α) (emin : Int),
    (setExpectLoop h cdf k i acc emin).1.size = acc.size + k := by
  intro k
  induction k with
  | zero => intro i acc emin; rfl
  | succ k ih => intro i acc emin; unfold setExpectLoop; simp only []; rw [ih]; simp only [Array.size_push]; omega

/-- `emin` after the loop: the value it had, or — if that was the sentinel — `-1` or an index the loop visited -/
theorem setExpectLoop_emin (h : Hist α) (cdf : α → α) : ∀ (k : Nat) (i : Int) (acc : Array α) (emin : Int),
    let r := (setExpectLoop h cdf k i acc emin).2
    r = emin ∨ (emin = -1 ∧ i ≤ r ∧ r < i + k) := by
  intro k
  induction k with
  | zero => intro i acc emin; left; rfl
  | succ k ih =>
    intro i acc emin
    unfold setExpectLoop
    simp only []
    split
    · rename_i hc
      simp only [Bool.and_eq_true, beq_iff_eq] at hc
      rcases ih (i + 1) (acc.push _) i with e | ⟨e, _⟩
      · right; rw [e]; exact ⟨hc.1, Int.le_refl _, by omega⟩
      · right; rw [hc.1] at *; omega
    · rcases ih (i + 1) (acc.push _) emin with e | ⟨e1, e2, e3⟩
      · left; exact e
      · right; exact ⟨e1, by omega, by omega⟩

/-- **`esl_histogram_SetExpect` fills exactly `expect[0..nb-1]`** and leaves `emin` in `-1..nb-1` when it was the sentinel; the histogram
    is finished (`is_done`), nothing else changes. -/
theorem setExpect_spec (h : Hist α) (e : Expect α) (cdf : α → α) (hnb : 0 ≤ h.nb) :
    ∃ ex, (h.setExpect e cdf).2.expect = some ex ∧ (ex.size : Int) = h.nb ∧
      ((h.setExpect e cdf).2.emin = e.emin ∨ (e.emin = -1 ∧ 0 ≤ (h.setExpect e cdf).2.emin ∧ (h.setExpect e cdf).2.emin < h.nb)) ∧
      (h.setExpect e cdf).1 = { h with isDone := true } := by
  unfold Hist.setExpect
  refine ⟨_, rfl, ?_, ?_, rfl⟩
  · rw [setExpectLoop_size]; simp only [Array.size_empty, Nat.zero_add]; omega
  · rcases setExpectLoop_emin h cdf h.nb.toNat 0 #[] e.emin with e1 | ⟨e1, e2, e3⟩
    · left; exact e1
    · right
      refine ⟨e1, e2, ?_⟩
      show (setExpectLoop h cdf h.nb.toNat 0 #[] e.emin).2 < h.nb
      omega

/-- **`esl_histogram_SetExpectedTail` (after 7d2bcba) keeps `emin` inside `0..nb` and fills exactly `expect[0..nb-1]`**, for EVERY `base_val`
    (below, inside or above the binned range), every mass, every cdf and every numeric class; bins below `emin` expect 0. A refused
    `base_val` (eslERANGE from `Score2Bin`) changes nothing. -/
theorem setExpectedTail_spec (h : Hist α) (e : Expect α) (baseVal pmass : α) (cdf : α → α) (hnb : 0 ≤ h.nb) :
    let r := h.setExpectedTail e baseVal pmass cdf
    (r.1 = .erange ∧ r.2.1 = h ∧ r.2.2 = e) ∨
    (r.1 = .ok ∧ 0 ≤ r.2.2.emin ∧ r.2.2.emin ≤ h.nb ∧ r.2.2.isTailfit = true ∧ r.2.1 = { h with isDone := true } ∧
      ∃ ex, r.2.2.expect = some ex ∧ (ex.size : Int) = h.nb ∧ ∀ i : Nat, (i : Int) < r.2.2.emin → ex[i]? = some zero) := by
  simp only []
  unfold Hist.setExpectedTail
  have hs : (h.score2bin baseVal).1 = .ok ∨ (h.score2bin baseVal).1 = .erange := by
    unfold Hist.score2bin
    split
    · right; rfl
    · simp only []; split
      · right; rfl
      · left; rfl
  rcases hs with hs | hs
  · right
    simp only [hs, bne_self_eq_false, Bool.false_eq_true, if_false]
    refine ⟨trivial, ?_, ?_, trivial, trivial, _, rfl, ?_, ?_⟩
    · split
      · exact Int.le_refl _
      · split
        · exact hnb
        · omega
    · split
      · exact hnb
      · split
        · exact Int.le_refl _
        · omega
    · simp only [Array.size_map, Array.size_range]; omega
    · intro i hi
      have hlt : i < h.nb.toNat := by
        have : (if (h.score2bin baseVal).2 < 0 then (0 : Int) else if (h.score2bin baseVal).2 ≥ h.nb then h.nb else (h.score2bin baseVal).2 + 1) ≤ h.nb := by
          split
          · exact hnb
          · split
            · exact Int.le_refl _
            · omega
        omega
      rw [Array.getElem?_map, Array.getElem?_range]
      simp only [hlt, if_true, Option.map_some]
      rw [if_pos hi]
  · left
    have : ((h.score2bin baseVal).1 != St.ok) = true := by rw [hs]; decide
    simp only [this, if_true]
    exact ⟨hs, trivial, trivial⟩

/-! ## `Goodness`: the re-binning sweep -/

/-- observed counts held by a list of re-bins -/
def binsObs (bins : List (Nat × α)) : Nat := (bins.map (fun b => b.1)).sum

@[simp] theorem binsObs_nil : binsObs ([] : List (Nat × α)) = 0 := rfl
@[simp] theorem binsObs_cons (b : Nat × α) (t : List (Nat × α)) : binsObs (b :: t) = b.1 + binsObs t := by
  simp [binsObs]

theorem binsObs_reverse (l : List (Nat × α)) : binsObs l.reverse = binsObs l := by
  unfold binsObs; rw [List.map_reverse, List.sum_reverse]

theorem binsObs_ge (minc : Nat) (bins : List (Nat × α)) (hm : ∀ x ∈ bins, minc ≤ x.1) : minc * bins.length ≤ binsObs bins := by
  induction bins with
  | nil => simp
  | cons a t ih =>
    have h1 := hm a List.mem_cons_self
    have h2 := ih (fun x hx => hm x (List.mem_cons_of_mem _ hx))
    rw [binsObs_cons, List.length_cons, Nat.mul_succ]; omega

/-- `goodnessCount` over in-range bins never faults and only adds -/
theorem goodnessCount_ok (obs : Array Nat) : ∀ (k : Nat) (b : Int) (acc : Nat), 0 ≤ b → b + k ≤ obs.size →
    ∃ T, goodnessCount obs k b acc = .val T ∧ acc ≤ T := by
  intro k
  induction k with
  | zero => intro b acc _ _; exact ⟨acc, rfl, Nat.le_refl _⟩
  | succ k ih =>
    intro b acc h0 h1
    unfold goodnessCount getObs
    have hb : 0 ≤ b ∧ b.toNat < obs.size := ⟨h0, by omega⟩
    simp only [hb, and_self, if_true]
    obtain ⟨T, e, hle⟩ := ih (b + 1) (acc + obs.getD b.toNat 0) (by omega) (by omega)
    exact ⟨T, e, by omega⟩

/-- **the sweep loses no count**: re-binned counts + leftovers = what was there before + the counts of the bins swept (the same bins
    `goodnessCount` adds up), and every re-bin holds at least `minc` counts. -/
theorem rebinLoop_spec (obs : Array Nat) (expect : Array α) (minc cap : Nat) :
    ∀ (k : Nat) (b : Int) (nobs : Nat) (nexp : α) (bins bins' : List (Nat × α)) (lobs : Nat) (lexp : α) (acc : Nat),
      (∀ x ∈ bins, minc ≤ x.1) →
      rebinLoop obs expect minc cap k b nobs nexp bins = .val (bins', lobs, lexp) →
      ∃ T, goodnessCount obs k b acc = .val T ∧ binsObs bins' + lobs + acc = binsObs bins + nobs + T ∧ (∀ x ∈ bins', minc ≤ x.1) := by
  intro k
  induction k with
  | zero =>
    intro b nobs nexp bins bins' lobs lexp acc hm h
    simp only [rebinLoop, Out.val.injEq, Prod.mk.injEq] at h
    obtain ⟨rfl, rfl, rfl⟩ := h
    exact ⟨acc, rfl, by omega, hm⟩
  | succ k ih =>
    intro b nobs nexp bins bins' lobs lexp acc hm h
    unfold rebinLoop at h
    unfold goodnessCount
    split at h
    · rename_i c ev hc hev
      rw [hc]
      simp only [] at h ⊢
      split at h
      · rename_i hge
        split at h
        · cases h
        · simp only [Bool.and_eq_true, decide_eq_true_eq] at hge
          obtain ⟨T, e1, e2, e3⟩ := ih (b + 1) 0 zero ((nobs + c, nexp + ev) :: bins) bins' lobs lexp (acc + c)
            (by intro x hx; rcases List.mem_cons.1 hx with rfl | hx; exact hge.1; exact hm x hx) h
          refine ⟨T, e1, ?_, e3⟩
          rw [binsObs_cons] at e2; simp only [] at e2; omega
      · obtain ⟨T, e1, e2, e3⟩ := ih (b + 1) (nobs + c) (nexp + ev) bins bins' lobs lexp (acc + c) hm h
        exact ⟨T, e1, by omega, e3⟩
    · cases h

/-- **the sweep never reads outside `obs[]`/`expect[]` and never writes outside its `cap` re-bins**, provided the bins swept lie inside the
    arrays and the total count is below `minc·cap` -/
theorem rebinLoop_no_fault (obs : Array Nat) (expect : Array α) (minc cap : Nat) (hmc : 0 < minc) (hsz : obs.size ≤ expect.size) :
    ∀ (k : Nat) (b : Int) (nobs : Nat) (nexp : α) (bins : List (Nat × α)) (acc T : Nat), 0 ≤ b → b + k ≤ obs.size →
      (∀ x ∈ bins, minc ≤ x.1) → goodnessCount obs k b acc = .val T → binsObs bins + nobs + T < minc * cap + acc →
      rebinLoop obs expect minc cap k b nobs nexp bins ≠ .fault := by
  intro k
  induction k with
  | zero => intro b nobs nexp bins acc T _ _ _ _ _ h; simp [rebinLoop] at h
  | succ k ih =>
    intro b nobs nexp bins acc T h0 h1 hm hT hlt
    unfold rebinLoop getObs getExp
    unfold goodnessCount getObs at hT
    have hb : 0 ≤ b ∧ b.toNat < obs.size := ⟨h0, by omega⟩
    have hb' : 0 ≤ b ∧ b.toNat < expect.size := ⟨h0, by omega⟩
    simp only [hb, hb', and_self, if_true] at hT ⊢
    obtain ⟨T', e', hle'⟩ := goodnessCount_ok obs k (b + 1) (acc + obs.getD b.toNat 0) (by omega) (by omega)
    rw [e'] at hT
    simp only [Out.val.injEq] at hT
    subst hT
    split
    · rename_i hge
      simp only [Bool.and_eq_true, decide_eq_true_eq] at hge
      have hlen := binsObs_ge minc bins hm
      split
      · rename_i hcap
        exfalso
        have : minc * cap ≤ minc * bins.length := Nat.mul_le_mul_left _ hcap
        omega
      · refine ih (b + 1) 0 zero _ (acc + obs.getD b.toNat 0) T' (by omega) (by omega) ?_ e' ?_
        · intro x hx; rcases List.mem_cons.1 hx with rfl | hx; exact hge.1; exact hm x hx
        · rw [binsObs_cons]; simp only []; omega
    · exact ih (b + 1) _ _ bins (acc + obs.getD b.toNat 0) T' (by omega) (by omega) hm e' (by omega)

/-! ## `Goodness` as a whole -/

theorem minc_cap (nobs d : Nat) (hd : 0 < d) : nobs < (1 + nobs / d) * (d + 1) := by
  have h1 : nobs < d * (nobs / d + 1) := Nat.lt_mul_div_succ nobs hd
  have h2 : d * (nobs / d + 1) ≤ (1 + nobs / d) * (d + 1) := by
    rw [Nat.mul_comm, Nat.add_comm (nobs / d) 1]; exact Nat.mul_le_mul_left _ (Nat.le_succ d)
  exact Nat.lt_of_lt_of_le h1 h2

/-- **`esl_histogram_Goodness` never reads outside `obs[]` / `expect[]` and never writes outside the `2·nb+1` re-bins it allocates**, every
    numeric class: on a well-formed histogram with `cmin ≥ 0` and `expect[]` as long as `obs[]`, the model's `.fault` can only come from the
    bin-number formula `2·(int) pow(nobs, 0.4)` being `≤ 0` for some `nobs ≥ 1` — impossible for a `pow` with `pow(n, 0.4) ≥ 1` (libm, ℝ). -/
theorem goodness_fault_only_from_pow (h : Hist α) (hwf : h.WF) (hidx : IdxOK h) (hc : 0 ≤ h.cmin) (e : Expect α)
    (hex : ∀ ex, e.expect = some ex → (ex.size : Int) = h.nb) (nfitted : Int) (hf : h.goodness e nfitted = .fault) :
    ∃ nobs : Nat, 0 < nobs ∧ 2 * toInt (pow (ofInt (nobs : Int)) (0.4 : α)) ≤ 0 := by
  unfold Hist.goodness at hf
  split at hf
  · cases hf
  · rename_i expect hexp
    have hsz : h.obs.size = expect.size := by have := hex expect hexp; have := hwf.size; omega
    simp only [] at hf
    have hb0 : 0 ≤ (if e.isTailfit && e.emin > h.cmin then e.emin else h.cmin) := by
      split
      · rename_i hh; simp only [Bool.and_eq_true, decide_eq_true_eq] at hh; omega
      · exact hc
    generalize hbb : (if e.isTailfit && e.emin > h.cmin then e.emin else h.cmin) = bbase at hf hb0
    have himax : h.imax < h.nb := by
      rcases hidx with ⟨_, h2⟩ | ⟨_, _, h3⟩
      · have := hwf.nb_pos; omega
      · exact h3
    -- the counting loop is in range
    have hcount : ∃ T, goodnessCount h.obs (h.imax + 1 - bbase).toNat bbase 0 = .val T := by
      by_cases hk : (h.imax + 1 - bbase).toNat = 0
      · rw [hk]; exact ⟨0, rfl⟩
      · obtain ⟨T, e1, _⟩ := goodnessCount_ok h.obs (h.imax + 1 - bbase).toNat bbase 0 hb0 (by have := hwf.size; omega)
        exact ⟨T, e1⟩
    obtain ⟨T, hT⟩ := hcount
    rw [hT] at hf
    simp only [] at hf
    split at hf
    · cases hf
    · rename_i hne
      split at hf
      · rename_i hpow
        exact ⟨T, by simp only [beq_iff_eq] at hne; omega, hpow⟩
      · rename_i hpow
        exfalso
        have hk : (h.imax + 1 - bbase).toNat ≠ 0 := by
          intro hk; rw [hk] at hT; simp only [goodnessCount, Out.val.injEq] at hT; simp only [beq_iff_eq] at hne; omega
        have hd : 0 < 2 * (2 * toInt (pow (ofInt (T : Int)) (0.4 : α))).toNat := by omega
        have hnf := rebinLoop_no_fault h.obs expect (1 + T / (2 * (2 * toInt (pow (ofInt (T : Int)) (0.4 : α))).toNat))
          (2 * (2 * toInt (pow (ofInt (T : Int)) (0.4 : α))).toNat + 1) (Nat.lt_of_lt_of_le Nat.zero_lt_one (Nat.le_add_right 1 _)) (by omega)
          (h.imax + 1 - bbase).toNat bbase 0 zero [] 0 T hb0 (by have := hwf.size; omega) (by intro x hx; cases hx) hT
          (by simp only [binsObs_nil, Nat.zero_add, Nat.add_zero]; exact minc_cap T _ hd)
        split at hf
        · rename_i hfault; exact hnf hfault
        · split at hf <;> cases hf

theorem goodnessStats_ok (bins : List (Nat × α)) (nfitted : Int) (h : (goodnessStats bins nfitted).st = .ok) :
    (goodnessStats bins nfitted).nbins = bins.length ∧ 0 < (bins.length : Int) - nfitted - 1 := by
  unfold goodnessStats at h ⊢
  simp only [] at h ⊢
  split at h
  · cases h
  · rename_i hdf
    rw [if_neg hdf]
    split at h
    · rename_i h1
      exfalso
      have : (Goodness.fail (chiP ((bins.length : Int) - nfitted) (x2Of bins)).1 : Goodness α).st = (chiP ((bins.length : Int) - nfitted) (x2Of bins)).1 := rfl
      rw [this] at h; rw [h] at h1; simp at h1
    · rename_i h1
      rw [if_neg h1]
      split at h
      · rename_i h2
        exfalso
        have : (Goodness.fail (chiP ((bins.length : Int) - nfitted - 1) (gOf bins)).1 : Goodness α).st = (chiP ((bins.length : Int) - nfitted - 1) (gOf bins)).1 := rfl
        rw [this] at h; rw [h] at h2; simp at h2
      · rename_i h2
        rw [if_neg h2]
        exact ⟨rfl, by omega⟩

/-- **`esl_histogram_Goodness` accounts for every count in the range it evaluates**: whenever it gets as far as re-binning, the observed
    counts of the re-bins add up to `Σ obs[bbase..imax]` (the `nobs` of its first loop); eslOK ⇒ `*ret_nbins` is the number of re-bins and
    leaves at least one degree of freedom. -/
theorem goodness_accounts (h : Hist α) (e : Expect α) (nfitted : Int) (g : Goodness α) (bins : List (Nat × α))
    (hg : h.goodness e nfitted = .val (g, bins)) (hne : bins ≠ []) :
    goodnessCount h.obs (h.imax + 1 - goodnessBase h e).toNat (goodnessBase h e) 0 = .val (binsObs bins) ∧
    (g.st = .ok → g.nbins = bins.length ∧ 0 < g.nbins - nfitted - 1) := by
  unfold Hist.goodness at hg
  unfold goodnessBase
  split at hg
  · simp only [Out.val.injEq, Prod.mk.injEq] at hg; exact absurd hg.2.symm hne
  · simp only [] at hg
    split at hg
    · cases hg
    · rename_i nobs hT
      split at hg
      · simp only [Out.val.injEq, Prod.mk.injEq] at hg; exact absurd hg.2.symm hne
      · split at hg
        · cases hg
        · split at hg
          · cases hg
          · rename_i bins0 lobs lexp hrb
            obtain ⟨T, e1, e2, e3⟩ := rebinLoop_spec h.obs _ _ _ _ _ 0 zero [] bins0 lobs lexp 0 (by intro x hx; cases hx) hrb
            rw [hT] at e1
            simp only [Out.val.injEq] at e1
            subst e1
            split at hg
            · simp only [Out.val.injEq, Prod.mk.injEq] at hg; exact absurd hg.2.symm hne
            · rename_i o x rest
              have hsum : binsObs (((o + lobs, x + lexp) :: rest).reverse) = nobs := by
                rw [binsObs_reverse, binsObs_cons]; rw [binsObs_cons] at e2; simp only [binsObs_nil] at e2 ⊢; omega
              simp only [Out.val.injEq, Prod.mk.injEq] at hg
              rw [← hg.2, hsum]
              refine ⟨hT, fun hok => ?_⟩
              rw [← hg.1] at hok ⊢
              obtain ⟨a, b⟩ := goodnessStats_ok _ nfitted hok
              exact ⟨a, by rw [a]; exact b⟩

/-! ## `PlotQQ` -/

theorem qqRows_ok (obs : Array Nat) : ∀ (k : Nat) (i : Int) (s : Nat) (acc : List (Int × Nat)), 0 ≤ i → i + k ≤ obs.size →
    ∃ rows, qqRows obs k i s acc = .val rows ∧ rows.length = acc.length + k := by
  intro k
  induction k with
  | zero => intro i s acc _ _; exact ⟨acc.reverse, rfl, by simp⟩
  | succ k ih =>
    intro i s acc h0 h1
    unfold qqRows getObs
    have hb : 0 ≤ i ∧ i.toNat < obs.size := ⟨h0, by omega⟩
    simp only [hb, and_self, if_true]
    obtain ⟨rows, e, hl⟩ := ih (i + 1) (s + obs.getD i.toNat 0) ((i, s + obs.getD i.toNat 0) :: acc) (by omega) (by omega)
    exact ⟨rows, e, by rw [hl, List.length_cons]; omega⟩

/-- **`esl_histogram_PlotQQ` reads only inside `obs[]`** and prints one row per bin `bbase..imax-1` (every numeric class): well-formed histogram,
    `0 ≤ cmin`, and — for a tail fit — `emin ≤ nb` (what `SetExpectedTail` guarantees since 7d2bcba) -/
theorem plotQQ_ok (h : Hist α) (hwf : h.WF) (hidx : IdxOK h) (hc : 0 ≤ h.cmin) (hcn : h.cmin ≤ h.nb) (e : Expect α) (he : e.emin ≤ h.nb) :
    ∃ rows, h.plotQQ e = .val rows ∧ rows.length = (h.imax - goodnessBase h e).toNat := by
  unfold Hist.plotQQ
  simp only []
  have hsz := hwf.size
  have hb0 : h.cmin ≤ goodnessBase h e ∧ goodnessBase h e ≤ h.nb := by
    unfold goodnessBase
    split
    · rename_i hh; simp only [Bool.and_eq_true, decide_eq_true_eq] at hh; omega
    · omega
  have himax : h.imax < h.nb := by
    rcases hidx with ⟨_, h2⟩ | ⟨_, _, h3⟩
    · have := hwf.nb_pos; omega
    · exact h3
  obtain ⟨T, e1, _⟩ := goodnessCount_ok h.obs (goodnessBase h e - h.cmin).toNat h.cmin
    (if h.datasetIs == .trueCensored || h.datasetIs == .virtualCensored then h.z else 0) hc (by omega)
  rw [e1]
  simp only []
  obtain ⟨rows, e2, hl⟩ := qqRows_ok h.obs (h.imax - goodnessBase h e).toNat (goodnessBase h e) T [] (by omega) (by omega)
  exact ⟨rows, e2, by simpa using hl⟩

end EaselModel.Stats
