import EaselModel.Stats.FitGev
import EaselModel.Stats.TevdReal
/-! # The generalized-extreme-value objective and its gradient over ℝ (C11)

`esl_gev_FitComplete` hands `gev_func` and the analytic `gev_gradient` to the conjugate-gradient optimiser, in `p = (μ, w = log λ, α)`.
Over ℝ (`log1p x = log(1+x)`), on complete data all of whose samples lie in the main branch of `esl_gev_logpdf` (`|αy| ≥ 1e-12`,
`1 + αy > 0`, `y = λ(x-μ)`):
* `gev_func` is minus the GEV log-likelihood `Σ [log λ - (1+1/α)·log(1+αy) - (1+αy)^(-1/α)]` (`gevFunc_eq`);
* the three components of `gev_gradient` are exactly the partial derivatives of that objective (`gevGrad_eq`, `gevNll_hasDerivAt_*`).
Nothing is claimed about rounding (L0), nor about the shape (concavity) of the GEV likelihood. -/
namespace EaselModel.Stats
open Real

noncomputable instance : Log1p ℝ := ⟨fun x => Real.log (1 + x)⟩
@[simp] theorem log1p_r (x : ℝ) : (Log1p.log1p x : ℝ) = Real.log (1 + x) := rfl

/-- `1 + α·λ(x-μ)`, `λ = e^w` -/
noncomputable def gevU (x mu w a : ℝ) : ℝ := 1 + a * (Real.exp w * (x - mu))

/-- GEV log-density of one sample in `(μ, w = log λ, α)`: `w - (1+1/α)·log u - exp(-log u/α)`, `u = 1 + αλ(x-μ)`
    (`exp(-log u/α) = u^(-1/α)`) -/
noncomputable def gevTerm (x mu w a : ℝ) : ℝ :=
  w - (1 + 1 / a) * Real.log (gevU x mu w a) - Real.exp (-Real.log (gevU x mu w a) / a)

/-- the GEV negative log-likelihood of complete data -/
noncomputable def gevNll (xs : List ℝ) (mu w a : ℝ) : ℝ := -(xs.map (fun x => gevTerm x mu w a)).sum

/-- per-sample partial derivatives of `gevTerm`, written as `gev_gradient` accumulates them -/
noncomputable def gevTermDmu (x mu w a : ℝ) : ℝ :=
  Real.exp w * ((a + 1) / gevU x mu w a - Real.exp (-(1 + 1 / a) * Real.log (gevU x mu w a)))
noncomputable def gevTermDw (x mu w a : ℝ) : ℝ :=
  1 - Real.exp w * (x - mu) * (1 + a) / gevU x mu w a
    + Real.exp w * (x - mu) * Real.exp (-(1 + 1 / a) * Real.log (gevU x mu w a))
noncomputable def gevTermDa (x mu w a : ℝ) : ℝ :=
  -((1 + 1 / a) * (Real.exp w * (x - mu)) / gevU x mu w a) + Real.log (gevU x mu w a) / (a * a)
    + Real.exp w * (x - mu) * Real.exp (-Real.log (gevU x mu w a) / a) / (a * gevU x mu w a)
    - Real.log (gevU x mu w a) * Real.exp (-Real.log (gevU x mu w a) / a) / (a * a)

/-- `exp(-(1+1/α)·log u) = exp(-log u/α) / u` for `u > 0` -/
theorem exp_gev_split (u a : ℝ) (hu : 0 < u) (ha : a ≠ 0) :
    Real.exp (-(1 + 1 / a) * Real.log u) = Real.exp (-Real.log u / a) / u := by
  have : -(1 + 1 / a) * Real.log u = -Real.log u / a + -Real.log u := by field_simp; ring
  rw [this, Real.exp_add, Real.exp_neg, Real.exp_log hu]; rfl

/-- chain rule for `s ↦ -(1+1/α)·log u(s) - exp(-log u(s)/α)` with `α` fixed -/
theorem gev_core_hasDerivAt (u : ℝ → ℝ) (u' t a : ℝ) (hu : HasDerivAt u u' t) (hpos : 0 < u t) :
    HasDerivAt (fun s => -((1 + 1 / a) * Real.log (u s)) - Real.exp (-Real.log (u s) / a))
      (-((1 + 1 / a) * (u' / u t)) - Real.exp (-Real.log (u t) / a) * (-(u' / u t) / a)) t := by
  have hL : HasDerivAt (fun s => Real.log (u s)) (u' / u t) t := hu.log (ne_of_gt hpos)
  have h1 : HasDerivAt (fun s => (1 + 1 / a) * Real.log (u s)) ((1 + 1 / a) * (u' / u t)) t := hL.const_mul _
  have h2 : HasDerivAt (fun s => -Real.log (u s) / a) (-(u' / u t) / a) t := (hL.neg).div_const a
  exact h1.neg.sub h2.exp

theorem gevTerm_hasDerivAt_mu (x mu w a : ℝ) (ha : a ≠ 0) (hpos : 0 < gevU x mu w a) :
    HasDerivAt (fun m => gevTerm x m w a) (gevTermDmu x mu w a) mu := by
  have hu : HasDerivAt (fun m => gevU x m w a) (-(a * Real.exp w)) mu := by
    unfold gevU
    have h0 : HasDerivAt (fun m : ℝ => x - m) (-1) mu := by simpa using (hasDerivAt_id mu).const_sub x
    have := ((h0.const_mul (Real.exp w)).const_mul a).const_add 1
    exact this.congr_deriv (by ring)
  have hc := gev_core_hasDerivAt (fun m => gevU x m w a) _ mu a hu hpos
  have hw : HasDerivAt (fun _ : ℝ => w) 0 mu := hasDerivAt_const mu w
  have := hw.add hc
  unfold gevTerm
  refine (this.congr_of_eventuallyEq (Filter.Eventually.of_forall (fun m => by simp only [Pi.add_apply]; ring))).congr_deriv ?_
  unfold gevTermDmu
  rw [exp_gev_split _ a hpos ha]
  field_simp
  ring

theorem gevTerm_hasDerivAt_w (x mu w a : ℝ) (ha : a ≠ 0) (hpos : 0 < gevU x mu w a) :
    HasDerivAt (fun v => gevTerm x mu v a) (gevTermDw x mu w a) w := by
  have hu : HasDerivAt (fun v => gevU x mu v a) (a * (Real.exp w * (x - mu))) w := by
    unfold gevU
    exact (((Real.hasDerivAt_exp w).mul_const (x - mu)).const_mul a).const_add 1
  have hc := gev_core_hasDerivAt (fun v => gevU x mu v a) _ w a hu hpos
  have hw : HasDerivAt (fun v : ℝ => v) 1 w := hasDerivAt_id w
  have := hw.add hc
  unfold gevTerm
  refine (this.congr_of_eventuallyEq (Filter.Eventually.of_forall (fun m => by simp only [Pi.add_apply]; ring))).congr_deriv ?_
  unfold gevTermDw
  rw [exp_gev_split _ a hpos ha]
  field_simp
  ring

theorem gevTerm_hasDerivAt_a (x mu w a : ℝ) (ha : a ≠ 0) (hpos : 0 < gevU x mu w a) :
    HasDerivAt (fun b => gevTerm x mu w b) (gevTermDa x mu w a) a := by
  set y := Real.exp w * (x - mu) with hy
  have hu : HasDerivAt (fun b => gevU x mu w b) y a := by
    unfold gevU
    have := ((hasDerivAt_id a).mul_const y).const_add 1
    simpa using this
  have hL : HasDerivAt (fun b => Real.log (gevU x mu w b)) (y / gevU x mu w a) a := hu.log (ne_of_gt hpos)
  have hinv : HasDerivAt (fun b : ℝ => 1 + 1 / b) (-(1 / (a * a))) a := by
    have h := (hasDerivAt_inv ha).const_add 1
    refine (h.congr_of_eventuallyEq (Filter.Eventually.of_forall (fun b => by simp))).congr_deriv ?_
    rw [pow_two]; field_simp
  have h1 := hinv.mul hL
  have hq : HasDerivAt (fun b => -Real.log (gevU x mu w b) / b)
      ((-(y / gevU x mu w a) * a - -Real.log (gevU x mu w a) * 1) / a ^ 2) a := (hL.neg).div (hasDerivAt_id a) ha
  have h2 := hq.exp
  have hw : HasDerivAt (fun _ : ℝ => w) 0 a := hasDerivAt_const a w
  have := (hw.sub h1).sub h2
  unfold gevTerm
  refine this.congr_deriv ?_
  unfold gevTermDa
  rw [← hy]
  field_simp
  ring

/-- the three partial derivatives of the GEV negative log-likelihood (complete data, every sample with `1 + αλ(x-μ) > 0`, `α ≠ 0`) -/
theorem gevNll_hasDerivAt_mu (xs : List ℝ) (mu w a : ℝ) (ha : a ≠ 0) (hpos : ∀ x ∈ xs, 0 < gevU x mu w a) :
    HasDerivAt (fun m => gevNll xs m w a) (-(xs.map (fun x => gevTermDmu x mu w a)).sum) mu :=
  (hasDerivAt_list_sum xs (fun x m => gevTerm x m w a) _ mu (fun x hx => gevTerm_hasDerivAt_mu x mu w a ha (hpos x hx))).neg

theorem gevNll_hasDerivAt_w (xs : List ℝ) (mu w a : ℝ) (ha : a ≠ 0) (hpos : ∀ x ∈ xs, 0 < gevU x mu w a) :
    HasDerivAt (fun v => gevNll xs mu v a) (-(xs.map (fun x => gevTermDw x mu w a)).sum) w :=
  (hasDerivAt_list_sum xs (fun x v => gevTerm x mu v a) _ w (fun x hx => gevTerm_hasDerivAt_w x mu w a ha (hpos x hx))).neg

theorem gevNll_hasDerivAt_a (xs : List ℝ) (mu w a : ℝ) (ha : a ≠ 0) (hpos : ∀ x ∈ xs, 0 < gevU x mu w a) :
    HasDerivAt (fun b => gevNll xs mu w b) (-(xs.map (fun x => gevTermDa x mu w a)).sum) a :=
  (hasDerivAt_list_sum xs (fun x b => gevTerm x mu w b) _ a (fun x hx => gevTerm_hasDerivAt_a x mu w a ha (hpos x hx))).neg

/-! ## the model's `gev_func` / `gev_gradient` over ℝ -/

/-- a sample in the main branch of `esl_gev_logpdf` / `gev_gradient`: not the `|αy| < 1e-12` Gumbel shortcut, inside the support -/
def GevMain (x mu w a : ℝ) : Prop := ¬ |a * (Real.exp w * (x - mu))| < (1e-12 : ℝ) ∧ 0 < gevU x mu w a

/-- `esl_gev_logpdf(x, mu, exp w, α)` in the main branch is the GEV log-density -/
theorem gevLogpdf_r (x mu w a : ℝ) (h : GevMain x mu w a) : gevLogpdf x mu (Real.exp w) a = gevTerm x mu w a := by
  obtain ⟨h1, h2⟩ := h
  unfold gevLogpdf gevTerm
  unfold gevU at h2 ⊢
  have c1 : ¬ |Real.exp w * (x - mu) * a| < (1e-12 : ℝ) := by rw [mul_comm]; exact h1
  have c2 : ¬ (1 + a * (Real.exp w * (x - mu)) ≤ 0) := not_le.2 h2
  simp only [exp_r, log_r, abs_r, ltb_r, leb_r, one_r, zero_r, log1p_r, Real.log_exp]
  rw [if_neg c1, if_neg c2]

/-- **`gev_func` over ℝ** (complete data, every sample in the main branch): the GEV negative log-likelihood in `(μ, w = log λ, α)` -/
theorem gevFunc_eq (xs : Array ℝ) (mu w a : ℝ) (h : ∀ x ∈ xs.toList, GevMain x mu w a) :
    gevFunc xs none #[mu, w, a] = gevNll xs.toList mu w a := by
  unfold gevFunc gevNll
  have g0 : (#[mu, w, a] : Array ℝ).getD 0 Num.zero = mu := rfl
  have g1 : (#[mu, w, a] : Array ℝ).getD 1 Num.zero = w := rfl
  have g2 : (#[mu, w, a] : Array ℝ).getD 2 Num.zero = a := rfl
  simp only [g0, g1, g2]
  simp only [exp_r, zero_r]
  rw [← Array.foldl_toList, foldl_add, zero_add]
  congr 2
  apply List.map_congr_left
  intro x hx
  exact gevLogpdf_r x mu w a (h x hx)

/-- one sample of `gev_gradient`'s loop, main branch -/
theorem gevGradStep_r (x mu w a d1 d2 d3 : ℝ) (h : GevMain x mu w a) :
    gevGradStep mu (Real.exp w) a (d1, d2, d3) x
      = (d1 + ((a + 1) / gevU x mu w a - Real.exp (-(1 + 1 / a) * Real.log (gevU x mu w a))),
         d2 + (gevTermDw x mu w a - 1),
         d3 + gevTermDa x mu w a) := by
  obtain ⟨h1, _⟩ := h
  unfold gevGradStep gevTermDw gevTermDa gevU
  simp only [exp_r, log_r, abs_r, ltb_r, one_r]
  simp only [if_neg h1]
  refine Prod.ext ?_ (Prod.ext ?_ ?_)
  · ring
  · ring
  · ring

theorem gevGradFold_r (mu w a : ℝ) : ∀ (l : List ℝ) (d1 d2 d3 : ℝ), (∀ x ∈ l, GevMain x mu w a) →
    l.foldl (gevGradStep mu (Real.exp w) a) (d1, d2, d3)
      = (d1 + (l.map (fun x => (a + 1) / gevU x mu w a - Real.exp (-(1 + 1 / a) * Real.log (gevU x mu w a)))).sum,
         d2 + (l.map (fun x => gevTermDw x mu w a - 1)).sum,
         d3 + (l.map (fun x => gevTermDa x mu w a)).sum) := by
  intro l
  induction l with
  | nil => intro d1 d2 d3 _; simp
  | cons x t ih =>
    intro d1 d2 d3 h
    simp only [List.foldl_cons, List.map_cons, List.sum_cons]
    rw [gevGradStep_r x mu w a d1 d2 d3 (h x List.mem_cons_self), ih _ _ _ (fun y hy => h y (List.mem_cons_of_mem _ hy))]
    refine Prod.ext ?_ (Prod.ext ?_ ?_) <;> simp only [] <;> ring

theorem sum_sub_one (l : List ℝ) (f : ℝ → ℝ) : (l.map (fun x => f x - 1)).sum = (l.map f).sum - (l.length : ℝ) := by
  induction l with
  | nil => simp
  | cons x t ih => simp only [List.map_cons, List.sum_cons, List.length_cons, ih]; push_cast; ring

theorem sum_mul_left (l : List ℝ) (c : ℝ) (f : ℝ → ℝ) : (l.map (fun x => c * f x)).sum = c * (l.map f).sum := by
  induction l with
  | nil => simp
  | cons x t ih => simp only [List.map_cons, List.sum_cons, ih]; ring

/-- **`gev_gradient` over ℝ** (complete data, every sample in the main branch): its three components are the sums of the per-sample partial
    derivatives, negated — by `gevNll_hasDerivAt_mu/_w/_a` exactly the partial derivatives of `gev_func` -/
theorem gevGrad_eq (xs : Array ℝ) (mu w a : ℝ) (h : ∀ x ∈ xs.toList, GevMain x mu w a) :
    gevGrad xs none #[mu, w, a]
      = #[-(xs.toList.map (fun x => gevTermDmu x mu w a)).sum, -(xs.toList.map (fun x => gevTermDw x mu w a)).sum,
          -(xs.toList.map (fun x => gevTermDa x mu w a)).sum] := by
  unfold gevGrad
  have g0 : (#[mu, w, a] : Array ℝ).getD 0 Num.zero = mu := rfl
  have g1 : (#[mu, w, a] : Array ℝ).getD 1 Num.zero = w := rfl
  have g2 : (#[mu, w, a] : Array ℝ).getD 2 Num.zero = a := rfl
  simp only [g0, g1, g2]
  simp only [exp_r, zero_r, size_r]
  rw [← Array.foldl_toList, gevGradFold_r mu w a xs.toList _ _ _ h]
  simp only []
  have key : ∀ p q r p' q' r' : ℝ, p = p' → q = q' → r = r' → (#[p, q, r] : Array ℝ) = #[p', q', r'] := by
    intro p q r p' q' r' e1 e2 e3; rw [e1, e2, e3]
  apply key
  · unfold gevTermDmu; rw [sum_mul_left]; ring
  · rw [sum_sub_one]; ring
  · ring

/-- `esl_gev_logcdf(φ, mu, exp w, α)` in the main branch: `-(1 + αλ(φ-μ))^(-1/α)` -/
theorem gevLogcdf_r (phi mu w a : ℝ) (h : GevMain phi mu w a) :
    gevLogcdf phi mu (Real.exp w) a = -Real.exp (-Real.log (gevU phi mu w a) / a) := by
  obtain ⟨h1, h2⟩ := h
  unfold gevLogcdf
  unfold gevU at h2 ⊢
  have c1 : ¬ |Real.exp w * (phi - mu) * a| < (1e-12 : ℝ) := by rw [mul_comm]; exact h1
  have c2 : ¬ (1 + a * (Real.exp w * (phi - mu)) ≤ 0) := not_le.2 h2
  simp only [exp_r, abs_r, ltb_r, leb_r, one_r, zero_r, log1p_r]
  rw [if_neg c1, if_neg c2]

/-- **`gev_func` on censored data over ℝ** (`z` values censored at `φ`; samples and `φ` in the main branch): the complete-data negative
    log-likelihood minus `z·log F(φ)`, `log F(φ) = -(1 + αλ(φ-μ))^(-1/α)` — the likelihood of "`z` more observations `≤ φ`" -/
theorem gevFunc_censored_eq (xs : Array ℝ) (z : Int) (phi mu w a : ℝ) (h : ∀ x ∈ xs.toList, GevMain x mu w a) (hphi : GevMain phi mu w a) :
    gevFunc xs (some (z, phi)) #[mu, w, a] = gevNll xs.toList mu w a - (z : ℝ) * -Real.exp (-Real.log (gevU phi mu w a) / a) := by
  have hc := gevFunc_eq xs mu w a h
  unfold gevFunc at hc ⊢
  have g0 : (#[mu, w, a] : Array ℝ).getD 0 Num.zero = mu := rfl
  have g1 : (#[mu, w, a] : Array ℝ).getD 1 Num.zero = w := rfl
  have g2 : (#[mu, w, a] : Array ℝ).getD 2 Num.zero = a := rfl
  simp only [g0, g1, g2] at hc ⊢
  simp only [exp_r, ofInt_r] at hc ⊢
  rw [gevLogcdf_r phi mu w a hphi, ← hc]
  ring

/-- whatever the optimiser did, the scale `esl_gev_FitComplete` / `esl_gev_FitCensored` hand back is positive: `λ = exp p[1]` (ℝ) -/
theorem gevFit_scale_pos (xs : Array ℝ) (cens : Option (Int × ℝ)) (st : St) (ps : Array ℝ) (h : gevFittingEngine xs cens = .res st ps) :
    0 < ps.getD 1 0 := by
  unfold gevFittingEngine at h
  split at h
  · cases h
  · simp only [FitRes.res.injEq] at h
    rw [← h.2]
    show 0 < Real.exp _
    exact Real.exp_pos _

/-! ## the censored-data terms of `gev_gradient` -/

/-- `log F(φ)` of the GEV law, main branch: `-(1 + αλ(φ-μ))^(-1/α)` -/
noncomputable def gevLogF (phi mu w a : ℝ) : ℝ := -Real.exp (-Real.log (gevU phi mu w a) / a)

/-- its partial derivatives, as `gev_gradient` writes them -/
noncomputable def gevLogFDmu (phi mu w a : ℝ) : ℝ := -(Real.exp w * Real.exp (-Real.log (gevU phi mu w a) / a) / gevU phi mu w a)
noncomputable def gevLogFDw (phi mu w a : ℝ) : ℝ := Real.exp w * (phi - mu) * Real.exp (-Real.log (gevU phi mu w a) / a) / gevU phi mu w a
noncomputable def gevLogFDa (phi mu w a : ℝ) : ℝ :=
  -(Real.exp (-Real.log (gevU phi mu w a) / a) * (Real.log (gevU phi mu w a) / (a * a) - Real.exp w * (phi - mu) / (a * gevU phi mu w a)))

theorem gev_logF_core (u : ℝ → ℝ) (u' t a : ℝ) (hu : HasDerivAt u u' t) (hpos : 0 < u t) :
    HasDerivAt (fun s => -Real.exp (-Real.log (u s) / a)) (-(Real.exp (-Real.log (u t) / a) * (-(u' / u t) / a))) t := by
  have hL : HasDerivAt (fun s => Real.log (u s)) (u' / u t) t := hu.log (ne_of_gt hpos)
  exact (((hL.neg).div_const a).exp).neg

theorem gevLogF_hasDerivAt_mu (phi mu w a : ℝ) (ha : a ≠ 0) (hpos : 0 < gevU phi mu w a) :
    HasDerivAt (fun m => gevLogF phi m w a) (gevLogFDmu phi mu w a) mu := by
  have hu : HasDerivAt (fun m => gevU phi m w a) (-(a * Real.exp w)) mu := by
    unfold gevU
    have h0 : HasDerivAt (fun m : ℝ => phi - m) (-1) mu := by simpa using (hasDerivAt_id mu).const_sub phi
    exact (((h0.const_mul (Real.exp w)).const_mul a).const_add 1).congr_deriv (by ring)
  refine (gev_logF_core (fun m => gevU phi m w a) _ mu a hu hpos).congr_deriv ?_
  unfold gevLogFDmu
  field_simp

theorem gevLogF_hasDerivAt_w (phi mu w a : ℝ) (ha : a ≠ 0) (hpos : 0 < gevU phi mu w a) :
    HasDerivAt (fun v => gevLogF phi mu v a) (gevLogFDw phi mu w a) w := by
  have hu : HasDerivAt (fun v => gevU phi mu v a) (a * (Real.exp w * (phi - mu))) w := by
    unfold gevU
    exact (((Real.hasDerivAt_exp w).mul_const (phi - mu)).const_mul a).const_add 1
  refine (gev_logF_core (fun v => gevU phi mu v a) _ w a hu hpos).congr_deriv ?_
  unfold gevLogFDw
  field_simp

theorem gevLogF_hasDerivAt_a (phi mu w a : ℝ) (ha : a ≠ 0) (hpos : 0 < gevU phi mu w a) :
    HasDerivAt (fun b => gevLogF phi mu w b) (gevLogFDa phi mu w a) a := by
  set y := Real.exp w * (phi - mu) with hy
  have hu : HasDerivAt (fun b => gevU phi mu w b) y a := by
    unfold gevU
    have := ((hasDerivAt_id a).mul_const y).const_add 1
    simpa using this
  have hL : HasDerivAt (fun b => Real.log (gevU phi mu w b)) (y / gevU phi mu w a) a := hu.log (ne_of_gt hpos)
  have hq : HasDerivAt (fun b => -Real.log (gevU phi mu w b) / b)
      ((-(y / gevU phi mu w a) * a - -Real.log (gevU phi mu w a) * 1) / a ^ 2) a := (hL.neg).div (hasDerivAt_id a) ha
  refine (hq.exp.neg).congr_deriv ?_
  unfold gevLogFDa
  rw [← hy]
  field_simp
  ring

/-- **`gev_gradient` on censored data over ℝ** (samples and `φ` in the main branch): the complete-data components plus `z` times the partial
    derivatives of `log F(φ)`, negated -/
theorem gevGrad_censored_eq (xs : Array ℝ) (z : Int) (phi mu w a : ℝ) (h : ∀ x ∈ xs.toList, GevMain x mu w a) (hphi : GevMain phi mu w a) :
    gevGrad xs (some (z, phi)) #[mu, w, a]
      = #[-((xs.toList.map (fun x => gevTermDmu x mu w a)).sum + (z : ℝ) * gevLogFDmu phi mu w a),
          -((xs.toList.map (fun x => gevTermDw x mu w a)).sum + (z : ℝ) * gevLogFDw phi mu w a),
          -((xs.toList.map (fun x => gevTermDa x mu w a)).sum + (z : ℝ) * gevLogFDa phi mu w a)] := by
  obtain ⟨h1, _⟩ := hphi
  unfold gevGrad
  have g0 : (#[mu, w, a] : Array ℝ).getD 0 Num.zero = mu := rfl
  have g1 : (#[mu, w, a] : Array ℝ).getD 1 Num.zero = w := rfl
  have g2 : (#[mu, w, a] : Array ℝ).getD 2 Num.zero = a := rfl
  simp only [g0, g1, g2]
  simp only [size_r]
  simp only [exp_r, zero_r, log_r, abs_r, ltb_r, one_r, ofInt_r]
  rw [← Array.foldl_toList, gevGradFold_r mu w a xs.toList _ _ _ h]
  simp only [if_neg h1]
  have key : ∀ p q r p' q' r' : ℝ, p = p' → q = q' → r = r' → (#[p, q, r] : Array ℝ) = #[p', q', r'] := by
    intro p q r p' q' r' e1 e2 e3; rw [e1, e2, e3]
  apply key
  · unfold gevTermDmu gevLogFDmu gevU; rw [sum_mul_left]; ring
  · unfold gevLogFDw gevU; rw [sum_sub_one]; ring
  · unfold gevLogFDa gevU; ring

end EaselModel.Stats
