import EaselModel.Stats.FitReal
import EaselModel.Stats.MinValue
import Mathlib.Tactic.NormNum
import Mathlib.Tactic.Positivity
/-! # Order facts about `esl_root_Bisection`, `bracket()` and `brent()` over ℝ (C11)

The same definitions that run bit-for-bit against the C code, read over the ordered field ℝ (no rounding, layer L0 excluded). -/
namespace EaselModel.Stats
open Num

@[simp] theorem eqb_r (a b : ℝ) : (Num.eqb a b = true) ↔ a = b := by simp [Num.eqb]
@[simp] theorem geb_r (a b : ℝ) : (Num.geb a b = true) ↔ b ≤ a := by simp [Num.geb, Num.leb]
theorem infOK_r : InfOK ℝ := Or.inr (fun _ => rfl)

/-! ## bisection -/

/-- **`esl_root_Bisection` keeps the root bracketed and halves the bracket** (ℝ, any function): from `xl < xr` with `f(xl)·f(xr) < 0`,
    whatever happens in the loop the final `R->xl < R->xr` still satisfy `f(xl)·f(xr) < 0`, lie inside the caller's bracket, and
    after `j` narrowing steps `(xr - xl)·2^j` is the caller's width; `R->iter` grew by `j+1`. eslOK: `*ret_x` is the midpoint of that
    bracket and the stopping rule held (`f(x) = 0`, width below the threshold, or residual below `residual_tol`); eslENOHALT: all
    `k` rounds were used and `*ret_x = 0`. -/
theorem bisectionLoop_spec (cfg : RootCfg ℝ) (f : ℝ → ℝ) :
    ∀ (k : Nat) (iter : Int) (xl xr : ℝ), xl < xr → f xl * f xr < 0 →
      let r := bisectionLoop cfg f k iter xl xr (f xl) (f xr)
      f r.xl * f r.xr < 0 ∧ xl ≤ r.xl ∧ r.xr ≤ xr ∧ r.xl < r.xr ∧
      ∃ j : Nat, j ≤ k ∧ (r.xr - r.xl) * 2 ^ j = xr - xl ∧ r.iter = iter + j + 1 ∧
        ((r.st = .ok ∧ r.x = (r.xl + r.xr) / 2 ∧
            (f r.x = 0 ∨ r.xr - r.xl < bisTol cfg r.xl r.xr r.x ∨ |f r.x| < cfg.residTol)) ∨
         (r.st = .enohalt ∧ j = k ∧ r.x = 0)) := by
  intro k
  induction k with
  | zero =>
    intro iter xl xr hlt hs
    unfold bisectionLoop
    exact ⟨hs, le_refl _, le_refl _, hlt, 0, le_refl _, by simp, by simp, Or.inr ⟨by first | rfl | trivial, by first | rfl | trivial, by first | exact zero_r | trivial⟩⟩
  | succ k ih =>
    intro iter xl xr hlt hs
    unfold bisectionLoop
    simp only [two_r]
    have hm1 : xl < (xl + xr) / 2 := by linarith
    have hm2 : (xl + xr) / 2 < xr := by linarith
    -- what a narrowing step hands to the induction hypothesis
    have step : ∀ (xl' xr' : ℝ), xl' < xr' → f xl' * f xr' < 0 → xl ≤ xl' → xr' ≤ xr → (xr' - xl') * 2 = xr - xl →
        let r := bisectionLoop cfg f k (iter + 1) xl' xr' (f xl') (f xr')
        f r.xl * f r.xr < 0 ∧ xl ≤ r.xl ∧ r.xr ≤ xr ∧ r.xl < r.xr ∧
        ∃ j : Nat, j ≤ k + 1 ∧ (r.xr - r.xl) * 2 ^ j = xr - xl ∧ r.iter = iter + j + 1 ∧
          ((r.st = .ok ∧ r.x = (r.xl + r.xr) / 2 ∧
              (f r.x = 0 ∨ r.xr - r.xl < bisTol cfg r.xl r.xr r.x ∨ |f r.x| < cfg.residTol)) ∨
           (r.st = .enohalt ∧ j = k + 1 ∧ r.x = 0)) := by
      intro xl' xr' hlt' hs' h1 h2 hw
      have := ih (iter + 1) xl' xr' hlt' hs'
      simp only [] at this ⊢
      obtain ⟨a, b, c, d, j, hj, hw', hi, hcase⟩ := this
      refine ⟨a, le_trans h1 b, le_trans c h2, d, j + 1, by omega, ?_, ?_, ?_⟩
      · rw [pow_succ, ← mul_assoc, hw', hw]
      · rw [hi]; push_cast; ring
      · rcases hcase with h | ⟨h, h', h''⟩
        · exact Or.inl h
        · exact Or.inr ⟨h, by omega, h''⟩
    by_cases h0 : f ((xl + xr) / 2) = 0
    · have : eqb (f ((xl + xr) / 2)) (zero : ℝ) = true := by rw [eqb_r, zero_r]; exact h0
      simp only [this, if_true]
      exact ⟨hs, le_refl _, le_refl _, hlt, 0, by omega, by simp, by simp, Or.inl ⟨by first | rfl | trivial, by first | rfl | trivial, Or.inl h0⟩⟩
    · have : eqb (f ((xl + xr) / 2)) (zero : ℝ) = false := by
        rw [Bool.eq_false_iff]; intro hc; rw [eqb_r, zero_r] at hc; exact h0 hc
      simp only [this, Bool.false_eq_true, if_false]
      split
      · rename_i ht
        simp only [Bool.or_eq_true, ltb_r, abs_r] at ht
        exact ⟨hs, le_refl _, le_refl _, hlt, 0, by omega, by simp, by simp, Or.inl ⟨by first | rfl | trivial, by first | rfl | trivial, Or.inr ht⟩⟩
      · have hw1 : (xr - (xl + xr) / 2) * 2 = xr - xl := by ring
        have hw2 : ((xl + xr) / 2 - xl) * 2 = xr - xl := by ring
        split
        · rename_i hfl
          rw [gtb_r, zero_r] at hfl
          have hfr : f xr < 0 := by
            by_contra hc; rw [not_lt] at hc
            have := mul_nonneg hfl.le hc; linarith
          split
          · rename_i hfx
            rw [gtb_r, zero_r] at hfx
            exact step _ _ hm2 (mul_neg_of_pos_of_neg hfx hfr) hm1.le (le_refl _) hw1
          · rename_i hfx
            rw [gtb_r, zero_r] at hfx
            have hfx' : f ((xl + xr) / 2) < 0 := lt_of_le_of_ne (not_lt.1 hfx) h0
            exact step _ _ hm1 (mul_neg_of_pos_of_neg hfl hfx') (le_refl _) hm2.le hw2
        · rename_i hfl
          rw [gtb_r, zero_r] at hfl
          have hfl0 : f xl ≠ 0 := by intro hc; rw [hc, zero_mul] at hs; exact lt_irrefl _ hs
          have hfl' : f xl < 0 := lt_of_le_of_ne (not_lt.1 hfl) hfl0
          have hfr : 0 < f xr := by
            by_contra hc; rw [not_lt] at hc
            have := mul_nonneg_of_nonpos_of_nonpos hfl'.le hc; linarith
          split
          · rename_i hfx
            rw [ltb_r, zero_r] at hfx
            exact step _ _ hm2 (mul_neg_of_neg_of_pos hfx hfr) hm1.le (le_refl _) hw1
          · rename_i hfx
            rw [ltb_r, zero_r] at hfx
            have hfx' : 0 < f ((xl + xr) / 2) := lt_of_le_of_ne (not_lt.1 hfx) (Ne.symm h0)
            exact step _ _ hm1 (mul_neg_of_neg_of_pos hfl' hfx') (le_refl _) hm2.le hw2


theorem bisTol_ge (cfg : RootCfg ℝ) (hr : 0 ≤ cfg.relTol) (xl xr x : ℝ) : cfg.absTol ≤ bisTol cfg xl xr x := by
  unfold bisTol
  simp only [abs_r]
  have := mul_nonneg hr (abs_nonneg (if (ltb xl (zero : ℝ) && gtb xr (zero : ℝ)) = true then (zero : ℝ) else x))
  linarith

/-- **bisection converges, wherever the root lies** (ℝ, any function; since 8354c02 no sign condition): with `abs_tolerance > 0`,
    `rel_tolerance ≥ 0`, a bracket with a sign change and `k+1` rounds available, `xr - xl < abs_tolerance·2^k` forces eslOK. -/
theorem bisectionLoop_converges (cfg : RootCfg ℝ) (f : ℝ → ℝ) (ha : 0 < cfg.absTol) (hr : 0 ≤ cfg.relTol) :
    ∀ (k : Nat) (iter : Int) (xl xr fl fr : ℝ), xr - xl < cfg.absTol * 2 ^ k →
      (bisectionLoop cfg f (k + 1) iter xl xr fl fr).st = .ok := by
  intro k
  induction k with
  | zero =>
    intro iter xl xr fl fr hw
    unfold bisectionLoop
    simp only [two_r]
    split
    · rfl
    · have : ltb (xr - xl) (bisTol cfg xl xr ((xl + xr) / 2)) = true := by
        rw [ltb_r]; have := bisTol_ge cfg hr xl xr ((xl + xr) / 2); simp at hw; linarith
      simp only [this, Bool.true_or, if_true]
  | succ k ih =>
    intro iter xl xr fl fr hw
    unfold bisectionLoop
    simp only [two_r]
    have hw1 : xr - (xl + xr) / 2 < cfg.absTol * 2 ^ k := by rw [pow_succ] at hw; linarith
    have hw2 : (xl + xr) / 2 - xl < cfg.absTol * 2 ^ k := by rw [pow_succ] at hw; linarith
    split
    · rfl
    · split
      · rfl
      · split
        · split
          · exact ih _ _ _ _ _ hw1
          · exact ih _ _ _ _ _ hw2
        · split
          · exact ih _ _ _ _ _ hw1
          · exact ih _ _ _ _ _ hw2

/-! ## `bracket()` -/

/-- the three abscissae are strictly monotone (either direction) -/
def BrOrd (b : Bracket ℝ) : Prop := (b.ax < b.bx ∧ b.bx < b.cx) ∨ (b.cx < b.bx ∧ b.bx < b.ax)
/-- the three stored values are the line function at the three abscissae -/
def BrVals (fline : ℝ → ℝ) (b : Bracket ℝ) : Prop := b.fa = fline b.ax ∧ b.fb = fline b.bx ∧ b.fc = fline b.cx

theorem k1618 : (0 : ℝ) < (1.618 : ℝ) := by norm_num

theorem bracketLoopCG_spec (fline : ℝ → ℝ) (maxIter : Nat) (F0 : ℝ) :
    ∀ (k niter : Nat) (b b' : Bracket ℝ), maxIter + 2 ≤ k + niter → niter ≤ maxIter →
      BrOrd b → BrVals fline b → b.fb ≤ b.fa → b.fb ≤ F0 →
      bracketLoopCG fline maxIter k niter b = some b' →
      BrOrd b' ∧ BrVals fline b' ∧ b'.fb ≤ b'.fa ∧ b'.fb ≤ b'.fc ∧ b'.fb ≤ F0 := by
  intro k
  induction k with
  | zero => intro niter b b' h1 h2; omega
  | succ k ih =>
    intro niter b b' h1 h2 ho hv hba h0 h
    unfold bracketLoopCG at h
    simp only [] at h
    split at h
    · rename_i hcb
      rw [leb_r] at hcb
      -- the slid bracket
      have ho' : BrOrd { ax := b.bx, bx := b.cx, cx := b.cx + (b.cx - b.bx) * (1.618 : ℝ), fa := b.fb, fb := b.fc, fc := fline (b.cx + (b.cx - b.bx) * (1.618 : ℝ)) } := by
        rcases ho with ⟨o1, o2⟩ | ⟨o1, o2⟩
        · left; refine ⟨o2, ?_⟩
          show b.cx < b.cx + (b.cx - b.bx) * (1.618 : ℝ)
          have := mul_pos (sub_pos.2 o2) k1618; linarith
        · right; refine ⟨?_, o1⟩
          show b.cx + (b.cx - b.bx) * (1.618 : ℝ) < b.cx
          have := mul_pos (sub_pos.2 o1) k1618; nlinarith
      have hv' : BrVals fline { ax := b.bx, bx := b.cx, cx := b.cx + (b.cx - b.bx) * (1.618 : ℝ), fa := b.fb, fb := b.fc, fc := fline (b.cx + (b.cx - b.bx) * (1.618 : ℝ)) } := ⟨hv.2.1, hv.2.2, rfl⟩
      split at h
      · rename_i heq
        simp only [Option.some.injEq] at h
        subst h
        simp only [Bool.and_eq_true, eqb_r] at heq
        refine ⟨ho', hv', ?_, ?_, le_trans hcb h0⟩
        · show b.fc ≤ b.fb; exact hcb
        · show b.fc ≤ fline (b.cx + (b.cx - b.bx) * (1.618 : ℝ)); exact le_of_eq heq.2
      · split at h
        · cases h
        · rename_i hn
          exact ih (niter + 1) _ b' (by omega) (by omega) ho' hv' hcb (le_trans hcb h0) h
    · rename_i hcb
      rw [leb_r] at hcb
      simp only [Option.some.injEq] at h
      subst h
      exact ⟨ho, hv, hba, (not_le.1 hcb).le, h0⟩

/-- **`bracket()` post-condition (ℝ, any line function, any non-zero first step).** When `bracket()` returns eslOK, its triplet satisfies
    `a < b < c`, the three values are the line function at those points, `f(b) ≤ f(a)`, `f(b) ≤ f(c)`, and `f(b) ≤ f(0)` (the middle
    point is never worse than the point the search started from). It returns within `brack_maxiter + 1` rounds or eslENORESULT. -/
theorem bracketCG_spec (cfg : MinCfg ℝ) (fline : ℝ → ℝ) (firststep : ℝ) (hfs : firststep ≠ 0) (b : Bracket ℝ)
    (h : bracketCG cfg fline (fline 0) firststep = some b) :
    b.ax < b.bx ∧ b.bx < b.cx ∧ BrVals fline b ∧ b.fb ≤ b.fa ∧ b.fb ≤ b.fc ∧ b.fb ≤ fline 0 := by
  unfold bracketCG at h
  simp only [zero_r] at h
  -- the start bracket, in the two cases of the first swap
  have start : ∀ (ax bx : ℝ), ax ≠ bx → fline bx ≤ fline ax → fline bx ≤ fline 0 → ∀ b0,
      bracketLoopCG fline cfg.brackMaxIter (cfg.brackMaxIter + 2) 0
        { ax := ax, bx := bx, cx := bx + (bx - ax) * (1.618 : ℝ), fa := fline ax, fb := fline bx, fc := fline (bx + (bx - ax) * (1.618 : ℝ)) } = some b0 →
      BrOrd b0 ∧ BrVals fline b0 ∧ b0.fb ≤ b0.fa ∧ b0.fb ≤ b0.fc ∧ b0.fb ≤ fline 0 := by
    intro ax bx hne hle h0 b0 hb0
    refine bracketLoopCG_spec fline cfg.brackMaxIter (fline 0) _ 0 _ b0 (by omega) (by omega) ?_ ⟨rfl, rfl, rfl⟩ hle h0 hb0
    rcases lt_or_gt_of_ne hne with hlt | hgt
    · left; refine ⟨hlt, ?_⟩
      show bx < bx + (bx - ax) * (1.618 : ℝ)
      have := mul_pos (sub_pos.2 hlt) k1618; linarith
    · right; refine ⟨?_, hgt⟩
      show bx + (bx - ax) * (1.618 : ℝ) < bx
      have := mul_pos (sub_pos.2 hgt) k1618; nlinarith
  have fin : ∀ b0 : Bracket ℝ, BrOrd b0 ∧ BrVals fline b0 ∧ b0.fb ≤ b0.fa ∧ b0.fb ≤ b0.fc ∧ b0.fb ≤ fline 0 →
      (if gtb b0.ax b0.cx = true then some ({ b0 with ax := b0.cx, cx := b0.ax, fa := b0.fc, fc := b0.fa } : Bracket ℝ) else some b0) = some b →
      b.ax < b.bx ∧ b.bx < b.cx ∧ BrVals fline b ∧ b.fb ≤ b.fa ∧ b.fb ≤ b.fc ∧ b.fb ≤ fline 0 := by
    intro b0 ⟨ho, hv, h1, h2, h3⟩ hb
    split at hb
    · rename_i hg
      rw [gtb_r] at hg
      simp only [Option.some.injEq] at hb
      subst hb
      rcases ho with ⟨o1, o2⟩ | ⟨o1, o2⟩
      · exfalso; linarith
      · exact ⟨o1, o2, ⟨hv.2.2, hv.2.1, hv.1⟩, h2, h1, h3⟩
    · rename_i hg
      rw [gtb_r] at hg
      simp only [Option.some.injEq] at hb
      subst hb
      rcases ho with ⟨o1, o2⟩ | ⟨o1, o2⟩
      · exact ⟨o1, o2, hv, h1, h2, h3⟩
      · exfalso; linarith
  by_cases hsw : fline 0 < fline firststep
  · have hg : gtb (fline firststep) (fline 0) = true := by rw [gtb_r]; exact hsw
    simp only [hg, if_true] at h
    split at h
    · cases h
    · rename_i b0 hb0
      exact fin b0 (start firststep 0 hfs hsw.le (le_refl _) b0 hb0) h
  · have hg : gtb (fline firststep) (fline 0) = false := by
      rw [Bool.eq_false_iff]; intro hc; rw [gtb_r] at hc; exact hsw hc
    simp only [hg, Bool.false_eq_true, if_false] at h
    split at h
    · cases h
    · rename_i b0 hb0
      exact fin b0 (start 0 firststep (Ne.symm hfs) (not_lt.1 hsw) (not_lt.1 hsw) b0 hb0) h

/-! ## `brent()` -/

/-- **`brent()` never hands back a point worse than the one it was started from** (ℝ): from a state with `fx = f(x)`, the result
    `(x', fx')` has `fx' = f(x')` and `fx' ≤ fx`. -/
theorem brentLoop_descent (eps t : ℝ) (fline : ℝ → ℝ) : ∀ (k : Nat) (s : BrentSt ℝ) (x fx : ℝ),
    s.fx = fline s.x → brentLoop eps t fline k s = some (x, fx) → fx = fline x ∧ fx ≤ s.fx := by
  intro k
  induction k with
  | zero => intro s x fx _ h; simp [brentLoop] at h
  | succ k ih =>
    intro s x fx hs h
    unfold brentLoop at h
    rcases brentStep_cases eps t fline s with ⟨_, hf⟩ | e | ⟨s', e, hs'⟩
    · exfalso; rcases hf with hf | hf <;> cases hf
    · rw [e] at h
      simp only [Option.some.injEq, Prod.mk.injEq] at h
      rw [← h.1, ← h.2]; exact ⟨hs, le_refl _⟩
    · rw [e] at h
      simp only [] at h
      rcases hs' with ⟨h1, h2⟩ | ⟨h1, h2⟩
      · obtain ⟨r1, r2⟩ := ih s' x fx (by rw [h2, h1]; exact hs) h
        exact ⟨r1, by rw [← h2]; exact r2⟩
      · obtain ⟨r1, r2⟩ := ih s' x fx h1 h
        rw [leb_r] at h2
        exact ⟨r1, le_trans r2 h2⟩

/-- `brent(a, b)` over ℝ: the result is the line function at the returned abscissa and is not larger than its value at the
    golden-section point `a + c·(b - a)` the search starts from. NOTE: the start point is NOT the middle point `bx` of `bracket()`'s
    triplet (see `cg_is_not_a_descent_method`). -/
theorem brentCG_descent (cfg : MinCfg ℝ) (fline : ℝ → ℝ) (a b x fx : ℝ) (h : brentCG cfg fline a b = some (x, fx)) :
    fx = fline x ∧ fx ≤ fline (a + goldC * (b - a)) := by
  unfold brentCG at h
  exact brentLoop_descent _ _ fline _ _ x fx rfl h

end EaselModel.Stats
