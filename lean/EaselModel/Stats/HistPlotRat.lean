import EaselModel.Stats.HistExpect
import EaselModel.Stats.HistMass
import EaselModel.Stats.HistExpectLemmas
/-! # The tables `esl_histogram_Plot` / `esl_histogram_PlotSurvival` print account for the data (C11, over ℚ) -/
namespace EaselModel.Stats

/-- the observed data set of `esl_histogram_Plot`, inside the bins: no fault; one row per bin `i, i+1, …`, carrying that bin's count -/
theorem plotRows_eq (obs : Array Nat) : ∀ (k : Nat) (i : Int) (acc : List (Int × Nat)), 0 ≤ i → i + k ≤ obs.size →
    plotRows obs k i acc = .val (acc.reverse ++ (List.range k).map (fun (j : Nat) => (i + (j : Int), obsAt obs (i + (j : Int))))) := by
  intro k
  induction k with
  | zero => intro i acc _ _; simp [plotRows]
  | succ k ih =>
    intro i acc h0 h1
    unfold plotRows
    rw [getObs_val obs i h0 (by omega)]
    simp only []
    rw [ih (i + 1) _ (by omega) (by push_cast at h1 ⊢; omega)]
    congr 1
    rw [List.range_succ_eq_map, List.map_cons, List.map_map, List.reverse_cons, List.append_assoc]
    congr 1
    simp only [List.singleton_append, Nat.cast_zero, add_zero, List.cons.injEq, true_and]
    apply List.map_congr_left
    intro j _
    simp only [Function.comp, Nat.cast_succ]
    have : i + 1 + (j : Int) = i + ((j : Int) + 1) := by omega
    rw [this]

theorem sum_rows (obs : Array Nat) : ∀ (k : Nat) (i : Int),
    (((List.range k).map (fun (j : Nat) => (i + (j : Int), obsAt obs (i + (j : Int))))).map (fun r => r.2)).sum = binSum obs i k := by
  intro k
  induction k with
  | zero => intro i; simp [binSum]
  | succ k ih =>
    intro i
    rw [binSum_succ_top, List.range_succ, List.map_append, List.map_append, List.sum_append, ih]
    simp

/-- all accepted values lie in the bins `imin..imax`, so those bins hold `n` counts -/
theorem binSum_all (h : Hist ℚ) (vs : List ℚ) (acc : Accounts h vs) : binSum h.obs h.imin (h.imax + 1 - h.imin).toNat = vs.length := by
  rw [binSum_counts h vs acc]
  rcases idx_state h vs acc with ⟨e, i1, i2⟩ | ⟨_, i1, i2, i3⟩
  · subst e; simp
  · rw [List.countP_eq_length]
    intro v hv
    obtain ⟨a, b⟩ := value_range h vs acc v hv
    simp only [decide_eq_true_eq]
    refine ⟨a, ?_⟩
    have : ((h.imin : ℚ) + (((h.imax + 1 - h.imin).toNat : Nat) : ℚ)) = (h.imax : ℚ) + 1 := by
      have e : (((h.imax + 1 - h.imin).toNat : Nat) : Int) = h.imax + 1 - h.imin := by omega
      have e' : (((h.imax + 1 - h.imin).toNat : Nat) : ℚ) = ((h.imax + 1 - h.imin : Int) : ℚ) := by
        rw [← Int.cast_natCast, e]
      rw [e']; push_cast; ring
    rw [this]; exact b

/-- **`esl_histogram_Plot` accounts for the data**: after ANY history of accepted values `vs`, the observed data set is printed without
    reading outside `obs[]`, has one row per bin from `imin` to `imax` (none for an empty histogram), each carrying the number of accepted
    values in that bin's half-open interval, and the counts printed add up to the number of accepted values. -/
theorem plotObserved_accounts (h : Hist ℚ) (vs : List ℚ) (acc : Accounts h vs) :
    ∃ rows, h.plotObserved = .val rows ∧ rows.length = (h.imax + 1 - h.imin).toNat ∧ (rows.map (fun r => r.2)).sum = vs.length ∧
      ∀ r ∈ rows, h.imin ≤ r.1 ∧ r.1 ≤ h.imax ∧ r.2 = vs.countP (fun x => decide (inBin h.bmin h.w r.1 x)) := by
  unfold Hist.plotObserved
  have hsz := acc.wf.size
  have hrange : 0 ≤ h.imin ∧ h.imin + ((h.imax + 1 - h.imin).toNat : Int) ≤ h.obs.size := by
    rcases idx_state h vs acc with ⟨_, i1, i2⟩ | ⟨_, i1, i2, i3⟩
    · have := acc.wf.nb_pos; omega
    · omega
  rw [plotRows_eq h.obs _ h.imin [] hrange.1 hrange.2]
  refine ⟨_, rfl, by simp, ?_, ?_⟩
  · simp only [List.reverse_nil, List.nil_append]
    rw [sum_rows, binSum_all h vs acc]
  · intro r hr
    simp only [List.reverse_nil, List.nil_append, List.mem_map, List.mem_range] at hr
    obtain ⟨j, hj, rfl⟩ := hr
    refine ⟨by omega, by omega, ?_⟩
    exact acc.counts _

/-- the observed part of `esl_histogram_PlotSurvival`: scanning `k` bins downwards from `i`, the last row printed carries the running
    total `c + Σ obs` of everything scanned -/
theorem survRows_last (obs : Array Nat) : ∀ (k : Nat) (i : Int) (c : Nat) (acc : List (Int × Nat)), 0 ≤ i - k + 1 → i < obs.size →
    (∀ hd ∈ acc.head?, hd.2 = c) →
    ∃ rows, survRows obs k i c acc = .val rows ∧ ∀ l ∈ rows.getLast?, l.2 = c + binSum obs (i - k + 1) k := by
  intro k
  induction k with
  | zero =>
    intro i c acc _ _ hh
    refine ⟨acc.reverse, rfl, ?_⟩
    intro l hl
    rw [List.getLast?_reverse] at hl
    simp only [binSum, Nat.add_zero]
    exact hh l hl
  | succ k ih =>
    intro i c acc h0 h1 hh
    unfold survRows
    rw [getObs_val obs i (by push_cast at h0; omega) h1]
    simp only []
    have hb : binSum obs (i - ((k + 1 : Nat) : Int) + 1) (k + 1) = binSum obs (i - 1 - (k : Int) + 1) k + obsAt obs i := by
      rw [binSum_succ_top]
      have e1 : i - ((k + 1 : Nat) : Int) + 1 = i - 1 - (k : Int) + 1 := by push_cast; omega
      have e2 : i - 1 - (k : Int) + 1 + (k : Int) = i := by omega
      rw [e1, e2]
    split
    · obtain ⟨rows, e, hl⟩ := ih (i - 1) (c + obsAt obs i) ((i, c + obsAt obs i) :: acc) (by push_cast at h0; omega) (by omega)
        (by intro hd hhd; simp only [List.head?_cons, Option.mem_def, Option.some.injEq] at hhd; rw [← hhd])
      exact ⟨rows, e, fun l hm => by rw [hl l hm, hb]; omega⟩
    · rename_i hz
      obtain ⟨rows, e, hl⟩ := ih (i - 1) c acc (by push_cast at h0; omega) (by omega) hh
      exact ⟨rows, e, fun l hm => by rw [hl l hm, hb]; omega⟩

/-- **`esl_histogram_PlotSurvival` accounts for the data** (also on an empty histogram: repaired in e843eeb): no read outside `obs[]`; the
    extra first row is printed exactly when the top bin holds more than one value; and the last cumulative count printed is the number of
    accepted values (so the last survival fraction is `n / Nc`). -/
theorem plotSurvival_accounts (h : Hist ℚ) (vs : List ℚ) (acc : Accounts h vs) :
    ∃ first rows, h.plotSurvival = .val (first, rows) ∧ (vs = [] → first = false ∧ rows = []) ∧
      (first = true → 1 < vs.countP (fun x => decide (inBin h.bmin h.w h.imax x))) ∧ ∀ l ∈ rows.getLast?, l.2 = vs.length := by
  unfold Hist.plotSurvival
  have hsz := acc.wf.size
  rcases idx_state h vs acc with ⟨e, i1, i2⟩ | ⟨hne, i1, i2, i3⟩
  · have hk : (h.imax + 1 - h.imin).toNat = 0 := by have := acc.wf.nb_pos; omega
    have hm : ¬ (h.imax > -1) := by omega
    simp only [hm, if_false, hk, survRows]
    refine ⟨false, [], rfl, fun _ => ⟨rfl, rfl⟩, ?_, ?_⟩
    · intro hc; cases hc
    · intro l hl; simp at hl
  · have hm : h.imax > -1 := by omega
    simp only [hm, if_true]
    rw [getObs_val h.obs h.imax (by omega) (by omega)]
    simp only []
    obtain ⟨rows, e, hl⟩ := survRows_last h.obs (h.imax + 1 - h.imin).toNat h.imax 0 [] (by omega) (by omega) (by intro hd hhd; cases hhd)
    rw [e]
    refine ⟨_, rows, rfl, fun hv => absurd hv hne, ?_, ?_⟩
    · intro hf
      simp only [decide_eq_true_eq] at hf
      rw [← acc.counts h.imax]; exact hf
    · intro l hm'
      rw [hl l hm', Nat.zero_add]
      have : h.imax - (((h.imax + 1 - h.imin).toNat : Nat) : Int) + 1 = h.imin := by omega
      rw [this]
      exact binSum_all h vs acc

/-- `esl_histogram_DeclareRounding` only raises the `is_rounded` flag: the histogram accounts for the same values afterwards -/
theorem declareRounding_accounts (h : Hist ℚ) (vs : List ℚ) (acc : Accounts h vs) : Accounts h.declareRounding vs ∧
    h.declareRounding.obs = h.obs ∧ h.declareRounding.isRounded = true := by
  refine ⟨?_, rfl, rfl⟩
  exact { wf := ⟨acc.wf.size, acc.wf.nb_pos, acc.wf.nb_le, acc.wf.alloc, acc.wf.xsize⟩, idx := acc.idx, wpos := acc.wpos, counts := acc.counts,
          n := acc.n, tot := acc.tot, below := acc.below, above := acc.above, occ := acc.occ, sent := acc.sent, xlo := acc.xlo, xmem := acc.xmem,
          xempty := acc.xempty, fin := acc.fin, raw := acc.raw }

/-! ## the range `esl_histogram_Goodness` evaluates -/

theorem goodnessCount_eq (obs : Array Nat) : ∀ (k : Nat) (b : Int) (acc : Nat), 0 ≤ b → b + k ≤ obs.size →
    goodnessCount obs k b acc = .val (acc + binSum obs b k) := by
  intro k
  induction k with
  | zero => intro b acc _ _; simp [goodnessCount, binSum]
  | succ k ih =>
    intro b acc h0 h1
    unfold goodnessCount binSum
    rw [getObs_val obs b h0 (by omega)]
    simp only []
    rw [ih (b + 1) (acc + obsAt obs b) (by omega) (by push_cast at h1 ⊢; omega)]
    congr 1; omega

/-- **what `esl_histogram_Goodness` evaluates, in terms of the raw data** (ℚ): the `nobs` of its first loop — and hence, by
    `goodness_accounts`, the total of its re-bins — is the number of accepted values above the lower bound of the first evaluated bin. -/
theorem goodnessCount_raw (h : Hist ℚ) (vs : List ℚ) (acc : Accounts h vs) (b : Int) (hb0 : 0 ≤ b) (hb1 : b ≤ h.imax + 1) :
    goodnessCount h.obs (h.imax + 1 - b).toNat b 0 = .val (vs.countP (fun x => decide (h.bmin + b * h.w < x))) := by
  have hsz := acc.wf.size
  have himax : h.imax < h.nb := by
    rcases idx_state h vs acc with ⟨_, _, i2⟩ | ⟨_, _, _, i3⟩
    · have := acc.wf.nb_pos; omega
    · exact i3
  rw [goodnessCount_eq h.obs _ b 0 hb0 (by omega), Nat.zero_add, binSum_counts h vs acc]
  congr 1
  apply List.countP_congr
  intro x hx
  simp only [decide_eq_true_eq]
  constructor
  · intro hh; exact hh.1
  · intro hh
    refine ⟨hh, ?_⟩
    obtain ⟨_, hub⟩ := value_range h vs acc x hx
    have e : (((h.imax + 1 - b).toNat : Nat) : ℚ) = ((h.imax + 1 - b : Int) : ℚ) := by
      rw [← Int.cast_natCast]; congr 1; omega
    rw [e]; push_cast
    have : (b : ℚ) + ((h.imax : ℚ) + 1 - (b : ℚ)) = (h.imax : ℚ) + 1 := by ring
    rw [this]; exact hub

end EaselModel.Stats
