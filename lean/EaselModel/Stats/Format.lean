import EaselModel.Stats.HistExpect
/-! # The text `esl_histogram_Plot` writes for the observed histogram (C11, kind H)

C99 `"%f"` of a binary64 value is a function of its exact (dyadic rational) value: six decimals, round-half-even on the exact value
(glibc, default rounding mode). `fmtF` computes it from the bit pattern with integer arithmetic only, so the rows
`"%f %llu\n"` of the first data set of `esl_histogram_Plot`, its trailing `"%f 0\n"` row and the `&` line are modelled byte for byte.
Core Lean only. -/
namespace EaselModel.Stats

/-- `"%f"` of the binary64 value with this bit pattern; `none` for NaN/∞ (never a bin bound of a histogram that accepted a value) -/
def fmtFBits (bits : UInt64) : Option String :=
  let sign := (bits >>> 63) != 0
  let ex := ((bits >>> 52) &&& (0x7ff : UInt64)).toNat
  let frac := (bits &&& (0xfffffffffffff : UInt64)).toNat
  if ex == 2047 then none else
  let m : Nat := if ex == 0 then frac else frac + 2 ^ 52
  let e : Int := if ex == 0 then -1074 else (ex : Int) - 1075
  let q : Nat :=
    if e ≥ 0 then m * 2 ^ e.toNat * 1000000 else
    let num := m * 1000000
    let den := 2 ^ (-e).toNat
    let q := num / den
    let r := num % den
    if 2 * r > den || (2 * r == den && q % 2 == 1) then q + 1 else q
  let ip := q / 1000000
  let fp := toString (q % 1000000)
  some ((if sign then "-" else "") ++ toString ip ++ "." ++ "".pushn '0' (6 - fp.length) ++ fp)

def fmtF (x : Float) : Option String := fmtFBits x.toBits

/-- first data set of `esl_histogram_Plot(fp, h)`: one row per bin `imin..imax`, the trailing `y = 0` row at the loop variable's final value
    (`imax+1`, or `imin` when the loop did not run), then `&`; `none` = a read outside `obs[]` or a non-finite bound -/
def Hist.plotText (h : Hist Float) : Option String :=
  match h.plotObserved with
  | .fault => none
  | .val rows =>
    let last : Int := if h.imin ≤ h.imax then h.imax + 1 else h.imin
    let body := rows.foldl (fun (acc : Option String) (r : Int × Nat) =>
      match acc, fmtF (h.lbound r.1) with
      | some s, some x => some (s ++ x ++ " " ++ toString r.2 ++ "\n")
      | _, _ => none) (some "")
    match body, fmtF (h.lbound last) with
    | some s, some x => some (s ++ x ++ " 0\n&\n")
    | _, _ => none

/-- FNV-1a over the UTF-8 bytes -/
def fnvText (s : String) : UInt64 :=
  s.toUTF8.foldl (fun h b => (h ^^^ b.toUInt64) * (0x100000001b3 : UInt64)) (0xcbf29ce484222325 : UInt64)

end EaselModel.Stats
