import EaselModel.Stats.FitCG
import EaselModel.Stats.MinLemmas
/-! # Executable model of the generalized-extreme-value fits (C11, kind H)

`esl_gev_FitComplete` / `esl_gev_FitCensored` (`fitting_engine`, `gev_func`, `gev_gradient`, `esl_gev_logpdf`, `esl_gev_logcdf`) on top of
the minimiser model. The density functions call libm's `log1p`, which the numeric class `Num` does not carry: it comes in through the
one-function class `Log1p` — `Float`: the same libm symbol the C code calls (so the differential run stays bit-exact); `ℝ`: `log(1+x)`
(`GevReal.lean`). Core Lean only. -/
namespace EaselModel.Stats
open Num

/-- libm `log1p` -/
class Log1p (α : Type) where
  log1p : α → α

/-- Lean's `Float` has no binding for `log1p`; this is the libm symbol the C code calls -/
@[extern "log1p"] opaque log1pFloat : Float → Float
instance : Log1p Float := ⟨log1pFloat⟩

variable {α : Type} [Num α] [Log1p α]

/-- `esl_gev_logpdf()` -/
def gevLogpdf (x mu lambda alpha : α) : α :=
  let y := lambda * (x - mu)
  let ya1 := one + alpha * y
  if ltb (abs (y * alpha)) (1e-12 : α) then (log lambda - y) - exp (-y) else
  if leb ya1 zero then negInf else
  let lya1 := Log1p.log1p (alpha * y)
  (log lambda - (one + one / alpha) * lya1) - exp (-lya1 / alpha)

/-- `esl_gev_logcdf()` -/
def gevLogcdf (x mu lambda alpha : α) : α :=
  let y := lambda * (x - mu)
  let ya1 := one + alpha * y
  if ltb (abs (y * alpha)) (1e-12 : α) then Neg.neg (exp (-y)) else
  if leb ya1 zero then (if ltb x mu then negInf else zero) else
  let lya1 := Log1p.log1p (alpha * y)
  Neg.neg (exp (-lya1 / alpha))

/-- `gev_func()`: the negative log-likelihood in `p = (μ, log λ, α)`; `cens = some (z, phi)` for `is_censored` -/
def gevFunc (xs : Array α) (cens : Option (Int × α)) (p : Array α) : α :=
  let mu := p.getD 0 zero
  let lambda := exp (p.getD 1 zero)
  let alpha := p.getD 2 zero
  let logL := xs.foldl (fun acc x => acc + gevLogpdf x mu lambda alpha) zero
  let logL := match cens with
    | some (z, phi) => logL + ofInt z * gevLogcdf phi mu lambda alpha
    | none => logL
  Neg.neg logL

/-- one sample of `gev_gradient()`'s loop: `(dmu, dw, dalpha)` updated in the order of the C statements -/
def gevGradStep (mu lambda alpha : α) (acc : α × α × α) (x : α) : α × α × α :=
  let (dmu, dw, dalpha) := acc
  let y := lambda * (x - mu)
  let ay := alpha * y
  let ay1 := one + ay
  let lay1 := log ay1
  let small := ltb (abs ay) (1e-12 : α)
  let dmu := dmu + (alpha + one) / ay1
  let dmu := if small then dmu - exp (-y) else dmu - exp (-(one + one / alpha) * lay1)
  let dw := dw - y * (one + alpha) / ay1
  let dw := if small then dw + y * exp (-y) else dw + y * exp (-(one + one / alpha) * lay1)
  let dalpha := dalpha - (one + one / alpha) * y / ay1
  let dalpha :=
    if small then
      let d := dalpha + y / alpha
      let d := d + y * exp (-y) / (alpha * ay1)
      d - y * exp (-y) / alpha
    else
      let d := dalpha + lay1 / (alpha * alpha)
      let d := d + y * exp (-lay1 / alpha) / (alpha * ay1)
      d - lay1 * exp (-lay1 / alpha) / (alpha * alpha)
  (dmu, dw, dalpha)

/-- `gev_gradient()` -/
def gevGrad (xs : Array α) (cens : Option (Int × α)) (p : Array α) : Array α :=
  let mu := p.getD 0 zero
  let lambda := exp (p.getD 1 zero)
  let alpha := p.getD 2 zero
  let (dmu, dw, dalpha) := xs.foldl (gevGradStep mu lambda alpha) (zero, ofInt xs.size, zero)
  let dmu := dmu * lambda
  let (dmu, dw, dalpha) := match cens with
    | none => (dmu, dw, dalpha)
    | some (z, phi) =>
      let zz : α := ofInt z
      let y := lambda * (phi - mu)
      let ay := alpha * y
      let ay1 := one + ay
      let lay1 := log ay1
      if ltb (abs ay) (1e-12 : α) then
        (dmu - zz * lambda * exp (-y) / ay1, dw + zz * y * exp (-y) / ay1, dalpha - zz * exp (-y) * y / alpha * ay / ay1)
      else
        (dmu - zz * lambda * exp (-lay1 / alpha) / ay1, dw + zz * y * exp (-lay1 / alpha) / ay1,
         dalpha - zz * exp (-lay1 / alpha) * (lay1 / (alpha * alpha) - y / (alpha * ay1)))
  #[Neg.neg dmu, Neg.neg dw, Neg.neg dalpha]

/-- the customised optimiser configuration of `fitting_engine()`: `cg_rtol = 1e-6`, `u = (1.0, fabs(log(0.02)), 0.02)` -/
def gevCfg : MinCfg α :=
  { (MinCfg.create 3 : MinCfg α) with u := some #[(1.0 : α), abs (log (0.02 : α)), (0.02 : α)], cgRtol := (1e-6 : α) }

/-- the start point of `fitting_engine()` -/
def gevStart (xs : Array α) : Array α :=
  let (mean, variance) := dmean xs
  let lambda := piConst / sqrt ((6.0 : α) * variance)
  let mu := mean - (0.57722 : α) / lambda
  #[mu, log lambda, (0.0001 : α)]

def gevCG (xs : Array α) (cens : Option (Int × α)) : MinRes α × StopWhy :=
  cgd gevCfg (gevFunc xs cens) (some (gevGrad xs cens)) (gevStart xs)

/-- `fitting_engine()` → `(mu, lambda, alpha)`: the optimiser's status is handed back unchanged, the parameters whatever it was -/
def gevFittingEngine (xs : Array α) (cens : Option (Int × α)) : FitRes α :=
  match (gevCG xs cens).1 with
  | .hang => .hang
  | .res st p _ => .res st #[p.getD 0 zero, exp (p.getD 1 zero), p.getD 2 zero]

/-- `esl_gev_FitComplete()` -/
def gevFitComplete (xs : Array α) : FitRes α := gevFittingEngine xs none
/-- `esl_gev_FitCensored()` -/
def gevFitCensored (xs : Array α) (z : Int) (phi : α) : FitRes α := gevFittingEngine xs (some (z, phi))

/-- **`esl_gev_FitComplete` / `esl_gev_FitCensored` (model), every data set and numeric class**: total up to `brent()`'s uncapped loop; the
    status is one of eslOK / eslENOHALT / eslERANGE / eslENORESULT; three parameters come back; eslOK only when the minimiser's stopping
    rule held. -/
theorem gevFit_post (xs : Array α) (cens : Option (Int × α)) (st : St) (ps : Array α) (h : gevFittingEngine xs cens = .res st ps) :
    (st = .ok ∨ st = .enohalt ∨ st = .erange ∨ st = .enoresult) ∧ ps.size = 3 ∧
    (st = .ok → (gevCG xs cens).2 = .converged ∨ (gevCG xs cens).2 = .zeroDirection ∨ (gevCG xs cens).2 = .zeroGradient) := by
  unfold gevFittingEngine at h
  have hp : CGPost (gevCfg : MinCfg α) (gevCG xs cens) := cgd_post _ _ _ _
  rcases hp with hh | ⟨st', x, fx, e, hcase⟩
  · rw [hh] at h; cases h
  · rw [e] at h
    injection h with h1 h2
    subst h1; subst h2
    refine ⟨?_, rfl, ?_⟩
    · rcases hcase with ⟨a, _⟩ | ⟨a, _⟩ | ⟨a, _⟩ | ⟨a, _⟩ <;> simp [a]
    · intro hok
      rcases hcase with ⟨_, _, c⟩ | ⟨a, _⟩ | ⟨a, _⟩ | ⟨a, _⟩
      · rcases c with ⟨c, _⟩ | c | c
        · exact Or.inl c
        · exact Or.inr (Or.inl c)
        · exact Or.inr (Or.inr c)
      all_goals (rw [a] at hok; cases hok)

end EaselModel.Stats
