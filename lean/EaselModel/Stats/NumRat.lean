import EaselModel.Stats.HistLemmas
import Mathlib.Data.Rat.Floor
import Mathlib.Algebra.Order.Floor.Ring
import Mathlib.Tactic.Linarith
import Mathlib.Tactic.Ring
import Mathlib.Tactic.FieldSimp
import Mathlib.Tactic.NormNum
/-! # The exact instance `Num ℚ` and the interval theorems of the histogram (C11)

Over `ℚ` the arithmetic of `esl_histogram_Score2Bin` is exact, so the bin is *the* bin whose half-open interval
`(bmin + b·w, bmin + (b+1)·w]` contains the value. (Binary64 placement of a value within rounding distance of a bin edge
is layer L0: checked by the bit-exact differential run against the `Float` instance, not a theorem.) -/
namespace EaselModel.Stats

/-- `DBL_MAX` as a rational number -/
def dblMaxQ : ℚ := (2^53 - 1) * 2^971

noncomputable instance : Num ℚ where
  ofInt i := (i : ℚ)
  ltb a b := decide (a < b)
  leb a b := decide (a ≤ b)
  eqb a b := decide (a = b)
  ceil q := ((⌈q⌉ : Int) : ℚ)
  toInt q := if 0 ≤ q then ⌊q⌋ else ⌈q⌉
  isFinite q := decide (|q| ≤ dblMaxQ)
  exp _ := 0      -- transcendental functions are not used by the histogram theorems (the fits are proved over ℝ)
  log _ := 0
  sqrt _ := 0
  abs q := |q|
  pow _ _ := 0
  dblMax := dblMaxQ

@[simp] theorem ofInt_q (i : Int) : (Num.ofInt i : ℚ) = (i : ℚ) := rfl
@[simp] theorem ltb_q (a b : ℚ) : (Num.ltb a b = true) ↔ a < b := by simp [Num.ltb]
@[simp] theorem leb_q (a b : ℚ) : (Num.leb a b = true) ↔ a ≤ b := by simp [Num.leb]
@[simp] theorem gtb_q (a b : ℚ) : (Num.gtb a b = true) ↔ b < a := by simp [Num.gtb, Num.ltb]
@[simp] theorem geb_q (a b : ℚ) : (Num.geb a b = true) ↔ b ≤ a := by simp [Num.geb, Num.leb]
@[simp] theorem ceil_q (q : ℚ) : (Num.ceil q : ℚ) = ((⌈q⌉ : Int) : ℚ) := rfl
@[simp] theorem isFinite_q (q : ℚ) : (Num.isFinite q = true) ↔ |q| ≤ dblMaxQ := by simp [Num.isFinite]
theorem toInt_intCast (i : Int) : Num.toInt ((i : ℚ)) = i := by
  show (if (0 : ℚ) ≤ (i : ℚ) then ⌊(i : ℚ)⌋ else ⌈(i : ℚ)⌉) = i
  split <;> simp

theorem small_le_dblMaxQ (q : ℚ) (hq : |q| ≤ 1000000) : |q| ≤ dblMaxQ := by
  unfold dblMaxQ
  have h1 : (1 : ℚ) ≤ 2 ^ 971 := one_le_pow₀ (by norm_num)
  have h2 : (1000000 : ℚ) ≤ 2 ^ 53 - 1 := by norm_num
  have h3 : (2 ^ 53 - 1 : ℚ) * 1 ≤ (2 ^ 53 - 1) * 2 ^ 971 := mul_le_mul_of_nonneg_left h1 (by norm_num)
  rw [mul_one] at h3
  exact le_trans hq (le_trans h2 h3)

/-- the half-open interval of bin `i` on the grid `bmin + i·w` -/
def inBin (bmin w : ℚ) (i : Int) (x : ℚ) : Prop := bmin + i * w < x ∧ x ≤ bmin + (i + 1) * w

instance (bmin w : ℚ) (i : Int) (x : ℚ) : Decidable (inBin bmin w i x) := by unfold inBin; infer_instance

/-- for `w > 0` the intervals partition `ℚ`: a value lies in exactly one bin -/
theorem inBin_unique {bmin w : ℚ} (hw : 0 < w) {i j : Int} {x : ℚ} (hi : inBin bmin w i x) (hj : inBin bmin w j x) : i = j := by
  unfold inBin at hi hj
  by_contra hne
  rcases lt_or_gt_of_ne hne with h | h
  · have : (i : ℚ) + 1 ≤ j := by exact_mod_cast h
    nlinarith
  · have : (j : ℚ) + 1 ≤ i := by exact_mod_cast h
    nlinarith

/-- **`Score2Bin` over ℚ**: status OK iff the value is finite and its bin number fits an `int`; the bin returned is the one
    whose half-open interval `(bmin + b·w, bmin + (b+1)·w]` contains `x`. -/
theorem score2bin_q (h : Hist ℚ) (hw : 0 < h.w) (x : ℚ) :
    let b := ⌈(x - h.bmin) / h.w - 1⌉
    (h.score2bin x = (.ok, b) ∧ inBin h.bmin h.w b x ∧ |x| ≤ dblMaxQ ∧ -2147483648 ≤ b ∧ b ≤ 2147483647) ∨
    (h.score2bin x = (.erange, 0) ∧ (¬ |x| ≤ dblMaxQ ∨ b < -2147483648 ∨ 2147483647 < b)) := by
  intro b
  have hb1 : (x - h.bmin) / h.w - 1 ≤ (b : ℚ) := Int.le_ceil _
  have hb2 : (b : ℚ) < (x - h.bmin) / h.w - 1 + 1 := Int.ceil_lt_add_one _
  have hin : inBin h.bmin h.w b x := by
    unfold inBin
    have e : x - h.bmin = (x - h.bmin) / h.w * h.w := by field_simp
    constructor
    · nlinarith
    · nlinarith
  unfold Hist.score2bin
  have hy : (x - h.bmin) / h.w - (Num.ofInt 1 : ℚ) = (x - h.bmin) / h.w - 1 := by
    show (x - h.bmin) / h.w - ((1 : Int) : ℚ) = _; rw [Int.cast_one]
  rw [hy]
  have hc : (Num.ceil ((x - h.bmin) / h.w - 1) : ℚ) = (b : ℚ) := rfl
  rw [hc]
  have hmin : (Num.ofInt INT_MIN : ℚ) = ((-2147483648 : Int) : ℚ) := rfl
  have hmax : (Num.ofInt INT_MAX : ℚ) = ((2147483647 : Int) : ℚ) := rfl
  rw [hmin, hmax]
  by_cases hf : |x| ≤ dblMaxQ
  · have : Num.isFinite x = true := by rw [isFinite_q]; exact hf
    simp only [this, Bool.not_true, Bool.false_eq_true, if_false]
    by_cases hr : -2147483648 ≤ b ∧ b ≤ 2147483647
    · left
      have g : (Num.ltb (b : ℚ) ((-2147483648 : Int) : ℚ) || Num.gtb (b : ℚ) ((2147483647 : Int) : ℚ)) = false := by
        rw [Bool.or_eq_false_iff]
        constructor
        · rw [Bool.eq_false_iff]; intro hc; rw [ltb_q] at hc
          have : b < -2147483648 := by exact_mod_cast hc
          omega
        · rw [Bool.eq_false_iff]; intro hc; rw [gtb_q] at hc
          have : (2147483647 : Int) < b := by exact_mod_cast hc
          omega
      simp only [g, Bool.false_eq_true, if_false]
      refine ⟨?_, hin, hf, hr.1, hr.2⟩
      rw [toInt_intCast]
    · right
      have g : (Num.ltb (b : ℚ) ((-2147483648 : Int) : ℚ) || Num.gtb (b : ℚ) ((2147483647 : Int) : ℚ)) = true := by
        rw [Bool.or_eq_true, ltb_q, gtb_q]
        by_cases h1 : b < -2147483648
        · left; exact_mod_cast h1
        · right
          have : (2147483647 : Int) < b := by omega
          exact_mod_cast this
      simp only [g, if_true]
      refine ⟨trivial, Or.inr ?_⟩
      omega
  · right
    have : Num.isFinite x = false := by
      rw [Bool.eq_false_iff]; intro hc; rw [isFinite_q] at hc; exact hf hc
    simp only [this, Bool.not_false, if_true]
    exact ⟨trivial, Or.inl hf⟩

end EaselModel.Stats
