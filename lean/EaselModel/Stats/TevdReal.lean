import EaselModel.Stats.FitCG
import EaselModel.Stats.FitReal
import EaselModel.Stats.MinReal
import EaselModel.Stats.WeibullReal
import Mathlib.Analysis.Complex.ExponentialBounds
/-! # `tevd_grad` is the gradient of `tevd_func` (C11, ℝ)

`esl_gumbel_FitTruncated` is the one fit that hands an analytic gradient to the conjugate-gradient optimiser. Over ℝ, in the regime where
neither routine takes one of its numerical shortcuts (`|exp(-y)| ≥ 5e-9`, `|exp(-exp(-y))| ≥ 5e-9`, `y = λ(φ-μ) ≤ 50`), the two
components `tevd_grad` returns are exactly the partial derivatives of the objective `tevd_func` in `μ` and in `w = log λ`. -/
namespace EaselModel.Stats
open Real

/-- the truncated-Gumbel negative log-likelihood as a real function of `(μ, w)`, `λ = exp w`, main branch of `esl_gumbel_logsurv` -/
noncomputable def tevdNll (xs : List ℝ) (phi mu w : ℝ) : ℝ :=
  -((xs.length : ℝ) * w - (xs.map (fun x => Real.exp w * (x - mu))).sum - (xs.map (fun x => Real.exp (-(Real.exp w * (x - mu))))).sum
      - (xs.length : ℝ) * Real.log (1 - Real.exp (-(Real.exp (-(Real.exp w * (phi - mu)))))))

/-- `pdf(φ)/surv(φ)` of the Gumbel law: `λ E e^{-E} / (1 - e^{-E})`, `E = exp(-λ(φ-μ))` -/
noncomputable def tevdCoeff (phi mu w : ℝ) : ℝ :=
  Real.exp w * Real.exp (-(Real.exp w * (phi - mu)) - Real.exp (-(Real.exp w * (phi - mu)))) / (1 - Real.exp (-(Real.exp (-(Real.exp w * (phi - mu))))))

/-- the first component of `tevd_grad` (already negated) -/
noncomputable def tevdDmu (xs : List ℝ) (phi mu w : ℝ) : ℝ :=
  -((xs.length : ℝ) * Real.exp w - (xs.map (fun x => Real.exp w * Real.exp (-(Real.exp w * (x - mu))))).sum - (xs.length : ℝ) * tevdCoeff phi mu w)

/-- the second component of `tevd_grad` (already negated) -/
noncomputable def tevdDw (xs : List ℝ) (phi mu w : ℝ) : ℝ :=
  -((xs.length : ℝ) - (xs.map (fun x => (x - mu) * Real.exp w)).sum + (xs.map (fun x => (x - mu) * Real.exp w * Real.exp (-(Real.exp w * (x - mu))))).sum
      + (xs.length : ℝ) * (phi - mu) * tevdCoeff phi mu w)

theorem neg_lin_hasDerivAt (w c mu : ℝ) : HasDerivAt (fun m : ℝ => -(Real.exp w * (c - m))) (Real.exp w) mu := by
  have h1 : HasDerivAt (fun m : ℝ => Real.exp w * (c - m)) (Real.exp w * -1) mu := ((hasDerivAt_id mu).const_sub c).const_mul (Real.exp w)
  have h2 : HasDerivAt (fun m : ℝ => -(Real.exp w * (c - m))) (-(Real.exp w * -1)) mu := h1.neg
  exact h2.congr_deriv (by ring)

theorem sum_map_const_neg (xs : List ℝ) (c : ℝ) : (xs.map (fun _ => -c)).sum = -((xs.length : ℝ) * c) := by
  induction xs with
  | nil => simp
  | cons a t ih => simp only [List.map_cons, List.sum_cons, List.length_cons, ih]; push_cast; ring

theorem sum_map_neg (xs : List ℝ) (f : ℝ → ℝ) : (xs.map (fun x => -(f x))).sum = -(xs.map f).sum := by
  induction xs with
  | nil => simp
  | cons a t ih => simp only [List.map_cons, List.sum_cons, ih]; ring

theorem one_sub_exp_neg_exp_pos (t : ℝ) : 0 < 1 - Real.exp (-(Real.exp t)) := by
  have : Real.exp (-(Real.exp t)) < 1 := by
    have h := Real.add_one_lt_exp (ne_of_gt (Real.exp_pos t))
    have h2 : Real.exp (-(Real.exp t)) * Real.exp (Real.exp t) = 1 := by rw [← Real.exp_add]; simp
    have hp := Real.exp_pos (-(Real.exp t))
    have ht := Real.exp_pos t
    nlinarith
  linarith

/-- `∂/∂μ` of `log(1 - exp(-exp(-λ(φ-μ))))` is `pdf/surv` -/
theorem logsurv_hasDerivAt_mu (phi mu w : ℝ) :
    HasDerivAt (fun m => Real.log (1 - Real.exp (-(Real.exp (-(Real.exp w * (phi - m))))))) (tevdCoeff phi mu w) mu := by
  have hy : HasDerivAt (fun m : ℝ => -(Real.exp w * (phi - m))) (Real.exp w) mu := neg_lin_hasDerivAt w phi mu
  have hE : HasDerivAt (fun m : ℝ => Real.exp (-(Real.exp w * (phi - m)))) (Real.exp (-(Real.exp w * (phi - mu))) * Real.exp w) mu := hy.exp
  have hEE : HasDerivAt (fun m : ℝ => Real.exp (-(Real.exp (-(Real.exp w * (phi - m))))))
      (Real.exp (-(Real.exp (-(Real.exp w * (phi - mu))))) * -(Real.exp (-(Real.exp w * (phi - mu))) * Real.exp w)) mu := hE.neg.exp
  have hS : HasDerivAt (fun m : ℝ => 1 - Real.exp (-(Real.exp (-(Real.exp w * (phi - m))))))
      (-(Real.exp (-(Real.exp (-(Real.exp w * (phi - mu))))) * -(Real.exp (-(Real.exp w * (phi - mu))) * Real.exp w))) mu := hEE.const_sub 1
  have hpos := one_sub_exp_neg_exp_pos (-(Real.exp w * (phi - mu)))
  have hL := hS.log (ne_of_gt hpos)
  refine hL.congr_deriv ?_
  unfold tevdCoeff
  rw [Real.exp_sub]
  field_simp
  rw [Real.exp_neg (Real.exp (-(Real.exp w * (phi - mu))))]
  field_simp

/-- `∂/∂w` of `log(1 - exp(-exp(-e^w(φ-μ))))` is `-(φ-μ)·pdf/surv` -/
theorem logsurv_hasDerivAt_w (phi mu w : ℝ) :
    HasDerivAt (fun v => Real.log (1 - Real.exp (-(Real.exp (-(Real.exp v * (phi - mu))))))) (-((phi - mu) * tevdCoeff phi mu w)) w := by
  have hy : HasDerivAt (fun v : ℝ => -(Real.exp v * (phi - mu))) (-(Real.exp w * (phi - mu))) w := ((Real.hasDerivAt_exp w).mul_const (phi - mu)).neg
  have hE : HasDerivAt (fun v : ℝ => Real.exp (-(Real.exp v * (phi - mu)))) (Real.exp (-(Real.exp w * (phi - mu))) * -(Real.exp w * (phi - mu))) w := hy.exp
  have hEE : HasDerivAt (fun v : ℝ => Real.exp (-(Real.exp (-(Real.exp v * (phi - mu))))))
      (Real.exp (-(Real.exp (-(Real.exp w * (phi - mu))))) * -(Real.exp (-(Real.exp w * (phi - mu))) * -(Real.exp w * (phi - mu)))) w := hE.neg.exp
  have hS := hEE.const_sub 1
  have hpos := one_sub_exp_neg_exp_pos (-(Real.exp w * (phi - mu)))
  have hL := hS.log (ne_of_gt hpos)
  refine hL.congr_deriv ?_
  unfold tevdCoeff
  rw [Real.exp_sub]
  field_simp
  rw [Real.exp_neg (Real.exp (-(Real.exp w * (phi - mu))))]
  field_simp

/-- **`∂ tevd_func / ∂μ` = first component of `tevd_grad`** -/
theorem tevdNll_hasDerivAt_mu (xs : List ℝ) (phi mu w : ℝ) : HasDerivAt (fun m => tevdNll xs phi m w) (tevdDmu xs phi mu w) mu := by
  unfold tevdNll tevdDmu
  have h1 : HasDerivAt (fun m : ℝ => (xs.map (fun x => Real.exp w * (x - m))).sum) (xs.map (fun _ => -Real.exp w)).sum mu :=
    hasDerivAt_list_sum xs (fun x m => Real.exp w * (x - m)) _ mu (fun x _ => by
      have h : HasDerivAt (fun m : ℝ => Real.exp w * (x - m)) (Real.exp w * -1) mu := ((hasDerivAt_id mu).const_sub x).const_mul (Real.exp w)
      exact h.congr_deriv (by ring))
  have h2 : HasDerivAt (fun m : ℝ => (xs.map (fun x => Real.exp (-(Real.exp w * (x - m))))).sum)
      (xs.map (fun x => Real.exp (-(Real.exp w * (x - mu))) * Real.exp w)).sum mu :=
    hasDerivAt_list_sum xs (fun x m => Real.exp (-(Real.exp w * (x - m)))) _ mu (fun x _ => by
      exact (neg_lin_hasDerivAt w x mu).exp)
  have h3 := (logsurv_hasDerivAt_mu phi mu w).const_mul (xs.length : ℝ)
  have h0 : HasDerivAt (fun _ : ℝ => (xs.length : ℝ) * w) 0 mu := hasDerivAt_const mu _
  have := (((h0.sub h1).sub h2).sub h3).neg
  refine this.congr_deriv ?_
  have e1 : (xs.map (fun _ => -Real.exp w)).sum = -((xs.length : ℝ) * Real.exp w) := sum_map_const_neg xs _
  have e2 : (xs.map (fun x => Real.exp (-(Real.exp w * (x - mu))) * Real.exp w)).sum = (xs.map (fun x => Real.exp w * Real.exp (-(Real.exp w * (x - mu))))).sum := by
    congr 1; apply List.map_congr_left; intro x _; ring
  rw [e1, e2]; ring

/-- **`∂ tevd_func / ∂w` = second component of `tevd_grad`** (`w = log λ`) -/
theorem tevdNll_hasDerivAt_w (xs : List ℝ) (phi mu w : ℝ) : HasDerivAt (fun v => tevdNll xs phi mu v) (tevdDw xs phi mu w) w := by
  unfold tevdNll tevdDw
  have h0 : HasDerivAt (fun v : ℝ => (xs.length : ℝ) * v) (xs.length : ℝ) w := by simpa using (hasDerivAt_id w).const_mul (xs.length : ℝ)
  have h1 : HasDerivAt (fun v : ℝ => (xs.map (fun x => Real.exp v * (x - mu))).sum) (xs.map (fun x => Real.exp w * (x - mu))).sum w :=
    hasDerivAt_list_sum xs (fun x v => Real.exp v * (x - mu)) _ w (fun x _ => (Real.hasDerivAt_exp w).mul_const (x - mu))
  have h2 : HasDerivAt (fun v : ℝ => (xs.map (fun x => Real.exp (-(Real.exp v * (x - mu))))).sum)
      (xs.map (fun x => Real.exp (-(Real.exp w * (x - mu))) * -(Real.exp w * (x - mu)))).sum w :=
    hasDerivAt_list_sum xs (fun x v => Real.exp (-(Real.exp v * (x - mu)))) _ w (fun x _ => (((Real.hasDerivAt_exp w).mul_const (x - mu)).neg).exp)
  have h3 := (logsurv_hasDerivAt_w phi mu w).const_mul (xs.length : ℝ)
  have := (((h0.sub h1).sub h2).sub h3).neg
  refine this.congr_deriv ?_
  have e1 : (xs.map (fun x => Real.exp w * (x - mu))).sum = (xs.map (fun x => (x - mu) * Real.exp w)).sum := by
    congr 1; apply List.map_congr_left; intro x _; ring
  have e2 : (xs.map (fun x => Real.exp (-(Real.exp w * (x - mu))) * -(Real.exp w * (x - mu)))).sum
      = -(xs.map (fun x => (x - mu) * Real.exp w * Real.exp (-(Real.exp w * (x - mu))))).sum := by
    rw [← sum_map_neg]; congr 1; apply List.map_congr_left; intro x _; ring
  rw [e1, e2]; ring

/-! ## the model's `tevdFunc` / `tevdGrad` over ℝ are those functions -/

theorem foldl_sub (f : ℝ → ℝ) (l : List ℝ) (a : ℝ) : l.foldl (fun acc x => acc - f x) a = a - (l.map f).sum := by
  induction l generalizing a with
  | nil => simp
  | cons x t ih => simp only [List.foldl_cons, List.map_cons, List.sum_cons, ih]; ring

theorem size_r (xs : Array ℝ) : (Num.ofInt (xs.size : Int) : ℝ) = (xs.toList.length : ℝ) := by
  rw [ofInt_r, Array.length_toList]; simp

theorem neg1_r : ((-1.0 : ℝ)) = -1 := by norm_num
theorem fifty_r : ((50.0 : ℝ)) = 50 := by norm_num

/-- **`tevd_func` over ℝ** (no shortcut branch of `esl_gumbel_logsurv` taken): the truncated-Gumbel negative log-likelihood in `(μ, w = log λ)` -/
theorem tevdFunc_eq (xs : Array ℝ) (phi mu w : ℝ)
    (h1 : ¬ |-(Real.exp (-(Real.exp w * (phi - mu))))| < (5e-9 : ℝ))
    (h2 : ¬ |Real.exp (-(Real.exp (-(Real.exp w * (phi - mu)))))| < (5e-9 : ℝ)) :
    tevdFunc xs phi #[mu, w] = tevdNll xs.toList phi mu w := by
  unfold tevdFunc tevdNll gumbelLogsurv smallX1
  have g0 : (#[mu, w] : Array ℝ).getD 0 Num.zero = mu := rfl
  have g1 : (#[mu, w] : Array ℝ).getD 1 Num.zero = w := rfl
  simp only [g0, g1, exp_r, log_r, abs_r, ltb_r, Real.log_exp, size_r, neg1_r, one_r]
  rw [if_neg h1, if_neg h2]
  rw [← Array.foldl_toList, ← Array.foldl_toList, foldl_sub, foldl_sub]
  have e : (xs.toList.map (fun x => Real.exp (-1 * Real.exp w * (x - mu)))) = (xs.toList.map (fun x => Real.exp (-(Real.exp w * (x - mu))))) := by
    apply List.map_congr_left; intro x _; congr 1; ring
  rw [e]; ring

/-- **`tevd_grad` over ℝ** (`λ(φ-μ) ≤ 50`, no shortcut branch of `esl_gumbel_surv`): the two components are `tevdDmu`, `tevdDw` -/
theorem tevdGrad_eq (xs : Array ℝ) (phi mu w : ℝ)
    (h0 : ¬ (50 : ℝ) < Real.exp w * (phi - mu))
    (h1 : ¬ |-(Real.exp (-(Real.exp w * (phi - mu))))| < (5e-9 : ℝ)) :
    tevdGrad xs phi #[mu, w] = #[tevdDmu xs.toList phi mu w, tevdDw xs.toList phi mu w] := by
  unfold tevdGrad gumbelPdf gumbelSurv smallX1
  have g0 : (#[mu, w] : Array ℝ).getD 0 Num.zero = mu := rfl
  have g1 : (#[mu, w] : Array ℝ).getD 1 Num.zero = w := rfl
  simp only [g0, g1, exp_r, abs_r, ltb_r, gtb_r, size_r, neg1_r, one_r, fifty_r]
  rw [if_neg h0, if_neg h1]
  rw [← Array.foldl_toList, ← Array.foldl_toList, ← Array.foldl_toList, foldl_sub, foldl_sub, foldl_add]
  have e : ∀ x : ℝ, Real.exp (-1 * Real.exp w * (x - mu)) = Real.exp (-(Real.exp w * (x - mu))) := by intro x; congr 1; ring
  simp only [e]
  have key : ∀ a b c d : ℝ, a = c → b = d → (#[a, b] : Array ℝ) = #[c, d] := by intro a b c d h1 h2; rw [h1, h2]
  apply key
  · unfold tevdDmu tevdCoeff; ring
  · unfold tevdDw tevdCoeff; ring

/-- `φ = μ = 0`, `λ = 1` lies in the regime of `tevdFunc_eq` / `tevdGrad_eq` -/
theorem tevd_regime_example : ¬ (50 : ℝ) < Real.exp 0 * ((0 : ℝ) - 0) ∧ ¬ |-(Real.exp (-(Real.exp 0 * ((0 : ℝ) - 0))))| < (5e-9 : ℝ) ∧
    ¬ |Real.exp (-(Real.exp (-(Real.exp 0 * ((0 : ℝ) - 0)))))| < (5e-9 : ℝ) := by
  have h3 : Real.exp 1 < 3 := Real.exp_one_lt_three
  have hp : 0 < Real.exp (-1) := Real.exp_pos _
  have hm : Real.exp (-1) * Real.exp 1 = 1 := by rw [← Real.exp_add]; simp
  refine ⟨by simp, by simp; norm_num, ?_⟩
  simp only [Real.exp_zero, sub_zero, mul_zero, neg_zero, abs_of_pos hp, not_lt]
  nlinarith

end EaselModel.Stats
