import EaselModel.Stats.Minimizer
/-! # The minimiser with its run statistics (`ESL_MIN_DAT`) — C11, kind H

`esl_min_ConjugateGradientDescent(…, dat)` fills a table: `dat->niter`, and per iteration `fx[i]`, `brack_n[i]`, `brent_n[i]`,
`nfunc[i]`. The functions below are the functions of `Minimizer.lean` with those counters carried along (same code, same
order); `*_fst` theorems prove that dropping the counters gives back exactly the plain model, so every theorem about `cgd`
is a theorem about the run whose counters the driver prints and the check compares with the C table. Core Lean only. -/
namespace EaselModel.Stats
open Num

variable {α : Type} [Num α]

/-- `bracket()`'s loop with its `niter` -/
def bracketLoopCGN (f : α → α) (maxIter : Nat) : Nat → Nat → Bracket α → Option (Bracket α × Nat)
  | 0, niter, b => some (b, niter)
  | k+1, niter, b =>
    if leb b.fc b.fb then
      let ax := b.bx; let bx := b.cx
      let fa := b.fb; let fb := b.fc
      let cx := bx + (bx - ax) * (1.618 : α)
      let fc := f cx
      let nb : Bracket α := { ax := ax, bx := bx, cx := cx, fa := fa, fb := fb, fc := fc }
      if !(eqb ax bx) && !(eqb bx cx) && eqb fa fb && eqb fb fc then some (nb, niter) else
      let niter := niter + 1
      if niter > maxIter then none else bracketLoopCGN f maxIter k niter nb
    else some (b, niter)

theorem bracketLoopCGN_fst (f : α → α) (maxIter : Nat) : ∀ (k niter : Nat) (b : Bracket α),
    (bracketLoopCGN f maxIter k niter b).map Prod.fst = bracketLoopCG f maxIter k niter b := by
  intro k
  induction k with
  | zero => intro niter b; rfl
  | succ k ih =>
    intro niter b
    unfold bracketLoopCGN bracketLoopCG
    simp only []
    split
    · split
      · rfl
      · split
        · rfl
        · exact ih _ _
    · rfl

/-- `dat->brack_n` never exceeds `brack_maxiter` -/
theorem bracketLoopCGN_le (f : α → α) (maxIter : Nat) : ∀ (k niter : Nat) (b b' : Bracket α) (n' : Nat),
    niter ≤ maxIter → bracketLoopCGN f maxIter k niter b = some (b', n') → n' ≤ maxIter := by
  intro k
  induction k with
  | zero => intro niter b b' n' h e; simp only [bracketLoopCGN, Option.some.injEq, Prod.mk.injEq] at e; omega
  | succ k ih =>
    intro niter b b' n' h e
    unfold bracketLoopCGN at e
    simp only [] at e
    split at e
    · split at e
      · simp only [Option.some.injEq, Prod.mk.injEq] at e; omega
      · split at e
        · cases e
        · exact ih _ _ _ _ (by omega) e
    · simp only [Option.some.injEq, Prod.mk.injEq] at e; omega

/-- `bracket()` with `dat->brack_n` -/
def bracketCGN (cfg : MinCfg α) (fline : α → α) (f0 : α) (firststep : α) : Option (Bracket α × Nat) :=
  let ax : α := zero
  let fa := f0
  let bx := firststep
  let fb := fline bx
  let (ax, bx, fa, fb) := if gtb fb fa then (bx, ax, fb, fa) else (ax, bx, fa, fb)
  let cx := bx + (bx - ax) * (1.618 : α)
  let fc := fline cx
  match bracketLoopCGN fline cfg.brackMaxIter (cfg.brackMaxIter + 2) 0 { ax := ax, bx := bx, cx := cx, fa := fa, fb := fb, fc := fc } with
  | none => none
  | some (b, n) => if gtb b.ax b.cx then some ({ b with ax := b.cx, cx := b.ax, fa := b.fc, fc := b.fa }, n) else some (b, n)

theorem bracketCGN_fst (cfg : MinCfg α) (fline : α → α) (f0 firststep : α) :
    (bracketCGN cfg fline f0 firststep).map Prod.fst = bracketCG cfg fline f0 firststep := by
  unfold bracketCGN bracketCG
  simp only []
  rw [← bracketLoopCGN_fst]
  cases bracketLoopCGN fline cfg.brackMaxIter (cfg.brackMaxIter + 2) 0 _ with
  | none => rfl
  | some r => obtain ⟨b, n⟩ := r; simp only [Option.map_some]; split <;> rfl

theorem bracketCGN_le (cfg : MinCfg α) (fline : α → α) (f0 firststep : α) (b : Bracket α) (n : Nat)
    (h : bracketCGN cfg fline f0 firststep = some (b, n)) : n ≤ cfg.brackMaxIter := by
  unfold bracketCGN at h
  simp only [] at h
  split at h
  · cases h
  · rename_i b' n' e
    have := bracketLoopCGN_le _ _ _ _ _ _ _ (Nat.zero_le _) e
    split at h <;> (simp only [Option.some.injEq, Prod.mk.injEq] at h; omega)

/-- `brent()`'s loop with its `niter` (passes that got beyond the convergence test) -/
def brentLoopN (eps t : α) (fline : α → α) : Nat → Nat → BrentSt α → Option ((α × α) × Nat)
  | 0, _, _ => none
  | k+1, n, s =>
    match brentStep eps t fline s with
    | .inl r => some (r, n)
    | .inr s' => brentLoopN eps t fline k (n + 1) s'

theorem brentLoopN_fst (eps t : α) (fline : α → α) : ∀ (k n : Nat) (s : BrentSt α),
    (brentLoopN eps t fline k n s).map Prod.fst = brentLoop eps t fline k s := by
  intro k
  induction k with
  | zero => intro n s; rfl
  | succ k ih =>
    intro n s
    unfold brentLoopN brentLoop
    cases brentStep eps t fline s with
    | inl r => rfl
    | inr s' => exact ih _ _

/-- `brent()` with `dat->brent_n` -/
def brentCGN (cfg : MinCfg α) (fline : α → α) (a b : α) : Option ((α × α) × Nat) :=
  let x := a + goldC * (b - a)
  let fx := fline x
  brentLoopN cfg.brentRtol cfg.brentAtol fline brentFuel 0
    { a := a, b := b, x := x, v := x, w := x, fx := fx, fv := fx, fw := fx, d := zero, e := zero }

theorem brentCGN_fst (cfg : MinCfg α) (fline : α → α) (a b : α) :
    (brentCGN cfg fline a b).map Prod.fst = brentCG cfg fline a b := brentLoopN_fst _ _ _ _ _ _

/-- one row `i ≥ 1` of the `ESL_MIN_DAT` table -/
structure IterRec (α : Type) where
  fx : α
  brackN : Nat
  brentN : Nat
  nfunc : Nat

/-- function evaluations of one gradient: `numeric_derivative()` adds `2n`, the caller's `dfunc` none -/
def gradEvals (df : Option (Array α → Array α)) (n : Nat) : Nat := match df with | some _ => 0 | none => 2 * n

/-- the main loop with the table rows it completes (newest first). A row is complete when `dat->fx[i]` has been stored, i.e. the
    iteration got as far as the convergence tests. -/
def cgLoopT (cfg : MinCfg α) (f : Array α → α) (df : Option (Array α → Array α)) :
    Nat → CGState α → α → List (IterRec α) → (MinRes α × StopWhy) × List (IterRec α)
  | 0, s, fx, tr => ((.res .enohalt s.x fx, .none), tr)
  | k+1, s, _, tr =>
    let bx := firstStep cfg s.cg
    let fline (t : α) : α := f (pointAt s.x s.cg t)
    match bracketCGN cfg fline (f s.x) bx with
    | none => ((.res .enoresult s.x (one / zero), .none), tr)
    | some (br, bn) =>
      match brentCGN cfg fline br.ax br.cx with
      | none => ((.hang, .none), tr)
      | some ((t, fx), rn) =>
        let x := pointAt s.x s.cg t
        if !(isFinite fx) then ((.res .erange x (one / zero), .none), tr) else
        let w1 := negGradient cfg f df x
        let coeff := (Array.zipWith (fun w d => (w - d) * w) w1 s.dx).foldl (fun acc t => acc + t) zero
        let coeff := coeff / vdot s.dx s.dx
        let w2 := Array.zipWith (fun w c => w + c * coeff) w1 s.cg
        let tr := { fx := fx, brackN := bn, brentN := rn, nfunc := (bn + 3) + (rn + 1) + gradEvals df s.x.size : IterRec α } :: tr
        if dcompare fx s.oldfx cfg.cgRtol cfg.cgAtol then ((.res .ok x fx, .converged), tr) else
        if allZero w2 then ((.res .ok x fx, .zeroDirection), tr) else
        cgLoopT cfg f df k { x := x, dx := w1, cg := w2, oldfx := fx } fx tr

theorem cgLoopT_fst (cfg : MinCfg α) (f : Array α → α) (df : Option (Array α → Array α)) :
    ∀ (k : Nat) (s : CGState α) (fx : α) (tr : List (IterRec α)), (cgLoopT cfg f df k s fx tr).1 = cgLoop cfg f df k s fx := by
  intro k
  induction k with
  | zero => intro s fx tr; rfl
  | succ k ih =>
    intro s fx tr
    unfold cgLoopT cgLoop
    simp only []
    rw [← bracketCGN_fst]
    cases bracketCGN cfg (fun t => f (pointAt s.x s.cg t)) (f s.x) (firstStep cfg s.cg) with
    | none => rfl
    | some r =>
      obtain ⟨br, bn⟩ := r
      simp only [Option.map_some]
      rw [← brentCGN_fst]
      cases brentCGN cfg (fun t => f (pointAt s.x s.cg t)) br.ax br.cx with
      | none => rfl
      | some q =>
        obtain ⟨⟨t, fx'⟩, rn⟩ := q
        simp only [Option.map_some]
        split
        · rfl
        · split
          · rfl
          · split
            · rfl
            · exact ih _ _ _

/-- rows complete at the end ≤ rows at the start + iterations allowed -/
theorem cgLoopT_length (cfg : MinCfg α) (f : Array α → α) (df : Option (Array α → Array α)) :
    ∀ (k : Nat) (s : CGState α) (fx : α) (tr : List (IterRec α)), (cgLoopT cfg f df k s fx tr).2.length ≤ tr.length + k := by
  intro k
  induction k with
  | zero => intro s fx tr; simp [cgLoopT]
  | succ k ih =>
    intro s fx tr
    unfold cgLoopT
    simp only []
    split
    · simp only []; omega
    · split
      · simp only []; omega
      · split
        · simp only []; omega
        · split
          · simp only [List.length_cons]; omega
          · split
            · simp only [List.length_cons]; omega
            · refine Nat.le_trans (ih _ _ _) ?_
              simp only [List.length_cons]; omega

/-- every row's `brack_n` is at most `brack_maxiter` -/
theorem cgLoopT_brackN (cfg : MinCfg α) (f : Array α → α) (df : Option (Array α → Array α)) :
    ∀ (k : Nat) (s : CGState α) (fx : α) (tr : List (IterRec α)), (∀ r ∈ tr, r.brackN ≤ cfg.brackMaxIter) →
      ∀ r ∈ (cgLoopT cfg f df k s fx tr).2, r.brackN ≤ cfg.brackMaxIter := by
  intro k
  induction k with
  | zero => intro s fx tr h; simpa [cgLoopT] using h
  | succ k ih =>
    intro s fx tr h
    unfold cgLoopT
    simp only []
    split
    · exact h
    · rename_i br bn hb
      have hbn : bn ≤ cfg.brackMaxIter := bracketCGN_le _ _ _ _ _ _ hb
      split
      · exact h
      · have h' : ∀ (fx' : α) (rn nf : Nat), ∀ r ∈ ({ fx := fx', brackN := bn, brentN := rn, nfunc := nf : IterRec α } :: tr),
            r.brackN ≤ cfg.brackMaxIter := by
          intro fx' rn nf r hr
          rcases List.mem_cons.1 hr with rfl | hr
          · exact hbn
          · exact h r hr
        split
        · exact h
        · split
          · exact h' _ _ _
          · split
            · exact h' _ _ _
            · exact ih _ _ _ (h' _ _ _)

/-- the statistics of a whole run: `nfunc[0]` and the completed rows `1..` in order -/
structure MinTrace (α : Type) where
  nfunc0 : Nat
  rows : List (IterRec α)

/-- `esl_min_ConjugateGradientDescent(cfg, x, n, func, dfunc, prm, &fx, dat)` -/
def cgdT (cfg : MinCfg α) (f : Array α → α) (df : Option (Array α → Array α)) (x0 : Array α) : (MinRes α × StopWhy) × MinTrace α :=
  let oldfx := f x0
  if !(isFinite oldfx) then ((.res .erange x0 (one / zero), .none), { nfunc0 := 1, rows := [] }) else
  let dx := negGradient cfg f df x0
  let nf0 := 1 + gradEvals df x0.size
  if allZero dx then ((.res .ok x0 oldfx, .zeroGradient), { nfunc0 := nf0, rows := [] }) else
  let r := cgLoopT cfg f df cfg.maxIter { x := x0, dx := dx, cg := dx, oldfx := oldfx } oldfx []
  (r.1, { nfunc0 := nf0, rows := r.2.reverse })

/-- **the run whose statistics are compared with `ESL_MIN_DAT` IS the run the theorems are about** -/
theorem cgdT_fst (cfg : MinCfg α) (f : Array α → α) (df : Option (Array α → Array α)) (x0 : Array α) :
    (cgdT cfg f df x0).1 = cgd cfg f df x0 := by
  unfold cgdT cgd
  simp only []
  split
  · rfl
  · split
    · rfl
    · exact cgLoopT_fst _ _ _ _ _ _ _

/-- at most `max_iterations` completed rows, each with `brack_n ≤ brack_maxiter` -/
theorem cgdT_bounds (cfg : MinCfg α) (f : Array α → α) (df : Option (Array α → Array α)) (x0 : Array α) :
    (cgdT cfg f df x0).2.rows.length ≤ cfg.maxIter ∧ ∀ r ∈ (cgdT cfg f df x0).2.rows, r.brackN ≤ cfg.brackMaxIter := by
  unfold cgdT
  simp only []
  split
  · exact ⟨Nat.zero_le _, by intro r hr; cases hr⟩
  · split
    · exact ⟨Nat.zero_le _, by intro r hr; cases hr⟩
    · refine ⟨?_, ?_⟩
      · simp only [List.length_reverse]
        simpa using cgLoopT_length cfg f df cfg.maxIter _ _ []
      · intro r hr
        exact cgLoopT_brackN cfg f df cfg.maxIter _ _ [] (by intro r hr; cases hr) r (List.mem_reverse.1 hr)

end EaselModel.Stats
