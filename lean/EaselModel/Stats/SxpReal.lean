import EaselModel.Stats.WeibullReal
/-! # The stretched-exponential log-likelihood over ℝ (C11)

`esl_sxp_FitComplete` minimises `sxp_complete_func(p)`, `p = (w, v) = (log λ, log τ)`, with the location pinned to the smallest
sample. Here: what that objective is as a real function (`sxpFunc_eq`: minus the stretched-exponential log-likelihood, with the
code's own `esl_stats_LogGamma` as the normaliser), its derivative in `w` (`llSxp_hasDerivAt_w`) and the shape in `λ`: for every
shape `τ > 0` the log-likelihood is concave in `w = log λ`, so the stationary rate `λ^τ = n / (τ Σ (xᵢ-μ)^τ)` is THE maximiser in
`λ` (`llSxp_rate_max`, `llSxp_rate_unique`, `llSxp_rate_closed_form`). Nothing is claimed about rounding (L0). -/
namespace EaselModel.Stats
open Real

/-- stretched-exponential log-likelihood of `n` samples, of which those above `μ` have logs `ls = log(xᵢ - μ)`, in `w = log λ` and `τ`;
    `lg` stands for `logΓ(1/τ)`:  `n (log λ + log τ - logΓ(1/τ)) - Σ (λ(xᵢ-μ))^τ`  (a sample AT `μ` contributes `(λ·0)^τ = 0`) -/
noncomputable def llSxp (lg n : ℝ) (ls : List ℝ) (w tau : ℝ) : ℝ :=
  n * (w + Real.log tau - lg) - (ls.map (fun l => Real.exp (tau * (w + l)))).sum

/-- `∂/∂w` of `llSxp` -/
noncomputable def llSxpDw (n : ℝ) (ls : List ℝ) (w tau : ℝ) : ℝ := n - tau * (ls.map (fun l => Real.exp (tau * (w + l)))).sum

theorem sum_const_mul_exp (ls : List ℝ) (w tau : ℝ) :
    (ls.map (fun l => tau * Real.exp (tau * (w + l)))).sum = tau * (ls.map (fun l => Real.exp (tau * (w + l)))).sum := by
  induction ls with
  | nil => simp
  | cons a t ih => simp only [List.map_cons, List.sum_cons, ih]; ring

theorem sum_exp_shift (ls : List ℝ) (w tau : ℝ) :
    (ls.map (fun l => Real.exp (tau * (w + l)))).sum = Real.exp (tau * w) * (ls.map (fun l => Real.exp (tau * l))).sum := by
  induction ls with
  | nil => simp
  | cons a t ih =>
    simp only [List.map_cons, List.sum_cons, ih]
    rw [mul_add tau w a, Real.exp_add]; ring

theorem llSxp_hasDerivAt_w (lg n : ℝ) (ls : List ℝ) (w tau : ℝ) :
    HasDerivAt (fun w => llSxp lg n ls w tau) (llSxpDw n ls w tau) w := by
  unfold llSxp llSxpDw
  have h1 : HasDerivAt (fun w : ℝ => n * (w + Real.log tau - lg)) n w := by
    simpa using (((hasDerivAt_id w).add_const (Real.log tau)).sub_const lg).const_mul n
  have h2 : HasDerivAt (fun w : ℝ => (ls.map (fun l => Real.exp (tau * (w + l)))).sum)
      (ls.map (fun l => tau * Real.exp (tau * (w + l)))).sum w := by
    refine hasDerivAt_list_sum ls (fun l w => Real.exp (tau * (w + l))) _ w (fun l _ => ?_)
    have h : HasDerivAt (fun w : ℝ => tau * (w + l)) tau w := by simpa using ((hasDerivAt_id w).add_const l).const_mul tau
    exact (h.exp).congr_deriv (by ring)
  have e := sum_const_mul_exp ls w tau
  rw [e] at h2
  exact h1.sub h2

/-- tangent inequality of the exponential, summed over the samples -/
theorem sum_exp_tangent (ls : List ℝ) (w tau w' : ℝ) :
    (ls.map (fun l => Real.exp (tau * (w + l)))).sum * (1 + tau * (w' - w)) ≤ (ls.map (fun l => Real.exp (tau * (w' + l)))).sum := by
  induction ls with
  | nil => simp
  | cons a t ih =>
    simp only [List.map_cons, List.sum_cons]
    have h := Real.add_one_le_exp (tau * (w' + a) - tau * (w + a))
    have hpos := Real.exp_pos (tau * (w + a))
    have hs : Real.exp (tau * (w' + a)) = Real.exp (tau * (w + a)) * Real.exp (tau * (w' + a) - tau * (w + a)) := by
      rw [← Real.exp_add]; congr 1; ring
    have h3 : Real.exp (tau * (w + a)) * (1 + tau * (w' - w)) ≤ Real.exp (tau * (w' + a)) := by
      rw [hs]; exact mul_le_mul_of_nonneg_left (by linarith) hpos.le
    linarith

/-- strict version: at least one sample above `μ`, `τ ≠ 0`, `w' ≠ w` -/
theorem sum_exp_tangent_strict (ls : List ℝ) (hls : ls ≠ []) (w tau w' : ℝ) (ht : tau ≠ 0) (hw : w' ≠ w) :
    (ls.map (fun l => Real.exp (tau * (w + l)))).sum * (1 + tau * (w' - w)) < (ls.map (fun l => Real.exp (tau * (w' + l)))).sum := by
  cases ls with
  | nil => exact absurd rfl hls
  | cons a t =>
    simp only [List.map_cons, List.sum_cons]
    have hd : tau * (w' + a) - tau * (w + a) ≠ 0 := by
      intro h0
      have : tau * (w' - w) = 0 := by linarith
      rcases mul_eq_zero.1 this with h1 | h1
      · exact ht h1
      · exact hw (by linarith)
    have h := Real.add_one_lt_exp hd
    have hpos := Real.exp_pos (tau * (w + a))
    have hs : Real.exp (tau * (w' + a)) = Real.exp (tau * (w + a)) * Real.exp (tau * (w' + a) - tau * (w + a)) := by
      rw [← Real.exp_add]; congr 1; ring
    have h3 : Real.exp (tau * (w + a)) * (1 + tau * (w' - w)) < Real.exp (tau * (w' + a)) := by
      rw [hs]; exact mul_lt_mul_of_pos_left (by linarith) hpos
    have h4 := sum_exp_tangent t w tau w'
    linarith

/-- **The stretched-exponential log-likelihood lies below each of its tangents in `w = log λ`** (it is concave in `log λ` for every shape):
    an a-posteriori bound on the shortfall in `λ` of ANY point, in terms of the derivative there. -/
theorem llSxp_below_tangent_w (lg n : ℝ) (ls : List ℝ) (w tau w' : ℝ) :
    llSxp lg n ls w' tau ≤ llSxp lg n ls w tau + llSxpDw n ls w tau * (w' - w) := by
  unfold llSxp llSxpDw
  have h := sum_exp_tangent ls w tau w'
  nlinarith [h]

/-- **for every shape `τ`, a rate at which `∂/∂ log λ` vanishes is a global maximiser in `λ`** -/
theorem llSxp_rate_max (lg n : ℝ) (ls : List ℝ) (w tau : ℝ) (hst : llSxpDw n ls w tau = 0) (w' : ℝ) :
    llSxp lg n ls w' tau ≤ llSxp lg n ls w tau := by
  have h := llSxp_below_tangent_w lg n ls w tau w'
  rw [hst] at h; simpa using h

/-- **…and the only one** (at least one sample above `μ`, `τ ≠ 0`) -/
theorem llSxp_rate_unique (lg n : ℝ) (ls : List ℝ) (hls : ls ≠ []) (w tau : ℝ) (ht : tau ≠ 0) (hst : llSxpDw n ls w tau = 0) (w' : ℝ)
    (hw : w' ≠ w) : llSxp lg n ls w' tau < llSxp lg n ls w tau := by
  unfold llSxp
  unfold llSxpDw at hst
  have h := sum_exp_tangent_strict ls hls w tau w' ht hw
  have e : (ls.map (fun l => Real.exp (tau * (w + l)))).sum * (tau * (w' - w)) = n * (w' - w) := by
    rw [show n = tau * (ls.map (fun l => Real.exp (tau * (w + l)))).sum by linarith]; ring
  nlinarith [h, e]

/-- **the closed form of that rate**: `λ^τ = n / (τ Σ (xᵢ-μ)^τ)`, i.e. `w = log(n / (τ S)) / τ` with `S = Σ exp(τ lᵢ) > 0`, is stationary -/
theorem llSxp_rate_closed_form (n : ℝ) (ls : List ℝ) (tau : ℝ) (hn : 0 < n) (ht : 0 < tau)
    (hS : 0 < (ls.map (fun l => Real.exp (tau * l))).sum) :
    llSxpDw n ls (Real.log (n / (tau * (ls.map (fun l => Real.exp (tau * l))).sum)) / tau) tau = 0 := by
  unfold llSxpDw
  set S := (ls.map (fun l => Real.exp (tau * l))).sum with hSdef
  set w := Real.log (n / (tau * S)) / tau with hw
  have hq : 0 < n / (tau * S) := div_pos hn (mul_pos ht hS)
  have e1 : Real.exp (tau * w) = n / (tau * S) := by
    rw [hw, mul_div_cancel₀ _ (ne_of_gt ht), Real.exp_log hq]
  have e2 : (ls.map (fun l => Real.exp (tau * (w + l)))).sum = Real.exp (tau * w) * S := sum_exp_shift ls w tau
  rw [e2, e1]
  field_simp
  ring

/-! ## `sxp_complete_func` over ℝ is `-llSxp` -/

/-- `esl_sxp_logpdf(x, mu, exp w, τ)` for `x ≥ mu` -/
theorem sxpLogpdf_r (x mu w tau : ℝ) (hx : mu ≤ x) :
    sxpLogpdf x mu (Real.exp w) tau
      = w + Real.log tau - logGamma (1 / tau) - (if x = mu then 0 else Real.exp (tau * (w + Real.log (x - mu)))) := by
  unfold sxpLogpdf
  have h1 : Num.ltb x mu = false := by rw [Bool.eq_false_iff]; intro h; rw [ltb_r] at h; linarith
  simp only [h1, Bool.false_eq_true, if_false, log_r, exp_r, one_r, Real.log_exp]
  by_cases h : x = mu
  · simp [h]
  · have h2 : Num.eqb x mu = false := by rw [Bool.eq_false_iff]; intro h'; rw [eqb_r] at h'; exact h h'
    have hpos : 0 < x - mu := by
      have := lt_of_le_of_ne hx (Ne.symm h); linarith
    simp only [h2, Bool.false_eq_true, if_false, h]
    rw [Real.log_mul (ne_of_gt (Real.exp_pos w)) (ne_of_gt hpos), Real.log_exp]

/-- **`sxp_complete_func(p)` as a real function.** Data `≥ mu`: the objective handed to the optimiser is minus the stretched-exponential
    log-likelihood of ALL `n` samples (those equal to `mu` contribute the normaliser only), in `w = p[0] = log λ`, `τ = exp p[1]`, with the
    code's `esl_stats_LogGamma(1/τ)` as `logΓ(1/τ)`. -/
theorem sxpFunc_eq (xs : Array ℝ) (mu w v : ℝ) (hmu : ∀ x ∈ xs.toList, mu ≤ x) :
    sxpFunc xs mu #[w, v] = -(llSxp (logGamma (1 / Real.exp v)) (xs.size : ℝ)
        ((xs.toList.filter (fun x => decide (x ≠ mu))).map (fun x => Real.log (x - mu))) w (Real.exp v)) := by
  unfold sxpFunc llSxp
  have g0 : (#[w, v] : Array ℝ).getD 0 Num.zero = w := rfl
  have g1 : (#[w, v] : Array ℝ).getD 1 Num.zero = v := rfl
  simp only [g0, g1, exp_r]
  congr 1
  rw [← Array.foldl_toList, zero_r, ← Array.length_toList]
  generalize xs.toList = l at hmu
  suffices h : ∀ (acc : ℝ), l.foldl (fun acc x => acc + sxpLogpdf x mu (Real.exp w) (Real.exp v)) acc
      = acc + ((l.length : ℝ) * (w + Real.log (Real.exp v) - logGamma (1 / Real.exp v))
          - (((l.filter (fun x => decide (x ≠ mu))).map (fun x => Real.log (x - mu))).map
              (fun l => Real.exp (Real.exp v * (w + l)))).sum) by
    simpa using h 0
  induction l with
  | nil => intro acc; simp
  | cons a t ih =>
    intro acc
    have hmu' : ∀ x ∈ t, mu ≤ x := fun x hx => hmu x (List.mem_cons_of_mem _ hx)
    simp only [List.foldl_cons]
    rw [ih hmu' _, sxpLogpdf_r a mu w (Real.exp v) (hmu a List.mem_cons_self)]
    by_cases ha : a = mu
    · simp [ha]; ring
    · simp [ha]; ring

end EaselModel.Stats
