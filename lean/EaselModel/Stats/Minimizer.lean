import EaselModel.Stats.Histogram
/-! # Executable model of `esl_minimizer.c` (C11, kind H)

`esl_min_ConjugateGradientDescent`, `numeric_derivative`, `bracket`, `brent`, `esl_DCompare`, line by line over the numeric
class `Num` (same operation order as the C code; `Float` instance compared with the C build, `ℝ` instance for theorems).
Iteration caps are the ones in the code (`max_iterations`, `brack_maxiter`); `brent()`'s `while (1)` — "guaranteed to
converge, no maxiter needed" — gets `brentFuel` and the outcome `.hang` when it is exhausted. Core Lean only. -/
namespace EaselModel.Stats
open Num

variable {α : Type} [Num α]

/-- `ESL_MIN_CFG` (`u = none`: the `cfg == NULL` defaults, where `u[i]` is taken as 1 without multiplying) -/
structure MinCfg (α : Type) where
  maxIter : Nat
  cgRtol : α
  cgAtol : α
  brentRtol : α
  brentAtol : α
  brackMaxIter : Nat
  derivStep : α
  u : Option (Array α)

/-- `cfg == NULL` -/
def MinCfg.null : MinCfg α :=
  { maxIter := 100, cgRtol := (1e-5 : α), cgAtol := (1e-10 : α), brentRtol := (1e-3 : α), brentAtol := (1e-8 : α),
    brackMaxIter := 100, derivStep := (1e-4 : α), u := none }

/-- `esl_min_cfg_Create(n)` -/
def MinCfg.create (n : Nat) : MinCfg α :=
  { (MinCfg.null : MinCfg α) with u := some (Array.replicate n (1.0 : α)) }

/-- `esl_DCompare(x0, x, r_tol, a_tol) == eslOK` -/
def dcompare (x0 x rtol atol : α) : Bool :=
  if isFinite x0 then leb (abs (x0 - x)) (rtol * abs x0 + atol) else eqb x0 x

/-- `esl_vec_DCopy(ori); esl_vec_DAddScaled(wrk, d, a)` : `ori[i] + d[i]*a` -/
def pointAt (ori d : Array α) (a : α) : Array α := Array.zipWith (fun o di => o + di * a) ori d

/-- `esl_vec_DDot` -/
def vdot (v1 v2 : Array α) : α := (Array.zipWith (fun a b => a * b) v1 v2).foldl (fun acc t => acc + t) zero

/-- `for (i1 = 0; i1 < n; i1++) if (cg[i1] != 0.) break; if (i1 == n) …` -/
def allZero (v : Array α) : Bool := v.all (fun c => eqb c zero)

/-- `numeric_derivative()`: the negative gradient by central differences -/
def numericDerivative (cfg : MinCfg α) (f : Array α → α) (x : Array α) : Array α :=
  (Array.range x.size).map fun i =>
    let delta := match cfg.u with
      | some u => abs (u.getD i one * cfg.derivStep)
      | none => abs cfg.derivStep
    let tmp := x.getD i zero
    let f1 := f (x.setIfInBounds i (tmp + delta))
    let f2 := f (x.setIfInBounds i (tmp - delta))
    ((-0.5 : α) * (f1 - f2)) / delta

structure Bracket (α : Type) where
  ax : α
  bx : α
  cx : α
  fa : α
  fb : α
  fc : α

/-- the `while (fc <= fb)` loop of `bracket()`; `none` = "Failed to bracket a minimum" (eslENORESULT) -/
def bracketLoopCG (f : α → α) (maxIter : Nat) : Nat → Nat → Bracket α → Option (Bracket α)
  | 0, _, b => some b          -- unreachable: fuel = maxIter + 2
  | k+1, niter, b =>
    if leb b.fc b.fb then
      let ax := b.bx; let bx := b.cx
      let fa := b.fb; let fb := b.fc
      let cx := bx + (bx - ax) * (1.618 : α)
      let fc := f cx
      let nb : Bracket α := { ax := ax, bx := bx, cx := cx, fa := fa, fb := fb, fc := fc }
      if !(eqb ax bx) && !(eqb bx cx) && eqb fa fb && eqb fb fc then some nb else
      let niter := niter + 1
      if niter > maxIter then none else bracketLoopCG f maxIter k niter nb
    else some b

/-- `bracket()` along the line `ori + t·d`, `fline t = func(ori + t·d)` -/
def bracketCG (cfg : MinCfg α) (fline : α → α) (f0 : α) (firststep : α) : Option (Bracket α) :=
  let ax : α := zero
  let fa := f0                       -- `fa = (*func)(ori, n, prm)`
  let bx := firststep
  let fb := fline bx
  let (ax, bx, fa, fb) := if gtb fb fa then (bx, ax, fb, fa) else (ax, bx, fa, fb)
  let cx := bx + (bx - ax) * (1.618 : α)
  let fc := fline cx
  match bracketLoopCG fline cfg.brackMaxIter (cfg.brackMaxIter + 2) 0 { ax := ax, bx := bx, cx := cx, fa := fa, fb := fb, fc := fc } with
  | none => none
  | some b => if gtb b.ax b.cx then some { b with ax := b.cx, cx := b.ax, fa := b.fc, fc := b.fa } else some b

structure BrentSt (α : Type) where
  a : α
  b : α
  x : α
  v : α
  w : α
  fx : α
  fv : α
  fw : α
  d : α
  e : α

def goldC : α := one - (one / (1.61803398874989484820458683437 : α))

/-- the trial point of one pass of `brent()`: parabolic interpolation or golden section → `(u, d, e)` -/
def brentTrial (tol m : α) (s : BrentSt α) : α × α × α :=
  -- parabolic interpolation
  let (p, q, r, e) : α × α × α × α :=
    if gtb (abs s.e) tol then
      let r := (s.x - s.w) * (s.fx - s.fv)
      let q := (s.x - s.v) * (s.fx - s.fw)
      let p := (s.x - s.v) * q - (s.x - s.w) * r
      let q := (2.0 : α) * (q - r)
      let (p, q) := if gtb q zero then (-p, q) else (p, -q)
      (p, q, s.e, s.d)
    else (zero, zero, zero, s.e)
  let (d, e) : α × α :=
    if ltb (abs p) (abs ((0.5 : α) * q * r)) || ltb p (q * (s.a - s.x)) || ltb p (q * (s.b - s.x)) then
      let d := p / q
      let u := s.x + d
      if ltb ((2.0 : α) * (u - s.a)) tol || ltb ((2.0 : α) * (s.b - u)) tol then
        ((if ltb s.x m then tol else -tol), e)
      else (d, e)
    else
      let e := if ltb s.x m then s.b - s.x else s.a - s.x
      (goldC * e, e)
  let u := if geb (abs d) tol then s.x + d else if gtb d zero then s.x + tol else s.x - tol
  (u, d, e)

/-- the bookkeeping of one pass of `brent()` after `fu = f(u)` -/
def brentUpdate (s : BrentSt α) (u fu d e : α) : BrentSt α :=
  if leb fu s.fx then
    let (a, b) := if ltb u s.x then (s.a, s.x) else (s.x, s.b)
    { a := a, b := b, v := s.w, fv := s.fw, w := s.x, fw := s.fx, x := u, fx := fu, d := d, e := e }
  else
    let (a, b) := if ltb u s.x then (u, s.b) else (s.a, u)
    if leb fu s.fw || eqb s.w s.x then
      { s with a := a, b := b, v := s.w, fv := s.fw, w := u, fw := fu, d := d, e := e }
    else if leb fu s.fv || eqb s.v s.x || eqb s.v s.w then
      { s with a := a, b := b, v := u, fv := fu, d := d, e := e }
    else { s with a := a, b := b, d := d, e := e }

/-- one pass of `brent()`'s `while (1)` body; `.inl (x, fx)` = the loop ended -/
def brentStep (eps t : α) (fline : α → α) (s : BrentSt α) : (α × α) ⊕ BrentSt α :=
  let m := (0.5 : α) * (s.a + s.b)
  let tol := eps * abs s.x + t
  if !(isFinite m) || !(isFinite s.x) then .inl (s.x, one / zero) else
  if leb (abs (s.x - m)) ((2.0 : α) * tol - (0.5 : α) * (s.b - s.a)) then .inl (s.x, s.fx) else
  let (u, d, e) := brentTrial tol m s
  .inr (brentUpdate s u (fline u) d e)

def brentLoop (eps t : α) (fline : α → α) : Nat → BrentSt α → Option (α × α)
  | 0, _ => none
  | k+1, s =>
    match brentStep eps t fline s with
    | .inl r => some r
    | .inr s' => brentLoop eps t fline k s'

/-- the C loop has no cap. Most line searches end within a few dozen passes, but when the minimum sits at an end of the interval `brent()` creeps
    towards it in steps of `tol` (2.4 million passes observed on a quadratic with `brent_rtol = 1e-6`): the fuel is what the C side can do
    before the harness timer (8 s) declares a hang -/
def brentFuel : Nat := 400000000

/-- `brent()`: `(x, fx)`; `none` = fuel exhausted (a hang of the C code) -/
def brentCG (cfg : MinCfg α) (fline : α → α) (a b : α) : Option (α × α) :=
  let x := a + goldC * (b - a)
  let fx := fline x
  brentLoop cfg.brentRtol cfg.brentAtol fline brentFuel
    { a := a, b := b, x := x, v := x, w := x, fx := fx, fv := fx, fw := fx, d := zero, e := zero }

/-- result of the minimiser: status, final point, `*opt_fx` — or a non-terminating `brent()` -/
inductive MinRes (α : Type) | res (st : St) (x : Array α) (fx : α) | hang
  deriving Inhabited

/-- why an `eslOK` return happened (for the stopping-rule theorem) -/
inductive StopWhy | zeroGradient | converged | zeroDirection | none
  deriving DecidableEq, Repr, Inhabited

structure CGState (α : Type) where
  x : Array α
  dx : Array α
  cg : Array α
  oldfx : α

/-- the negative gradient at `x` -/
def negGradient (cfg : MinCfg α) (f : Array α → α) (df : Option (Array α → Array α)) (x : Array α) : Array α :=
  match df with
  | some g => (g x).map (fun c => c * (-1.0 : α))
  | none => numericDerivative cfg f x

/-- `bx = min_i |u[i] / cg[i]|` as coded -/
def firstStep (cfg : MinCfg α) (cg : Array α) : α :=
  let term (i : Nat) : α := match cfg.u with
    | some u => abs (u.getD i one / cg.getD i zero)
    | none => abs (one / cg.getD i zero)
  (List.range cg.size).tail.foldl (fun bx i => let cx := term i; if ltb cx bx then cx else bx) (term 0)

/-- the main loop `for (i = 1; i <= max_iterations; i++)`; `k` = iterations left. Returns the result and why it stopped. -/
def cgLoop (cfg : MinCfg α) (f : Array α → α) (df : Option (Array α → Array α)) : Nat → CGState α → α → MinRes α × StopWhy
  | 0, s, fx => (.res .enohalt s.x fx, .none)                       -- `i > max_iterations`
  | k+1, s, _ =>
    let bx := firstStep cfg s.cg
    let fline (t : α) : α := f (pointAt s.x s.cg t)
    match bracketCG cfg fline (f s.x) bx with
    | none => (.res .enoresult s.x (one / zero), .none)              -- `goto ERROR`, `*opt_fx = eslINFINITY`
    | some br =>
      match brentCG cfg fline br.ax br.cx with
      | none => (.hang, .none)
      | some (t, fx) =>
        let x := pointAt s.x s.cg t
        if !(isFinite fx) then (.res .erange x (one / zero), .none) else      -- `status = eslERANGE; goto ERROR` (a return since 137d847, an exception before)
        let w1 := negGradient cfg f df x
        -- Polak-Ribiere
        let coeff := (Array.zipWith (fun w d => (w - d) * w) w1 s.dx).foldl (fun acc t => acc + t) zero
        let coeff := coeff / vdot s.dx s.dx
        let w2 := Array.zipWith (fun w c => w + c * coeff) w1 s.cg
        if dcompare fx s.oldfx cfg.cgRtol cfg.cgAtol then (.res .ok x fx, .converged) else
        if allZero w2 then (.res .ok x fx, .zeroDirection) else
        cgLoop cfg f df k { x := x, dx := w1, cg := w2, oldfx := fx } fx

/-- `esl_min_ConjugateGradientDescent()` -/
def cgd (cfg : MinCfg α) (f : Array α → α) (df : Option (Array α → Array α)) (x0 : Array α) : MinRes α × StopWhy :=
  let oldfx := f x0
  if !(isFinite oldfx) then (.res .erange x0 (one / zero), .none) else
  let dx := negGradient cfg f df x0
  if allZero dx then (.res .ok x0 oldfx, .zeroGradient) else
  cgLoop cfg f df cfg.maxIter { x := x0, dx := dx, cg := dx, oldfx := oldfx } oldfx

end EaselModel.Stats
