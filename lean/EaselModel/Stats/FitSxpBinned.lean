import EaselModel.Stats.HistExpect
import EaselModel.Stats.MinLemmas
/-! # Executable model of `esl_sxp_FitCompleteBinned` (C11, kind H)

`esl_sxp_cdf` (through `esl_stats_IncompleteGamma(a, x, &pax, NULL)`), `sxp_complete_binned_func`, `esl_sxp_FitCompleteBinned` on top of the
minimiser model. When the incomplete gamma function cannot be evaluated (`tau = 0` or `inf`, NaN parameters) `esl_sxp_cdf` answers NaN
(the repaired behaviour; before the repair it returned an uninitialised double). Core Lean only. -/
namespace EaselModel.Stats
open Num
variable {α : Type} [Num α]

/-- `esl_stats_IncompleteGamma(a, x, &pax, NULL)`: `(status, P(a,x))` -/
def incompleteGammaP (a x : α) : St × α :=
  if leb a zero then (.erange, zero) else
  if ltb x zero then (.erange, zero) else
  if gtb x (a + one) then
    match igCF a x 99 1 zero one one x one with
    | none => (.enohalt, zero)
    | some nu1 => (.ok, one - nu1 * exp (a * log x - x - logGamma a))
  else
    match igSeries a x 9999 1 (one / a) (one / a) with
    | none => (.enohalt, zero)
    | some p => (.ok, p * exp (a * log x - x - logGamma a))

/-- `esl_sxp_cdf()` -/
def sxpCdf (x mu lambda tau : α) : α :=
  let y := lambda * (x - mu)
  if leb x mu then zero else
  match incompleteGammaP (one / tau) (exp (tau * log y)) with
  | (.ok, v) => v
  | _ => zero / zero

/-- one bin of `sxp_complete_binned_func()`'s loop; `none` = the `tmp == 0. → return eslINFINITY` exit taken -/
def sxpBinnedStep (h : Hist α) (mu lambda tau : α) (acc : Option α) (ic : Int × Nat) : Option α :=
  match acc with
  | none => none
  | some logL =>
    if ic.2 == 0 then some logL else
    let ai := h.lbound ic.1
    let bi := h.ubound ic.1
    let ai := if ltb ai mu then mu else ai
    let tmp := sxpCdf bi mu lambda tau - sxpCdf ai mu lambda tau
    if eqb tmp zero then none else some (logL + ofInt ic.2 * log tmp)

/-- `sxp_complete_binned_func()` -/
def sxpBinnedFunc (h : Hist α) (bins : List (Int × Nat)) (mu : α) (p : Array α) : α :=
  let lambda := exp (p.getD 0 zero)
  let tau := exp (p.getD 1 zero)
  match bins.foldl (sxpBinnedStep h mu lambda tau) (some zero) with
  | none => one / zero
  | some logL => Neg.neg logL

/-- `esl_sxp_FitCompleteBinned()` → `(mu, lambda, tau)`; `tailfit` = `h->is_tailfit` -/
def sxpFitCompleteBinned (h : Hist α) (tailfit : Bool) : FitRes α :=
  match binRange h with
  | none => .fault
  | some bins =>
    let mu := if tailfit then h.phi else if h.isRounded then h.lbound h.imin else h.xmin
    let mean := bins.foldl (fun (acc : α) ic => acc + ofInt ic.2 * (h.lbound ic.1 + (0.5 : α) * h.w)) zero
    let mean := mean / ofInt h.no
    let lambda := one / (mean - mu)
    let tau : α := (0.9 : α)
    fit2Result mu (cgd (MinCfg.null : MinCfg α) (sxpBinnedFunc h bins mu) none #[log lambda, log tau])

/-- `esl_sxp_FitCompleteBinned` (model), every histogram state and numeric class: a memory fault only when `cmin..imax` leaves `obs[]`
    (excluded by the histogram invariant), otherwise a documented status, three parameters and the documented location -/
theorem sxpFitBinned_post (h : Hist α) (tailfit : Bool) (st : St) (ps : Array α) (hr : sxpFitCompleteBinned h tailfit = .res st ps) :
    (st = .ok ∨ st = .enohalt ∨ st = .erange ∨ st = .enoresult) ∧ ps.size = 3 ∧
    ps.getD 0 zero = (if tailfit then h.phi else if h.isRounded then h.lbound h.imin else h.xmin) := by
  unfold sxpFitCompleteBinned at hr
  split at hr
  · cases hr
  · simp only [] at hr
    obtain ⟨a, b, c, _⟩ := fit2_post _ _ _ (cgd_post _ _ _ _) st ps hr
    exact ⟨a, c, b⟩

end EaselModel.Stats
