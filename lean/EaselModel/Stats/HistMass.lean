import EaselModel.Stats.HistCens
/-! # `esl_histogram_SetTailByMass` agrees with the raw data (C11, over ℚ) -/
namespace EaselModel.Stats

theorem binSum_succ_top (obs : Array Nat) : ∀ (k : Nat) (lo : Int), binSum obs lo (k + 1) = binSum obs lo k + obsAt obs (lo + k) := by
  intro k
  induction k with
  | zero => intro lo; simp [binSum]
  | succ k ih =>
    intro lo
    show obsAt obs lo + binSum obs (lo + 1) (k + 1) = (obsAt obs lo + binSum obs (lo + 1) k) + obsAt obs (lo + ((k + 1 : Nat) : Int))
    rw [ih (lo + 1)]
    have : lo + 1 + (k : Int) = lo + ((k + 1 : Nat) : Int) := by push_cast; ring
    rw [this]; omega

/-- sum of the bins `lo..hi` (inclusive) -/
def rangeSum (obs : Array Nat) (lo hi : Int) : Nat := binSum obs lo (hi - lo + 1).toNat

theorem rangeSum_step (obs : Array Nat) (lo hi : Int) (h : lo ≤ hi + 1) : rangeSum obs (lo - 1) hi = obsAt obs (lo - 1) + rangeSum obs lo hi := by
  unfold rangeSum
  have e : (hi - (lo - 1) + 1).toNat = (hi - lo + 1).toNat + 1 := by omega
  rw [e]
  show obsAt obs (lo - 1) + binSum obs (lo - 1 + 1) (hi - lo + 1).toNat = _
  rw [show lo - 1 + 1 = lo by omega]

/-- the downward scan of `SetTailByMass`, inside the bins: stops at the highest bin `b'` whose upper tail reaches `thresh`
    (`sum'` = that tail), or runs out at `imin - 1` with the whole sum -/
theorem tailScan_spec (obs : Array Nat) (thresh : ℚ) (imin top : Int) (h0 : 0 ≤ imin) (htop : top < obs.size) :
    ∀ (fuel : Nat) (b : Int), imin - 1 ≤ b → b ≤ top → (b - imin + 1).toNat ≤ fuel →
      (∀ j : Int, b < j → j ≤ top → (rangeSum obs j top : ℚ) < thresh) →
      ∃ b' : Int, tailScan obs thresh imin fuel b (rangeSum obs (b + 1) top) = .val (b', rangeSum obs (b' + 1) top + (if imin ≤ b' then obsAt obs b' else 0)) ∧
        imin - 1 ≤ b' ∧ b' ≤ b ∧ (imin ≤ b' → thresh ≤ (rangeSum obs b' top : ℚ)) ∧ (∀ j : Int, b' < j → j ≤ top → (rangeSum obs j top : ℚ) < thresh) := by
  intro fuel
  induction fuel with
  | zero =>
    intro b hb1 hb2 hf hprev
    have : b = imin - 1 := by omega
    subst this
    refine ⟨imin - 1, ?_, le_refl _, le_refl _, fun h => by omega, hprev⟩
    unfold tailScan; rw [if_neg (by omega)]; simp
  | succ k ih =>
    intro b hb1 hb2 hf hprev
    unfold tailScan
    by_cases c : b < imin
    · have : b = imin - 1 := by omega
      subst this
      rw [if_pos c]
      refine ⟨imin - 1, ?_, le_refl _, le_refl _, fun h => by omega, hprev⟩
      rw [if_neg (by omega)]; simp
    · rw [if_neg c, getObs_val obs b (by omega) (by omega)]
      simp only []
      have hstep : rangeSum obs (b + 1) top + obsAt obs b = rangeSum obs b top := by
        have := rangeSum_step obs (b + 1) top (by omega)
        rw [show b + 1 - 1 = b by omega] at this; omega
      rw [hstep]
      by_cases cg : thresh ≤ (rangeSum obs b top : ℚ)
      · have hg : Num.geb (Num.ofInt (rangeSum obs b top : Int) : ℚ) thresh = true := by
          rw [geb_q]; simpa using cg
        rw [if_pos hg]
        refine ⟨b, ?_, by omega, le_refl _, fun _ => cg, hprev⟩
        rw [if_pos (by omega)]; congr 2; omega
      · have hg : ¬ Num.geb (Num.ofInt (rangeSum obs b top : Int) : ℚ) thresh = true := by
          rw [geb_q]; simpa using cg
        rw [if_neg hg]
        have hb' : rangeSum obs b top = rangeSum obs (b - 1 + 1) top := by rw [show b - 1 + 1 = b by omega]
        rw [hb']
        obtain ⟨b', e, r1, r2, r3, r4⟩ := ih (b - 1) (by omega) (by omega) (by omega) (by
          intro j hj1 hj2
          by_cases ej : j = b
          · subst ej; exact not_le.1 cg
          · exact hprev j (by omega) hj2)
        exact ⟨b', e, r1, by omega, r3, r4⟩

end EaselModel.Stats

namespace EaselModel.Stats

theorem countP_le_gt (l : List ℚ) (t : ℚ) :
    l.countP (fun x => decide (x ≤ t)) + l.countP (fun x => decide (t < x)) = l.length := by
  induction l with
  | nil => simp
  | cons a r ih =>
    simp only [List.countP_cons, List.length_cons]
    by_cases c : a ≤ t
    · have : ¬ t < a := not_lt.2 c
      simp [c, this]; omega
    · have : t < a := not_le.1 c
      simp [c, this]; omega

/-- **`esl_histogram_SetTailByMass(pmass)`**, `0 < pmass ≤ 1`, non-empty data: no fault; the cutoff is the lower bound of a bin `b` in
    `imin..imax`; `No` = the number of accepted values above it `≥ pmass·n`, `z = n - No` = the number of accepted values `≤` it;
    and `b` is the HIGHEST such bin (the values above bin `b` alone fall short of the requested mass). -/
theorem setTailByMass_spec (h : Hist ℚ) (vs : List ℚ) (acc : Accounts h vs) (hne : vs ≠ []) (p : ℚ) (hp0 : 0 < p) (hp1 : p ≤ 1) :
    ∃ h' mass b, h.setTailByMass p = .val (.ok, h', mass) ∧ h.imin ≤ b ∧ b ≤ h.imax ∧ h'.cmin = b ∧ h'.phi = h.bmin + (b : ℚ) * h.w ∧
      h'.no = vs.countP (fun x => decide (h'.phi < x)) ∧ h'.z = vs.countP (fun x => decide (x ≤ h'.phi)) ∧
      p * vs.length ≤ h'.no ∧ (vs.countP (fun x => decide (h.bmin + ((b : ℚ) + 1) * h.w < x)) : ℚ) < p * vs.length ∧
      h'.nc = vs.length ∧ h'.obs = h.obs ∧ h'.isDone = true := by
  have hw := acc.wpos
  rcases idx_state h vs acc with ⟨hvs, _, _⟩ | ⟨_, i1, i2, i3⟩
  · exact absurd hvs hne
  have hsz := acc.wf.size
  have hnpos : 0 < vs.length := List.length_pos_of_ne_nil hne
  -- tail sums as counts
  have hrange : ∀ j : Int, h.imin ≤ j → j ≤ h.imax + 1 →
      rangeSum h.obs j h.imax = vs.countP (fun x => decide (h.bmin + (j : ℚ) * h.w < x)) := by
    intro j hj1 hj2
    unfold rangeSum
    rw [binSum_counts h vs acc]
    apply List.countP_congr
    intro v hv
    simp only [decide_eq_true_eq]
    obtain ⟨r1, r2⟩ := value_range h vs acc v hv
    have ek : ((j : ℚ) + (((h.imax - j + 1).toNat : Nat) : ℚ)) = (h.imax : ℚ) + 1 := by
      have : (((h.imax - j + 1).toNat : Nat) : Int) = h.imax - j + 1 := by omega
      have : (((h.imax - j + 1).toNat : Nat) : ℚ) = ((h.imax - j + 1 : Int) : ℚ) := by exact_mod_cast this
      rw [this]; push_cast; ring
    rw [ek]
    exact ⟨fun hh => hh.1, fun hh => ⟨hh, r2⟩⟩
  have htot : rangeSum h.obs h.imin h.imax = vs.length := by
    rw [hrange h.imin (le_refl _) (by omega)]
    rw [List.countP_eq_length]
    intro v hv; simp only [decide_eq_true_eq]; exact (value_range h vs acc v hv).1
  have hinit : rangeSum h.obs (h.imax + 1) h.imax = 0 := by
    unfold rangeSum; rw [show (h.imax - (h.imax + 1) + 1).toNat = 0 by omega]; rfl
  obtain ⟨b, e, r1, r2, r3, r4⟩ := tailScan_spec h.obs (p * (vs.length : ℚ)) h.imin h.imax i1 (by omega)
    (h.imax - h.imin + 1).toNat h.imax (by omega) (le_refl _) (le_refl _) (by intro j hj1 hj2; omega)
  rw [hinit] at e
  -- the scan cannot fall through: the whole histogram reaches the requested mass
  have hb : h.imin ≤ b := by
    by_contra hc
    have hbe : b = h.imin - 1 := by omega
    have := r4 h.imin (by omega) i2
    rw [htot] at this
    have : (vs.length : ℚ) < 1 * vs.length := lt_of_lt_of_le this (mul_le_mul_of_nonneg_right hp1 (by positivity))
    linarith
  rw [if_pos hb] at e
  have hsum : rangeSum h.obs (b + 1) h.imax + obsAt h.obs b = rangeSum h.obs b h.imax := by
    have := rangeSum_step h.obs (b + 1) h.imax (by omega)
    rw [show b + 1 - 1 = b by omega] at this; omega
  rw [hsum] at e
  have hNo := hrange b hb (by omega)
  have hthresh : (Num.ofInt (h.n : Int) : ℚ) = (vs.length : ℚ) := by rw [acc.n]; simp
  unfold Hist.setTailByMass
  simp only [hthresh, e]
  have hle : rangeSum h.obs b h.imax ≤ vs.length := by rw [hNo]; exact List.countP_le_length
  have hphi : h.lbound b = h.bmin + (b : ℚ) * h.w := lbound_q h b
  have hz : h.n - rangeSum h.obs b h.imax = vs.countP (fun x => decide (x ≤ h.bmin + (b : ℚ) * h.w)) := by
    have := countP_le_gt vs (h.bmin + (b : ℚ) * h.w)
    rw [acc.n, hNo]; omega
  refine ⟨_, _, b, rfl, hb, r2, ?_, hphi, ?_, ?_, ?_, ?_, acc.n, rfl, rfl⟩
  · show (if b < 0 then 0 else b) = b; rw [if_neg (by omega)]
  · show h.n - (h.n - rangeSum h.obs b h.imax) = _
    rw [hphi, ← hNo, acc.n]; omega
  · show h.n - rangeSum h.obs b h.imax = _
    rw [hphi]; exact hz
  · show p * (vs.length : ℚ) ≤ ((h.n - (h.n - rangeSum h.obs b h.imax) : Nat) : ℚ)
    have : h.n - (h.n - rangeSum h.obs b h.imax) = rangeSum h.obs b h.imax := by rw [acc.n]; omega
    rw [this]; exact r3 hb
  · by_cases cb : b = h.imax
    · subst cb
      have : vs.countP (fun x => decide (h.bmin + ((h.imax : ℚ) + 1) * h.w < x)) = 0 := by
        rw [List.countP_eq_zero]; intro v hv; simp only [decide_eq_true_eq]
        exact not_lt.2 (value_range h vs acc v hv).2
      rw [this]; simp; positivity
    · have := r4 (b + 1) (by omega) (by omega)
      rw [hrange (b + 1) (by omega) (by omega)] at this
      push_cast at this; exact this

end EaselModel.Stats
