import EaselModel.Stats.FitCG
/-! # Expected counts, goodness of fit and the plot tables of `esl_histogram.c` (C11, kind H)

`esl_histogram_SetExpect`, `esl_histogram_SetExpectedTail` (as repaired in 7d2bcba: `emin` clamped to `0..nb`),
`esl_histogram_Goodness` (re-binning, X², G, and the two p-values through `esl_stats_ChiSquaredTest` /
`esl_stats_IncompleteGamma`), and the bin accounting of `esl_histogram_Plot` / `esl_histogram_PlotSurvival` (as repaired in
e843eeb: empty histogram), line by line over the numeric class. The expected-count fields of `ESL_HISTOGRAM`
(`expect[] emin tailbase tailmass is_tailfit`) live in the separate record `Expect`, the rest in `Hist`.
Every data-dependent index goes through a checked accessor (`.fault`). Core Lean only. -/
namespace EaselModel.Stats
open Num

variable {α : Type} [Num α]

/-- `h->expect` (`none` = NULL), `h->emin`, `h->tailbase`, `h->tailmass`, `h->is_tailfit` -/
structure Expect (α : Type) where
  expect : Option (Array α)
  emin : Int
  tailbase : α
  tailmass : α
  isTailfit : Bool

/-- the values `esl_histogram_Create()` gives those fields -/
def Expect.init : Expect α := { expect := none, emin := -1, tailbase := zero, tailmass := one, isTailfit := false }

def getExp (e : Array α) (b : Int) : Out α :=
  if 0 ≤ b ∧ b.toNat < e.size then .val (e.getD b.toNat zero) else .fault

/-- the loop of `esl_histogram_SetExpect()`: `expect[i] = Nc * (cdf(bi) - cdf(ai))`, `emin` = first bin with a positive expectation
    (only if `emin` still holds its sentinel `-1`) -/
def setExpectLoop (h : Hist α) (cdf : α → α) : Nat → Int → Array α → Int → Array α × Int
  | 0, _, acc, emin => (acc, emin)
  | k+1, i, acc, emin =>
    let ai := h.lbound i
    let bi := h.ubound i
    let v := ofInt h.nc * (cdf bi - cdf ai)
    let emin := if emin == -1 && gtb v zero then i else emin
    setExpectLoop h cdf k (i + 1) (acc.push v) emin

/-- `esl_histogram_SetExpect()` (always eslOK; allocation not modelled) -/
def Hist.setExpect (h : Hist α) (e : Expect α) (cdf : α → α) : Hist α × Expect α :=
  let r := setExpectLoop h cdf h.nb.toNat 0 #[] e.emin
  ({ h with isDone := true }, { e with expect := some r.1, emin := r.2 })

/-- `esl_histogram_SetExpectedTail()`. On a `Score2Bin` failure the status is returned and nothing else happens: `emin` and `expect[]` are left
    as they were — in particular `expect` stays NULL when it was NULL (since 6815f41 the allocation follows the `Score2Bin` check). -/
def Hist.setExpectedTail (h : Hist α) (e : Expect α) (baseVal pmass : α) (cdf : α → α) : St × Hist α × Expect α :=
  let (st, b) := h.score2bin baseVal
  if st != .ok then (st, h, e) else
  let emin : Int := if b < 0 then 0 else if b ≥ h.nb then h.nb else b + 1
  -- `esl_vec_DSet(expect, emin, 0.)`, then `for (b = emin; b < nb; b++) expect[b] = pmass * (double) Nc * (cdf(bi) - cdf(ai))`
  let ex : Array α := (Array.range h.nb.toNat).map fun (i : Nat) =>
    if (i : Int) < emin then zero else pmass * ofInt h.nc * (cdf (h.ubound (i : Int)) - cdf (h.lbound (i : Int)))
  (.ok, { h with isDone := true }, { expect := some ex, emin := emin, tailbase := baseVal, tailmass := pmass, isTailfit := true })

/-! ## `esl_stats_IncompleteGamma` / `esl_stats_ChiSquaredTest` -/

/-- the continued fraction (`x > a+1`), `iter = 1..99`; `none` = eslENOHALT -/
def igCF (a x : α) : Nat → Int → α → α → α → α → α → Option α
  | 0, _, _, _, _, _, _ => none
  | k+1, iter, nu0, de0, nu1, de1, oldp =>
    let nu0 := nu1 + (ofInt iter - a) * nu0
    let de0 := de1 + (ofInt iter - a) * de0
    let nu1 := x * nu0 + ofInt iter * nu1
    let de1 := x * de0 + ofInt iter * de1
    let (nu0, de0, nu1, de1) := if !(eqb de1 zero) then (nu0 / de1, de0 / de1, nu1 / de1, one) else (nu0, de0, nu1, de1)
    if ltb (abs ((nu1 - oldp) / nu1)) (1.0e-7 : α) then some nu1
    else igCF a x k (iter + 1) nu0 de0 nu1 de1 nu1

/-- the series (`x ≤ a+1`), `iter = 1..9999`; `none` = eslENOHALT -/
def igSeries (a x : α) : Nat → Int → α → α → Option α
  | 0, _, _, _ => none
  | k+1, iter, val, p =>
    let val := val * (x / (a + ofInt iter))
    let p := p + val
    if ltb (abs (val / p)) (1.0e-7 : α) then some p else igSeries a x k (iter + 1) val p

/-- `esl_stats_IncompleteGamma(a, x, NULL, &qax)`: `(status, Q(a,x))` -/
def incompleteGammaQ (a x : α) : St × α :=
  if leb a zero then (.erange, zero) else
  if ltb x zero then (.erange, zero) else
  if gtb x (a + one) then
    match igCF a x 99 1 zero one one x one with
    | none => (.enohalt, zero)
    | some nu1 => (.ok, nu1 * exp (a * log x - x - logGamma a))
  else
    match igSeries a x 9999 1 (one / a) (one / a) with
    | none => (.enohalt, zero)
    | some p => (.ok, one - p * exp (a * log x - x - logGamma a))

/-- `esl_stats_ChiSquaredTest(v, x, &ans)` -/
def chiSquaredTest (v : Int) (x : α) : St × α := incompleteGammaQ (ofInt v / (2.0 : α)) (x / (2.0 : α))

/-! ## `esl_histogram_Goodness` -/

/-- `for (i = bbase; i <= imax; i++) { nobs += obs[i]; if (obs[i] > hmax) hmax = obs[i]; }` (only `nobs` is used afterwards) -/
def goodnessCount (obs : Array Nat) : Nat → Int → Nat → Out Nat
  | 0, _, acc => .val acc
  | k+1, i, acc =>
    match getObs obs i with
    | .fault => .fault
    | .val c => goodnessCount obs k (i + 1) (acc + c)

/-- the re-binning sweep: drops `(nobs, nexp)` into the next re-bin whenever both reach `minc`; re-bins newest first, then the leftovers.
    Writing re-bin number `cap` or beyond would be outside the `2·nb+1` arrays the C code allocates: `.fault`. -/
def rebinLoop (obs : Array Nat) (expect : Array α) (minc cap : Nat) : Nat → Int → Nat → α → List (Nat × α) → Out (List (Nat × α) × Nat × α)
  | 0, _, nobs, nexp, bins => .val (bins, nobs, nexp)
  | k+1, b, nobs, nexp, bins =>
    match getObs obs b, getExp expect b with
    | .val c, .val ev =>
      let nobs := nobs + c
      let nexp := nexp + ev
      if nobs ≥ minc && geb nexp (ofInt minc) then
        if bins.length ≥ cap then .fault else
        rebinLoop obs expect minc cap k (b + 1) 0 zero ((nobs, nexp) :: bins)
      else rebinLoop obs expect minc cap k (b + 1) nobs nexp bins
    | _, _ => .fault

structure Goodness (α : Type) where
  st : St
  nbins : Int
  g : α
  gp : α
  x2 : α
  x2p : α

/-- the `ERROR:` exit -/
def Goodness.fail (st : St) : Goodness α := { st := st, nbins := 0, g := zero, gp := one, x2 := zero, x2p := one }

/-- `if (X == 0.) p = 1.0; else if (X != eslINFINITY) status = esl_stats_ChiSquaredTest(v, X, &p); else p = 0.;` -/
def chiP (v : Int) (x : α) : St × α :=
  if eqb x zero then (.ok, one)
  else if !(eqb x (one / zero)) then chiSquaredTest v x
  else (.ok, zero)

/-- `X2 = Σ (obs_i - exp_i)² / exp_i` -/
def x2Of (bins : List (Nat × α)) : α :=
  bins.foldl (fun acc (ox : Nat × α) => let tmp := ofInt ox.1 - ox.2; acc + tmp * tmp / ox.2) zero

/-- `G = 2 Σ obs_i log(obs_i / exp'_i)`, `exp'_i = exp_i * (double) nobs / nexp` -/
def gOf (bins : List (Nat × α)) : α :=
  let nobsT := bins.foldl (fun acc (ox : Nat × α) => acc + ox.1) 0
  let nexpT := bins.foldl (fun acc (ox : Nat × α) => acc + ox.2) zero
  let g := bins.foldl (fun acc (ox : Nat × α) =>
    let ex := ox.2 * ofInt nobsT / nexpT
    acc + ofInt ox.1 * log (ofInt ox.1 / ex)) zero
  g * (2.0 : α)

/-- the statistics part of `esl_histogram_Goodness`, from the re-bins on -/
def goodnessStats (bins : List (Nat × α)) (nfitted : Int) : Goodness α :=
  let nb : Int := bins.length
  if nb - nfitted - 1 ≤ 0 then Goodness.fail .enoresult else
  let x2 := x2Of bins
  let r1 := chiP (nb - nfitted) x2
  if r1.1 != .ok then Goodness.fail r1.1 else
  let g := gOf bins
  let r2 := chiP (nb - nfitted - 1) g
  if r2.1 != .ok then Goodness.fail r2.1 else
  { st := .ok, nbins := nb, g := g, gp := r2.2, x2 := x2, x2p := r1.2 }

/-- the first bin `esl_histogram_Goodness` and `esl_histogram_PlotQQ` evaluate: `bbase = cmin; if (is_tailfit && emin > bbase) bbase = emin;` -/
def goodnessBase (h : Hist α) (e : Expect α) : Int := if e.isTailfit && e.emin > h.cmin then e.emin else h.cmin

/-- `esl_histogram_Goodness(h, nfitted, &nbins, &G, &Gp, &X2, &X2p)`; also returns the re-bins (oldest first) for the accounting theorem -/
def Hist.goodness (h : Hist α) (e : Expect α) (nfitted : Int) : Out (Goodness α × List (Nat × α)) :=
  match e.expect with
  | none => .val (Goodness.fail .einval, [])
  | some expect =>
    let bbase := if e.isTailfit && e.emin > h.cmin then e.emin else h.cmin
    match goodnessCount h.obs (h.imax + 1 - bbase).toNat bbase 0 with
    | .fault => .fault
    | .val nobs =>
      if nobs == 0 then .val (Goodness.fail .enoresult, []) else
      -- `nb = 2 * (int) pow((double) nobs, 0.4); minc = 1 + nobs / (2*nb);`
      let nbT : Int := 2 * toInt (pow (ofInt nobs) (0.4 : α))
      if nbT ≤ 0 then .fault else                       -- division by zero / negative allocation (unreachable when pow(n,0.4) ≥ 1)
      let minc : Nat := 1 + nobs / (2 * nbT.toNat)
      match rebinLoop h.obs expect minc (2 * nbT.toNat + 1) (h.imax + 1 - bbase).toNat bbase 0 zero [] with
      | .fault => .fault
      | .val (bins, lobs, lexp) =>
        match bins with
        | [] => .val (Goodness.fail .enoresult, [])
        | (o, x) :: rest =>
          let bins := ((o + lobs, x + lexp) :: rest).reverse          -- `obs[i-1] += nobs; exp[i-1] += nexp;`
          .val (goodnessStats bins nfitted, bins)

/-! ## the tables `esl_histogram_Plot` and `esl_histogram_PlotSurvival` print (bin accounting; the number formatting is not modelled) -/

/-- rows of the first data set of `esl_histogram_Plot`: `(bin, obs[bin])` for `imin..imax` (the trailing `y = 0` row is not included) -/
def plotRows (obs : Array Nat) : Nat → Int → List (Int × Nat) → Out (List (Int × Nat))
  | 0, _, acc => .val acc.reverse
  | k+1, i, acc =>
    match getObs obs i with
    | .fault => .fault
    | .val c => plotRows obs k (i + 1) ((i, c) :: acc)

def Hist.plotObserved (h : Hist α) : Out (List (Int × Nat)) := plotRows h.obs (h.imax + 1 - h.imin).toNat h.imin []

/-- second data set of `esl_histogram_Plot`: the bins from the first to the last positive expectation -/
def plotExpected (ex : Array α) : List (Nat × α) :=
  let n := ex.size
  let idx := List.range n
  match idx.find? (fun i => gtb (ex.getD i zero) zero), idx.reverse.find? (fun i => gtb (ex.getD i zero) zero) with
  | some lo, some hi => (List.range (hi + 1 - lo)).map fun k => (lo + k, ex.getD (lo + k) zero)
  | _, _ => []

/-- `esl_histogram_PlotSurvival`, observed part: an extra first row when `imax > -1 && obs[imax] > 1`, then for `i = imax` down to `imin`
    one row `(i, cumulative count)` per occupied bin -/
def survRows (obs : Array Nat) : Nat → Int → Nat → List (Int × Nat) → Out (List (Int × Nat))
  | 0, _, _, acc => .val acc.reverse
  | k+1, i, c, acc =>
    match getObs obs i with
    | .fault => .fault
    | .val o => if o > 0 then survRows obs k (i - 1) (c + o) ((i, c + o) :: acc) else survRows obs k (i - 1) c acc

def Hist.plotSurvival (h : Hist α) : Out (Bool × List (Int × Nat)) :=
  let first : Out Bool := if h.imax > -1 then (match getObs h.obs h.imax with | .fault => .fault | .val o => .val (decide (o > 1))) else .val false
  match first with
  | .fault => .fault
  | .val f =>
    match survRows h.obs (h.imax + 1 - h.imin).toNat h.imax 0 [] with
    | .fault => .fault
    | .val rows => .val (f, rows)

/-- rows of the first data set of `esl_histogram_PlotQQ`: for `i = bbase .. imax-1` the bin and the running count `sum` whose fraction
    `sum / Nc` is handed to the inverse cdf -/
def qqRows (obs : Array Nat) : Nat → Int → Nat → List (Int × Nat) → Out (List (Int × Nat))
  | 0, _, _, acc => .val acc.reverse
  | k+1, i, sum, acc =>
    match getObs obs i with
    | .fault => .fault
    | .val c => qqRows obs k (i + 1) (sum + c) ((i, sum + c) :: acc)

/-- `esl_histogram_PlotQQ`, observed part: `sum` starts at `z` for censored data, the bins `cmin..bbase-1` are added silently, then one row per
    bin `bbase..imax-1` ("avoid last bin where upper cdf=1.0") -/
def Hist.plotQQ (h : Hist α) (e : Expect α) : Out (List (Int × Nat)) :=
  let sum0 : Nat := if h.datasetIs == .trueCensored || h.datasetIs == .virtualCensored then h.z else 0
  let bbase := goodnessBase h e
  match goodnessCount h.obs (bbase - h.cmin).toNat h.cmin sum0 with
  | .fault => .fault
  | .val s => qqRows h.obs (h.imax - bbase).toNat bbase s []

/-- expected part of the survival plot: rows for the bins with a positive expectation, from the top down, with the running sum -/
def survExpected (ex : Array α) : List (Nat × α) :=
  ((List.range ex.size).reverse.foldl (fun (acc : α × List (Nat × α)) i =>
    let v := ex.getD i zero
    if gtb v zero then (acc.1 + v, (i, acc.1 + v) :: acc.2) else acc) (zero, [])).2.reverse

/-! ## cumulative distribution functions shared with the harness (same operation order on both sides) -/

def cdfUnif (c : Array α) (x : α) : α :=
  let a := c.getD 0 zero; let b := c.getD 1 zero
  if ltb x a then zero else if gtb x b then one else (x - a) / (b - a)

def cdfExp (c : Array α) (x : α) : α :=
  let mu := c.getD 0 zero; let lambda := c.getD 1 zero
  if ltb x mu then zero else one - exp (-(lambda * (x - mu)))

def cdfGumbel (c : Array α) (x : α) : α :=
  let mu := c.getD 0 zero; let lambda := c.getD 1 zero
  exp (-(exp (-(lambda * (x - mu)))))

def cdfFamily (fam : String) (c : Array α) : Option (α → α) :=
  match fam with
  | "unif" => some (cdfUnif c)
  | "exp" => some (cdfExp c)
  | "gumbel" => some (cdfGumbel c)
  | _ => none

end EaselModel.Stats
