import EaselModel.Stats.HistExpectLemmas
import EaselModel.Stats.FitReal
import Mathlib.Tactic.NormNum
/-! # `esl_histogram_Goodness` over ℝ: the bin-number formula is harmless, so the routine never faults (C11) -/
namespace EaselModel.Stats
open Num

theorem pow04_ge_one (n : Nat) (hn : 0 < n) : 0 < 2 * Num.toInt (Num.pow (Num.ofInt (n : Int) : ℝ) (0.4 : ℝ)) := by
  have h1 : (1 : ℝ) ≤ ((n : Int) : ℝ) := by exact_mod_cast hn
  have h2 : (1 : ℝ) ≤ Real.rpow ((n : Int) : ℝ) (0.4 : ℝ) := Real.one_le_rpow h1 (by norm_num)
  show 0 < 2 * (if 0 ≤ Real.rpow ((n : Int) : ℝ) (0.4 : ℝ) then ⌊Real.rpow ((n : Int) : ℝ) (0.4 : ℝ)⌋ else ⌈Real.rpow ((n : Int) : ℝ) (0.4 : ℝ)⌉)
  rw [if_pos (by linarith)]
  have : 1 ≤ ⌊Real.rpow ((n : Int) : ℝ) (0.4 : ℝ)⌋ := Int.le_floor.2 (by exact_mod_cast h2)
  omega

/-- **`esl_histogram_Goodness` is memory-safe** (exact arithmetic): on a well-formed histogram with `cmin ≥ 0` and `expect[]` as long as
    `obs[]` (what `SetExpect` / `SetExpectedTail` establish) it never reads outside `obs[]`/`expect[]`, never divides by zero in
    `minc = 1 + nobs/(2·nb)`, and never writes outside its `2·nb+1` re-bins. -/
theorem goodness_no_fault_real (h : Hist ℝ) (hwf : h.WF) (hidx : IdxOK h) (hc : 0 ≤ h.cmin) (e : Expect ℝ)
    (hex : ∀ ex, e.expect = some ex → (ex.size : Int) = h.nb) (nfitted : Int) : h.goodness e nfitted ≠ .fault := by
  intro hf
  obtain ⟨n, hn, hle⟩ := goodness_fault_only_from_pow h hwf hidx hc e hex nfitted hf
  have := pow04_ge_one n hn
  omega

/-! ## a concrete instance (non-vacuity of the goodness theorems): one value, one bin, expectation 1 -/

noncomputable def h1 : Hist ℝ :=
  { obs := #[1], nb := 1, w := 1, bmin := 0, bmax := 1, imin := 0, imax := 0, xmin := 0.5, xmax := 0.5, n := 1, x := #[], nalloc := 0,
    phi := 0, cmin := 0, z := 0, nc := 1, no := 1, isFull := false, isDone := true, isSorted := false, isRounded := false, datasetIs := .complete }
noncomputable def e1 : Expect ℝ := { expect := some #[1], emin := 0, tailbase := 0, tailmass := 1, isTailfit := false }

/-- non-vacuity for `goodness_accounts`: one value, one bin, expectation 1: the sweep produces one re-bin holding that value -/
theorem goodness_example : ∃ g bins, h1.goodness e1 0 = .val (g, bins) ∧ bins ≠ [] ∧ binsObs bins = 1 := by
  have hp : Num.pow (1 : ℝ) (0.4 : ℝ) = 1 := by
    show Real.rpow (1 : ℝ) (0.4 : ℝ) = 1
    simp
  have ht : Num.toInt (1 : ℝ) = 1 := by
    show (if (0 : ℝ) ≤ 1 then ⌊(1 : ℝ)⌋ else ⌈(1 : ℝ)⌉) = 1
    simp
  unfold Hist.goodness h1 e1
  simp only [Bool.false_and, Bool.false_eq_true, if_false]
  simp [goodnessCount, getObs, hp, ht, rebinLoop, getExp, Num.geb, Num.leb, binsObs]

theorem h1_wf : h1.WF ∧ IdxOK h1 ∧ 0 ≤ h1.cmin ∧ (∀ ex, e1.expect = some ex → (ex.size : Int) = h1.nb) := by
  refine ⟨⟨rfl, by decide, by decide, ?_, ?_⟩, Or.inr ⟨by decide, by decide, by decide⟩, by decide, ?_⟩
  · intro h; cases h
  · intro h; cases h
  · intro ex hex; simp only [e1, Option.some.injEq] at hex; rw [← hex]; rfl

end EaselModel.Stats
