import EaselModel.Stats.HistExpectLemmas
import EaselModel.Stats.FitReal
import Mathlib.Tactic.NormNum
/-! # `esl_histogram_Goodness` over ℝ: the bin-number formula is harmless, so the routine never faults (C11) -/
namespace EaselModel.Stats
open Num

theorem pow04_ge_one (n : Nat) (hn : 0 < n) : 0 < 2 * Num.toInt (Num.pow (Num.ofInt (n : Int) : ℝ) (0.4 : ℝ)) := by
  have h1 : (1 : ℝ) ≤ ((n : Int) : ℝ) := by exact_mod_cast hn
  have h2 : (1 : ℝ) ≤ Real.rpow ((n : Int) : ℝ) (0.4 : ℝ) := Real.one_le_rpow h1 (by norm_num)
  show 0 < 2 * (if 0 ≤ Real.rpow ((n : Int) : ℝ) (0.4 : ℝ) then ⌊Real.rpow ((n : Int) : ℝ) (0.4 : ℝ)⌋ else ⌈Real.rpow ((n : Int) : ℝ) (0.4 : ℝ)⌉)
  rw [if_pos (by linarith)]
  have : 1 ≤ ⌊Real.rpow ((n : Int) : ℝ) (0.4 : ℝ)⌋ := Int.le_floor.2 (by exact_mod_cast h2)
  omega

/-- **`esl_histogram_Goodness` is memory-safe** (exact arithmetic): on a well-formed histogram with `cmin ≥ 0` and `expect[]` as long as
    `obs[]` (what `SetExpect` / `SetExpectedTail` establish) it never reads outside `obs[]`/`expect[]`, never divides by zero in
    `minc = 1 + nobs/(2·nb)`, and never writes outside its `2·nb+1` re-bins. -/
theorem goodness_no_fault_real (h : Hist ℝ) (hwf : h.WF) (hidx : IdxOK h) (hc : 0 ≤ h.cmin) (e : Expect ℝ)
    (hex : ∀ ex, e.expect = some ex → (ex.size : Int) = h.nb) (nfitted : Int) : h.goodness e nfitted ≠ .fault := by
  intro hf
  obtain ⟨n, hn, hle⟩ := goodness_fault_only_from_pow h hwf hidx hc e hex nfitted hf
  have := pow04_ge_one n hn
  omega

end EaselModel.Stats
