import EaselModel.Stats.Fit
import EaselModel.Stats.Minimizer
/-! # Executable model of the conjugate-gradient fits (C11, kind H)

`esl_wei_FitComplete` (`wei_func`, `esl_wei_logpdf`), `esl_sxp_FitComplete` (`sxp_complete_func`, `esl_sxp_logpdf`,
`esl_stats_LogGamma`), `esl_gumbel_FitTruncated` (`tevd_func`, `tevd_grad`, `esl_gumbel_pdf/surv/logsurv`) on top of the
minimiser model. Core Lean only. -/
namespace EaselModel.Stats
open Num

variable {α : Type} [Num α]

def posInf : α := one / zero
def negInf : α := -(one / zero)

/-- `esl_vec_DMin` -/
def vmin (xs : Array α) : α := minOf xs (xs.getD 0 zero)

/-! ## Weibull -/

/-- `esl_wei_logpdf()` -/
def weiLogpdf (x mu lambda tau : α) : α :=
  let y := lambda * (x - mu)
  if ltb x mu then negInf else
  if eqb x mu && ltb tau one then posInf else
  if eqb x mu && gtb tau one then negInf else
  if eqb x mu && eqb tau one then log lambda else
  log tau + tau * log lambda + (tau - one) * log (x - mu) - exp (tau * log y)

/-- `wei_func()`: the negative log-likelihood in the variables `p = (log λ, log τ)` -/
def weiFunc (xs : Array α) (mu : α) (p : Array α) : α :=
  let lambda := exp (p.getD 0 zero)
  let tau := exp (p.getD 1 zero)
  let logL := xs.foldl (fun acc x => if !(eqb tau one) && eqb x mu then acc else acc + weiLogpdf x mu lambda tau) zero
  Neg.neg logL

/-- common tail of the two-parameter fits: `*ret_mu = mu; *ret_lambda = exp(p[0]); *ret_tau = exp(p[1]); return status` -/
def fit2Result (mu : α) (r : MinRes α × StopWhy) : FitRes α :=
  match r.1 with
  | .hang => .hang
  | .res st p _ => .res st #[mu, exp (p.getD 0 zero), exp (p.getD 1 zero)]

/-- the optimiser call of `esl_wei_FitComplete()` -/
def weiCG (xs : Array α) : α × (MinRes α × StopWhy) :=
  let mu := vmin xs
  let mean := (dmean xs).1
  let lambda := one / (mean - mu)
  let tau : α := (0.9 : α)
  (mu, cgd (MinCfg.null : MinCfg α) (weiFunc xs mu) none #[log lambda, log tau])

/-- `esl_wei_FitComplete()` → `(mu, lambda, tau)` -/
def weiFitComplete (xs : Array α) : FitRes α := let (mu, r) := weiCG xs; fit2Result mu r

/-! ## stretched exponential -/

def lgCof : Array α := #[(4.694580336184385e+04 : α), (-1.560605207784446e+05 : α), (2.065049568014106e+05 : α),
  (-1.388934775095388e+05 : α), (5.031796415085709e+04 : α), (-9.601592329182778e+03 : α), (8.785855930895250e+02 : α),
  (-3.155153906098611e+01 : α), (2.908143421162229e-01 : α), (-2.319827630494973e-04 : α), (1.251639670050933e-10 : α)]

/-- `esl_stats_LogGamma()` for `x > 0` (for `x ≤ 0` the C function throws and leaves the answer unset: modelled as NaN) -/
def logGamma (x : α) : α :=
  if leb x zero then zero / zero else
  let xx := x - one
  let tx := xx + (11.0 : α)
  -- `for (i = 10; i >= 0; i--) { value += cof[i] / tmp; tmp -= 1.0; }`
  let (value, _) := (List.range 11).foldl (fun (vt : α × α) k => (vt.1 + lgCof.getD (10 - k) zero / vt.2, vt.2 - one)) (one, tx)
  let value := log value
  let tx := tx + (0.5 : α)
  value + ((0.918938533 : α) + (xx + (0.5 : α)) * log tx - tx)

/-- `esl_sxp_logpdf()` -/
def sxpLogpdf (x mu lambda tau : α) : α :=
  let y := lambda * (x - mu)
  if ltb x mu then negInf else
  let gt := logGamma (one / tau)
  if eqb x mu then log lambda + log tau - gt
  else log lambda + log tau - gt - exp (tau * log y)

/-- `sxp_complete_func()` -/
def sxpFunc (xs : Array α) (mu : α) (p : Array α) : α :=
  let lambda := exp (p.getD 0 zero)
  let tau := exp (p.getD 1 zero)
  Neg.neg (xs.foldl (fun acc x => acc + sxpLogpdf x mu lambda tau) zero)

def sxpCG (xs : Array α) : α × (MinRes α × StopWhy) :=
  let mu := vmin xs
  let mean := (dmean xs).1
  let lambda := one / (mean - mu)
  let tau : α := (0.9 : α)
  (mu, cgd (MinCfg.null : MinCfg α) (sxpFunc xs mu) none #[log lambda, log tau])

/-- `esl_sxp_FitComplete()` → `(mu, lambda, tau)` -/
def sxpFitComplete (xs : Array α) : FitRes α := let (mu, r) := sxpCG xs; fit2Result mu r

/-! ## truncated Gumbel -/

def smallX1 : α := (5e-9 : α)

/-- `esl_gumbel_pdf()` -/
def gumbelPdf (x mu lambda : α) : α := let y := lambda * (x - mu); lambda * exp (-y - exp (-y))

/-- `esl_gumbel_surv()` -/
def gumbelSurv (x mu lambda : α) : α :=
  let y := lambda * (x - mu)
  let ey := -(exp (-y))
  if ltb (abs ey) smallX1 then -ey else one - exp ey

/-- `esl_gumbel_logsurv()` -/
def gumbelLogsurv (x mu lambda : α) : α :=
  let y := lambda * (x - mu)
  let ey := -(exp (-y))
  if ltb (abs ey) smallX1 then -y
  else if ltb (abs (exp ey)) smallX1 then -(exp ey)
  else log (one - exp ey)

/-- `tevd_func()`: negative log-likelihood of the truncated Gumbel in `p = (μ, log λ)` -/
def tevdFunc (xs : Array α) (phi : α) (p : Array α) : α :=
  let mu := p.getD 0 zero
  let lambda := exp (p.getD 1 zero)
  let n : α := ofInt xs.size
  let logL := n * log lambda
  let logL := xs.foldl (fun acc x => acc - lambda * (x - mu)) logL
  let logL := xs.foldl (fun acc x => acc - exp (-one * lambda * (x - mu))) logL
  let logL := logL - n * gumbelLogsurv phi mu lambda
  (-1.0 : α) * logL

/-- `tevd_grad()` -/
def tevdGrad (xs : Array α) (phi : α) (p : Array α) : Array α :=
  let mu := p.getD 0 zero
  let lambda := exp (p.getD 1 zero)
  let n : α := ofInt xs.size
  let coeff := if gtb (lambda * (phi - mu)) (50.0 : α) then lambda else gumbelPdf phi mu lambda / gumbelSurv phi mu lambda
  let dmu := n * lambda
  let dmu := xs.foldl (fun acc x => acc - lambda * exp (-one * lambda * (x - mu))) dmu
  let dmu := dmu - n * coeff
  let dw := n
  let dw := xs.foldl (fun acc x => acc - (x - mu) * lambda) dw
  let dw := xs.foldl (fun acc x => acc + (x - mu) * lambda * exp (-one * lambda * (x - mu))) dw
  let dw := dw + n * (phi - mu) * coeff
  #[(-1.0 : α) * dmu, (-1.0 : α) * dw]

/-- the customised optimiser configuration of `esl_gumbel_FitTruncated()` -/
def tevdCfg : MinCfg α := { (MinCfg.create 2 : MinCfg α) with u := some #[(2.0 : α), (0.1 : α)], cgRtol := (1e-4 : α) }

def tevdCG (xs : Array α) (phi : α) : MinRes α × StopWhy :=
  let (mean, variance) := dmean xs
  let lambda := piConst / sqrt ((6.0 : α) * variance)
  let mu := mean - (0.57722 : α) / lambda
  cgd tevdCfg (tevdFunc xs phi) (some (tevdGrad xs phi)) #[mu, log lambda]

/-- `esl_gumbel_FitTruncated()` → `(mu, lambda)` -/
def gumbelFitTruncated (xs : Array α) (phi : α) : FitRes α :=
  if xs.size ≤ 1 then .res .einval #[zero, zero] else
  -- `for (i = 1; i < n; i++) if (x[i] != x[0]) break; if (i == n) ENORESULT`
  if xs.all (fun x => eqb x (xs.getD 0 zero)) then .res .enoresult #[zero, zero] else
  match (tevdCG xs phi).1 with
  | .hang => .hang
  | .res .ok p _ => .res .ok #[p.getD 0 zero, exp (p.getD 1 zero)]
  | .res .enohalt _ _ => .res .enoresult #[zero, zero]
  | .res st _ _ => .res st #[zero, zero]

/-- `esl_gam_logpdf()` -/
def gamLogpdf (x mu lambda tau : α) : α :=
  let y := lambda * (x - mu)
  if ltb y zero then negInf else
  if eqb x mu && ltb tau one then posInf else
  if eqb x mu && gtb tau one then negInf else
  if eqb x mu && eqb tau one then log lambda else
  ((tau * log lambda + (tau - one) * log (x - mu)) - logGamma tau) - y

/-- negative log-likelihood of a data set in the variables `(log λ, log τ)` for a known `mu`, summed with the library's `logpdf`:
    the Weibull one IS `wei_func`; the gamma and stretched-exponential analogues (test objectives of the differential run) -/
def gamNllFunc (xs : Array α) (mu : α) (p : Array α) : α :=
  let lambda := exp (p.getD 0 zero)
  let tau := exp (p.getD 1 zero)
  if !(gtb tau zero) then posInf else
  Neg.neg (xs.foldl (fun acc x => acc + gamLogpdf x mu lambda tau) zero)

def sxpNllFunc (xs : Array α) (mu : α) (p : Array α) : α :=
  let tau := exp (p.getD 1 zero)
  if !(gtb (one / tau) zero) then posInf else sxpFunc xs mu p

/-- the data-dependent objective families of the driver's `cgd` op (`p[0] = mu`) -/
def nllFamily (fam : String) (xs : Array α) (p : Array α) : Option (Array α → α) :=
  match fam with
  | "weinll" => some (weiFunc xs (p.getD 0 zero))
  | "gamnll" => some (gamNllFunc xs (p.getD 0 zero))
  | "sxpnll" => some (sxpNllFunc xs (p.getD 0 zero))
  | _ => none

/-- dispatcher for the driver -/
def runFitCG (kind : String) (xs : Array α) (a : α) : Option (FitRes α) :=
  match kind with
  | "weibull" => some (weiFitComplete xs)
  | "sxp" => some (sxpFitComplete xs)
  | "gumbeltrunc" => some (gumbelFitTruncated xs a)
  | _ => none

end EaselModel.Stats

namespace EaselModel.Stats
open Num
variable {α : Type} [Num α]

/-! ## gamma (generalized Newton, `esl_gamma.c`) -/

/-- `esl_stats_LogGamma()` with its status: `none` = eslERANGE (`x ≤ 0`) -/
def logGammaSt (x : α) : Option α := if leb x zero then none else some (logGamma x)

/-- the `while (x < 8.5) { psi -= 1./x; x += 1.; }` loop (at most 9 rounds for `x > 1e-5`) -/
def psiLoop : Nat → α → α → α × α
  | 0, psi, x => (psi, x)
  | k+1, psi, x => if ltb x (8.5 : α) then psiLoop k (psi - one / x) (x + one) else (psi, x)

/-- `esl_stats_Psi()`; `none` = eslERANGE -/
def psiSt (x : α) : Option α :=
  if leb x zero then none else
  if leb x (1e-5 : α) then some (-(0.57721566490153286060651209008 : α) - one / x) else
  let (psi, x) := psiLoop 16 zero x
  let x2 := one / x
  let psi := psi + (log x - (0.5 : α) * x2)
  let x2 := x2 * x2
  some (psi + (((-1.0 : α) / (12.0 : α)) * x2 + ((1.0 : α) / (120.0 : α)) * x2 * x2 - ((1.0 : α) / (252.0 : α)) * x2 * x2 * x2))

/-- `while (x < 5.0) { trigam += 1./(x*x); x += 1.; }` -/
def trigammaLoop : Nat → α → α → α × α
  | 0, t, x => (t, x)
  | k+1, t, x => if ltb x (5.0 : α) then trigammaLoop k (t + one / (x * x)) (x + one) else (t, x)

/-- `esl_stats_Trigamma()`; `none` = eslERANGE -/
def trigammaSt (x : α) : Option α :=
  if leb x zero then none else
  if leb x (1.0e-4 : α) then some (one / (x * x)) else
  let (t, x) := trigammaLoop 16 zero x
  let y := one / (x * x)
  some (t + ((0.5 : α) * y + (one + y * ((1.0 : α) / (6.0 : α) + y * ((1.0 : α) / (30.0 : α) + y * ((1.0 : α) / (42.0 : α) + y * ((1.0 : α) / (30.0 : α)))))) / x))

/-- `gam_nll()`; `none` = eslERANGE -/
def gamNll (xbar logxbar tau : α) : Option α :=
  match logGammaSt tau with
  | none => none
  | some lg => some (-(tau * log tau - tau * log xbar - lg + (tau - one) * logxbar - tau))

/-- the `do … while` of `gam_fitting_engine()`; `k` = fuel (= max_iterations), returns `(status, tau, old_tau, fx, old_fx, iter)` -/
def gamLoop (xbar logxbar : α) : Nat → Nat → α → α → St × α × α × α × α × Nat
  | 0, iter, tau, fx => (.enohalt, tau, tau, fx, fx, iter)       -- unreachable (the loop condition tests iter < 100 first)
  | k+1, iter, tau, fx =>
    match psiSt tau, trigammaSt tau with
    | some psi, some tg =>
      let tau' := one / (one / tau + (logxbar - log xbar + log tau - psi) / (tau - tau * tau * tg))
      match gamNll xbar logxbar tau' with
      | none => (.erange, tau', tau, fx, fx, iter)
      | some fx' =>
        let iter := iter + 1
        if iter < 100 && (!(dcompare tau tau' (1e-6 : α) (1e-6 : α)) || !(dcompare fx fx' (1e-6 : α) (1e-6 : α))) then
          gamLoop xbar logxbar k iter tau' fx'
        else if iter == 100 then (.enohalt, tau', tau, fx', fx, iter)
        else (.ok, tau', tau, fx', fx, iter)
    | _, _ => (.erange, tau, tau, fx, fx, iter)

/-- `gam_fitting_engine()` → `(lambda, tau)` -/
def gamFittingEngine (xbar logxbar : α) : FitRes α :=
  let tau0 := (0.5 : α) / (log xbar - logxbar)
  match gamLoop xbar logxbar 100 0 tau0 (one / zero) with
  | (.ok, tau, _, _, _, _) => .res .ok #[tau / xbar, tau]
  | (st, _, _, _, _, _) => .res st #[-(one / zero), -(one / zero)]

/-- `esl_gam_FitComplete(x, n, mu)` -/
def gamFitComplete (xs : Array α) (mu : α) : FitRes α :=
  if xs.any (fun x => ltb (x - mu) zero) then .res .einval #[-(one / zero), -(one / zero)] else
  let xbar := sumMap (fun x => x - mu) xs / ofInt xs.size
  let logxbar := sumMap (fun x => if eqb (x - mu) zero then (-36.0 : α) else log (x - mu)) xs / ofInt xs.size
  gamFittingEngine xbar logxbar

/-- `esl_gam_FitCountHistogram(ct, n, mu)` with `ct = ct[0..n]` -/
def gamFitCountHistogram (ct : Array α) (mu : α) : FitRes α :=
  let bad : FitRes α := .res .einval #[-(one / zero), -(one / zero)]
  if !(eqb (ceil mu) mu) then bad else
  let mui := toInt mu                                    -- `lround(mu)` of an integral value
  if (List.range ct.size).any (fun (i : Nat) => decide (((i : Nat) : Int) ≤ mui) && !(eqb (ct.getD i zero) zero)) then bad else
  let idx := (List.range ct.size).filter (fun (i : Nat) => decide (((i : Nat) : Int) > mui))
  if idx.any (fun i => !(gtb (ct.getD i zero) zero) && ltb (ct.getD i zero) zero) then bad else
  let (xbar, logxbar, ntot) := idx.foldl (fun (a : α × α × α) i =>
      let c := ct.getD i zero
      if gtb c zero then
        let v := ofInt i - mu
        (a.1 + c * v, a.2.1 + c * log v, a.2.2 + c)
      else a) (zero, zero, zero)
  if leb ntot zero then bad else
  gamFittingEngine (xbar / ntot) (logxbar / ntot)

end EaselModel.Stats

namespace EaselModel.Stats
open Num
variable {α : Type} [Num α]

/-! ## Weibull, binned (`esl_wei_FitCompleteBinned`) -/

/-- `esl_wei_cdf()` -/
def weiCdf (x mu lambda tau : α) : α :=
  let y := lambda * (x - mu)
  let tly := tau * log y
  if leb x mu then zero
  else if ltb (exp tly) smallX1 then exp tly
  else one - exp (-(exp tly))

/-- bins `cmin..imax` as `(index, count)`; `none` = an index outside `obs[0..nb-1]` (memory fault) -/
def binRange (h : Hist α) : Option (List (Int × Nat)) :=
  let k := (h.imax - h.cmin + 1).toNat
  if k = 0 then some [] else
  if 0 ≤ h.cmin ∧ (h.imax.toNat < h.obs.size) ∧ 0 ≤ h.imax then
    some ((List.range k).map (fun (j : Nat) => (h.cmin + (j : Int), h.obs.getD (h.cmin + (j : Int)).toNat 0)))
  else none

/-- one bin of `wei_binned_func()`'s loop; `none` = the `tmp <= 0 → return eslINFINITY` exit taken -/
def weiBinnedStep (h : Hist α) (mu lambda tau : α) (acc : Option α) (ic : Int × Nat) : Option α :=
  match acc with
  | none => none
  | some logL =>
    if ic.2 == 0 then some logL else
    let ai := h.lbound ic.1
    let bi := h.ubound ic.1
    let ai := if ltb ai mu then mu else ai
    let tmp := weiCdf bi mu lambda tau - weiCdf ai mu lambda tau
    if leb tmp zero then none else some (logL + ofInt ic.2 * log tmp)

/-- `wei_binned_func()` -/
def weiBinnedFunc (h : Hist α) (bins : List (Int × Nat)) (mu : α) (p : Array α) : α :=
  let lambda := exp (p.getD 0 zero)
  let tau := exp (p.getD 1 zero)
  match bins.foldl (weiBinnedStep h mu lambda tau) (some zero) with
  | none => one / zero
  | some logL => Neg.neg logL

/-- `esl_wei_FitCompleteBinned()` → `(mu, lambda, tau)`; `tailfit` = `h->is_tailfit` (set by `esl_histogram_SetExpectedTail`, kept in the
    separate record `Expect` of `HistExpect.lean`) -/
def weiFitCompleteBinned (h : Hist α) (tailfit : Bool) : FitRes α :=
  match binRange h with
  | none => .fault
  | some bins =>
    let mu := if tailfit then h.phi else if h.isRounded then h.lbound h.imin else h.xmin
    let mean := bins.foldl (fun (acc : α) ic => acc + ofInt ic.2 * (h.lbound ic.1 + (0.5 : α) * h.w)) zero
    let mean := mean / ofInt h.no
    let lambda := one / (mean - mu)
    let tau : α := (0.9 : α)
    fit2Result mu (cgd (MinCfg.null : MinCfg α) (weiBinnedFunc h bins mu) none #[log lambda, log tau])

end EaselModel.Stats

namespace EaselModel.Stats
open Num
variable {α : Type} [Num α]

/-! ## gamma, binned (`esl_gam_FitCompleteBinned`: moments of the bin midpoints, then bracketing + bisection on `tau_function`) -/

/-- `tau_function()` (`esl_stats_Psi`'s status is ignored by the code; `tau > 0` on every path) -/
def tauFunction (tau mean logsum : α) : α :=
  let psitau := match psiSt tau with | some p => p | none => zero / zero
  ((log tau - psitau) - log mean) + logsum

/-- `tau_by_moments_binned()` over the bins `cmin+1..imax`: `none` = "No point can be < mu" → `(tau, mean, logsum)` -/
def tauByMomentsBinned (h : Hist α) (bins : List (Int × Nat)) (mu : α) : Option (α × α × α) :=
  let r := bins.foldl (fun (acc : Option (α × α × α × α)) (ic : Int × Nat) =>
    match acc with
    | none => none
    | some (sum, mean, var, logsum) =>
      if ic.2 == 0 then acc else
      let ai := h.lbound ic.1
      let bi := h.ubound ic.1
      let ci := ai + (0.5 : α) * (bi - ai)
      if ltb ci mu then none else
      let o : α := ofInt ic.2
      some (sum + o, mean + o * (ci - mu), var + o * (ci - mu) * (ci - mu),
            logsum + (if gtb ci mu then o * log (ci - mu) else zero))) (some (zero, zero, zero, zero))
  match r with
  | none => none
  | some (sum, mean, var, logsum) =>
    let var := if gtb sum one then (var - mean * mean / sum) / (sum - one) else zero
    let dv := if gtb sum zero then sum else one
    let mean := mean / dv
    let logsum := logsum / dv
    let tau := if ltb var (1e-6 : α) || eqb mean zero then one else mean * mean / var
    some (tau, mean, logsum)

/-- `for (i = 0; i < maxit; i++) { b = a*2; fb = f(b); if (fb < 0) break; a = b; }` → `(i, a, b)` -/
def gamBracketRight (f : α → α) : Nat → Nat → α → α → Nat × α × α
  | 0, i, a, b => (i, a, b)
  | k+1, i, a, _ =>
    let b := a * (2.0 : α)
    if ltb (f b) zero then (i, a, b) else gamBracketRight f k (i+1) b b

/-- `for (…) { a = b/2; fa = f(a); if (fa > 0) break; b = a; }` → `(i, a, b)` -/
def gamBracketLeft (f : α → α) : Nat → Nat → α → α → Nat × α × α
  | 0, i, a, b => (i, a, b)
  | k+1, i, _, b =>
    let a := b / (2.0 : α)
    if gtb (f a) zero then (i, a, b) else gamBracketLeft f k (i+1) a a

/-- the bisection loop → `(i, c)` -/
def gamBisect (f : α → α) : Nat → Nat → α → α → α → Nat × α
  | 0, i, _, _, c => (i, c)
  | k+1, i, a, b, _ =>
    let c := (a + b) / (2.0 : α)
    let fc := f c
    if gtb fc zero then
      let a := c
      if leb (b - a) (1e-6 : α) then (i, (a + b) / (2.0 : α)) else gamBisect f k (i+1) a b c
    else if ltb fc zero then
      let b := c
      if leb (b - a) (1e-6 : α) then (i, (a + b) / (2.0 : α)) else gamBisect f k (i+1) a b c
    else (i, c)

/-- `esl_gam_FitCompleteBinned()` → `(mu, lambda, tau)` -/
def gamFitCompleteBinned (h : Hist α) : FitRes α :=
  match h.datasetIs with
  | .trueCensored => .res .einval #[zero, zero, zero]            -- ESL_EXCEPTION: outputs untouched
  | ds =>
    let mu := match ds with
      | .complete => if h.isRounded then h.lbound h.imin else h.xmin
      | _ => h.phi
    -- bins cmin+1 .. imax
    match binRange { h with cmin := h.cmin + 1 } with
    | none => .fault
    | some bins =>
      match tauByMomentsBinned h bins mu with
      | none => .res .einval #[zero, zero, zero]                  -- (`status = (… != eslOK)`: the C code returns 1 = eslFAIL here; unreachable, see notes)
      | some (c, mean, logsum) =>
        if eqb c one then .res .ok #[mu, c / mean, c] else
        let f := fun t => tauFunction t mean logsum
        let fc := f c
        let brk : Option (α × α) :=
          if gtb fc zero then
            let (i, a, b) := gamBracketRight f 100 0 c c
            if i == 100 then none else some (a, b)
          else if ltb fc zero then
            let (i, a, b) := gamBracketLeft f 100 0 c c
            if i == 100 then none else some (a, b)
          else some (c, c)
        match brk with
        | none => .res .enohalt #[zero, zero, zero]
        | some (a, b) =>
          let (i, c) := gamBisect f 100 0 a b c
          if i == 100 then .res .enohalt #[zero, zero, zero] else
          .res .ok #[mu, (if gtb mean zero then c / mean else zero), c]

end EaselModel.Stats
