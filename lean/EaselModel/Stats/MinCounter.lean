import EaselModel.Stats.NumRat
import EaselModel.Stats.Rootfinder
/-! # Two facts about the solvers as coded, established by running the model in exact rational arithmetic (kernel evaluation) -/
namespace EaselModel.Stats

/-- "the minimiser answered eslOK with a value strictly above `f0`" -/
def cgWorse (r : MinRes ℚ) (f0 : ℚ) : Bool := match r with | .res .ok _ fx => decide (f0 < fx) | _ => false

/-- the needle `f(0) = 0`, `f(x) = 1 + 2x` for `x > 0`, `f(x) = 1 - x` for `x < 0` -/
noncomputable def needle1 : Array ℚ → ℚ := objNeedle #[1, 0, 1]

set_option maxRecDepth 100000 in
/-- **`esl_min_ConjugateGradientDescent` is not a descent method.** Default configuration, numeric gradient, exact arithmetic: started AT the
    global minimiser `x = 0` of the needle (`f(0) = 0`), it returns eslOK with `fx > 0`. (`bracket()` correctly reports the triplet with
    `bx = 0`, but `brent()` restarts from the golden-section point of `[ax, cx]` and never evaluates `bx` again.) The same happens bit-for-bit
    in the C code (corpus case `cgd-not-a-descent-method`: `fx = 1.0000000445`). -/
theorem cgd_needle_worse_than_start : cgWorse (cgd (MinCfg.null : MinCfg ℚ) needle1 none #[0]).1 (needle1 #[0]) = true := by
  decide +kernel

/-- `f(x) = x² - 2` -/
noncomputable def sq2 (x : ℚ) : ℚ := (rfPoly #[-2, 0, 1] x).1

/-- regression theorem for 8354c02 (before the repair the relative tolerance was multiplied by `x` instead of `|x|` and the first call below
    ran into eslENOHALT): `esl_root_Bisection` on `x² - 2`, exact arithmetic, default tolerances, converges on `[-3, -1]` as it does on `[1, 3]`;
    the two roots found are mirror images. -/
theorem bisection_negative_root_converges :
    (rootBisection (RootCfg.default : RootCfg ℚ) sq2 0 (-3) (-1)).st = .ok ∧
    (rootBisection (RootCfg.default : RootCfg ℚ) sq2 0 1 3).st = .ok ∧
    (rootBisection (RootCfg.default : RootCfg ℚ) sq2 0 (-3) (-1)).x = -(rootBisection (RootCfg.default : RootCfg ℚ) sq2 0 1 3).x := by
  decide +kernel

end EaselModel.Stats
