import EaselModel.Stats.FitReal
import EaselModel.Stats.MinReal
import EaselModel.Stats.HistCens
/-! # `esl_exp_FitCompleteBinned` returns THE maximiser of the binned exponential likelihood (C11, ℝ)

Counts `n_i` in bins `(a_i, a_i + δ]` of equal width `δ`, location `μ ≤ a_i`: the probability of bin `i` under the exponential law is
`exp(-λ(a_i-μ)) - exp(-λ(a_i+δ-μ))`, so the log-likelihood is `-λ·S + N·log(1 - exp(-λδ))` with `S = Σ n_i (a_i-μ)`, `N = Σ n_i`.
The code returns `λ = (1/δ)(log sb - log sa)`, `sa = S`, `sb = Σ n_i (a_i+δ-μ) = S + Nδ`. -/
namespace EaselModel.Stats
open Real

/-- binned exponential log-likelihood in closed form -/
noncomputable def llExpBinned (S N delta lam : ℝ) : ℝ := -lam * S + N * Real.log (1 - Real.exp (-lam * delta))

/-- per-bin form: `log(exp(-λ(a-μ)) - exp(-λ(a+δ-μ))) = -λ(a-μ) + log(1 - exp(-λδ))` -/
theorem log_bin_prob (a mu delta lam : ℝ) (hl : 0 < lam) (hd : 0 < delta) :
    Real.log (Real.exp (-lam * (a - mu)) - Real.exp (-lam * (a + delta - mu))) = -lam * (a - mu) + Real.log (1 - Real.exp (-lam * delta)) := by
  have h1 : Real.exp (-lam * (a + delta - mu)) = Real.exp (-lam * (a - mu)) * Real.exp (-lam * delta) := by
    rw [← Real.exp_add]; congr 1; ring
  have hlt : Real.exp (-lam * delta) < 1 := by
    have : -lam * delta < 0 := by nlinarith
    have h := Real.add_one_lt_exp (ne_of_gt (by nlinarith : (0:ℝ) < lam * delta))
    have h2 : Real.exp (-lam * delta) * Real.exp (lam * delta) = 1 := by rw [← Real.exp_add]; simp
    have hp := Real.exp_pos (-lam * delta)
    nlinarith
  rw [h1, show Real.exp (-lam * (a - mu)) - Real.exp (-lam * (a - mu)) * Real.exp (-lam * delta)
        = Real.exp (-lam * (a - mu)) * (1 - Real.exp (-lam * delta)) by ring,
      Real.log_mul (ne_of_gt (Real.exp_pos _)) (by linarith), Real.log_exp]

/-- Gibbs' inequality for two outcomes: `p log t + q log(1-t)` is largest at `t = p/(p+q)` -/
theorem two_point_gibbs (p q t : ℝ) (hp : 0 < p) (hq : 0 < q) (ht0 : 0 < t) (ht1 : t < 1) :
    p * Real.log t + q * Real.log (1 - t) ≤ p * Real.log (p / (p + q)) + q * Real.log (q / (p + q)) := by
  have hpq : 0 < p + q := by linarith
  have h1 := Real.log_le_sub_one_of_pos (div_pos ht0 (div_pos hp hpq))
  have h2 := Real.log_le_sub_one_of_pos (div_pos (by linarith : (0:ℝ) < 1 - t) (div_pos hq hpq))
  rw [Real.log_div (ne_of_gt ht0) (ne_of_gt (div_pos hp hpq))] at h1
  rw [Real.log_div (by linarith) (ne_of_gt (div_pos hq hpq))] at h2
  have e1 : p * (t / (p / (p + q)) - 1) = (p + q) * t - p := by field_simp
  have e2 : q * ((1 - t) / (q / (p + q)) - 1) = (p + q) * (1 - t) - q := by field_simp
  have m1 := mul_le_mul_of_nonneg_left h1 hp.le
  have m2 := mul_le_mul_of_nonneg_left h2 hq.le
  rw [e1] at m1; rw [e2] at m2
  nlinarith

/-- **the rate `esl_exp_FitCompleteBinned` computes maximises the binned exponential log-likelihood over all `λ > 0`** (`S, N, δ > 0`) -/
theorem exp_binned_rate_max (S N delta lam : ℝ) (hS : 0 < S) (hN : 0 < N) (hd : 0 < delta) (hl : 0 < lam) :
    llExpBinned S N delta lam ≤ llExpBinned S N delta (1 / delta * (Real.log (S + N * delta) - Real.log S)) := by
  unfold llExpBinned
  have hSN : 0 < S + N * delta := by positivity
  -- the optimum in the variable t = exp(-λδ)
  have hopt : Real.exp (-(1 / delta * (Real.log (S + N * delta) - Real.log S)) * delta) = S / (S + N * delta) := by
    have : -(1 / delta * (Real.log (S + N * delta) - Real.log S)) * delta = Real.log (S / (S + N * delta)) := by
      rw [Real.log_div (ne_of_gt hS) (ne_of_gt hSN)]; field_simp; ring
    rw [this, Real.exp_log (div_pos hS hSN)]
  rw [hopt]
  set t := Real.exp (-lam * delta) with ht
  have ht0 : 0 < t := Real.exp_pos _
  have ht1 : t < 1 := by
    have h := Real.add_one_lt_exp (ne_of_gt (by positivity : (0:ℝ) < lam * delta))
    have h2 : t * Real.exp (lam * delta) = 1 := by rw [ht, ← Real.exp_add]; simp
    have hld : 0 < lam * delta := by positivity
    by_contra hge
    have hge := not_lt.1 hge
    have := mul_le_mul_of_nonneg_right hge (le_of_lt (Real.exp_pos (lam * delta)))
    rw [h2] at this
    linarith
  have hg := two_point_gibbs (S / delta) N t (by positivity) hN ht0 ht1
  have e1 : -lam * S = S / delta * Real.log t := by rw [ht, Real.log_exp]; field_simp
  have e2 : -(1 / delta * (Real.log (S + N * delta) - Real.log S)) * S = S / delta * Real.log (S / delta / (S / delta + N)) := by
    have : S / delta / (S / delta + N) = S / (S + N * delta) := by field_simp
    rw [this, Real.log_div (ne_of_gt hS) (ne_of_gt hSN)]; field_simp; ring
  have e3 : 1 - S / (S + N * delta) = N / (S / delta + N) := by field_simp; ring
  rw [e1, e2, e3]
  exact hg

/-! ## the model's `expFitCompleteBinned` over ℝ -/

/-- `Σ_{j<k} obs[i+j] · f(i+j)` -/
noncomputable def wsum (obs : Array Nat) (f : Int → ℝ) : Nat → Int → ℝ
  | 0, _ => 0
  | k+1, i => (obsAt obs i : ℝ) * f i + wsum obs f k (i + 1)

theorem lbound_r (h : Hist ℝ) (i : Int) : h.lbound i = h.w * (i : ℝ) + h.bmin := rfl
theorem ubound_r (h : Hist ℝ) (i : Int) : h.ubound i = h.w * ((i : ℝ) + 1) + h.bmin := by
  unfold Hist.ubound; rw [ofInt_r]; push_cast; ring

theorem wsum_ubound (h : Hist ℝ) (mu : ℝ) : ∀ (k : Nat) (i : Int),
    wsum h.obs (fun j => h.ubound j - mu) k i = wsum h.obs (fun j => h.lbound j - mu) k i + h.w * wsum h.obs (fun _ => 1) k i := by
  intro k
  induction k with
  | zero => intro i; simp [wsum]
  | succ k ih => intro i; simp only [wsum]; rw [ih, lbound_r, ubound_r]; ring

/-- the occupied-bin loop inside the bins: no fault, the two weighted sums -/
theorem expBinnedSums_r (h : Hist ℝ) (mu : ℝ) : ∀ (k : Nat) (i : Int) (sa sb : ℝ), 0 ≤ i → i + k ≤ h.obs.size →
    expBinnedSums h mu k i sa sb = .val (sa + wsum h.obs (fun j => h.lbound j - mu) k i, sb + wsum h.obs (fun j => h.ubound j - mu) k i) := by
  intro k
  induction k with
  | zero => intro i sa sb _ _; simp [expBinnedSums, wsum]
  | succ k ih =>
    intro i sa sb h0 h1
    unfold expBinnedSums
    rw [getObs_val h.obs i h0 (by omega)]
    simp only []
    split
    · rename_i hz
      have hz' : obsAt h.obs i = 0 := by simpa using hz
      rw [ih (i + 1) sa sb (by omega) (by push_cast at h1 ⊢; omega)]
      simp only [wsum, hz', Nat.cast_zero, zero_mul, zero_add]
    · rw [ih (i + 1) _ _ (by omega) (by push_cast at h1 ⊢; omega)]
      simp only [wsum, ofInt_r, Int.cast_natCast]
      rw [add_assoc, add_assoc]

/-- **`esl_exp_FitCompleteBinned` = the maximiser of the binned likelihood.** ℝ; complete or virtually censored histogram whose evaluated bins
    `cmin..imax` lie inside `obs[]`; `S = Σ nᵢ(aᵢ-μ) > 0`, `N = Σ nᵢ > 0`, `w > 0`: the routine returns eslOK with the documented `μ` and
    `λ = (1/w)(log(S+Nw) - log S)`, and for EVERY `λ' > 0` the binned exponential log-likelihood `-λ'S + N log(1 - exp(-λ'w))` is not larger
    than at the returned `λ`. -/
theorem expFitCompleteBinned_max (h : Hist ℝ) (hds : h.datasetIs ≠ .trueCensored) (hc : 0 ≤ h.cmin) (hcn : h.cmin ≤ h.obs.size) (hi : h.imax < h.obs.size) (hw : 0 < h.w) :
    let mu := match h.datasetIs with | .complete => if h.isRounded then h.lbound h.imin else h.xmin | _ => h.phi
    let k := (h.imax - h.cmin + 1).toNat
    let S := wsum h.obs (fun j => h.lbound j - mu) k h.cmin
    let N := wsum h.obs (fun _ => 1) k h.cmin
    expFitCompleteBinned h = .res .ok #[mu, 1 / h.w * (Real.log (S + N * h.w) - Real.log S)] ∧
    (0 < S → 0 < N → ∀ lam' : ℝ, 0 < lam' → llExpBinned S N h.w lam' ≤ llExpBinned S N h.w (1 / h.w * (Real.log (S + N * h.w) - Real.log S))) := by
  simp only []
  constructor
  · unfold expFitCompleteBinned
    cases hd : h.datasetIs with
    | trueCensored => exact absurd hd hds
    | complete =>
      simp only []
      rw [expBinnedSums_r h _ _ h.cmin _ _ hc (by omega)]
      simp only [zero_r, zero_add, one_r, log_r]
      rw [wsum_ubound, mul_comm h.w]
    | virtualCensored =>
      simp only []
      rw [expBinnedSums_r h _ _ h.cmin _ _ hc (by omega)]
      simp only [zero_r, zero_add, one_r, log_r]
      rw [wsum_ubound, mul_comm h.w]
  · intro hS hN lam' hl
    exact exp_binned_rate_max _ _ _ lam' hS hN hw hl

end EaselModel.Stats
