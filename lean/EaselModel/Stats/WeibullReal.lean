import EaselModel.Stats.FitCG
import EaselModel.Stats.FitReal
import EaselModel.Stats.MinReal
/-! # The Weibull and gamma log-likelihoods over ℝ (C11)

`esl_wei_FitComplete` minimises `wei_func(p)`, `p = (w, v) = (log λ, log τ)`, with the location pinned to the smallest sample.
Here: what that objective is as a real function (`weiFunc_eq`), its partial derivatives (`llWei_hasDerivAt_w/_tau`), and the
reason a stationary point is THE maximum: in the variables `(τ, θ = τ·log λ)` the Weibull log-likelihood is concave, so it lies
below each of its tangent planes (`llWei_below_tangent`). For the gamma fit: `λ = τ/x̄` is the exact maximiser in `λ` for every `τ`,
and `gam_nll` is the negative profile log-likelihood per sample. Nothing is claimed about rounding (L0). -/
namespace EaselModel.Stats
open Real

/-- log-density of the Weibull law at a sample with `l = log(x - μ)`, in `w = log λ` and `τ`:
    `log τ + τ w + (τ-1) l - exp(τ (w + l))`  (= `log τ + τ log λ + (τ-1) log(x-μ) - (λ(x-μ))^τ`) -/
noncomputable def weiTerm (w tau l : ℝ) : ℝ := Real.log tau + tau * w + (tau - 1) * l - Real.exp (tau * (w + l))

/-- Weibull log-likelihood of the samples with logs `ls` -/
noncomputable def llWei (ls : List ℝ) (w tau : ℝ) : ℝ := (ls.map (weiTerm w tau)).sum

/-- `∂/∂w` of `llWei` -/
noncomputable def llWeiDw (ls : List ℝ) (w tau : ℝ) : ℝ := (ls.map (fun l => tau - tau * Real.exp (tau * (w + l)))).sum
/-- `∂/∂τ` of `llWei` -/
noncomputable def llWeiDtau (ls : List ℝ) (w tau : ℝ) : ℝ := (ls.map (fun l => 1 / tau + w + l - (w + l) * Real.exp (tau * (w + l)))).sum
/-- the slopes of the tangent plane in the concave variables `(τ, θ = τ w)` -/
noncomputable def llWeiGtheta (ls : List ℝ) (w tau : ℝ) : ℝ := (ls.map (fun l => 1 - Real.exp (tau * (w + l)))).sum
noncomputable def llWeiGtau (ls : List ℝ) (w tau : ℝ) : ℝ := (ls.map (fun l => 1 / tau + l - l * Real.exp (tau * (w + l)))).sum

theorem hasDerivAt_list_sum {β : Type} (l : List β) (F : β → ℝ → ℝ) (F' : β → ℝ) (x : ℝ)
    (h : ∀ b ∈ l, HasDerivAt (F b) (F' b) x) : HasDerivAt (fun y => (l.map (fun b => F b y)).sum) (l.map F').sum x := by
  induction l with
  | nil => simpa using hasDerivAt_const x (0 : ℝ)
  | cons a t ih =>
    simp only [List.map_cons, List.sum_cons]
    exact (h a (List.mem_cons_self)).add (ih (fun b hb => h b (List.mem_cons_of_mem _ hb)))

theorem weiTerm_hasDerivAt_w (w tau l : ℝ) :
    HasDerivAt (fun w => weiTerm w tau l) (tau - tau * Real.exp (tau * (w + l))) w := by
  unfold weiTerm
  have h1 : HasDerivAt (fun w : ℝ => tau * (w + l)) tau w := by
    simpa using ((hasDerivAt_id w).add_const l).const_mul tau
  have h2 : HasDerivAt (fun w : ℝ => Real.exp (tau * (w + l))) (Real.exp (tau * (w + l)) * tau) w := h1.exp
  have h3 : HasDerivAt (fun w : ℝ => Real.log tau + tau * w + (tau - 1) * l) tau w := by
    simpa using (((hasDerivAt_id w).const_mul tau).const_add (Real.log tau)).add_const ((tau - 1) * l)
  exact (h3.sub h2).congr_deriv (by ring)

theorem weiTerm_hasDerivAt_tau (w tau l : ℝ) (ht : 0 < tau) :
    HasDerivAt (fun t => weiTerm w t l) (1 / tau + w + l - (w + l) * Real.exp (tau * (w + l))) tau := by
  unfold weiTerm
  have h0 : HasDerivAt (fun t : ℝ => Real.log t) (1 / tau) tau := by simpa using Real.hasDerivAt_log (ne_of_gt ht)
  have h1 : HasDerivAt (fun t : ℝ => t * (w + l)) (w + l) tau := by simpa using (hasDerivAt_id tau).mul_const (w + l)
  have h2 : HasDerivAt (fun t : ℝ => Real.exp (t * (w + l))) (Real.exp (tau * (w + l)) * (w + l)) tau := h1.exp
  have h3 : HasDerivAt (fun t : ℝ => t * w) w tau := by simpa using (hasDerivAt_id tau).mul_const w
  have h4 : HasDerivAt (fun t : ℝ => (t - 1) * l) l tau := by simpa using ((hasDerivAt_id tau).sub_const 1).mul_const l
  exact (((h0.add h3).add h4).sub h2).congr_deriv (by ring)

/-- **`llWeiDw` and `llWeiDtau` ARE the partial derivatives of the Weibull log-likelihood** -/
theorem llWei_hasDerivAt_w (ls : List ℝ) (w tau : ℝ) : HasDerivAt (fun w => llWei ls w tau) (llWeiDw ls w tau) w :=
  hasDerivAt_list_sum ls (fun l w => weiTerm w tau l) _ w (fun l _ => weiTerm_hasDerivAt_w w tau l)

theorem llWei_hasDerivAt_tau (ls : List ℝ) (w tau : ℝ) (ht : 0 < tau) : HasDerivAt (fun t => llWei ls w t) (llWeiDtau ls w tau) tau :=
  hasDerivAt_list_sum ls (fun l t => weiTerm w t l) _ tau (fun l _ => weiTerm_hasDerivAt_tau w tau l ht)

/-- one sample: the log-density lies below its tangent plane in `(τ, θ = τ w)` -/
theorem weiTerm_below_tangent (w tau l w' tau' : ℝ) (ht : 0 < tau) (ht' : 0 < tau') :
    weiTerm w' tau' l ≤ weiTerm w tau l + (1 / tau + l - l * Real.exp (tau * (w + l))) * (tau' - tau)
      + (1 - Real.exp (tau * (w + l))) * (tau' * w' - tau * w) := by
  unfold weiTerm
  have hlog : Real.log tau' ≤ Real.log tau + (tau' - tau) / tau := by
    have h := Real.log_le_sub_one_of_pos (div_pos ht' ht)
    rw [Real.log_div (ne_of_gt ht') (ne_of_gt ht)] at h
    have : tau' / tau - 1 = (tau' - tau) / tau := by field_simp
    linarith
  have hexp : Real.exp (tau * (w + l)) * (1 + (tau' * (w' + l) - tau * (w + l))) ≤ Real.exp (tau' * (w' + l)) := by
    have h := Real.add_one_le_exp (tau' * (w' + l) - tau * (w + l))
    have hpos := Real.exp_pos (tau * (w + l))
    have : Real.exp (tau' * (w' + l)) = Real.exp (tau * (w + l)) * Real.exp (tau' * (w' + l) - tau * (w + l)) := by
      rw [← Real.exp_add]; congr 1; ring
    rw [this]
    exact mul_le_mul_of_nonneg_left (by linarith) hpos.le
  have e : (tau' - tau) / tau = (1 / tau) * (tau' - tau) := by ring
  nlinarith [hlog, hexp]

theorem list_sum_le_of_forall {β : Type} (l : List β) (F G : β → ℝ) (h : ∀ b ∈ l, F b ≤ G b) : (l.map F).sum ≤ (l.map G).sum := by
  induction l with
  | nil => simp
  | cons a t ih =>
    simp only [List.map_cons, List.sum_cons]
    exact add_le_add (h a List.mem_cons_self) (ih (fun b hb => h b (List.mem_cons_of_mem _ hb)))

theorem list_sum_affine (l : List ℝ) (F G H : ℝ → ℝ) (a b : ℝ) :
    (l.map (fun x => F x + G x * a + H x * b)).sum = (l.map F).sum + (l.map G).sum * a + (l.map H).sum * b := by
  induction l with
  | nil => simp
  | cons x t ih => simp only [List.map_cons, List.sum_cons, ih]; ring

/-- **The Weibull log-likelihood lies below each of its tangent planes in `(τ, θ = τ·log λ)`** (it is jointly concave there), any data. -/
theorem llWei_below_tangent (ls : List ℝ) (w tau w' tau' : ℝ) (ht : 0 < tau) (ht' : 0 < tau') :
    llWei ls w' tau' ≤ llWei ls w tau + llWeiGtau ls w tau * (tau' - tau) + llWeiGtheta ls w tau * (tau' * w' - tau * w) := by
  unfold llWei llWeiGtau llWeiGtheta
  rw [← list_sum_affine]
  exact list_sum_le_of_forall ls _ _ (fun l _ => weiTerm_below_tangent w tau l w' tau' ht ht')

/-- the tangent slopes in terms of the partial derivatives in the optimiser's variables -/
theorem llWei_slopes (ls : List ℝ) (w tau : ℝ) :
    llWeiDw ls w tau = tau * llWeiGtheta ls w tau ∧ llWeiDtau ls w tau = llWeiGtau ls w tau + w * llWeiGtheta ls w tau := by
  unfold llWeiDw llWeiDtau llWeiGtau llWeiGtheta
  induction ls with
  | nil => simp
  | cons l t ih =>
    simp only [List.map_cons, List.sum_cons]
    obtain ⟨i1, i2⟩ := ih
    constructor
    · rw [i1]; ring
    · rw [i2]; ring

/-- **A stationary point of the Weibull log-likelihood is its global maximiser** (any data, `τ > 0`): if both partial derivatives
    vanish at `(w, τ)` — in `(log λ, τ)` or, equivalently, in the optimiser's `(log λ, log τ)` — then `logL(w', τ') ≤ logL(w, τ)` for
    every `w'` and every `τ' > 0`. More generally the shortfall is bounded by the derivative: an a-posteriori optimality certificate. -/
theorem llWei_near_optimal (ls : List ℝ) (w tau w' tau' : ℝ) (ht : 0 < tau) (ht' : 0 < tau') :
    llWei ls w' tau' ≤ llWei ls w tau + (llWeiDtau ls w tau - w * (llWeiDw ls w tau / tau)) * (tau' - tau)
      + (llWeiDw ls w tau / tau) * (tau' * w' - tau * w) := by
  obtain ⟨e1, e2⟩ := llWei_slopes ls w tau
  have hG : llWeiGtheta ls w tau = llWeiDw ls w tau / tau := by rw [e1]; field_simp
  have hT : llWeiGtau ls w tau = llWeiDtau ls w tau - w * (llWeiDw ls w tau / tau) := by rw [e2, ← hG]; ring
  have := llWei_below_tangent ls w tau w' tau' ht ht'
  rw [hT, hG] at this
  exact this

theorem llWei_stationary_is_max (ls : List ℝ) (w tau : ℝ) (ht : 0 < tau) (hw : llWeiDw ls w tau = 0) (hτ : llWeiDtau ls w tau = 0)
    (w' tau' : ℝ) (ht' : 0 < tau') : llWei ls w' tau' ≤ llWei ls w tau := by
  have := llWei_near_optimal ls w tau w' tau' ht ht'
  rw [hw, hτ] at this
  simpa using this

/-- strict version: away from the tangency point the log-density is strictly below the tangent plane -/
theorem weiTerm_below_tangent_strict (w tau l w' tau' : ℝ) (ht : 0 < tau) (ht' : 0 < tau') (hne : tau' ≠ tau ∨ w' ≠ w) :
    weiTerm w' tau' l < weiTerm w tau l + (1 / tau + l - l * Real.exp (tau * (w + l))) * (tau' - tau)
      + (1 - Real.exp (tau * (w + l))) * (tau' * w' - tau * w) := by
  unfold weiTerm
  have hlog : Real.log tau' ≤ Real.log tau + (tau' - tau) / tau := by
    have h := Real.log_le_sub_one_of_pos (div_pos ht' ht)
    rw [Real.log_div (ne_of_gt ht') (ne_of_gt ht)] at h
    have : tau' / tau - 1 = (tau' - tau) / tau := by field_simp
    linarith
  have hpos := Real.exp_pos (tau * (w + l))
  have hsplit : Real.exp (tau' * (w' + l)) = Real.exp (tau * (w + l)) * Real.exp (tau' * (w' + l) - tau * (w + l)) := by
    rw [← Real.exp_add]; congr 1; ring
  have hexp : Real.exp (tau * (w + l)) * (1 + (tau' * (w' + l) - tau * (w + l))) ≤ Real.exp (tau' * (w' + l)) := by
    have h := Real.add_one_le_exp (tau' * (w' + l) - tau * (w + l))
    rw [hsplit]; exact mul_le_mul_of_nonneg_left (by linarith) hpos.le
  have e : (tau' - tau) / tau = (1 / tau) * (tau' - tau) := by ring
  by_cases hτ : tau' = tau
  · -- then w' ≠ w: the exponential inequality is strict
    have hw : w' ≠ w := by rcases hne with h | h; exact absurd hτ h; exact h
    have hd : tau' * (w' + l) - tau * (w + l) ≠ 0 := by
      rw [hτ]; intro h0
      have : tau * (w' - w) = 0 := by linarith
      rcases mul_eq_zero.1 this with h1 | h1
      · exact absurd h1 (ne_of_gt ht)
      · exact hw (by linarith)
    have hexp' : Real.exp (tau * (w + l)) * (1 + (tau' * (w' + l) - tau * (w + l))) < Real.exp (tau' * (w' + l)) := by
      have h := Real.add_one_lt_exp hd
      rw [hsplit]; exact mul_lt_mul_of_pos_left (by linarith) hpos
    nlinarith [hlog, hexp']
  · -- the logarithm inequality is strict
    have hlog' : Real.log tau' < Real.log tau + (tau' - tau) / tau := by
      have hr : tau' / tau ≠ 1 := by
        intro h1; apply hτ; field_simp at h1; linarith
      have h := Real.log_lt_sub_one_of_pos (div_pos ht' ht) hr
      rw [Real.log_div (ne_of_gt ht') (ne_of_gt ht)] at h
      have : tau' / tau - 1 = (tau' - tau) / tau := by field_simp
      linarith
    nlinarith [hlog', hexp]

theorem list_sum_lt_of_forall {β : Type} (l : List β) (hl : l ≠ []) (F G : β → ℝ) (h : ∀ b ∈ l, F b < G b) : (l.map F).sum < (l.map G).sum := by
  induction l with
  | nil => exact absurd rfl hl
  | cons a t ih =>
    simp only [List.map_cons, List.sum_cons]
    by_cases ht : t = []
    · subst ht; simpa using h a List.mem_cons_self
    · exact add_lt_add (h a List.mem_cons_self) (ih ht (fun b hb => h b (List.mem_cons_of_mem _ hb)))

/-- **the Weibull maximiser is unique**: with at least one sample above `mu`, a stationary point beats EVERY other admissible point strictly -/
theorem llWei_stationary_unique (ls : List ℝ) (hls : ls ≠ []) (w tau : ℝ) (ht : 0 < tau) (hw : llWeiDw ls w tau = 0) (hτ : llWeiDtau ls w tau = 0)
    (w' tau' : ℝ) (ht' : 0 < tau') (hne : tau' ≠ tau ∨ w' ≠ w) : llWei ls w' tau' < llWei ls w tau := by
  obtain ⟨e1, e2⟩ := llWei_slopes ls w tau
  have hG : llWeiGtheta ls w tau = 0 := by
    rw [hw] at e1; rcases mul_eq_zero.1 e1.symm with h | h
    · exact absurd h (ne_of_gt ht)
    · exact h
  have hT : llWeiGtau ls w tau = 0 := by rw [hτ, hG] at e2; linarith
  have hlt : llWei ls w' tau' < llWei ls w tau + llWeiGtau ls w tau * (tau' - tau) + llWeiGtheta ls w tau * (tau' * w' - tau * w) := by
    unfold llWei llWeiGtau llWeiGtheta
    rw [← list_sum_affine]
    exact list_sum_lt_of_forall ls hls _ _ (fun l _ => weiTerm_below_tangent_strict w tau l w' tau' ht ht' hne)
  rw [hG, hT] at hlt
  simpa using hlt

/-! ## `wei_func` over ℝ is `-llWei` -/

/-- `esl_wei_logpdf(x, mu, exp w, τ)` for `x > mu` -/
theorem weiLogpdf_r (x mu w tau : ℝ) (hx : mu < x) :
    weiLogpdf x mu (Real.exp w) tau = weiTerm w tau (Real.log (x - mu)) := by
  unfold weiLogpdf weiTerm
  have h1 : Num.ltb x mu = false := by rw [Bool.eq_false_iff]; intro h; rw [ltb_r] at h; linarith
  have h2 : Num.eqb x mu = false := by rw [Bool.eq_false_iff]; intro h; rw [eqb_r] at h; linarith
  simp only [h1, h2, Bool.false_and, Bool.false_eq_true, if_false, log_r, exp_r, one_r]
  have hpos : 0 < x - mu := by linarith
  rw [Real.log_mul (ne_of_gt (Real.exp_pos w)) (ne_of_gt hpos), Real.log_exp]

/-- **`wei_func(p)` as a real function.** Data `≥ mu`, `τ = exp v ≠ 1` (the samples equal to `mu` are skipped — the code's own convention):
    the objective handed to the optimiser is minus the Weibull log-likelihood of the samples above `mu`, in `w = p[0] = log λ`, `τ = exp p[1]`. -/
theorem weiFunc_eq (xs : Array ℝ) (mu w v : ℝ) (hmu : ∀ x ∈ xs.toList, mu ≤ x) (hv : Real.exp v ≠ 1) :
    weiFunc xs mu #[w, v] = -(llWei ((xs.toList.filter (fun x => decide (x ≠ mu))).map (fun x => Real.log (x - mu))) w (Real.exp v)) := by
  unfold weiFunc llWei
  have h1 : Num.eqb (Real.exp v) (Num.one : ℝ) = false := by
    rw [Bool.eq_false_iff]; intro h; rw [eqb_r, one_r] at h; exact hv h
  have g0 : (#[w, v] : Array ℝ).getD 0 Num.zero = w := rfl
  have g1 : (#[w, v] : Array ℝ).getD 1 Num.zero = v := rfl
  simp only [g0, g1, exp_r, h1, Bool.not_false, Bool.true_and]
  congr 1
  rw [← Array.foldl_toList, zero_r]
  generalize xs.toList = l at hmu
  suffices h : ∀ (acc : ℝ), l.foldl (fun acc x => if Num.eqb x mu = true then acc else acc + weiLogpdf x mu (Real.exp w) (Real.exp v)) acc
      = acc + (((l.filter (fun x => decide (x ≠ mu))).map (fun x => Real.log (x - mu))).map (weiTerm w (Real.exp v))).sum by
    simpa using h 0
  induction l with
  | nil => intro acc; simp
  | cons a t ih =>
    intro acc
    have hmu' : ∀ x ∈ t, mu ≤ x := fun x hx => hmu x (List.mem_cons_of_mem _ hx)
    simp only [List.foldl_cons]
    by_cases ha : a = mu
    · have : Num.eqb a mu = true := by rw [eqb_r]; exact ha
      simp only [this, if_true]
      rw [ih hmu' acc]
      simp [ha]
    · have : Num.eqb a mu = false := by rw [Bool.eq_false_iff]; intro h; rw [eqb_r] at h; exact ha h
      simp only [this, Bool.false_eq_true, if_false]
      rw [ih hmu' _]
      have hlt : mu < a := lt_of_le_of_ne (hmu a List.mem_cons_self) (Ne.symm ha)
      rw [weiLogpdf_r a mu w (Real.exp v) hlt]
      simp [ha, add_assoc]

/-- the parameters `esl_wei_FitComplete` / `esl_sxp_FitComplete` hand back are positive whatever the optimiser did: `λ = exp p[0]`, `τ = exp p[1]` -/
theorem fit2Result_pos (mu : ℝ) (r : MinRes ℝ × StopWhy) (st : St) (ps : Array ℝ) (h : fit2Result mu r = .res st ps) :
    ps.size = 3 ∧ ps.getD 0 0 = mu ∧ 0 < ps.getD 1 0 ∧ 0 < ps.getD 2 0 := by
  unfold fit2Result at h
  split at h
  · cases h
  · simp only [FitRes.res.injEq] at h
    rw [← h.2]
    refine ⟨rfl, rfl, ?_, ?_⟩
    · show 0 < Real.exp _; exact Real.exp_pos _
    · show 0 < Real.exp _; exact Real.exp_pos _

/-! ## gamma -/

/-- per-sample gamma log-likelihood for known location: `τ log λ - logΓ(τ) + (τ-1)·mean(log(x-μ)) - λ·mean(x-μ)`; `lg` stands for `logΓ(τ)` -/
noncomputable def llGam1 (xbar logxbar lg lam tau : ℝ) : ℝ := tau * Real.log lam - lg + (tau - 1) * logxbar - lam * xbar

/-- **for every shape `τ > 0`, `λ = τ/x̄` is THE maximiser of the gamma log-likelihood in `λ`** (`x̄ = mean(x - μ) > 0`) -/
theorem gamma_rate_max (xbar logxbar lg tau lam : ℝ) (hx : 0 < xbar) (ht : 0 < tau) (hl : 0 < lam) :
    llGam1 xbar logxbar lg lam tau ≤ llGam1 xbar logxbar lg (tau / xbar) tau ∧
    (llGam1 xbar logxbar lg lam tau = llGam1 xbar logxbar lg (tau / xbar) tau → lam = tau / xbar) := by
  obtain ⟨h1, h2⟩ := exp_rate_max tau xbar lam ht hx hl
  unfold llGam1
  constructor
  · linarith
  · intro h; apply h2; linarith

/-- `gam_nll(τ)` — the function whose decrease `gam_fitting_engine` tests — is minus that profile log-likelihood -/
theorem gamNll_is_profile (xbar logxbar tau : ℝ) (hx : 0 < xbar) (ht : 0 < tau) :
    gamNll xbar logxbar tau = some (-(llGam1 xbar logxbar (logGamma tau) (tau / xbar) tau)) := by
  unfold gamNll logGammaSt llGam1
  have h : Num.leb tau (Num.zero : ℝ) = false := by
    rw [Bool.eq_false_iff]; intro h; rw [leb_r, zero_r] at h; linarith
  simp only [h, Bool.false_eq_true, if_false, log_r, one_r]
  congr 2
  rw [Real.log_div (ne_of_gt ht) (ne_of_gt hx)]
  field_simp

end EaselModel.Stats
