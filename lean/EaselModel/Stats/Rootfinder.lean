import EaselModel.Stats.Minimizer
/-! # Executable model of `esl_rootfinder.c` (C11, kind H)

`esl_rootfinder_Create/CreateFDF` (defaults), `SetBrackets`, `esl_root_Bisection`, `esl_root_NewtonRaphson`, line by line over the
numeric class `Num`, the function whose root is sought being a parameter. The caller-supplied function always answers `eslOK`
(its failure codes are passed through unchanged by the C code and are not modelled). `R->iter` is NOT reset by the solvers
(it is set to 0 by `Create` only): a second call on the same object continues counting; the model takes the counter as an argument.
The loops are `while (1)` with the cap `R->iter > R->max_iter`; the model recurses on the number of rounds left. Core Lean only. -/
namespace EaselModel.Stats
open Num

variable {α : Type} [Num α]

/-- the tunable part of `ESL_ROOTFINDER` -/
structure RootCfg (α : Type) where
  absTol : α
  relTol : α
  residTol : α
  maxIter : Int

/-- `esl_rootfinder_Create()`: `abs_tolerance = rel_tolerance = 1e-12`, `residual_tol = 0.`, `max_iter = 100` -/
def RootCfg.default : RootCfg α := { absTol := (1e-12 : α), relTol := (1e-12 : α), residTol := zero, maxIter := 100 }

/-- `esl_rootfinder_CreateFDF()`: the same with `abs_tolerance = rel_tolerance = 1e-15` -/
def RootCfg.defaultFDF : RootCfg α := { absTol := (1e-15 : α), relTol := (1e-15 : α), residTol := zero, maxIter := 100 }

/-- what a solver leaves behind: status, `*ret_x`, `R->iter`, and the final bracket `R->xl, R->xr` (bisection) -/
structure RootRes (α : Type) where
  st : St
  x : α
  iter : Int
  xl : α
  xr : α

/-- the step threshold of `esl_root_Bisection()`: `abs_tolerance + rel_tolerance*fabs(xmag)`, `xmag = (xl < 0. && xr > 0.) ? 0. : x`
    (`fabs` since 8354c02; before, a negative root made the threshold negative and the solver ran into eslENOHALT) -/
def bisTol (cfg : RootCfg α) (xl xr x : α) : α :=
  let xmag := if ltb xl zero && gtb xr zero then zero else x
  cfg.absTol + cfg.relTol * abs xmag

/-- the step threshold of `esl_root_NewtonRaphson()`: `abs_tolerance + rel_tolerance*fabs(x)` (8354c02) -/
def newtonTol (cfg : RootCfg α) (x : α) : α := cfg.absTol + cfg.relTol * abs x

/-- the `while (1)` of `esl_root_Bisection()`; `k` = rounds left before `R->iter > R->max_iter` -/
def bisectionLoop (cfg : RootCfg α) (f : α → α) : Nat → Int → α → α → α → α → RootRes α
  | 0, iter, xl, xr, _, _ => { st := .enohalt, x := zero, iter := iter + 1, xl := xl, xr := xr }   -- `goto ERROR`: `*ret_x = 0.0`
  | k+1, iter, xl, xr, fl, fr =>
    let iter := iter + 1
    let x := (xl + xr) / (2.0 : α)
    let fx := f x
    if eqb fx zero then { st := .ok, x := x, iter := iter, xl := xl, xr := xr } else
    if ltb (xr - xl) (bisTol cfg xl xr x) || ltb (abs fx) cfg.residTol then
      { st := .ok, x := x, iter := iter, xl := xl, xr := xr } else
    if gtb fl zero then
      if gtb fx zero then bisectionLoop cfg f k iter x xr fx fr else bisectionLoop cfg f k iter xl x fl fx
    else
      if ltb fx zero then bisectionLoop cfg f k iter x xr fx fr else bisectionLoop cfg f k iter xl x fl fx

/-- `esl_root_Bisection(R, xl, xr, &x)` with `R->iter = iter0` on entry -/
def rootBisection (cfg : RootCfg α) (f : α → α) (iter0 : Int) (xl xr : α) : RootRes α :=
  let fl := f xl
  let fr := f xr
  -- `esl_rootfinder_SetBrackets()`: `if (R->fl * R->fr >= 0) ESL_EXCEPTION(eslEINVAL, …)`
  if geb (fl * fr) zero then { st := .einval, x := zero, iter := iter0, xl := xl, xr := xr } else
  bisectionLoop cfg f (cfg.maxIter - iter0).toNat iter0 xl xr fl fr

/-- the `while (1)` of `esl_root_NewtonRaphson()`; on `eslENOHALT` the C code returns without touching `*ret_x`
    (the model reports `R->x`, the last iterate, there); `xl` of the result is `R->x0`, the previous iterate -/
def newtonRootLoop (cfg : RootCfg α) (fdf : α → α × α) : Nat → Int → α → α → α → α → RootRes α
  | 0, iter, x0, x, _, _ => { st := .enohalt, x := x, iter := iter + 1, xl := x0, xr := x }
  | k+1, iter, _, x, fx, dfx =>
    let iter := iter + 1
    let x0 := x
    let x := x - fx / dfx
    let (fx, dfx) := fdf x
    if eqb fx zero then { st := .ok, x := x, iter := iter, xl := x0, xr := x } else
    if ltb (abs (x - x0)) (newtonTol cfg x) || ltb (abs fx) cfg.residTol then
      { st := .ok, x := x, iter := iter, xl := x0, xr := x }
    else newtonRootLoop cfg fdf k iter x0 x fx dfx

/-- `esl_root_NewtonRaphson(R, guess, &x)` with `R->iter = iter0`, `R->x0 = x0` on entry -/
def rootNewton (cfg : RootCfg α) (fdf : α → α × α) (iter0 : Int) (x0 guess : α) : RootRes α :=
  let (fx, dfx) := fdf guess
  newtonRootLoop cfg fdf (cfg.maxIter - iter0).toNat iter0 x0 guess fx dfx

/-! ## objective families shared by the driver and the harness (same operation order on both sides) -/

/-- `((c3*x + c2)*x + c1)*x + c0` and its derivative `(3.0*c3*x + 2.0*c2)*x + c1` -/
def rfPoly (c : Array α) (x : α) : α × α :=
  let c0 := c.getD 0 zero; let c1 := c.getD 1 zero; let c2 := c.getD 2 zero; let c3 := c.getD 3 zero
  (((c3 * x + c2) * x + c1) * x + c0, ((3.0 : α) * c3 * x + (2.0 : α) * c2) * x + c1)

/-- `exp(c1*x) - c0`, derivative `c1*exp(c1*x)` -/
def rfExp (c : Array α) (x : α) : α × α :=
  let c0 := c.getD 0 zero; let c1 := c.getD 1 zero
  (exp (c1 * x) - c0, c1 * exp (c1 * x))

/-- `log(x) - c0` (NaN left of 0), derivative `1./x` -/
def rfLog (c : Array α) (x : α) : α × α := (log x - c.getD 0 zero, one / x)

def rootFamily (fam : String) (c : Array α) : Option (α → α × α) :=
  match fam with
  | "poly" => some (rfPoly c)
  | "exp" => some (rfExp c)
  | "log" => some (rfLog c)
  | _ => none

/-- `Σ a_i (x_i - b_i)(x_i - b_i)` (the unit-test function of `esl_minimizer.c`), `p = a ++ b` -/
def objQuad (p x : Array α) : α :=
  let n := x.size
  (List.range n).foldl (fun acc i => acc + p.getD i zero * (x.getD i zero - p.getD (n + i) zero) * (x.getD i zero - p.getD (n + i) zero)) zero

/-- its gradient `2 a_i (x_i - b_i)` -/
def objQuadGrad (p x : Array α) : Array α :=
  let n := x.size
  (Array.range n).map fun i => (2.0 : α) * p.getD i zero * (x.getD i zero - p.getD (n + i) zero)

/-- Rosenbrock in two variables: `t1*t1 + p0*t2*t2`, `t1 = 1 - x0`, `t2 = x1 - x0*x0` -/
def objRosen (p x : Array α) : α :=
  let t1 := one - x.getD 0 zero
  let t2 := x.getD 1 zero - x.getD 0 zero * x.getD 0 zero
  t1 * t1 + p.getD 0 zero * t2 * t2

/-- `Σ exp(a_i x_i) - b_i x_i` (smooth, convex, not quadratic) -/
def objExpLin (p x : Array α) : α :=
  let n := x.size
  (List.range n).foldl (fun acc i => acc + (exp (p.getD i zero * x.getD i zero) - p.getD (n + i) zero * x.getD i zero)) zero

/-- `Σ x_i - a_i log(x_i)` (NaN as soon as a coordinate is negative) -/
def objLogBar (p x : Array α) : α :=
  (List.range x.size).foldl (fun acc i => acc + (x.getD i zero - p.getD i zero * log (x.getD i zero))) zero

/-- a needle: `Σ (x_i > b_i ? 2 a_i (x_i - b_i) : a_i (b_i - x_i))`, plus `p[2n]` unless `x = b` exactly -/
def objNeedle (p x : Array α) : α :=
  let n := x.size
  let s := (List.range n).foldl (fun acc i =>
    let xi := x.getD i zero; let ai := p.getD i zero; let bi := p.getD (n + i) zero
    acc + (if gtb xi bi then (2.0 : α) * ai * (xi - bi) else ai * (bi - xi))) zero
  if (List.range n).all (fun i => eqb (x.getD i zero) (p.getD (n + i) zero)) then s else s + p.getD (2 * n) zero

def objFamily (fam : String) (p : Array α) : Option ((Array α → α) × Option (Array α → Array α)) :=
  match fam with
  | "quad" => some (objQuad p, some (objQuadGrad p))
  | "rosen" => some (objRosen p, none)
  | "explin" => some (objExpLin p, none)
  | "logbar" => some (objLogBar p, none)
  | "needle" => some (objNeedle p, none)
  | _ => none

end EaselModel.Stats
