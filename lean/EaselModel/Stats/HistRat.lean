import EaselModel.Stats.NumRat
/-! # The histogram accounts for every value exactly once (C11, over ℚ)

Invariant `Accounts h vs`: `h` is what results from accepting exactly the values `vs` (most recent first).
It is established by `Create`, preserved by every `Add` (however often the bins had to grow, in either direction),
and it determines every count, the bookkeeping fields and the raw-data vector. -/
namespace EaselModel.Stats

/-- `h` accounts for the accepted values `vs` -/
structure Accounts (h : Hist ℚ) (vs : List ℚ) : Prop where
  wf : h.WF
  idx : IdxOK h
  wpos : 0 < h.w
  /-- for EVERY integer `i` (bins that do not exist count as 0): the count of bin `i` is the number of accepted values in
      the half-open interval `(bmin + i·w, bmin + (i+1)·w]` -/
  counts : ∀ i : Int, obsAt h.obs i = vs.countP (fun x => decide (inBin h.bmin h.w i x))
  n : h.n = vs.length
  tot : total h.obs = vs.length
  /-- `imin`/`imax`: nothing is counted outside `imin..imax`, and both ends are occupied once there is data -/
  below : ∀ i : Int, i < h.imin → obsAt h.obs i = 0
  above : ∀ i : Int, h.imax < i → obsAt h.obs i = 0
  occ : vs ≠ [] → 0 < obsAt h.obs h.imin ∧ 0 < obsAt h.obs h.imax
  sent : vs = [] → h.imin = h.nb ∧ h.imax = -1
  /-- `xmin`/`xmax` are the smallest/largest accepted value (sentinels `±DBL_MAX` when empty) -/
  xlo : ∀ v ∈ vs, h.xmin ≤ v ∧ v ≤ h.xmax
  xmem : vs ≠ [] → h.xmin ∈ vs ∧ h.xmax ∈ vs
  xempty : vs = [] → h.xmin = dblMaxQ ∧ h.xmax = -dblMaxQ
  fin : ∀ v ∈ vs, |v| ≤ dblMaxQ
  /-- a full histogram holds exactly the accepted values (as a multiset; `sort` may have permuted them) -/
  raw : h.isFull = true → h.x.toList.Perm vs

theorem bmin_shift (bmin w : ℚ) (k : Nat) :
    (if k = 0 then bmin else bmin - Num.ofInt (k : Int) * w) = bmin - (k : ℚ) * w := by
  split <;> simp_all

theorem inBin_shift (bmin w : ℚ) (k : Nat) (j : Int) (x : ℚ) :
    inBin (bmin - (k : ℚ) * w) w j x ↔ inBin bmin w (j - k) x := by
  unfold inBin
  have e1 : bmin - (k : ℚ) * w + (j : ℚ) * w = bmin + ((j - (k : Int) : Int) : ℚ) * w := by push_cast; ring
  have e2 : bmin - (k : ℚ) * w + ((j : ℚ) + 1) * w = bmin + (((j - (k : Int) : Int) : ℚ) + 1) * w := by push_cast; ring
  rw [e1, e2]

/-- **one `Add`**: either it is refused and nothing that is counted changes, or it is accepted and the histogram
    accounts for one more value — `Add` never faults. -/
theorem add_accounts (h : Hist ℚ) (vs : List ℚ) (acc : Accounts h vs) (v : ℚ) :
    ∃ st h', h.add v = .val (st, h') ∧
      ((st = .ok ∧ Accounts h' (v :: vs)) ∨ (st ≠ .ok ∧ Accounts h' vs ∧ SameData h h')) := by
  obtain ⟨st, h', e, wf', hcase⟩ := add_spec h acc.wf acc.idx v
  refine ⟨st, h', e, ?_⟩
  rcases hcase with ⟨hne, sd⟩ | ⟨hok, _, b, k, hs, a⟩
  · right
    obtain ⟨s1, s2, s3, s4, s5, s6, s7, s8, s9, s10, s11, s12, s13⟩ := sd
    refine ⟨hne, ?_, s1, s2, s3, s4, s5, s6, s7, s8, s9, s10, s11, s12, s13⟩
    have idx' : IdxOK h' := by unfold IdxOK; rw [s9, s10, s2]; exact acc.idx
    exact ⟨wf', idx', by rw [s3]; exact acc.wpos, by rw [s1, s4, s3]; exact acc.counts, by rw [s6]; exact acc.n,
      by rw [s1]; exact acc.tot, by rw [s1, s9]; exact acc.below, by rw [s1, s10]; exact acc.above,
      by rw [s1, s9, s10]; exact acc.occ, by rw [s9, s10, s2]; exact acc.sent, by rw [s11, s12]; exact acc.xlo, by rw [s11, s12]; exact acc.xmem,
      by rw [s11, s12]; exact acc.xempty, acc.fin, by rw [s8, s7]; exact acc.raw⟩
  · left
    refine ⟨hok, ?_⟩
    -- the bin of v
    have hsb := score2bin_q h acc.wpos v
    simp only at hsb
    rcases hsb with ⟨hs', hin, hfin, _, _⟩ | ⟨hs', _⟩
    swap
    · rw [hs] at hs'; cases hs'
    have hb : b = ⌈(v - h.bmin) / h.w - 1⌉ := by rw [hs] at hs'; injection hs' with _ t
    rw [← hb] at hin
    have hbmin : h'.bmin = h.bmin - (k : ℚ) * h.w := by rw [a.bmin, bmin_shift]
    have hobs : ∀ j : Int, obsAt h'.obs j = obsAt h.obs (j - k) + if j - k = b then 1 else 0 := by
      intro j; have := a.obs (j - k); rw [show j - (k : Int) + k = j by omega] at this; exact this
    have hcount : ∀ j : Int, obsAt h'.obs j = (v :: vs).countP (fun x => decide (inBin h'.bmin h'.w j x)) := by
      intro j
      rw [hobs j, acc.counts (j - k), List.countP_cons, hbmin, a.w]
      have e1 : List.countP (fun x => decide (inBin (h.bmin - (k : ℚ) * h.w) h.w j x)) vs =
                List.countP (fun x => decide (inBin h.bmin h.w (j - k) x)) vs := by
        apply List.countP_congr; intro x _; simp only [decide_eq_true_eq]; exact inBin_shift _ _ _ _ _
      rw [e1]
      congr 1
      by_cases hj : j - (k : Int) = b
      · rw [if_pos hj, if_pos]
        simp only [decide_eq_true_eq]; rw [inBin_shift, hj]; exact hin
      · rw [if_neg hj, if_neg]
        simp only [decide_eq_true_eq]; rw [inBin_shift]
        intro hc; exact hj (inBin_unique acc.wpos hc hin)
    -- index bookkeeping
    have hb0 : 0 ≤ b + k := by
      have := a.obs b; simp only [if_true] at this
      by_contra hc
      rw [obsAt_neg _ (by omega)] at this; omega
    have hidx' : IdxOK h' := by
      unfold IdxOK; right
      have hsz := a.wf.size
      have hbk : b + k < h'.nb := by
        have := a.obs b; simp only [if_true] at this
        by_contra hc
        rw [obsAt_ge _ (by omega)] at this; omega
      rw [a.imin, a.imax]
      rcases acc.idx with ⟨i1, i2⟩ | ⟨i1, i2, i3⟩
      · simp only [i1, i2, true_or, if_true]; omega
      · have := a.nbk
        split <;> split <;> omega
    -- the two states of the index bookkeeping
    have hstate : (vs = [] ∧ h.imin = h.nb ∧ h.imax = -1) ∨ (vs ≠ [] ∧ 0 ≤ h.imin ∧ h.imin ≤ h.imax ∧ h.imax < h.nb) := by
      by_cases hvs : vs = []
      · exact Or.inl ⟨hvs, acc.sent hvs⟩
      · right
        obtain ⟨o1, o2⟩ := acc.occ hvs
        rcases acc.idx with ⟨i1, i2⟩ | ⟨i1, i2, i3⟩
        · exfalso; rw [acc.above h.imin (by have := acc.wf.nb_pos; omega)] at o1; omega
        · exact ⟨hvs, i1, i2, i3⟩
    have himin' : h'.imin = if h.imin = h.nb ∨ b < h.imin then b + k else h.imin + k := a.imin
    have himax' : h'.imax = if h.imax = -1 ∨ b > h.imax then b + k else h.imax + k := a.imax
    have hbelow : ∀ i : Int, i < h'.imin → obsAt h'.obs i = 0 := by
      intro i hi
      rw [hobs i]
      rcases hstate with ⟨hvs, i1, i2⟩ | ⟨hvs, i1, i2, i3⟩
      · rw [himin', if_pos (Or.inl i1)] at hi
        rw [if_neg (by omega), acc.counts, hvs]; rfl
      · have hne : h.imin ≠ h.nb := by omega
        by_cases hlt : b < h.imin
        · rw [himin', if_pos (Or.inr hlt)] at hi
          rw [if_neg (by omega), acc.below _ (by omega)]
        · rw [himin', if_neg (by intro hc; rcases hc with hc | hc <;> omega)] at hi
          rw [if_neg (by omega), acc.below _ (by omega)]
    have habove : ∀ i : Int, h'.imax < i → obsAt h'.obs i = 0 := by
      intro i hi
      rw [hobs i]
      rcases hstate with ⟨hvs, i1, i2⟩ | ⟨hvs, i1, i2, i3⟩
      · rw [himax', if_pos (Or.inl i2)] at hi
        rw [if_neg (by omega), acc.counts, hvs]; rfl
      · have hne : h.imax ≠ -1 := by omega
        by_cases hgt : b > h.imax
        · rw [himax', if_pos (Or.inr hgt)] at hi
          rw [if_neg (by omega), acc.above _ (by omega)]
        · rw [himax', if_neg (by intro hc; rcases hc with hc | hc <;> omega)] at hi
          rw [if_neg (by omega), acc.above _ (by omega)]
    have hocc : 0 < obsAt h'.obs h'.imin ∧ 0 < obsAt h'.obs h'.imax := by
      rcases hstate with ⟨hvs, i1, i2⟩ | ⟨hvs, i1, i2, i3⟩
      · rw [himin', himax', if_pos (Or.inl i1), if_pos (Or.inl i2), hobs]
        simp
      · obtain ⟨o1, o2⟩ := acc.occ hvs
        constructor
        · by_cases hlt : b < h.imin
          · rw [himin', if_pos (Or.inr hlt), hobs]; simp
          · rw [himin', if_neg (by intro hc; rcases hc with hc | hc <;> omega), hobs]
            simp only [Int.add_sub_cancel]; omega
        · by_cases hgt : b > h.imax
          · rw [himax', if_pos (Or.inr hgt), hobs]; simp
          · rw [himax', if_neg (by intro hc; rcases hc with hc | hc <;> omega), hobs]
            simp only [Int.add_sub_cancel]; omega
    -- xmin / xmax
    have hxmin' : h'.xmin = if v < h.xmin then v else h.xmin := by
      rw [a.xmin]; by_cases c : v < h.xmin
      · rw [if_pos c, if_pos ((ltb_q _ _).2 c)]
      · rw [if_neg c, if_neg (by rw [ltb_q]; exact c)]
    have hxmax' : h'.xmax = if h.xmax < v then v else h.xmax := by
      rw [a.xmax]; by_cases c : h.xmax < v
      · rw [if_pos c, if_pos ((gtb_q _ _).2 c)]
      · rw [if_neg c, if_neg (by rw [gtb_q]; exact c)]
    have hvabs := abs_le.1 hfin
    have hxlo : ∀ u ∈ v :: vs, h'.xmin ≤ u ∧ u ≤ h'.xmax := by
      intro u hu
      rw [hxmin', hxmax']
      rcases List.mem_cons.1 hu with rfl | hu
      · constructor
        · split <;> [exact le_refl _; exact not_lt.1 ‹_›]
        · split <;> [exact le_refl _; exact not_lt.1 ‹_›]
      · obtain ⟨l1, l2⟩ := acc.xlo u hu
        constructor
        · split <;> [exact le_trans (le_of_lt ‹_›) l1; exact l1]
        · split <;> [exact le_trans l2 (le_of_lt ‹_›); exact l2]
    have hxmem : h'.xmin ∈ v :: vs ∧ h'.xmax ∈ v :: vs := by
      rw [hxmin', hxmax']
      by_cases hvs : vs = []
      · obtain ⟨e1, e2⟩ := acc.xempty hvs
        rw [e1, e2]
        constructor
        · split
          · exact List.mem_cons_self
          · have : v = dblMaxQ := le_antisymm hvabs.2 (not_lt.1 ‹_›)
            rw [← this]; exact List.mem_cons_self
        · split
          · exact List.mem_cons_self
          · have : v = -dblMaxQ := le_antisymm (not_lt.1 ‹_›) hvabs.1
            rw [← this]; exact List.mem_cons_self
      · obtain ⟨m1, m2⟩ := acc.xmem hvs
        constructor
        · split <;> [exact List.mem_cons_self; exact List.mem_cons_of_mem _ m1]
        · split <;> [exact List.mem_cons_self; exact List.mem_cons_of_mem _ m2]
    have hraw : h'.isFull = true → h'.x.toList.Perm (v :: vs) := by
      intro hf
      rw [a.full] at hf
      rw [a.x, if_pos hf, Array.toList_push]
      exact (List.perm_append_comm.trans (List.Perm.cons v (List.Perm.refl _))).trans (List.Perm.cons v (acc.raw hf))
    have hfin' : ∀ u ∈ v :: vs, |u| ≤ dblMaxQ := by
      intro u hu
      rcases List.mem_cons.1 hu with rfl | hu
      · exact hfin
      · exact acc.fin u hu
    exact {
      wf := a.wf, idx := hidx', wpos := by rw [a.w]; exact acc.wpos, counts := hcount
      n := by rw [a.n, acc.n]; rfl
      tot := by rw [a.tot, acc.tot]; rfl
      below := hbelow, above := habove, occ := fun _ => hocc
      sent := fun hc => by cases hc
      xlo := hxlo, xmem := fun _ => hxmem
      xempty := fun hc => by cases hc
      fin := hfin', raw := hraw }

end EaselModel.Stats

namespace EaselModel.Stats

theorem obsAt_replicate_zero (k : Nat) (i : Int) : obsAt (Array.replicate k 0) i = 0 := by
  unfold obsAt; split
  · rw [Array.getElem?_replicate]; split <;> rfl
  · rfl

theorem total_replicate_zero (k : Nat) : total (Array.replicate k 0) = 0 := by
  unfold total; rw [Array.toList_replicate]; exact sum_replicate_zero k

/-- `esl_histogram_Create` / `CreateFull` with a positive width give a histogram that accounts for no value -/
theorem create_accounts (bmin bmax w : ℚ) (hw : 0 < w) (h : Hist ℚ)
    (hc : Hist.create bmin bmax w = .val (some h) ∨ Hist.createFull bmin bmax w = .val (some h)) :
    Accounts h [] ∧ h.w = w ∧ h.bmin = bmin ∧ h.isDone = false := by
  have key : ∀ h0 : Hist ℚ, Hist.create bmin bmax w = .val (some h0) →
      (Accounts h0 [] ∧ h0.w = w ∧ h0.bmin = bmin ∧ h0.isDone = false) ∧ h0.isFull = false ∧ h0.x = #[] := by
    intro h0 e
    unfold Hist.create at e
    simp only [] at e
    split at e
    · cases e
    · split at e
      · cases e
      · split at e
        · cases e
        · rename_i hfin hr hpos
          injection e with e; injection e with e; subst e
          have hr' := (inIntRange_iff _).1 (by simpa using hr)
          have hpos' : 0 < Num.toInt ((bmax - bmin) / w) := by omega
          refine ⟨⟨?_, rfl, rfl, rfl⟩, rfl, rfl⟩
          exact {
            wf := ⟨by simp only [Array.size_replicate]; omega, hpos', (by show Num.toInt ((bmax - bmin) / w) ≤ INT_MAX; unfold INT_MAX; omega),
                   (fun hc => by cases hc), (fun hc => by cases hc)⟩
            idx := Or.inl ⟨rfl, rfl⟩, wpos := hw
            counts := fun i => by rw [obsAt_replicate_zero]; rfl
            n := rfl, tot := total_replicate_zero _
            below := fun i _ => obsAt_replicate_zero _ i, above := fun i _ => obsAt_replicate_zero _ i
            occ := fun hc => absurd rfl hc, sent := fun _ => ⟨rfl, rfl⟩
            xlo := fun v hv => by cases hv
            xmem := fun hc => absurd rfl hc, xempty := fun _ => ⟨rfl, rfl⟩
            fin := fun v hv => by cases hv
            raw := fun hc => by cases hc }
  rcases hc with hc | hc
  · exact (key h hc).1
  · unfold Hist.createFull at hc
    split at hc
    · cases hc
    · cases hc
    · rename_i h0 e0
      injection hc with hc; injection hc with hc; subst hc
      obtain ⟨⟨acc, e1, e2, e3⟩, _, ex⟩ := key h0 e0
      refine ⟨?_, e1, e2, e3⟩
      exact {
        wf := ⟨acc.wf.size, acc.wf.nb_pos, acc.wf.nb_le, (fun _ => by show 0 ≤ 128 ∧ 0 < 128; omega), (fun _ => by show h0.x.size = 0; rw [ex]; rfl)⟩
        idx := acc.idx, wpos := acc.wpos, counts := acc.counts, n := rfl, tot := acc.tot
        below := acc.below, above := acc.above, occ := acc.occ, sent := acc.sent
        xlo := acc.xlo, xmem := acc.xmem, xempty := acc.xempty, fin := acc.fin
        raw := fun _ => by show h0.x.toList.Perm []; rw [ex] }

/-- any sequence of `Add` calls; returns the final histogram and the accepted values (most recent first) -/
noncomputable def Hist.addMany (h : Hist ℚ) (acc : List ℚ) : List ℚ → Out (Hist ℚ × List ℚ)
  | [] => .val (h, acc)
  | x :: xs =>
    match h.add x with
    | .fault => .fault
    | .val (st, h') => Hist.addMany h' (if st = .ok then x :: acc else acc) xs

/-- **any number of `Add`s** (refused ones included, growth in either direction any number of times):
    never a fault, and the result accounts for exactly the accepted values -/
theorem addMany_accounts (xs : List ℚ) : ∀ (h : Hist ℚ) (vs : List ℚ), Accounts h vs →
    ∃ h' vs', Hist.addMany h vs xs = .val (h', vs') ∧ Accounts h' vs' ∧ h'.w = h.w ∧
      (∃ k : Nat, h'.bmin = h.bmin - (k : ℚ) * h.w) ∧ vs'.length ≤ vs.length + xs.length := by
  induction xs with
  | nil => intro h vs a; exact ⟨h, vs, rfl, a, rfl, ⟨0, by simp⟩, by simp⟩
  | cons x xs ih =>
    intro h vs a
    obtain ⟨st, h1, e, hcase⟩ := add_accounts h vs a x
    simp only [Hist.addMany, e]
    rcases hcase with ⟨hok, a1⟩ | ⟨hne, a1, sd⟩
    · subst hok
      obtain ⟨h2, vs2, e2, a2, w2, ⟨k2, b2⟩, l2⟩ := ih h1 (x :: vs) a1
      simp only [if_true]
      obtain ⟨_, _, e', _, hc⟩ := add_spec h a.wf a.idx x
      rw [e] at e'; injection e' with e'; injection e' with e1 e2'; subst e1; subst e2'
      rcases hc with ⟨hc, _⟩ | ⟨_, _, b, k, _, ao⟩
      · exact absurd rfl hc
      · refine ⟨h2, vs2, e2, a2, by rw [w2, ao.w], ⟨k2 + k, ?_⟩, by simp at l2 ⊢; omega⟩
        rw [b2, ao.w, ao.bmin, bmin_shift]; push_cast; ring
    · obtain ⟨h2, vs2, e2, a2, w2, ⟨k2, b2⟩, l2⟩ := ih h1 vs a1
      rw [if_neg hne]
      obtain ⟨_, _, s3, s4, _⟩ := sd
      exact ⟨h2, vs2, e2, a2, by rw [w2, s3], ⟨k2, by rw [b2, s3, s4]⟩, by simp at l2 ⊢; omega⟩

end EaselModel.Stats
