import EaselModel.Stats.HistQuery
/-! # Censoring declarations agree with the raw data (C11, over ℚ) -/
namespace EaselModel.Stats

/-- `Σ_{j<k} obs[lo+j]` -/
def binSum (obs : Array Nat) (lo : Int) : Nat → Nat
  | 0 => 0
  | k+1 => obsAt obs lo + binSum obs (lo + 1) k

theorem getObs_val (obs : Array Nat) (i : Int) (h0 : 0 ≤ i) (h1 : i < obs.size) : getObs obs i = .val (obsAt obs i) := by
  have hb : i.toNat < obs.size := by omega
  unfold getObs obsAt
  rw [if_pos ⟨h0, hb⟩, if_pos h0, Array.getD_eq_getD_getElem?]

/-- the checked scan `for (b = lo; b < lo+k; b++) z += obs[b]` inside the bins: no fault, the plain sum -/
theorem sumObs_eq (obs : Array Nat) : ∀ (k : Nat) (lo : Int) (acc : Nat), 0 ≤ lo → lo + k ≤ obs.size →
    sumObs obs lo k acc = .val (acc + binSum obs lo k) := by
  intro k
  induction k with
  | zero => intro lo acc _ _; simp [sumObs, binSum]
  | succ k ih =>
    intro lo acc h0 h1
    unfold sumObs binSum
    rw [getObs_val obs lo h0 (by omega)]
    simp only []
    rw [ih (lo + 1) (acc + obsAt obs lo) (by omega) (by push_cast at h1 ⊢; omega)]
    congr 1; omega

/-- adjacent half-open intervals glue -/
theorem countP_glue (l : List ℚ) (a b c : ℚ) (hab : a < b) (hbc : b ≤ c) :
    l.countP (fun x => decide (a < x ∧ x ≤ b)) + l.countP (fun x => decide (b < x ∧ x ≤ c)) =
    l.countP (fun x => decide (a < x ∧ x ≤ c)) := by
  induction l with
  | nil => simp
  | cons v t ih =>
    simp only [List.countP_cons]
    have key : (if decide (a < v ∧ v ≤ b) = true then 1 else 0) + (if decide (b < v ∧ v ≤ c) = true then 1 else 0) =
               (if decide (a < v ∧ v ≤ c) = true then 1 else 0) := by
      by_cases c1 : v ≤ b
      · by_cases c0 : a < v
        · have p1 : (a < v ∧ v ≤ b) := ⟨c0, c1⟩
          have p2 : ¬ (b < v ∧ v ≤ c) := fun hh => absurd hh.1 (not_lt.2 c1)
          have p3 : (a < v ∧ v ≤ c) := ⟨c0, le_trans c1 hbc⟩
          simp [p1, p2, p3]
        · have p1 : ¬ (a < v ∧ v ≤ b) := fun hh => c0 hh.1
          have p2 : ¬ (b < v ∧ v ≤ c) := fun hh => absurd hh.1 (not_lt.2 c1)
          have p3 : ¬ (a < v ∧ v ≤ c) := fun hh => c0 hh.1
          simp [p1, p2, p3]
      · have c1' := not_le.1 c1
        have p1 : ¬ (a < v ∧ v ≤ b) := fun hh => c1 hh.2
        by_cases c2 : v ≤ c
        · have p2 : (b < v ∧ v ≤ c) := ⟨c1', c2⟩
          have p3 : (a < v ∧ v ≤ c) := ⟨lt_trans hab c1', c2⟩
          simp [p1, p2, p3]
        · have p2 : ¬ (b < v ∧ v ≤ c) := fun hh => c2 hh.2
          have p3 : ¬ (a < v ∧ v ≤ c) := fun hh => c2 hh.2
          simp [p1, p2, p3]
    omega

/-- the values counted in bins `lo .. lo+k-1` are those in `(bmin + lo·w, bmin + (lo+k)·w]` -/
theorem binSum_counts (h : Hist ℚ) (vs : List ℚ) (acc : Accounts h vs) : ∀ (k : Nat) (lo : Int),
    binSum h.obs lo k = vs.countP (fun x => decide (h.bmin + lo * h.w < x ∧ x ≤ h.bmin + (lo + k) * h.w)) := by
  intro k
  induction k with
  | zero =>
    intro lo
    simp only [binSum, Nat.cast_zero, add_zero]
    symm; rw [List.countP_eq_zero]
    intro x _; simp only [decide_eq_true_eq]; intro ⟨a, b⟩; exact absurd a (not_lt.2 b)
  | succ k ih =>
    intro lo
    unfold binSum
    rw [acc.counts lo, ih (lo + 1)]
    have hw := acc.wpos
    have e1 : h.bmin + ((lo + 1 : Int) : ℚ) * h.w = h.bmin + ((lo : ℚ) + 1) * h.w := by push_cast; ring
    have e2 : h.bmin + (((lo + 1 : Int) : ℚ) + (k : ℚ)) * h.w = h.bmin + ((lo : ℚ) + ((k + 1 : Nat) : ℚ)) * h.w := by push_cast; ring
    rw [e1, e2]
    have hk : h.bmin + ((lo : ℚ) + 1) * h.w ≤ h.bmin + ((lo : ℚ) + ((k + 1 : Nat) : ℚ)) * h.w := by
      have : (0 : ℚ) ≤ (k : ℚ) := by positivity
      push_cast; nlinarith
    have hl : h.bmin + (lo : ℚ) * h.w < h.bmin + ((lo : ℚ) + 1) * h.w := by nlinarith
    exact countP_glue vs _ _ _ hl hk

end EaselModel.Stats
