import EaselModel.Stats.HistQuery
/-! # Censoring declarations agree with the raw data (C11, over ℚ) -/
namespace EaselModel.Stats

/-- `Σ_{j<k} obs[lo+j]` -/
def binSum (obs : Array Nat) (lo : Int) : Nat → Nat
  | 0 => 0
  | k+1 => obsAt obs lo + binSum obs (lo + 1) k

theorem getObs_val (obs : Array Nat) (i : Int) (h0 : 0 ≤ i) (h1 : i < obs.size) : getObs obs i = .val (obsAt obs i) := by
  have hb : i.toNat < obs.size := by omega
  unfold getObs obsAt
  rw [if_pos ⟨h0, hb⟩, if_pos h0, Array.getD_eq_getD_getElem?]

/-- the checked scan `for (b = lo; b < lo+k; b++) z += obs[b]` inside the bins: no fault, the plain sum -/
theorem sumObs_eq (obs : Array Nat) : ∀ (k : Nat) (lo : Int) (acc : Nat), 0 ≤ lo → lo + k ≤ obs.size →
    sumObs obs lo k acc = .val (acc + binSum obs lo k) := by
  intro k
  induction k with
  | zero => intro lo acc _ _; simp [sumObs, binSum]
  | succ k ih =>
    intro lo acc h0 h1
    unfold sumObs binSum
    rw [getObs_val obs lo h0 (by omega)]
    simp only []
    rw [ih (lo + 1) (acc + obsAt obs lo) (by omega) (by push_cast at h1 ⊢; omega)]
    congr 1; omega

/-- adjacent half-open intervals glue -/
theorem countP_glue (l : List ℚ) (a b c : ℚ) (hab : a < b) (hbc : b ≤ c) :
    l.countP (fun x => decide (a < x ∧ x ≤ b)) + l.countP (fun x => decide (b < x ∧ x ≤ c)) =
    l.countP (fun x => decide (a < x ∧ x ≤ c)) := by
  induction l with
  | nil => simp
  | cons v t ih =>
    simp only [List.countP_cons]
    have key : (if decide (a < v ∧ v ≤ b) = true then 1 else 0) + (if decide (b < v ∧ v ≤ c) = true then 1 else 0) =
               (if decide (a < v ∧ v ≤ c) = true then 1 else 0) := by
      by_cases c1 : v ≤ b
      · by_cases c0 : a < v
        · have p1 : (a < v ∧ v ≤ b) := ⟨c0, c1⟩
          have p2 : ¬ (b < v ∧ v ≤ c) := fun hh => absurd hh.1 (not_lt.2 c1)
          have p3 : (a < v ∧ v ≤ c) := ⟨c0, le_trans c1 hbc⟩
          simp [p1, p2, p3]
        · have p1 : ¬ (a < v ∧ v ≤ b) := fun hh => c0 hh.1
          have p2 : ¬ (b < v ∧ v ≤ c) := fun hh => absurd hh.1 (not_lt.2 c1)
          have p3 : ¬ (a < v ∧ v ≤ c) := fun hh => c0 hh.1
          simp [p1, p2, p3]
      · have c1' := not_le.1 c1
        have p1 : ¬ (a < v ∧ v ≤ b) := fun hh => c1 hh.2
        by_cases c2 : v ≤ c
        · have p2 : (b < v ∧ v ≤ c) := ⟨c1', c2⟩
          have p3 : (a < v ∧ v ≤ c) := ⟨lt_trans hab c1', c2⟩
          simp [p1, p2, p3]
        · have p2 : ¬ (b < v ∧ v ≤ c) := fun hh => c2 hh.2
          have p3 : ¬ (a < v ∧ v ≤ c) := fun hh => c2 hh.2
          simp [p1, p2, p3]
    omega

/-- the values counted in bins `lo .. lo+k-1` are those in `(bmin + lo·w, bmin + (lo+k)·w]` -/
theorem binSum_counts (h : Hist ℚ) (vs : List ℚ) (acc : Accounts h vs) : ∀ (k : Nat) (lo : Int),
    binSum h.obs lo k = vs.countP (fun x => decide (h.bmin + lo * h.w < x ∧ x ≤ h.bmin + (lo + k) * h.w)) := by
  intro k
  induction k with
  | zero =>
    intro lo
    simp only [binSum, Nat.cast_zero, add_zero]
    symm; rw [List.countP_eq_zero]
    intro x _; simp only [decide_eq_true_eq]; intro ⟨a, b⟩; exact absurd a (not_lt.2 b)
  | succ k ih =>
    intro lo
    unfold binSum
    rw [acc.counts lo, ih (lo + 1)]
    have hw := acc.wpos
    have e1 : h.bmin + ((lo + 1 : Int) : ℚ) * h.w = h.bmin + ((lo : ℚ) + 1) * h.w := by push_cast; ring
    have e2 : h.bmin + (((lo + 1 : Int) : ℚ) + (k : ℚ)) * h.w = h.bmin + ((lo : ℚ) + ((k + 1 : Nat) : ℚ)) * h.w := by push_cast; ring
    rw [e1, e2]
    have hk : h.bmin + ((lo : ℚ) + 1) * h.w ≤ h.bmin + ((lo : ℚ) + ((k + 1 : Nat) : ℚ)) * h.w := by
      have : (0 : ℚ) ≤ (k : ℚ) := by positivity
      push_cast; nlinarith
    have hl : h.bmin + (lo : ℚ) * h.w < h.bmin + ((lo : ℚ) + 1) * h.w := by nlinarith
    exact countP_glue vs _ _ _ hl hk

end EaselModel.Stats

namespace EaselModel.Stats

/-- every rational lies in the bin `⌈(x-bmin)/w - 1⌉` (for `w > 0`) -/
theorem inBin_ceil (bmin w : ℚ) (hw : 0 < w) (x : ℚ) : inBin bmin w ⌈(x - bmin) / w - 1⌉ x := by
  have hb1 : (x - bmin) / w - 1 ≤ (⌈(x - bmin) / w - 1⌉ : ℚ) := Int.le_ceil _
  have hb2 : (⌈(x - bmin) / w - 1⌉ : ℚ) < (x - bmin) / w - 1 + 1 := Int.ceil_lt_add_one _
  unfold inBin
  have e : x - bmin = (x - bmin) / w * w := by field_simp
  constructor <;> nlinarith

/-- every accepted value sits in a bin between `imin` and `imax`, hence in `(bmin + imin·w, bmin + (imax+1)·w]` -/
theorem value_range (h : Hist ℚ) (vs : List ℚ) (acc : Accounts h vs) (v : ℚ) (hv : v ∈ vs) :
    h.bmin + h.imin * h.w < v ∧ v ≤ h.bmin + (h.imax + 1) * h.w := by
  have hw := acc.wpos
  have hin := inBin_ceil h.bmin h.w hw v
  set i := ⌈(v - h.bmin) / h.w - 1⌉
  have hc : 0 < obsAt h.obs i := by
    rw [acc.counts i]
    exact List.countP_pos_iff.2 ⟨v, hv, by simpa using hin⟩
  have h1 : h.imin ≤ i := by
    by_contra hlt; rw [acc.below i (by omega)] at hc; exact absurd hc (lt_irrefl 0)
  have h2 : i ≤ h.imax := by
    by_contra hgt; rw [acc.above i (by omega)] at hc; exact absurd hc (lt_irrefl 0)
  unfold inBin at hin
  have a1 : (h.imin : ℚ) ≤ i := by exact_mod_cast h1
  have a2 : (i : ℚ) ≤ h.imax := by exact_mod_cast h2
  constructor
  · nlinarith [hin.1]
  · nlinarith [hin.2]

/-- **`esl_histogram_DeclareCensoring(z, phi)`** on data `vs ≠ []`: eslEINVAL (nothing changes) exactly when some observed value is
    below `phi`... i.e. when `phi` exceeds the smallest raw value; otherwise eslOK with `z` censored, `Nc = n + z`, `No = n`,
    the stated `phi`, and the histogram finished. -/
theorem declareCensoring_spec (h : Hist ℚ) (vs : List ℚ) (acc : Accounts h vs) (hne : vs ≠ []) (z : Int) (hz : 0 ≤ z) (phi : ℚ) :
    ((∃ v ∈ vs, v < phi) → h.declareCensoring z phi = (.einval, h)) ∧
    ((∀ v ∈ vs, phi ≤ v) → ∃ h', h.declareCensoring z phi = (.ok, h') ∧ h'.z = z.toNat ∧ h'.nc = vs.length + z.toNat ∧
        h'.no = vs.length ∧ h'.phi = phi ∧ h'.isDone = true ∧ h'.datasetIs = .trueCensored ∧ h'.obs = h.obs ∧ h'.cmin = h.imin) := by
  obtain ⟨m1, _⟩ := acc.xmem hne
  constructor
  · intro ⟨v, hv, hlt⟩
    unfold Hist.declareCensoring
    have : Num.gtb phi h.xmin = true := (gtb_q _ _).2 (lt_of_le_of_lt (acc.xlo v hv).1 hlt)
    rw [if_pos this]
  · intro hall
    unfold Hist.declareCensoring
    have : ¬ Num.gtb phi h.xmin = true := by rw [gtb_q]; exact not_lt.2 (hall _ m1)
    rw [if_neg this]
    exact ⟨_, rfl, rfl, by show h.n + z.toNat = _; rw [acc.n], by show h.n = _; rw [acc.n], rfl, rfl, rfl, rfl, rfl⟩

end EaselModel.Stats

namespace EaselModel.Stats

@[simp] theorem eqb_q (a b : ℚ) : (Num.eqb a b = true) ↔ a = b := by simp [Num.eqb]

theorem lbound_q (h : Hist ℚ) (i : Int) : h.lbound i = h.bmin + i * h.w := by
  unfold Hist.lbound; simp only [ofInt_q]; ring

theorem ubound_q (h : Hist ℚ) (i : Int) : h.ubound i = h.bmin + (i + 1) * h.w := by
  unfold Hist.ubound; simp only [ofInt_q]; push_cast; ring

/-- the index bookkeeping is in one of two states -/
theorem idx_state (h : Hist ℚ) (vs : List ℚ) (acc : Accounts h vs) :
    (vs = [] ∧ h.imin = h.nb ∧ h.imax = -1) ∨ (vs ≠ [] ∧ 0 ≤ h.imin ∧ h.imin ≤ h.imax ∧ h.imax < h.nb) := by
  by_cases hvs : vs = []
  · exact Or.inl ⟨hvs, acc.sent hvs⟩
  · right
    obtain ⟨o1, _⟩ := acc.occ hvs
    rcases acc.idx with ⟨i1, i2⟩ | ⟨i1, i2, i3⟩
    · exfalso; rw [acc.above h.imin (by have := acc.wf.nb_pos; omega)] at o1; omega
    · exact ⟨hvs, i1, i2, i3⟩

/-- **`esl_histogram_SetTail(phi)`** (finite `phi` whose bin number fits an `int`): no fault; the threshold actually used is the bin
    boundary `bmin + k·w` with `phi - w < bmin + k·w ≤ phi`; `cmin = max(k, 0)`; and the censoring agrees with the raw data:
    `z` = the number of accepted values `≤` that threshold, `No = n - z`, `Nc = n`; counts untouched; histogram finished. -/
theorem setTail_spec (h : Hist ℚ) (vs : List ℚ) (acc : Accounts h vs) (phi : ℚ) (hfin : |phi| ≤ dblMaxQ)
    (hr : -2147483648 ≤ ⌈(phi - h.bmin) / h.w - 1⌉ ∧ ⌈(phi - h.bmin) / h.w - 1⌉ < 2147483647) :
    ∃ h' mass k, h.setTail phi = .val (.ok, h', mass) ∧ h'.phi = h.bmin + (k : Int) * h.w ∧ h'.phi ≤ phi ∧ phi - h'.phi < h.w ∧
      h'.cmin = max k 0 ∧ h'.z = vs.countP (fun x => decide (x ≤ h'.phi)) ∧ h'.no = vs.length - h'.z ∧ h'.nc = vs.length ∧
      h'.obs = h.obs ∧ h'.isDone = true ∧ h'.datasetIs = .virtualCensored := by
  have hw := acc.wpos
  have hsb := score2bin_q h hw phi
  simp only at hsb
  set c0 := ⌈(phi - h.bmin) / h.w - 1⌉ with hc0
  rcases hsb with ⟨hs, hin, _, _, _⟩ | ⟨_, hbad⟩
  swap
  · exfalso; rcases hbad with hb | hb | hb
    · exact hb hfin
    · omega
    · omega
  unfold inBin at hin
  -- the two cases of the code
  have hedge : (phi = h.ubound c0) ∨ (phi ≠ h.ubound c0) := em _
  set c : Int := if Num.eqb phi (h.ubound c0) = true then c0 + 1 else c0 with hc
  set newphi : ℚ := if Num.eqb phi (h.ubound c0) = true then phi else h.lbound c0 with hnp
  have hphi : newphi = h.bmin + (c : ℚ) * h.w ∧ newphi ≤ phi ∧ phi - newphi < h.w := by
    by_cases e : phi = h.ubound c0
    · have he : Num.eqb phi (h.ubound c0) = true := (eqb_q _ _).2 e
      simp only [hc, hnp, he, if_true]
      refine ⟨?_, le_refl _, by linarith⟩
      rw [ubound_q] at e; rw [e]; push_cast; ring
    · have he : ¬ Num.eqb phi (h.ubound c0) = true := by rw [eqb_q]; exact e
      simp only [hc, hnp, he, if_false, Bool.false_eq_true]
      rw [lbound_q]
      refine ⟨rfl, le_of_lt hin.1, ?_⟩
      rw [ubound_q] at e
      have : phi < h.bmin + ((c0 : ℚ) + 1) * h.w := lt_of_le_of_ne hin.2 e
      linarith
  have hcr : c0 ≤ c ∧ c ≤ c0 + 1 := by
    simp only [hc]; split <;> omega
  -- the scan
  have hst := idx_state h vs acc
  have hsz := acc.wf.size
  have hscan : sumObs h.obs h.imin (min c (h.imax + 1) - h.imin).toNat 0 =
      .val (0 + binSum h.obs h.imin (min c (h.imax + 1) - h.imin).toNat) := by
    apply sumObs_eq
    · rcases hst with ⟨_, i1, _⟩ | ⟨_, i1, _, _⟩
      · rw [i1]; exact le_of_lt acc.wf.nb_pos
      · exact i1
    · rcases hst with ⟨_, i1, i2⟩ | ⟨_, i1, i2, i3⟩
      · rw [i1, i2]; omega
      · omega
  have hz : binSum h.obs h.imin (min c (h.imax + 1) - h.imin).toNat = vs.countP (fun x => decide (x ≤ newphi)) := by
    rw [binSum_counts h vs acc]
    apply List.countP_congr
    intro v hv
    simp only [decide_eq_true_eq]
    obtain ⟨r1, r2⟩ := value_range h vs acc v hv
    rw [hphi.1]
    have hne : vs ≠ [] := List.ne_nil_of_mem hv
    rcases hst with ⟨hvs, _, _⟩ | ⟨_, i1, i2, i3⟩
    · exact absurd hvs hne
    · by_cases ck : min c (h.imax + 1) ≤ h.imin
      · have e0 : (min c (h.imax + 1) - h.imin).toNat = 0 := by omega
        rw [e0]
        have hci : c ≤ h.imin := by omega
        have : (c : ℚ) ≤ h.imin := by exact_mod_cast hci
        constructor
        · intro ⟨a, b⟩; simp only [Nat.cast_zero, add_zero] at b; exact absurd a (not_lt.2 b)
        · intro hle; exfalso; nlinarith
      · have ek : ((min c (h.imax + 1) - h.imin).toNat : ℚ) = ((min c (h.imax + 1) - h.imin : Int) : ℚ) := by
          have : (((min c (h.imax + 1) - h.imin).toNat : Nat) : Int) = min c (h.imax + 1) - h.imin := by omega
          exact_mod_cast this
        rw [ek]
        have eu : (h.imin : ℚ) + ((min c (h.imax + 1) - h.imin : Int) : ℚ) = ((min c (h.imax + 1) : Int) : ℚ) := by push_cast; ring
        rw [eu]
        by_cases cc : c ≤ h.imax + 1
        · rw [min_eq_left cc]
          exact ⟨fun hh => hh.2, fun hh => ⟨r1, hh⟩⟩
        · rw [min_eq_right (by omega)]
          have : ((h.imax + 1 : Int) : ℚ) ≤ c := by exact_mod_cast (by omega : h.imax + 1 ≤ c)
          push_cast at this ⊢
          constructor
          · intro _; nlinarith
          · intro _; exact ⟨r1, r2⟩
  have hzle : vs.countP (fun x => decide (x ≤ newphi)) ≤ h.n := by rw [acc.n]; exact List.countP_le_length
  unfold Hist.setTail
  simp only [hs, bne_self_eq_false, Bool.false_eq_true, if_false]
  have hir : inIntRange (c0 + 1) = true := by rw [inIntRange_iff]; omega
  simp only [hir, Bool.not_true, Bool.false_eq_true, if_false]
  have hcdef : (if Num.eqb phi (h.ubound c0) = true then c0 + 1 else c0) = c := rfl
  have hnpdef : (if Num.eqb phi (h.ubound c0) = true then phi else h.lbound c0) = newphi := rfl
  simp only [hcdef, hnpdef]
  rw [hscan, Nat.zero_add, hz]
  simp only [if_pos hzle]
  refine ⟨_, _, c, rfl, hphi.1, hphi.2.1, hphi.2.2, ?_, rfl, ?_, acc.n, rfl, rfl, rfl⟩
  · show (if c < 0 then 0 else c) = max c 0
    split <;> omega
  · show h.n - _ = vs.length - _; rw [acc.n]

end EaselModel.Stats
