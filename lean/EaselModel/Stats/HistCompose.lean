import EaselModel.Stats.HistMass
/-! # Collecting then querying: the `is_sorted` flag stays truthful through any sequence of `Add`s (C11) -/
namespace EaselModel.Stats

theorem prealloc_sorted (h : Hist ℚ) : h.prealloc.isSorted = h.isSorted ∧ h.prealloc.x = h.x := by
  unfold Hist.prealloc; split <;> exact ⟨rfl, rfl⟩

theorem record_unsorted (h : Hist ℚ) (b : Int) (v : ℚ) (st : St) (h' : Hist ℚ) (e : h.record b v = .val (st, h')) : h'.isSorted = false := by
  unfold Hist.record at e
  split at e
  · cases e
  · simp only [] at e
    cases hb : bump h.obs b with
    | fault => rw [hb] at e; cases e
    | val obs => rw [hb] at e; injection e with e; injection e with _ e2; rw [← e2]

/-- `Add` either clears the flag or leaves flag and data vector alone -/
theorem add_sortedFlag (h : Hist ℚ) (hs : SortedFlagOK h) (v : ℚ) (st : St) (h' : Hist ℚ) (e : h.add v = .val (st, h')) : SortedFlagOK h' := by
  unfold Hist.add at e
  split at e
  · injection e with e; injection e with _ e2; rw [← e2]; exact hs
  · obtain ⟨p1, p2⟩ := prealloc_sorted h
    have hp : SortedFlagOK h.prealloc := by intro hh; rw [p2]; exact hs (by rw [← p1]; exact hh)
    simp only [] at e
    split at e
    · split at e
      · cases e
      · injection e with e; injection e with _ e2; rw [← e2]; exact hp
      · rename_i h2 b2 _
        intro hh; rw [record_unsorted h2 b2 v st h' e] at hh; cases hh
    · injection e with e; injection e with _ e2; rw [← e2]; exact hp

theorem addMany_sortedFlag (xs : List ℚ) : ∀ (h : Hist ℚ) (vs : List ℚ) (h' : Hist ℚ) (vs' : List ℚ),
    SortedFlagOK h → Hist.addMany h vs xs = .val (h', vs') → SortedFlagOK h' := by
  induction xs with
  | nil => intro h vs h' vs' hs e; simp only [Hist.addMany] at e; injection e with e; injection e with e1 _; rw [← e1]; exact hs
  | cons x t ih =>
    intro h vs h' vs' hs e
    simp only [Hist.addMany] at e
    split at e
    · cases e
    · rename_i st h1 e1
      exact ih h1 _ h' vs' (add_sortedFlag h hs x st h1 e1) e

/-- **collect, then ask**: `CreateFull(bmin,bmax,w)` (`w > 0`), ANY sequence of `Add`s, then `GetTail(phi)`:
    `*ret_z` is the number of accepted values `≤ phi` and the returned vector is the sorted accepted values `> phi`. -/
theorem collected_tail (bmin bmax w : ℚ) (hw : 0 < w) (h0 : Hist ℚ) (hc : Hist.createFull bmin bmax w = .val (some h0)) (xs : List ℚ) (phi : ℚ) :
    ∃ h vs h' mid, Hist.addMany h0 [] xs = .val (h, vs) ∧ h.getTail phi = .val (.ok, h', mid) ∧
      mid = vs.countP (fun x => decide (x ≤ phi)) ∧ h'.x.toList.Pairwise (· ≤ ·) ∧ h'.x.toList.Perm vs ∧
      (∀ x ∈ h'.x.toList.drop mid, phi < x) ∧ (∀ x ∈ h'.x.toList.take mid, x ≤ phi) := by
  obtain ⟨a0, _, _, _⟩ := create_accounts bmin bmax w hw h0 (Or.inr hc)
  obtain ⟨h, vs, e, a, _, _, _⟩ := addMany_accounts xs h0 [] a0
  have hfull0 : h0.isFull = true ∧ h0.isSorted = false := by
    unfold Hist.createFull at hc
    split at hc
    · cases hc
    · cases hc
    · rename_i hh ee
      injection hc with hc; injection hc with hc; subst hc
      refine ⟨rfl, ?_⟩
      unfold Hist.create at ee
      simp only [] at ee
      split at ee
      · cases ee
      · split at ee
        · cases ee
        · split at ee
          · cases ee
          · injection ee with ee; injection ee with ee; subst ee; rfl
  have hs0 : SortedFlagOK h0 := by intro hh; rw [hfull0.2] at hh; cases hh
  have hs := addMany_sortedFlag xs h0 [] h vs hs0 e
  -- fullness is preserved by Add
  have hfull : ∀ (ys : List ℚ) (g : Hist ℚ) (ws : List ℚ) (g' : Hist ℚ) (ws' : List ℚ), Accounts g ws → g.isFull = true →
      Hist.addMany g ws ys = .val (g', ws') → g'.isFull = true := by
    intro ys
    induction ys with
    | nil => intro g ws g' ws' _ hf ee; simp only [Hist.addMany] at ee; injection ee with ee; injection ee with e1 _; rw [← e1]; exact hf
    | cons y t ih =>
      intro g ws g' ws' ag hf ee
      obtain ⟨st, g1, e1, hcase⟩ := add_accounts g ws ag y
      simp only [Hist.addMany, e1] at ee
      obtain ⟨_, _, e1', _, hc'⟩ := add_spec g ag.wf ag.idx y
      rw [e1] at e1'; injection e1' with e1'; injection e1' with q1 q2; subst q1; subst q2
      rcases hcase with ⟨hok, a1⟩ | ⟨hne, a1, sd⟩
      · rcases hc' with ⟨hn, _⟩ | ⟨_, _, b, k, _, ao⟩
        · exact absurd hok hn
        · rw [if_pos hok] at ee
          exact ih g1 _ g' ws' a1 (by rw [ao.full]; exact hf) ee
      · rw [if_neg hne] at ee
        exact ih g1 _ g' ws' a1 (by rw [sd.2.2.2.2.2.2.2.1]; exact hf) ee
  have hf := hfull xs h0 [] h vs a0 hfull0.1 e
  obtain ⟨h', mid, e2, m1, m2, m3, m4, m5, _, _⟩ := getTail_spec h vs a hf hs phi
  exact ⟨h, vs, h', mid, e, e2, m1, m2, m3, m5, m4⟩

end EaselModel.Stats
