import EaselModel.Stats.SxpReal
import Mathlib.Analysis.SpecialFunctions.Gamma.Deriv
/-! # Stationarity of the gamma fit in the shape `τ` (C11, ℝ)

`gam_fitting_engine` iterates the generalized-Newton update `1/τ' = 1/τ + g(τ)/(τ - τ²Ψ'(τ))`, `g(τ) = mean(log(x-μ)) - log x̄ + log τ - Ψ(τ)`,
with its own series `esl_stats_Psi`, `esl_stats_Trigamma`. Here:
* a fixed point of that update is exactly a zero of `g` (`gamma_update_fixed_point`);
* with the true Γ (Mathlib's `Real.Gamma`), `log τ - log x̄ - Γ'(τ)/Γ(τ) + mean(log(x-μ))` IS the derivative of the profile log-likelihood
  `τ ↦ logL(λ = τ/x̄, τ)` (`gamma_profile_hasDerivAt`) — i.e. `g = 0` with `Ψ` the true digamma function is the likelihood equation.
That `esl_stats_Psi` approximates `Γ'/Γ` is NOT proved (it is an asymptotic series; L0-like numerical residue). -/
namespace EaselModel.Stats
open Real

/-- the true digamma function on the reals, `Γ'(τ)/Γ(τ)` -/
noncomputable def digammaR (tau : ℝ) : ℝ := deriv Real.Gamma tau / Real.Gamma tau

theorem logGamma_hasDerivAt (tau : ℝ) (ht : 0 < tau) : HasDerivAt (fun t => Real.log (Real.Gamma t)) (digammaR tau) tau := by
  have hd : DifferentiableAt ℝ Real.Gamma tau := Real.differentiableAt_Gamma (fun m => by
    intro h; have : (0 : ℝ) ≤ (m : ℝ) := Nat.cast_nonneg m; linarith)
  exact hd.hasDerivAt.log (ne_of_gt (Real.Gamma_pos_of_pos ht))

/-- **the derivative of the gamma profile log-likelihood** `τ ↦ logL(λ = τ/x̄, τ)` per sample (true Γ): `log τ - log x̄ - ψ(τ) + mean log(x-μ)` -/
theorem gamma_profile_hasDerivAt (xbar logxbar tau : ℝ) (hx : 0 < xbar) (ht : 0 < tau) :
    HasDerivAt (fun t => llGam1 xbar logxbar (Real.log (Real.Gamma t)) (t / xbar) t)
      (Real.log tau - Real.log xbar - digammaR tau + logxbar) tau := by
  unfold llGam1
  have h1 : HasDerivAt (fun t : ℝ => Real.log (t / xbar)) (1 / tau) tau := by
    have h := ((hasDerivAt_id tau).div_const xbar).log (ne_of_gt (div_pos ht hx))
    refine h.congr_deriv ?_
    simp only [id]; field_simp
  have h2 : HasDerivAt (fun t : ℝ => t * Real.log (t / xbar)) (1 * Real.log (tau / xbar) + tau * (1 / tau)) tau := (hasDerivAt_id tau).mul h1
  have h3 := logGamma_hasDerivAt tau ht
  have h4 : HasDerivAt (fun t : ℝ => (t - 1) * logxbar) logxbar tau := by simpa using ((hasDerivAt_id tau).sub_const 1).mul_const logxbar
  have h5 : HasDerivAt (fun t : ℝ => t / xbar * xbar) 1 tau := by
    have := ((hasDerivAt_id tau).div_const xbar).mul_const xbar
    refine this.congr_deriv ?_
    field_simp
  have := ((h2.sub h3).add h4).sub h5
  refine this.congr_deriv ?_
  rw [Real.log_div (ne_of_gt ht) (ne_of_gt hx)]
  field_simp
  ring

/-- **and in `τ` for a fixed rate `λ`**: `log λ - ψ(τ) + mean log(x-μ)` -/
theorem gamma_loglik_hasDerivAt_tau (xbar logxbar lam tau : ℝ) (ht : 0 < tau) :
    HasDerivAt (fun t => llGam1 xbar logxbar (Real.log (Real.Gamma t)) lam t) (Real.log lam - digammaR tau + logxbar) tau := by
  unfold llGam1
  have h2 : HasDerivAt (fun t : ℝ => t * Real.log lam) (Real.log lam) tau := by simpa using (hasDerivAt_id tau).mul_const (Real.log lam)
  have h3 := logGamma_hasDerivAt tau ht
  have h4 : HasDerivAt (fun t : ℝ => (t - 1) * logxbar) logxbar tau := by simpa using ((hasDerivAt_id tau).sub_const 1).mul_const logxbar
  exact (((h2.sub h3).add h4).sub_const (lam * xbar))

/-- **a fixed point of `gam_fitting_engine`'s update is exactly a zero of `g`**: for a non-zero Newton denominator `d = τ - τ²Ψ'(τ)`,
    `1/(1/τ + g/d) = τ ↔ g = 0` -/
theorem gamma_update_fixed_point (tau g d : ℝ) (hd : d ≠ 0) : 1 / (1 / tau + g / d) = tau ↔ g = 0 := by
  constructor
  · intro h
    have h1 : 1 / tau + g / d = 1 / tau := by
      have h2 : (1 / (1 / tau + g / d))⁻¹ = tau⁻¹ := by rw [h]
      rw [one_div, inv_inv] at h2
      rw [h2, one_div]
    have h3 : g / d = 0 := by linarith
    rcases div_eq_zero_iff.1 h3 with h4 | h4
    · exact h4
    · exact absurd h4 hd
  · intro h; rw [h, zero_div, add_zero, one_div_one_div]

/-- the update as the model computes it (ℝ): `gamLoop`'s `tau'` is `1/(1/τ + g/d)` with the code's `Ψ`, `Ψ'` -/
theorem gamma_update_is_newton (xbar logxbar tau psi tg : ℝ) :
    (Num.one : ℝ) / (Num.one / tau + (logxbar - Num.log xbar + Num.log tau - psi) / (tau - tau * tau * tg))
      = 1 / (1 / tau + (logxbar - Real.log xbar + Real.log tau - psi) / (tau - tau * tau * tg)) := by
  simp only [one_r, log_r]

end EaselModel.Stats

namespace EaselModel.Stats
open Real

/-- `∂/∂τ` of the stretched-exponential log-likelihood with the true normaliser `logΓ(1/τ)`:
    `n(1/τ + ψ(1/τ)/τ²) - Σ (w+lᵢ)·exp(τ(w+lᵢ))`  (`ψ = Γ'/Γ`) -/
noncomputable def llSxpDtau (n : ℝ) (ls : List ℝ) (w tau : ℝ) : ℝ :=
  n * (1 / tau + digammaR (1 / tau) / (tau * tau)) - (ls.map (fun l => (w + l) * Real.exp (tau * (w + l)))).sum

theorem llSxp_hasDerivAt_tau (n : ℝ) (ls : List ℝ) (w tau : ℝ) (ht : 0 < tau) :
    HasDerivAt (fun t => llSxp (Real.log (Real.Gamma (1 / t))) n ls w t) (llSxpDtau n ls w tau) tau := by
  unfold llSxp llSxpDtau
  have hinv : HasDerivAt (fun t : ℝ => 1 / t) (-(1 / (tau * tau))) tau := by
    have h := hasDerivAt_inv (ne_of_gt ht)
    refine (h.congr_of_eventuallyEq (Filter.Eventually.of_forall (fun b => by simp))).congr_deriv ?_
    rw [pow_two]; field_simp
  have hlg : HasDerivAt (fun t : ℝ => Real.log (Real.Gamma (1 / t))) (digammaR (1 / tau) * -(1 / (tau * tau))) tau :=
    (logGamma_hasDerivAt (1 / tau) (by positivity)).comp tau hinv
  have hlog : HasDerivAt (fun t : ℝ => Real.log t) (1 / tau) tau := by simpa using Real.hasDerivAt_log (ne_of_gt ht)
  have h1 : HasDerivAt (fun t : ℝ => n * (w + Real.log t - Real.log (Real.Gamma (1 / t))))
      (n * (1 / tau - digammaR (1 / tau) * -(1 / (tau * tau)))) tau := ((hlog.const_add w).sub hlg).const_mul n
  have h2 : HasDerivAt (fun t : ℝ => (ls.map (fun l => Real.exp (t * (w + l)))).sum)
      (ls.map (fun l => (w + l) * Real.exp (tau * (w + l)))).sum tau := by
    refine hasDerivAt_list_sum ls (fun l t => Real.exp (t * (w + l))) _ tau (fun l _ => ?_)
    have h : HasDerivAt (fun t : ℝ => t * (w + l)) (w + l) tau := by simpa using (hasDerivAt_id tau).mul_const (w + l)
    exact (h.exp).congr_deriv (by ring)
  refine (h1.sub h2).congr_deriv ?_
  field_simp
  ring

end EaselModel.Stats
