import EaselModel.Stats.ExpBinnedReal
import EaselModel.Stats.HistPlotRat
import EaselModel.Stats.HistCens
import EaselModel.Stats.HistMass
/-! # The exponential tail fit counts exactly the raw data above the threshold (C11, round 6b)

`esl_exp_FitCompleteBinned` on a histogram whose tail was declared with `esl_histogram_SetTail` sums over the bins `cmin..imax` only. Here that
pipeline is tied to the RAW data (any history of accepted values): the histogram the fit sees is the ℝ-reading `Hist.toR` of the exact (ℚ)
histogram after `SetTail`; the `N` of its closed form is the number of accepted values above the threshold actually used (`= No`), its `S` is
`Σ obs[b]·(LBound(b) - φ')` over those bins, the location returned is that threshold, and the rate is THE maximiser of the binned likelihood
of exactly those values. -/
namespace EaselModel.Stats

/-- the same histogram read over ℝ (every numeric field cast; counts, indices and flags unchanged) -/
noncomputable def Hist.toR (h : Hist ℚ) : Hist ℝ :=
  { obs := h.obs, nb := h.nb, w := (h.w : ℝ), bmin := (h.bmin : ℝ), bmax := (h.bmax : ℝ), imin := h.imin, imax := h.imax,
    xmin := (h.xmin : ℝ), xmax := (h.xmax : ℝ), n := h.n, x := h.x.map (fun (v : ℚ) => (v : ℝ)), nalloc := h.nalloc, phi := (h.phi : ℝ),
    cmin := h.cmin, z := h.z, nc := h.nc, no := h.no, isFull := h.isFull, isDone := h.isDone, isSorted := h.isSorted,
    isRounded := h.isRounded, datasetIs := h.datasetIs }

/-- the bin-count sum of `Goodness`'s first loop and the `N` of the exponential closed form are the same number -/
theorem wsum_one_of_goodnessCount (obs : Array Nat) : ∀ (k : Nat) (i : Int) (acc n : Nat),
    goodnessCount obs k i acc = .val n → (n : ℝ) = (acc : ℝ) + wsum obs (fun _ => 1) k i := by
  intro k
  induction k with
  | zero => intro i acc n h; unfold goodnessCount at h; cases h; simp [wsum]
  | succ k ih =>
    intro i acc n h
    unfold goodnessCount at h
    cases hg : getObs obs i with
    | fault => rw [hg] at h; cases h
    | val c =>
      rw [hg] at h
      simp only [] at h
      have hc : c = obsAt obs i := by
        unfold getObs at hg
        split at hg
        · rename_i hb
          injection hg with hg
          unfold obsAt
          rw [if_pos hb.1, ← hg, Array.getD_eq_getD_getElem?]
        · cases hg
      have := ih (i + 1) _ n h
      have e : wsum obs (fun _ => (1 : ℝ)) (k + 1) i = (obsAt obs i : ℝ) * 1 + wsum obs (fun _ => 1) k (i + 1) := rfl
      rw [this, e, hc]
      push_cast; ring

/-- **`N` of the exponential tail fit = the number of accepted values above the cutoff bin's lower bound** (any history of accepted values `vs`,
    any cutoff bin `0 ≤ b ≤ imax+1`) -/
theorem exp_tail_N_counts_raw (h : Hist ℚ) (vs : List ℚ) (acc : Accounts h vs) (b : Int) (hb0 : 0 ≤ b) (hb1 : b ≤ h.imax + 1) :
    wsum h.obs (fun _ => 1) (h.imax - b + 1).toNat b = ((vs.countP (fun x => decide (h.bmin + b * h.w < x)) : Nat) : ℝ) := by
  have hk : (h.imax - b + 1).toNat = (h.imax + 1 - b).toNat := by congr 1; omega
  have := wsum_one_of_goodnessCount h.obs _ b 0 _ (goodnessCount_raw h vs acc b hb0 hb1)
  rw [hk]; rw [this]; simp

/-- what `esl_histogram_SetTail` leaves alone: the counts, the bin geometry and the occupied range -/
theorem setTail_frame (h : Hist ℚ) (phi : ℚ) (h' : Hist ℚ) (m : ℚ) (e : h.setTail phi = .val (.ok, h', m)) :
    h'.imax = h.imax ∧ h'.obs = h.obs ∧ h'.w = h.w ∧ h'.bmin = h.bmin := by
  unfold Hist.setTail at e
  generalize h.score2bin phi = sc at e
  obtain ⟨st, c0⟩ := sc
  simp only [] at e
  split at e
  · rename_i hst
    injection e with e
    injection e with e1 _
    rw [e1] at hst; simp at hst
  · split at e
    · cases e
    · split at e
      · cases e
      · injection e with e
        injection e with _ e2
        injection e2 with e2 _
        rw [← e2]
        exact ⟨rfl, rfl, rfl, rfl⟩

/-- **The exponential tail fit is the maximum-likelihood fit of exactly the accepted values above the threshold** (any history of accepted
    values `vs`; `SetTail(phi)` with a threshold that is not above every occupied bin): `SetTail` succeeds with the threshold
    `φ' = bmin + k·w ∈ (phi - w, phi]`; `esl_exp_FitCompleteBinned` on the resulting histogram (read over ℝ) answers eslOK with location `φ'` and
    `λ = (1/w)(log(S + N·w) - log S)`, where `N` is the NUMBER OF ACCEPTED VALUES `> φ'` and `S = Σ obs[b]·(LBound(b) - φ')` over the bins
    `cmin..imax`; and that `λ` maximises the binned exponential log-likelihood `-λ'S + N log(1 - e^{-λ'w})` of those values over all `λ' > 0`. -/
theorem exp_tail_fit_of_raw_data (h : Hist ℚ) (vs : List ℚ) (acc : Accounts h vs) (phi : ℚ) (hfin : |phi| ≤ dblMaxQ)
    (hr : -2147483648 ≤ ⌈(phi - h.bmin) / h.w - 1⌉ ∧ ⌈(phi - h.bmin) / h.w - 1⌉ < 2147483647) :
    ∃ h' mass, h.setTail phi = .val (.ok, h', mass) ∧ h'.phi ≤ phi ∧ phi - h'.phi < h.w ∧
      (h'.cmin ≤ h.imax + 1 →
        let hR := h'.toR
        let k := (hR.imax - hR.cmin + 1).toNat
        let S := wsum hR.obs (fun j => hR.lbound j - hR.phi) k hR.cmin
        let N : ℝ := ((vs.countP (fun x => decide (h'.phi < x)) : Nat) : ℝ)
        expFitCompleteBinned hR = .res .ok #[((h'.phi : ℚ) : ℝ), 1 / hR.w * (Real.log (S + N * hR.w) - Real.log S)] ∧
        (0 < S → 0 < N → ∀ lam' : ℝ, 0 < lam' →
          llExpBinned S N hR.w lam' ≤ llExpBinned S N hR.w (1 / hR.w * (Real.log (S + N * hR.w) - Real.log S)))) := by
  obtain ⟨h', mass, k, e, hphi, hle, hlt, hcmin, _, _, _, hobs, _, hds⟩ := setTail_spec h vs acc phi hfin hr
  obtain ⟨fimax, fobs, fw, fbmin⟩ := setTail_frame h phi h' mass e
  refine ⟨h', mass, e, hle, hlt, ?_⟩
  intro hcut
  have hw := acc.wpos
  have hc0 : 0 ≤ h'.cmin := by rw [hcmin]; exact le_max_right _ _
  have hsz := acc.wf.size
  have himax : h.imax < h.nb := by
    rcases idx_state h vs acc with ⟨_, _, i2⟩ | ⟨_, _, _, i3⟩
    · have := acc.wf.nb_pos; omega
    · exact i3
  have hmax := expFitCompleteBinned_max h'.toR (by show h'.datasetIs ≠ _; rw [hds]; decide) (by show 0 ≤ h'.cmin; exact hc0)
    (by show h'.cmin ≤ (h'.obs.size : Int); rw [hobs]; omega) (by show h'.imax < (h'.obs.size : Int); rw [hobs, fimax]; omega)
    (by show (0 : ℝ) < ((h'.w : ℚ) : ℝ); rw [fw]; exact_mod_cast hw)
  simp only [] at hmax ⊢
  -- the `N` of the closed form is the number of accepted values above the threshold
  have hN : wsum h'.toR.obs (fun _ => 1) (h'.toR.imax - h'.toR.cmin + 1).toNat h'.toR.cmin
      = ((vs.countP (fun x => decide (h'.phi < x)) : Nat) : ℝ) := by
    show wsum h'.obs (fun _ => 1) (h'.imax - h'.cmin + 1).toNat h'.cmin = _
    rw [hobs, fimax, exp_tail_N_counts_raw h vs acc h'.cmin hc0 hcut]
    congr 1
    apply List.countP_congr
    intro x hx
    simp only [decide_eq_true_eq]
    rw [hphi, hcmin]
    by_cases hk : 0 ≤ k
    · rw [max_eq_left hk]
    · have hk' : k < 0 := not_le.1 hk
      rw [max_eq_right hk'.le]
      obtain ⟨hlo, _⟩ := value_range h vs acc x hx
      have himin : 0 ≤ h.imin := by
        rcases idx_state h vs acc with ⟨hv, _, _⟩ | ⟨_, i1, _, _⟩
        · rw [hv] at hx; cases hx
        · exact i1
      have h1 : (0 : ℚ) ≤ (h.imin : ℚ) * h.w := mul_nonneg (by exact_mod_cast himin) hw.le
      have h2 : ((k : Int) : ℚ) * h.w < 0 := mul_neg_of_neg_of_pos (by exact_mod_cast hk') hw
      constructor
      · intro _; push_cast at *; linarith
      · intro _; push_cast; linarith
  have hdsR : h'.toR.datasetIs = .virtualCensored := hds
  simp only [hdsR] at hmax
  rw [hN] at hmax
  exact hmax

/-- what `esl_histogram_SetTailByMass` leaves alone, and the data-set kind it declares -/
theorem setTailByMass_frame (h : Hist ℚ) (p : ℚ) (h' : Hist ℚ) (m : ℚ) (e : h.setTailByMass p = .val (.ok, h', m)) :
    h'.imax = h.imax ∧ h'.obs = h.obs ∧ h'.w = h.w ∧ h'.bmin = h.bmin ∧ h'.datasetIs = .virtualCensored := by
  unfold Hist.setTailByMass at e
  simp only [] at e
  split at e
  · cases e
  · injection e with e
    injection e with _ e2
    injection e2 with e2 _
    rw [← e2]
    exact ⟨rfl, rfl, rfl, rfl, rfl⟩

/-- **The same for a tail declared by mass** (`esl_histogram_SetTailByMass(pmass)`, `0 < pmass ≤ 1`, non-empty data): the threshold is the lower
    bound `φ'` of a bin `imin ≤ b ≤ imax`; `esl_exp_FitCompleteBinned` then answers eslOK with location `φ'` and
    `λ = (1/w)(log(S + N·w) - log S)`, `N = No` = the number of accepted values `> φ'` (at least `pmass·n` of them), `S = Σ_{j ≥ b} obs[j]·(LBound(j) - φ')`,
    and that `λ` maximises the binned exponential log-likelihood of those values. -/
theorem exp_tail_fit_by_mass_of_raw_data (h : Hist ℚ) (vs : List ℚ) (acc : Accounts h vs) (hne : vs ≠ []) (p : ℚ) (hp0 : 0 < p) (hp1 : p ≤ 1) :
    ∃ h' mass, h.setTailByMass p = .val (.ok, h', mass) ∧ h'.no = vs.countP (fun x => decide (h'.phi < x)) ∧ p * vs.length ≤ h'.no ∧
      (let hR := h'.toR
       let k := (hR.imax - hR.cmin + 1).toNat
       let S := wsum hR.obs (fun j => hR.lbound j - hR.phi) k hR.cmin
       let N : ℝ := ((h'.no : Nat) : ℝ)
       expFitCompleteBinned hR = .res .ok #[((h'.phi : ℚ) : ℝ), 1 / hR.w * (Real.log (S + N * hR.w) - Real.log S)] ∧
       (0 < S → 0 < N → ∀ lam' : ℝ, 0 < lam' →
         llExpBinned S N hR.w lam' ≤ llExpBinned S N hR.w (1 / hR.w * (Real.log (S + N * hR.w) - Real.log S)))) := by
  obtain ⟨h', mass, b, e, hb1, hb2, hcmin, hphi, hno, _, hmass, _, _, hobs, _⟩ := setTailByMass_spec h vs acc hne p hp0 hp1
  obtain ⟨fimax, fobs, fw, fbmin, hds⟩ := setTailByMass_frame h p h' mass e
  refine ⟨h', mass, e, hno, hmass, ?_⟩
  have hw := acc.wpos
  have hsz := acc.wf.size
  rcases idx_state h vs acc with ⟨hv, _, _⟩ | ⟨_, i1, i2, i3⟩
  · exact absurd hv hne
  have hc0 : 0 ≤ h'.cmin := by rw [hcmin]; omega
  have hmax := expFitCompleteBinned_max h'.toR (by show h'.datasetIs ≠ _; rw [hds]; decide) (by show 0 ≤ h'.cmin; exact hc0)
    (by show h'.cmin ≤ (h'.obs.size : Int); rw [hobs, hcmin]; omega) (by show h'.imax < (h'.obs.size : Int); rw [hobs, fimax]; omega)
    (by show (0 : ℝ) < ((h'.w : ℚ) : ℝ); rw [fw]; exact_mod_cast hw)
  simp only [] at hmax ⊢
  have hN : wsum h'.toR.obs (fun _ => 1) (h'.toR.imax - h'.toR.cmin + 1).toNat h'.toR.cmin = ((h'.no : Nat) : ℝ) := by
    show wsum h'.obs (fun _ => 1) (h'.imax - h'.cmin + 1).toNat h'.cmin = _
    rw [hobs, fimax, exp_tail_N_counts_raw h vs acc h'.cmin hc0 (by rw [hcmin]; omega), hno, hphi, hcmin]
  have hdsR : h'.toR.datasetIs = .virtualCensored := hds
  simp only [hdsR] at hmax
  rw [hN] at hmax
  exact hmax

end EaselModel.Stats
