import EaselModel.Stats.MinReal
/-! # Where `esl_min_ConjugateGradientDescent` can lose ground, and where it cannot (C11, ℝ)

`cg_is_not_a_descent_method` shows that the optimiser can return a point worse than its start. This file localises the only
place where that can happen: a `brent()` call whose result is worse than the middle point `bx` that `bracket()` had already
found (and which is never worse than the origin of the line search). In every run in which no such line search occurs, the
sequence `f(x₀), fx[1], fx[2], …` never rises above `f(x₀)`, and the returned `*opt_fx ≤ f(x₀)`. -/
namespace EaselModel.Stats
open Num

/-- `bracket()`'s middle value only ever decreases -/
theorem bracketLoopCG_fb_le (fline : ℝ → ℝ) (maxIter : Nat) (F0 : ℝ) :
    ∀ (k niter : Nat) (b b' : Bracket ℝ), b.fb ≤ F0 → bracketLoopCG fline maxIter k niter b = some b' → b'.fb ≤ F0 := by
  intro k
  induction k with
  | zero => intro niter b b' h0 h; simp only [bracketLoopCG, Option.some.injEq] at h; rw [← h]; exact h0
  | succ k ih =>
    intro niter b b' h0 h
    unfold bracketLoopCG at h
    simp only [] at h
    split at h
    · rename_i hcb
      rw [leb_r] at hcb
      split at h
      · simp only [Option.some.injEq] at h; rw [← h]; exact le_trans hcb h0
      · split at h
        · cases h
        · exact ih _ _ b' (le_trans hcb h0) h
    · simp only [Option.some.injEq] at h; rw [← h]; exact h0

/-- `bracket()`, any line function, any first step (zero included), any claimed origin value `f0`: the middle value of a returned
    triplet is `≤ f0` -/
theorem bracketCG_fb_le (cfg : MinCfg ℝ) (fline : ℝ → ℝ) (f0 firststep : ℝ) (b : Bracket ℝ)
    (h : bracketCG cfg fline f0 firststep = some b) : b.fb ≤ f0 := by
  unfold bracketCG at h
  simp only [] at h
  have fin : ∀ b0 : Bracket ℝ, b0.fb ≤ f0 →
      (if gtb b0.ax b0.cx = true then some ({ b0 with ax := b0.cx, cx := b0.ax, fa := b0.fc, fc := b0.fa } : Bracket ℝ) else some b0) = some b →
      b.fb ≤ f0 := by
    intro b0 h0 hb
    split at hb <;> (simp only [Option.some.injEq] at hb; rw [← hb]; exact h0)
  by_cases hsw : f0 < fline firststep
  · have hg : gtb (fline firststep) f0 = true := by rw [gtb_r]; exact hsw
    simp only [hg, if_true] at h
    split at h
    · cases h
    · rename_i b0 hb0
      exact fin b0 (bracketLoopCG_fb_le fline _ f0 _ _ _ b0 (le_refl _) hb0) h
  · have hg : gtb (fline firststep) f0 = false := by
      rw [Bool.eq_false_iff]; intro hc; rw [gtb_r] at hc; exact hsw hc
    simp only [hg, Bool.false_eq_true, if_false] at h
    split at h
    · cases h
    · rename_i b0 hb0
      exact fin b0 (bracketLoopCG_fb_le fline _ f0 _ _ _ b0 (not_lt.1 hsw) hb0) h

/-- a line search in which `brent()` came back with a value above the middle point `bracket()` had handed over -/
def BrentLostBracketPoint (cfg : MinCfg ℝ) : Prop :=
  ∃ (fline : ℝ → ℝ) (f0 firststep : ℝ) (br : Bracket ℝ) (t v : ℝ),
    bracketCG cfg fline f0 firststep = some br ∧ brentCG cfg fline br.ax br.cx = some (t, v) ∧ br.fb < v

theorem cgLoop_descent (cfg : MinCfg ℝ) (f : Array ℝ → ℝ) (df : Option (Array ℝ → Array ℝ)) (F0 : ℝ) :
    ∀ (k : Nat) (s : CGState ℝ) (fxc : ℝ) (st : St) (x : Array ℝ) (fx : ℝ), f s.x ≤ F0 → fxc ≤ F0 →
      (cgLoop cfg f df k s fxc).1 = .res st x fx → (st = .ok ∨ st = .enohalt) → fx ≤ F0 ∨ BrentLostBracketPoint cfg := by
  intro k
  induction k with
  | zero =>
    intro s fxc st x fx _ h0 h _
    unfold cgLoop at h
    simp only [MinRes.res.injEq] at h
    left; rw [← h.2.2]; exact h0
  | succ k ih =>
    intro s fxc st x fx hs h0 h hst
    unfold cgLoop at h
    simp only [] at h
    split at h
    · simp only [MinRes.res.injEq] at h
      rcases hst with c | c <;> (rw [c] at h; exact absurd h.1 (by decide))
    · rename_i br hbr
      split at h
      · cases h
      · rename_i t v hb
        by_cases hv : v ≤ br.fb
        · have hfb := bracketCG_fb_le cfg _ _ _ br hbr
          have hval := (brentCG_descent cfg (fun t => f (pointAt s.x s.cg t)) br.ax br.cx t v hb).1
          have hvF : v ≤ F0 := le_trans hv (le_trans hfb hs)
          split at h
          · simp only [MinRes.res.injEq] at h
            rcases hst with c | c <;> (rw [c] at h; exact absurd h.1 (by decide))
          · split at h
            · simp only [MinRes.res.injEq] at h
              left; rw [← h.2.2]; exact hvF
            · split at h
              · simp only [MinRes.res.injEq] at h
                left; rw [← h.2.2]; exact hvF
              · exact ih _ _ st x fx (by show f (pointAt s.x s.cg t) ≤ F0; rw [← hval]; exact hvF) hvF h hst
        · exact Or.inr ⟨_, _, _, br, t, v, hbr, hb, not_le.1 hv⟩

/-- **Descent, or a `brent()` call that lost the bracket's middle point.** ℝ; every objective, gradient, configuration and start: when
    `esl_min_ConjugateGradientDescent` answers eslOK or eslENOHALT, either `*opt_fx ≤ f(x₀)`, or the run contains a line search whose
    `brent()` result is strictly worse than the `f(bx)` that `bracket()` returned for the same line. -/
theorem cgd_descent (cfg : MinCfg ℝ) (f : Array ℝ → ℝ) (df : Option (Array ℝ → Array ℝ)) (x0 : Array ℝ)
    (st : St) (x : Array ℝ) (fx : ℝ) (h : (cgd cfg f df x0).1 = .res st x fx) (hst : st = .ok ∨ st = .enohalt) :
    fx ≤ f x0 ∨ BrentLostBracketPoint cfg := by
  unfold cgd at h
  simp only [] at h
  split at h
  · simp only [MinRes.res.injEq] at h
    rcases hst with c | c <;> (rw [c] at h; exact absurd h.1 (by decide))
  · split at h
    · simp only [MinRes.res.injEq] at h
      left; rw [← h.2.2]
    · exact cgLoop_descent cfg f df (f x0) _ _ _ st x fx (le_refl _) (le_refl _) h hst

end EaselModel.Stats
