import EaselModel.Stats.FitSxpBinned
import EaselModel.Stats.WeiBinnedReal
/-! # The binned stretched-exponential objective over ℝ (C11)

`sxp_complete_binned_func`, read over ℝ, is `-Σ_b obs[b]·log(F(ub_b) - F(max(lb_b, μ)))` over the occupied bins `cmin..imax` with
`F = esl_sxp_cdf(·, μ, λ, τ)` — minus the multinomial log-likelihood of the observed counts — whenever no occupied bin has probability
exactly `0` (then the code returns `eslINFINITY`). -/
namespace EaselModel.Stats
open Real

/-- the probability `sxp_complete_binned_func` gives bin `b`: `F(ub) - F(max(lb, μ))` with the code's `esl_sxp_cdf` -/
noncomputable def sxpBinProb (h : Hist ℝ) (mu lam tau : ℝ) (b : Int) : ℝ :=
  sxpCdf (h.ubound b) mu lam tau - sxpCdf (if h.lbound b < mu then mu else h.lbound b) mu lam tau

noncomputable def llSxpBinned (h : Hist ℝ) (bins : List (Int × Nat)) (mu lam tau : ℝ) : ℝ :=
  (bins.map (fun ic => if ic.2 = 0 then 0 else (ic.2 : ℝ) * Real.log (sxpBinProb h mu lam tau ic.1))).sum

theorem sxpBinnedStep_empty (h : Hist ℝ) (mu lam tau acc : ℝ) (ic : Int × Nat) (h0 : ic.2 = 0) :
    sxpBinnedStep h mu lam tau (some acc) ic = some acc := by
  unfold sxpBinnedStep; simp [h0]

theorem sxpBinnedStep_occupied (h : Hist ℝ) (mu lam tau acc : ℝ) (ic : Int × Nat) (h0 : ic.2 ≠ 0) (hp : sxpBinProb h mu lam tau ic.1 ≠ 0) :
    sxpBinnedStep h mu lam tau (some acc) ic = some (acc + (ic.2 : ℝ) * Real.log (sxpBinProb h mu lam tau ic.1)) := by
  unfold sxpBinnedStep
  unfold sxpBinProb at hp ⊢
  have hb : (ic.2 == 0) = false := by simpa using h0
  simp only [hb, Bool.false_eq_true, if_false, ofInt_r, log_r, ltb_r]
  rw [if_neg (by rw [eqb_r, zero_r]; exact hp)]
  push_cast
  rfl

/-- **`sxp_complete_binned_func` = `-Σ counts · log(cdf differences)`** (ℝ; any histogram, bin list, `μ`, `w`, `v`): provided no occupied bin
    has probability exactly `0` under `(μ, λ = e^w, τ = e^v)`. -/
theorem sxpBinnedFunc_eq (h : Hist ℝ) (bins : List (Int × Nat)) (mu w v : ℝ)
    (hpos : ∀ ic ∈ bins, ic.2 ≠ 0 → sxpBinProb h mu (Real.exp w) (Real.exp v) ic.1 ≠ 0) :
    sxpBinnedFunc h bins mu #[w, v] = -(llSxpBinned h bins mu (Real.exp w) (Real.exp v)) := by
  unfold sxpBinnedFunc llSxpBinned
  have g0 : (#[w, v] : Array ℝ).getD 0 Num.zero = w := rfl
  have g1 : (#[w, v] : Array ℝ).getD 1 Num.zero = v := rfl
  simp only [g0, g1, exp_r]
  suffices hs : ∀ (acc : ℝ), bins.foldl (sxpBinnedStep h mu (Real.exp w) (Real.exp v)) (some acc)
      = some (acc + (bins.map (fun ic => if ic.2 = 0 then 0 else (ic.2 : ℝ) * Real.log (sxpBinProb h mu (Real.exp w) (Real.exp v) ic.1))).sum) by
    rw [hs Num.zero]; simp
  induction bins with
  | nil => intro acc; simp
  | cons a t ih =>
    intro acc
    have hpos' : ∀ ic ∈ t, ic.2 ≠ 0 → sxpBinProb h mu (Real.exp w) (Real.exp v) ic.1 ≠ 0 :=
      fun ic hic => hpos ic (List.mem_cons_of_mem _ hic)
    simp only [List.foldl_cons, List.map_cons, List.sum_cons]
    by_cases ha : a.2 = 0
    · rw [sxpBinnedStep_empty h mu _ _ acc a ha, ih hpos' acc]; simp [ha]
    · rw [sxpBinnedStep_occupied h mu _ _ acc a ha (hpos a List.mem_cons_self ha), ih hpos' _]
      simp [ha, add_assoc]

end EaselModel.Stats
