import EaselModel.Stats.Num
/-! # Executable model of `esl_histogram.c` (C11, kind H)

Line-by-line mirror of `esl_histogram_Create/CreateFull/Score2Bin/Add/sort/DeclareCensoring/DeclareRounding/
SetTail/SetTailByMass/GetRank/GetData/GetTail/GetTailByMass` over the numeric class `Num`.
C `int`s are `Int`; where the C expression can leave the `int` range (signed overflow = undefined behaviour)
the model's outcome is `.fault`. Every data-dependent array access goes through a bounds-checked accessor whose
failure is `.fault`. Allocation never fails (not modelled). Core Lean only. -/
namespace EaselModel.Stats

inductive St | ok | einval | erange | emem | enoresult | enohalt
  deriving DecidableEq, Repr, Inhabited

def St.name : St → String
  | .ok => "ok" | .einval => "einval" | .erange => "erange" | .emem => "emem"
  | .enoresult => "enoresult" | .enohalt => "enohalt"

/-- outcome of a modelled C call: a value, or a memory fault / undefined behaviour -/
inductive Out (β : Type) | val (b : β) | fault
  deriving Repr

instance {β} [Inhabited β] : Inhabited (Out β) := ⟨.val default⟩

@[inline] def Out.bind {β γ} (o : Out β) (f : β → Out γ) : Out γ :=
  match o with | .val b => f b | .fault => .fault

instance : Monad Out where
  pure := .val
  bind := Out.bind

inductive Dataset | complete | virtualCensored | trueCensored
  deriving DecidableEq, Repr, Inhabited

structure Hist (α : Type) where
  obs : Array Nat          -- h->obs[0..nb-1]
  nb : Int
  w : α
  bmin : α
  bmax : α
  imin : Int
  imax : Int
  xmin : α
  xmax : α
  n : Nat
  x : Array α              -- raw samples x[0..n-1] (full histograms)
  nalloc : Nat
  phi : α
  cmin : Int
  z : Nat
  nc : Nat
  no : Nat
  isFull : Bool
  isDone : Bool
  isSorted : Bool
  isRounded : Bool
  datasetIs : Dataset

variable {α : Type} [Num α]
open Num

def inIntRange (i : Int) : Bool := INT_MIN ≤ i && i ≤ INT_MAX

/-- `esl_histogram_Create()`; `none` = the C function returns NULL (zero or negative number of bins).
    `nb = (int)((bmax-bmin)/w)`: the conversion is undefined outside the `int` range. -/
def Hist.create (bmin bmax w : α) : Out (Option (Hist α)) :=
  let q := (bmax - bmin) / w
  if !(isFinite q) then .fault else
  let nb := toInt q
  if !(inIntRange nb) then .fault else
  if nb ≤ 0 then .val none else
  .val (some {
    obs := Array.replicate nb.toNat 0, nb := nb, w := w, bmin := bmin, bmax := bmax,
    imin := nb, imax := -1, xmin := dblMax, xmax := -dblMax, n := 0,
    x := #[], nalloc := 0, phi := zero, cmin := nb, z := 0, nc := 0, no := 0,
    isFull := false, isDone := false, isSorted := false, isRounded := false, datasetIs := .complete })

/-- `esl_histogram_CreateFull()` -/
def Hist.createFull (bmin bmax w : α) : Out (Option (Hist α)) :=
  match Hist.create bmin bmax w with
  | .fault => .fault
  | .val none => .val none
  | .val (some h) => .val (some { h with n := 0, nalloc := 128, isFull := true })

/-- `esl_histogram_Score2Bin()`: `(status, *ret_b)`. -/
def Hist.score2bin (h : Hist α) (x : α) : St × Int :=
  if !(isFinite x) then (.erange, 0) else
  let y := ceil (((x - h.bmin) / h.w) - ofInt 1)
  if ltb y (ofInt INT_MIN) || gtb y (ofInt INT_MAX) then (.erange, 0)
  else (.ok, toInt y)

/-- `h->obs[b]++` through the bounds-checked accessor -/
def bump (obs : Array Nat) (b : Int) : Out (Array Nat) :=
  if 0 ≤ b ∧ b.toNat < obs.size then .val (obs.setIfInBounds b.toNat (obs.getD b.toNat 0 + 1)) else .fault

def getObs (obs : Array Nat) (b : Int) : Out Nat :=
  if 0 ≤ b ∧ b.toNat < obs.size then .val (obs.getD b.toNat 0) else .fault

/-- `if (h->is_full && h->nalloc == h->n) { realloc; h->nalloc *= 2; }` (happens before anything can fail) -/
def Hist.prealloc (h : Hist α) : Hist α :=
  if h.isFull && h.nalloc == h.n then { h with nalloc := h.nalloc * 2 } else h

/-- "Make sure we have that bin": `none` = eslERANGE, otherwise the re-indexed histogram and the re-indexed bin.
    Growth below shifts every index by `nnew`; growth above appends. No count and no bin boundary changes. -/
def Hist.grow (h : Hist α) (b : Int) : Out (Option (Hist α × Int)) :=
  if b < 0 then
    if b < -((INT_MAX - h.nb) / 2) then .val none else   -- tested before multiplying: `-b*2` cannot overflow
    let nnew := -b * 2
    if !(inIntRange nnew) then .fault else               -- (unreachable: theorem `grow_no_fault`)
    .val (some ({ h with
      obs := Array.replicate nnew.toNat 0 ++ h.obs
      nb := h.nb + nnew
      bmin := h.bmin - ofInt nnew * h.w
      imin := h.imin + nnew
      cmin := h.cmin + nnew
      imax := if h.imax > -1 then h.imax + nnew else h.imax }, b + nnew))
  else if b ≥ h.nb then
    if b - h.nb + 1 > (INT_MAX - h.nb) / 2 then .val none else
    let nnew := (b - h.nb + 1) * 2
    if !(inIntRange nnew) then .fault else               -- (unreachable: theorem `grow_no_fault`)
    let nodata := h.imin == h.nb
    .val (some ({ h with
      obs := h.obs ++ Array.replicate nnew.toNat 0
      imin := if nodata then h.imin + nnew else h.imin
      cmin := if nodata then h.cmin + nnew else h.cmin
      bmax := h.bmax + ofInt nnew * h.w
      nb := h.nb + nnew }, b))
  else .val (some (h, b))

/-- keep the raw value, bump the bin counter and the sample counters, update `imin imax cmin xmin xmax` -/
def Hist.record (h : Hist α) (b : Int) (x : α) : Out (St × Hist α) :=
  -- `if (h->is_full) h->x[h->n] = x;` : the write index n must be < nalloc
  if h.isFull && !(h.n < h.nalloc) then .fault else
  let xs := if h.isFull then h.x.push x else h.x
  match bump h.obs b with
  | .fault => .fault
  | .val obs =>
    let lower := b < h.imin
    .val (.ok, { h with
      obs := obs, x := xs, isSorted := false
      n := h.n + 1, nc := h.nc + 1, no := h.no + 1
      imax := if b > h.imax then b else h.imax
      imin := if lower then b else h.imin
      cmin := if lower then b else h.cmin
      xmax := if gtb x h.xmax then x else h.xmax
      xmin := if ltb x h.xmin then x else h.xmin })

/-- `esl_histogram_Add()`: `(status, h')`. On a non-OK status the bins are unchanged. -/
def Hist.add (h : Hist α) (x : α) : Out (St × Hist α) :=
  if h.isDone then .val (.einval, h) else
  let h := h.prealloc
  match h.score2bin x with
  | (.ok, b) =>
    match h.grow b with
    | .fault => .fault
    | .val none => .val (.erange, h)
    | .val (some (h', b')) => h'.record b' x
  | (st, _) => .val (st, h)

/-- `esl_histogram_sort()` (libc `qsort` with the increasing comparator; "qsort sorts" is in the trusted base) -/
def Hist.sort (h : Hist α) : Hist α :=
  if h.isSorted then h else
  if !h.isFull then h else
  { h with x := (h.x.toList.mergeSort (fun a b => leb a b)).toArray, isSorted := true }

/-- `esl_histogram_DeclareCensoring()` -/
def Hist.declareCensoring (h : Hist α) (z : Int) (phi : α) : St × Hist α :=
  if gtb phi h.xmin then (.einval, h) else
  (.ok, { h with phi := phi, cmin := h.imin, z := z.toNat, nc := h.n + z.toNat, no := h.n,
                 datasetIs := .trueCensored, isDone := true })

def Hist.declareRounding (h : Hist α) : Hist α := { h with isRounded := true }

def Hist.lbound (h : Hist α) (b : Int) : α := h.w * ofInt b + h.bmin
/-- `esl_histogram_Bin2UBound`: `w*(b+1) + bmin`, `b+1` in `int` arithmetic -/
def Hist.ubound (h : Hist α) (b : Int) : α := h.w * ofInt (b + 1) + h.bmin

/-- `for (b = lo; b < hi; b++) z += obs[b]` with checked reads -/
def sumObs (obs : Array Nat) (lo : Int) : Nat → Nat → Out Nat
  | 0, acc => .val acc
  | k+1, acc =>
    match getObs obs lo with
    | .fault => .fault
    | .val c => sumObs obs (lo + 1) k (acc + c)

/-- `esl_histogram_SetTail()`: `(status, h', newmass)` -/
def Hist.setTail (h : Hist α) (phi : α) : Out (St × Hist α × α) :=
  let (st, c0) := h.score2bin phi
  if st != .ok then .val (st, { h with cmin := c0 }, zero) else      -- Score2Bin wrote `*ret_b = 0` into h->cmin
  if !(inIntRange (c0 + 1)) then .fault else            -- `(b)+1` in Bin2UBound / `h->cmin++`
  -- `if (phi == UBound(cmin)) { h->phi = phi; h->cmin++; } else h->phi = LBound(cmin);`
  let edge := eqb phi (h.ubound c0)
  let c := if edge then c0 + 1 else c0
  let newphi := if edge then phi else h.lbound c0
  -- `for (b = imin; b < cmin && b <= imax; b++) z += obs[b]`
  match sumObs h.obs h.imin (min c (h.imax + 1) - h.imin).toNat 0 with
  | .fault => .fault
  | .val z =>
    -- uint64_t arithmetic: No = n - z wraps; z ≤ n whenever the reads were in bounds (theorem)
    let no := if z ≤ h.n then h.n - z else h.n + 2^64 - z
    -- `if (h->cmin < 0) h->cmin = 0;` : bins below 0 do not exist; consumers index obs[cmin..imax]
    let h := { h with phi := newphi, cmin := if c < 0 then 0 else c, z := z, nc := h.n, no := no,
                      datasetIs := .virtualCensored, isDone := true }
    .val (.ok, h, ofInt no / ofInt h.n)

/-- the downward scan of `esl_histogram_SetTailByMass()`: returns `(b, sum)` -/
def tailScan (obs : Array Nat) (thresh : α) (imin : Int) : Nat → Int → Nat → Out (Int × Nat)
  | 0, b, sum => .val (b, sum)
  | k+1, b, sum =>
    if b < imin then .val (b, sum) else
    match getObs obs b with
    | .fault => .fault
    | .val c =>
      let sum := sum + c
      if geb (ofInt sum : α) thresh then .val (b, sum) else tailScan obs thresh imin k (b - 1) sum

/-- `esl_histogram_SetTailByMass()` -/
def Hist.setTailByMass (h : Hist α) (pmass : α) : Out (St × Hist α × α) :=
  let thresh := pmass * ofInt h.n
  match tailScan h.obs thresh h.imin (h.imax - h.imin + 1).toNat h.imax 0 with
  | .fault => .fault
  | .val (b, sum) =>
    let z := h.n - sum
    let h := { h with phi := h.lbound b, z := z, cmin := if b < 0 then 0 else b, nc := h.n, no := h.n - z,
                      datasetIs := .virtualCensored, isDone := true }
    .val (.ok, h, ofInt h.no / ofInt h.nc)

/-- checked read of the raw-data vector -/
def getX (xs : Array α) (i : Int) : Out α :=
  if h : 0 ≤ i ∧ i.toNat < xs.size then .val (xs[i.toNat]'h.2) else .fault

/-- `esl_histogram_GetRank()` -/
def Hist.getRank (h : Hist α) (rank : Int) : Out (St × Hist α × α) :=
  if !h.isFull then .val (.einval, h, zero) else
  if rank > h.n then .val (.einval, h, zero) else
  if rank < 1 then .val (.einval, h, zero) else
  let h := h.sort
  match getX h.x (h.n - rank) with
  | .fault => .fault
  | .val v => .val (.ok, h, v)

/-- the binary search of `esl_histogram_GetTail()`; `none` = fuel exhausted (never: theorem) -/
def tailSearch (xs : Array α) (phi : α) : Nat → Int → Int → Out (Option Int)
  | 0, _, _ => .val none
  | k+1, lo, hi =>
    let mid := (lo + hi + 1) / 2
    match getX xs mid with
    | .fault => .fault
    | .val xm =>
      if leb xm phi then tailSearch xs phi k mid hi else
      match getX xs (mid - 1) with
      | .fault => .fault
      | .val xm1 =>
        if gtb xm1 phi then tailSearch xs phi k lo mid else .val (some mid)

/-- `esl_histogram_GetTail()`: `(status, h', mid)`; the tail is `x[mid..n-1]`, `*ret_n = n - mid`, `*ret_z = mid` -/
def Hist.getTail (h : Hist α) (phi : α) : Out (St × Hist α × Nat) :=
  if !h.isFull then .val (.einval, h, 0) else
  let h := h.sort
  let fin (mid : Nat) : Out (St × Hist α × Nat) := .val (.ok, { h with isDone := true }, mid)
  if h.n == 0 then fin h.n else
  match getX h.x 0 with
  | .fault => .fault
  | .val x0 =>
    if gtb x0 phi then fin 0 else
    match getX h.x ((h.n : Int) - 1) with
    | .fault => .fault
    | .val xl =>
      if leb xl phi then fin h.n else
      match tailSearch h.x phi (h.n + 1) 0 ((h.n : Int) - 1) with
      | .fault => .fault
      | .val none => .fault
      | .val (some mid) => fin mid.toNat

/-- `esl_histogram_GetTailByMass()`: `(status, h', n_tail)`; tail = `x[n - n_tail ..]` -/
def Hist.getTailByMass (h : Hist α) (pmass : α) : St × Hist α × Nat :=
  if !h.isFull then (.einval, h, 0) else
  if ltb pmass zero || gtb pmass one then (.einval, h, 0) else
  let h := h.sort
  let k := (toInt (ofInt h.n * pmass : α)).toNat
  (.ok, { h with isDone := true }, k)

/-- `esl_histogram_GetData()` -/
def Hist.getData (h : Hist α) : St × Hist α :=
  if !h.isFull then (.einval, h) else
  let h := h.sort
  (.ok, { h with isDone := true })

end EaselModel.Stats
