import EaselModel.Stats.HistExpectReal
import EaselModel.Stats.ExpBinnedReal
/-! # The expected counts telescope (C11, ℝ): `Σ expect[i] = Nc · P(binned range)` -/
namespace EaselModel.Stats
open Num

theorem ubound_eq_lbound_succ (h : Hist ℝ) (i : Int) : h.ubound i = h.lbound (i + 1) := by
  rw [ubound_r, lbound_r]; push_cast; ring

/-- the expected counts telescope: after the loop over bins `i .. i+k-1` the entries added sum to `Nc·(cdf(LBound(i+k)) - cdf(LBound(i)))` -/
theorem setExpectLoop_sum (h : Hist ℝ) (cdf : ℝ → ℝ) : ∀ (k : Nat) (i : Int) (acc : Array ℝ) (emin : Int),
    (setExpectLoop h cdf k i acc emin).1.toList.sum = acc.toList.sum + (h.nc : ℝ) * (cdf (h.lbound (i + k)) - cdf (h.lbound i)) := by
  intro k
  induction k with
  | zero => intro i acc emin; simp [setExpectLoop]
  | succ k ih =>
    intro i acc emin
    unfold setExpectLoop
    simp only []
    rw [ih]
    simp only [Array.toList_push, List.sum_append, List.sum_cons, List.sum_nil, add_zero, ofInt_r, Int.cast_natCast, ubound_eq_lbound_succ]
    have : i + 1 + (k : Int) = i + ((k + 1 : Nat) : Int) := by push_cast; ring
    rw [this]; ring

/-- **`esl_histogram_SetExpect`: the expected counts add up to `Nc` times the probability the law gives to the binned range**
    `(LBound(0), UBound(nb-1)]` (ℝ, any cdf): no expected mass is lost or counted twice between adjacent bins. -/
theorem setExpect_total (h : Hist ℝ) (e : Expect ℝ) (cdf : ℝ → ℝ) (hnb : 0 ≤ h.nb) :
    ∃ ex, (h.setExpect e cdf).2.expect = some ex ∧ ex.toList.sum = (h.nc : ℝ) * (cdf (h.lbound h.nb) - cdf (h.lbound 0)) := by
  unfold Hist.setExpect
  refine ⟨_, rfl, ?_⟩
  rw [setExpectLoop_sum]
  have : (0 : Int) + ((h.nb.toNat : Nat) : Int) = h.nb := by omega
  rw [this]; simp

end EaselModel.Stats

namespace EaselModel.Stats
open Num

theorem tail_telescope (F : Int → ℝ) (c : ℝ) (emin : Int) (h0 : 0 ≤ emin) : ∀ n : Nat, emin ≤ n →
    ((List.range n).map (fun (i : Nat) => if (i : Int) < emin then (0 : ℝ) else c * (F ((i : Int) + 1) - F (i : Int)))).sum = c * (F n - F emin) := by
  intro n
  induction n with
  | zero => intro hle; have : emin = 0 := by omega
            subst this; simp
  | succ n ih =>
    intro hle
    rw [List.range_succ, List.map_append, List.sum_append]
    by_cases hlt : emin ≤ n
    · rw [ih hlt]
      have : ¬ ((n : Int) < emin) := by omega
      simp only [List.map_cons, List.map_nil, List.sum_cons, List.sum_nil, this, if_false, add_zero]
      push_cast; ring
    · have he : emin = ((n + 1 : Nat) : Int) := by omega
      have hall : ∀ i ∈ List.range n, (if (i : Int) < emin then (0 : ℝ) else c * (F ((i : Int) + 1) - F (i : Int))) = 0 := by
        intro i hi; rw [List.mem_range] at hi; rw [if_pos (by omega)]
      rw [List.map_congr_left hall]
      have : ((n : Int) < emin) := by omega
      simp only [List.map_const', List.sum_replicate, smul_zero, List.map_cons, List.map_nil, List.sum_cons, List.sum_nil, this, if_true, add_zero]
      rw [he]; ring

/-- **`esl_histogram_SetExpectedTail`: the expected counts add up to `pmass·Nc` times the probability the law gives to `(LBound(emin), UBound(nb-1)]`**
    (ℝ, any cdf, any accepted `base_val`) -/
theorem setExpectedTail_total (h : Hist ℝ) (e : Expect ℝ) (baseVal pmass : ℝ) (cdf : ℝ → ℝ) (hnb : 0 ≤ h.nb)
    (hok : (h.setExpectedTail e baseVal pmass cdf).1 = .ok) :
    ∃ ex, (h.setExpectedTail e baseVal pmass cdf).2.2.expect = some ex ∧
      ex.toList.sum = pmass * (h.nc : ℝ) * (cdf (h.lbound h.nb) - cdf (h.lbound (h.setExpectedTail e baseVal pmass cdf).2.2.emin)) := by
  unfold Hist.setExpectedTail at hok ⊢
  rcases hsb : h.score2bin baseVal with ⟨st, b⟩
  simp only [] at hok ⊢
  by_cases hst : st = .ok
  · subst hst
    simp only [bne_self_eq_false, Bool.false_eq_true, if_false] at hok ⊢
    refine ⟨_, rfl, ?_⟩
    have hem : 0 ≤ (if b < 0 then (0 : Int) else if b ≥ h.nb then h.nb else b + 1) ∧
        (if b < 0 then (0 : Int) else if b ≥ h.nb then h.nb else b + 1) ≤ h.nb := by
      split
      · exact ⟨le_refl _, hnb⟩
      · split
        · exact ⟨hnb, le_refl _⟩
        · constructor <;> omega
    generalize (if b < 0 then (0 : Int) else if b ≥ h.nb then h.nb else b + 1) = emin at hem ⊢
    rw [Array.toList_map, Array.toList_range]
    have := tail_telescope (fun j => cdf (h.lbound j)) (pmass * (h.nc : ℝ)) emin hem.1 h.nb.toNat (by omega)
    have hnbe : ((h.nb.toNat : Nat) : Int) = h.nb := by omega
    rw [hnbe] at this
    rw [← this]
    congr 1
    apply List.map_congr_left
    intro i _
    simp only [ofInt_r, Int.cast_natCast, zero_r, ubound_eq_lbound_succ]
  · have hb : (st != St.ok) = true := by simpa using hst
    rw [hsb] at hok
    simp only [] at hok
    rw [if_pos hb] at hok
    exact absurd hok hst

end EaselModel.Stats
