import EaselModel.Stats.Histogram
/-! # Lemmas about the histogram model that hold for every numeric class (C11)

Counting, re-indexing and memory-safety facts: none of them depends on how numbers behave. Core Lean only. -/
namespace EaselModel.Stats
variable {α : Type} [Num α]

/-- count in bin `i` for ANY integer `i`: zero outside the allocated bins -/
def obsAt (obs : Array Nat) (i : Int) : Nat := if 0 ≤ i then (obs[i.toNat]?).getD 0 else 0

/-- total of all bin counts -/
def total (obs : Array Nat) : Nat := obs.toList.sum

theorem sum_replicate_zero (k : Nat) : (List.replicate k 0).sum = 0 := by
  induction k with
  | zero => rfl
  | succ k ih => simp [List.replicate_succ, ih]

theorem sum_set (l : List Nat) (i : Nat) (h : i < l.length) (v : Nat) : (l.set i v).sum + l[i] = l.sum + v := by
  induction l generalizing i with
  | nil => simp at h
  | cons a t ih =>
    cases i with
    | zero => simp [List.set]; omega
    | succ i =>
      have := ih i (by simpa using h)
      simp [List.set]; omega

/-- structural well-formedness kept by every operation -/
structure Hist.WF (h : Hist α) : Prop where
  size : (h.obs.size : Int) = h.nb
  nb_pos : 0 < h.nb
  nb_le : h.nb ≤ INT_MAX
  alloc : h.isFull = true → h.n ≤ h.nalloc ∧ 0 < h.nalloc
  xsize : h.isFull = true → h.x.size = h.n

theorem obsAt_neg (obs : Array Nat) {i : Int} (h : i < 0) : obsAt obs i = 0 := by
  unfold obsAt; rw [if_neg (by omega)]

theorem obsAt_ge (obs : Array Nat) {i : Int} (h : (obs.size : Int) ≤ i) : obsAt obs i = 0 := by
  unfold obsAt
  split
  · have : obs.size ≤ i.toNat := by omega
    simp [Array.getElem?_eq_none this]
  · rfl

/-- `bump` inside the bounds: exactly bin `b` gains one, nothing else changes, the total gains one -/
theorem bump_spec (obs : Array Nat) (b : Int) (h0 : 0 ≤ b) (h1 : b < obs.size) :
    ∃ obs', bump obs b = .val obs' ∧ obs'.size = obs.size ∧
      (∀ i : Int, obsAt obs' i = obsAt obs i + if i = b then 1 else 0) ∧ total obs' = total obs + 1 := by
  have hb : b.toNat < obs.size := by omega
  refine ⟨obs.setIfInBounds b.toNat (obs.getD b.toNat 0 + 1), ?_, by simp, ?_, ?_⟩
  · unfold bump; rw [if_pos ⟨h0, hb⟩]
  · intro i
    unfold obsAt
    by_cases hi : 0 ≤ i
    · rw [if_pos hi, if_pos hi, Array.getElem?_setIfInBounds]
      by_cases hib : i = b
      · subst hib
        simp [hb, Array.getD_eq_getD_getElem?]
      · have : b.toNat ≠ i.toNat := by omega
        simp [this, hib]
    · rw [if_neg hi, if_neg hi]
      have : i ≠ b := by omega
      simp [this]
  · unfold total
    rw [Array.toList_setIfInBounds]
    have hl : b.toNat < obs.toList.length := by simpa using hb
    have := sum_set obs.toList b.toNat hl (obs.getD b.toNat 0 + 1)
    have e : obs.getD b.toNat 0 = obs.toList[b.toNat] := by
      simp [Array.getD_eq_getD_getElem?, hb]
    omega

theorem obsAt_prepend (obs : Array Nat) (k : Nat) (i : Int) :
    obsAt (Array.replicate k 0 ++ obs) (i + k) = obsAt obs i := by
  unfold obsAt
  by_cases hi : 0 ≤ i
  · rw [if_pos (by omega), if_pos hi, Array.getElem?_append]
    have e : (i + (k : Int)).toNat = i.toNat + k := by omega
    have e2 : ¬ (i.toNat + k < k) := by omega
    simp [e, e2]
  · rw [if_neg hi]
    by_cases hk : 0 ≤ i + k
    · rw [if_pos hk, Array.getElem?_append]
      have : (i + (k : Int)).toNat < k := by omega
      simp [this]
    · rw [if_neg hk]

theorem obsAt_append (obs : Array Nat) (k : Nat) (i : Int) :
    obsAt (obs ++ Array.replicate k 0) i = obsAt obs i := by
  unfold obsAt
  by_cases hi : 0 ≤ i
  · rw [if_pos hi, if_pos hi, Array.getElem?_append]
    by_cases hlt : i.toNat < obs.size
    · simp [hlt]
    · have : obs.size ≤ i.toNat := by omega
      simp [hlt, Array.getElem?_replicate]
      split <;> rfl
  · rw [if_neg hi, if_neg hi]

theorem total_prepend (obs : Array Nat) (k : Nat) : total (Array.replicate k 0 ++ obs) = total obs := by
  unfold total; simp

theorem total_append (obs : Array Nat) (k : Nat) : total (obs ++ Array.replicate k 0) = total obs := by
  unfold total; simp

end EaselModel.Stats

namespace EaselModel.Stats
variable {α : Type} [Num α]

theorem inIntRange_iff (i : Int) : inIntRange i = true ↔ (-2147483648 ≤ i ∧ i ≤ 2147483647) := by
  unfold inIntRange INT_MIN INT_MAX; simp

/-- what `Hist.grow` guarantees when it does not answer eslERANGE: the requested bin exists afterwards, every count is where
    it was (index shifted by `k`), the grid of bin boundaries is the same (`bmin` moved down by exactly `k` widths) -/
structure GrowOK (h h' : Hist α) (b b' : Int) (k : Nat) : Prop where
  wf : h'.WF
  beq : b' = b + k
  lo : 0 ≤ b'
  hi : b' < h'.nb
  obs : ∀ i : Int, obsAt h'.obs (i + k) = obsAt h.obs i
  tot : total h'.obs = total h.obs
  w : h'.w = h.w
  bmin : h'.bmin = if k = 0 then h.bmin else h.bmin - Num.ofInt (k : Int) * h.w
  n : h'.n = h.n
  x : h'.x = h.x
  full : h'.isFull = h.isFull
  nalloc : h'.nalloc = h.nalloc
  imin : h'.imin = if h.imin = h.nb then h'.nb else h.imin + k
  imax : h'.imax = if h.imax > -1 then h.imax + k else h.imax
  xmin : h'.xmin = h.xmin
  xmax : h'.xmax = h.xmax
  done : h'.isDone = h.isDone
  nbk : h.nb + k ≤ h'.nb

theorem grow_spec (h : Hist α) (hwf : h.WF) (b : Int) :
    h.grow b = .val none ∨ ∃ h' b' k, h.grow b = .val (some (h', b')) ∧ GrowOK h h' b b' k := by
  have hsz := hwf.size; have hpos := hwf.nb_pos; have hle := hwf.nb_le
  unfold INT_MAX at hle
  unfold Hist.grow
  by_cases hb : b < 0
  · rw [if_pos hb]
    by_cases hc : b < -((INT_MAX - h.nb) / 2)
    · rw [if_pos hc]; exact Or.inl rfl
    · rw [if_neg hc]
      unfold INT_MAX at hc
      have hr : inIntRange (-b * 2) = true := by rw [inIntRange_iff]; omega
      simp only [hr, Bool.not_true, Bool.false_eq_true, if_false]
      refine Or.inr ⟨_, _, (-b * 2).toNat, rfl, ?_⟩
      have hk : (((-b * 2).toNat : Nat) : Int) = -b * 2 := by omega
      constructor
      · constructor
        · simp only [Array.size_append, Array.size_replicate]; omega
        · show 0 < h.nb + -b * 2; omega
        · show h.nb + -b * 2 ≤ INT_MAX; unfold INT_MAX; omega
        · exact hwf.alloc
        · exact hwf.xsize
      · omega
      · omega
      · show b + -b * 2 < h.nb + -b * 2; omega
      · intro i; exact obsAt_prepend h.obs _ i
      · exact total_prepend h.obs _
      · rfl
      · have : (-b * 2).toNat ≠ 0 := by omega
        simp only [this, if_false, hk]
      · rfl
      · rfl
      · rfl
      · rfl
      · show h.imin + -b * 2 = if h.imin = h.nb then h.nb + -b * 2 else h.imin + ((-b * 2).toNat : Int)
        split <;> omega
      · show (if h.imax > -1 then h.imax + -b * 2 else h.imax) = if h.imax > -1 then h.imax + ((-b * 2).toNat : Int) else h.imax
        rw [hk]
      · rfl
      · rfl
      · rfl
      · show h.nb + (((-b * 2).toNat : Nat) : Int) ≤ h.nb + -b * 2; omega
  · rw [if_neg hb]
    by_cases hge : b ≥ h.nb
    · rw [if_pos hge]
      by_cases hc : b - h.nb + 1 > (INT_MAX - h.nb) / 2
      · rw [if_pos hc]; exact Or.inl rfl
      · rw [if_neg hc]
        unfold INT_MAX at hc
        have hr : inIntRange ((b - h.nb + 1) * 2) = true := by rw [inIntRange_iff]; omega
        simp only [hr, Bool.not_true, Bool.false_eq_true, if_false]
        refine Or.inr ⟨_, _, 0, rfl, ?_⟩
        have hk : ((((b - h.nb + 1) * 2).toNat : Nat) : Int) = (b - h.nb + 1) * 2 := by omega
        constructor
        · constructor
          · simp only [Array.size_append, Array.size_replicate]; omega
          · show 0 < h.nb + (b - h.nb + 1) * 2; omega
          · show h.nb + (b - h.nb + 1) * 2 ≤ INT_MAX; unfold INT_MAX; omega
          · exact hwf.alloc
          · exact hwf.xsize
        · simp
        · omega
        · show b < h.nb + (b - h.nb + 1) * 2; omega
        · intro i; simpa using obsAt_append h.obs _ i
        · exact total_append h.obs _
        · rfl
        · simp
        · rfl
        · rfl
        · rfl
        · rfl
        · show (if (h.imin == h.nb) = true then h.imin + (b - h.nb + 1) * 2 else h.imin) = if h.imin = h.nb then h.nb + (b - h.nb + 1) * 2 else h.imin + ((0 : Nat) : Int)
          by_cases e : h.imin = h.nb <;> simp [e]
        · show h.imax = if h.imax > -1 then h.imax + ((0 : Nat) : Int) else h.imax
          split <;> simp
        · rfl
        · rfl
        · rfl
        · show h.nb + ((0 : Nat) : Int) ≤ h.nb + (b - h.nb + 1) * 2; omega
    · rw [if_neg hge]
      refine Or.inr ⟨h, b, 0, rfl, ?_⟩
      constructor
      · exact hwf
      · simp
      · omega
      · omega
      · intro i; simp
      · rfl
      · rfl
      · simp
      · rfl
      · rfl
      · rfl
      · rfl
      · split <;> simp_all
      · split <;> simp
      · rfl
      · rfl
      · rfl
      · simp

/-- `grow` never leaves the `int` range (the overflow test precedes the multiplication) -/
theorem grow_no_fault (h : Hist α) (hwf : h.WF) (b : Int) : h.grow b ≠ .fault := by
  rcases grow_spec h hwf b with e | ⟨_, _, _, e, _⟩ <;> rw [e] <;> intro c <;> cases c

end EaselModel.Stats

namespace EaselModel.Stats
variable {α : Type} [Num α]

theorem prealloc_wf (h : Hist α) (hwf : h.WF) :
    h.prealloc.WF ∧ (h.prealloc.isFull = true → h.prealloc.n < h.prealloc.nalloc) := by
  unfold Hist.prealloc
  by_cases c : (h.isFull && h.nalloc == h.n) = true
  · rw [if_pos c]
    simp only [Bool.and_eq_true, beq_iff_eq] at c
    have := hwf.alloc c.1
    refine ⟨⟨hwf.size, hwf.nb_pos, hwf.nb_le, fun _ => ?_, hwf.xsize⟩, fun _ => ?_⟩
    · show h.n ≤ h.nalloc * 2 ∧ 0 < h.nalloc * 2; omega
    · show h.n < h.nalloc * 2; omega
  · rw [if_neg c]
    refine ⟨hwf, fun hf => ?_⟩
    have := hwf.alloc hf
    simp only [Bool.and_eq_true, beq_iff_eq, not_and] at c
    have := c hf
    omega

/-- fields that `prealloc` leaves alone (everything but `nalloc`) -/
theorem prealloc_fields (h : Hist α) :
    h.prealloc.obs = h.obs ∧ h.prealloc.nb = h.nb ∧ h.prealloc.w = h.w ∧ h.prealloc.bmin = h.bmin ∧ h.prealloc.bmax = h.bmax ∧
    h.prealloc.n = h.n ∧ h.prealloc.x = h.x ∧ h.prealloc.isFull = h.isFull ∧ h.prealloc.imin = h.imin ∧ h.prealloc.imax = h.imax ∧
    h.prealloc.xmin = h.xmin ∧ h.prealloc.xmax = h.xmax ∧ h.prealloc.isDone = h.isDone := by
  unfold Hist.prealloc; split <;> simp

theorem score2bin_prealloc (h : Hist α) (x : α) : h.prealloc.score2bin x = h.score2bin x := by
  unfold Hist.score2bin
  rw [(prealloc_fields h).2.2.2.1, (prealloc_fields h).2.2.1]

/-- what `Hist.record` does to a histogram that has bin `b` and room for one more raw value -/
structure RecordOK (h h' : Hist α) (b : Int) (v : α) : Prop where
  wf : h'.WF
  obs : ∀ i : Int, obsAt h'.obs i = obsAt h.obs i + if i = b then 1 else 0
  tot : total h'.obs = total h.obs + 1
  n : h'.n = h.n + 1
  w : h'.w = h.w
  bmin : h'.bmin = h.bmin
  nb : h'.nb = h.nb
  x : h'.x = if h.isFull then h.x.push v else h.x
  full : h'.isFull = h.isFull
  imin : h'.imin = if b < h.imin then b else h.imin
  imax : h'.imax = if b > h.imax then b else h.imax
  xmin : h'.xmin = if Num.ltb v h.xmin then v else h.xmin
  xmax : h'.xmax = if Num.gtb v h.xmax then v else h.xmax
  done : h'.isDone = h.isDone

theorem record_spec (h : Hist α) (hwf : h.WF) (hroom : h.isFull = true → h.n < h.nalloc)
    (b : Int) (h0 : 0 ≤ b) (h1 : b < h.nb) (v : α) :
    ∃ h', h.record b v = .val (.ok, h') ∧ RecordOK h h' b v := by
  have hsz := hwf.size
  obtain ⟨obs', e, esz, eobs, etot⟩ := bump_spec h.obs b h0 (by omega)
  unfold Hist.record
  have hg : (h.isFull && !decide (h.n < h.nalloc)) = false := by
    cases hf : h.isFull
    · simp
    · simp [hroom hf]
  simp only [hg, Bool.false_eq_true, if_false, e]
  refine ⟨_, rfl, ?_⟩
  constructor
  · constructor
    · show (obs'.size : Int) = h.nb; omega
    · exact hwf.nb_pos
    · exact hwf.nb_le
    · intro hf
      have a := hwf.alloc hf; have r := hroom hf
      show h.n + 1 ≤ h.nalloc ∧ 0 < h.nalloc; omega
    · intro hf
      have hf' : h.isFull = true := hf
      have := hwf.xsize hf'
      show (if h.isFull = true then h.x.push v else h.x).size = h.n + 1
      simp [hf', this]
  · exact eobs
  · exact etot
  all_goals rfl

/-- what a successful `esl_histogram_Add` does, for every numeric class -/
structure AddOK (h h' : Hist α) (b : Int) (k : Nat) (v : α) : Prop where
  wf : h'.WF
  obs : ∀ i : Int, obsAt h'.obs (i + k) = obsAt h.obs i + if i = b then 1 else 0
  tot : total h'.obs = total h.obs + 1
  n : h'.n = h.n + 1
  w : h'.w = h.w
  bmin : h'.bmin = if k = 0 then h.bmin else h.bmin - Num.ofInt (k : Int) * h.w
  x : h'.x = if h.isFull then h.x.push v else h.x
  full : h'.isFull = h.isFull
  done : h'.isDone = false
  imin : h'.imin = if h.imin = h.nb ∨ b < h.imin then b + k else h.imin + k
  imax : h'.imax = if h.imax = -1 ∨ b > h.imax then b + k else h.imax + k
  xmin : h'.xmin = if Num.ltb v h.xmin then v else h.xmin
  xmax : h'.xmax = if Num.gtb v h.xmax then v else h.xmax
  nbk : h.nb + k ≤ h'.nb

/-- the bins, bounds and counters are untouched by a refused `Add` -/
def SameData (h h' : Hist α) : Prop :=
  h'.obs = h.obs ∧ h'.nb = h.nb ∧ h'.w = h.w ∧ h'.bmin = h.bmin ∧ h'.bmax = h.bmax ∧ h'.n = h.n ∧ h'.x = h.x ∧
  h'.isFull = h.isFull ∧ h'.imin = h.imin ∧ h'.imax = h.imax ∧ h'.xmin = h.xmin ∧ h'.xmax = h.xmax ∧ h'.isDone = h.isDone

/-- invariant needed for the `imin/imax` bookkeeping: they are sentinels or lie inside the bins -/
def IdxOK (h : Hist α) : Prop :=
  (h.imin = h.nb ∧ h.imax = -1) ∨ (0 ≤ h.imin ∧ h.imin ≤ h.imax ∧ h.imax < h.nb)

theorem add_spec (h : Hist α) (hwf : h.WF) (hidx : IdxOK h) (v : α) :
    ∃ st h', h.add v = .val (st, h') ∧ h'.WF ∧
      ((st ≠ .ok ∧ SameData h h') ∨
       (st = .ok ∧ h.isDone = false ∧ ∃ b k, h.score2bin v = (.ok, b) ∧ AddOK h h' b k v)) := by
  unfold Hist.add
  by_cases hd : h.isDone = true
  · rw [if_pos hd]
    exact ⟨.einval, h, rfl, hwf, Or.inl ⟨by decide, by simp [SameData]⟩⟩
  · rw [if_neg hd]
    obtain ⟨pwf, proom⟩ := prealloc_wf h hwf
    have pf := prealloc_fields h
    obtain ⟨f1, f2, f3, f4, f5, f6, f7, f8, f9, f10, f11, f12, f13⟩ := pf
    simp only [score2bin_prealloc]
    rcases hs : h.score2bin v with ⟨st, b⟩
    cases st with
    | ok =>
      simp only []
      rcases grow_spec h.prealloc pwf b with e | ⟨h2, b2, k, e, g⟩
      · rw [e]
        exact ⟨.erange, _, rfl, pwf, Or.inl ⟨by decide, f1, f2, f3, f4, f5, f6, f7, f8, f9, f10, f11, f12, f13⟩⟩
      · rw [e]
        have room2 : h2.isFull = true → h2.n < h2.nalloc := by
          intro hf; rw [g.n, g.nalloc]; exact proom (by rw [← g.full]; exact hf)
        obtain ⟨h3, e3, r⟩ := record_spec h2 g.wf room2 b2 g.lo g.hi v
        refine ⟨.ok, h3, e3, r.wf, Or.inr ⟨rfl, by simpa using hd, b, k, rfl, ?_⟩⟩
        constructor
        · exact r.wf
        · intro i
          rw [r.obs, g.obs, f1]
          have : (i + (k : Int) = b2) ↔ (i = b) := by rw [g.beq]; omega
          simp only [this]
        · rw [r.tot, g.tot, f1]
        · rw [r.n, g.n, f6]
        · rw [r.w, g.w, f3]
        · rw [r.bmin, g.bmin, f4, f3]
        · rw [r.x, g.x, g.full, f7, f8]
        · rw [r.full, g.full, f8]
        · rw [r.done, g.done, f13]; simpa using hd
        · rw [r.imin, g.imin, g.beq, f9, f2]
          rcases hidx with ⟨a1, a2⟩ | ⟨a1, a2, a3⟩
          · have := g.hi; rw [g.beq] at this
            simp only [a1, true_or, if_true]
            split <;> omega
          · have hne : h.imin ≠ h.nb := by omega
            simp only [hne, false_or, if_false]
            split <;> split <;> omega
        · rw [r.imax, g.imax, g.beq, f10]
          rcases hidx with ⟨a1, a2⟩ | ⟨a1, a2, a3⟩
          · have := g.lo; rw [g.beq] at this
            simp only [a2, true_or, if_true]
            split <;> split <;> omega
          · have h1 : h.imax > -1 := by omega
            have h2 : h.imax ≠ -1 := by omega
            simp only [h1, h2, false_or, if_true]
            split <;> split <;> omega
        · rw [r.xmin, g.xmin, f11]
        · rw [r.xmax, g.xmax, f12]
        · rw [r.nb]; have := g.nbk; rw [f2] at this; exact this
    | einval => exact ⟨_, _, rfl, pwf, Or.inl ⟨by decide, f1, f2, f3, f4, f5, f6, f7, f8, f9, f10, f11, f12, f13⟩⟩
    | erange => exact ⟨_, _, rfl, pwf, Or.inl ⟨by decide, f1, f2, f3, f4, f5, f6, f7, f8, f9, f10, f11, f12, f13⟩⟩
    | emem => exact ⟨_, _, rfl, pwf, Or.inl ⟨by decide, f1, f2, f3, f4, f5, f6, f7, f8, f9, f10, f11, f12, f13⟩⟩
    | enoresult => exact ⟨_, _, rfl, pwf, Or.inl ⟨by decide, f1, f2, f3, f4, f5, f6, f7, f8, f9, f10, f11, f12, f13⟩⟩
    | enohalt => exact ⟨_, _, rfl, pwf, Or.inl ⟨by decide, f1, f2, f3, f4, f5, f6, f7, f8, f9, f10, f11, f12, f13⟩⟩

end EaselModel.Stats
