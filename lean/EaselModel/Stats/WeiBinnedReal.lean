import EaselModel.Stats.SxpReal
/-! # The binned Weibull objective over ℝ (C11)

`esl_wei_FitCompleteBinned` minimises `wei_binned_func(p)`, `p = (log λ, log τ)`. Here: that objective, read over ℝ, is
`-Σ_b obs[b]·log(F(ub_b) - F(max(lb_b, μ)))` over the occupied bins `cmin..imax` with `F = esl_wei_cdf(·, μ, λ, τ)` — minus the
multinomial log-likelihood of the observed counts — whenever every occupied bin has positive probability (otherwise the code returns
`eslINFINITY`); and `esl_wei_cdf` is the Weibull distribution function `1 - exp(-(λ(x-μ))^τ)` above `μ` (outside its small-argument
branch, where the code substitutes the first-order term), `0` at and below `μ`, so that every such difference is a bin probability. -/
namespace EaselModel.Stats
open Real

/-- the probability `wei_binned_func` gives bin `ic.1`: `F(ub) - F(max(lb, μ))` with the code's `esl_wei_cdf` -/
noncomputable def weiBinProb (h : Hist ℝ) (mu lam tau : ℝ) (b : Int) : ℝ :=
  weiCdf (h.ubound b) mu lam tau - weiCdf (if h.lbound b < mu then mu else h.lbound b) mu lam tau

/-- minus the objective: the multinomial log-likelihood of the counts -/
noncomputable def llWeiBinned (h : Hist ℝ) (bins : List (Int × Nat)) (mu lam tau : ℝ) : ℝ :=
  (bins.map (fun ic => if ic.2 = 0 then 0 else (ic.2 : ℝ) * Real.log (weiBinProb h mu lam tau ic.1))).sum

theorem weiBinnedStep_empty (h : Hist ℝ) (mu lam tau acc : ℝ) (ic : Int × Nat) (h0 : ic.2 = 0) :
    weiBinnedStep h mu lam tau (some acc) ic = some acc := by
  unfold weiBinnedStep; simp [h0]

theorem weiBinnedStep_occupied (h : Hist ℝ) (mu lam tau acc : ℝ) (ic : Int × Nat) (h0 : ic.2 ≠ 0) (hp : 0 < weiBinProb h mu lam tau ic.1) :
    weiBinnedStep h mu lam tau (some acc) ic = some (acc + (ic.2 : ℝ) * Real.log (weiBinProb h mu lam tau ic.1)) := by
  unfold weiBinnedStep
  unfold weiBinProb at hp ⊢
  have hb : (ic.2 == 0) = false := by simpa using h0
  simp only [hb, Bool.false_eq_true, if_false, ofInt_r, log_r, ltb_r]
  rw [if_neg (by rw [leb_r, zero_r]; exact not_le.2 hp)]
  push_cast
  rfl

/-- **`wei_binned_func` = `-Σ counts · log(cdf differences)`** (ℝ; any histogram, any bin list, any `μ`, `w`, `v`): provided every occupied
    bin has positive probability under `(μ, λ = e^w, τ = e^v)`. -/
theorem weiBinnedFunc_eq (h : Hist ℝ) (bins : List (Int × Nat)) (mu w v : ℝ)
    (hpos : ∀ ic ∈ bins, ic.2 ≠ 0 → 0 < weiBinProb h mu (Real.exp w) (Real.exp v) ic.1) :
    weiBinnedFunc h bins mu #[w, v] = -(llWeiBinned h bins mu (Real.exp w) (Real.exp v)) := by
  unfold weiBinnedFunc llWeiBinned
  have g0 : (#[w, v] : Array ℝ).getD 0 Num.zero = w := rfl
  have g1 : (#[w, v] : Array ℝ).getD 1 Num.zero = v := rfl
  simp only [g0, g1, exp_r]
  suffices hs : ∀ (acc : ℝ), bins.foldl (weiBinnedStep h mu (Real.exp w) (Real.exp v)) (some acc)
      = some (acc + (bins.map (fun ic => if ic.2 = 0 then 0 else (ic.2 : ℝ) * Real.log (weiBinProb h mu (Real.exp w) (Real.exp v) ic.1))).sum) by
    rw [hs Num.zero]; simp
  induction bins with
  | nil => intro acc; simp
  | cons a t ih =>
    intro acc
    have hpos' : ∀ ic ∈ t, ic.2 ≠ 0 → 0 < weiBinProb h mu (Real.exp w) (Real.exp v) ic.1 :=
      fun ic hic => hpos ic (List.mem_cons_of_mem _ hic)
    simp only [List.foldl_cons, List.map_cons, List.sum_cons]
    by_cases ha : a.2 = 0
    · rw [weiBinnedStep_empty h mu _ _ acc a ha, ih hpos' acc]; simp [ha]
    · rw [weiBinnedStep_occupied h mu _ _ acc a ha (hpos a List.mem_cons_self ha), ih hpos' _]
      simp [ha, add_assoc]

/-- **`esl_wei_cdf` over ℝ**: `0` at and below `μ`; above `μ`, outside the small-argument branch, the Weibull distribution function
    `1 - exp(-(λ(x-μ))^τ)` written as `1 - exp(-exp(τ(w + log(x-μ))))`, `λ = e^w`; inside that branch (`(λ(x-μ))^τ < 5e-9`) the first-order
    term `(λ(x-μ))^τ` itself. -/
theorem weiCdf_r (x mu w tau : ℝ) :
    weiCdf x mu (Real.exp w) tau =
      if x ≤ mu then 0
      else if Real.exp (tau * (w + Real.log (x - mu))) < 5e-9 then Real.exp (tau * (w + Real.log (x - mu)))
      else 1 - Real.exp (-(Real.exp (tau * (w + Real.log (x - mu))))) := by
  unfold weiCdf
  by_cases hx : x ≤ mu
  · have : Num.leb x mu = true := by rw [leb_r]; exact hx
    simp [this, hx]
  · have h1 : Num.leb x mu = false := by rw [Bool.eq_false_iff]; intro h; rw [leb_r] at h; exact hx h
    have hpos : 0 < x - mu := by have := not_le.1 hx; linarith
    simp only [h1, Bool.false_eq_true, if_false, hx, log_r, exp_r, one_r,
      Real.log_mul (ne_of_gt (Real.exp_pos w)) (ne_of_gt hpos), Real.log_exp]
    by_cases hs : Real.exp (tau * (w + Real.log (x - mu))) < 5e-9
    · have : Num.ltb (Real.exp (tau * (w + Real.log (x - mu)))) (smallX1 : ℝ) = true := by rw [ltb_r]; exact hs
      simp [this, hs]
    · have : Num.ltb (Real.exp (tau * (w + Real.log (x - mu)))) (smallX1 : ℝ) = false := by
        rw [Bool.eq_false_iff]; intro h; rw [ltb_r] at h; exact hs h
      simp [this, hs]

end EaselModel.Stats
