import EaselModel.Stats.FitCG
/-! # What a return of the conjugate-gradient minimiser means (C11) — for every numeric class, core Lean only -/
namespace EaselModel.Stats
open Num
variable {α : Type} [Num α]

/-- the post-condition of `esl_min_ConjugateGradientDescent` on its result `(status, x, fx)` and the recorded reason -/
def CGPost (cfg : MinCfg α) (r : MinRes α × StopWhy) : Prop :=
  r.1 = .hang ∨ ∃ st x fx, r.1 = .res st x fx ∧
    ((st = .ok ∧ isFinite fx = true ∧
        ((r.2 = .converged ∧ ∃ oldfx : α, dcompare fx oldfx cfg.cgRtol cfg.cgAtol = true) ∨ r.2 = .zeroDirection ∨ r.2 = .zeroGradient)) ∨
     (st = .enohalt ∧ r.2 = .none) ∨ (st = .erange ∧ r.2 = .none) ∨ (st = .enoresult ∧ r.2 = .none))

theorem cgLoop_post (cfg : MinCfg α) (f : Array α → α) (df : Option (Array α → Array α)) :
    ∀ (k : Nat) (s : CGState α) (fx0 : α), CGPost cfg (cgLoop cfg f df k s fx0) := by
  intro k
  induction k with
  | zero =>
    intro s fx0
    unfold cgLoop
    exact Or.inr ⟨_, _, _, rfl, Or.inr (Or.inl ⟨rfl, rfl⟩)⟩
  | succ k ih =>
    intro s fx0
    unfold cgLoop
    simp only []
    split
    · exact Or.inr ⟨_, _, _, rfl, Or.inr (Or.inr (Or.inr ⟨rfl, rfl⟩))⟩
    · split
      · exact Or.inl rfl
      · rename_i t fx _
        by_cases hfin : isFinite fx = true
        · simp only [hfin, Bool.not_true, Bool.false_eq_true, if_false]
          split
          · rename_i hc
            exact Or.inr ⟨_, _, _, rfl, Or.inl ⟨rfl, hfin, Or.inl ⟨rfl, s.oldfx, hc⟩⟩⟩
          · split
            · exact Or.inr ⟨_, _, _, rfl, Or.inl ⟨rfl, hfin, Or.inr (Or.inl rfl)⟩⟩
            · exact ih _ _
        · have : (!isFinite fx) = true := by simpa using hfin
          simp only [this, if_true]
          exact Or.inr ⟨_, _, _, rfl, Or.inr (Or.inr (Or.inl ⟨rfl, rfl⟩))⟩

/-- **`esl_min_ConjugateGradientDescent` (model) — what a return means, whatever the objective and the start point:**
    the status is one of eslOK / eslENOHALT / eslERANGE / eslENORESULT; eslOK only when the stopping rule held — the start
    gradient was exactly zero, or `esl_DCompare(fx, oldfx, cg_rtol, cg_atol)` succeeded for two successive line minima, or the
    new conjugate direction was exactly zero — and then `fx` is finite. The main loop runs at most `max_iterations` times and
    `bracket()` at most `brack_maxiter+1` rounds by construction; only `brent()`'s uncapped loop can yield `.hang`. -/
theorem cgd_post (cfg : MinCfg α) (f : Array α → α) (df : Option (Array α → Array α)) (x0 : Array α) :
    CGPost cfg (cgd cfg f df x0) := by
  unfold cgd
  simp only []
  by_cases hfin : isFinite (f x0) = true
  · simp only [hfin, Bool.not_true, Bool.false_eq_true, if_false]
    split
    · exact Or.inr ⟨_, _, _, rfl, Or.inl ⟨rfl, hfin, Or.inr (Or.inr rfl)⟩⟩
    · exact cgLoop_post cfg f df _ _ _
  · have : (!isFinite (f x0)) = true := by simpa using hfin
    simp only [this, if_true]
    exact Or.inr ⟨_, _, _, rfl, Or.inr (Or.inr (Or.inl ⟨rfl, rfl⟩))⟩

/-- the only source of `.hang`: a `brent()` line search that exhausts `brentFuel` (100000 passes) -/
theorem cgLoop_hang (cfg : MinCfg α) (f : Array α → α) (df : Option (Array α → Array α)) :
    ∀ (k : Nat) (s : CGState α) (fx0 : α), (cgLoop cfg f df k s fx0).1 = .hang →
      ∃ (fline : α → α) (a b : α), brentCG cfg fline a b = none := by
  intro k
  induction k with
  | zero => intro s fx0 h; unfold cgLoop at h; cases h
  | succ k ih =>
    intro s fx0 h
    unfold cgLoop at h
    simp only [] at h
    split at h
    · cases h
    · split at h
      · rename_i br _ hb; exact ⟨_, _, _, hb⟩
      · split at h
        · cases h
        · split at h
          · cases h
          · split at h
            · cases h
            · exact ih _ _ h

/-- documented statuses of the two-parameter CG fits, and the location they return -/
theorem fit2_post (mu : α) (cfg : MinCfg α) (r : MinRes α × StopWhy) (hp : CGPost cfg r) (st : St) (ps : Array α)
    (h : fit2Result mu r = .res st ps) :
    (st = .ok ∨ st = .enohalt ∨ st = .erange ∨ st = .enoresult) ∧ ps.getD 0 zero = mu ∧ ps.size = 3 ∧
    (st = .ok → r.2 = .converged ∨ r.2 = .zeroDirection ∨ r.2 = .zeroGradient) := by
  unfold fit2Result at h
  rcases hp with hh | ⟨st', x, fx, e, hcase⟩
  · rw [hh] at h; cases h
  · rw [e] at h
    injection h with h1 h2
    subst h1; subst h2
    refine ⟨?_, rfl, rfl, ?_⟩
    · rcases hcase with ⟨a, _⟩ | ⟨a, _⟩ | ⟨a, _⟩ | ⟨a, _⟩ <;> simp [a]
    · intro hok
      rcases hcase with ⟨_, _, c⟩ | ⟨a, _⟩ | ⟨a, _⟩ | ⟨a, _⟩
      · rcases c with ⟨c, _⟩ | c | c
        · exact Or.inl c
        · exact Or.inr (Or.inl c)
        · exact Or.inr (Or.inr c)
      all_goals (rw [a] at hok; cases hok)

end EaselModel.Stats

namespace EaselModel.Stats
open Num
variable {α : Type} [Num α]

theorem cgd_hang (cfg : MinCfg α) (f : Array α → α) (df : Option (Array α → Array α)) (x0 : Array α)
    (h : (cgd cfg f df x0).1 = .hang) : ∃ (fline : α → α) (a b : α), brentCG cfg fline a b = none := by
  unfold cgd at h
  simp only [] at h
  split at h
  · cases h
  · split at h
    · cases h
    · exact cgLoop_hang cfg f df _ _ _ h

/-- `esl_wei_FitComplete` / `esl_sxp_FitComplete` (model): status ∈ {eslOK, eslENOHALT, eslERANGE, eslENORESULT}; `mu` is
    `esl_vec_DMin(x)`; eslOK only when the minimiser's stopping rule held -/
theorem weiFit_post (xs : Array α) (st : St) (ps : Array α) (h : weiFitComplete xs = .res st ps) :
    (st = .ok ∨ st = .enohalt ∨ st = .erange ∨ st = .enoresult) ∧ ps.getD 0 zero = vmin xs ∧ ps.size = 3 ∧
    (st = .ok → (weiCG xs).2.2 = .converged ∨ (weiCG xs).2.2 = .zeroDirection ∨ (weiCG xs).2.2 = .zeroGradient) := by
  unfold weiFitComplete at h
  exact fit2_post _ _ _ (cgd_post _ _ _ _) st ps h

theorem sxpFit_post (xs : Array α) (st : St) (ps : Array α) (h : sxpFitComplete xs = .res st ps) :
    (st = .ok ∨ st = .enohalt ∨ st = .erange ∨ st = .enoresult) ∧ ps.getD 0 zero = vmin xs ∧ ps.size = 3 ∧
    (st = .ok → (sxpCG xs).2.2 = .converged ∨ (sxpCG xs).2.2 = .zeroDirection ∨ (sxpCG xs).2.2 = .zeroGradient) := by
  unfold sxpFitComplete at h
  exact fit2_post _ _ _ (cgd_post _ _ _ _) st ps h

/-- `esl_gumbel_FitTruncated` (model): documented statuses only (eslENOHALT is mapped to eslENORESULT as documented); on any
    failure both parameters are 0; eslOK only when the minimiser's stopping rule held -/
theorem gumbelFitTruncated_post (xs : Array α) (phi : α) (st : St) (ps : Array α) (h : gumbelFitTruncated xs phi = .res st ps) :
    (st = .ok ∨ st = .einval ∨ st = .enoresult ∨ st = .erange) ∧ ps.size = 2 ∧ (st ≠ .ok → ps = #[zero, zero]) ∧
    (st = .ok → (tevdCG xs phi).2 = .converged ∨ (tevdCG xs phi).2 = .zeroDirection ∨ (tevdCG xs phi).2 = .zeroGradient) := by
  unfold gumbelFitTruncated at h
  split at h
  · injection h with h1 h2; subst h1; subst h2
    exact ⟨by simp, rfl, fun _ => rfl, fun hc => by cases hc⟩
  · split at h
    · injection h with h1 h2; subst h1; subst h2
      exact ⟨by simp, rfl, fun _ => rfl, fun hc => by cases hc⟩
    · have hp := cgd_post (tevdCfg : MinCfg α) (tevdFunc xs phi) (some (tevdGrad xs phi))
        #[(dmean xs).1 - (0.57722 : α) / (piConst / sqrt ((6.0 : α) * (dmean xs).2)), log (piConst / sqrt ((6.0 : α) * (dmean xs).2))]
      have hcg : tevdCG xs phi = cgd (tevdCfg : MinCfg α) (tevdFunc xs phi) (some (tevdGrad xs phi))
        #[(dmean xs).1 - (0.57722 : α) / (piConst / sqrt ((6.0 : α) * (dmean xs).2)), log (piConst / sqrt ((6.0 : α) * (dmean xs).2))] := rfl
      rw [← hcg] at hp
      rcases hp with hh | ⟨st', x, fx, e, hcase⟩
      · rw [hh] at h; cases h
      · rw [e] at h
        rcases hcase with ⟨a, _, c⟩ | ⟨a, _⟩ | ⟨a, _⟩ | ⟨a, _⟩
        · subst a
          simp only [] at h
          injection h with h1 h2; subst h1; subst h2
          refine ⟨by simp, rfl, fun hc => absurd rfl hc, fun _ => ?_⟩
          rcases c with ⟨c, _⟩ | c | c
          · exact Or.inl c
          · exact Or.inr (Or.inl c)
          · exact Or.inr (Or.inr c)
        all_goals
          subst a
          simp only [] at h
          injection h with h1 h2; subst h1; subst h2
          exact ⟨by simp, rfl, fun _ => rfl, fun hc => by cases hc⟩

end EaselModel.Stats
