import EaselModel.Stats.FitCG
/-! # What a return of the conjugate-gradient minimiser means (C11) — for every numeric class, core Lean only -/
namespace EaselModel.Stats
open Num
variable {α : Type} [Num α]

/-- the post-condition of `esl_min_ConjugateGradientDescent` on its result `(status, x, fx)` and the recorded reason -/
def CGPost (cfg : MinCfg α) (r : MinRes α × StopWhy) : Prop :=
  r.1 = .hang ∨ ∃ st x fx, r.1 = .res st x fx ∧
    ((st = .ok ∧ isFinite fx = true ∧
        ((r.2 = .converged ∧ ∃ oldfx : α, dcompare fx oldfx cfg.cgRtol cfg.cgAtol = true) ∨ r.2 = .zeroDirection ∨ r.2 = .zeroGradient)) ∨
     (st = .enohalt ∧ r.2 = .none) ∨ (st = .erange ∧ r.2 = .none) ∨ (st = .enoresult ∧ r.2 = .none))

theorem cgLoop_post (cfg : MinCfg α) (f : Array α → α) (df : Option (Array α → Array α)) :
    ∀ (k : Nat) (s : CGState α) (fx0 : α), CGPost cfg (cgLoop cfg f df k s fx0) := by
  intro k
  induction k with
  | zero =>
    intro s fx0
    unfold cgLoop
    exact Or.inr ⟨_, _, _, rfl, Or.inr (Or.inl ⟨rfl, rfl⟩)⟩
  | succ k ih =>
    intro s fx0
    unfold cgLoop
    simp only []
    split
    · exact Or.inr ⟨_, _, _, rfl, Or.inr (Or.inr (Or.inr ⟨rfl, rfl⟩))⟩
    · split
      · exact Or.inl rfl
      · rename_i t fx _
        by_cases hfin : isFinite fx = true
        · simp only [hfin, Bool.not_true, Bool.false_eq_true, if_false]
          split
          · rename_i hc
            exact Or.inr ⟨_, _, _, rfl, Or.inl ⟨rfl, hfin, Or.inl ⟨rfl, s.oldfx, hc⟩⟩⟩
          · split
            · exact Or.inr ⟨_, _, _, rfl, Or.inl ⟨rfl, hfin, Or.inr (Or.inl rfl)⟩⟩
            · exact ih _ _
        · have : (!isFinite fx) = true := by simpa using hfin
          simp only [this, if_true]
          exact Or.inr ⟨_, _, _, rfl, Or.inr (Or.inr (Or.inl ⟨rfl, rfl⟩))⟩

/-- **`esl_min_ConjugateGradientDescent` (model) — what a return means, whatever the objective and the start point:**
    the status is one of eslOK / eslENOHALT / eslERANGE / eslENORESULT; eslOK only when the stopping rule held — the start
    gradient was exactly zero, or `esl_DCompare(fx, oldfx, cg_rtol, cg_atol)` succeeded for two successive line minima, or the
    new conjugate direction was exactly zero — and then `fx` is finite. The main loop runs at most `max_iterations` times and
    `bracket()` at most `brack_maxiter+1` rounds by construction; only `brent()`'s uncapped loop can yield `.hang`. -/
theorem cgd_post (cfg : MinCfg α) (f : Array α → α) (df : Option (Array α → Array α)) (x0 : Array α) :
    CGPost cfg (cgd cfg f df x0) := by
  unfold cgd
  simp only []
  by_cases hfin : isFinite (f x0) = true
  · simp only [hfin, Bool.not_true, Bool.false_eq_true, if_false]
    split
    · exact Or.inr ⟨_, _, _, rfl, Or.inl ⟨rfl, hfin, Or.inr (Or.inr rfl)⟩⟩
    · exact cgLoop_post cfg f df _ _ _
  · have : (!isFinite (f x0)) = true := by simpa using hfin
    simp only [this, if_true]
    exact Or.inr ⟨_, _, _, rfl, Or.inr (Or.inr (Or.inl ⟨rfl, rfl⟩))⟩

/-- the only source of `.hang`: a `brent()` line search that exhausts `brentFuel` (4·10⁸ passes) -/
theorem cgLoop_hang (cfg : MinCfg α) (f : Array α → α) (df : Option (Array α → Array α)) :
    ∀ (k : Nat) (s : CGState α) (fx0 : α), (cgLoop cfg f df k s fx0).1 = .hang →
      ∃ (fline : α → α) (a b : α), brentCG cfg fline a b = none := by
  intro k
  induction k with
  | zero => intro s fx0 h; unfold cgLoop at h; cases h
  | succ k ih =>
    intro s fx0 h
    unfold cgLoop at h
    simp only [] at h
    split at h
    · cases h
    · split at h
      · rename_i br _ hb; exact ⟨_, _, _, hb⟩
      · split at h
        · cases h
        · split at h
          · cases h
          · split at h
            · cases h
            · exact ih _ _ h

/-- documented statuses of the two-parameter CG fits, and the location they return -/
theorem fit2_post (mu : α) (cfg : MinCfg α) (r : MinRes α × StopWhy) (hp : CGPost cfg r) (st : St) (ps : Array α)
    (h : fit2Result mu r = .res st ps) :
    (st = .ok ∨ st = .enohalt ∨ st = .erange ∨ st = .enoresult) ∧ ps.getD 0 zero = mu ∧ ps.size = 3 ∧
    (st = .ok → r.2 = .converged ∨ r.2 = .zeroDirection ∨ r.2 = .zeroGradient) := by
  unfold fit2Result at h
  rcases hp with hh | ⟨st', x, fx, e, hcase⟩
  · rw [hh] at h; cases h
  · rw [e] at h
    injection h with h1 h2
    subst h1; subst h2
    refine ⟨?_, rfl, rfl, ?_⟩
    · rcases hcase with ⟨a, _⟩ | ⟨a, _⟩ | ⟨a, _⟩ | ⟨a, _⟩ <;> simp [a]
    · intro hok
      rcases hcase with ⟨_, _, c⟩ | ⟨a, _⟩ | ⟨a, _⟩ | ⟨a, _⟩
      · rcases c with ⟨c, _⟩ | c | c
        · exact Or.inl c
        · exact Or.inr (Or.inl c)
        · exact Or.inr (Or.inr c)
      all_goals (rw [a] at hok; cases hok)

end EaselModel.Stats

namespace EaselModel.Stats
open Num
variable {α : Type} [Num α]

theorem cgd_hang (cfg : MinCfg α) (f : Array α → α) (df : Option (Array α → Array α)) (x0 : Array α)
    (h : (cgd cfg f df x0).1 = .hang) : ∃ (fline : α → α) (a b : α), brentCG cfg fline a b = none := by
  unfold cgd at h
  simp only [] at h
  split at h
  · cases h
  · split at h
    · cases h
    · exact cgLoop_hang cfg f df _ _ _ h

/-- `esl_wei_FitComplete` / `esl_sxp_FitComplete` (model): status ∈ {eslOK, eslENOHALT, eslERANGE, eslENORESULT}; `mu` is
    `esl_vec_DMin(x)`; eslOK only when the minimiser's stopping rule held -/
theorem weiFit_post (xs : Array α) (st : St) (ps : Array α) (h : weiFitComplete xs = .res st ps) :
    (st = .ok ∨ st = .enohalt ∨ st = .erange ∨ st = .enoresult) ∧ ps.getD 0 zero = vmin xs ∧ ps.size = 3 ∧
    (st = .ok → (weiCG xs).2.2 = .converged ∨ (weiCG xs).2.2 = .zeroDirection ∨ (weiCG xs).2.2 = .zeroGradient) := by
  unfold weiFitComplete at h
  exact fit2_post _ _ _ (cgd_post _ _ _ _) st ps h

theorem sxpFit_post (xs : Array α) (st : St) (ps : Array α) (h : sxpFitComplete xs = .res st ps) :
    (st = .ok ∨ st = .enohalt ∨ st = .erange ∨ st = .enoresult) ∧ ps.getD 0 zero = vmin xs ∧ ps.size = 3 ∧
    (st = .ok → (sxpCG xs).2.2 = .converged ∨ (sxpCG xs).2.2 = .zeroDirection ∨ (sxpCG xs).2.2 = .zeroGradient) := by
  unfold sxpFitComplete at h
  exact fit2_post _ _ _ (cgd_post _ _ _ _) st ps h

/-- `esl_gumbel_FitTruncated` (model): documented statuses only (eslENOHALT is mapped to eslENORESULT as documented); on any
    failure both parameters are 0; eslOK only when the minimiser's stopping rule held -/
theorem gumbelFitTruncated_post (xs : Array α) (phi : α) (st : St) (ps : Array α) (h : gumbelFitTruncated xs phi = .res st ps) :
    (st = .ok ∨ st = .einval ∨ st = .enoresult ∨ st = .erange) ∧ ps.size = 2 ∧ (st ≠ .ok → ps = #[zero, zero]) ∧
    (st = .ok → (tevdCG xs phi).2 = .converged ∨ (tevdCG xs phi).2 = .zeroDirection ∨ (tevdCG xs phi).2 = .zeroGradient) := by
  unfold gumbelFitTruncated at h
  split at h
  · injection h with h1 h2; subst h1; subst h2
    exact ⟨by simp, rfl, fun _ => rfl, fun hc => by cases hc⟩
  · split at h
    · injection h with h1 h2; subst h1; subst h2
      exact ⟨by simp, rfl, fun _ => rfl, fun hc => by cases hc⟩
    · have hp := cgd_post (tevdCfg : MinCfg α) (tevdFunc xs phi) (some (tevdGrad xs phi))
        #[(dmean xs).1 - (0.57722 : α) / (piConst / sqrt ((6.0 : α) * (dmean xs).2)), log (piConst / sqrt ((6.0 : α) * (dmean xs).2))]
      have hcg : tevdCG xs phi = cgd (tevdCfg : MinCfg α) (tevdFunc xs phi) (some (tevdGrad xs phi))
        #[(dmean xs).1 - (0.57722 : α) / (piConst / sqrt ((6.0 : α) * (dmean xs).2)), log (piConst / sqrt ((6.0 : α) * (dmean xs).2))] := rfl
      rw [← hcg] at hp
      rcases hp with hh | ⟨st', x, fx, e, hcase⟩
      · rw [hh] at h; cases h
      · rw [e] at h
        rcases hcase with ⟨a, _, c⟩ | ⟨a, _⟩ | ⟨a, _⟩ | ⟨a, _⟩
        · subst a
          simp only [] at h
          injection h with h1 h2; subst h1; subst h2
          refine ⟨by simp, rfl, fun hc => absurd rfl hc, fun _ => ?_⟩
          rcases c with ⟨c, _⟩ | c | c
          · exact Or.inl c
          · exact Or.inr (Or.inl c)
          · exact Or.inr (Or.inr c)
        all_goals
          subst a
          simp only [] at h
          injection h with h1 h2; subst h1; subst h2
          exact ⟨by simp, rfl, fun _ => rfl, fun hc => by cases hc⟩

end EaselModel.Stats

namespace EaselModel.Stats
open Num
variable {α : Type} [Num α]

/-- the generalized-Newton loop of `gam_fitting_engine`: status ∈ {eslOK, eslENOHALT, eslERANGE}; eslOK only when BOTH
    `esl_DCompare(old_tau, tau, 1e-6, 1e-6)` and `esl_DCompare(old_fx, fx, 1e-6, 1e-6)` held, before the 100th iteration -/
theorem gamLoop_post (xbar logxbar : α) : ∀ (k iter : Nat) (tau fx : α), iter + k = 100 →
    let r := gamLoop xbar logxbar k iter tau fx
    (r.1 = .ok ∨ r.1 = .enohalt ∨ r.1 = .erange) ∧
    (r.1 = .ok → dcompare r.2.2.1 r.2.1 (1e-6 : α) (1e-6 : α) = true ∧ dcompare r.2.2.2.2.1 r.2.2.2.1 (1e-6 : α) (1e-6 : α) = true ∧ r.2.2.2.2.2 < 100) := by
  intro k
  induction k with
  | zero => intro iter tau fx _; unfold gamLoop; exact ⟨Or.inr (Or.inl rfl), fun h => by cases h⟩
  | succ k ih =>
    intro iter tau fx hinv
    unfold gamLoop
    split
    · rename_i psi tg _ _
      simp only []
      split
      · exact ⟨Or.inr (Or.inr rfl), fun h => by cases h⟩
      · rename_i fx' _
        split
        · exact ih _ _ _ (by omega)
        · rename_i hcont
          split
          · exact ⟨Or.inr (Or.inl rfl), fun h => by cases h⟩
          · rename_i h100
            refine ⟨Or.inl rfl, fun _ => ?_⟩
            simp only [Bool.and_eq_true, Bool.or_eq_true, Bool.not_eq_true', decide_eq_true_eq, not_and, not_or] at hcont
            simp only [beq_iff_eq] at h100
            by_cases hl : iter + 1 < 100
            · have := hcont hl
              refine ⟨?_, ?_, hl⟩
              · cases hd : dcompare tau (one / (one / tau + (logxbar - log xbar + log tau - psi) / (tau - tau * tau * tg))) (1e-6 : α) (1e-6 : α)
                · exact absurd hd (by simpa using this.1)
                · rfl
              · cases hd : dcompare fx fx' (1e-6 : α) (1e-6 : α)
                · exact absurd hd (by simpa using this.2)
                · rfl
            · exfalso; omega
    · exact ⟨Or.inr (Or.inr rfl), fun h => by cases h⟩

end EaselModel.Stats

namespace EaselModel.Stats
open Num
variable {α : Type} [Num α]

/-- `gam_fitting_engine` (hence `esl_gam_FitComplete`, `esl_gam_FitCountHistogram` after their argument checks): at most 100
    rounds; status ∈ {eslOK, eslENOHALT, eslERANGE}; eslOK ⇒ `(lambda, tau) = (tau/xbar, tau)` with both convergence tests passed -/
theorem gamFittingEngine_post (xbar logxbar : α) (st : St) (ps : Array α) (h : gamFittingEngine xbar logxbar = .res st ps) :
    (st = .ok ∨ st = .enohalt ∨ st = .erange) ∧ ps.size = 2 ∧
    (st = .ok → ∃ tau oldtau fx oldfx : α, ps = #[tau / xbar, tau] ∧ dcompare oldtau tau (1e-6 : α) (1e-6 : α) = true ∧
        dcompare oldfx fx (1e-6 : α) (1e-6 : α) = true) := by
  have hp := gamLoop_post xbar logxbar 100 0 ((0.5 : α) / (log xbar - logxbar)) (one / zero) (by omega)
  simp only [] at hp
  unfold gamFittingEngine at h
  simp only [] at h
  rcases hr : gamLoop xbar logxbar 100 0 ((0.5 : α) / (log xbar - logxbar)) (one / zero) with ⟨st', tau, oldtau, fx, oldfx, it⟩
  rw [hr] at h hp
  cases st' with
  | ok =>
    simp only [] at h
    injection h with h1 h2; subst h1; subst h2
    exact ⟨Or.inl rfl, rfl, fun _ => ⟨tau, oldtau, fx, oldfx, rfl, (hp.2 rfl).1, (hp.2 rfl).2.1⟩⟩
  | enohalt => simp only [] at h; injection h with h1 h2; subst h1; subst h2; exact ⟨Or.inr (Or.inl rfl), rfl, fun hc => by cases hc⟩
  | erange => simp only [] at h; injection h with h1 h2; subst h1; subst h2; exact ⟨Or.inr (Or.inr rfl), rfl, fun hc => by cases hc⟩
  | einval => exfalso; rcases hp.1 with c | c | c <;> cases c
  | emem => exfalso; rcases hp.1 with c | c | c <;> cases c
  | enoresult => exfalso; rcases hp.1 with c | c | c <;> cases c

end EaselModel.Stats

namespace EaselModel.Stats
open Num
variable {α : Type} [Num α]

/-- `esl_wei_FitCompleteBinned` (model): a result (no out-of-range bin index) has a status in {eslOK, eslENOHALT, eslERANGE, eslENORESULT},
    `mu` is the documented location (`phi` for a tail fit, else `xmin`, or the lower bound of bin `imin` for rounded data), and eslOK ⇒ the minimiser's stopping rule held -/
theorem weiFitBinned_post (h : Hist α) (tailfit : Bool) (st : St) (ps : Array α) (hr : weiFitCompleteBinned h tailfit = .res st ps) :
    (st = .ok ∨ st = .enohalt ∨ st = .erange ∨ st = .enoresult) ∧ ps.size = 3 ∧
    ps.getD 0 zero = (if tailfit then h.phi else if h.isRounded then h.lbound h.imin else h.xmin) := by
  unfold weiFitCompleteBinned at hr
  split at hr
  · cases hr
  · simp only [] at hr
    obtain ⟨a, b, c, _⟩ := fit2_post _ _ _ (cgd_post _ _ _ _) st ps hr
    exact ⟨a, c, b⟩

end EaselModel.Stats

namespace EaselModel.Stats
open Num
variable {α : Type} [Num α]

/-- `esl_gam_FitCompleteBinned` (model): bracketing (≤ 100 doublings/halvings) and bisection (≤ 100 steps) are capped, so the routine
    is total; a result has status eslOK, eslEINVAL (true-censored data / a midpoint below mu) or eslENOHALT, and three parameters -/
theorem gamFitBinned_post (h : Hist α) (st : St) (ps : Array α) (hr : gamFitCompleteBinned h = .res st ps) :
    (st = .ok ∨ st = .einval ∨ st = .enohalt) ∧ ps.size = 3 := by
  unfold gamFitCompleteBinned at hr
  split at hr
  · injection hr with h1 h2; subst h1; subst h2; exact ⟨Or.inr (Or.inl rfl), rfl⟩
  · simp only [] at hr
    split at hr
    · cases hr
    · split at hr
      · injection hr with h1 h2; subst h1; subst h2; exact ⟨Or.inr (Or.inl rfl), rfl⟩
      · split at hr
        · injection hr with h1 h2; subst h1; subst h2; exact ⟨Or.inl rfl, rfl⟩
        · split at hr
          · injection hr with h1 h2; subst h1; subst h2; exact ⟨Or.inr (Or.inr rfl), rfl⟩
          · split at hr
            · injection hr with h1 h2; subst h1; subst h2; exact ⟨Or.inr (Or.inr rfl), rfl⟩
            · injection hr with h1 h2; subst h1; subst h2; exact ⟨Or.inl rfl, rfl⟩

end EaselModel.Stats
