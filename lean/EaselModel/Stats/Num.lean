/-! # Numeric class for the statistics models (C11)

The numeric code of the histogram and of the maximum-likelihood fits is written ONCE over this class.
* `Float` instance (this file): executable, same libm as the C build, compared bit-for-bit with the C code.
* `ℚ` / `ℝ` instances (`NumRat.lean`, `NumReal.lean`, Mathlib): the theorems.
Nothing here claims anything about rounded results (that layer is L0, DESIGN §3.4). Core Lean only. -/
namespace EaselModel.Stats

class Num (α : Type) extends Add α, Sub α, Mul α, Div α, Neg α, OfScientific α where
  /-- `(double) i` for a C integer `i` -/
  ofInt : Int → α
  /-- C `a < b` (false when unordered) -/
  ltb : α → α → Bool
  /-- C `a <= b` -/
  leb : α → α → Bool
  /-- C `a == b` -/
  eqb : α → α → Bool
  /-- libm `ceil` -/
  ceil : α → α
  /-- C conversion to an integer type (truncation); only used after the code's range check -/
  toInt : α → Int
  /-- C99 `isfinite` -/
  isFinite : α → Bool
  exp : α → α
  log : α → α
  sqrt : α → α
  /-- `fabs` -/
  abs : α → α
  /-- `pow` -/
  pow : α → α → α
  /-- `DBL_MAX` -/
  dblMax : α

namespace Num
variable {α : Type} [Num α]
@[inline] def gtb (a b : α) : Bool := ltb b a
@[inline] def geb (a b : α) : Bool := leb b a
@[inline] def zero : α := ofInt 0
@[inline] def one : α := ofInt 1
end Num

instance : Num Float where
  ofInt := Float.ofInt
  ltb a b := decide (a < b)
  leb a b := decide (a ≤ b)
  eqb a b := a == b
  ceil := Float.ceil
  toInt x := x.toInt64.toInt
  isFinite := Float.isFinite
  exp := Float.exp
  log := Float.log
  sqrt := Float.sqrt
  abs := Float.abs
  pow := Float.pow
  dblMax := Float.ofBits 0x7fefffffffffffff

def INT_MAX : Int := 2147483647
def INT_MIN : Int := -2147483648

end EaselModel.Stats
