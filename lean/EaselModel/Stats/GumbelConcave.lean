import EaselModel.Stats.FitReal
/-! # The Gumbel profile likelihood is concave: a stationary λ is (nearly) the global maximiser (C11) -/
namespace EaselModel.Stats
open Real

/-- weighted exponential sums over a list of (weight, point) pairs -/
noncomputable def wA (l : List (ℝ × ℝ)) (lam : ℝ) : ℝ := (l.map (fun p => p.1 * Real.exp (-lam * p.2))).sum
noncomputable def wB (l : List (ℝ × ℝ)) (lam : ℝ) : ℝ := (l.map (fun p => p.1 * p.2 * Real.exp (-lam * p.2))).sum

/-- termwise tangent bound `e^u ≥ e^m (1 + u - m)` summed over the list -/
theorem wA_tangent (l : List (ℝ × ℝ)) (hc : ∀ p ∈ l, 0 ≤ p.1) (lam lam' m : ℝ) :
    Real.exp m * (wA l lam - (lam' - lam) * wB l lam - m * wA l lam) ≤ wA l lam' := by
  unfold wA wB
  induction l with
  | nil => simp
  | cons p t ih =>
    have iht := ih (fun q hq => hc q (List.mem_cons_of_mem _ hq))
    simp only [List.map_cons, List.sum_cons]
    have hp := hc p List.mem_cons_self
    -- e^{-lam' x} = e^{-lam x} e^{u}, u = -(lam'-lam) x ; e^u ≥ e^m (1 + u - m)
    have hu : Real.exp m * (1 + (-(lam' - lam) * p.2) - m) ≤ Real.exp (-(lam' - lam) * p.2) := by
      have := Real.add_one_le_exp (-(lam' - lam) * p.2 - m)
      have e : Real.exp (-(lam' - lam) * p.2) = Real.exp m * Real.exp (-(lam' - lam) * p.2 - m) := by
        rw [← Real.exp_add]; congr 1; ring
      rw [e]
      have hm : 0 < Real.exp m := Real.exp_pos m
      nlinarith
    have e2 : Real.exp (-lam' * p.2) = Real.exp (-lam * p.2) * Real.exp (-(lam' - lam) * p.2) := by
      rw [← Real.exp_add]; congr 1; ring
    have hpos : 0 ≤ p.1 * Real.exp (-lam * p.2) := mul_nonneg hp (le_of_lt (Real.exp_pos _))
    have : p.1 * Real.exp (-lam * p.2) * (Real.exp m * (1 + (-(lam' - lam) * p.2) - m)) ≤ p.1 * Real.exp (-lam' * p.2) := by
      have h1 := mul_le_mul_of_nonneg_left hu hpos
      have h2 : p.1 * Real.exp (-lam' * p.2) = p.1 * Real.exp (-lam * p.2) * Real.exp (-(lam' - lam) * p.2) := by rw [e2]; ring
      rw [h2]; exact h1
    nlinarith

/-- Jensen in the form needed: `A(λ') ≥ A(λ)·exp(-(λ'-λ)·B(λ)/A(λ))` -/
theorem wA_jensen (l : List (ℝ × ℝ)) (hc : ∀ p ∈ l, 0 ≤ p.1) (lam lam' : ℝ) (hA : 0 < wA l lam) :
    wA l lam * Real.exp (-(lam' - lam) * (wB l lam / wA l lam)) ≤ wA l lam' := by
  have := wA_tangent l hc lam lam' (-(lam' - lam) * (wB l lam / wA l lam))
  have e : wA l lam - (lam' - lam) * wB l lam - -(lam' - lam) * (wB l lam / wA l lam) * wA l lam = wA l lam := by
    field_simp; ring
  rw [e] at this
  rw [mul_comm]; exact this

/-- `gS`, `gT` as weighted sums: observations with weight 1, the censored block with weight `z` -/
theorem gS_eq_wA (xs : List ℝ) (z phi lam : ℝ) : gS xs z phi lam = wA (xs.map (fun x => (1, x)) ++ [(z, phi)]) lam := by
  unfold gS wA; simp [List.map_append, List.sum_append, Function.comp_def]

theorem gT_eq_wB (xs : List ℝ) (z phi lam : ℝ) : gT xs z phi lam = wB (xs.map (fun x => (1, x)) ++ [(z, phi)]) lam := by
  unfold gT wB; simp [List.map_append, List.sum_append, Function.comp_def]

/-- **the profile log-likelihood lies below each of its tangents** (it is concave in `λ`):
    `profile(λ') ≤ profile(λ) + n·f(λ)·(λ' - λ)` for all `λ, λ' > 0`, where `f` is Lawless 4.1.6 / 4.2.2 as coded. -/
theorem profile_below_tangent (xs : List ℝ) (z phi lam lam' : ℝ) (hz : 0 ≤ z) (hn : 0 < xs.length) (hl : 0 < lam) (hl' : 0 < lam')
    (hS : 0 < gS xs z phi lam) (hS' : 0 < gS xs z phi lam') :
    llGumbelProfile xs z phi lam' ≤ llGumbelProfile xs z phi lam + xs.length * lawlessF xs z phi lam * (lam' - lam) := by
  have hnr : (0 : ℝ) < xs.length := by exact_mod_cast hn
  have hc : ∀ p ∈ xs.map (fun x => ((1 : ℝ), x)) ++ [(z, phi)], 0 ≤ p.1 := by
    intro p hp
    rcases List.mem_append.1 hp with h | h
    · obtain ⟨x, _, rfl⟩ := List.mem_map.1 h; exact zero_le_one
    · simp at h; rw [h]; exact hz
  have hj := wA_jensen _ hc lam lam' (by rw [← gS_eq_wA]; exact hS)
  rw [← gS_eq_wA, ← gS_eq_wA, ← gT_eq_wB] at hj
  -- log S(λ') ≥ log S(λ) - (λ'-λ) T/S
  have hlogS : Real.log (gS xs z phi lam) + -(lam' - lam) * (gT xs z phi lam / gS xs z phi lam) ≤ Real.log (gS xs z phi lam') := by
    have := Real.log_le_log (by positivity) hj
    rwa [Real.log_mul (ne_of_gt hS) (ne_of_gt (Real.exp_pos _)), Real.log_exp] at this
  -- log λ' ≤ log λ + (λ'-λ)/λ
  have hlogl : Real.log lam' ≤ Real.log lam + (lam' - lam) / lam := by
    have := Real.log_le_sub_one_of_pos (show 0 < lam' / lam by positivity)
    rw [Real.log_div (ne_of_gt hl') (ne_of_gt hl)] at this
    have e : lam' / lam - 1 = (lam' - lam) / lam := by field_simp
    rw [e] at this; linarith
  unfold llGumbelProfile lawlessF
  rw [Real.log_div (ne_of_gt hS') (ne_of_gt hnr), Real.log_div (ne_of_gt hS) (ne_of_gt hnr)]
  have e : (xs.length : ℝ) * (1 / lam - xs.sum / xs.length + gT xs z phi lam / gS xs z phi lam) * (lam' - lam) =
      xs.length * ((lam' - lam) / lam) - (lam' - lam) * xs.sum + xs.length * ((lam' - lam) * (gT xs z phi lam / gS xs z phi lam)) := by
    field_simp
  rw [e]
  nlinarith [mul_le_mul_of_nonneg_left hlogl (le_of_lt hnr), mul_le_mul_of_nonneg_left hlogS (le_of_lt hnr)]

/-- **near-optimality of a stationary point**: if `|f(λ̂)| < tol` then for ALL `μ'` and ALL `λ' > 0`
    `logL(μ', λ') ≤ logL(μ̂(λ̂), λ̂) + n·tol·|λ' - λ̂|` — the returned pair is the global maximiser up to the Newton tolerance. -/
theorem gumbel_stationary_is_near_optimal (xs : List ℝ) (z phi lam tol : ℝ) (hz : 0 ≤ z) (hn : 0 < xs.length) (hl : 0 < lam)
    (hS : 0 < gS xs z phi lam) (hst : |lawlessF xs z phi lam| < tol) (mu' lam' : ℝ) (hl' : 0 < lam') (hS' : 0 < gS xs z phi lam') :
    llGumbel xs z phi mu' lam' ≤ llGumbel xs z phi (-(Real.log (gS xs z phi lam / xs.length)) / lam) lam + xs.length * tol * |lam' - lam| := by
  have hnr : (0 : ℝ) < xs.length := by exact_mod_cast hn
  have h1 := gumbel_mu_maximises xs z phi lam' hn hl' hS' mu'
  rw [← llGumbelProfile_eq xs z phi lam' hn hl' hS'] at h1
  have h2 := profile_below_tangent xs z phi lam lam' hz hn hl hl' hS hS'
  rw [llGumbelProfile_eq xs z phi lam hn hl hS] at h2
  have h3 : (xs.length : ℝ) * lawlessF xs z phi lam * (lam' - lam) ≤ xs.length * tol * |lam' - lam| := by
    have : lawlessF xs z phi lam * (lam' - lam) ≤ |lawlessF xs z phi lam| * |lam' - lam| := by
      rw [← abs_mul]; exact le_abs_self _
    have : lawlessF xs z phi lam * (lam' - lam) ≤ tol * |lam' - lam| :=
      le_trans this (mul_le_mul_of_nonneg_right (le_of_lt hst) (abs_nonneg _))
    nlinarith
  linarith

end EaselModel.Stats

namespace EaselModel.Stats
open Real

theorem gS_pos (xs : List ℝ) (z phi lam : ℝ) (hz : 0 ≤ z) (hn : 0 < xs.length) : 0 < gS xs z phi lam := by
  unfold gS
  have h1 : 0 < (xs.map (fun x => Real.exp (-lam * x))).sum := by
    cases xs with
    | nil => simp at hn
    | cons a t =>
      simp only [List.map_cons, List.sum_cons]
      have : 0 ≤ (t.map (fun x => Real.exp (-lam * x))).sum :=
        List.sum_nonneg (fun y hy => by obtain ⟨x, _, rfl⟩ := List.mem_map.1 hy; exact le_of_lt (Real.exp_pos _))
      have := Real.exp_pos (-lam * a)
      linarith
  have h2 : 0 ≤ z * Real.exp (-lam * phi) := mul_nonneg hz (le_of_lt (Real.exp_pos _))
  linarith

/-- **`esl_gumbel_FitComplete` = eslOK ⇒ global maximiser up to the Newton tolerance**: for every `μ'` and every `λ' > 0`,
    `logL(μ', λ') ≤ logL(μ, λ) + n·10⁻⁵·|λ' - λ|` at the returned `(μ, λ)` (`λ > 0`). -/
theorem gumbelFitComplete_near_optimal (xs : Array ℝ) (mu lam : ℝ) (h : gumbelFitComplete xs = .res .ok #[mu, lam]) (hl : 0 < lam)
    (mu' lam' : ℝ) (hl' : 0 < lam') :
    llGumbel xs.toList 0 0 mu' lam' ≤ llGumbel xs.toList 0 0 mu lam + xs.size * (1e-5 : ℝ) * |lam' - lam| := by
  obtain ⟨hst, hmu⟩ := gumbelFitComplete_ok xs mu lam h
  have hn : 0 < xs.toList.length := by
    unfold gumbelFitComplete at h
    split at h
    · injection h with h1 _; cases h1
    · simp only [Array.length_toList]; omega
  have := gumbel_stationary_is_near_optimal xs.toList 0 0 lam (1e-5) (le_refl _) hn hl (gS_pos _ _ _ _ (le_refl _) hn) hst mu' lam' hl'
    (gS_pos _ _ _ _ (le_refl _) hn)
  rw [hmu]
  simpa using this

/-- the same for `esl_gumbel_FitCensored` with `z ≥ 0` censored values -/
theorem gumbelFitCensored_near_optimal (xs : Array ℝ) (z : Int) (hz : 0 ≤ z) (phi mu lam : ℝ)
    (h : gumbelFitCensored xs z phi = .res .ok #[mu, lam]) (hl : 0 < lam) (mu' lam' : ℝ) (hl' : 0 < lam') :
    llGumbel xs.toList z phi mu' lam' ≤ llGumbel xs.toList z phi mu lam + xs.size * (1e-5 : ℝ) * |lam' - lam| := by
  obtain ⟨hst, hmu⟩ := gumbelFitCensored_ok xs z phi mu lam h
  have hzr : (0 : ℝ) ≤ (z : ℝ) := by exact_mod_cast hz
  have hn : 0 < xs.toList.length := by
    unfold gumbelFitCensored at h
    split at h
    · injection h with h1 _; cases h1
    · simp only [Array.length_toList]; omega
  have := gumbel_stationary_is_near_optimal xs.toList z phi lam (1e-5) hzr hn hl (gS_pos _ _ _ _ hzr hn) hst mu' lam' hl'
    (gS_pos _ _ _ _ hzr hn)
  rw [hmu]
  simpa using this

end EaselModel.Stats
