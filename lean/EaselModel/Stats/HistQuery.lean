import EaselModel.Stats.HistRat
import Mathlib.Data.List.Sort
/-! # Rank and tail queries agree with the sorted raw data (C11, over ℚ) -/
namespace EaselModel.Stats

/-- value at an (in-range) C index -/
def atQ (xs : Array ℚ) (i : Int) : ℚ := xs.getD i.toNat 0

theorem getX_val (xs : Array ℚ) (i : Int) (h0 : 0 ≤ i) (h1 : i < xs.size) : getX xs i = .val (atQ xs i) := by
  have hb : i.toNat < xs.size := by omega
  unfold getX atQ
  rw [dif_pos ⟨h0, hb⟩]
  congr 1
  simp [Array.getD_eq_getD_getElem?, hb]

/-- the binary search of `esl_histogram_GetTail`, as coded, on a bracket `x[lo] ≤ phi < x[hi]`: never reads out of bounds,
    never runs out of fuel, and returns `mid` with `x[mid-1] ≤ phi < x[mid]` -/
theorem tailSearch_spec (xs : Array ℚ) (phi : ℚ) : ∀ (fuel : Nat) (lo hi : Int), 0 ≤ lo → lo < hi → hi < xs.size →
    atQ xs lo ≤ phi → phi < atQ xs hi → (hi - lo).toNat < fuel →
    ∃ mid : Int, tailSearch xs phi fuel lo hi = .val (some mid) ∧ lo < mid ∧ mid ≤ hi ∧ atQ xs (mid - 1) ≤ phi ∧ phi < atQ xs mid := by
  intro fuel
  induction fuel with
  | zero => intro lo hi _ _ _ _ _ hf; omega
  | succ k ih =>
    intro lo hi h0 hlt hsz hlo hhi hf
    have hm1 : lo < (lo + hi + 1) / 2 := by omega
    have hm2 : (lo + hi + 1) / 2 ≤ hi := by omega
    unfold tailSearch
    simp only []
    rw [getX_val xs _ (by omega) (by omega)]
    simp only []
    by_cases c : atQ xs ((lo + hi + 1) / 2) ≤ phi
    · have hc : Num.leb (atQ xs ((lo + hi + 1) / 2)) phi = true := (leb_q _ _).2 c
      simp only [hc, if_true]
      have hne : (lo + hi + 1) / 2 ≠ hi := by
        intro e; rw [e] at c; exact absurd hhi (not_lt.2 c)
      obtain ⟨mid, e, m1, m2, m3, m4⟩ := ih ((lo + hi + 1) / 2) hi (by omega) (by omega) hsz c hhi (by omega)
      exact ⟨mid, e, by omega, m2, m3, m4⟩
    · have hc : Num.leb (atQ xs ((lo + hi + 1) / 2)) phi = false := by
        rw [Bool.eq_false_iff]; intro h; exact c ((leb_q _ _).1 h)
      simp only [hc, Bool.false_eq_true, if_false]
      rw [getX_val xs _ (by omega) (by omega)]
      simp only []
      by_cases c2 : phi < atQ xs ((lo + hi + 1) / 2 - 1)
      · have hc2 : Num.gtb (atQ xs ((lo + hi + 1) / 2 - 1)) phi = true := (gtb_q _ _).2 c2
        simp only [hc2, if_true]
        have hne : (lo + hi + 1) / 2 ≠ hi := by
          intro e
          have : (lo + hi + 1) / 2 - 1 = lo := by omega
          rw [this] at c2; exact absurd c2 (not_lt.2 hlo)
        obtain ⟨mid, e, m1, m2, m3, m4⟩ := ih lo ((lo + hi + 1) / 2) h0 hm1 (by omega) hlo (not_le.1 c) (by omega)
        exact ⟨mid, e, m1, by omega, m3, m4⟩
      · have hc2 : Num.gtb (atQ xs ((lo + hi + 1) / 2 - 1)) phi = false := by
          rw [Bool.eq_false_iff]; intro h; exact c2 ((gtb_q _ _).1 h)
        simp only [hc2, Bool.false_eq_true, if_false]
        exact ⟨_, rfl, hm1, hm2, not_lt.1 c2, not_le.1 c⟩

/-- in a sorted list, a position `m` with `l[m-1] ≤ phi < l[m]` (either side may be missing) is the number of elements `≤ phi` -/
theorem sorted_count (l : List ℚ) (hs : l.Pairwise (· ≤ ·)) (phi : ℚ) (m : Nat) (hm : m ≤ l.length)
    (hlo : ∀ (h : 0 < m), l[m - 1]'(by omega) ≤ phi) (hhi : ∀ (h : m < l.length), phi < l[m]) :
    l.countP (fun x => decide (x ≤ phi)) = m ∧ (∀ x ∈ l.take m, x ≤ phi) ∧ (∀ x ∈ l.drop m, phi < x) := by
  have hp := List.pairwise_iff_getElem.1 hs
  have h1 : ∀ x ∈ l.take m, x ≤ phi := by
    intro x hx
    obtain ⟨i, hi, rfl⟩ := List.mem_iff_getElem.1 hx
    rw [List.length_take] at hi
    rw [List.getElem_take]
    have hmpos : 0 < m := by omega
    by_cases e : i = m - 1
    · subst e; exact hlo hmpos
    · exact le_trans (hp i (m - 1) (by omega) (by omega) (by omega)) (hlo hmpos)
  have h2 : ∀ x ∈ l.drop m, phi < x := by
    intro x hx
    obtain ⟨i, hi, rfl⟩ := List.mem_iff_getElem.1 hx
    rw [List.length_drop] at hi
    rw [List.getElem_drop]
    have hml : m < l.length := by omega
    by_cases e : i = 0
    · subst e; simpa using hhi hml
    · exact lt_of_lt_of_le (hhi hml) (hp m (m + i) hml (by omega) (by omega))
  refine ⟨?_, h1, h2⟩
  conv_lhs => rw [← List.take_append_drop m l]
  rw [List.countP_append]
  have e1 : (l.take m).countP (fun x => decide (x ≤ phi)) = (l.take m).length :=
    List.countP_eq_length.2 (fun a ha => by simpa using h1 a ha)
  have e2 : (l.drop m).countP (fun x => decide (x ≤ phi)) = 0 :=
    List.countP_eq_zero.2 (fun a ha => by simpa using h2 a ha)
  rw [e1, e2, List.length_take]; omega

end EaselModel.Stats

namespace EaselModel.Stats

/-- the `is_sorted` flag tells the truth -/
def SortedFlagOK (h : Hist ℚ) : Prop := h.isSorted = true → h.x.toList.Pairwise (· ≤ ·)

theorem sort_spec (h : Hist ℚ) (hf : h.isFull = true) (hs : SortedFlagOK h) :
    h.sort.x.toList.Pairwise (· ≤ ·) ∧ h.sort.x.toList.Perm h.x.toList ∧ h.sort.n = h.n ∧ h.sort.isFull = true ∧
    h.sort.isSorted = true ∧ h.sort.obs = h.obs ∧ h.sort.isDone = h.isDone := by
  unfold Hist.sort
  by_cases c : h.isSorted = true
  · rw [if_pos c]; exact ⟨hs c, List.Perm.refl _, by trivial, hf, c, by trivial, by trivial⟩
  · rw [if_neg c]
    have : (!h.isFull) = false := by simp [hf]
    simp only [this, Bool.false_eq_true, if_false]
    refine ⟨?_, ?_, by trivial, hf, by trivial, by trivial, by trivial⟩
    · have := List.pairwise_mergeSort (le := fun a b : ℚ => Num.leb a b)
        (fun a b c h1 h2 => (leb_q _ _).2 (le_trans ((leb_q _ _).1 h1) ((leb_q _ _).1 h2)))
        (fun a b => by
          rcases le_total a b with h | h
          · simp [(leb_q a b).2 h]
          · simp [(leb_q b a).2 h]) h.x.toList
      exact this.imp (fun {a b} hab => (leb_q a b).1 hab)
    · exact List.mergeSort_perm _ _

theorem atQ_eq (xs : Array ℚ) (i : Nat) (h : i < xs.size) : atQ xs (i : Int) = xs.toList[i]'(by simpa using h) := by
  unfold atQ
  simp [Array.getD_eq_getD_getElem?, h]

/-- **`esl_histogram_GetTail(phi)`** on a full histogram that accounts for `vs`: eslOK, no fault; `*ret_z` (= the returned offset `mid`)
    is the number of raw values `≤ phi`, `*ret_n = n - mid`; the returned vector `x + mid` is the sorted raw data above `phi`
    (the data vector is sorted and is a permutation of the accepted values; everything before `mid` is `≤ phi`, everything
    from `mid` on is `> phi`), and the histogram is finished. -/
theorem getTail_spec (h : Hist ℚ) (vs : List ℚ) (acc : Accounts h vs) (hf : h.isFull = true) (hs : SortedFlagOK h) (phi : ℚ) :
    ∃ h' mid, h.getTail phi = .val (.ok, h', mid) ∧ mid = vs.countP (fun x => decide (x ≤ phi)) ∧
      h'.x.toList.Pairwise (· ≤ ·) ∧ h'.x.toList.Perm vs ∧
      (∀ x ∈ h'.x.toList.take mid, x ≤ phi) ∧ (∀ x ∈ h'.x.toList.drop mid, phi < x) ∧ h'.isDone = true ∧ h'.obs = h.obs := by
  obtain ⟨s1, s2, s3, s4, s5, s6, s7⟩ := sort_spec h hf hs
  have hperm : h.sort.x.toList.Perm vs := s2.trans (acc.raw hf)
  have hlen : h.sort.x.toList.length = vs.length := hperm.length_eq
  have hsz : h.sort.x.size = vs.length := by simpa using hlen
  have hn : h.sort.n = vs.length := by rw [s3, acc.n]
  have hcount : ∀ m, h.sort.x.toList.countP (fun x => decide (x ≤ phi)) = m → m = vs.countP (fun x => decide (x ≤ phi)) := by
    intro m hm; rw [← hm]; exact hperm.countP_eq _
  unfold Hist.getTail
  have : (!h.isFull) = false := by simp [hf]
  simp only [this, Bool.false_eq_true, if_false]
  by_cases c0 : vs.length = 0
  · have : (h.sort.n == 0) = true := by rw [hn, c0]; rfl
    simp only [this, if_true]
    have hvs : vs = [] := List.eq_nil_of_length_eq_zero c0
    refine ⟨_, _, rfl, by rw [hn, c0, hvs]; rfl, s1, hperm, ?_, ?_, rfl, s6⟩
    · intro x hx; have := List.mem_of_mem_take hx
      have e : h.sort.x.toList = [] := List.eq_nil_of_length_eq_zero (by rw [hlen, c0])
      rw [e] at this; cases this
    · intro x hx; have := List.mem_of_mem_drop hx
      have e : h.sort.x.toList = [] := List.eq_nil_of_length_eq_zero (by rw [hlen, c0])
      rw [e] at this; cases this
  · have hpos : 0 < vs.length := Nat.pos_of_ne_zero c0
    have : (h.sort.n == 0) = false := by rw [hn, beq_eq_false_iff_ne]; exact c0
    simp only [this, Bool.false_eq_true, if_false]
    rw [getX_val _ 0 (le_refl _) (by rw [hsz]; exact_mod_cast hpos)]
    simp only []
    have a0 : atQ h.sort.x 0 = h.sort.x.toList[0]'(by rw [hlen]; exact hpos) := atQ_eq _ 0 (by rw [hsz]; exact hpos)
    by_cases c1 : phi < atQ h.sort.x 0
    · have : Num.gtb (atQ h.sort.x 0) phi = true := (gtb_q _ _).2 c1
      simp only [this, if_true]
      obtain ⟨k1, k2, k3⟩ := sorted_count _ s1 phi 0 (Nat.zero_le _) (fun h => absurd h (lt_irrefl 0)) (fun _ => by rw [← a0]; exact c1)
      exact ⟨_, 0, rfl, hcount 0 k1, s1, hperm, k2, k3, rfl, s6⟩
    · have : Num.gtb (atQ h.sort.x 0) phi = false := by
        rw [Bool.eq_false_iff]; intro hh; exact c1 ((gtb_q _ _).1 hh)
      simp only [this, Bool.false_eq_true, if_false]
      have hlast : ((h.sort.n : Int) - 1) = ((vs.length - 1 : Nat) : Int) := by rw [hn]; omega
      rw [hlast, getX_val _ _ (by omega) (by rw [hsz]; omega)]
      simp only []
      have aL : atQ h.sort.x ((vs.length - 1 : Nat) : Int) = h.sort.x.toList[vs.length - 1]'(by rw [hlen]; omega) :=
        atQ_eq _ _ (by rw [hsz]; omega)
      by_cases c2 : atQ h.sort.x ((vs.length - 1 : Nat) : Int) ≤ phi
      · have : Num.leb (atQ h.sort.x ((vs.length - 1 : Nat) : Int)) phi = true := (leb_q _ _).2 c2
        simp only [this, if_true]
        obtain ⟨k1, k2, k3⟩ := sorted_count _ s1 phi vs.length (by rw [hlen])
          (fun _ => by rw [aL] at c2; exact c2) (fun hh => by rw [hlen] at hh; exact absurd hh (lt_irrefl _))
        exact ⟨_, h.sort.n, rfl, by rw [hn]; exact hcount _ k1, s1, hperm, by rw [hn]; exact k2, by rw [hn]; exact k3, rfl, s6⟩
      · have : Num.leb (atQ h.sort.x ((vs.length - 1 : Nat) : Int)) phi = false := by
          rw [Bool.eq_false_iff]; intro hh; exact c2 ((leb_q _ _).1 hh)
        simp only [this, Bool.false_eq_true, if_false]
        have h2 : 1 < vs.length := by
          by_contra hc
          have : vs.length - 1 = 0 := by omega
          rw [this] at c2; exact c2 (not_lt.1 c1)
        obtain ⟨mid, e, m1, m2, m3, m4⟩ := tailSearch_spec h.sort.x phi (h.sort.n + 1) 0 ((vs.length - 1 : Nat) : Int)
          (le_refl _) (by omega) (by rw [hsz]; omega) (not_lt.1 c1) (not_le.1 c2) (by rw [hn]; omega)
        rw [e]
        simp only []
        have hmid : ((mid.toNat : Nat) : Int) = mid := by omega
        have b1 : atQ h.sort.x (mid - 1) = h.sort.x.toList[mid.toNat - 1]'(by rw [hlen]; omega) := by
          have := atQ_eq h.sort.x (mid.toNat - 1) (by rw [hsz]; omega)
          rw [← this]; congr 1; omega
        have b2 : atQ h.sort.x mid = h.sort.x.toList[mid.toNat]'(by rw [hlen]; omega) := by
          have := atQ_eq h.sort.x mid.toNat (by rw [hsz]; omega)
          rw [← this, hmid]
        obtain ⟨k1, k2, k3⟩ := sorted_count _ s1 phi mid.toNat (by rw [hlen]; omega)
          (fun _ => by rw [← b1]; exact m3) (fun _ => by rw [← b2]; exact m4)
        exact ⟨_, mid.toNat, rfl, hcount _ k1, s1, hperm, k2, k3, rfl, s6⟩

end EaselModel.Stats

namespace EaselModel.Stats

/-- **`esl_histogram_GetRank(rank)`** on a full histogram accounting for `vs`: ranks outside `1..n` give eslEINVAL; otherwise eslOK and
    the value is element `n - rank` of the sorted raw data (`rank = 1` the largest), read inside the data vector. -/
theorem getRank_spec (h : Hist ℚ) (vs : List ℚ) (acc : Accounts h vs) (hf : h.isFull = true) (hs : SortedFlagOK h) (r : Int) :
    (¬ (1 ≤ r ∧ r ≤ vs.length) → ∃ v, h.getRank r = .val (.einval, h, v)) ∧
    (1 ≤ r ∧ r ≤ vs.length → ∃ h' v, h.getRank r = .val (.ok, h', v) ∧ h'.x.toList.Pairwise (· ≤ ·) ∧ h'.x.toList.Perm vs ∧
        ∃ hi : (vs.length - r.toNat) < h'.x.toList.length, v = h'.x.toList[vs.length - r.toNat] ∧ h'.obs = h.obs) := by
  obtain ⟨s1, s2, s3, s4, s5, s6, s7⟩ := sort_spec h hf hs
  have hperm : h.sort.x.toList.Perm vs := s2.trans (acc.raw hf)
  have hlen : h.sort.x.toList.length = vs.length := hperm.length_eq
  have hsz : h.sort.x.size = vs.length := by simpa using hlen
  have hn : h.n = vs.length := acc.n
  have hnf : (!h.isFull) = false := by simp [hf]
  constructor
  · intro hr
    unfold Hist.getRank
    simp only [hnf, Bool.false_eq_true, if_false]
    by_cases c1 : r > (h.n : Int)
    · rw [if_pos c1]; exact ⟨_, rfl⟩
    · rw [if_neg c1]
      have : r < 1 := by rw [hn] at c1; omega
      rw [if_pos this]; exact ⟨_, rfl⟩
  · intro ⟨r1, r2⟩
    unfold Hist.getRank
    simp only [hnf, Bool.false_eq_true, if_false]
    rw [if_neg (by rw [hn]; omega), if_neg (by omega)]
    have hidx : ((h.sort.n : Int) - r) = ((vs.length - r.toNat : Nat) : Int) := by rw [s3, hn]; omega
    rw [hidx, getX_val _ _ (by omega) (by rw [hsz]; omega)]
    refine ⟨_, _, rfl, s1, hperm, by rw [hlen]; omega, ?_, s6⟩
    exact atQ_eq _ _ (by rw [hsz]; omega)

/-- **`esl_histogram_GetTailByMass(pmass)`**, `0 ≤ pmass ≤ 1`: the tail is the last `⌊n·pmass⌋` elements of the sorted raw data
    (its mass is `≤ pmass`, and one more element would exceed it); other `pmass` give eslEINVAL. -/
theorem getTailByMass_spec (h : Hist ℚ) (vs : List ℚ) (acc : Accounts h vs) (hf : h.isFull = true) (hs : SortedFlagOK h) (p : ℚ) :
    (¬ (0 ≤ p ∧ p ≤ 1) → (h.getTailByMass p).1 = .einval) ∧
    (0 ≤ p ∧ p ≤ 1 → ∃ h' k, h.getTailByMass p = (.ok, h', k) ∧ h'.x.toList.Pairwise (· ≤ ·) ∧ h'.x.toList.Perm vs ∧
        (k : ℚ) ≤ vs.length * p ∧ (vs.length : ℚ) * p < k + 1 ∧ k ≤ vs.length ∧ h'.isDone = true) := by
  obtain ⟨s1, s2, s3, s4, s5, s6, s7⟩ := sort_spec h hf hs
  have hperm : h.sort.x.toList.Perm vs := s2.trans (acc.raw hf)
  have hnf : (!h.isFull) = false := by simp [hf]
  constructor
  · intro hp
    unfold Hist.getTailByMass
    simp only [hnf, Bool.false_eq_true, if_false]
    have : (Num.ltb p (Num.zero : ℚ) || Num.gtb p (Num.one : ℚ)) = true := by
      rw [Bool.or_eq_true, ltb_q, gtb_q]
      show p < ((0 : Int) : ℚ) ∨ ((1 : Int) : ℚ) < p
      simp only [Int.cast_zero, Int.cast_one]
      by_contra hc; rw [not_or, not_lt, not_lt] at hc; exact hp hc
    simp only [this, if_true]
  · intro ⟨p0, p1⟩
    unfold Hist.getTailByMass
    simp only [hnf, Bool.false_eq_true, if_false]
    have : (Num.ltb p (Num.zero : ℚ) || Num.gtb p (Num.one : ℚ)) = false := by
      rw [Bool.or_eq_false_iff]
      constructor
      · rw [Bool.eq_false_iff]; intro hc; rw [ltb_q] at hc
        have : p < ((0 : Int) : ℚ) := hc
        simp only [Int.cast_zero] at this; exact absurd this (not_lt.2 p0)
      · rw [Bool.eq_false_iff]; intro hc; rw [gtb_q] at hc
        have : ((1 : Int) : ℚ) < p := hc
        simp only [Int.cast_one] at this; exact absurd this (not_lt.2 p1)
    simp only [this, Bool.false_eq_true, if_false]
    have hn : h.sort.n = vs.length := by rw [s3, acc.n]
    have hnn : (0 : ℚ) ≤ (vs.length : ℚ) * p := mul_nonneg (by positivity) p0
    have hto : Num.toInt ((Num.ofInt (h.sort.n : Int) : ℚ) * p) = ⌊(vs.length : ℚ) * p⌋ := by
      show (if (0 : ℚ) ≤ ((h.sort.n : Int) : ℚ) * p then ⌊((h.sort.n : Int) : ℚ) * p⌋ else ⌈((h.sort.n : Int) : ℚ) * p⌉) = _
      rw [hn]; simp only [Int.cast_natCast]; rw [if_pos hnn]
    rw [hto]
    have hfl0 : 0 ≤ ⌊(vs.length : ℚ) * p⌋ := Int.floor_nonneg.2 hnn
    have hk : ((⌊(vs.length : ℚ) * p⌋.toNat : Nat) : ℚ) = ((⌊(vs.length : ℚ) * p⌋ : Int) : ℚ) := by
      have : ((⌊(vs.length : ℚ) * p⌋.toNat : Nat) : Int) = ⌊(vs.length : ℚ) * p⌋ := by omega
      exact_mod_cast this
    refine ⟨_, _, rfl, s1, hperm, ?_, ?_, ?_, rfl⟩
    · rw [hk]; exact Int.floor_le _
    · rw [hk]; exact Int.lt_floor_add_one _
    · have : (vs.length : ℚ) * p ≤ vs.length := by nlinarith [show (0 : ℚ) ≤ vs.length by positivity]
      have : ⌊(vs.length : ℚ) * p⌋ ≤ (vs.length : Int) := by
        have := Int.floor_le_floor this
        simpa using this
      omega

end EaselModel.Stats
