import EaselModel.Msa.Model
/-! Lemmas: the in-place compaction loop of `esl_msa_ColumnSubset` equals filter-by-mask. -/
namespace EaselModel.Msa

theorem maskFilter_nil_left {α : Type} (xs : List α) : maskFilter [] xs = [] := by
  cases xs <;> rfl

theorem maskFilter_nil_right {α : Type} (m : List Bool) : maskFilter m ([] : List α) = [] := by
  cases m <;> rfl

theorem maskFilter_length_le {α : Type} : ∀ (m : List Bool) (xs : List α), (maskFilter m xs).length ≤ xs.length
  | [], xs => by simp [maskFilter_nil_left]
  | _ :: _, [] => by simp [maskFilter]
  | b :: m, x :: xs => by
    have := maskFilter_length_le m xs
    cases b <;> simp [maskFilter] <;> omega

theorem maskFilter_append {α : Type} : ∀ (m1 m2 : List Bool) (x1 x2 : List α), m1.length = x1.length →
    maskFilter (m1 ++ m2) (x1 ++ x2) = maskFilter m1 x1 ++ maskFilter m2 x2
  | [], m2, [], x2, _ => by simp [maskFilter_nil_left]
  | [], _, _ :: _, _, h => by simp at h
  | _ :: _, _, [], _, h => by simp at h
  | b :: m1, m2, x :: x1, x2, h => by
    have ih := maskFilter_append m1 m2 x1 x2 (by simpa using h)
    cases b <;> simp [maskFilter, ih]

/-- number of kept columns -/
theorem maskFilter_length_eq_count {α : Type} : ∀ (m : List Bool) (xs : List α), m.length = xs.length →
    (maskFilter m xs).length = (m.filter id).length
  | [], [], _ => rfl
  | [], _ :: _, h => by simp at h
  | _ :: _, [], h => by simp at h
  | b :: m, x :: xs, h => by
    have ih := maskFilter_length_eq_count m xs (by simpa using h)
    cases b <;> simp [maskFilter, ih]

/-- Generalised loop invariant: running the remaining `fuel` iterations from `(opos, npos, buf)` appends to the
    already compacted prefix `buf.take npos` exactly the kept cells of `buf.drop opos` (the terminator cell
    `opos = alen` is always kept). -/
theorem compactGo_spec {α : Type} (useme : List Bool) (alen : Nat) (hm : useme.length = alen) :
    ∀ (fuel opos npos : Nat) (buf : List α), npos ≤ opos → opos + fuel = alen + 1 → buf.length = alen + 1 →
      ∃ buf', compactGo useme alen fuel opos npos buf
                = some (npos + (maskFilter ((useme ++ [true]).drop opos) (buf.drop opos)).length, buf') ∧
              buf'.length = alen + 1 ∧
              buf'.take (npos + (maskFilter ((useme ++ [true]).drop opos) (buf.drop opos)).length)
                = buf.take npos ++ maskFilter ((useme ++ [true]).drop opos) (buf.drop opos) := by
  intro fuel
  induction fuel with
  | zero =>
    intro opos npos buf hle hf hl
    have hop : opos = alen + 1 := by omega
    refine ⟨buf, ?_, hl, ?_⟩
    · have : (useme ++ [true]).drop opos = [] := by
        apply List.drop_eq_nil_of_le; simp [hm, hop]
      simp [compactGo, this, maskFilter_nil_left]
    · have : (useme ++ [true]).drop opos = [] := by
        apply List.drop_eq_nil_of_le; simp [hm, hop]
      simp [this, maskFilter_nil_left]
  | succ fuel ih =>
    intro opos npos buf hle hf hl
    have hopl : opos < buf.length := by omega
    have hdb : buf.drop opos = buf[opos] :: buf.drop (opos + 1) := List.drop_eq_getElem_cons hopl
    have hml : opos < (useme ++ [true]).length := by simp [hm]; omega
    have hdm : (useme ++ [true]).drop opos = (useme ++ [true])[opos] :: (useme ++ [true]).drop (opos + 1) :=
      List.drop_eq_getElem_cons hml
    -- the keep decision of this iteration
    by_cases hk : (useme ++ [true])[opos] = true
    · -- kept
      have hstep : compactGo useme alen (fuel+1) opos npos buf =
          (if npos != opos then
             (if npos < buf.length then compactGo useme alen fuel (opos+1) (npos+1) (buf.set npos buf[opos]) else none)
           else compactGo useme alen fuel (opos+1) (npos+1) buf) := by
        by_cases hlt : opos < alen
        · have hu : useme[opos]? = some true := by
            have h1 : opos < useme.length := by omega
            rw [List.getElem?_eq_getElem h1]
            rw [List.getElem_append_left h1] at hk
            rw [hk]
          simp only [compactGo, hlt, if_true, hu, List.getElem?_eq_getElem hopl]
        · simp only [compactGo, hlt, if_false, List.getElem?_eq_getElem hopl]
      rw [hstep, hdb, hdm, hk]
      simp only [maskFilter, if_true, List.length_cons]
      by_cases hne : npos = opos
      · subst hne
        simp only [bne_self_eq_false, Bool.false_eq_true, if_false]
        obtain ⟨buf', h1, h2, h3⟩ := ih (npos+1) (npos+1) buf (Nat.le_refl _) (by omega) hl
        refine ⟨buf', ?_, h2, ?_⟩
        · rw [h1]; congr 2; omega
        · have e : npos + ((maskFilter (List.drop (npos + 1) (useme ++ [true])) (List.drop (npos + 1) buf)).length + 1)
              = npos + 1 + (maskFilter (List.drop (npos + 1) (useme ++ [true])) (List.drop (npos + 1) buf)).length := by omega
          rw [e, h3, ← List.take_append_getElem hopl]
          simp only [List.append_assoc, List.singleton_append]
      · have hnb : (npos != opos) = true := by simp [hne]
        have hnl : npos < buf.length := by omega
        simp only [hnb, if_true, hnl]
        have hlt : npos < opos := by omega
        obtain ⟨buf', h1, h2, h3⟩ := ih (opos+1) (npos+1) (buf.set npos buf[opos]) (by omega) (by omega) (by simp [hl])
        rw [List.drop_set_of_lt (by omega : npos < opos + 1)] at h1 h3
        refine ⟨buf', ?_, h2, ?_⟩
        · rw [h1]; congr 2; omega
        · have e : npos + ((maskFilter (List.drop (opos + 1) (useme ++ [true])) (List.drop (opos + 1) buf)).length + 1)
              = npos + 1 + (maskFilter (List.drop (opos + 1) (useme ++ [true])) (List.drop (opos + 1) buf)).length := by omega
          rw [e, h3]
          have : List.take (npos + 1) (buf.set npos buf[opos]) = List.take npos buf ++ [buf[opos]] := by
            rw [List.take_set, ← List.take_append_getElem hnl, List.set_append]
            have hlen : (List.take npos buf).length = npos := by simp [Nat.le_of_lt hnl]
            simp [hlen]
          rw [this]; simp only [List.append_assoc, List.singleton_append]
    · -- dropped: only possible for opos < alen
      have hkf : (useme ++ [true])[opos] = false := by simpa using hk
      have hlt : opos < alen := by
        rcases Nat.lt_or_ge opos alen with h | hge
        · exact h
        · exfalso
          have : opos = alen := by omega
          subst this
          simp [hm] at hkf
      have h1 : opos < useme.length := by omega
      have hu : useme[opos]? = some false := by
        rw [List.getElem?_eq_getElem h1]
        rw [List.getElem_append_left h1] at hkf
        rw [hkf]
      have hstep : compactGo useme alen (fuel+1) opos npos buf = compactGo useme alen fuel (opos+1) npos buf := by
        simp only [compactGo, hlt, if_true, hu]
      rw [hstep, hdb, hdm, hkf]
      simp only [maskFilter, Bool.false_eq_true, if_false]
      obtain ⟨buf', h1', h2, h3⟩ := ih (opos+1) npos buf (by omega) (by omega) hl
      exact ⟨buf', h1', h2, h3⟩

/-- `compactBuf` on a buffer of `alen+1` cells: the first `k` cells of the result are the kept cells of the first
    `alen`, cell `k` is the old terminator cell, and `npos = k+1`. -/
theorem compactBuf_spec {α : Type} (useme : List Bool) (alen : Nat) (s : List α) (t : α)
    (hm : useme.length = alen) (hs : s.length = alen) :
    ∃ buf', compactBuf useme alen (s ++ [t]) = some ((maskFilter useme s).length + 1, buf') ∧
            buf'.length = alen + 1 ∧
            buf'.take ((maskFilter useme s).length + 1) = maskFilter useme s ++ [t] := by
  obtain ⟨buf', h1, h2, h3⟩ := compactGo_spec useme alen hm (alen+1) 0 0 (s ++ [t]) (Nat.le_refl _) (by omega) (by simp [hs])
  simp only [List.drop_zero, List.take_zero, List.nil_append, Nat.zero_add] at h1 h3
  have hf : maskFilter (useme ++ [true]) (s ++ [t]) = maskFilter useme s ++ [t] := by
    rw [maskFilter_append useme [true] s [t] (by omega)]; simp [maskFilter]
  rw [hf] at h1 h3
  simp only [List.length_append, List.length_cons, List.length_nil] at h1 h3
  exact ⟨buf', h1, h2, h3⟩

theorem takeWhile_append_stop {p : UInt8 → Bool} : ∀ (l : List UInt8) (t : UInt8) (rest : List UInt8),
    (∀ c ∈ l, p c = true) → p t = false → (l ++ t :: rest).takeWhile p = l
  | [], t, rest, _, ht => by simp [List.takeWhile, ht]
  | c :: l, t, rest, hl, ht => by
    have hc : p c = true := hl c (by simp)
    simp [List.takeWhile, hc, takeWhile_append_stop l t rest (fun c' hc' => hl c' (by simp [hc'])) ht]

theorem mem_maskFilter {α : Type} : ∀ (m : List Bool) (xs : List α) (x : α), x ∈ maskFilter m xs → x ∈ xs
  | [], xs, x, h => by simp [maskFilter_nil_left] at h
  | _ :: _, [], x, h => by simp [maskFilter] at h
  | b :: m, y :: xs, x, h => by
    cases b
    · simp [maskFilter] at h; exact List.mem_cons_of_mem _ (mem_maskFilter m xs x h)
    · simp [maskFilter] at h
      rcases h with h | h
      · simp [h]
      · exact List.mem_cons_of_mem _ (mem_maskFilter m xs x h)

/-- one aligned field: what remains after the in-place loop is filter-by-mask, provided the field is well formed
    (`alen` cells, none equal to the terminator) -/
theorem compactField_eq (useme : List Bool) (alen : Nat) (term : UInt8) (s : Bytes)
    (hm : useme.length = alen) (hs : s.length = alen) (hterm : ∀ c ∈ s, c ≠ term) :
    compactField useme alen term s = some (maskFilter useme s) := by
  obtain ⟨buf', h1, _, h3⟩ := compactBuf_spec useme alen s term hm hs
  simp only [compactField, h1]
  have hb : buf' = (maskFilter useme s ++ [term]) ++ buf'.drop ((maskFilter useme s).length + 1) := by
    rw [← h3, List.take_append_drop]
  rw [hb, List.append_assoc]
  simp only [List.singleton_append]
  rw [takeWhile_append_stop]
  · intro c hc
    have := hterm c (mem_maskFilter _ _ _ hc)
    simp [this]
  · simp

theorem compactAlen_eq (useme : List Bool) (alen : Nat) (hm : useme.length = alen) :
    compactAlen useme alen = some (useme.filter id).length := by
  obtain ⟨buf', h1, _, _⟩ := compactBuf_spec useme alen (List.replicate alen ()) () hm (by simp)
  have e : List.replicate (alen + 1) () = List.replicate alen () ++ [()] := by
    rw [List.replicate_succ']
  simp only [compactAlen, e, h1]
  rw [maskFilter_length_eq_count useme _ (by simp [hm])]
  simp

end EaselModel.Msa
