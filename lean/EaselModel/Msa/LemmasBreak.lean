import EaselModel.Msa.LemmasWuss
/-! Lemmas: the pair-removal loop of `esl_msa_RemoveBrokenBasepairsFromSS` keeps exactly the pairs whose two partners
    are both retained. -/
namespace EaselModel.Msa

/-- a symmetric pair table over positions `1..n` (what `esl_wuss2ct` delivers) -/
def CtOk (n : Nat) (ct : List Nat) : Prop :=
  ct.length = n + 1 ∧
  ∀ i, ct.getD i 0 ≠ 0 → 1 ≤ i ∧ i ≤ n ∧ 1 ≤ ct.getD i 0 ∧ ct.getD i 0 ≤ n ∧ ct.getD (ct.getD i 0) 0 = i ∧ ct.getD i 0 ≠ i

/-- state of the table after the positions `< apos` have been visited -/
def brokenUpTo (useme : List Bool) (ct : List Nat) (apos : Nat) (i : Nat) : Nat :=
  if ct.getD i 0 ≠ 0 ∧ (i < apos → useme.getD (i-1) false = true) ∧
     (ct.getD i 0 < apos → useme.getD (ct.getD i 0 - 1) false = true) then ct.getD i 0 else 0

theorem breakPairs_inv (useme : List Bool) (n : Nat) (ct : List Nat) (hct : CtOk n ct) :
    ∀ (fuel apos : Nat) (cur : List Nat), 1 ≤ apos → apos + fuel = n + 1 → cur.length = n + 1 →
      (∀ i, cur.getD i 0 = brokenUpTo useme ct apos i) →
      ∀ i, (breakPairs useme apos fuel cur).getD i 0 = brokenUpTo useme ct (n+1) i := by
  intro fuel
  induction fuel with
  | zero =>
    intro apos cur _ hf _ hP i
    have : apos = n + 1 := by omega
    subst this
    simpa [breakPairs] using hP i
  | succ fuel ih =>
    intro apos cur h1 hf hlen hP
    have hle : apos ≤ n := by omega
    simp only [breakPairs]
    by_cases hu : useme.getD (apos-1) false = true
    · -- column kept: nothing changes
      simp only [hu, Bool.not_true, Bool.false_eq_true, if_false]
      apply ih (apos+1) cur (by omega) (by omega) hlen
      intro i
      rw [hP i]
      simp only [brokenUpTo]
      have e1 : (i < apos + 1 → useme.getD (i-1) false = true) ↔ (i < apos → useme.getD (i-1) false = true) := by
        constructor
        · intro h hlt; exact h (by omega)
        · intro h hlt
          rcases Nat.lt_or_ge i apos with h2 | h2
          · exact h h2
          · have : i = apos := by omega
            subst this; exact hu
      have e2 : (ct.getD i 0 < apos + 1 → useme.getD (ct.getD i 0 - 1) false = true) ↔
                (ct.getD i 0 < apos → useme.getD (ct.getD i 0 - 1) false = true) := by
        constructor
        · intro h hlt; exact h (by omega)
        · intro h hlt
          rcases Nat.lt_or_ge (ct.getD i 0) apos with h2 | h2
          · exact h h2
          · have : ct.getD i 0 = apos := by omega
            rw [this]; exact hu
      simp only [e1, e2]
    · -- column removed
      have huf : useme.getD (apos-1) false = false := by simpa using hu
      simp only [huf, Bool.not_false, if_true]
      have hstep : (if (cur.getD apos 0 != 0) = true then cur.set (cur.getD apos 0) 0 else cur)
                 = (if cur.getD apos 0 ≠ 0 then cur.set (cur.getD apos 0) 0 else cur) := by
        by_cases h : cur.getD apos 0 = 0 <;> simp [h]
      rw [hstep]
      have haposlen : apos < cur.length := by omega
      -- value at apos in the current table
      have hp := hP apos
      apply ih (apos+1) _ (by omega) (by omega) (by split <;> simp [hlen])
      intro i
      by_cases hia : i = apos
      · subst hia
        rw [getD_set_self _ _ _ _ (by split <;> simp [hlen] <;> omega)]
        simp only [brokenUpTo]
        rw [if_neg]
        intro h
        have := h.2.1 (by omega)
        rw [huf] at this; cases this
      · rw [getD_set_ne _ _ _ _ _ (fun e => hia e.symm)]
        by_cases hci : ct.getD i 0 = apos
        · -- i is the partner of apos
          have hpart : ct.getD apos 0 = i := by
            have := (hct.2 i (by rw [hci]; omega)).2.2.2.2.1
            rw [hci] at this; exact this
          have rhs0 : brokenUpTo useme ct (apos+1) i = 0 := by
            simp only [brokenUpTo]
            rw [if_neg]
            intro h
            have := h.2.2 (by omega)
            rw [hci, huf] at this; cases this
          rw [rhs0]
          by_cases hp0 : cur.getD apos 0 = 0
          · rw [if_neg (fun h => h hp0)]
            rw [hP i]
            -- the pair was already broken when i was visited
            simp only [brokenUpTo] at hp ⊢
            rw [hp0] at hp
            by_cases hc : ct.getD apos 0 ≠ 0 ∧ (apos < apos → useme.getD (apos-1) false = true) ∧
                (ct.getD apos 0 < apos → useme.getD (ct.getD apos 0 - 1) false = true)
            · rw [if_pos hc] at hp; exact absurd hp.symm hc.1
            · rw [if_neg]
              intro h
              apply hc
              refine ⟨by rw [hpart]; intro e; rw [e] at hia; exact (by
                          have := (hct.2 i (by rw [hci]; omega)).1; omega), fun hlt => by omega, fun hlt => ?_⟩
              rw [hpart]
              rw [hpart] at hlt
              exact h.2.1 hlt
          · have hpv : cur.getD apos 0 = i := by
              simp only [brokenUpTo] at hp
              split at hp
              · rw [hp, hpart]
              · exact absurd hp hp0
            rw [if_pos hp0]
            rw [hpv, getD_set_self _ _ _ _ (by
              have := (hct.2 i (by rw [hci]; omega)).2.1; omega)]
        · -- unrelated position
          have hsame : brokenUpTo useme ct (apos+1) i = brokenUpTo useme ct apos i := by
            simp only [brokenUpTo]
            have e1 : (i < apos + 1 → useme.getD (i-1) false = true) ↔ (i < apos → useme.getD (i-1) false = true) := by
              constructor
              · intro h hlt; exact h (by omega)
              · intro h hlt; exact h (by omega)
            have e2 : (ct.getD i 0 < apos + 1 → useme.getD (ct.getD i 0 - 1) false = true) ↔
                      (ct.getD i 0 < apos → useme.getD (ct.getD i 0 - 1) false = true) := by
              constructor
              · intro h hlt; exact h (by omega)
              · intro h hlt; exact h (by omega)
            simp only [e1, e2]
          rw [hsame, ← hP i]
          split
          · rename_i hp0
            have hpi : cur.getD apos 0 ≠ i := by
              intro e
              -- then ct[apos] = i, hence ct[i] = apos
              have hpv : cur.getD apos 0 = ct.getD apos 0 := by
                simp only [brokenUpTo] at hp
                split at hp
                · exact hp
                · exact absurd hp hp0
              have hne : ct.getD apos 0 ≠ 0 := by rw [← hpv]; exact hp0
              have := (hct.2 apos hne).2.2.2.2.1
              rw [← hpv, e] at this
              exact hci this
            rw [getD_set_ne _ _ _ _ _ hpi]
          · rfl

/-- `esl_msa_RemoveBrokenBasepairsFromSS`'s loop over `apos = 1..len`: the remaining pairs are exactly the original
    pairs whose two partners are both kept -/
theorem breakPairs_spec' (useme : List Bool) (n : Nat) (ct : List Nat) (hct : CtOk n ct) (i : Nat) :
    (breakPairs useme 1 n ct).getD i 0 =
      if ct.getD i 0 ≠ 0 ∧ useme.getD (i-1) false = true ∧ useme.getD (ct.getD i 0 - 1) false = true
      then ct.getD i 0 else 0 := by
  have h := breakPairs_inv useme n ct hct n 1 ct (Nat.le_refl _) (by omega) hct.1
    (fun i => by
      simp only [brokenUpTo]
      by_cases h0 : ct.getD i 0 = 0
      · rw [if_neg (fun h => h.1 h0), h0]
      · have := hct.2 i h0
        rw [if_pos ⟨h0, fun h => by omega, fun h => by omega⟩]) i
  rw [h]
  simp only [brokenUpTo]
  by_cases h0 : ct.getD i 0 = 0
  · rw [if_neg (fun h => h.1 h0), if_neg (fun h => h.1 h0)]
  · have := hct.2 i h0
    have e1 : (i < n + 1 → useme.getD (i-1) false = true) ↔ useme.getD (i-1) false = true :=
      ⟨fun h => h (by omega), fun h _ => h⟩
    have e2 : (ct.getD i 0 < n + 1 → useme.getD (ct.getD i 0 - 1) false = true) ↔ useme.getD (ct.getD i 0 - 1) false = true :=
      ⟨fun h => h (by omega), fun h _ => h⟩
    simp only [e1, e2]

theorem wuss2ct_ctOk (ss : Bytes) (ct : List Nat) (h : wuss2ct ss = some ct) : CtOk ss.length ct :=
  wuss2ct_involution' ss ct h

end EaselModel.Msa
