import EaselModel.Msa.LemmasClass
/-! Lemmas: COMPLETE characterisation of what `esl_wuss2ct` returns: the table it builds from a string is a class-nested
    labelling of that string (the converse of `wuss2ct_of_class_labels'`). -/
namespace EaselModel.Msa

theorem closer_not_opener_nat : ∀ n, n < 256 →
    (isOpenBr (UInt8.ofNat n) = true → openerClass (closerOf (UInt8.ofNat n)) = none) ∧
    (isUpper (UInt8.ofNat n) = true → openerClass (toLower (UInt8.ofNat n)) = none) ∧
    (isUnpairedSym (UInt8.ofNat n) = true → openerClass (UInt8.ofNat n) = none) := by decide +kernel

theorem closer_not_opener (c : UInt8) :
    (isOpenBr c = true → openerClass (closerOf c) = none) ∧ (isUpper c = true → openerClass (toLower c) = none) ∧
    (isUnpairedSym c = true → openerClass c = none) := by
  have := closer_not_opener_nat c.toNat (UInt8.toNat_lt c)
  rw [ofNat_toNat] at this; exact this

/-- the right end of a pair does not carry an opening symbol -/
theorem pairOk_right_not_opener (ss : Bytes) (a b : Nat) (h : pairOk ss a b) : openerClass (ss.getD (b-1) 0) = none := by
  rcases h.2 with ⟨ho, hc⟩ | ⟨hu, hc⟩
  · rw [hc]; exact (closer_not_opener _).1 ho
  · rw [hc]; exact (closer_not_opener _).2.1 hu

structure W2CInv2 (ss : Bytes) (pos : Nat) (pda : List (List Nat)) (ct : List Nat) : Prop where
  base : W2CInv ss pos pda ct
  unp : ∀ p, 1 ≤ p → p < pos → ct.getD p 0 = 0 → isUnpairedSym (ss.getD (p-1) 0) = true ∨ ∃ k, p ∈ pda.getD k []
  nest : ∀ i0, ct.getD i0 0 ≠ 0 → i0 < ct.getD i0 0 → ∀ p, i0 < p → p < ct.getD i0 0 →
    openerClass (ss.getD (p-1) 0) = openerClass (ss.getD (i0-1) 0) →
    ct.getD p 0 ≠ 0 ∧ p < ct.getD p 0 ∧ ct.getD p 0 < ct.getD i0 0

theorem inv2_skip {ss pos pda ct} (h : W2CInv2 ss pos pda ct) (hu : isUnpairedSym (ss.getD (pos-1) 0) = true) :
    W2CInv2 ss (pos+1) pda ct where
  base := inv_skip h.base
  unp := by
    intro p h1 h2 h3
    by_cases hp : p = pos
    · subst hp; exact Or.inl hu
    · exact h.unp p h1 (by omega) h3
  nest := h.nest

theorem inv2_push {ss pos pda ct} (h : W2CInv2 ss pos pda ct) (k : Nat) (hk : k < 27) (hpos : 1 ≤ pos)
    (hc : openerClass (ss.getD (pos-1) 0) = some k) : W2CInv2 ss (pos+1) (pushAt pda k pos) ct where
  base := inv_push h.base k hk hpos hc
  unp := by
    intro p h1 h2 h3
    by_cases hp : p = pos
    · subst hp
      right; refine ⟨k, ?_⟩
      rw [pushAt, getD_set_self _ _ _ _ (by rw [h.base.pdalen]; exact hk)]; simp
    · rcases h.unp p h1 (by omega) h3 with hu | ⟨k', hk'⟩
      · exact Or.inl hu
      · right; refine ⟨k', ?_⟩
        by_cases hkk : k = k'
        · subst hkk
          rw [pushAt, getD_set_self _ _ _ _ (by rw [h.base.pdalen]; exact hk)]
          exact List.mem_cons_of_mem _ hk'
        · rw [pushAt, getD_set_ne _ _ _ _ _ hkk]; exact hk'
  nest := h.nest

theorem inv2_pop {ss pos pda ct} (h : W2CInv2 ss pos pda ct) (k : Nat) (hk : k < 27) (hle : pos ≤ ss.length)
    (pair : Nat) (tl : List Nat) (hs : pda.getD k [] = pair :: tl) (hok : pairOk ss pair pos) :
    W2CInv2 ss (pos+1) (pda.set k tl) ((ct.set pos pair).set pair pos) := by
  have hb := h.base
  have hpair := hb.stk k pair (by rw [hs]; simp)
  have hdec := hb.dec k
  rw [hs, List.pairwise_cons] at hdec
  have hposlen : pos < ct.length := by rw [hb.ctlen]; omega
  have hpairlen : pair < (ct.set pos pair).length := by rw [List.length_set, hb.ctlen]; omega
  have hne : pos ≠ pair := by omega
  have rd_pair : ((ct.set pos pair).set pair pos).getD pair 0 = pos := getD_set_self _ _ _ _ hpairlen
  have rd_pos : ((ct.set pos pair).set pair pos).getD pos 0 = pair := by
    rw [getD_set_ne _ _ _ _ _ (Ne.symm hne), getD_set_self _ _ _ _ hposlen]
  have rd_other : ∀ q, q ≠ pos → q ≠ pair → ((ct.set pos pair).set pair pos).getD q 0 = ct.getD q 0 := by
    intro q h1 h2
    rw [getD_set_ne _ _ _ _ _ (Ne.symm h2), getD_set_ne _ _ _ _ _ (Ne.symm h1)]
  refine ⟨inv_pop hb k hk hle pair tl hs hok, ?_, ?_⟩
  · intro p h1 h2 h3
    have hp1 : p ≠ pos := by intro e; subst e; rw [rd_pos] at h3; omega
    have hp2 : p ≠ pair := by intro e; subst e; rw [rd_pair] at h3; omega
    rw [rd_other p hp1 hp2] at h3
    rcases h.unp p h1 (by omega) h3 with hu | ⟨k', hk'⟩
    · exact Or.inl hu
    · right; refine ⟨k', ?_⟩
      by_cases hkk : k = k'
      · subst hkk
        rw [getD_set_self _ _ _ _ (by rw [hb.pdalen]; exact hk)]
        rw [hs] at hk'
        simp only [List.mem_cons] at hk'
        rcases hk' with e | hk'
        · exact absurd e hp2
        · exact hk'
      · rw [getD_set_ne _ _ _ _ _ hkk]; exact hk'
  · intro i0 hi0 hlt p hp1 hp2 hcls
    by_cases hip : i0 = pair
    · subst hip
      rw [rd_pair] at hp2 ⊢
      have hpc : openerClass (ss.getD (p-1) 0) = some k := by rw [hcls]; exact hpair.2.2.2
      have hpp : p ≠ pos := by omega
      have hpq : p ≠ i0 := by omega
      rw [rd_other p hpp hpq]
      have hnz : ct.getD p 0 ≠ 0 := by
        intro hz
        rcases h.unp p (by omega) hp2 hz with hu | ⟨k', hk'⟩
        · rw [(closer_not_opener _).2.2 hu] at hpc; cases hpc
        · have hst := hb.stk k' p hk'
          rw [hst.2.2.2] at hpc
          have : k' = k := Option.some.inj hpc
          subst this
          rw [hs] at hk'
          simp only [List.mem_cons] at hk'
          rcases hk' with e | hk'
          · omega
          · have := hdec.1 p hk'; omega
      have hsy := hb.sym p hnz
      refine ⟨hnz, ?_, by omega⟩
      rcases hsy.2.2.2.2.2 with hpo | hpo
      · exact hpo.1
      · exfalso
        have := pairOk_right_not_opener ss _ _ hpo
        rw [this] at hpc; cases hpc
    · by_cases hiq : i0 = pos
      · subst hiq
        rw [rd_pos] at hlt; omega
      · rw [rd_other i0 hiq hip] at hi0 hlt hp2 ⊢
        have hold := h.nest i0 hi0 hlt p hp1 hp2 hcls
        have hsy := hb.sym i0 hi0
        have hpp : p ≠ pos := by omega
        have hpq : p ≠ pair := by intro e; subst e; exact hold.1 hpair.2.2.1
        rw [rd_other p hpp hpq]
        exact hold

theorem inv2_init (ss : Bytes) : W2CInv2 ss 1 (List.replicate 27 []) (List.replicate (ss.length + 1) 0) where
  base := inv_init ss
  unp := by intro p h1 h2; omega
  nest := by
    intro i0 hi0
    exfalso; apply hi0
    simp only [List.getD_eq_getElem?_getD, List.getElem?_replicate]
    split <;> rfl

theorem w2cLoop_inv2 (ss : Bytes) : ∀ (rest : Bytes) (pos : Nat) (pda : List (List Nat)) (ct : List Nat),
    ss.drop (pos-1) = rest → 1 ≤ pos → W2CInv2 ss pos pda ct →
    ∀ pda' ct', w2cLoop ss rest pos pda ct = some (pda', ct') →
      ∃ pos', ss.length + 1 ≤ pos' ∧ W2CInv2 ss pos' pda' ct' := by
  intro rest
  induction rest with
  | nil =>
    intro pos pda ct hd hpos hinv pda' ct' hrun
    simp only [w2cLoop, Option.some.injEq, Prod.mk.injEq] at hrun
    obtain ⟨rfl, rfl⟩ := hrun
    have hlen : ss.length ≤ pos - 1 := by
      rcases Nat.lt_or_ge (pos-1) ss.length with h1 | h1
      · rw [List.drop_eq_getElem_cons h1] at hd; cases hd
      · exact h1
    exact ⟨pos, by omega, hinv⟩
  | cons c rest ih =>
    intro pos pda ct hd hpos hinv pda' ct' hrun
    obtain ⟨hc, hlt, hdrop⟩ := drop_cons_getD ss (pos-1) c rest hd
    have hd' : ss.drop (pos + 1 - 1) = rest := by
      have : pos + 1 - 1 = pos - 1 + 1 := by omega
      rw [this]; exact hdrop
    have hle : pos ≤ ss.length := by omega
    have hb := hinv.base
    unfold w2cLoop at hrun
    split at hrun
    · cases hrun
    · split at hrun
      · rename_i hob
        have hcl : openerClass (ss.getD (pos-1) 0) = some 0 := by rw [hc]; simp [openerClass, hob]
        exact ih (pos+1) _ ct hd' (by omega) (inv2_push hinv 0 (by omega) hpos hcl) pda' ct' hrun
      · split at hrun
        · rename_i hcb
          split at hrun
          · cases hrun
          · rename_i pair tl hs
            split at hrun
            · cases hrun
            · rename_i hmatch
              have hm : closerOf (ss.getD (pair-1) 0) = c := by simpa using hmatch
              have hpair := hb.stk 0 pair (by rw [hs]; simp)
              have hopen : isOpenBr (ss.getD (pair-1) 0) = true := by
                have := hpair.2.2.2
                simp only [openerClass] at this
                split at this
                · assumption
                · split at this
                  · rename_i hu
                    have hb' := (pkIndex_upper_bounds _ hu).1
                    injection this with this; omega
                  · cases this
              have hok : pairOk ss pair pos := ⟨hpair.2.1, Or.inl ⟨hopen, by rw [hc, hm]⟩⟩
              exact ih (pos+1) _ _ hd' (by omega) (inv2_pop hinv 0 (by omega) hle pair tl hs hok) pda' ct' hrun
        · split at hrun
          · rename_i hob _ hup
            have hcl : openerClass (ss.getD (pos-1) 0) = some (pkIndex c) := by
              have : isOpenBr c = false := by simpa using hob
              rw [hc]; simp [openerClass, this, hup]
            exact ih (pos+1) _ ct hd' (by omega)
              (inv2_push hinv (pkIndex c) (pkIndex_upper_bounds c hup).2 hpos hcl) pda' ct' hrun
          · split at hrun
            · rename_i hlow
              split at hrun
              · cases hrun
              · rename_i pair tl hs
                have hpair := hb.stk (pkIndex c) pair (by rw [hs]; simp)
                have hkb := pkIndex_lower_bounds c hlow
                have hup : isUpper (ss.getD (pair-1) 0) = true ∧ pkIndex (ss.getD (pair-1) 0) = pkIndex c := by
                  have := hpair.2.2.2
                  simp only [openerClass] at this
                  split at this
                  · injection this with this; omega
                  · split at this
                    · rename_i hu; injection this with this; exact ⟨hu, this⟩
                    · cases this
                have hok : pairOk ss pair pos :=
                  ⟨hpair.2.1, Or.inr ⟨hup.1, by rw [hc]; exact lower_of_same_index _ c hup.1 hlow hup.2⟩⟩
                exact ih (pos+1) _ _ hd' (by omega) (inv2_pop hinv (pkIndex c) hkb.2 hle pair tl hs hok) pda' ct' hrun
            · split at hrun
              · rename_i hun
                exact ih (pos+1) pda ct hd' (by omega) (inv2_skip hinv (by rw [hc]; exact hun)) pda' ct' hrun
              · cases hrun

/-- WHAT `esl_wuss2ct` RETURNS, completely: its table is a class-nested labelling of the string it read -/
theorem wuss2ct_class_labels (ss : Bytes) (ct : List Nat) (h : wuss2ct ss = some ct) :
    ClassLabels ct ss ∧ ClassNested ct ss := by
  have hpm := wuss2ct_pairs_matched' ss ct h
  unfold wuss2ct at h
  split at h
  · cases h
  · rename_i pda ct' hrun
    split at h
    · rename_i hall
      injection h with h; subst h
      obtain ⟨pos', hpos', inv⟩ := w2cLoop_inv2 ss ss 1 _ _ (by simp) (Nat.le_refl _) (inv2_init ss) pda ct' hrun
      have hempty : ∀ k, pda.getD k [] = [] := by
        intro k
        rw [List.all_eq_true] at hall
        by_cases hk : k < pda.length
        · have := hall (pda.getD k []) (by
            rw [List.getD_eq_getElem?_getD, List.getElem?_eq_getElem hk]; simp)
          simpa using this
        · simp [List.getD_eq_getElem?_getD, List.getElem?_eq_none (Nat.le_of_not_lt hk)]
      constructor
      · intro p hp1 hp2
        refine ⟨fun h0 => ?_, fun hlt => ?_⟩
        · rcases inv.unp p hp1 (by omega) h0 with hu | ⟨k, hk⟩
          · exact hu
          · rw [hempty k] at hk; simp at hk
        · exact (hpm p (by omega) hlt).2
      · intro i i' hi hi' hlt hlt2 hleft' hcls
        exact (inv.nest i hi (by omega) i' hlt hlt2 hcls.symm).2.2
    · cases h

end EaselModel.Msa
