/-! GENERATED on every run by props/c15.py from esl_msa_Sample() of the working tree. Do not edit. -/
namespace EaselModel.Msa.Gen
/-- `esl_random(rng) < pgap` iff the raw word is below this -/
def thrGap : Nat := 429496730
/-- `esl_random(rng) < pdegen` -/
def thrDegen : Nat := 85899346
/-- `esl_random(rng) < pcons` -/
def thrCons : Nat := 3006477108
/-- `maxn`: longest sampled name -/
def sampleMaxName : Nat := 30
end EaselModel.Msa.Gen
