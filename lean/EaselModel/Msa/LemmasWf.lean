import EaselModel.Msa.LemmasFlushIP
import EaselModel.Msa.LemmasMsa
import EaselModel.Msa.LemmasConv
/-! Lemmas: well-formedness after `esl_msa_FlushLeftInserts`, `esl_msa_MarkFragments_old`, `esl_msa_Digitize`. -/
namespace EaselModel.Msa

theorem flushGo_mem (abc : Abc) : ∀ (rf row : Bytes) (a : Nat) (out : Bytes) (c : UInt8),
    c ∈ flushGo abc rf row a out → c ∈ out ∨ c ∈ row ∨ c = abc.xGap
  | [], _, _, out, c, h => by simp only [flushGo] at h; exact Or.inl h
  | _ :: _, [], _, out, c, h => by simp only [flushGo] at h; exact Or.inl h
  | rfc :: rf, x :: row, a, out, c, h => by
    simp only [flushGo] at h
    split at h
    · rcases flushGo_mem abc rf row (a+1) _ c h with h1 | h1 | h1
      · simp only [List.mem_append, List.mem_replicate, List.mem_singleton] at h1
        rcases h1 with (h1 | ⟨_, h1⟩) | h1
        · exact Or.inl h1
        · exact Or.inr (Or.inr h1)
        · exact Or.inr (Or.inl (by simp [h1]))
      · exact Or.inr (Or.inl (List.mem_cons_of_mem _ h1))
      · exact Or.inr (Or.inr h1)
    · split at h
      · rcases flushGo_mem abc rf row (a+1) _ c h with h1 | h1 | h1
        · exact Or.inl h1
        · exact Or.inr (Or.inl (List.mem_cons_of_mem _ h1))
        · exact Or.inr (Or.inr h1)
      · rcases flushGo_mem abc rf row (a+1) _ c h with h1 | h1 | h1
        · simp only [List.mem_append, List.mem_singleton] at h1
          rcases h1 with h1 | h1
          · exact Or.inl h1
          · exact Or.inr (Or.inl (by simp [h1]))
        · exact Or.inr (Or.inl (List.mem_cons_of_mem _ h1))
        · exact Or.inr (Or.inr h1)

theorem flushRow_mem (abc : Abc) (rf row : Bytes) (alen : Nat) (c : UInt8) (h : c ∈ flushRow abc rf alen row) :
    c ∈ row ∨ c = abc.xGap := by
  unfold flushRow at h
  simp only [List.mem_append, List.mem_replicate] at h
  rcases h with h | ⟨_, h⟩
  · rcases flushGo_mem abc _ _ 0 [] c h with h1 | h1 | h1
    · simp at h1
    · exact Or.inl (List.mem_of_mem_take h1)
    · exact Or.inr h1
  · exact Or.inr h

/-- `esl_msa_FlushLeftInserts` keeps the alignment well formed -/
theorem flushLeftInserts_wf (m : Msa) (a : Abc) (rf : Bytes) (wf : m.WF) (hrf : m.rf = some rf)
    (hd : m.isDigital = true) (hg : a.xIsGap a.xGap = true) (hK : a.K < 255) :
    ({ m with rows := m.rows.map (flushRow a rf m.alen) } : Msa).WF := by
  have ht : Msa.rowTerm { m with rows := m.rows.map (flushRow a rf m.alen) } = dsqSentinel := by
    have : Msa.isDigital { m with rows := m.rows.map (flushRow a rf m.alen) } = true := hd
    simp [Msa.rowTerm, this]
  have ht0 : m.rowTerm = dsqSentinel := by simp [Msa.rowTerm, hd]
  refine { wf with rows_len := by simp [wf.rows_len], rows_ok := ?_ }
  intro r hr
  simp only [List.mem_map] at hr
  obtain ⟨r0, hr0, rfl⟩ := hr
  have h0 := wf.rows_ok r0 hr0
  refine ⟨(flushRow_spec a hg rf r0 m.alen (wf.rf_ok rf hrf).1 h0.1).1, ?_⟩
  intro c hc
  rw [ht]
  rcases flushRow_mem a rf r0 m.alen c hc with h1 | h1
  · have := h0.2 c h1; rw [ht0] at this; exact this
  · rw [h1]
    intro e
    have := congrArg UInt8.toNat e
    simp [Abc.xGap, dsqSentinel] at this
    omega

/-- `esl_msa_MarkFragments_old` keeps the alignment well formed -/
theorem markFragmentsOld_wf (m : Msa) (isFrag : Nat → Bool) (wf : m.WF)
    (hmiss : (fragSyms m).2 ≠ m.rowTerm) : (markFragmentsOld m isFrag).WF := by
  have ht : (markFragmentsOld m isFrag).rowTerm = m.rowTerm := rfl
  unfold markFragmentsOld
  refine { wf with rows_len := by simp [wf.rows_len], rows_ok := ?_ }
  intro r hr
  simp only [List.mem_map] at hr
  obtain ⟨r0, hr0, rfl⟩ := hr
  have h0 := wf.rows_ok r0 hr0
  show strOk m.alen m.rowTerm _
  split
  · refine ⟨?_, ?_⟩
    · have : (maskEnds (fragSyms m).1 (fragSyms m).2 r0).length = r0.length := by
        simp [maskEnds, maskLead_length]
      rw [this]; exact h0.1
    · intro c hc
      have hmem : c ∈ r0 ∨ c = (fragSyms m).2 := by
        unfold maskEnds at hc
        rw [List.mem_reverse] at hc
        rcases maskLead_mem _ _ _ c hc with h1 | h1
        · rw [List.mem_reverse] at h1
          exact (maskLead_mem _ _ _ c h1)
        · exact Or.inr h1
      rcases hmem with h1 | h1
      · exact h0.2 c h1
      · rw [h1]; exact hmiss
  · exact h0

/-- `esl_msa_Digitize` on a well-formed text alignment whose residues are all valid symbols: the digital alignment is well
    formed (codes below `Kp`, so no sentinel inside a row) -/
theorem digitize_wf (a : Abc) (m : Msa) (wf : m.WF) (hd : m.isDigital = false)
    (hv : (m.rows.all fun r => r.all a.cIsValid) = true) (hKp : a.Kp ≤ 255) :
    (digitize a m).st = .ok ∧ (digitize a m).msa.WF := by
  have hfl := flags_text m wf hd
  have hv' : (m.rows.all fun r => (r.take m.alen).all a.cIsValid) = true := by
    rw [List.all_eq_true] at hv ⊢
    intro r hr
    have := hv r hr
    rw [List.all_eq_true] at this ⊢
    intro c hc
    exact this c (List.mem_of_mem_take hc)
  have hres : digitize a m = { msa := { m with rows := m.rows.map (fun r => r.map a.digit), abc := some a, flags := m.flags ||| flagDigital }, st := .ok } := by
    simp [digitize, hd, hv']
  rw [hres]
  refine ⟨rfl, ?_⟩
  have hdig : Msa.isDigital { m with rows := m.rows.map (fun r => r.map a.digit), abc := some a, flags := m.flags ||| flagDigital } = true := by
    rcases hfl with h | h <;> simp [Msa.isDigital, h, flagDigital]
  have ht : Msa.rowTerm { m with rows := m.rows.map (fun r => r.map a.digit), abc := some a, flags := m.flags ||| flagDigital } = dsqSentinel := by simp [Msa.rowTerm, hdig]
  refine { wf with
    flags_lt := by rcases hfl with h | h <;> simp [h, flagDigital]
    rows_len := by simp [wf.rows_len]
    rows_ok := ?_ }
  intro r hr
  simp only [List.mem_map] at hr
  obtain ⟨r0, hr0, rfl⟩ := hr
  have h0 := wf.rows_ok r0 hr0
  refine ⟨by simp [h0.1], ?_⟩
  intro c hc
  simp only [List.mem_map] at hc
  obtain ⟨x, hx, rfl⟩ := hc
  rw [ht]
  have hvx : a.cIsValid x = true := by
    rw [List.all_eq_true] at hv
    have := hv r0 hr0
    rw [List.all_eq_true] at this
    exact this x hx
  simp only [Abc.cIsValid, Bool.and_eq_true, decide_eq_true_eq] at hvx
  intro e
  have := congrArg UInt8.toNat e
  simp [dsqSentinel] at this
  omega

/-- `esl_msa_Textize` on a well-formed digital alignment whose codes are valid: the text alignment is well formed (every
    symbol of the alphabet is a non-NUL character) -/
theorem textize_wf (a : Abc) (m : Msa) (wf : m.WF) (hd : m.isDigital = true) (habc : m.abc = some a) (hc : m.codesOk a)
    (hsym : ∀ x, x < a.Kp → a.sym.getD x 0 ≠ 0) : (textize m).st = .ok ∧ (textize m).msa.WF := by
  have hfl := flags_digital m wf hd
  have hres : textize m = { msa := { m with rows := m.rows.map (fun r => (r.take m.alen).map (fun x => a.sym.getD x.toNat 0)), abc := none, flags := m.flags - flagDigital }, st := .ok } := by
    simp [textize, hd, habc]
  rw [hres]
  refine ⟨rfl, ?_⟩
  have hdig : Msa.isDigital { m with rows := m.rows.map (fun r => (r.take m.alen).map (fun x => a.sym.getD x.toNat 0)), abc := none, flags := m.flags - flagDigital } = false := by
    rcases hfl with h | h <;> simp [Msa.isDigital, h, flagDigital]
  have ht : Msa.rowTerm { m with rows := m.rows.map (fun r => (r.take m.alen).map (fun x => a.sym.getD x.toNat 0)), abc := none, flags := m.flags - flagDigital } = 0 := by unfold Msa.rowTerm; rw [hdig]; rfl
  refine { wf with
    flags_lt := by rcases hfl with h | h <;> simp [h, flagDigital]
    rows_len := by simp [wf.rows_len]
    rows_ok := ?_ }
  intro r hr
  simp only [List.mem_map] at hr
  obtain ⟨r0, hr0, rfl⟩ := hr
  have h0 := wf.rows_ok r0 hr0
  refine ⟨by simp [h0.1], ?_⟩
  intro c hcm
  simp only [List.mem_map] at hcm
  obtain ⟨x, hx, rfl⟩ := hcm
  rw [ht]
  exact hsym x.toNat (hc r0 hr0 x (List.mem_of_mem_take hx))

end EaselModel.Msa
