import EaselModel.Msa.Wuss
/-! # Model of the alignment transformations of esl_msa.c (kind H)

`Msa` mirrors `ESL_MSA` (struct of arrays; a NULL optional array and an array of NULLs are the same thing to every
function modelled here, so optional per-sequence arrays are `List (Option Bytes)` of length `nseq`).
Aligned strings are stored WITHOUT their terminator; the in-place compaction loop of `esl_msa_ColumnSubset` is run on
`field ++ [terminator]` (NUL for text, `eslDSQ_SENTINEL` for `ax[i]+1`) exactly as the C loop runs `opos = 0..alen`
and moves the terminator, and the resulting C string is what `strlen`/`esl_abc_dsqlen` would see (`takeWhile`).
Every data-dependent access is bounds checked; a failed check is the outcome `fault`.
Core Lean only. Allocation failure is not modelled. -/
namespace EaselModel.Msa

/-- the parts of `ESL_ALPHABET` the MSA code uses -/
structure Abc where
  type : Nat                         -- eslRNA = 1, eslDNA = 2, eslAMINO = 3
  K : Nat
  Kp : Nat
  sym : List UInt8                   -- Kp symbols
  inmap : List UInt8                 -- 128 entries
  complement : Option (List UInt8)   -- Kp entries, or NULL
  degen : List (List Bool) := []     -- Kp rows of K flags: `abc->degen[x][y]`
  ndegen : List Nat := []            -- Kp entries: `abc->ndegen[x]`
  deriving Repr, DecidableEq, Inhabited

def dsqSentinel : UInt8 := 255

namespace Abc
def xIsGap (a : Abc) (x : UInt8) : Bool := x.toNat == a.K
def xIsMissing (a : Abc) (x : UInt8) : Bool := x.toNat == a.Kp - 1
def xIsResidue (a : Abc) (x : UInt8) : Bool := x.toNat < a.K || (x.toNat > a.K && x.toNat < a.Kp - 2)
def xGap (a : Abc) : UInt8 := UInt8.ofNat a.K
def xMissing (a : Abc) : UInt8 := UInt8.ofNat (a.Kp - 1)
/-- `a->inmap[(int) c]` (callers only pass 7-bit characters; see `Msa.wf`) -/
def digit (a : Abc) (c : UInt8) : UInt8 := a.inmap.getD c.toNat 254
def cIsValid (a : Abc) (c : UInt8) : Bool := c.toNat < 128 && (a.digit c).toNat < a.Kp
def cIsGap (a : Abc) (c : UInt8) : Bool := (a.digit c).toNat == a.K
def cIsMissing (a : Abc) (c : UInt8) : Bool := (a.digit c).toNat == a.Kp - 1
def isNucleic (a : Abc) : Bool := a.type == 1 || a.type == 2
end Abc

def flagHasWgts : Nat := 1
def flagDigital : Nat := 2

structure Msa where
  nseq : Nat
  alen : Nat
  flags : Nat
  abc : Option Abc
  rows : List Bytes                       -- aseq[i][0..alen-1]  or  ax[i][1..alen]
  sqname : List Bytes
  wgt : List UInt64                       -- bit patterns of the doubles
  name : Option Bytes
  desc : Option Bytes
  acc : Option Bytes
  au : Option Bytes
  ss_cons : Option Bytes
  sa_cons : Option Bytes
  pp_cons : Option Bytes
  rf : Option Bytes
  mm : Option Bytes
  sqacc : List (Option Bytes)
  sqdesc : List (Option Bytes)
  ss : List (Option Bytes)
  sa : List (Option Bytes)
  pp : List (Option Bytes)
  cutoff : List UInt32                    -- bit patterns of the 6 floats
  cutset : List Bool
  comment : List Bytes
  gf : List (Bytes × Bytes)
  gs : List (Bytes × List (Option Bytes))
  gc : List (Bytes × Bytes)
  gr : List (Bytes × List (Option Bytes))
  deriving Repr, DecidableEq, Inhabited

def Msa.isDigital (m : Msa) : Bool := m.flags / 2 % 2 == 1
def Msa.hasWgts (m : Msa) : Bool := m.flags % 2 == 1

/-- `esl_msa_Create(nseq, alen)` as the harness initialises it (weights 1.0, rows of '-') -/
def Msa.create (nseq alen : Nat) : Msa :=
  { nseq := nseq, alen := alen, flags := 0, abc := none,
    rows := List.replicate nseq (List.replicate alen 0x2d),
    sqname := (List.range nseq).map (fun i => (s!"s{i}").toUTF8.toList),
    wgt := List.replicate nseq 0x3ff0000000000000,
    name := none, desc := none, acc := none, au := none,
    ss_cons := none, sa_cons := none, pp_cons := none, rf := none, mm := none,
    sqacc := List.replicate nseq none, sqdesc := List.replicate nseq none,
    ss := List.replicate nseq none, sa := List.replicate nseq none, pp := List.replicate nseq none,
    cutoff := List.replicate 6 0, cutset := List.replicate 6 false,
    comment := [], gf := [], gs := [], gc := [], gr := [] }

/-! ## statuses -/
inductive St where
  | ok | einval | eincompat | esyntax | efail | einconceivable
  | fault
  deriving Repr, DecidableEq, Inhabited

/-- result of an operation: the (possibly modified) alignment, the status, and whether `ESL_EXCEPTION` was raised -/
structure Res where
  msa : Msa
  st : St
  exc : Bool := false
  deriving Repr, Inhabited

def St.ofWErr : WErr → St
  | .einval => .einval | .einconceivable => .einconceivable | .efail => .efail | .esyntax => .esyntax | .fault => .fault
  | .einvalLetters _ => .einval

/-- what the caller's SS buffer holds after a failed `esl_msa_RemoveBrokenBasepairsFromSS`: untouched, except when
    `esl_ct2wuss` gave up half way ("not enough letters") -/
def ssAfterError (e : WErr) (s : Bytes) : Bytes :=
  match e with
  | .einvalLetters p => p
  | _ => s
/-- which `WErr`s come out of `ESL_EXCEPTION` (all of `esl_ct2wuss`'s), as opposed to a plain error return -/
def WErr.isExc : WErr → Bool
  | .esyntax => false | .fault => false | _ => true

/-! ## the in-place compaction loop of esl_msa_ColumnSubset, for ONE buffer -/

/-- `for (opos = 0, npos = 0; opos <= alen; opos++) { if (opos < alen && useme[opos] == FALSE) continue;
      if (npos != opos) buf[npos] = buf[opos];  npos++; }`   (`fuel` = iterations left). `none` = out-of-bounds access. -/
def compactGo {α : Type} (useme : List Bool) (alen : Nat) :
    (fuel opos npos : Nat) → List α → Option (Nat × List α)
  | 0, _, npos, buf => some (npos, buf)
  | fuel+1, opos, npos, buf =>
    if opos < alen then
      match useme[opos]? with
      | none => none
      | some false => compactGo useme alen fuel (opos+1) npos buf
      | some true =>
        if npos != opos then
          match buf[opos]? with
          | none => none
          | some x => if npos < buf.length then compactGo useme alen fuel (opos+1) (npos+1) (buf.set npos x) else none
        else compactGo useme alen fuel (opos+1) (npos+1) buf
    else
      if npos != opos then
        match buf[opos]? with
        | none => none
        | some x => if npos < buf.length then compactGo useme alen fuel (opos+1) (npos+1) (buf.set npos x) else none
      else compactGo useme alen fuel (opos+1) (npos+1) buf

def compactBuf {α : Type} (useme : List Bool) (alen : Nat) (buf : List α) : Option (Nat × List α) :=
  compactGo useme alen (alen+1) 0 0 buf

/-- compaction of one aligned field stored with terminator `term`; the result is the C string that remains -/
def compactField (useme : List Bool) (alen : Nat) (term : UInt8) (s : Bytes) : Option Bytes :=
  match compactBuf useme alen (s ++ [term]) with
  | none => none
  | some (_, buf) => some (buf.takeWhile (· != term))

/-- `msa->alen = npos-1` -/
def compactAlen (useme : List Bool) (alen : Nat) : Option Nat :=
  match compactBuf useme alen (List.replicate (alen+1) ()) with
  | none => none
  | some (npos, _) => some (npos - 1)

def optMapM {α β : Type} (f : α → Option β) : List α → Option (List β)
  | [] => some []
  | x :: xs => match f x, optMapM f xs with
    | some y, some ys => some (y :: ys)
    | _, _ => none

/-- apply to an optional string (`if (p != NULL) ...`) -/
def optField (f : Bytes → Option Bytes) : Option Bytes → Option (Option Bytes)
  | none => some none
  | some s => match f s with
    | some r => some (some r)
    | none => none

/-! ## esl_msa_RemoveBrokenBasepairs -/

/-- per-sequence part: stops at the first failing string, leaving it and the later ones untouched -/
def rbbSeqs (useme : List Bool) : List (Option Bytes) → List (Option Bytes) × Option WErr
  | [] => ([], none)
  | none :: rest => let (r, e) := rbbSeqs useme rest; (none :: r, e)
  | some s :: rest =>
    match removeBrokenFromSS s useme with
    | .error e => (some (ssAfterError e s) :: rest, some e)
    | .ok s' => let (r, e) := rbbSeqs useme rest; (some s' :: r, e)

def removeBrokenBasepairs (m : Msa) (useme : List Bool) : Res :=
  match (match m.ss_cons with
         | none => (Except.ok none : Except WErr (Option Bytes))
         | some s => (removeBrokenFromSS s useme).map some) with
  | .error e => { msa := { m with ss_cons := m.ss_cons.map (ssAfterError e) }, st := St.ofWErr e, exc := e.isExc }
  | .ok sc =>
    let (ss, e) := rbbSeqs useme m.ss
    let m' := { m with ss_cons := sc, ss := ss }
    match e with
    | none => { msa := m', st := .ok }
    | some e => { msa := m', st := St.ofWErr e, exc := e.isExc }

/-! ## esl_msa_ColumnSubset -/

/-- the compaction part of `esl_msa_ColumnSubset` (after the optional base-pair repair) -/
def columnCompact (m : Msa) (useme : List Bool) : Option Msa :=
  let f := compactField useme m.alen 0
  let frow := compactField useme m.alen (if m.isDigital then dsqSentinel else 0)
  match compactAlen useme m.alen, optMapM frow m.rows,
        optMapM (optField f) m.ss, optMapM (optField f) m.sa, optMapM (optField f) m.pp,
        optMapM (fun (t : Bytes × List (Option Bytes)) => (optMapM (optField f) t.2).map (fun v => (t.1, v))) m.gr,
        optField f m.ss_cons, optField f m.sa_cons, optField f m.pp_cons, optField f m.rf, optField f m.mm,
        optMapM (fun (t : Bytes × Bytes) => (f t.2).map (fun v => (t.1, v))) m.gc with
  | some alen', some rows, some ss, some sa, some pp, some gr, some ssc, some sac, some ppc, some rf, some mm, some gc =>
    some { m with alen := alen', rows := rows, ss := ss, sa := sa, pp := pp, gr := gr,
                  ss_cons := ssc, sa_cons := sac, pp_cons := ppc, rf := rf, mm := mm, gc := gc }
  | _, _, _, _, _, _, _, _, _, _, _, _ => none

def columnSubset (m : Msa) (useme : List Bool) : Res :=
  let r : Res := match m.abc with
    | some a => if a.isNucleic then removeBrokenBasepairs m useme else { msa := m, st := .ok }
    | none => { msa := m, st := .ok }
  if r.st != .ok then r
  else match columnCompact r.msa useme with
    | none => { msa := r.msa, st := .fault }
    | some m' => { msa := m', st := .ok }

/-! ## MinimGaps / NoGaps -/

/-- `strchr(gaps, c) != NULL` for a character of an aligned row -/
def inGaps (gaps : Bytes) (c : UInt8) : Bool := gaps.contains c || c == 0

def colOf (rows : List Bytes) (apos : Nat) : List UInt8 := rows.map (fun r => r.getD apos 0)

def minimGapsTextMask (m : Msa) (gaps : Bytes) (considerRf : Bool) : List Bool :=
  (List.range m.alen).map fun apos =>
    let rfNongap := match m.rf with
      | some rf => !inGaps gaps (rf.getD apos 0)
      | none => false
    if rfNongap && considerRf then true
    else !(colOf m.rows apos).all (inGaps gaps)

def minimGapsText (m : Msa) (gaps : Bytes) (considerRf fixBps : Bool) : Res :=
  let useme := minimGapsTextMask m gaps considerRf
  let r : Res := if fixBps then removeBrokenBasepairs m useme else { msa := m, st := .ok }
  if r.st != .ok then r else columnSubset r.msa useme

def minimGapsDigitalMask (m : Msa) (a : Abc) (considerRf : Bool) : List Bool :=
  (List.range m.alen).map fun apos =>
    let rfNongap := match m.rf with
      | some rf => !a.cIsGap (rf.getD apos 0) && !a.cIsMissing (rf.getD apos 0)
      | none => false
    if rfNongap && considerRf then true
    else !(colOf m.rows apos).all (fun x => a.xIsGap x || a.xIsMissing x)

def minimGaps (m : Msa) (gaps : Bytes) (considerRf : Bool) : Res :=
  if m.isDigital then
    match m.abc with
    | some a => columnSubset m (minimGapsDigitalMask m a considerRf)
    | none => { msa := m, st := .fault }
  else minimGapsText m gaps considerRf false

def noGapsTextMask (m : Msa) (gaps : Bytes) : List Bool :=
  (List.range m.alen).map fun apos => !(colOf m.rows apos).any (inGaps gaps)

def noGapsText (m : Msa) (gaps : Bytes) (fixBps : Bool) : Res :=
  let useme := noGapsTextMask m gaps
  let r : Res := if fixBps then removeBrokenBasepairs m useme else { msa := m, st := .ok }
  if r.st != .ok then r else columnSubset r.msa useme

def noGapsDigitalMask (m : Msa) (a : Abc) : List Bool :=
  (List.range m.alen).map fun apos => !(colOf m.rows apos).any (fun x => a.xIsGap x || a.xIsMissing x)

def noGaps (m : Msa) (gaps : Bytes) : Res :=
  if m.isDigital then
    match m.abc with
    | some a => columnSubset m (noGapsDigitalMask m a)
    | none => { msa := m, st := .fault }
  else noGapsText m gaps false

/-! ## esl_msa_SequenceSubset -/

/-- keep the elements whose flag is set (`for (oidx...) if (useme[oidx]) { ...; nidx++ }`) -/
def maskFilter {α : Type} : List Bool → List α → List α
  | b :: bs, x :: xs => if b then x :: maskFilter bs xs else maskFilter bs xs
  | _, _ => []

abbrev TagTable := List (Bytes × List (Option Bytes))

/-- Find the tag (the keyhash lookup of `esl_msa_AddGS`/`esl_msa_AppendGR`) or append a new row of `nnew` NULL slots,
    then update slot `nidx` of that row with `f`. -/
def tblUpdate (nnew : Nat) (f : Option Bytes → Option Bytes) (tag : Bytes) (nidx : Nat) : TagTable → TagTable
  | [] => [(tag, (List.replicate nnew none).modify nidx f)]
  | (t, vals) :: rest =>
    if t = tag then (t, vals.modify nidx f) :: rest else (t, vals) :: tblUpdate nnew f tag nidx rest

/-- slot `i` of the row of `tag` (NULL if there is no such row) -/
def tblLookup (tag : Bytes) (i : Nat) : TagTable → Option Bytes
  | [] => none
  | (t, vals) :: rest => if t = tag then vals.getD i none else tblLookup tag i rest

/-- what `esl_msa_AddGS` stores: the value, or `old \n value` when the sequence already has this tag -/
def gsStore (value : Bytes) : Option Bytes → Option Bytes
  | none => some value
  | some old => some (old ++ [0x0a] ++ value)

/-- what `esl_msa_AppendGR`'s `esl_strcat` stores: nothing for an empty value, else the concatenation -/
def grStore (value : Bytes) (old : Option Bytes) : Option Bytes :=
  if value.isEmpty then old else some (old.getD [] ++ value)

/-- `esl_msa_AddGS(new, tag, -1, nidx, value, -1)` on a table with `nnew` sequence slots -/
def addGS (nnew : Nat) (tbl : TagTable) (tag : Bytes) (nidx : Nat) (value : Bytes) : TagTable :=
  tblUpdate nnew (gsStore value) tag nidx tbl

/-- `esl_msa_AppendGR(new, tag, nidx, value)` -/
def appendGR (nnew : Nat) (tbl : TagTable) (tag : Bytes) (nidx : Nat) (value : Bytes) : TagTable :=
  tblUpdate nnew (grStore value) tag nidx tbl

/-- the unparsed-annotation part of the copy loop: for every retained sequence, every tag with a value -/
def subsetTags (add : TagTable → Bytes → Nat → Bytes → TagTable) (src : TagTable) (useme : List Bool) :
    (oidx nidx : Nat) → (fuel : Nat) → TagTable → TagTable
  | _, _, 0, acc => acc
  | oidx, nidx, fuel+1, acc =>
    if useme.getD oidx false then
      let acc := src.foldl (fun acc (t : Bytes × List (Option Bytes)) =>
        match t.2.getD oidx none with
        | some v => add acc t.1 nidx v
        | none => acc) acc
      subsetTags add src useme (oidx+1) (nidx+1) fuel acc
    else subsetTags add src useme (oidx+1) nidx fuel acc

/-- the alignment `esl_msa_SequenceSubset` builds when `nnew > 0` sequences are selected -/
def sequenceSubsetMsa (m : Msa) (useme : List Bool) (nnew : Nat) : Msa :=
  let cut := fun (s : Option Bytes) => s.map (fun b => b.take m.alen)   -- esl_strdup(s, alen, ..) copies a C string
  { nseq := nnew, alen := m.alen, flags := m.flags, abc := m.abc,
    rows := maskFilter useme m.rows, sqname := maskFilter useme m.sqname, wgt := maskFilter useme m.wgt,
    name := m.name, desc := m.desc, acc := m.acc, au := m.au,
    ss_cons := cut m.ss_cons, sa_cons := cut m.sa_cons, pp_cons := cut m.pp_cons, rf := cut m.rf, mm := cut m.mm,
    sqacc := maskFilter useme m.sqacc, sqdesc := maskFilter useme m.sqdesc,
    ss := maskFilter useme m.ss, sa := maskFilter useme m.sa, pp := maskFilter useme m.pp,
    cutoff := m.cutoff, cutset := m.cutset,
    comment := [], gf := [], gc := [],
    gs := subsetTags (addGS nnew) m.gs useme 0 0 m.nseq [],
    gr := subsetTags (appendGR nnew) m.gr useme 0 0 m.nseq [] }

/-- `nnew`: `for (oidx = 0; oidx < nseq; oidx++) if (useme[oidx]) nnew++;` -/
def countSelected (m : Msa) (useme : List Bool) : Nat := ((useme.take m.nseq).filter id).length

def sequenceSubset (m : Msa) (useme : List Bool) : Except (St × Bool) Msa :=
  if countSelected m useme == 0 then .error (.einval, true)       -- ESL_EXCEPTION(eslEINVAL, "No sequences selected")
  else .ok (sequenceSubsetMsa m useme (countSelected m useme))

/-- `esl_msa_Clone` / `esl_msa_Create` + `esl_msa_Copy`: every modelled field is duplicated -/
def clone (m : Msa) : Msa := m

/-! ## text <-> digital -/

def digitize (a : Abc) (m : Msa) : Res :=
  if m.isDigital then { msa := m, st := .einval, exc := true }          -- contract check
  else if !(m.rows.all fun r => (r.take m.alen).all a.cIsValid) then { msa := m, st := .einval }   -- ESL_FAIL, msa unaltered
  else { msa := { m with rows := m.rows.map (fun r => r.map a.digit), abc := some a, flags := m.flags ||| flagDigital },
         st := .ok }

def textize (m : Msa) : Res :=
  if !m.isDigital then { msa := m, st := .einval, exc := true }
  else match m.abc with
    | none => { msa := m, st := .einval, exc := true }
    | some a =>
      { msa := { m with rows := m.rows.map (fun r => (r.take m.alen).map (fun x => a.sym.getD x.toNat 0)), abc := none,
                        flags := m.flags - flagDigital },
        st := .ok }

/-! ## esl_msa_ReverseComplement -/

/-- `esl_abc_revcomp` on `dsq[1..n]` -/
def revcompRow (compl : List UInt8) (r : Bytes) : Bytes := (r.map fun x => compl.getD x.toNat 0).reverse

/-- the alignment after `esl_msa_ReverseComplement` succeeded: SS lines through `esl_wuss_reverse`, every other
    aligned annotation reversed, rows through `esl_abc_revcomp` -/
def rcMsa (compl : List UInt8) (m : Msa) : Msa :=
  let rev := fun (s : Option Bytes) => s.map List.reverse
  { m with ss_cons := m.ss_cons.map wussReverse, sa_cons := rev m.sa_cons, pp_cons := rev m.pp_cons,
           rf := rev m.rf, mm := rev m.mm,
           gc := m.gc.map (fun t => (t.1, t.2.reverse)),
           rows := m.rows.map (revcompRow compl),
           ss := m.ss.map (fun s => s.map wussReverse), sa := m.sa.map rev, pp := m.pp.map rev,
           gr := m.gr.map (fun t => (t.1, t.2.map rev)) }

def reverseComplement (m : Msa) : Res :=
  if !m.isDigital then { msa := m, st := .eincompat, exc := true }
  else match m.abc with
    | none => { msa := m, st := .fault }
    | some a =>
      match a.complement with
      | none => { msa := m, st := .eincompat, exc := true }
      | some compl => { msa := rcMsa compl m, st := .ok }

/-! ## esl_msa_FlushLeftInserts -/

/-- one row of `for (a = 1, b = 1; a <= alen; a++) {...}`. `a` = columns consumed so far, `out` = `ax[i][1..b-1]`, the part
    already written. The C loop writes in place (`flushIP` below is that loop on the buffer itself); `b <= a` throughout, so
    a write never lands on a cell that has not been read yet (`flushIP_is_flushRow`); this is the loop producing `out`
    left to right:
    consensus column: `for (; b < a; b++) ax[b] = gap;` then `ax[b++] = ax[a]`; insert column: skip a gap, else
    `ax[b++] = ax[a]`. -/
def flushGo (abc : Abc) : (rf row : Bytes) → (a : Nat) → (out : Bytes) → Bytes
  | [], _, _, out => out
  | _ :: _, [], _, out => out
  | rfc :: rf, x :: row, a, out =>
    if !abc.cIsGap rfc then flushGo abc rf row (a+1) (out ++ List.replicate (a - out.length) abc.xGap ++ [x])
    else if abc.xIsGap x then flushGo abc rf row (a+1) out
    else flushGo abc rf row (a+1) (out ++ [x])

/-- ... and finally `for (; b <= alen; b++) ax[b] = gap` -/
def flushRow (abc : Abc) (rf : Bytes) (alen : Nat) (row : Bytes) : Bytes :=
  let out := flushGo abc (rf.take alen) (row.take alen) 0 []
  out ++ List.replicate (alen - out.length) abc.xGap

/-- `for (; b < a; b++) ax[b] = gap` (0-based cells) -/
def gapFill (g : UInt8) : (n : Nat) → (b : Nat) → Bytes → Bytes
  | 0, _, buf => buf
  | n+1, b, buf => gapFill g n (b+1) (buf.set b g)

/-- the row loop on the buffer itself: `a`, `b` are the 0-based counterparts of the C counters; every read `ax[a]` is a read
    of the CURRENT buffer -/
def flushIP (abc : Abc) (rf : Bytes) (alen : Nat) : (fuel a b : Nat) → Bytes → Bytes
  | 0, _, b, buf => gapFill abc.xGap (alen - b) b buf
  | fuel+1, a, b, buf =>
    if a ≥ alen then gapFill abc.xGap (alen - b) b buf
    else if !abc.cIsGap (rf.getD a 0) then
      let buf1 := gapFill abc.xGap (a - b) b buf
      let b1 := if b < a then a else b
      flushIP abc rf alen fuel (a+1) (b1+1) (buf1.set b1 (buf1.getD a 0))
    else if abc.xIsGap (buf.getD a 0) then flushIP abc rf alen fuel (a+1) b buf
    else flushIP abc rf alen fuel (a+1) (b+1) (buf.set b (buf.getD a 0))

/-- `esl_msa_FlushLeftInserts` with the row loop run IN PLACE on each `ax[i]` (what the driver executes) -/
def flushLeftInsertsIP (m : Msa) : Res :=
  match m.rf, m.abc with
  | none, _ => { msa := m, st := .einval, exc := true }
  | some _, none => { msa := m, st := .fault }
  | some rf, some a => { msa := { m with rows := m.rows.map (flushIP a rf m.alen (m.alen + 1) 0 0) }, st := .ok }

def flushLeftInserts (m : Msa) : Res :=
  match m.rf, m.abc with
  | none, _ => { msa := m, st := .einval, exc := true }
  | some _, none => { msa := m, st := .fault }
  | some rf, some a => { msa := { m with rows := m.rows.map (flushRow a rf m.alen) }, st := .ok }

/-! ## MarkFragments -/

def firstIdx (p : UInt8 → Bool) (r : Bytes) : Nat := (r.findIdx? p).getD r.length
/-- number of cells before the last one satisfying `p`, plus one (0 if none): the 1-based index of the last hit -/
def lastIdx1 (p : UInt8 → Bool) (r : Bytes) : Nat := r.length - firstIdx p r.reverse

/-- `esl_msa_MarkFragments`: `minspan` is computed by the caller in binary32 -/
def markFragments (m : Msa) (minspan : Int) : List Bool :=
  let isRes : UInt8 → Bool := match m.abc with
    | some a => if m.isDigital then a.xIsResidue else isAlpha
    | none => isAlpha
  m.rows.map fun r =>
    let r := r.take m.alen
    let lpos : Int := firstIdx isRes r + 1          -- 1-based; alen+1 if none
    let rpos : Int := lastIdx1 isRes r              -- 1-based; 0 if none
    decide (rpos - lpos + 1 < minspan)

/-- `for (pos = first; ...; pos++) { if (is_residue(x[pos])) break; x[pos] = missing; }` -/
def maskLead (isRes : UInt8 → Bool) (miss : UInt8) : Bytes → Bytes
  | [] => []
  | c :: rest => if isRes c then c :: rest else miss :: maskLead isRes miss rest

/-- the forward loop, then the same loop from the right end -/
def maskEnds (isRes : UInt8 → Bool) (miss : UInt8) (r : Bytes) : Bytes :=
  (maskLead isRes miss (maskLead isRes miss r).reverse).reverse

/-- `esl_msa_MarkFragments_old`: `isFrag i` is the caller's evaluation of `rlen <= fragthresh * alen` in binary64 -/
def rawLen (m : Msa) (r : Bytes) : Nat :=
  match m.abc with
  | some a => if m.isDigital then (r.filter a.xIsResidue).length else ((r.take m.alen).filter isAlnum).length
  | none => ((r.take m.alen).filter isAlnum).length

/-- what `esl_msa_MarkFragments_old` calls a residue, and the symbol it writes: `esl_abc_XIsResidue` / the alphabet's
    missing-data code in digital mode, `isalnum` / `'~'` in text mode -/
def fragSyms (m : Msa) : (UInt8 → Bool) × UInt8 :=
  match m.abc with
  | some a => if m.isDigital then (a.xIsResidue, a.xMissing) else (isAlnum, 0x7e)
  | none => (isAlnum, 0x7e)

def markFragmentsOld (m : Msa) (isFrag : Nat → Bool) : Msa :=
  { m with rows := m.rows.map fun r => if isFrag (rawLen m r) then maskEnds (fragSyms m).1 (fragSyms m).2 r else r }

/-! ## esl_sq_FetchFromMSA (esl_sq.c): the ungapped sequence of one row, with its annotation dealigned in parallel -/

structure Fetched where
  name : Bytes
  acc : Bytes
  desc : Bytes
  source : Bytes
  seq : Bytes                       -- residues only (text, or digital codes)
  ss : Option Bytes
  xr : List (Bytes × Bytes)         -- every GR line of this sequence
  deriving Repr, DecidableEq, Inhabited

/-- the cells `esl_strdealign(.., "-_.~")` / `esl_abc_XDealign` drop -/
def fetchIsGap (m : Msa) (c : UInt8) : Bool :=
  match m.abc with
  | some a => if m.isDigital then (a.xIsGap c || a.xIsMissing c) else ([0x2d, 0x5f, 0x2e, 0x7e] : Bytes).contains c
  | none => ([0x2d, 0x5f, 0x2e, 0x7e] : Bytes).contains c

/-- `esl_sq_FetchFromMSA(msa, which, &sq)`; `none` = `eslEOD` (no such sequence) -/
def fetchFromMSA (m : Msa) (which : Nat) : Option Fetched :=
  if which ≥ m.nseq then none
  else
    let row := (m.rows.getD which []).take m.alen
    let keep := row.map (fun c => !fetchIsGap m c)
    some { name := m.sqname.getD which [], acc := (m.sqacc.getD which none).getD [], desc := (m.sqdesc.getD which none).getD [],
           source := m.name.getD [],
           seq := maskFilter keep row,
           ss := (m.ss.getD which none).map (maskFilter keep),
           xr := m.gr.filterMap (fun t => (t.2.getD which none).map (fun v => (t.1, maskFilter keep v))) }

/-! ## esl_msa_Validate -/

def lenOk (alen : Nat) : Option Bytes → Bool
  | none => true
  | some s => s.length == alen

def validate (m : Msa) : Bool :=
  m.nseq != 0 &&
  (List.range m.nseq).all (fun i =>
    (match m.rows[i]? with | some r => r.length == m.alen | none => false) &&
    (if m.hasWgts then m.wgt.getD i 0 != 0xbff0000000000000 else m.wgt.getD i 0 == 0x3ff0000000000000) &&
    lenOk m.alen (m.ss.getD i none) && lenOk m.alen (m.sa.getD i none) && lenOk m.alen (m.pp.getD i none)) &&
  lenOk m.alen m.ss_cons && lenOk m.alen m.sa_cons && lenOk m.alen m.pp_cons && lenOk m.alen m.rf && lenOk m.alen m.mm

end EaselModel.Msa
