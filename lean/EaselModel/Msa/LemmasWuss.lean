import EaselModel.Msa.Wuss
/-! Lemmas: the pair table computed by `esl_wuss2ct` is a fixed-point-free involution on the paired positions and
    every pair joins an opening symbol with ITS closing symbol (same bracket kind / same pseudoknot letter). -/
namespace EaselModel.Msa

/-! ### list helpers -/
theorem getD_set_self {α : Type} (l : List α) (k : Nat) (v d : α) (h : k < l.length) : (l.set k v).getD k d = v := by
  simp [List.getD_eq_getElem?_getD, List.getElem?_set_self h]

theorem getD_set_ne {α : Type} (l : List α) (k k' : Nat) (v d : α) (h : k ≠ k') : (l.set k v).getD k' d = l.getD k' d := by
  simp [List.getD_eq_getElem?_getD, List.getElem?_set_ne h]

/-! ### character facts (whole byte range, by evaluation) -/
theorem upper_facts : ∀ n, n < 256 → isUpper (UInt8.ofNat n) = true →
    65 ≤ n ∧ n ≤ 90 ∧ pkIndex (UInt8.ofNat n) = n - 64 ∧ toLower (UInt8.ofNat n) = UInt8.ofNat (n + 32) ∧
    isOpenBr (UInt8.ofNat n) = false := by decide +kernel
theorem lower_facts : ∀ n, n < 256 → isLower (UInt8.ofNat n) = true →
    97 ≤ n ∧ n ≤ 122 ∧ pkIndex (UInt8.ofNat n) = n - 96 ∧ isUpper (UInt8.ofNat n) = false := by decide +kernel

theorem ofNat_toNat (c : UInt8) : UInt8.ofNat c.toNat = c := by simp

theorem open_facts : ∀ n, n < 256 → isOpenBr (UInt8.ofNat n) = true →
    closerOf (UInt8.ofNat n) ≠ 0 ∧ isUpper (UInt8.ofNat n) = false := by decide +kernel

theorem closerOf_ne_zero (x : UInt8) (h : isOpenBr x = true) : closerOf x ≠ 0 := by
  have := open_facts x.toNat (UInt8.toNat_lt x) (by rw [ofNat_toNat]; exact h)
  rw [ofNat_toNat] at this; exact this.1

theorem toLower_upper_ne_zero (x : UInt8) (h : isUpper x = true) : toLower x ≠ 0 := by
  have fu := upper_facts x.toNat (UInt8.toNat_lt x) (by rw [ofNat_toNat]; exact h)
  rw [ofNat_toNat] at fu
  rw [fu.2.2.2.1]
  intro e
  have := congrArg UInt8.toNat e
  simp at this
  omega

theorem lower_of_same_index (u c : UInt8) (hu : isUpper u = true) (hc : isLower c = true) (h : pkIndex u = pkIndex c) :
    c = toLower u := by
  have fu := upper_facts u.toNat (UInt8.toNat_lt u) (by rw [ofNat_toNat]; exact hu)
  have fc := lower_facts c.toNat (UInt8.toNat_lt c) (by rw [ofNat_toNat]; exact hc)
  rw [ofNat_toNat] at fu fc
  have e : c.toNat = u.toNat + 32 := by
    have := fu.2.2.1; have := fc.2.2.1; omega
  rw [fu.2.2.2.1, ← e, ofNat_toNat]

theorem pkIndex_upper_bounds (u : UInt8) (hu : isUpper u = true) : 1 ≤ pkIndex u ∧ pkIndex u < 27 := by
  have fu := upper_facts u.toNat (UInt8.toNat_lt u) (by rw [ofNat_toNat]; exact hu)
  rw [ofNat_toNat] at fu
  omega

theorem pkIndex_lower_bounds (c : UInt8) (hc : isLower c = true) : 1 ≤ pkIndex c ∧ pkIndex c < 27 := by
  have fc := lower_facts c.toNat (UInt8.toNat_lt c) (by rw [ofNat_toNat]; exact hc)
  rw [ofNat_toNat] at fc
  omega

/-! ### the invariant of the main loop -/

/-- the stack an opening symbol is pushed on -/
def openerClass (c : UInt8) : Option Nat :=
  if isOpenBr c then some 0 else if isUpper c then some (pkIndex c) else none

/-- positions are 1-based; `i` carries the opening symbol, `j` the closing symbol that belongs to it -/
def pairOk (ss : Bytes) (i j : Nat) : Prop :=
  i < j ∧ ((isOpenBr (ss.getD (i-1) 0) = true ∧ ss.getD (j-1) 0 = closerOf (ss.getD (i-1) 0)) ∨
           (isUpper (ss.getD (i-1) 0) = true ∧ ss.getD (j-1) 0 = toLower (ss.getD (i-1) 0)))

structure W2CInv (ss : Bytes) (pos : Nat) (pda : List (List Nat)) (ct : List Nat) : Prop where
  ctlen : ct.length = ss.length + 1
  pdalen : pda.length = 27
  stk : ∀ k p, p ∈ pda.getD k [] → 1 ≤ p ∧ p < pos ∧ ct.getD p 0 = 0 ∧ openerClass (ss.getD (p-1) 0) = some k
  dec : ∀ k, (pda.getD k []).Pairwise (· > ·)
  sym : ∀ i, ct.getD i 0 ≠ 0 → 1 ≤ i ∧ i < pos ∧ 1 ≤ ct.getD i 0 ∧ ct.getD i 0 < pos ∧ ct.getD (ct.getD i 0) 0 = i ∧
          (pairOk ss i (ct.getD i 0) ∨ pairOk ss (ct.getD i 0) i)

theorem inv_init (ss : Bytes) : W2CInv ss 1 (List.replicate 27 []) (List.replicate (ss.length + 1) 0) where
  ctlen := by simp
  pdalen := by simp
  stk := by
    intro k p hp
    have : (List.replicate 27 ([] : List Nat)).getD k [] = [] := by
      simp only [List.getD_eq_getElem?_getD, List.getElem?_replicate]
      split <;> rfl
    rw [this] at hp; simp at hp
  dec := by
    intro k
    have : (List.replicate 27 ([] : List Nat)).getD k [] = [] := by
      simp only [List.getD_eq_getElem?_getD, List.getElem?_replicate]
      split <;> rfl
    rw [this]; exact List.Pairwise.nil
  sym := by
    intro i hi
    exfalso; apply hi
    simp only [List.getD_eq_getElem?_getD, List.getElem?_replicate]
    split <;> rfl

theorem inv_skip {ss pos pda ct} (h : W2CInv ss pos pda ct) : W2CInv ss (pos+1) pda ct where
  ctlen := h.ctlen
  pdalen := h.pdalen
  stk := fun k p hp => by have := h.stk k p hp; exact ⟨this.1, by omega, this.2.2.1, this.2.2.2⟩
  dec := h.dec
  sym := fun i hi => by have := h.sym i hi; exact ⟨this.1, by omega, this.2.2.1, by omega, this.2.2.2.2⟩

theorem ct_pos_zero {ss pos pda ct} (h : W2CInv ss pos pda ct) (q : Nat) (hq : pos ≤ q) : ct.getD q 0 = 0 := by
  rcases Nat.eq_zero_or_pos (ct.getD q 0) with h0 | h0
  · exact h0
  · have := (h.sym q (by omega)).2.1; omega

theorem inv_push {ss pos pda ct} (h : W2CInv ss pos pda ct) (k : Nat) (hk : k < 27) (hpos : 1 ≤ pos)
    (hc : openerClass (ss.getD (pos-1) 0) = some k) : W2CInv ss (pos+1) (pushAt pda k pos) ct where
  ctlen := h.ctlen
  pdalen := by simp [pushAt, h.pdalen]
  stk := by
    intro k' p hp
    by_cases hkk : k = k'
    · subst hkk
      rw [pushAt, getD_set_self _ _ _ _ (by rw [h.pdalen]; exact hk)] at hp
      simp only [List.mem_cons] at hp
      rcases hp with rfl | hp
      · exact ⟨hpos, by omega, ct_pos_zero h p (Nat.le_refl _), hc⟩
      · have := h.stk k p hp; exact ⟨this.1, by omega, this.2.2.1, this.2.2.2⟩
    · rw [pushAt, getD_set_ne _ _ _ _ _ hkk] at hp
      have := h.stk k' p hp; exact ⟨this.1, by omega, this.2.2.1, this.2.2.2⟩
  dec := by
    intro k'
    by_cases hkk : k = k'
    · subst hkk
      rw [pushAt, getD_set_self _ _ _ _ (by rw [h.pdalen]; exact hk), List.pairwise_cons]
      exact ⟨fun p hp => (h.stk k p hp).2.1, h.dec k⟩
    · rw [pushAt, getD_set_ne _ _ _ _ _ hkk]; exact h.dec k'
  sym := fun i hi => by have := h.sym i hi; exact ⟨this.1, by omega, this.2.2.1, by omega, this.2.2.2.2⟩

theorem inv_pop {ss pos pda ct} (h : W2CInv ss pos pda ct) (k : Nat) (hk : k < 27) (hle : pos ≤ ss.length)
    (pair : Nat) (tl : List Nat) (hs : pda.getD k [] = pair :: tl) (hok : pairOk ss pair pos) :
    W2CInv ss (pos+1) (pda.set k tl) ((ct.set pos pair).set pair pos) := by
  have hpair := h.stk k pair (by rw [hs]; simp)
  have hdec := h.dec k
  rw [hs, List.pairwise_cons] at hdec
  have hposlen : pos < ct.length := by rw [h.ctlen]; omega
  have hpairlen : pair < (ct.set pos pair).length := by rw [List.length_set, h.ctlen]; omega
  have hne : pos ≠ pair := by omega
  -- reading the new table
  have rd_pair : ((ct.set pos pair).set pair pos).getD pair 0 = pos := getD_set_self _ _ _ _ hpairlen
  have rd_pos : ((ct.set pos pair).set pair pos).getD pos 0 = pair := by
    rw [getD_set_ne _ _ _ _ _ (Ne.symm hne), getD_set_self _ _ _ _ hposlen]
  have rd_other : ∀ q, q ≠ pos → q ≠ pair → ((ct.set pos pair).set pair pos).getD q 0 = ct.getD q 0 := by
    intro q h1 h2
    rw [getD_set_ne _ _ _ _ _ (Ne.symm h2), getD_set_ne _ _ _ _ _ (Ne.symm h1)]
  refine ⟨by simp [h.ctlen], by simp [h.pdalen], ?_, ?_, ?_⟩
  · intro k' p hp
    by_cases hkk : k = k'
    · subst hkk
      rw [getD_set_self _ _ _ _ (by rw [h.pdalen]; exact hk)] at hp
      have hp' := h.stk k p (by rw [hs]; exact List.mem_cons_of_mem _ hp)
      have hlt := hdec.1 p hp
      rw [rd_other p (by omega) (by omega)]
      exact ⟨hp'.1, by omega, hp'.2.2.1, hp'.2.2.2⟩
    · rw [getD_set_ne _ _ _ _ _ hkk] at hp
      have hp' := h.stk k' p hp
      have hpp : p ≠ pair := by
        intro e; subst e
        have := hpair.2.2.2; rw [hp'.2.2.2] at this
        exact hkk (Option.some.inj this).symm
      rw [rd_other p (by omega) hpp]
      exact ⟨hp'.1, by omega, hp'.2.2.1, hp'.2.2.2⟩
  · intro k'
    by_cases hkk : k = k'
    · subst hkk
      rw [getD_set_self _ _ _ _ (by rw [h.pdalen]; exact hk)]; exact hdec.2
    · rw [getD_set_ne _ _ _ _ _ hkk]; exact h.dec k'
  · intro i hi
    by_cases hip : i = pair
    · subst hip
      rw [rd_pair, rd_pos]
      exact ⟨hpair.1, by omega, by omega, by omega, rfl, Or.inl hok⟩
    · by_cases hiq : i = pos
      · subst hiq
        rw [rd_pos, rd_pair]
        exact ⟨by omega, by omega, hpair.1, by omega, rfl, Or.inr hok⟩
      · rw [rd_other i hiq hip] at hi ⊢
        have hs' := h.sym i hi
        have hj1 : ct.getD i 0 ≠ pos := by omega
        have hj2 : ct.getD i 0 ≠ pair := by
          intro e
          have := hs'.2.2.2.2.1
          rw [e, hpair.2.2.1] at this
          omega
        rw [rd_other _ hj1 hj2]
        exact ⟨hs'.1, by omega, hs'.2.2.1, by omega, hs'.2.2.2.2.1, hs'.2.2.2.2.2⟩

theorem drop_cons_getD (ss : Bytes) (n : Nat) (c : UInt8) (rest : Bytes) (h : ss.drop n = c :: rest) :
    ss.getD n 0 = c ∧ n < ss.length ∧ ss.drop (n+1) = rest := by
  have hn : n < ss.length := by
    rcases Nat.lt_or_ge n ss.length with h1 | h1
    · exact h1
    · rw [List.drop_eq_nil_of_le h1] at h; cases h
  rw [List.drop_eq_getElem_cons hn] at h
  injection h with h1 h2
  exact ⟨by simp [List.getD_eq_getElem?_getD, List.getElem?_eq_getElem hn, h1], hn, h2⟩

/-- the invariant is carried through the whole loop -/
theorem w2cLoop_inv (ss : Bytes) : ∀ (rest : Bytes) (pos : Nat) (pda : List (List Nat)) (ct : List Nat),
    ss.drop (pos-1) = rest → 1 ≤ pos → W2CInv ss pos pda ct →
    ∀ pda' ct', w2cLoop ss rest pos pda ct = some (pda', ct') → W2CInv ss (ss.length + 1) pda' ct' := by
  intro rest
  induction rest with
  | nil =>
    intro pos pda ct hd hpos hinv pda' ct' hrun
    simp only [w2cLoop, Option.some.injEq, Prod.mk.injEq] at hrun
    obtain ⟨rfl, rfl⟩ := hrun
    have hlen : ss.length ≤ pos - 1 := by
      rcases Nat.lt_or_ge (pos-1) ss.length with h1 | h1
      · rw [List.drop_eq_getElem_cons h1] at hd; cases hd
      · exact h1
    exact ⟨hinv.ctlen, hinv.pdalen,
      fun k p hp => by
        have := hinv.stk k p hp
        have hp1 : p - 1 < ss.length := by
          rcases Nat.lt_or_ge (p-1) ss.length with h1 | h1
          · exact h1
          · exfalso
            have h4 := this.2.2.2
            simp [List.getD_eq_getElem?_getD, List.getElem?_eq_none h1, openerClass, isOpenBr, isUpper,
                  chLt, chLp, chLb, chLc] at h4
        exact ⟨this.1, by omega, this.2.2.1, this.2.2.2⟩,
      hinv.dec,
      fun i hi => by
        have hs := hinv.sym i hi
        -- both positions carry a symbol of `ss`, so they are ≤ length
        have key : ∀ a b, pairOk ss a b → b - 1 < ss.length := by
          intro a b hab
          rcases Nat.lt_or_ge (b-1) ss.length with h1 | h1
          · exact h1
          · exfalso
            have hz : ss.getD (b-1) 0 = 0 := by simp [List.getD_eq_getElem?_getD, List.getElem?_eq_none h1]
            rcases hab.2 with ⟨ho, hc⟩ | ⟨hu, hc⟩
            · rw [hz] at hc; exact closerOf_ne_zero _ ho hc.symm
            · rw [hz] at hc; exact toLower_upper_ne_zero _ hu hc.symm
        rcases hs.2.2.2.2.2 with hp | hp
        · have := key _ _ hp; have := hp.1
          exact ⟨hs.1, by omega, hs.2.2.1, by omega, hs.2.2.2.2.1, Or.inl hp⟩
        · have := key _ _ hp; have := hp.1
          exact ⟨hs.1, by omega, hs.2.2.1, by omega, hs.2.2.2.2.1, Or.inr hp⟩⟩
  | cons c rest ih =>
    intro pos pda ct hd hpos hinv pda' ct' hrun
    obtain ⟨hc, hlt, hdrop⟩ := drop_cons_getD ss (pos-1) c rest hd
    have hd' : ss.drop (pos + 1 - 1) = rest := by
      have : pos + 1 - 1 = pos - 1 + 1 := by omega
      rw [this]; exact hdrop
    have hle : pos ≤ ss.length := by omega
    unfold w2cLoop at hrun
    split at hrun
    · cases hrun
    · split at hrun
      · -- opening bracket
        rename_i hob
        have hcl : openerClass (ss.getD (pos-1) 0) = some 0 := by rw [hc]; simp [openerClass, hob]
        exact ih (pos+1) _ ct hd' (by omega) (inv_push hinv 0 (by omega) hpos hcl) pda' ct' hrun
      · split at hrun
        · -- closing bracket
          rename_i hcb
          split at hrun
          · cases hrun
          · rename_i pair tl hs
            split at hrun
            · cases hrun
            · rename_i hmatch
              have hm : closerOf (ss.getD (pair-1) 0) = c := by simpa using hmatch
              have hpair := hinv.stk 0 pair (by rw [hs]; simp)
              have hopen : isOpenBr (ss.getD (pair-1) 0) = true := by
                have := hpair.2.2.2
                simp only [openerClass] at this
                split at this
                · assumption
                · split at this
                  · rename_i hu
                    have hb := (pkIndex_upper_bounds _ hu).1
                    injection this with this; omega
                  · cases this
              have hok : pairOk ss pair pos := ⟨hpair.2.1, Or.inl ⟨hopen, by rw [hc, hm]⟩⟩
              exact ih (pos+1) _ _ hd' (by omega) (inv_pop hinv 0 (by omega) hle pair tl hs hok) pda' ct' hrun
        · split at hrun
          · -- upper case: push on its own stack
            rename_i hob _ hup
            have hcl : openerClass (ss.getD (pos-1) 0) = some (pkIndex c) := by
              have : isOpenBr c = false := by simpa using hob
              rw [hc]; simp [openerClass, this, hup]
            exact ih (pos+1) _ ct hd' (by omega)
              (inv_push hinv (pkIndex c) (pkIndex_upper_bounds c hup).2 hpos hcl) pda' ct' hrun
          · split at hrun
            · -- lower case: pop its stack
              rename_i hlow
              split at hrun
              · cases hrun
              · rename_i pair tl hs
                have hpair := hinv.stk (pkIndex c) pair (by rw [hs]; simp)
                have hkb := pkIndex_lower_bounds c hlow
                have hup : isUpper (ss.getD (pair-1) 0) = true ∧ pkIndex (ss.getD (pair-1) 0) = pkIndex c := by
                  have := hpair.2.2.2
                  simp only [openerClass] at this
                  split at this
                  · injection this with this; omega
                  · split at this
                    · rename_i hu; injection this with this; exact ⟨hu, this⟩
                    · cases this
                have hok : pairOk ss pair pos :=
                  ⟨hpair.2.1, Or.inr ⟨hup.1, by rw [hc]; exact lower_of_same_index _ c hup.1 hlow hup.2⟩⟩
                exact ih (pos+1) _ _ hd' (by omega) (inv_pop hinv (pkIndex c) hkb.2 hle pair tl hs hok) pda' ct' hrun
            · split at hrun
              · exact ih (pos+1) pda ct hd' (by omega) (inv_skip hinv) pda' ct' hrun
              · cases hrun

/-- result of a successful `esl_wuss2ct` -/
theorem wuss2ct_inv (ss : Bytes) (ct : List Nat) (h : wuss2ct ss = some ct) :
    ∃ pda, W2CInv ss (ss.length + 1) pda ct ∧ pda.all (fun s => s.isEmpty) = true := by
  unfold wuss2ct at h
  split at h
  · cases h
  · rename_i pda ct' hrun
    split at h
    · rename_i hall
      injection h with h; subst h
      exact ⟨pda, w2cLoop_inv ss ss 1 _ _ (by simp) (Nat.le_refl _) (inv_init ss) pda ct' hrun, hall⟩
    · cases h

end EaselModel.Msa

namespace EaselModel.Msa

/-- `esl_wuss2ct` succeeded: the table has `len+1` cells and is a fixed-point-free involution on the paired positions,
    all within `1..len` -/
theorem wuss2ct_involution' (ss : Bytes) (ct : List Nat) (h : wuss2ct ss = some ct) :
    ct.length = ss.length + 1 ∧
    ∀ i, ct.getD i 0 ≠ 0 →
      1 ≤ i ∧ i ≤ ss.length ∧ 1 ≤ ct.getD i 0 ∧ ct.getD i 0 ≤ ss.length ∧
      ct.getD (ct.getD i 0) 0 = i ∧ ct.getD i 0 ≠ i := by
  obtain ⟨pda, inv, _⟩ := wuss2ct_inv ss ct h
  refine ⟨inv.ctlen, fun i hi => ?_⟩
  have hs := inv.sym i hi
  refine ⟨hs.1, by omega, hs.2.2.1, by omega, hs.2.2.2.2.1, ?_⟩
  rcases hs.2.2.2.2.2 with hp | hp <;> have := hp.1 <;> omega

/-- every pair of the table joins an opening symbol (at the smaller position) with its own closing symbol -/
theorem wuss2ct_pairs_matched' (ss : Bytes) (ct : List Nat) (h : wuss2ct ss = some ct) (i : Nat)
    (hi : ct.getD i 0 ≠ 0) (hlt : i < ct.getD i 0) : pairOk ss i (ct.getD i 0) := by
  obtain ⟨pda, inv, _⟩ := wuss2ct_inv ss ct h
  rcases (inv.sym i hi).2.2.2.2.2 with hp | hp
  · exact hp
  · have := hp.1; omega

end EaselModel.Msa
