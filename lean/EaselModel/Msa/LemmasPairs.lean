import EaselModel.Msa.LemmasSsCols
/-! Lemmas: the pair list read from a compacted SS line is the pair list of the original line with the positions
    renumbered — for ANY balanced WUSS string (pseudoknot letters included), provided the removed columns carry unpaired
    symbols.  Proof device: `gLoop`, the reading loop of `esl_wuss2ct` with explicit position labels and the opening
    symbol kept next to its label on the stack, collecting the list of pairs instead of writing a table. -/
namespace EaselModel.Msa

abbrev GStacks := List (List (Nat × UInt8))

/-- the table written by `ct[pos] = pair; ct[pair] = pos` for the pairs found, oldest pair last in the list -/
def tableOf (ct0 : List Nat) (ps : List (Nat × Nat)) : List Nat :=
  ps.foldr (fun qp t => (t.set qp.2 qp.1).set qp.1 qp.2) ct0

def gPush (st : GStacks) (k : Nat) (x : Nat × UInt8) : GStacks := st.set k (x :: st.getD k [])

/-- `esl_wuss2ct`'s loop over labelled symbols `(position, symbol)`; collects `(left, right)` pairs, newest first -/
def gLoop : List (Nat × UInt8) → GStacks → List (Nat × Nat) → Option (GStacks × List (Nat × Nat))
  | [], st, ps => some (st, ps)
  | (p, c) :: rest, st, ps =>
    if !isPrint c then none
    else if isOpenBr c then gLoop rest (gPush st 0 (p, c)) ps
    else if isCloseBr c then
      match st.getD 0 [] with
      | [] => none
      | (q, o) :: tl => if closerOf o != c then none else gLoop rest (st.set 0 tl) ((q, p) :: ps)
    else if isUpper c then gLoop rest (gPush st (pkIndex c) (p, c)) ps
    else if isLower c then
      match st.getD (pkIndex c) [] with
      | [] => none
      | (q, _) :: tl => gLoop rest (st.set (pkIndex c) tl) ((q, p) :: ps)
    else if isUnpairedSym c then gLoop rest st ps
    else none

/-- symbols of a string with their 1-based positions, starting at `pos` -/
def labelFrom : Nat → Bytes → List (Nat × UInt8)
  | _, [] => []
  | pos, c :: rest => (pos, c) :: labelFrom (pos+1) rest

/-- the stacks of the C code, each waiting position shown with its symbol -/
def lift (ss : Bytes) (pda : List (List Nat)) : GStacks := pda.map (fun s => s.map (fun p => (p, ss.getD (p-1) 0)))

theorem getD_map_nil {α β : Type} (f : List α → List β) (hf : f [] = []) (l : List (List α)) (k : Nat) :
    (l.map f).getD k [] = f (l.getD k []) := by
  simp only [List.getD_eq_getElem?_getD, List.getElem?_map]
  cases l[k]? <;> simp [hf]

theorem lift_getD (ss : Bytes) (pda : List (List Nat)) (k : Nat) :
    (lift ss pda).getD k [] = (pda.getD k []).map (fun p => (p, ss.getD (p-1) 0)) :=
  getD_map_nil _ rfl pda k

theorem lift_set (ss : Bytes) (pda : List (List Nat)) (k : Nat) (s : List Nat) :
    lift ss (pda.set k s) = (lift ss pda).set k (s.map (fun p => (p, ss.getD (p-1) 0))) := by
  simp [lift, List.map_set]

theorem lift_push (ss : Bytes) (pda : List (List Nat)) (k pos : Nat) :
    lift ss (pushAt pda k pos) = gPush (lift ss pda) k (pos, ss.getD (pos-1) 0) := by
  simp only [pushAt, gPush, lift_set, lift_getD, List.map_cons]

/-- `esl_wuss2ct`'s loop and `gLoop` do the same thing: same acceptance, same stacks, and the table written is
    `tableOf` the pairs collected -/
theorem w2cLoop_gLoop (ss : Bytes) (ct0 : List Nat) : ∀ (rest : Bytes) (pos : Nat) (pda : List (List Nat)) (ps : List (Nat × Nat)),
    ss.drop (pos-1) = rest → 1 ≤ pos →
    match gLoop (labelFrom pos rest) (lift ss pda) ps with
    | none => w2cLoop ss rest pos pda (tableOf ct0 ps) = none
    | some (stG, ps') => ∃ pda', w2cLoop ss rest pos pda (tableOf ct0 ps) = some (pda', tableOf ct0 ps') ∧ lift ss pda' = stG := by
  intro rest
  induction rest with
  | nil => intro pos pda ps _ _; simp only [labelFrom, gLoop, w2cLoop]; exact ⟨pda, rfl, rfl⟩
  | cons c rest ih =>
    intro pos pda ps hd hpos
    obtain ⟨hc, hlt, hdrop⟩ := drop_cons_getD ss (pos-1) c rest hd
    have hd' : ss.drop (pos + 1 - 1) = rest := by
      have : pos + 1 - 1 = pos - 1 + 1 := by omega
      rw [this]; exact hdrop
    simp only [labelFrom, gLoop, w2cLoop]
    by_cases h1 : (!isPrint c) = true
    · simp only [h1, if_true]
    · simp only [h1, if_false, Bool.false_eq_true]
      by_cases h2 : isOpenBr c = true
      · simp only [h2, if_true]
        have := ih (pos+1) (pushAt pda 0 pos) ps hd' (by omega)
        rw [lift_push, hc] at this; exact this
      · simp only [h2, if_false, Bool.false_eq_true]
        by_cases h3 : isCloseBr c = true
        · simp only [h3, if_true, lift_getD]
          cases hs : pda.getD 0 [] with
          | nil => simp only [List.map_nil]
          | cons pair tl =>
            simp only [List.map_cons]
            by_cases h4 : (closerOf (ss.getD (pair-1) 0) != c) = true
            · simp only [h4, if_true]
            · simp only [h4, if_false, Bool.false_eq_true]
              have := ih (pos+1) (pda.set 0 tl) ((pair, pos) :: ps) hd' (by omega)
              rw [lift_set] at this
              simpa only [tableOf, List.foldr_cons] using this
        · simp only [h3, if_false, Bool.false_eq_true]
          by_cases h5 : isUpper c = true
          · simp only [h5, if_true]
            have := ih (pos+1) (pushAt pda (pkIndex c) pos) ps hd' (by omega)
            rw [lift_push, hc] at this; exact this
          · simp only [h5, if_false, Bool.false_eq_true]
            by_cases h6 : isLower c = true
            · simp only [h6, if_true, lift_getD]
              cases hs : pda.getD (pkIndex c) [] with
              | nil => simp only [List.map_nil]
              | cons pair tl =>
                simp only [List.map_cons]
                have := ih (pos+1) (pda.set (pkIndex c) tl) ((pair, pos) :: ps) hd' (by omega)
                rw [lift_set] at this
                simpa only [tableOf, List.foldr_cons] using this
            · simp only [h6, if_false, Bool.false_eq_true]
              by_cases h7 : isUnpairedSym c = true
              · simp only [h7, if_true]
                exact ih (pos+1) pda ps hd' (by omega)
              · simp only [h7, if_false, Bool.false_eq_true]

/-! ### dropping unpaired symbols and renumbering the labels -/

def relabelSt (f : Nat → Nat) (st : GStacks) : GStacks := st.map (fun s => s.map (fun x => (f x.1, x.2)))
def relabelPs (f : Nat → Nat) (ps : List (Nat × Nat)) : List (Nat × Nat) := ps.map (fun x => (f x.1, f x.2))

/-- `f` sends every kept position (counted from `pos`) to its new position (counted from `pos2`) -/
def Agree (f : Nat → Nat) : Nat → Nat → List Bool → Prop
  | _, _, [] => True
  | pos, pos2, true :: m => f pos = pos2 ∧ Agree f (pos+1) (pos2+1) m
  | pos, pos2, false :: m => Agree f (pos+1) pos2 m

theorem relabel_getD (f : Nat → Nat) (st : GStacks) (k : Nat) :
    (relabelSt f st).getD k [] = (st.getD k []).map (fun x => (f x.1, x.2)) :=
  getD_map_nil _ rfl st k

theorem relabel_set (f : Nat → Nat) (st : GStacks) (k : Nat) (s : List (Nat × UInt8)) :
    relabelSt f (st.set k s) = (relabelSt f st).set k (s.map (fun x => (f x.1, x.2))) := by
  simp [relabelSt, List.map_set]

theorem relabel_push (f : Nat → Nat) (st : GStacks) (k : Nat) (p : Nat) (c : UInt8) :
    relabelSt f (gPush st k (p, c)) = gPush (relabelSt f st) k (f p, c) := by
  simp only [gPush, relabel_set, relabel_getD, List.map_cons]

/-- reading the compacted, renumbered symbols = reading the original symbols, with every label renamed -/
theorem gLoop_filter (f : Nat → Nat) : ∀ (mask : List Bool) (rest : Bytes) (pos pos2 : Nat) (st : GStacks) (ps : List (Nat × Nat)),
    mask.length = rest.length → removesOnlyGaps isUnpairedSym mask rest → Agree f pos pos2 mask →
    gLoop (labelFrom pos2 (maskFilter mask rest)) (relabelSt f st) (relabelPs f ps) =
      (gLoop (labelFrom pos rest) st ps).map (fun r => (relabelSt f r.1, relabelPs f r.2))
  | [], [], _, _, st, ps, _, _, _ => by simp [maskFilter, labelFrom, gLoop]
  | [], _ :: _, _, _, _, _, h, _, _ => by simp at h
  | _ :: _, [], _, _, _, _, h, _, _ => by simp at h
  | false :: mask, c :: rest, pos, pos2, st, ps, hl, hg, ha => by
    have hu := hg.1 rfl
    have F := (cf c).2.2.2.2 hu
    have ih := gLoop_filter f mask rest (pos+1) pos2 st ps (by simpa using hl) hg.2 ha
    simp only [maskFilter, Bool.false_eq_true, if_false, labelFrom, gLoop, F.1, Bool.not_true, F.2.1, F.2.2.1, F.2.2.2.1,
               F.2.2.2.2, hu, if_true]
    exact ih
  | true :: mask, c :: rest, pos, pos2, st, ps, hl, hg, ha => by
    have hl' : mask.length = rest.length := by simpa using hl
    obtain ⟨hf, ha'⟩ := ha
    simp only [maskFilter, if_true, labelFrom, gLoop]
    by_cases h1 : (!isPrint c) = true
    · simp only [h1, if_true, Option.map_none]
    · simp only [h1, if_false, Bool.false_eq_true]
      by_cases h2 : isOpenBr c = true
      · simp only [h2, if_true]
        have := gLoop_filter f mask rest (pos+1) (pos2+1) (gPush st 0 (pos, c)) ps hl' hg.2 ha'
        rw [relabel_push, hf] at this; exact this
      · simp only [h2, if_false, Bool.false_eq_true]
        by_cases h3 : isCloseBr c = true
        · simp only [h3, if_true, relabel_getD]
          cases hs : st.getD 0 [] with
          | nil => simp only [List.map_nil, Option.map_none]
          | cons x tl =>
            obtain ⟨q, o⟩ := x
            simp only [List.map_cons]
            by_cases h4 : (closerOf o != c) = true
            · simp only [h4, if_true, Option.map_none]
            · simp only [h4, if_false, Bool.false_eq_true]
              have := gLoop_filter f mask rest (pos+1) (pos2+1) (st.set 0 tl) ((q, pos) :: ps) hl' hg.2 ha'
              rw [relabel_set] at this
              simpa only [relabelPs, List.map_cons, hf] using this
        · simp only [h3, if_false, Bool.false_eq_true]
          by_cases h5 : isUpper c = true
          · simp only [h5, if_true]
            have := gLoop_filter f mask rest (pos+1) (pos2+1) (gPush st (pkIndex c) (pos, c)) ps hl' hg.2 ha'
            rw [relabel_push, hf] at this; exact this
          · simp only [h5, if_false, Bool.false_eq_true]
            by_cases h6 : isLower c = true
            · simp only [h6, if_true, relabel_getD]
              cases hs : st.getD (pkIndex c) [] with
              | nil => simp only [List.map_nil, Option.map_none]
              | cons x tl =>
                obtain ⟨q, o⟩ := x
                simp only [List.map_cons]
                have := gLoop_filter f mask rest (pos+1) (pos2+1) (st.set (pkIndex c) tl) ((q, pos) :: ps) hl' hg.2 ha'
                rw [relabel_set] at this
                simpa only [relabelPs, List.map_cons, hf] using this
            · simp only [h6, if_false, Bool.false_eq_true]
              by_cases h7 : isUnpairedSym c = true
              · simp only [h7, if_true]
                exact gLoop_filter f mask rest (pos+1) (pos2+1) st ps hl' hg.2 ha'
              · simp only [h7, if_false, Bool.false_eq_true, Option.map_none]

/-- new (1-based) position of the old position `p` after keeping the columns flagged in `mask` -/
def newPosFrom : Nat → Nat → List Bool → Nat → Nat
  | _, _, [], _ => 0
  | pos, pos2, b :: m, p => if p = pos then pos2 else newPosFrom (pos+1) (if b then pos2+1 else pos2) m p

def newPos (mask : List Bool) (p : Nat) : Nat := newPosFrom 1 1 mask p

theorem agree_congr (f g : Nat → Nat) : ∀ (m : List Bool) (pos pos2 : Nat), (∀ p, pos ≤ p → f p = g p) →
    Agree f pos pos2 m → Agree g pos pos2 m
  | [], _, _, _, _ => trivial
  | true :: m, pos, pos2, h, ha => ⟨by rw [← h pos (Nat.le_refl _)]; exact ha.1,
      agree_congr f g m (pos+1) (pos2+1) (fun p hp => h p (by omega)) ha.2⟩
  | false :: m, pos, pos2, h, ha => agree_congr f g m (pos+1) pos2 (fun p hp => h p (by omega)) ha

theorem agree_newPosFrom : ∀ (m : List Bool) (pos pos2 : Nat), Agree (newPosFrom pos pos2 m) pos pos2 m
  | [], _, _ => trivial
  | true :: m, pos, pos2 => by
    refine ⟨by simp [newPosFrom], ?_⟩
    apply agree_congr (newPosFrom (pos+1) (pos2+1) m) _ m (pos+1) (pos2+1) _ (agree_newPosFrom m (pos+1) (pos2+1))
    intro p hp
    have : ¬ p = pos := by omega
    simp [newPosFrom, this]
  | false :: m, pos, pos2 => by
    apply agree_congr (newPosFrom (pos+1) pos2 m) _ m (pos+1) pos2 _ (agree_newPosFrom m (pos+1) pos2)
    intro p hp
    have : ¬ p = pos := by omega
    simp [newPosFrom, this]

theorem lift_replicate (ss : Bytes) : lift ss (List.replicate 27 []) = List.replicate 27 [] := by
  simp [lift]

theorem relabel_replicate (f : Nat → Nat) : relabelSt f (List.replicate 27 []) = List.replicate 27 [] := by
  simp [relabelSt]

theorem all_map_isEmpty {α β : Type} (g : α → β) : ∀ (l : List (List α)),
    (l.map (fun s => s.map g)).all (fun s => s.isEmpty) = l.all (fun s => s.isEmpty)
  | [] => rfl
  | s :: l => by
    simp only [List.map_cons, List.all_cons, all_map_isEmpty g l]
    cases s <;> rfl

theorem lift_all_empty (ss : Bytes) (pda : List (List Nat)) :
    (lift ss pda).all (fun s => s.isEmpty) = pda.all (fun s => s.isEmpty) :=
  all_map_isEmpty _ pda

theorem relabel_all_empty (f : Nat → Nat) (st : GStacks) :
    (relabelSt f st).all (fun s => s.isEmpty) = st.all (fun s => s.isEmpty) :=
  all_map_isEmpty _ st

/-- `esl_wuss2ct` through `gLoop` -/
theorem wuss2ct_eq_gLoop (ss : Bytes) :
    wuss2ct ss = (gLoop (labelFrom 1 ss) (List.replicate 27 []) []).bind (fun r =>
      if r.1.all (fun s => s.isEmpty) then some (tableOf (List.replicate (ss.length + 1) 0) r.2) else none) := by
  have h := w2cLoop_gLoop ss (List.replicate (ss.length + 1) 0) ss 1 (List.replicate 27 []) [] (by simp) (Nat.le_refl _)
  rw [lift_replicate] at h
  unfold wuss2ct
  simp only [tableOf, List.foldr_nil] at h
  cases hg : gLoop (labelFrom 1 ss) (List.replicate 27 []) [] with
  | none => rw [hg] at h; simp only at h; rw [h]; rfl
  | some r =>
    obtain ⟨stG, ps'⟩ := r
    rw [hg] at h; simp only at h
    obtain ⟨pda', hrun, hl⟩ := h
    rw [hrun]
    simp only [Option.bind_some, ← hl, lift_all_empty]
    rfl

/-- COMPACTION OF A BALANCED SS LINE: if the removed columns carry unpaired symbols, the compacted line is read as the
    same pairs, renumbered: `pairs(compacted) = pairs(original)` with every position `p` replaced by `newPos mask p` -/
theorem compacted_pairs' (ss : Bytes) (mask : List Bool) (hm : mask.length = ss.length)
    (hrem : removesOnlyGaps isUnpairedSym mask ss) (ct : List Nat) (h : wuss2ct ss = some ct) :
    ∃ ps, ct = tableOf (List.replicate (ss.length + 1) 0) ps ∧
      wuss2ct (maskFilter mask ss) =
        some (tableOf (List.replicate ((maskFilter mask ss).length + 1) 0) (relabelPs (newPos mask) ps)) := by
  rw [wuss2ct_eq_gLoop] at h
  cases hg : gLoop (labelFrom 1 ss) (List.replicate 27 []) [] with
  | none => rw [hg] at h; simp at h
  | some r =>
    obtain ⟨stG, ps⟩ := r
    rw [hg] at h
    simp only [Option.bind_some] at h
    split at h
    · rename_i hall
      injection h with h
      refine ⟨ps, h.symm, ?_⟩
      have hf := gLoop_filter (newPos mask) mask ss 1 1 (List.replicate 27 []) [] hm hrem (agree_newPosFrom mask 1 1)
      rw [relabel_replicate, hg] at hf
      simp only [relabelPs, List.map_nil, Option.map_some] at hf
      rw [wuss2ct_eq_gLoop, hf]
      simp only [Option.bind_some, relabel_all_empty, hall, if_true, relabelPs]
    · cases h

end EaselModel.Msa
