import EaselModel.Msa.LemmasNested
/-! Lemmas: `esl_wuss2ct` reads back ANY pair table (crossing pairs allowed) from a labelling in which every pair
    carries a bracket pair or a pseudoknot letter pair and the pairs sharing a stack (all brackets / one letter) do not
    cross each other. This is the reading half of the pseudoknotted `ct -> WUSS -> ct` round trip. -/
namespace EaselModel.Msa

/-- unpaired positions carry unpaired symbols; the left end of a pair an opening bracket or an upper-case letter and
    the right end the matching closing symbol -/
def ClassLabels (ct : List Nat) (ss : Bytes) : Prop :=
  ∀ p, 1 ≤ p → p ≤ ss.length →
    (ct.getD p 0 = 0 → isUnpairedSym (ss.getD (p-1) 0) = true) ∧
    (p < ct.getD p 0 →
      (isOpenBr (ss.getD (p-1) 0) = true ∧ ss.getD (ct.getD p 0 - 1) 0 = closerOf (ss.getD (p-1) 0)) ∨
      (isUpper (ss.getD (p-1) 0) = true ∧ ss.getD (ct.getD p 0 - 1) 0 = toLower (ss.getD (p-1) 0)))

/-- two pairs labelled on the same stack never cross -/
def ClassNested (ct : List Nat) (ss : Bytes) : Prop :=
  ∀ i i', ct.getD i 0 ≠ 0 → ct.getD i' 0 ≠ 0 → i < i' → i' < ct.getD i 0 → i' < ct.getD i' 0 →
    openerClass (ss.getD (i-1) 0) = openerClass (ss.getD (i'-1) 0) → ct.getD i' 0 < ct.getD i 0

theorem upper_lower_facts : ∀ n, n < 256 → isUpper (UInt8.ofNat n) = true →
    isLower (toLower (UInt8.ofNat n)) = true ∧ pkIndex (toLower (UInt8.ofNat n)) = pkIndex (UInt8.ofNat n) ∧
    isPrint (toLower (UInt8.ofNat n)) = true ∧ isOpenBr (toLower (UInt8.ofNat n)) = false ∧
    isCloseBr (toLower (UInt8.ofNat n)) = false ∧ isUpper (toLower (UInt8.ofNat n)) = false ∧
    isOpenBr (UInt8.ofNat n) = false ∧ isCloseBr (UInt8.ofNat n) = false ∧ isPrint (UInt8.ofNat n) = true := by
  decide +kernel

theorem ulf (u : UInt8) (h : isUpper u = true) :
    isLower (toLower u) = true ∧ pkIndex (toLower u) = pkIndex u ∧ isPrint (toLower u) = true ∧
    isOpenBr (toLower u) = false ∧ isCloseBr (toLower u) = false ∧ isUpper (toLower u) = false ∧
    isOpenBr u = false ∧ isCloseBr u = false ∧ isPrint u = true := by
  have := upper_lower_facts u.toNat (UInt8.toNat_lt u) (by rw [ofNat_toNat]; exact h)
  rw [ofNat_toNat] at this; exact this

structure KInv (ss : Bytes) (ct : List Nat) (pos : Nat) (pda : List (List Nat)) (cur : List Nat) : Prop where
  pdalen : pda.length = 27
  sorted : ∀ k, (pda.getD k []).Pairwise (· > ·)
  mem : ∀ k p, p ∈ pda.getD k [] ↔
    (1 ≤ p ∧ p < pos ∧ pos ≤ ct.getD p 0 ∧ openerClass (ss.getD (p-1) 0) = some k)
  curlen : cur.length = ss.length + 1
  cur : ∀ p, cur.getD p 0 = ctUpTo ct pos p

theorem ct_sym {n : Nat} {ct : List Nat} (hct : CtOk n ct) {pos : Nat} (hpos : 1 ≤ pos) (p : Nat) (hp : ct.getD p 0 = pos) :
    ct.getD pos 0 = p ∧ 1 ≤ p ∧ p ≤ n ∧ p ≠ pos := by
  have h := hct.2 p (by rw [hp]; omega)
  rw [hp] at h
  exact ⟨h.2.2.2.2.1, h.1, h.2.1, fun e => h.2.2.2.2.2 e.symm⟩

theorem kinv_skip {ss : Bytes} {ct : List Nat} (hct : CtOk ss.length ct) {pos : Nat} {pda : List (List Nat)} {cur : List Nat}
    (inv : KInv ss ct pos pda cur) (hpos : 1 ≤ pos) (h0 : ct.getD pos 0 = 0) : KInv ss ct (pos+1) pda cur := by
  have hnp : ∀ p, ct.getD p 0 ≠ pos := by
    intro p hp
    have := ct_sym hct hpos p hp
    omega
  exact {
    pdalen := inv.pdalen, sorted := inv.sorted, curlen := inv.curlen
    mem := by
      intro k p
      rw [inv.mem k p]
      constructor
      · rintro ⟨h1, h2, h3, h4⟩
        have := hnp p
        exact ⟨h1, by omega, by omega, h4⟩
      · rintro ⟨h1, h2, h3, h4⟩
        have : p ≠ pos := by intro e; rw [e, h0] at h3; omega
        exact ⟨h1, by omega, by omega, h4⟩
    cur := by
      intro p
      rw [inv.cur p]
      simp only [ctUpTo]
      have := hnp p
      by_cases hp : p = pos
      · subst hp; rw [if_neg (fun h => h.1 h0), if_neg (fun h => h.1 h0)]
      · have e1 : (p < pos + 1) ↔ (p < pos) := by omega
        have e2 : (ct.getD p 0 < pos + 1) ↔ (ct.getD p 0 < pos) := by omega
        simp only [e1, e2] }

theorem kinv_push {ss : Bytes} {ct : List Nat} (hct : CtOk ss.length ct) {pos : Nat} {pda : List (List Nat)} {cur : List Nat}
    (inv : KInv ss ct pos pda cur) (hpos : 1 ≤ pos) (hleft : pos < ct.getD pos 0) (k : Nat) (hk : k < 27)
    (hcl : openerClass (ss.getD (pos-1) 0) = some k) : KInv ss ct (pos+1) (pushAt pda k pos) cur := by
  have hnp : ∀ p, p < pos → ct.getD p 0 ≠ pos := by
    intro p hplt hp
    have := ct_sym hct hpos p hp
    omega
  exact {
    pdalen := by simp [pushAt, inv.pdalen]
    sorted := by
      intro k'
      by_cases hkk : k = k'
      · subst hkk
        rw [pushAt, getD_set_self _ _ _ _ (by rw [inv.pdalen]; exact hk), List.pairwise_cons]
        exact ⟨fun p hp => ((inv.mem k p).mp hp).2.1, inv.sorted k⟩
      · rw [pushAt, getD_set_ne _ _ _ _ _ hkk]; exact inv.sorted k'
    mem := by
      intro k' p
      by_cases hkk : k = k'
      · subst hkk
        rw [pushAt, getD_set_self _ _ _ _ (by rw [inv.pdalen]; exact hk), List.mem_cons, inv.mem k p]
        constructor
        · rintro (rfl | ⟨h1, h2, h3, h4⟩)
          · exact ⟨hpos, by omega, by omega, hcl⟩
          · have := hnp p h2
            exact ⟨h1, by omega, by omega, h4⟩
        · rintro ⟨h1, h2, h3, h4⟩
          by_cases hp : p = pos
          · exact Or.inl hp
          · exact Or.inr ⟨h1, by omega, by omega, h4⟩
      · rw [pushAt, getD_set_ne _ _ _ _ _ hkk, inv.mem k' p]
        constructor
        · rintro ⟨h1, h2, h3, h4⟩
          have := hnp p h2
          exact ⟨h1, by omega, by omega, h4⟩
        · rintro ⟨h1, h2, h3, h4⟩
          have hp : p ≠ pos := by
            intro e; subst e
            rw [hcl] at h4; injection h4 with h4; exact hkk h4
          exact ⟨h1, by omega, by omega, h4⟩
    curlen := inv.curlen
    cur := by
      intro p
      rw [inv.cur p]
      simp only [ctUpTo]
      by_cases hp : p < pos
      · have := hnp p hp
        have e1 : (p < pos + 1) ↔ (p < pos) := by omega
        have e2 : (ct.getD p 0 < pos + 1) ↔ (ct.getD p 0 < pos) := by omega
        simp only [e1, e2]
      · by_cases hp2 : p = pos
        · subst hp2
          rw [if_neg (fun h => by omega), if_neg (fun h => by omega)]
        · rw [if_neg (fun h => by omega), if_neg (fun h => by omega)] }

theorem kinv_pop {ss : Bytes} {ct : List Nat} (hct : CtOk ss.length ct) (hcn : ClassNested ct ss) {pos : Nat}
    {pda : List (List Nat)} {cur : List Nat}
    (inv : KInv ss ct pos pda cur) (hpos : 1 ≤ pos) (hle : pos ≤ ss.length) (h0 : ct.getD pos 0 ≠ 0)
    (hi : ct.getD pos 0 < pos) (k : Nat) (hk : k < 27) (hcl : openerClass (ss.getD (ct.getD pos 0 - 1) 0) = some k) :
    ∃ tl, pda.getD k [] = ct.getD pos 0 :: tl ∧
      KInv ss ct (pos+1) (pda.set k tl) ((cur.set pos (ct.getD pos 0)).set (ct.getD pos 0) pos) := by
  have hpair := hct.2 pos h0
  have hpi := hpair.2.2.2.2.1
  have himem : ct.getD pos 0 ∈ pda.getD k [] :=
    (inv.mem k _).mpr ⟨hpair.2.2.1, hi, by rw [hpi]; exact Nat.le_refl _, hcl⟩
  cases hs : pda.getD k [] with
  | nil => rw [hs] at himem; simp at himem
  | cons t tl =>
    have hsorted := inv.sorted k
    rw [hs, List.pairwise_cons] at hsorted
    have htmem := (inv.mem k t).mp (by rw [hs]; simp)
    have htop : t = ct.getD pos 0 := by
      rw [hs, List.mem_cons] at himem
      rcases himem with h | h
      · exact h.symm
      · exfalso
        have hgt := hsorted.1 _ h
        have hctt : ct.getD t 0 ≠ 0 := by omega
        have hne : ct.getD t 0 ≠ pos := by
          intro e
          have := ct_sym hct hpos t e
          omega
        have := hcn (ct.getD pos 0) t (by omega) hctt hgt (by rw [hpi]; exact htmem.2.1) (by omega)
          (by rw [hcl, htmem.2.2.2])
        rw [hpi] at this
        omega
    subst htop
    refine ⟨tl, rfl, ?_⟩
    have hposlen : pos < cur.length := by rw [inv.curlen]; omega
    have hilen : ct.getD pos 0 < (cur.set pos (ct.getD pos 0)).length := by rw [List.length_set, inv.curlen]; omega
    exact {
      pdalen := by simp [inv.pdalen]
      sorted := by
        intro k'
        by_cases hkk : k = k'
        · subst hkk; rw [getD_set_self _ _ _ _ (by rw [inv.pdalen]; exact hk)]; exact hsorted.2
        · rw [getD_set_ne _ _ _ _ _ hkk]; exact inv.sorted k'
      mem := by
        intro k' p
        by_cases hkk : k = k'
        · subst hkk
          rw [getD_set_self _ _ _ _ (by rw [inv.pdalen]; exact hk)]
          have hm := inv.mem k p
          rw [hs, List.mem_cons] at hm
          constructor
          · intro hp
            have hlt' := hsorted.1 p hp
            have := hm.mp (Or.inr hp)
            have hne : ct.getD p 0 ≠ pos := by
              intro e
              have := ct_sym hct hpos p e
              omega
            exact ⟨this.1, by omega, by omega, this.2.2.2⟩
          · rintro ⟨h1, h2, h3, h4⟩
            have hne : p ≠ pos := by intro e; rw [e] at h3; omega
            rcases hm.mpr ⟨h1, by omega, by omega, h4⟩ with h | h
            · exfalso; rw [h, hpi] at h3; omega
            · exact h
        · rw [getD_set_ne _ _ _ _ _ hkk, inv.mem k' p]
          constructor
          · rintro ⟨h1, h2, h3, h4⟩
            have hne : ct.getD p 0 ≠ pos := by
              intro e
              have hs' := ct_sym hct hpos p e
              -- then p = ct[pos], whose class is k, not k'
              rw [← hs'.1, hcl] at h4
              injection h4 with h4; exact hkk h4
            exact ⟨h1, by omega, by omega, h4⟩
          · rintro ⟨h1, h2, h3, h4⟩
            have hne : p ≠ pos := by intro e; rw [e] at h3; omega
            exact ⟨h1, by omega, by omega, h4⟩
      curlen := by simp [inv.curlen]
      cur := by
        intro p
        simp only [ctUpTo]
        by_cases hp1 : p = ct.getD pos 0
        · rw [hp1, getD_set_self _ _ _ _ hilen, hpi, if_pos ⟨by omega, by omega, by omega⟩]
        · by_cases hp2 : p = pos
          · rw [hp2, getD_set_ne _ _ _ _ _ (by omega), getD_set_self _ _ _ _ hposlen,
                if_pos ⟨h0, by omega, by omega⟩]
          · rw [getD_set_ne _ _ _ _ _ (fun e => hp1 e.symm), getD_set_ne _ _ _ _ _ (fun e => hp2 e.symm), inv.cur p]
            simp only [ctUpTo]
            have hne : ct.getD p 0 ≠ pos := by
              intro e
              exact hp1 (ct_sym hct hpos p e).1.symm
            have e1 : (p < pos + 1) ↔ (p < pos) := by omega
            have e2 : (ct.getD p 0 < pos + 1) ↔ (ct.getD p 0 < pos) := by omega
            simp only [e1, e2] }

theorem wuss2ct_of_class_labels_loop (ss : Bytes) (ct : List Nat) (hct : CtOk ss.length ct) (hcn : ClassNested ct ss)
    (hl : ClassLabels ct ss) :
    ∀ (rest : Bytes) (pos : Nat) (pda : List (List Nat)) (cur : List Nat),
      ss.drop (pos-1) = rest → 1 ≤ pos → KInv ss ct pos pda cur →
      ∃ pda', w2cLoop ss rest pos pda cur = some (pda', ct) ∧ pda'.all (fun s => s.isEmpty) = true := by
  intro rest
  induction rest with
  | nil =>
    intro pos pda cur hd hpos inv
    have hge : ss.length ≤ pos - 1 := by
      rcases Nat.lt_or_ge (pos-1) ss.length with h1 | h1
      · rw [List.drop_eq_getElem_cons h1] at hd; cases hd
      · exact h1
    have hcur : cur = ct := by
      apply list_ext_getD _ _ (by rw [inv.curlen, hct.1])
      intro p
      rw [inv.cur p]
      simp only [ctUpTo]
      by_cases h0 : ct.getD p 0 = 0
      · rw [if_neg (fun h => h.1 h0), h0]
      · have := hct.2 p h0
        rw [if_pos ⟨h0, by omega, by omega⟩]
    subst hcur
    refine ⟨pda, rfl, (all_empty_iff pda inv.pdalen).mpr (fun k hk => ?_)⟩
    cases hs : pda.getD k [] with
    | nil => rfl
    | cons p tl =>
      exfalso
      have := (inv.mem k p).mp (by rw [hs]; simp)
      have h0 : cur.getD p 0 ≠ 0 := by omega
      have := (hct.2 p h0).2.2.2.1
      omega
  | cons c rest ih =>
    intro pos pda cur hd hpos inv
    obtain ⟨hc, hlt, hdrop⟩ := drop_cons_getD ss (pos-1) c rest hd
    have hd' : ss.drop (pos + 1 - 1) = rest := by
      have : pos + 1 - 1 = pos - 1 + 1 := by omega
      rw [this]; exact hdrop
    have hle : pos ≤ ss.length := by omega
    have hlab := hl pos hpos hle
    rw [hc] at hlab
    by_cases h0 : ct.getD pos 0 = 0
    · have hun := hlab.1 h0
      have F := (cf c).2.2.2.2 hun
      have hstep : w2cLoop ss (c :: rest) pos pda cur = w2cLoop ss rest (pos+1) pda cur := by
        simp [-List.getD_eq_getElem?_getD, w2cLoop, F.1, F.2.1, F.2.2.1, F.2.2.2.1, F.2.2.2.2, hun]
      rw [hstep]
      exact ih (pos+1) pda cur hd' (by omega) (kinv_skip hct inv hpos h0)
    · have hpair := hct.2 pos h0
      by_cases hleft : pos < ct.getD pos 0
      · rcases hlab.2 hleft with ⟨hop, _⟩ | ⟨hup, _⟩
        · have F := (cf c).1 hop
          have hstep : w2cLoop ss (c :: rest) pos pda cur = w2cLoop ss rest (pos+1) (pushAt pda 0 pos) cur := by
            simp [-List.getD_eq_getElem?_getD, w2cLoop, F.2.2.2, hop]
          rw [hstep]
          have hcl : openerClass (ss.getD (pos-1) 0) = some 0 := by rw [hc]; simp [openerClass, hop]
          exact ih (pos+1) _ cur hd' (by omega) (kinv_push hct inv hpos hleft 0 (by omega) hcl)
        · have U := ulf c hup
          have hstep : w2cLoop ss (c :: rest) pos pda cur = w2cLoop ss rest (pos+1) (pushAt pda (pkIndex c) pos) cur := by
            simp [-List.getD_eq_getElem?_getD, w2cLoop, U.2.2.2.2.2.2.2.2, U.2.2.2.2.2.2.1, U.2.2.2.2.2.2.2.1, hup]
          rw [hstep]
          have hcl : openerClass (ss.getD (pos-1) 0) = some (pkIndex c) := by
            rw [hc]; simp [openerClass, U.2.2.2.2.2.2.1, hup]
          exact ih (pos+1) _ cur hd' (by omega)
            (kinv_push hct inv hpos hleft (pkIndex c) (pkIndex_upper_bounds c hup).2 hcl)
      · have hi : ct.getD pos 0 < pos := by omega
        have hpi := hpair.2.2.2.2.1
        have hlabi := (hl (ct.getD pos 0) hpair.2.2.1 hpair.2.2.2.1).2 (by rw [hpi]; exact hi)
        rw [hpi, hc] at hlabi
        rcases hlabi with ⟨hop, hcc⟩ | ⟨hup, hcc⟩
        · -- a bracket pair: stack 0
          have FC := closer_is_close _ hop
          rw [← hcc] at FC
          have hcl : openerClass (ss.getD (ct.getD pos 0 - 1) 0) = some 0 := by unfold openerClass; rw [if_pos hop]
          obtain ⟨tl, hs, inv'⟩ := kinv_pop hct hcn inv hpos hle h0 hi 0 (by omega) hcl
          have hm : closerOf (ss.getD (ct.getD pos 0 - 1) 0) = c := hcc.symm
          have hstep : w2cLoop ss (c :: rest) pos pda cur =
              w2cLoop ss rest (pos+1) (pda.set 0 tl) ((cur.set pos (ct.getD pos 0)).set (ct.getD pos 0) pos) := by
            simp [-List.getD_eq_getElem?_getD, w2cLoop, FC.2.2, FC.2.1, FC.1, hs, hm]
          rw [hstep]
          exact ih (pos+1) _ _ hd' (by omega) inv'
        · -- a letter pair: the letter's own stack
          have U := ulf _ hup
          rw [← hcc] at U
          have hcl : openerClass (ss.getD (ct.getD pos 0 - 1) 0) = some (pkIndex c) := by
            unfold openerClass
            rw [if_neg (by rw [U.2.2.2.2.2.2.1]; exact Bool.false_ne_true), if_pos hup, U.2.1]
          obtain ⟨tl, hs, inv'⟩ := kinv_pop hct hcn inv hpos hle h0 hi (pkIndex c) (pkIndex_lower_bounds c U.1).2 hcl
          have hstep : w2cLoop ss (c :: rest) pos pda cur =
              w2cLoop ss rest (pos+1) (pda.set (pkIndex c) tl) ((cur.set pos (ct.getD pos 0)).set (ct.getD pos 0) pos) := by
            simp [-List.getD_eq_getElem?_getD, w2cLoop, U.2.2.1, U.2.2.2.1, U.2.2.2.2.1, U.2.2.2.2.2.1, U.1, hs]
          rw [hstep]
          exact ih (pos+1) _ _ hd' (by omega) inv'

/-- `esl_wuss2ct` of a class-nested labelling of a (possibly pseudoknotted) pair table returns exactly that table -/
theorem wuss2ct_of_class_labels' (ss : Bytes) (ct : List Nat) (hct : CtOk ss.length ct) (hcn : ClassNested ct ss)
    (hl : ClassLabels ct ss) : wuss2ct ss = some ct := by
  have hrep : ∀ k, (List.replicate 27 ([] : List Nat)).getD k [] = [] := by
    intro k
    simp only [List.getD_eq_getElem?_getD, List.getElem?_replicate]
    split <;> rfl
  have hinit : KInv ss ct 1 (List.replicate 27 []) (List.replicate (ss.length + 1) 0) := {
    pdalen := by simp
    sorted := fun k => by rw [hrep]; exact List.Pairwise.nil
    mem := by
      intro k p; rw [hrep]
      constructor
      · intro h; simp at h
      · rintro ⟨h1, h2, _⟩; omega
    curlen := by simp
    cur := by
      intro p
      simp only [ctUpTo]
      rw [if_neg (fun h => by omega)]
      simp only [List.getD_eq_getElem?_getD, List.getElem?_replicate]
      split <;> rfl }
  obtain ⟨pda', hrun, hall⟩ := wuss2ct_of_class_labels_loop ss ct hct hcn hl ss 1 _ _ (by simp) (Nat.le_refl _) hinit
  unfold wuss2ct
  rw [hrun]
  simp only [hall, if_true]

end EaselModel.Msa
