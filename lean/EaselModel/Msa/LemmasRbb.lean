import EaselModel.Msa.LemmasShape
import EaselModel.Msa.LemmasBreak
import EaselModel.Msa.LemmasMsa
/-! Lemmas: `esl_msa_RemoveBrokenBasepairs` keeps the alignment well formed (so that the column compaction that follows
    it in `esl_msa_ColumnSubset` is the column filter on DNA/RNA alignments too). -/
namespace EaselModel.Msa

theorem breakPairs_length (useme : List Bool) : ∀ (fuel apos : Nat) (ct : List Nat),
    (breakPairs useme apos fuel ct).length = ct.length := by
  intro fuel
  induction fuel with
  | zero => intros; rfl
  | succ fuel ih =>
    intro apos ct
    simp only [breakPairs]
    split
    · rw [ih]; simp only [List.length_set]; split <;> simp
    · exact ih _ _

/-- a repaired SS line has the same length and no NUL -/
theorem removeBrokenFromSS_shape (s s' : Bytes) (useme : List Bool) (h : removeBrokenFromSS s useme = .ok s') :
    s'.length = s.length ∧ ∀ c ∈ s', c ≠ 0 := by
  unfold removeBrokenFromSS at h
  split at h
  · cases h
  · rename_i ct hct
    have hl := (wuss2ct_involution' s ct hct).1
    have := ct2wussGen_shape false _ s' h
    rw [breakPairs_length, hl] at this
    exact ⟨by simpa using this.1, this.2⟩

theorem rbbSeqs_ok (useme : List Bool) (alen : Nat) : ∀ (l l' : List (Option Bytes)),
    rbbSeqs useme l = (l', none) → (∀ s ∈ l, optOk alen s) → l'.length = l.length ∧ ∀ s ∈ l', optOk alen s
  | [], l', h, _ => by simp [rbbSeqs] at h; subst h; simp
  | none :: rest, l', h, hok => by
    simp only [rbbSeqs] at h
    cases hr : rbbSeqs useme rest with
    | mk r e =>
      rw [hr] at h
      injection h with h1 h2
      subst h1; subst h2
      have ih := rbbSeqs_ok useme alen rest r hr (fun s hs => hok s (by simp [hs]))
      refine ⟨by simp [ih.1], fun s hs => ?_⟩
      simp only [List.mem_cons] at hs
      rcases hs with rfl | hs
      · intro b hb; cases hb
      · exact ih.2 s hs
  | some s0 :: rest, l', h, hok => by
    simp only [rbbSeqs] at h
    split at h
    · injection h with _ h2; cases h2
    · rename_i s1 hs1
      cases hr : rbbSeqs useme rest with
      | mk r e =>
        rw [hr] at h
        injection h with h1 h2
        subst h1; subst h2
        have ih := rbbSeqs_ok useme alen rest r hr (fun s hs => hok s (by simp [hs]))
        refine ⟨by simp [ih.1], fun s hs => ?_⟩
        simp only [List.mem_cons] at hs
        rcases hs with rfl | hs
        · intro b hb
          injection hb with hb; subst hb
          have hsh := removeBrokenFromSS_shape s0 s1 useme hs1
          have h0 := hok (some s0) (by simp) s0 rfl
          exact ⟨by rw [hsh.1, h0.1], hsh.2⟩
        · exact ih.2 s hs

/-- `esl_msa_RemoveBrokenBasepairs` with status `eslOK`: only SS_cons and the per-sequence SS lines were rewritten,
    and the alignment is still well formed -/
theorem removeBrokenBasepairs_wf (m : Msa) (useme : List Bool) (wf : m.WF)
    (hok : (removeBrokenBasepairs m useme).st = .ok) :
    (removeBrokenBasepairs m useme).msa.WF ∧ (removeBrokenBasepairs m useme).msa.alen = m.alen ∧
    ∃ sc ss', (removeBrokenBasepairs m useme).msa = { m with ss_cons := sc, ss := ss' } := by
  unfold removeBrokenBasepairs at hok ⊢
  split at hok
  · simp at hok
    rename_i e he
    cases e <;> simp [St.ofWErr] at hok
  · rename_i sc hsc
    have hscok : optOk m.alen sc := by
      cases hcons : m.ss_cons with
      | none =>
        rw [hcons] at hsc
        injection hsc with hsc; subst hsc
        intro b hb; cases hb
      | some s0 =>
        rw [hcons] at hsc
        simp only [Except.map] at hsc
        split at hsc
        · cases hsc
        · rename_i s1 hs1
          injection hsc with hsc; subst hsc
          intro b hb; injection hb with hb; subst hb
          have hsh := removeBrokenFromSS_shape s0 s1 useme hs1
          have h0 := wf.ss_cons_ok s0 hcons
          exact ⟨by rw [hsh.1, h0.1], hsh.2⟩
    cases hr : rbbSeqs useme m.ss with
    | mk ss' e =>
      simp only [hr] at hok ⊢
      cases e with
      | some e => simp at hok; cases e <;> simp [St.ofWErr] at hok
      | none =>
        simp only
        have hss := rbbSeqs_ok useme m.alen m.ss ss' hr wf.ss_ok
        refine ⟨?_, trivial, sc, ss', rfl⟩
        exact { wf with ss_cons_ok := hscok, ss_len := by rw [hss.1]; exact wf.ss_len, ss_ok := hss.2 }

end EaselModel.Msa
