import EaselModel.Msa.Model
/-! # Model of esl_msa.c, part 2 (kind H): comparison, checksum, name index, residue-symbol conversions, default weights,
    consensus (RF) line.

`esl_msa_Compare` / `CompareMandatory` / `CompareOptional`, `esl_msa_Checksum`, `esl_msa_Hash`,
`esl_msa_CheckUniqueNames`, `esl_msa_ConvertDegen2X` (+ `esl_abc_ConvertDegen2X`), `esl_msa_SymConvert`,
`esl_msa_SetDefaultWeights`, `esl_msa_ReasonableRF`.

Representation assumption (checked by the harness on every compared alignment, printed as `repinv=`): an optional
per-sequence array (`sqacc`, `sqdesc`, `ss`, `sa`, `pp`) is non-NULL iff at least one of its entries is non-NULL. Every
constructor in esl_msa.c that this model covers keeps that (`esl_msa_SetSeq*`, `msa_set_seq_*`, `SequenceSubset`, `Copy`).
Floating-point comparisons (`esl_DCompare_old(.., 0.001)`, `esl_FCompare_old(.., 0.01)`) and the weight arithmetic of
`ReasonableRF` are parameters of the model; the driver instantiates them with binary64/binary32 arithmetic (L0).
Core Lean only. -/
namespace EaselModel.Msa

/-! ## esl_msa_Compare -/

/-- `esl_CCompare(s1, s2) == eslOK` -/
def cCompare : Option Bytes → Option Bytes → Bool
  | none, none => true
  | some x, some y => decide (x = y)
  | _, _ => false

/-- the `for (i = 0; i < a1->nseq; i++)` loop of `esl_msa_CompareMandatory`; `fault` = index outside an array -/
def mandLoop (dcmp : UInt64 → UInt64 → Bool) (a b : Msa) : (fuel i : Nat) → St
  | 0, _ => .ok
  | fuel+1, i =>
    match a.sqname[i]?, b.sqname[i]?, a.wgt[i]?, b.wgt[i]?, a.rows[i]?, b.rows[i]? with
    | some n1, some n2, some w1, some w2, some r1, some r2 =>
      if n1 ≠ n2 then .efail                 -- strcmp(sqname)
      else if !dcmp w1 w2 then .efail        -- esl_DCompare_old(wgt, 0.001)
      else if r1 ≠ r2 then .efail            -- memcmp(ax, alen+2) / strcmp(aseq)
      else mandLoop dcmp a b fuel (i+1)
    | _, _, _, _, _, _ => .fault

def compareMandatory (dcmp : UInt64 → UInt64 → Bool) (a b : Msa) : St :=
  if a.nseq ≠ b.nseq then .efail
  else if a.alen ≠ b.alen then .efail
  else if a.flags ≠ b.flags then .efail
  else mandLoop dcmp a b a.nseq 0

/-- is the optional per-sequence array allocated (see the representation assumption in the header) -/
def arrAlloc (x : List (Option Bytes)) : Bool := x.any Option.isSome

def optLoop (x y : List (Option Bytes)) : (fuel i : Nat) → St
  | 0, _ => .ok
  | fuel+1, i =>
    match x[i]?, y[i]? with
    | some s1, some s2 => if !cCompare s1 s2 then .efail else optLoop x y fuel (i+1)
    | _, _ => .fault

/-- `if (a1->ss != NULL && a2->ss != NULL) { for (i..) CCompare } else if (a1->ss != NULL || a2->ss != NULL) return eslFAIL;` -/
def optArrCmp (n : Nat) (x y : List (Option Bytes)) : St :=
  if arrAlloc x && arrAlloc y then optLoop x y n 0
  else if arrAlloc x || arrAlloc y then .efail
  else .ok

def cutLoop (fcmp : UInt32 → UInt32 → Bool) (a b : Msa) : (fuel i : Nat) → St
  | 0, _ => .ok
  | fuel+1, i =>
    match a.cutset[i]?, b.cutset[i]?, a.cutoff[i]?, b.cutoff[i]? with
    | some s1, some s2, some c1, some c2 =>
      if s1 && s2 then (if !fcmp c1 c2 then .efail else cutLoop fcmp a b fuel (i+1))
      else if s1 || s2 then .efail
      else cutLoop fcmp a b fuel (i+1)
    | _, _, _, _ => .fault

/-- sequencing of the early returns -/
def St.andThen (s : St) (k : St) : St := if s = .ok then k else s

def compareOptional (fcmp : UInt32 → UInt32 → Bool) (a b : Msa) : St :=
  if !cCompare a.name b.name then .efail
  else if !cCompare a.desc b.desc then .efail
  else if !cCompare a.acc b.acc then .efail
  else if !cCompare a.au b.au then .efail
  else if !cCompare a.ss_cons b.ss_cons then .efail
  else if !cCompare a.sa_cons b.sa_cons then .efail
  else if !cCompare a.pp_cons b.pp_cons then .efail
  else if !cCompare a.rf b.rf then .efail
  else if !cCompare a.mm b.mm then .efail
  else (optArrCmp a.nseq a.sqacc b.sqacc).andThen <|
       (optArrCmp a.nseq a.sqdesc b.sqdesc).andThen <|
       (optArrCmp a.nseq a.ss b.ss).andThen <|
       (optArrCmp a.nseq a.sa b.sa).andThen <|
       (optArrCmp a.nseq a.pp b.pp).andThen <|
       cutLoop fcmp a b 6 0

/-- `esl_msa_Compare`: anything but `eslOK` from either half is `eslFAIL` (a model `fault` stays a fault) -/
def compare (dcmp : UInt64 → UInt64 → Bool) (fcmp : UInt32 → UInt32 → Bool) (a b : Msa) : St :=
  match compareMandatory dcmp a b with
  | .fault => .fault
  | .ok => (match compareOptional fcmp a b with
            | .ok => .ok
            | .fault => .fault
            | _ => .efail)
  | _ => .efail

/-! ## esl_msa_Checksum -/

/-- `val += c; val += (val << 10); val ^= (val >> 6);` -/
def jenkinsStep (val c : UInt32) : UInt32 :=
  let v := val + c
  let v := v + (v <<< 10)
  v ^^^ (v >>> 6)

/-- `val += (val << 3); val ^= (val >> 11); val += (val << 15);` -/
def jenkinsFinal (val : UInt32) : UInt32 :=
  let v := val + (val <<< 3)
  let v := v ^^^ (v >>> 11)
  v + (v <<< 15)

/-- what `val += x` adds for one cell: an `ESL_DSQ` (unsigned char) in digital mode, a (signed) `char` in text mode -/
def cellWord (digital : Bool) (c : UInt8) : UInt32 :=
  if digital || c < 128 then c.toUInt32 else c.toUInt32 + 0xffffff00

def checksum (m : Msa) : UInt32 :=
  jenkinsFinal <|
    (m.rows.take m.nseq).foldl (fun v r => (r.take m.alen).foldl (fun v c => jenkinsStep v (cellWord m.isDigital c)) v) 0

/-! ## esl_msa_Hash, esl_msa_CheckUniqueNames -/

/-- `for (idx..) esl_keyhash_Store(kh, sqname[idx])`: `some idx` = the first index whose name was already stored -/
def firstDup : (seen : List Bytes) → (names : List Bytes) → (idx : Nat) → Option Nat
  | _, [], _ => none
  | seen, n :: rest, idx => if seen.contains n then some idx else firstDup (n :: seen) rest (idx+1)

inductive HashSt where
  | ok | edup | efail
  deriving Repr, DecidableEq, Inhabited

/-- `esl_msa_Hash`: `eslOK` and an index over all names, or `eslEDUP` (and `msa->index == NULL`) -/
def hashNames (m : Msa) : HashSt := match firstDup [] (m.sqname.take m.nseq) 0 with | none => .ok | some _ => .edup
/-- `esl_msa_CheckUniqueNames`: `eslOK` / `eslFAIL` -/
def checkUniqueNames (m : Msa) : HashSt := match firstDup [] (m.sqname.take m.nseq) 0 with | none => .ok | some _ => .efail

/-! ## esl_msa_ConvertDegen2X -/

def Abc.xIsDegenerate (a : Abc) (x : UInt8) : Bool := x.toNat > a.K && x.toNat < a.Kp - 2
def Abc.xUnknown (a : Abc) : UInt8 := UInt8.ofNat (a.Kp - 3)

/-- `esl_abc_ConvertDegen2X(abc, dsq)`: `for (i = 1; dsq[i] != eslDSQ_SENTINEL; i++) if (degenerate) dsq[i] = unknown` -/
def degenCell (a : Abc) (x : UInt8) : UInt8 := if a.xIsDegenerate x then a.xUnknown else x
def degen2XRow (a : Abc) (r : Bytes) : Bytes := r.map (degenCell a)

def convertDegen2X (m : Msa) : Res :=
  if !m.isDigital then { msa := m, st := .einval, exc := true }
  else match m.abc with
    | none => { msa := m, st := .fault }
    | some a => { msa := { m with rows := m.rows.map (degen2XRow a) }, st := .ok }

/-! ## esl_msa_SymConvert -/

/-- `(sptr = strchr(oldsyms, c)) != NULL ? (special ? *newsyms : newsyms[sptr-oldsyms]) : c` for a non-NUL `c` -/
def symConvChar (olds news : Bytes) (c : UInt8) : UInt8 :=
  match olds.findIdx? (· == c) with
  | some k => if news.length == 1 then news.getD 0 0 else news.getD k 0
  | none => c

def symConvert (m : Msa) (olds news : Bytes) : Res :=
  if m.isDigital then { msa := m, st := .einval, exc := true }
  else if olds.length ≠ news.length && news.length ≠ 1 then { msa := m, st := .einval, exc := true }
  else { msa := { m with rows := m.rows.map fun r => (r.take m.alen).map (symConvChar olds news) ++ r.drop m.alen }, st := .ok }

/-! ## esl_msa_SetDefaultWeights -/

def setDefaultWeights (m : Msa) : Msa :=
  { m with wgt := m.wgt.map (fun _ => 0x3ff0000000000000), flags := m.flags - m.flags % 2 }

/-! ## esl_msa_ReasonableRF (useconsseq = FALSE) -/

/-- the arithmetic `esl_msa_ReasonableRF` needs from `double`; the driver instantiates it with binary64 -/
structure WArith (W : Type) where
  zero : W
  add : W → W → W
  /-- `r > 0. && r / totwgt >= symfrac` -/
  isCons : W → W → Bool

/-- one column: `r` = weight of the sequences with a residue, `totwgt` = `r` + weight of those with a gap;
    missing-data cells (digital mode only) count for neither -/
def rfColumn {W : Type} (A : WArith W) (isRes isGapLike : UInt8 → Bool) (cells : List (UInt8 × W)) : UInt8 :=
  let (r, tot) := cells.foldl (fun (acc : W × W) cw =>
    if isRes cw.1 then (A.add acc.1 cw.2, A.add acc.2 cw.2)
    else if isGapLike cw.1 then (acc.1, A.add acc.2 cw.2)
    else acc) (A.zero, A.zero)
  if A.isCons r tot then 0x78 else 0x2e

/-- `esl_msa_ReasonableRF(msa, symfrac, FALSE, rfline)`: text mode: residue = `isalpha`, everything else a gap;
    digital mode: `esl_abc_XIsResidue` / `esl_abc_XIsGap`, anything else (missing data, `*`) skipped -/
def rfPreds (m : Msa) : Option ((UInt8 → Bool) × (UInt8 → Bool)) :=
  if m.isDigital then
    match m.abc with
    | some a => some (a.xIsResidue, a.xIsGap)
    | none => none
  else some (isAlpha, fun (_ : UInt8) => true)

def reasonableRF {W : Type} (A : WArith W) (m : Msa) (wgt : List W) : Option Bytes :=
  match rfPreds m with
  | none => none
  | some (isRes, isGapLike) =>
    some <| (List.range m.alen).map fun apos =>
      rfColumn A isRes isGapLike (((m.rows.take m.nseq).map (fun r => r.getD apos 0)).zip wgt)

/-! ## esl_msa_ReasonableRF (useconsseq = TRUE, digital mode) -/

/-- binary32 counts fed by binary64 weights: what `esl_abc_FCount` / `esl_vec_FArgMax` need; the driver instantiates it
    with `Float32` -/
structure CArith (W C : Type) where
  zero : C
  ofW : W → C            -- `(float) msa->wgt[idx]`
  add : C → C → C
  divNat : C → Nat → C   -- `wt / (float) abc->ndegen[x]`
  gt : C → C → Bool

/-- `esl_abc_FCount(abc, ct, x, wt)` on a count vector `ct[0..K-1]` for a RESIDUE code `x`: a canonical residue counts
    for itself, a degenerate one is divided equally over the residues it stands for -/
def fCount {C : Type} (add : C → C → C) (divNat : C → Nat → C) (a : Abc) (ct : List C) (x : UInt8) (wt : C) : List C :=
  if x.toNat < a.K then ct.modify x.toNat (fun c => add c wt)
  else (List.range a.K).foldl (fun ct y =>
    if (a.degen.getD x.toNat []).getD y false then ct.modify y (fun c => add c (divNat wt (a.ndegen.getD x.toNat 0)))
    else ct) ct

/-- `esl_vec_FArgMax(vec, n)`: the first index of a maximal element (`>` comparisons from index 1 on) -/
def fArgMax {C : Type} (gt : C → C → Bool) (d : C) (v : List C) : Nat :=
  (List.range v.length).foldl (fun best i => if i ≥ 1 && gt (v.getD i d) (v.getD best d) then i else best) 0

/-- `esl_msa_ReasonableRF(msa, symfrac, TRUE, rfline)` on a DIGITAL alignment: a consensus column carries the symbol of the
    residue with the largest weighted count. On a text-mode alignment (or any alignment without alphabet) the C code
    dereferences `msa->abc == NULL` in its first statement: `none` = that fault (known finding
    `C15:esl_msa_ReasonableRF:text-useconsseq-null-abc`, patch proposed). -/
def reasonableRFCons {W C : Type} (A : WArith W) (B : CArith W C) (m : Msa) (wgt : List W) : Option Bytes :=
  if !m.isDigital then none
  else match m.abc with
    | none => none
    | some a =>
      some <| (List.range m.alen).map fun apos =>
        let cells := ((m.rows.take m.nseq).map (fun r => r.getD apos 0)).zip wgt
        let acc := cells.foldl (fun (acc : W × W × List C) cw =>
          if a.xIsResidue cw.1 then
            (A.add acc.1 cw.2, A.add acc.2.1 cw.2, fCount B.add B.divNat a acc.2.2 cw.1 (B.ofW cw.2))
          else if a.xIsGap cw.1 then (acc.1, A.add acc.2.1 cw.2, acc.2.2)
          else acc) (A.zero, A.zero, List.replicate a.K B.zero)
        if A.isCons acc.1 acc.2.1 then a.sym.getD (fArgMax B.gt B.zero acc.2.2) 0 else 0x2e

/-! ## esl_msa_AppendGC -/

/-- `esl_msa_AddComment(msa, p, n)`: the line is stored at the end of `comment[]` (grown by doubling from 16) -/
def addComment (m : Msa) (v : Bytes) : Msa := { m with comment := m.comment ++ [v] }

/-- `esl_msa_AddGF(msa, tag, taglen, value, vlen)`: a new (tag, value) line at the end of `gf_tag[] / gf[]`; a repeated tag
    is a new line, not a concatenation -/
def addGF (m : Msa) (tag v : Bytes) : Msa := { m with gf := m.gf ++ [(tag, v)] }

/-- `esl_msa_AppendGC(msa, tag, value)`: a new tag gets a new line at the end; an existing tag (keyhash lookup) has the
    value appended to its line (`esl_strcat`) -/
def appendGC (tbl : List (Bytes × Bytes)) (tag v : Bytes) : List (Bytes × Bytes) :=
  match tbl.findIdx? (fun t => t.1 == tag) with
  | some t => tbl.modify t (fun (tg, old) => (tg, old ++ v))
  | none => tbl ++ [(tag, v)]

/-! ## esl_sq.c: conversions of a sequence object (as obtained from `esl_sq_FetchFromMSA`) -/

/-- an `ESL_SQ`: `abc = some a` is digital mode (`dsq[1..n]`, `ss`/`xr` indexed 1..n), `none` text mode -/
structure Sq where
  f : Fetched
  abc : Option Abc
  start : Int
  stop : Int
  deriving Repr, DecidableEq, Inhabited

def sqOfFetch (m : Msa) (f : Fetched) : Sq :=
  { f := f, abc := if m.isDigital then m.abc else none, start := 1, stop := f.seq.length }

structure SqRes where
  sq : Sq
  st : St
  exc : Bool := false
  deriving Repr, Inhabited

/-- `esl_sq_Digitize(abc, sq)`: already digital: no-op; an invalid character: `eslEINVAL`, untouched; else the sequence is
    digitized and `ss` / `xr` keep their content (shifted to 1..n) -/
def sqDigitize (a : Abc) (q : Sq) : SqRes :=
  match q.abc with
  | some _ => { sq := q, st := .ok }
  | none =>
    if !(q.f.seq.all a.cIsValid) then { sq := q, st := .einval }
    else { sq := { q with f := { q.f with seq := q.f.seq.map a.digit }, abc := some a }, st := .ok }

/-- `esl_sq_Textize(sq)` -/
def sqTextize (q : Sq) : SqRes :=
  match q.abc with
  | none => { sq := q, st := .ok }
  | some a => { sq := { q with f := { q.f with seq := q.f.seq.map (fun x => a.sym.getD x.toNat 0) }, abc := none }, st := .ok }

/-- the `switch` of `esl_sq_ReverseComplement` (text mode); `none` = `default:` (`'N'`, and the status becomes `eslEINVAL`) -/
def textCompl (c : UInt8) : Option UInt8 :=
  let tbl : List (Char × Char) :=
    [('A','T'),('C','G'),('G','C'),('T','A'),('U','A'),('R','Y'),('Y','R'),('M','K'),('K','M'),('S','S'),('W','W'),('H','D'),
     ('B','V'),('V','B'),('D','H'),('N','N'),('X','X'),
     ('a','t'),('c','g'),('g','c'),('t','a'),('u','a'),('r','y'),('y','r'),('m','k'),('k','m'),('s','s'),('w','w'),('h','d'),
     ('b','v'),('v','b'),('d','h'),('n','n'),('x','x'),('.','.'),('_','_'),('-','-'),('~','~'),('*','*')]
  (tbl.find? (fun p => p.1.toNat == c.toNat)).map (fun p => UInt8.ofNat p.2.toNat)

/-- `esl_sq_ReverseComplement(sq)`: the sequence is reverse-complemented, `start`/`end` are swapped, and the secondary
    structure and every extra residue markup are discarded. Text mode: an unknown character becomes `N` and the status
    `eslEINVAL` (the conversion is still completed). Digital mode without a complement table: `eslEINCOMPAT`, untouched. -/
def sqReverseComplement (q : Sq) : SqRes :=
  match q.abc with
  | none =>
    let seq' := (q.f.seq.map fun c => (textCompl c).getD 0x4e).reverse
    let bad := q.f.seq.any fun c => (textCompl c).isNone
    { sq := { q with f := { q.f with seq := seq', ss := none, xr := [] }, start := q.stop, stop := q.start },
      st := if bad then .einval else .ok }
  | some a =>
    match a.complement with
    | none => { sq := q, st := .eincompat, exc := true }
    | some compl =>
      { sq := { q with f := { q.f with seq := revcompRow compl q.f.seq, ss := none, xr := [] }, start := q.stop, stop := q.start },
        st := .ok }

/-- `esl_sq_ConvertDegen2X(sq)` -/
def sqConvertDegen2X (q : Sq) : SqRes :=
  match q.abc with
  | none => { sq := q, st := .einval, exc := true }
  | some a => { sq := { q with f := { q.f with seq := degen2XRow a q.f.seq } }, st := .ok }

end EaselModel.Msa
