import EaselModel.Msa.LemmasPk3
/-! Lemmas: TOTALITY of `esl_ct2wuss` on an arbitrary symmetric pair table. The run never reads or writes out of bounds,
    always finds the left partner, never meets an unknown face code and reaches every pair; the ONLY way it can fail is
    the documented `eslEINVAL` "not enough letters" of the pseudoknot-lettering loop. -/
namespace EaselModel.Msa

/-! ## the inner loops cannot fail (bounds only) -/

theorem rdNat_st (st : C2W) (cct : List Nat) (hcct : st.cct = cct.toArray) (i : Int) (h0 : 0 ≤ i) (h : i.toNat < cct.length) :
    rdNat st.cct i = .ok (cct.getD i.toNat 0) := by
  rw [hcct]; exact rdNat_toArray cct i h0 h

/-- the pop loop of a right end on an arbitrary table cannot fail: the partner is on the stack, every entry above it is a
    face marker or a position, the face code stays within `-4..-1` -/
theorem popLoopG_noerr (n : Nat) (ct cct : List Nat) (hlen : ct.length = n + 1) (hclen : cct.length = n + 1) (j i : Nat)
    (below : List Int) (hj : 1 ≤ j ∧ j ≤ n) (hi : 1 ≤ i ∧ i < j) (hij : cct.getD i 0 = j) :
    ∀ (above : List Int) (nf : Nat) (mf : Int) (st : C2W) (e : WErr),
      (∀ a ∈ above, (a < 0 ∧ -4 ≤ a) ∨ (0 ≤ a ∧ 1 ≤ a.toNat ∧ a.toNat ≤ n ∧ cct.getD a.toNat 0 ≠ j)) →
      -4 ≤ mf → mf ≤ -1 →
      st.cct = cct.toArray → st.ss.size = n →
      (∀ p ∈ st.auxss, 1 ≤ p ∧ p ≤ n) →
      popLoop false ct.toArray j (above ++ (i : Int) :: below) nf mf st ≠ .error e
  | [], nf, mf, st, e, _, hmf1, hmf2, hcct, hsz, haux, h => by
    simp only [List.nil_append] at h
    unfold popLoop at h
    have hnot : ¬ ((!false && decide ((i : Int) < 0)) = true) := by simp
    rw [if_neg hnot] at h
    simp only [bind, Except.bind, pure, Except.pure] at h
    rw [rdNat_st st cct hcct (i : Int) (by omega) (by simp; omega)] at h
    simp only [Int.toNat_natCast, hij, beq_self_eq_true, if_true, Bool.false_eq_true, if_false] at h
    have hmfv : -4 ≤ (if (decide (nf > 1) && decide (mf > -4)) = true then mf - 1 else mf) ∧
        (if (decide (nf > 1) && decide (mf > -4)) = true then mf - 1 else mf) ≤ -1 := by
      split
      · rename_i hc
        simp only [Bool.and_eq_true, decide_eq_true_eq] at hc
        omega
      · omega
    obtain ⟨oc, hoc⟩ := faceChars_ok _ hmfv.1 hmfv.2
    rw [hoc] at h
    simp only at h
    obtain ⟨ss1, h1⟩ := wrSs_ok_of_range st.ss ((i : Int) - 1) oc.1 (by omega) (by omega)
    rw [h1] at h
    simp only at h
    have hs1 := (wrSs_ok_inv h1).2.2.1
    obtain ⟨ss2, h2⟩ := wrSs_ok_of_range ss1 ((j : Int) - 1) oc.2 (by omega) (by omega)
    rw [h2] at h
    simp only at h
    have hs2 := (wrSs_ok_inv h2).2.2.1
    obtain ⟨ss3, h3⟩ := drainAuxss_ok nf st.auxss ss2 (fun p hp => by
      have := haux p hp; rw [hs2, hs1, hsz]; exact ⟨this.1, this.2⟩)
    rw [h3] at h
    cases h
  | a :: above, nf, mf, st, e, habove, hmf1, hmf2, hcct, hsz, haux, h => by
    have ha := habove a (by simp)
    have habove' : ∀ a' ∈ above, (a' < 0 ∧ -4 ≤ a') ∨ (0 ≤ a' ∧ 1 ≤ a'.toNat ∧ a'.toNat ≤ n ∧ cct.getD a'.toNat 0 ≠ j) :=
      fun a' h' => habove a' (by simp [h'])
    simp only [List.cons_append] at h
    unfold popLoop at h
    rcases ha with ⟨hneg, hge⟩ | ⟨hnn, h1, h2, h3⟩
    · have hc : ((!false && decide (a < 0)) = true) := by simp [hneg]
      rw [if_pos hc] at h
      exact popLoopG_noerr n ct cct hlen hclen j i below hj hi hij above (nf+1) (if a < mf then a else mf) st e habove'
        (by split <;> omega) (by split <;> omega) hcct hsz haux h
    · have hc : ¬ ((!false && decide (a < 0)) = true) := by simp; omega
      rw [if_neg hc] at h
      simp only [bind, Except.bind, pure, Except.pure] at h
      rw [rdNat_st st cct hcct a hnn (by omega)] at h
      have hne : (cct.getD a.toNat 0 == j) = false := by rw [beq_eq_false_iff_ne]; exact h3
      simp only [hne, Bool.false_eq_true, if_false] at h
      by_cases hz : cct.getD a.toNat 0 = 0
      · simp only [hz, beq_self_eq_true, if_true] at h
        rw [rdNat_toArray ct a hnn (by omega)] at h
        simp only at h
        by_cases ho : ct.getD a.toNat 0 = 0
        · simp only [ho, beq_self_eq_true, if_true] at h
          exact popLoopG_noerr n ct cct hlen hclen j i below hj hi hij above nf mf
            { st with auxss := a.toNat :: st.auxss } e habove' hmf1 hmf2 hcct hsz
            (by
              intro p hp
              change p ∈ a.toNat :: st.auxss at hp
              simp only [List.mem_cons] at hp
              rcases hp with rfl | hp
              · exact ⟨h1, h2⟩
              · exact haux p hp) h
        · have hob : (ct.getD a.toNat 0 == 0) = false := by rw [beq_eq_false_iff_ne]; exact ho
          simp only [hob, Bool.false_eq_true, if_false] at h
          exact popLoopG_noerr n ct cct hlen hclen j i below hj hi hij above nf mf st e habove' hmf1 hmf2 hcct hsz haux h
      · have hzb : (cct.getD a.toNat 0 == 0) = false := by rw [beq_eq_false_iff_ne]; exact hz
        simp only [hzb, Bool.false_eq_true, if_false] at h
        exact popLoopG_noerr n ct cct hlen hclen j i below hj hi hij above nf mf
          { st with auxpk := a.toNat :: st.auxpk } e habove' hmf1 hmf2 hcct hsz haux h

/-- the helix-continuation scan reads only `cct[k]` for `leftbound < k <= rightbound-1` -/
theorem scanK_noerr (cct : List Nat) (i : Nat) (lb rbd : Int) (hlb : 0 ≤ lb) :
    ∀ (fuel : Nat) (k : Int) (e : WErr), k.toNat < cct.length → scanK cct.toArray i lb rbd fuel k ≠ .error e := by
  intro fuel
  induction fuel with
  | zero => intro k e _ h; simp only [scanK] at h; cases h
  | succ fuel ih =>
    intro k e hk h
    unfold scanK at h
    by_cases hgt : k > lb
    · rw [if_pos hgt] at h
      simp only [bind, Except.bind] at h
      rw [rdNat_toArray cct k (by omega) hk] at h
      simp only at h
      split at h
      · exact ih (k-1) e (by omega) h
      · split at h
        · exact ih (k-1) e (by omega) h
        · split at h <;> cases h
    · rw [if_neg hgt] at h; cases h

/-- with `rightbound = leftbound + 1` (the first item of a batch) the scan does not run: "a new pseudoknot" -/
theorem scanK_first (cct : Array Nat) (i : Nat) (lb : Int) (fuel : Nat) : scanK cct i lb (lb + 1) (fuel + 1) (lb + 1 - 1) = .ok lb := by
  unfold scanK
  have : ¬ (lb + 1 - 1 > lb) := by omega
  rw [if_neg this]
  congr 1; omega

/-- `while (xpk < 26 && i < rb[xpk]) xpk++` stays inside `rb[26]` and ends with `xpk <= 26` -/
theorem bumpXpk_ok (rb : Array Int) (i : Nat) (hrb : rb.size = 26) :
    ∀ (fuel : Nat) (xpk : Int), 0 ≤ xpk → xpk ≤ 26 → (26 - xpk).toNat < fuel →
      ∃ x, bumpXpk rb i fuel xpk = .ok x ∧ xpk ≤ x ∧ x ≤ 26 := by
  intro fuel
  induction fuel with
  | zero => intro xpk _ _ hf; omega
  | succ fuel ih =>
    intro xpk h0 h26 hf
    unfold bumpXpk
    by_cases hlt : xpk < 26
    · rw [if_pos hlt]
      simp only [bind, Except.bind]
      have hrd : rdInt rb xpk = .ok (rb.getD xpk.toNat 0) := by
        unfold rdInt; rw [if_pos ⟨h0, by omega⟩]
      rw [hrd]
      simp only
      split
      · obtain ⟨x, hx, h1, h2⟩ := ih (xpk+1) (by omega) (by omega) (by omega)
        exact ⟨x, hx, by omega, h2⟩
      · exact ⟨xpk, rfl, Int.le_refl _, h26⟩
    · rw [if_neg hlt]; exact ⟨xpk, rfl, Int.le_refl _, h26⟩

/-! ## the lettering loop: its only failure is "not enough letters" -/

theorem wrNat_ok_of_range (l : List Nat) (i : Int) (v : Nat) (h0 : 0 ≤ i) (h : i.toNat < l.length) :
    wrNat l.toArray i v = .ok (l.set i.toNat v).toArray := by
  have : ∃ a', wrNat l.toArray i v = .ok a' := ⟨_, by unfold wrNat; rw [if_pos ⟨h0, by simpa using h⟩]⟩
  obtain ⟨a', ha⟩ := this
  rw [ha, (wrNat_toList ha).2.2]

theorem pkLoop_err (n : Nat) (ct : List Nat) (hlen : ct.length = n + 1) (j : Nat) (hjn : j ≤ n) :
    ∀ (items : List Nat) (lb rbd xpk : Int) (st : C2W) (cct : List Nat) (e : WErr),
      st.cct = cct.toArray → cct.length = n + 1 → st.ss.size = n → st.rb.size = 26 →
      items.Pairwise (· < ·) →
      (∀ a ∈ items, 1 ≤ a ∧ a < j ∧ cct.getD a 0 = ct.getD a 0 ∧ j < ct.getD a 0 ∧ ct.getD a 0 ≤ n) →
      0 ≤ lb → 0 ≤ rbd → rbd ≤ (n : Int) → ((xpk = -1 ∧ rbd = lb + 1) ∨ (0 ≤ xpk ∧ xpk ≤ 25)) →
      pkLoop ct.toArray j items lb rbd xpk st = .error e → ∃ p, e = .einvalLetters p
  | [], lb, rbd, xpk, st, cct, e, _, _, _, _, _, _, _, _, _, _, h => by simp only [pkLoop] at h; cases h
  | i :: rest, lb, rbd, xpk, st, cct, e, hcct, hclen, hsz, hrbsz, hsorted, hitems, hlb, hrbd0, hrbn, hx, h => by
    have hi := hitems i (by simp)
    have hsrt := List.pairwise_cons.mp hsorted
    unfold pkLoop at h
    simp only [bind, Except.bind, pure, Except.pure] at h
    cases hk : scanK st.cct i lb rbd (st.cct.size + 2) (rbd - 1) with
    | error e' =>
      rw [hcct] at hk
      exact absurd hk (scanK_noerr cct i lb rbd hlb _ _ e' (by omega))
    | ok k =>
      rw [hk] at h; simp only at h
      rw [rdNat_st st cct hcct (i:Int) (by omega) (by simp; omega)] at h
      simp only [Int.toNat_natCast] at h
      have hrdj := rdNat_st st cct hcct (j:Int) (by omega) (by simp; omega)
      have hx1 : 0 ≤ xpk + 1 ∧ xpk + 1 ≤ 26 := by rcases hx with ⟨h1,_⟩ | ⟨h1,h2⟩ <;> omega
      obtain ⟨x0, hbx, hx0, hx26⟩ := bumpXpk_ok st.rb i hrbsz 64 (xpk+1) hx1.1 hx1.2 (by omega)
      split at h
      · rename_i err herr
        by_cases hkl : k = lb
        · simp only [hkl, beq_self_eq_true, if_true, hbx, hrdj] at herr
          cases herr
        · have : (k == lb) = false := by rw [beq_eq_false_iff_ne]; exact hkl
          simp only [this, Bool.false_eq_true, if_false] at herr
          cases herr
      · rename_i trip htrip
        obtain ⟨x, lb', rbd'⟩ := trip
        simp only at h
        have hb : 0 ≤ x ∧ x ≤ 26 ∧ 0 ≤ lb' ∧ 0 ≤ rbd' ∧ rbd' ≤ (n : Int) := by
          by_cases hkl : k = lb
          · simp only [hkl, beq_self_eq_true, if_true, hbx, hrdj] at htrip
            injection htrip with htrip
            injection htrip with e1 e2
            injection e2 with e2 e3
            subst e1; subst e3
            refine ⟨by omega, hx26, ?_, by omega, by rw [hi.2.2.1]; omega⟩
            rw [← e2]; split <;> omega
          · have : (k == lb) = false := by rw [beq_eq_false_iff_ne]; exact hkl
            simp only [this, Bool.false_eq_true, if_false] at htrip
            injection htrip with htrip
            injection htrip with e1 e2
            injection e2 with e2 e3
            subst e1; subst e2; subst e3
            rcases hx with ⟨h1, h2⟩ | ⟨h1, h2⟩
            · exfalso
              subst h2
              have hf := scanK_first st.cct i lb (st.cct.size + 1)
              have : Except.ok k = (Except.ok lb : Except WErr Int) := hk.symm.trans hf
              injection this with this
              exact hkl this
            · exact ⟨h1, by omega, hlb, hrbd0, hrbn⟩
        obtain ⟨hx0', hx26', hlb', hrbd0', hrbn'⟩ := hb
        by_cases hx25 : x + 97 ≤ 122
        · rw [if_pos hx25] at h
          have hrd : rdInt st.rb x = .ok (st.rb.getD x.toNat 0) := by unfold rdInt; rw [if_pos ⟨hx0', by omega⟩]
          rw [hrd] at h; simp only at h
          obtain ⟨ss1, h1⟩ := wrSs_ok_of_range st.ss ((i:Int) - 1) (UInt8.ofNat (x + 65).toNat) (by omega) (by omega)
          rw [h1] at h; simp only at h
          have hs1 := (wrSs_ok_inv h1).2.2.1
          obtain ⟨ss2, h2⟩ := wrSs_ok_of_range ss1 (((cct.getD i 0 : Nat) : Int) - 1) (UInt8.ofNat (x + 97).toNat)
            (by rw [hi.2.2.1]; omega) (by rw [hs1, hsz, hi.2.2.1]; omega)
          rw [h2] at h; simp only at h
          have hs2 := (wrSs_ok_inv h2).2.2.1
          rw [hcct, wrNat_ok_of_range cct (i:Int) 0 (by omega) (by simp; omega)] at h
          simp only [Int.toNat_natCast] at h
          rw [rdNat_toArray ct (i:Int) (by omega) (by simp; omega)] at h
          simp only [Int.toNat_natCast] at h
          rw [wrNat_ok_of_range (cct.set i 0) ((ct.getD i 0 : Nat) : Int) 0 (by omega) (by simp only [List.length_set, Int.toNat_natCast]; omega)] at h
          simp only [Int.toNat_natCast] at h
          refine pkLoop_err n ct hlen j hjn rest lb' rbd' x _ ((cct.set i 0).set (ct.getD i 0) 0) e rfl (by simp [hclen])
            (by rw [hs2, hs1, hsz]) (by split <;> simp [hrbsz]) hsrt.2 ?_ hlb' hrbd0' hrbn' (Or.inr ⟨hx0', by omega⟩) h
          intro a ha
          have hA := hitems a (by simp [ha])
          have hlt := hsrt.1 a ha
          refine ⟨hA.1, hA.2.1, ?_, hA.2.2.2⟩
          rw [getD_set_ne _ _ _ _ _ (by omega), getD_set_ne _ _ _ _ _ (by omega)]
          exact hA.2.2.1
        · rw [if_neg hx25] at h
          injection h with h
          exact ⟨_, h.symm⟩
/-- the working table after a lettering batch: both ends of every item zeroed -/
def zeroPairs (ct : List Nat) : List Nat → List Nat → List Nat
  | [], cct => cct
  | i :: rest, cct => zeroPairs ct rest ((cct.set i 0).set (ct.getD i 0) 0)

/-- structure of a successful batch: one more pair reached per item, both ends of each item zeroed -/
theorem pkLoop_struct (ct : List Nat) (j : Nat) :
    ∀ (items : List Nat) (lb rbd xpk : Int) (st st' : C2W) (cct : List Nat),
      st.cct = cct.toArray → pkLoop ct.toArray j items lb rbd xpk st = .ok st' →
      st'.reached = st.reached + items.length ∧ st'.cct = (zeroPairs ct items cct).toArray
  | [], lb, rbd, xpk, st, st', cct, hcct, h => by
    simp only [pkLoop] at h
    injection h with h; subst h
    exact ⟨rfl, hcct⟩
  | i :: rest, lb, rbd, xpk, st, st', cct, hcct, h => by
    unfold pkLoop at h
    simp only [bind, Except.bind, pure, Except.pure] at h
    split at h
    · cases h
    · split at h
      · cases h
      · split at h
        · cases h
        · rename_i trip htrip
          obtain ⟨x, lb', rbd'⟩ := trip
          simp only at h
          split at h
          · split at h
            · cases h
            · split at h
              · cases h
              · split at h
                · cases h
                · split at h
                  · cases h
                  · rename_i c1 hc1
                    split at h
                    · cases h
                    · rename_i oi hoi
                      split at h
                      · cases h
                      · rename_i c2 hc2
                        rw [hcct] at hc1
                        have hw1 := wrNat_toList hc1
                        simp only [Int.toNat_natCast] at hw1
                        have hr := rdNat_ok_inv hoi
                        have hv : oi = ct.getD i 0 := by
                          have h' := rdNat_toArray ct (i : Int) hr.1 (by simpa using hr.2.1)
                          rw [h'] at hoi; injection hoi with hoi
                          simpa using hoi.symm
                        rw [hw1.2.2] at hc2
                        have hw2 := wrNat_toList hc2
                        simp only [Int.toNat_natCast] at hw2
                        have ih := pkLoop_struct ct j rest lb' rbd' x _ st' ((cct.set i 0).set (ct.getD i 0) 0)
                          (by simp only; rw [hw2.2.2, hv]) h
                        simp only [List.length_cons, zeroPairs]
                        exact ⟨by rw [ih.1]; simp only; omega, ih.2⟩
          · cases h
/-! ## counting: `npairs_reached` -/

/-- what `npairs_reached` is when the main loop stands at `j`: the right ends already passed, plus the right ends of the
    pairs that were given a pseudoknot letter (zeroed in the working table) -/
def cntSpec (n : Nat) (ct cct : List Nat) (j : Nat) : Nat :=
  ((List.range (n+1)).filter (fun q => decide (ct.getD q 0 ≠ 0 ∧ ct.getD q 0 < q ∧ (q < j ∨ cct.getD q 0 = 0)))).length

theorem cntSpec_add_one (n : Nat) (ct cct cct' : List Nat) (j j' r : Nat) (hr : r ≤ n)
    (hnew : ct.getD r 0 ≠ 0 ∧ ct.getD r 0 < r ∧ (r < j' ∨ cct'.getD r 0 = 0))
    (hold : ¬ (r < j ∨ cct.getD r 0 = 0))
    (hother : ∀ q, q ≠ r → ct.getD q 0 ≠ 0 → ct.getD q 0 < q →
      ((q < j' ∨ cct'.getD q 0 = 0) ↔ (q < j ∨ cct.getD q 0 = 0))) :
    cntSpec n ct cct' j' = cntSpec n ct cct j + 1 := by
  unfold cntSpec
  have h1 : ∀ q ∈ List.range (n+1),
      decide (ct.getD q 0 ≠ 0 ∧ ct.getD q 0 < q ∧ (q < j' ∨ cct'.getD q 0 = 0)) =
      (decide (ct.getD q 0 ≠ 0 ∧ ct.getD q 0 < q ∧ (q < j ∨ cct.getD q 0 = 0)) || decide (q = r)) := by
    intro q _
    rw [Bool.eq_iff_iff]
    simp only [decide_eq_true_eq, Bool.or_eq_true]
    by_cases hq : q = r
    · subst hq
      exact ⟨fun _ => Or.inr rfl, fun _ => hnew⟩
    · constructor
      · rintro ⟨a, b, c⟩; exact Or.inl ⟨a, b, (hother q hq a b).mp c⟩
      · rintro (⟨a, b, c⟩ | e)
        · exact ⟨a, b, (hother q hq a b).mpr c⟩
        · exact absurd e hq
  rw [filter_length_congr _ _ _ h1,
      filter_length_or (fun q => decide (ct.getD q 0 ≠ 0 ∧ ct.getD q 0 < q ∧ (q < j ∨ cct.getD q 0 = 0))) (fun q => decide (q = r)),
      filter_eq_range, if_pos (by omega)]
  intro x _ hpq
  have h2 : x = r := by simpa using hpq.2
  subst h2
  have h3 := hpq.1
  simp only [decide_eq_true_eq] at h3
  exact hold h3.2.2

theorem cntSpec_push (n : Nat) (ct cct : List Nat) (j : Nat)
    (h : ct.getD j 0 ≠ 0 → ct.getD j 0 < j → cct.getD j 0 = 0) : cntSpec n ct cct (j+1) = cntSpec n ct cct j := by
  unfold cntSpec
  apply filter_length_congr
  intro q _
  rw [Bool.eq_iff_iff]
  simp only [decide_eq_true_eq]
  constructor
  · rintro ⟨a, b, c⟩
    refine ⟨a, b, ?_⟩
    rcases c with c | c
    · by_cases hq : q = j
      · subst hq; exact Or.inr (h a b)
      · exact Or.inl (by omega)
    · exact Or.inr c
  · rintro ⟨a, b, c⟩
    exact ⟨a, b, c.imp (fun c => by omega) id⟩

theorem cntSpec_right (n : Nat) (ct cct : List Nat) (j : Nat) (hjn : j ≤ n) (h1 : ct.getD j 0 ≠ 0) (h2 : ct.getD j 0 < j)
    (h3 : cct.getD j 0 ≠ 0) : cntSpec n ct cct (j+1) = cntSpec n ct cct j + 1 := by
  apply cntSpec_add_one n ct cct cct j (j+1) j hjn ⟨h1, h2, Or.inl (by omega)⟩
  · rintro (h | h)
    · omega
    · exact h3 h
  · intro q hq _ _
    constructor
    · rintro (h | h)
      · exact Or.inl (by omega)
      · exact Or.inr h
    · rintro (h | h)
      · exact Or.inl (by omega)
      · exact Or.inr h

theorem cntSpec_zero (n : Nat) (ct : List Nat) (J : Nat) :
    ∀ (items : List Nat) (cct : List Nat), cct.length = n + 1 → items.Pairwise (· < ·) →
      (∀ a ∈ items, 1 ≤ a ∧ a < J ∧ J ≤ ct.getD a 0 ∧ ct.getD a 0 ≤ n ∧ ct.getD (ct.getD a 0) 0 = a ∧ cct.getD (ct.getD a 0) 0 ≠ 0) →
      cntSpec n ct (zeroPairs ct items cct) J = cntSpec n ct cct J + items.length
  | [], cct, _, _, _ => by simp [zeroPairs]
  | i :: rest, cct, hlen, hsorted, hitems => by
    have hi := hitems i (by simp)
    have hsrt := List.pairwise_cons.mp hsorted
    have hstep : cntSpec n ct ((cct.set i 0).set (ct.getD i 0) 0) J = cntSpec n ct cct J + 1 := by
      apply cntSpec_add_one n ct cct _ J J (ct.getD i 0) hi.2.2.2.1
      · refine ⟨by rw [hi.2.2.2.2.1]; omega, by rw [hi.2.2.2.2.1]; omega, Or.inr ?_⟩
        exact getD_set_self _ _ _ _ (by simp only [List.length_set]; omega)
      · rintro (h | h)
        · omega
        · exact hi.2.2.2.2.2 h
      · intro q hq hq1 hq2
        have hqi : q ≠ i := by
          intro e; subst e; omega
        rw [getD_set_ne _ _ _ _ _ (Ne.symm hq), getD_set_ne _ _ _ _ _ (Ne.symm hqi)]
    have ih := cntSpec_zero n ct J rest ((cct.set i 0).set (ct.getD i 0) 0) (by simp [hlen]) hsrt.2 (by
      intro a ha
      have hA := hitems a (by simp [ha])
      have hlt := hsrt.1 a ha
      refine ⟨hA.1, hA.2.1, hA.2.2.1, hA.2.2.2.1, hA.2.2.2.2.1, ?_⟩
      have hne : ct.getD a 0 ≠ ct.getD i 0 := by
        intro e
        have := hA.2.2.2.2.1
        rw [e, hi.2.2.2.2.1] at this
        omega
      rw [getD_set_ne _ _ _ _ _ (Ne.symm hne), getD_set_ne _ _ _ _ _ (by omega)]
      exact hA.2.2.2.2.2)
    simp only [zeroPairs, List.length_cons]
    rw [ih, hstep]; omega

theorem cntSpec_end (n : Nat) (ct cct : List Nat) : cntSpec n ct cct (n+1) = rightEnds ct (n+1) := by
  unfold cntSpec rightEnds
  apply filter_length_congr
  intro q hq
  have : q < n + 1 := by simpa using hq
  rw [Bool.eq_iff_iff]
  simp only [decide_eq_true_eq]
  exact ⟨fun ⟨a, b, _⟩ => ⟨a, b⟩, fun ⟨a, b⟩ => ⟨a, b, Or.inl this⟩⟩

/-! ## the main loop -/

theorem toArray_inj_nat {a b : List Nat} (h : a.toArray = b.toArray) : a = b := by
  have := congrArg Array.toList h
  simpa using this

/-- the main loop with the pair count: when it ends normally, `npairs_reached` is the number of right ends -/
theorem c2wMainC (simple : Bool) (n : Nat) (ct : List Nat) (hct : CtOk n ct) :
    ∀ (fuel j : Nat) (pda : List Int) (st st' : C2W) (cct : List Nat) (rb : List Int),
      n + 1 ≤ j + fuel → j ≤ n + 1 → 1 ≤ j → GInv n ct j pda st cct rb → (simple = true → ∀ a ∈ pda, 0 ≤ a) →
      st.reached = cntSpec n ct cct j →
      c2wMain simple ct.toArray n fuel j pda st = .ok st' → st'.reached = rightEnds ct (n+1) := by
  intro fuel
  induction fuel with
  | zero =>
    intro j pda st st' cct rb hf hju _ inv _ hcnt h
    simp only [c2wMain] at h
    injection h with h; subst h
    have : j = n + 1 := by omega
    subst this; rw [hcnt, cntSpec_end]
  | succ fuel ih =>
    intro j pda st st' cct rb hf hju hj1 inv hnm hcnt h
    unfold c2wMain at h
    by_cases hend : j > n
    · rw [if_pos hend] at h
      injection h with h; subst h
      have : j = n + 1 := by omega
      subst this; rw [hcnt, cntSpec_end]
    have hjn : j ≤ n := by omega
    rw [if_neg (by omega)] at h
    simp only [bind, Except.bind, pure, Except.pure] at h
    rw [inv.hcct, rdNat_toArray cct (j : Int) (by omega) (by simp; rw [inv.cok.len]; omega)] at h
    simp only [Int.toNat_natCast] at h
    have hpushcnt : (cct.getD j 0 = 0 ∨ j < cct.getD j 0) → cntSpec n ct cct (j+1) = cntSpec n ct cct j := by
      intro hcase
      apply cntSpec_push
      intro a b
      rcases hcase with h0 | hl
      · exact h0
      · exfalso
        rcases inv.cok.sub j with h1 | h1
        · omega
        · omega
    by_cases h0 : cct.getD j 0 = 0
    · simp only [h0, beq_self_eq_true, if_true] at h
      exact ih (j+1) _ st st' cct rb (by omega) (by omega) (by omega) (ginv_push hct inv hj1 (Or.inl h0)) (nomark_push j hnm)
        (by rw [hpushcnt (Or.inl h0)]; exact hcnt) h
    · have hb : (cct.getD j 0 == 0) = false := by rw [beq_eq_false_iff_ne]; exact h0
      simp only [hb, Bool.false_eq_true, if_false] at h
      by_cases hleft : j < cct.getD j 0
      · rw [if_pos hleft] at h
        exact ih (j+1) _ st st' cct rb (by omega) (by omega) (by omega) (ginv_push hct inv hj1 (Or.inr hleft)) (nomark_push j hnm)
          (by rw [hpushcnt (Or.inr hleft)]; exact hcnt) h
      · rw [if_neg hleft] at h
        obtain ⟨above, below, hsplit, _, hitems, hitsorted, hstep⟩ := ginv_right_end simple n ct hct inv hnm hj1 hjn h0 hleft
        have hsj := cct_sym hct inv.cok j h0
        split at h
        · cases h
        · rename_i res hres
          obtain ⟨hfound, hcct1, hpk1, ⟨hreach1, hsz1, hrb1, _⟩, hd, hpda1, _, hhds, hnext⟩ := hstep res hres
          obtain ⟨found, pda1, st1⟩ := res
          simp only at hfound hcct1 hpk1 hpda1 hnext h hreach1
          subst hfound hpda1
          simp only [Bool.not_true, Bool.false_eq_true, if_false] at h
          split at h
          · cases h
          · rename_i st2 hst2
            have hdis : ((pkOfAbove cct above).reverse = [] ∧ st2 = st1) ∨
                pkLoop ct.toArray j (pkOfAbove cct above).reverse ((cct.getD j 0 : Nat) : Int)
                  (((cct.getD j 0 : Nat) : Int) + 1) (-1) st1 = .ok st2 := by
              rw [hpk1] at hst2
              cases hit : (pkOfAbove cct above).reverse with
              | nil =>
                rw [hit] at hst2
                simp only at hst2
                injection hst2 with hst2
                exact Or.inl ⟨rfl, hst2.symm⟩
              | cons a tl =>
                rw [hit] at hst2
                simp only at hst2
                rw [hcct1, rdNat_toArray cct (j : Int) (by omega) (by simp; rw [inv.cok.len]; omega)] at hst2
                simp only [Int.toNat_natCast] at hst2
                exact Or.inr hst2
            obtain ⟨cct', rb', inv'⟩ := hnext st2 hdis
            have hs : st2.reached = st1.reached + ((pkOfAbove cct above).reverse).length ∧
                st2.cct = (zeroPairs ct (pkOfAbove cct above).reverse cct).toArray := by
              rcases hdis with ⟨hnil, rfl⟩ | hrun
              · rw [hnil]; exact ⟨rfl, hcct1⟩
              · exact pkLoop_struct ct j _ _ _ _ st1 st2 cct hcct1 hrun
            have hcct' : cct' = zeroPairs ct (pkOfAbove cct above).reverse cct :=
              toArray_inj_nat (inv'.hcct.symm.trans hs.2)
            have hcnt' : st2.reached = cntSpec n ct cct' (j+1) := by
              rw [hs.1, hreach1, hcnt, hcct', cntSpec_zero n ct (j+1) _ cct inv.cok.len hitsorted,
                  cntSpec_right n ct cct j hjn (by rw [← hsj.1]; exact h0) (by rw [← hsj.1]; omega) h0]
              intro a ha
              have hA := hitems a ha
              have hsa := cct_sym hct inv.cok a hA.2.2.1
              have hpa := hct.2 a (by rw [← hsa.1]; exact hA.2.2.1)
              refine ⟨by omega, by omega, by omega, hpa.2.2.2.1, hpa.2.2.2.2.1, ?_⟩
              rw [← hsa.1, hsa.2.1]; omega
            exact ih (j+1) (hd ++ below) st2 st' cct' rb' (by omega) (by omega) (by omega) inv' (nomark_next (hsplit ▸ hnm) hhds) hcnt' h

/-- the main loop on an arbitrary symmetric table can fail in ONE way only: "not enough letters" -/
theorem popLoop_noerrB (simple : Bool) (n : Nat) (ct cct : List Nat) (hlen : ct.length = n + 1) (hclen : cct.length = n + 1) (j i : Nat)
    (below above : List Int) (hj : 1 ≤ j ∧ j ≤ n) (hi : 1 ≤ i ∧ i < j) (hij : cct.getD i 0 = j) (st : C2W) (e : WErr)
    (habove : ∀ a ∈ above, (a < 0 ∧ -4 ≤ a) ∨ (0 ≤ a ∧ 1 ≤ a.toNat ∧ a.toNat ≤ n ∧ cct.getD a.toNat 0 ≠ j))
    (hnm : simple = true → ∀ a ∈ above, 0 ≤ a)
    (hcct : st.cct = cct.toArray) (hsz : st.ss.size = n) (haux : st.auxss = []) :
    popLoop simple ct.toArray j (above ++ (i : Int) :: below) 0 (-1) st ≠ .error e := by
  cases simple with
  | false =>
    exact popLoopG_noerr n ct cct hlen hclen j i below hj hi hij above 0 (-1) st e habove (by omega) (by omega) hcct hsz
      (by rw [haux]; simp)
  | true =>
    refine popLoopGS_noerr n ct cct hlen hclen j i below hj hi hij above 0 (-1) st e ?_ hcct hsz
    intro a ha
    have h0a := hnm rfl a ha
    rcases habove a ha with h1 | h1
    · omega
    · exact h1

theorem c2wMain_err (simple : Bool) (n : Nat) (ct : List Nat) (hct : CtOk n ct) :
    ∀ (fuel j : Nat) (pda : List Int) (st : C2W) (cct : List Nat) (rb : List Int) (e : WErr),
      j ≤ n + 1 → 1 ≤ j → GInv n ct j pda st cct rb → (simple = true → ∀ a ∈ pda, 0 ≤ a) →
      c2wMain simple ct.toArray n fuel j pda st = .error e → ∃ p, e = .einvalLetters p := by
  intro fuel
  induction fuel with
  | zero => intro j pda st cct rb e _ _ _ _ h; simp only [c2wMain] at h; cases h
  | succ fuel ih =>
    intro j pda st cct rb e hju hj1 inv hnm h
    unfold c2wMain at h
    by_cases hend : j > n
    · rw [if_pos hend] at h; cases h
    have hjn : j ≤ n := by omega
    rw [if_neg (by omega)] at h
    simp only [bind, Except.bind, pure, Except.pure] at h
    rw [inv.hcct, rdNat_toArray cct (j : Int) (by omega) (by simp; rw [inv.cok.len]; omega)] at h
    simp only [Int.toNat_natCast] at h
    by_cases h0 : cct.getD j 0 = 0
    · simp only [h0, beq_self_eq_true, if_true] at h
      exact ih (j+1) _ st cct rb e (by omega) (by omega) (ginv_push hct inv hj1 (Or.inl h0)) (nomark_push j hnm) h
    · have hb : (cct.getD j 0 == 0) = false := by rw [beq_eq_false_iff_ne]; exact h0
      simp only [hb, Bool.false_eq_true, if_false] at h
      by_cases hleft : j < cct.getD j 0
      · rw [if_pos hleft] at h
        exact ih (j+1) _ st cct rb e (by omega) (by omega) (ginv_push hct inv hj1 (Or.inr hleft)) (nomark_push j hnm) h
      · rw [if_neg hleft] at h
        obtain ⟨above, below, hsplit, habove, hitems, hitsorted, hstep⟩ := ginv_right_end simple n ct hct inv hnm hj1 hjn h0 hleft
        have hsj := cct_sym hct inv.cok j h0
        split at h
        · rename_i err herr
          exfalso
          rw [hsplit] at herr
          exact popLoop_noerrB simple n ct cct hct.1 inv.cok.len j (cct.getD j 0) below above ⟨hj1, hjn⟩ ⟨hsj.2.2.2.2.1, by omega⟩ hsj.2.1
            st err habove (fun hs a ha => hnm hs a (by rw [hsplit]; simp [ha])) inv.hcct inv.sssize inv.noaux herr
        · rename_i res hres
          obtain ⟨hfound, hcct1, hpk1, ⟨hreach1, hsz1, hrb1, _⟩, hd, hpda1, _, hhds, hnext⟩ := hstep res hres
          obtain ⟨found, pda1, st1⟩ := res
          simp only at hfound hcct1 hpk1 hpda1 hnext h hreach1 hsz1 hrb1
          subst hfound hpda1
          simp only [Bool.not_true, Bool.false_eq_true, if_false] at h
          have hrbsz : st1.rb.size = 26 := by rw [hrb1, inv.hrb]; simp [inv.linv.rblen]
          have hitems' : ∀ a ∈ (pkOfAbove cct above).reverse,
              1 ≤ a ∧ a < j ∧ cct.getD a 0 = ct.getD a 0 ∧ j < ct.getD a 0 ∧ ct.getD a 0 ≤ n := by
            intro a ha
            have hA := hitems a ha
            have hsa := cct_sym hct inv.cok a hA.2.2.1
            exact ⟨by omega, hA.2.1, hsa.1, hA.2.2.2, by rw [← hsa.1]; exact hsa.2.2.2.2.2.1⟩
          split at h
          · rename_i err herr
            injection h with h; subst h
            rw [hpk1] at herr
            cases hit : (pkOfAbove cct above).reverse with
            | nil => rw [hit] at herr; simp only at herr; cases herr
            | cons a tl =>
              rw [hit] at herr
              simp only at herr
              rw [hcct1, rdNat_toArray cct (j : Int) (by omega) (by simp; rw [inv.cok.len]; omega)] at herr
              simp only [Int.toNat_natCast] at herr
              rw [← hit] at herr
              exact pkLoop_err n ct hct.1 j hjn _ _ _ _ st1 cct err hcct1 inv.cok.len hsz1 hrbsz hitsorted hitems'
                (by omega) (by omega) (by omega) (Or.inl ⟨rfl, rfl⟩) herr
          · rename_i st2 hst2
            have hdis : ((pkOfAbove cct above).reverse = [] ∧ st2 = st1) ∨
                pkLoop ct.toArray j (pkOfAbove cct above).reverse ((cct.getD j 0 : Nat) : Int)
                  (((cct.getD j 0 : Nat) : Int) + 1) (-1) st1 = .ok st2 := by
              rw [hpk1] at hst2
              cases hit : (pkOfAbove cct above).reverse with
              | nil =>
                rw [hit] at hst2
                simp only at hst2
                injection hst2 with hst2
                exact Or.inl ⟨rfl, hst2.symm⟩
              | cons a tl =>
                rw [hit] at hst2
                simp only at hst2
                rw [hcct1, rdNat_toArray cct (j : Int) (by omega) (by simp; rw [inv.cok.len]; omega)] at hst2
                simp only [Int.toNat_natCast] at hst2
                exact Or.inr hst2
            obtain ⟨cct', rb', inv'⟩ := hnext st2 hdis
            exact ih (j+1) (hd ++ below) st2 cct' rb' e (by omega) (by omega) inv' (nomark_next (hsplit ▸ hnm) hhds) h

theorem cntSpec_init (n : Nat) (ct : List Nat) : cntSpec n ct ct 1 = 0 := by
  simp only [cntSpec, List.length_eq_zero_iff, List.filter_eq_nil_iff, decide_eq_true_eq]
  rintro q _ ⟨a, b, c | c⟩
  · omega
  · exact a c

/-- TOTALITY of `esl_ct2wuss` / `esl_ct2simplewuss` on every symmetric pair table (crossing pairs allowed): `eslOK`, or the
    documented `eslEINVAL` "Don't have enough letters to describe all different pseudoknots" — never an out-of-bounds
    access, never "Cannot find left partner", never `eslEINCONCEIVABLE`, never `eslFAIL` "found %d out of %d pairs" -/
theorem ct2wussGen_total (simple : Bool) (n : Nat) (ct : List Nat) (hct : CtOk n ct) :
    (∃ ss, ct2wussGen simple ct = .ok ss) ∨ (∃ p, ct2wussGen simple ct = .error (.einvalLetters p)) := by
  have hl1 : ct.length = n + 1 := hct.1
  have hn1 : ct.length - 1 = n := by omega
  unfold ct2wussGen
  simp only
  rw [hn1]
  cases hrun : c2wMain simple ct.toArray n (n + 1) 1 []
      { ss := Array.replicate n (if simple = true then (0x2e : UInt8) else 0x3a), cct := ct.toArray,
        rb := Array.replicate 26 (-1), auxpk := [], auxss := [], reached := 0 } with
  | error e =>
    obtain ⟨p, hp⟩ := c2wMain_err simple n ct hct (n+1) 1 [] _ ct _ e (by omega) (Nat.le_refl _) (ginv_init simple n ct hct)
      (fun _ a ha => by simp at ha) hrun
    right; exact ⟨p, by rw [hp]⟩
  | ok st =>
    have hr := c2wMainC simple n ct hct (n+1) 1 [] _ st ct _ (by omega) (by omega) (Nat.le_refl _) (ginv_init simple n ct hct)
      (fun _ a ha => by simp at ha) (by simp [cntSpec_init]) hrun
    have : countPairs ct = st.reached := by rw [hr, countPairs_eq_rightEnds n ct hct]
    left
    simp only [this, bne_self_eq_false, Bool.false_eq_true, if_false]
    exact ⟨_, rfl⟩

theorem ct2wuss_total' (n : Nat) (ct : List Nat) (hct : CtOk n ct) :
    (∃ ss, ct2wuss ct = .ok ss) ∨ (∃ p, ct2wuss ct = .error (.einvalLetters p)) :=
  ct2wussGen_total false n ct hct

end EaselModel.Msa
