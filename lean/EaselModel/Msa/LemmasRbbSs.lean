import EaselModel.Msa.LemmasRbb
/-! Lemma: a successful `esl_msa_RemoveBrokenBasepairs` replaced SS_cons by the output of
    `esl_msa_RemoveBrokenBasepairsFromSS` on it. -/
namespace EaselModel.Msa

theorem removeBrokenBasepairs_sscons' (m : Msa) (mask : List Bool) (ss : Bytes) (hss : m.ss_cons = some ss)
    (hok : (removeBrokenBasepairs m mask).st = .ok) :
    ∃ ss', removeBrokenFromSS ss mask = .ok ss' ∧ (removeBrokenBasepairs m mask).msa.ss_cons = some ss' := by
  cases hr : removeBrokenFromSS ss mask with
  | error e =>
    have : (removeBrokenBasepairs m mask).st = St.ofWErr e := by
      simp [removeBrokenBasepairs, hss, hr, Except.map]
    rw [this] at hok
    cases e <;> simp [St.ofWErr] at hok
  | ok ss' =>
    refine ⟨ss', rfl, ?_⟩
    simp only [removeBrokenBasepairs, hss, hr, Except.map]
    cases hq : rbbSeqs mask m.ss with
    | mk l e => cases e <;> rfl

/-- the per-sequence loop, when it reports no error, rewrote every present SS line by
    `esl_msa_RemoveBrokenBasepairsFromSS` and left the absent ones absent -/
theorem rbbSeqs_getElem (mask : List Bool) : ∀ (l l' : List (Option Bytes)), rbbSeqs mask l = (l', none) →
    ∀ i : Nat, (∀ s, l[i]? = some (some s) → ∃ s', removeBrokenFromSS s mask = .ok s' ∧ l'[i]? = some (some s')) ∧
         (l[i]? = some none → l'[i]? = some none)
  | [], l', h, i => by simp
  | none :: rest, l', h, i => by
    simp only [rbbSeqs] at h
    cases hr : rbbSeqs mask rest with
    | mk r e =>
      rw [hr] at h
      injection h with h1 h2
      subst h1; subst h2
      have ih := rbbSeqs_getElem mask rest r hr
      cases i with
      | zero => simp
      | succ i => simpa using ih i
  | some s0 :: rest, l', h, i => by
    simp only [rbbSeqs] at h
    split at h
    · injection h with _ h2; cases h2
    · rename_i s1 hs1
      cases hr : rbbSeqs mask rest with
      | mk r e =>
        rw [hr] at h
        injection h with h1 h2
        subst h1; subst h2
        have ih := rbbSeqs_getElem mask rest r hr
        cases i with
        | zero =>
          refine ⟨fun s hs => ?_, fun hn => ?_⟩
          · simp only [List.getElem?_cons_zero, Option.some.injEq] at hs
            subst hs
            exact ⟨s1, hs1, by simp⟩
          · simp at hn
        | succ i => simpa using ih i

theorem removeBrokenBasepairs_ss' (m : Msa) (mask : List Bool) (hok : (removeBrokenBasepairs m mask).st = .ok) :
    ∃ l', rbbSeqs mask m.ss = (l', none) ∧ (removeBrokenBasepairs m mask).msa.ss = l' := by
  unfold removeBrokenBasepairs at hok ⊢
  split at hok
  · rename_i e he
    simp only at hok
    cases e <;> simp [St.ofWErr] at hok
  · rename_i sc hsc
    cases hr : rbbSeqs mask m.ss with
    | mk l e =>
      rw [hr] at hok
      cases e with
      | none => exact ⟨l, rfl, rfl⟩
      | some e =>
        simp only at hok
        cases e <;> simp [St.ofWErr] at hok

end EaselModel.Msa
