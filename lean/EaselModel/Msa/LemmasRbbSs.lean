import EaselModel.Msa.LemmasRbb
/-! Lemma: a successful `esl_msa_RemoveBrokenBasepairs` replaced SS_cons by the output of
    `esl_msa_RemoveBrokenBasepairsFromSS` on it. -/
namespace EaselModel.Msa

theorem removeBrokenBasepairs_sscons' (m : Msa) (mask : List Bool) (ss : Bytes) (hss : m.ss_cons = some ss)
    (hok : (removeBrokenBasepairs m mask).st = .ok) :
    ∃ ss', removeBrokenFromSS ss mask = .ok ss' ∧ (removeBrokenBasepairs m mask).msa.ss_cons = some ss' := by
  cases hr : removeBrokenFromSS ss mask with
  | error e =>
    have : (removeBrokenBasepairs m mask).st = St.ofWErr e := by
      simp [removeBrokenBasepairs, hss, hr, Except.map]
    rw [this] at hok
    cases e <;> simp [St.ofWErr] at hok
  | ok ss' =>
    refine ⟨ss', rfl, ?_⟩
    simp only [removeBrokenBasepairs, hss, hr, Except.map]
    cases hq : rbbSeqs mask m.ss with
    | mk l e => cases e <;> rfl

end EaselModel.Msa
