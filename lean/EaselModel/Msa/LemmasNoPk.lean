import EaselModel.Msa.LemmasNested
/-! Lemmas: the pair table `esl_wuss2ct` reads from a string WITHOUT pseudoknot letters is nested. -/
namespace EaselModel.Msa

/-- extra invariant of the reading loop on a letter-free string -/
structure NoPkInv (pos : Nat) (pda : List (List Nat)) (ct : List Nat) : Prop where
  /-- no waiting opening bracket lies strictly inside an already closed pair -/
  n3 : ∀ p ∈ pda.getD 0 [], ∀ a, ct.getD a 0 ≠ 0 → a < p → p < ct.getD a 0 → False
  nested : Nested ct

theorem nopk_push {ss : Bytes} {pos : Nat} {pda : List (List Nat)} {ct : List Nat} (h : W2CInv ss pos pda ct)
    (e : NoPkInv pos pda ct) : NoPkInv (pos+1) (pushAt pda 0 pos) ct where
  n3 := by
    intro p hp a ha h1 h2
    rw [pushAt, getD_set_self _ _ _ _ (by rw [h.pdalen]; omega)] at hp
    simp only [List.mem_cons] at hp
    rcases hp with rfl | hp
    · have := (h.sym a ha).2.2.2.1; omega
    · exact e.n3 p hp a ha h1 h2
  nested := e.nested

theorem nopk_pop {ss : Bytes} {pos : Nat} {pda : List (List Nat)} {ct : List Nat} (h : W2CInv ss pos pda ct)
    (e : NoPkInv pos pda ct) (hle : pos ≤ ss.length) (pair : Nat) (tl : List Nat) (hs : pda.getD 0 [] = pair :: tl) :
    NoPkInv (pos+1) (pda.set 0 tl) ((ct.set pos pair).set pair pos) := by
  have hpair := h.stk 0 pair (by rw [hs]; simp)
  have hdec := h.dec 0
  rw [hs, List.pairwise_cons] at hdec
  have hposlen : pos < ct.length := by rw [h.ctlen]; omega
  have hpairlen : pair < (ct.set pos pair).length := by rw [List.length_set, h.ctlen]; omega
  have hne : pos ≠ pair := by omega
  have rd_pair : ((ct.set pos pair).set pair pos).getD pair 0 = pos := getD_set_self _ _ _ _ hpairlen
  have rd_pos : ((ct.set pos pair).set pair pos).getD pos 0 = pair := by
    rw [getD_set_ne _ _ _ _ _ (Ne.symm hne), getD_set_self _ _ _ _ hposlen]
  have rd_other : ∀ q, q ≠ pos → q ≠ pair → ((ct.set pos pair).set pair pos).getD q 0 = ct.getD q 0 := by
    intro q h1 h2
    rw [getD_set_ne _ _ _ _ _ (Ne.symm h2), getD_set_ne _ _ _ _ _ (Ne.symm h1)]
  have hposz : ct.getD pos 0 = 0 := ct_pos_zero h pos (Nat.le_refl _)
  constructor
  · intro p hp a ha h1 h2
    rw [getD_set_self _ _ _ _ (by rw [h.pdalen]; omega)] at hp
    have hplt := hdec.1 p hp
    have hpold : p ∈ pda.getD 0 [] := by rw [hs]; exact List.mem_cons_of_mem _ hp
    have hpp := h.stk 0 p hpold
    by_cases ha1 : a = pair
    · subst ha1; omega
    · by_cases ha2 : a = pos
      · subst ha2; omega
      · rw [rd_other a ha2 ha1] at ha h2
        exact e.n3 p hpold a ha h1 h2
  · intro i i' hi hi' hlt hlt2
    by_cases hi1 : i = pos
    · subst hi1; rw [rd_pos] at hlt2; omega
    · by_cases hi2 : i = pair
      · subst hi2
        rw [rd_pair] at hlt2 ⊢
        have hne1 : i' ≠ pos := by omega
        have hne2 : i' ≠ i := by omega
        rw [rd_other i' hne1 hne2] at hi' ⊢
        exact (h.sym i' hi').2.2.2.1
      · rw [rd_other i hi1 hi2] at hi hlt2 ⊢
        have hsi := h.sym i hi
        by_cases hj1 : i' = pair
        · subst hj1
          exact absurd (e.n3 i' (by rw [hs]; simp) i hi hlt hlt2) id
        · by_cases hj2 : i' = pos
          · subst hj2; omega
          · rw [rd_other i' hj2 hj1] at hi' ⊢
            exact e.nested i i' hi hi' hlt hlt2

theorem w2cLoop_nopk (ss : Bytes) (hnl : ∀ c ∈ ss, isAlpha c = false) :
    ∀ (rest : Bytes) (pos : Nat) (pda : List (List Nat)) (ct : List Nat),
    ss.drop (pos-1) = rest → 1 ≤ pos → W2CInv ss pos pda ct → NoPkInv pos pda ct →
    ∀ pda' ct', w2cLoop ss rest pos pda ct = some (pda', ct') → Nested ct' := by
  intro rest
  induction rest with
  | nil =>
    intro pos pda ct _ _ _ e pda' ct' hrun
    simp only [w2cLoop, Option.some.injEq, Prod.mk.injEq] at hrun
    obtain ⟨_, rfl⟩ := hrun
    exact e.nested
  | cons c rest ih =>
    intro pos pda ct hd hpos hinv e pda' ct' hrun
    obtain ⟨hc, hlt, hdrop⟩ := drop_cons_getD ss (pos-1) c rest hd
    have hd' : ss.drop (pos + 1 - 1) = rest := by
      have : pos + 1 - 1 = pos - 1 + 1 := by omega
      rw [this]; exact hdrop
    have hle : pos ≤ ss.length := by omega
    have hcmem : c ∈ ss := by
      rw [← hc, List.getD_eq_getElem?_getD, List.getElem?_eq_getElem hlt]; exact List.getElem_mem hlt
    have hna := hnl c hcmem
    have hup : isUpper c = false := by
      simp only [isAlpha, Bool.or_eq_false_iff] at hna; exact hna.1
    have hlow : isLower c = false := by
      simp only [isAlpha, Bool.or_eq_false_iff] at hna; exact hna.2
    unfold w2cLoop at hrun
    split at hrun
    · cases hrun
    · split at hrun
      · rename_i hob
        have hcl : openerClass (ss.getD (pos-1) 0) = some 0 := by rw [hc]; simp [openerClass, hob]
        exact ih (pos+1) _ ct hd' (by omega) (inv_push hinv 0 (by omega) hpos hcl) (nopk_push hinv e) pda' ct' hrun
      · split at hrun
        · split at hrun
          · cases hrun
          · rename_i pair tl hs
            split at hrun
            · cases hrun
            · rename_i hmatch
              have hm : closerOf (ss.getD (pair-1) 0) = c := by simpa using hmatch
              have hpair := hinv.stk 0 pair (by rw [hs]; simp)
              have hopen : isOpenBr (ss.getD (pair-1) 0) = true := by
                have := hpair.2.2.2
                simp only [openerClass] at this
                split at this
                · assumption
                · split at this
                  · rename_i hu
                    have hb := (pkIndex_upper_bounds _ hu).1
                    injection this with this; omega
                  · cases this
              have hok : pairOk ss pair pos := ⟨hpair.2.1, Or.inl ⟨hopen, by rw [hc, hm]⟩⟩
              exact ih (pos+1) _ _ hd' (by omega) (inv_pop hinv 0 (by omega) hle pair tl hs hok)
                (nopk_pop hinv e hle pair tl hs) pda' ct' hrun
        · rw [hup] at hrun
          simp only [Bool.false_eq_true, if_false, hlow] at hrun
          split at hrun
          · exact ih (pos+1) pda ct hd' (by omega) (inv_skip hinv) ⟨e.n3, e.nested⟩ pda' ct' hrun
          · cases hrun

/-- a balanced WUSS string without pseudoknot letters has a nested pair table -/
theorem wuss2ct_nopk_nested' (ss : Bytes) (hnl : ∀ c ∈ ss, isAlpha c = false) (ct : List Nat) (h : wuss2ct ss = some ct) :
    Nested ct := by
  unfold wuss2ct at h
  split at h
  · cases h
  · rename_i pda ct' hrun
    split at h
    · injection h with h; subst h
      have hrep : (List.replicate 27 ([] : List Nat)).getD 0 [] = [] := by simp
      have hz : ∀ a, (List.replicate (ss.length + 1) 0).getD a 0 = 0 := by
        intro a
        simp only [List.getD_eq_getElem?_getD, List.getElem?_replicate]
        split <;> rfl
      refine w2cLoop_nopk ss hnl ss 1 _ _ (by simp) (Nat.le_refl _) (inv_init ss) ⟨?_, ?_⟩ pda ct' hrun
      · intro p hp; rw [hrep] at hp; simp at hp
      · intro i i' hi; exact absurd (hz i) hi
    · cases h

end EaselModel.Msa

namespace EaselModel.Msa

theorem map_nopseudo_id : ∀ (ss : Bytes), (∀ c ∈ ss, isAlpha c = false) → wussNopseudo ss = ss
  | [], _ => rfl
  | c :: ss, h => by
    have hc := h c (by simp)
    have ih := map_nopseudo_id ss (fun x hx => h x (by simp [hx]))
    simp only [wussNopseudo, List.map_cons, nopseudoChar, hc, Bool.false_eq_true, if_false] at ih ⊢
    rw [ih]

theorem zipWith_overlay_id : ∀ (ss full : Bytes), (∀ c ∈ ss, isAlpha c = false) → ss.length = full.length →
    List.zipWith (fun o t => if isAlpha o then o else t) ss full = full
  | [], [], _, _ => rfl
  | [], _ :: _, _, h => by simp at h
  | _ :: _, [], _, h => by simp at h
  | c :: ss, t :: full, h, hl => by
    have hc := h c (by simp)
    have ih := zipWith_overlay_id ss full (fun x hx => h x (by simp [hx])) (by simpa using hl)
    simp [List.zipWith, hc, ih]

end EaselModel.Msa
