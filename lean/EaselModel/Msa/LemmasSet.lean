import EaselModel.Msa.Model3
import EaselModel.Msa.LemmasCmp
/-! Lemmas: `esl_msa_Set*` / `esl_msa_Format*` replace exactly one field. -/
namespace EaselModel.Msa

/-- everything the Set/Format family must not touch -/
structure SameButStrings (a b : Msa) : Prop where
  nseq : a.nseq = b.nseq
  alen : a.alen = b.alen
  flags : a.flags = b.flags
  abc : a.abc = b.abc
  rows : a.rows = b.rows
  wgt : a.wgt = b.wgt
  ss_cons : a.ss_cons = b.ss_cons
  sa_cons : a.sa_cons = b.sa_cons
  pp_cons : a.pp_cons = b.pp_cons
  rf : a.rf = b.rf
  mm : a.mm = b.mm
  ss : a.ss = b.ss
  sa : a.sa = b.sa
  pp : a.pp = b.pp
  cutoff : a.cutoff = b.cutoff
  cutset : a.cutset = b.cutset
  comment : a.comment = b.comment
  gf : a.gf = b.gf
  gs : a.gs = b.gs
  gc : a.gc = b.gc
  gr : a.gr = b.gr

theorem SameButStrings.refl (m : Msa) : SameButStrings m m := by constructor <;> rfl

theorem setStr_same (m : Msa) (f : StrField) (idx : Int) (s : Option Bytes) (n : Int) :
    SameButStrings (setStr m f idx s n).msa m := by
  cases f <;> simp only [setStr]
  all_goals (repeat' split)
  all_goals (constructor <;> rfl)

theorem formatStr_same (m : Msa) (f : StrField) (idx : Int) (out : Option Bytes) :
    SameButStrings (formatStr m f idx out).msa m := by
  cases f <;> simp only [formatStr]
  all_goals (repeat' split)
  all_goals (constructor <;> rfl)

theorem setStr_ok_or_unchanged (m : Msa) (f : StrField) (idx : Int) (s : Option Bytes) (n : Int) :
    (setStr m f idx s n).st = .ok ∨ (setStr m f idx s n).msa = m := by
  cases f <;> simp only [setStr]
  all_goals (repeat' split)
  all_goals simp

theorem formatStr_ok_or_unchanged (m : Msa) (f : StrField) (idx : Int) (out : Option Bytes) :
    (formatStr m f idx out).st = .ok ∨ (formatStr m f idx out).msa = m := by
  cases f <;> simp only [formatStr]
  all_goals (repeat' split)
  all_goals simp

theorem setStr_fail_unchanged (m : Msa) (f : StrField) (idx : Int) (s : Option Bytes) (n : Int)
    (h : (setStr m f idx s n).st ≠ .ok) : (setStr m f idx s n).msa = m :=
  (setStr_ok_or_unchanged m f idx s n).resolve_left h

theorem formatStr_fail_unchanged (m : Msa) (f : StrField) (idx : Int) (out : Option Bytes)
    (h : (formatStr m f idx out).st ≠ .ok) : (formatStr m f idx out).msa = m :=
  (formatStr_ok_or_unchanged m f idx out).resolve_left h

/-- the other sequences keep their name, accession and description -/
theorem setStr_others (m : Msa) (f : StrField) (idx : Int) (s : Option Bytes) (n : Int) (j : Nat) (hj : (j : Int) ≠ idx) :
    (setStr m f idx s n).msa.sqname[j]? = m.sqname[j]? ∧ (setStr m f idx s n).msa.sqacc[j]? = m.sqacc[j]? ∧
    (setStr m f idx s n).msa.sqdesc[j]? = m.sqdesc[j]? := by
  cases f <;> simp only [setStr]
  all_goals (repeat' split)
  all_goals (refine ⟨?_, ?_, ?_⟩ <;> first | rfl | (simp only []; first | done | (apply List.getElem?_set_ne; all_goals omega)))

theorem formatStr_others (m : Msa) (f : StrField) (idx : Int) (out : Option Bytes) (j : Nat) (hj : (j : Int) ≠ idx) :
    (formatStr m f idx out).msa.sqname[j]? = m.sqname[j]? ∧ (formatStr m f idx out).msa.sqacc[j]? = m.sqacc[j]? ∧
    (formatStr m f idx out).msa.sqdesc[j]? = m.sqdesc[j]? := by
  cases f <;> simp only [formatStr]
  all_goals (repeat' split)
  all_goals (refine ⟨?_, ?_, ?_⟩ <;> first | rfl | (simp only []; first | done | (apply List.getElem?_set_ne; all_goals omega)))

/-- the string the field holds afterwards -/
def strFieldGet (m : Msa) (f : StrField) (idx : Nat) : Option Bytes :=
  match f with
  | .name => m.name | .desc => m.desc | .acc => m.acc | .au => m.au
  | .sqname => m.sqname[idx]?
  | .sqacc => (m.sqacc[idx]?).join
  | .sqdesc => (m.sqdesc[idx]?).join

theorem setStr_sets (m : Msa) (hs : m.Shape) (f : StrField) (idx : Int) (s : Option Bytes) (n : Int) :
    (setStr m f idx s n).st = .ok → strFieldGet (setStr m f idx s n).msa f idx.toNat = dupMem s n := by
  have h1 := hs.sqname_len; have h2 := hs.sqacc_len; have h3 := hs.sqdesc_len
  cases f <;> simp only [setStr]
  all_goals (repeat' split)
  all_goals intro h
  all_goals (first | rfl | (cases h; done) | skip)
  all_goals (simp only [strFieldGet]; rw [List.getElem?_set_self (by omega)]; simp [dupMem, *])

theorem setStr_shape (m : Msa) (hs : m.Shape) (f : StrField) (idx : Int) (s : Option Bytes) (n : Int) :
    (setStr m f idx s n).msa.Shape := by
  obtain ⟨a1, a2, a3, a4, a5, a6, a7, a8, a9, a10⟩ := hs
  cases f <;> simp only [setStr]
  all_goals (repeat' split)
  all_goals (constructor <;> simp [*])

theorem formatStr_shape (m : Msa) (hs : m.Shape) (f : StrField) (idx : Int) (out : Option Bytes) :
    (formatStr m f idx out).msa.Shape := by
  obtain ⟨a1, a2, a3, a4, a5, a6, a7, a8, a9, a10⟩ := hs
  cases f <;> simp only [formatStr]
  all_goals (repeat' split)
  all_goals (constructor <;> simp [*])

/-- `Format… = Set… ∘ vsprintf` wherever the call succeeds -/
theorem formatStr_eq_setStr (m : Msa) (f : StrField) (idx : Int) (out : Option Bytes) :
    (formatStr m f idx out).st = .ok → formatStr m f idx out = setStr m f idx out (-1) := by
  have e : dupMem out (-1) = out := by cases out <;> simp [dupMem]
  cases f <;> simp only [formatStr, setStr, e]
  all_goals (repeat' split)
  all_goals intro h
  all_goals (first | rfl | (cases h; done) | skip)
  all_goals simp_all

end EaselModel.Msa

namespace EaselModel.Msa

/-- well-formedness does not look at the seven strings the Set/Format family writes (only at the widths of the three
    per-sequence arrays) -/
theorem WF_of_sameButStrings (a b : Msa) (h : SameButStrings a b) (h1 : a.sqname.length = b.sqname.length)
    (h2 : a.sqacc.length = b.sqacc.length) (h3 : a.sqdesc.length = b.sqdesc.length) (wf : b.WF) : a.WF := by
  obtain ⟨e1, e2, e3, e4, e5, e6, e7, e8, e9, e10, e11, e12, e13, e14, e15, e16, e17, e18, e19, e20, e21⟩ := h
  have hterm : a.rowTerm = b.rowTerm := by simp [Msa.rowTerm, Msa.isDigital, e3]
  constructor
  · rw [e1]; exact wf.nseq_pos
  · rw [e3]; exact wf.flags_lt
  · rw [e5, e1]; exact wf.rows_len
  · rw [e5, e2, hterm]; exact wf.rows_ok
  · rw [h1, e1]; exact wf.sqname_len
  · rw [e6, e1]; exact wf.wgt_len
  · rw [h2, e1]; exact wf.sqacc_len
  · rw [h3, e1]; exact wf.sqdesc_len
  · rw [e12, e1]; exact wf.ss_len
  · rw [e13, e1]; exact wf.sa_len
  · rw [e14, e1]; exact wf.pp_len
  · rw [e12, e2]; exact wf.ss_ok
  · rw [e13, e2]; exact wf.sa_ok
  · rw [e14, e2]; exact wf.pp_ok
  · rw [e7, e2]; exact wf.ss_cons_ok
  · rw [e8, e2]; exact wf.sa_cons_ok
  · rw [e9, e2]; exact wf.pp_cons_ok
  · rw [e10, e2]; exact wf.rf_ok
  · rw [e11, e2]; exact wf.mm_ok
  · rw [e20, e2]; exact wf.gc_ok
  · rw [e21, e1]; exact wf.gr_len
  · rw [e21, e2]; exact wf.gr_ok
  · rw [e19, e1]; exact wf.gs_len

theorem setStr_lens (m : Msa) (f : StrField) (idx : Int) (s : Option Bytes) (n : Int) :
    (setStr m f idx s n).msa.sqname.length = m.sqname.length ∧ (setStr m f idx s n).msa.sqacc.length = m.sqacc.length ∧
    (setStr m f idx s n).msa.sqdesc.length = m.sqdesc.length := by
  cases f <;> simp only [setStr]
  all_goals (repeat' split)
  all_goals simp

theorem formatStr_lens (m : Msa) (f : StrField) (idx : Int) (out : Option Bytes) :
    (formatStr m f idx out).msa.sqname.length = m.sqname.length ∧ (formatStr m f idx out).msa.sqacc.length = m.sqacc.length ∧
    (formatStr m f idx out).msa.sqdesc.length = m.sqdesc.length := by
  cases f <;> simp only [formatStr]
  all_goals (repeat' split)
  all_goals simp

theorem setStr_wf (m : Msa) (wf : m.WF) (f : StrField) (idx : Int) (s : Option Bytes) (n : Int) : (setStr m f idx s n).msa.WF :=
  WF_of_sameButStrings _ m (setStr_same m f idx s n) (setStr_lens m f idx s n).1 (setStr_lens m f idx s n).2.1
    (setStr_lens m f idx s n).2.2 wf

theorem formatStr_wf (m : Msa) (wf : m.WF) (f : StrField) (idx : Int) (out : Option Bytes) : (formatStr m f idx out).msa.WF :=
  WF_of_sameButStrings _ m (formatStr_same m f idx out) (formatStr_lens m f idx out).1 (formatStr_lens m f idx out).2.1
    (formatStr_lens m f idx out).2.2 wf

end EaselModel.Msa
