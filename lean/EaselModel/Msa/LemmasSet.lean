import EaselModel.Msa.Model3
import EaselModel.Msa.LemmasCmp
/-! Lemmas: `esl_msa_Set*` / `esl_msa_Format*` replace exactly one field. -/
namespace EaselModel.Msa

/-- everything the Set/Format family must not touch -/
structure SameButStrings (a b : Msa) : Prop where
  nseq : a.nseq = b.nseq
  alen : a.alen = b.alen
  flags : a.flags = b.flags
  abc : a.abc = b.abc
  rows : a.rows = b.rows
  wgt : a.wgt = b.wgt
  ss_cons : a.ss_cons = b.ss_cons
  sa_cons : a.sa_cons = b.sa_cons
  pp_cons : a.pp_cons = b.pp_cons
  rf : a.rf = b.rf
  mm : a.mm = b.mm
  ss : a.ss = b.ss
  sa : a.sa = b.sa
  pp : a.pp = b.pp
  cutoff : a.cutoff = b.cutoff
  cutset : a.cutset = b.cutset
  comment : a.comment = b.comment
  gf : a.gf = b.gf
  gs : a.gs = b.gs
  gc : a.gc = b.gc
  gr : a.gr = b.gr

theorem SameButStrings.refl (m : Msa) : SameButStrings m m := by constructor <;> rfl

theorem setStr_same (m : Msa) (f : StrField) (idx : Int) (s : Option Bytes) (n : Int) :
    SameButStrings (setStr m f idx s n).msa m := by
  cases f <;> simp only [setStr]
  all_goals (repeat' split)
  all_goals (constructor <;> rfl)

theorem formatStr_same (m : Msa) (f : StrField) (idx : Int) (out : Option Bytes) :
    SameButStrings (formatStr m f idx out).msa m := by
  cases f <;> simp only [formatStr]
  all_goals (repeat' split)
  all_goals (constructor <;> rfl)

theorem setStr_ok_or_unchanged (m : Msa) (f : StrField) (idx : Int) (s : Option Bytes) (n : Int) :
    (setStr m f idx s n).st = .ok ∨ (setStr m f idx s n).msa = m := by
  cases f <;> simp only [setStr]
  all_goals (repeat' split)
  all_goals simp

theorem formatStr_ok_or_unchanged (m : Msa) (f : StrField) (idx : Int) (out : Option Bytes) :
    (formatStr m f idx out).st = .ok ∨ (formatStr m f idx out).msa = m := by
  cases f <;> simp only [formatStr]
  all_goals (repeat' split)
  all_goals simp

theorem setStr_fail_unchanged (m : Msa) (f : StrField) (idx : Int) (s : Option Bytes) (n : Int)
    (h : (setStr m f idx s n).st ≠ .ok) : (setStr m f idx s n).msa = m :=
  (setStr_ok_or_unchanged m f idx s n).resolve_left h

theorem formatStr_fail_unchanged (m : Msa) (f : StrField) (idx : Int) (out : Option Bytes)
    (h : (formatStr m f idx out).st ≠ .ok) : (formatStr m f idx out).msa = m :=
  (formatStr_ok_or_unchanged m f idx out).resolve_left h

/-- the other sequences keep their name, accession and description -/
theorem setStr_others (m : Msa) (f : StrField) (idx : Int) (s : Option Bytes) (n : Int) (j : Nat) (hj : (j : Int) ≠ idx) :
    (setStr m f idx s n).msa.sqname[j]? = m.sqname[j]? ∧ (setStr m f idx s n).msa.sqacc[j]? = m.sqacc[j]? ∧
    (setStr m f idx s n).msa.sqdesc[j]? = m.sqdesc[j]? := by
  cases f <;> simp only [setStr]
  all_goals (repeat' split)
  all_goals (refine ⟨?_, ?_, ?_⟩ <;> first | rfl | (simp only []; first | done | (apply List.getElem?_set_ne; all_goals omega)))

theorem formatStr_others (m : Msa) (f : StrField) (idx : Int) (out : Option Bytes) (j : Nat) (hj : (j : Int) ≠ idx) :
    (formatStr m f idx out).msa.sqname[j]? = m.sqname[j]? ∧ (formatStr m f idx out).msa.sqacc[j]? = m.sqacc[j]? ∧
    (formatStr m f idx out).msa.sqdesc[j]? = m.sqdesc[j]? := by
  cases f <;> simp only [formatStr]
  all_goals (repeat' split)
  all_goals (refine ⟨?_, ?_, ?_⟩ <;> first | rfl | (simp only []; first | done | (apply List.getElem?_set_ne; all_goals omega)))

/-- the string the field holds afterwards -/
def strFieldGet (m : Msa) (f : StrField) (idx : Nat) : Option Bytes :=
  match f with
  | .name => m.name | .desc => m.desc | .acc => m.acc | .au => m.au
  | .sqname => m.sqname[idx]?
  | .sqacc => (m.sqacc[idx]?).join
  | .sqdesc => (m.sqdesc[idx]?).join

theorem setStr_sets (m : Msa) (hs : m.Shape) (f : StrField) (idx : Int) (s : Option Bytes) (n : Int) :
    (setStr m f idx s n).st = .ok → strFieldGet (setStr m f idx s n).msa f idx.toNat = dupMem s n := by
  have h1 := hs.sqname_len; have h2 := hs.sqacc_len; have h3 := hs.sqdesc_len
  cases f <;> simp only [setStr]
  all_goals (repeat' split)
  all_goals intro h
  all_goals (first | rfl | (cases h; done) | skip)
  all_goals (simp only [strFieldGet]; rw [List.getElem?_set_self (by omega)]; simp [dupMem, *])

theorem setStr_shape (m : Msa) (hs : m.Shape) (f : StrField) (idx : Int) (s : Option Bytes) (n : Int) :
    (setStr m f idx s n).msa.Shape := by
  obtain ⟨a1, a2, a3, a4, a5, a6, a7, a8, a9, a10⟩ := hs
  cases f <;> simp only [setStr]
  all_goals (repeat' split)
  all_goals (constructor <;> simp [*])

theorem formatStr_shape (m : Msa) (hs : m.Shape) (f : StrField) (idx : Int) (out : Option Bytes) :
    (formatStr m f idx out).msa.Shape := by
  obtain ⟨a1, a2, a3, a4, a5, a6, a7, a8, a9, a10⟩ := hs
  cases f <;> simp only [formatStr]
  all_goals (repeat' split)
  all_goals (constructor <;> simp [*])

/-- `Format… = Set… ∘ vsprintf` wherever the call succeeds -/
theorem formatStr_eq_setStr (m : Msa) (f : StrField) (idx : Int) (out : Option Bytes) :
    (formatStr m f idx out).st = .ok → formatStr m f idx out = setStr m f idx out (-1) := by
  have e : dupMem out (-1) = out := by cases out <;> simp [dupMem]
  cases f <;> simp only [formatStr, setStr, e]
  all_goals (repeat' split)
  all_goals intro h
  all_goals (first | rfl | (cases h; done) | skip)
  all_goals simp_all

end EaselModel.Msa
