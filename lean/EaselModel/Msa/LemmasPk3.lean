import EaselModel.Msa.LemmasPk2
import EaselModel.Msa.LemmasPkS
/-! Lemmas: the main loop of `esl_ct2wuss` on an ARBITRARY symmetric pair table; its output is a class-nested labelling,
    hence (LemmasClass) `esl_wuss2ct` reads the table back: the pseudoknotted round trip. -/
namespace EaselModel.Msa

theorem letter_facts : ∀ x, x < 26 →
    isUpper (UInt8.ofNat (65 + x)) = true ∧ toLower (UInt8.ofNat (65 + x)) = UInt8.ofNat (97 + x) ∧
    openerClass (UInt8.ofNat (65 + x)) = some (x + 1) := by decide +kernel

theorem open_class0 (c : UInt8) (h : isOpenBr c = true) : openerClass c = some 0 := by
  unfold openerClass; rw [if_pos h]

/-- invariant of the main loop on an arbitrary table; `cct` / `rb` are the working table and the letter bounds as lists -/
structure GInv (n : Nat) (ct : List Nat) (j : Nat) (pda : List Int) (st : C2W) (cct : List Nat) (rb : List Int) : Prop where
  hcct : st.cct = cct.toArray
  hrb : st.rb = rb.toArray
  cok : CctOk n ct cct
  nopk : st.auxpk = []
  noaux : st.auxss = []
  sssize : st.ss.size = n
  ent : ∀ a ∈ pda, (a < 0 ∧ -4 ≤ a) ∨ (0 ≤ a ∧ 1 ≤ a.toNat ∧ a.toNat < j)
  sorted : (pda.filter (fun a => decide (0 ≤ a))).Pairwise (· > ·)
  lefts : ∀ p, 1 ≤ p → p < j → cct.getD p 0 ≠ 0 → j ≤ cct.getD p 0 → (p : Int) ∈ pda
  paired : ∀ a ∈ pda, 0 ≤ a → cct.getD a.toNat 0 ≠ 0 → j ≤ cct.getD a.toNat 0
  l1 : ∀ q, q < n → ct.getD (q+1) 0 = 0 → isUnpairedSym (ssAt st.ss q) = true
  l2 : ∀ j0, 1 ≤ j0 → j0 < j → cct.getD j0 0 ≠ 0 → cct.getD j0 0 < j0 →
        isOpenBr (ssAt st.ss (cct.getD j0 0 - 1)) = true ∧
        ssAt st.ss (j0-1) = closerOf (ssAt st.ss (cct.getD j0 0 - 1))
  bn : ∀ j0 i', 1 ≤ j0 → j0 < j → cct.getD j0 0 ≠ 0 → cct.getD j0 0 < j0 → cct.getD j0 0 < i' → i' < j0 →
        cct.getD i' 0 ≠ 0 → i' < cct.getD i' 0 → cct.getD i' 0 < j0
  linv : LInv ct cct st.ss rb

/-- the working table is symmetric where it is non-zero -/
theorem cct_sym {n : Nat} {ct cct : List Nat} (hct : CtOk n ct) (cok : CctOk n ct cct) (p : Nat)
    (h : cct.getD p 0 ≠ 0) :
    cct.getD p 0 = ct.getD p 0 ∧ cct.getD (cct.getD p 0) 0 = p ∧ 1 ≤ p ∧ p ≤ n ∧ 1 ≤ cct.getD p 0 ∧ cct.getD p 0 ≤ n ∧
    cct.getD p 0 ≠ p := by
  have he : cct.getD p 0 = ct.getD p 0 := by
    rcases cok.sub p with h1 | h1
    · exact h1
    · exact absurd h1 h
  have hp := hct.2 p (by rw [← he]; exact h)
  have hq : cct.getD (ct.getD p 0) 0 ≠ 0 := fun e => h ((cok.both p (by rw [← he]; exact h)).mpr e)
  have hq2 : cct.getD (ct.getD p 0) 0 = ct.getD (ct.getD p 0) 0 := by
    rcases cok.sub (ct.getD p 0) with h1 | h1
    · exact h1
    · exact absurd h1 hq
  rw [he]
  exact ⟨rfl, by rw [hq2]; exact hp.2.2.2.2.1, hp.1, hp.2.1, hp.2.2.1, hp.2.2.2.1, hp.2.2.2.2.2⟩

theorem ginv_push {n : Nat} {ct : List Nat} (hct : CtOk n ct) {j : Nat} {pda : List Int} {st : C2W} {cct : List Nat}
    {rb : List Int} (inv : GInv n ct j pda st cct rb) (hj : 1 ≤ j)
    (hcase : cct.getD j 0 = 0 ∨ j < cct.getD j 0) : GInv n ct (j+1) ((j : Int) :: pda) st cct rb where
  hcct := inv.hcct
  hrb := inv.hrb
  cok := inv.cok
  nopk := inv.nopk
  noaux := inv.noaux
  sssize := inv.sssize
  ent := by
    intro a ha
    simp only [List.mem_cons] at ha
    rcases ha with rfl | ha
    · right; exact ⟨by omega, by omega, by omega⟩
    · rcases inv.ent a ha with h | h
      · exact Or.inl h
      · exact Or.inr ⟨h.1, h.2.1, by omega⟩
  sorted := by
    have : ((j : Int) :: pda).filter (fun a => decide (0 ≤ a)) = (j : Int) :: pda.filter (fun a => decide (0 ≤ a)) := by
      simp [List.filter_cons]
    rw [this, List.pairwise_cons]
    refine ⟨fun b hb => ?_, inv.sorted⟩
    simp only [List.mem_filter, decide_eq_true_eq] at hb
    rcases inv.ent b hb.1 with h | h <;> omega
  lefts := by
    intro p h1 h2 h3 h4
    by_cases hp : p = j
    · subst hp; simp
    · exact List.mem_cons_of_mem _ (inv.lefts p h1 (by omega) h3 (by omega))
  paired := by
    intro a ha h0 hne
    simp only [List.mem_cons] at ha
    rcases ha with rfl | ha
    · simp only [Int.toNat_natCast] at hne ⊢
      rcases hcase with h | h
      · exact absurd h hne
      · omega
    · have hold := inv.paired a ha h0 hne
      have hx : cct.getD a.toNat 0 ≠ j := by
        intro e
        have hs := cct_sym hct inv.cok a.toNat hne
        rw [e] at hs
        rcases inv.ent a ha with h | h
        · omega
        · rcases hcase with hc | hc
          · rw [hc] at hs; omega
          · omega
      omega
  l1 := inv.l1
  l2 := by
    intro j0 h1 h2 h3 h4
    by_cases hp : j0 = j
    · subst hp
      rcases hcase with h | h
      · exact absurd h h3
      · omega
    · exact inv.l2 j0 h1 (by omega) h3 h4
  bn := by
    intro j0 i' h1 h2 h3 h4 h5 h6 h7 h8
    by_cases hp : j0 = j
    · subst hp
      rcases hcase with h | h
      · exact absurd h h3
      · omega
    · exact inv.bn j0 i' h1 (by omega) h3 h4 h5 h6 h7 h8
  linv := inv.linv

/-! ### the pseudoknot items popped at a right end -/

theorem mem_pkOfAbove (cct : List Nat) : ∀ (above : List Int) (p : Nat),
    p ∈ pkOfAbove cct above ↔ ((p : Int) ∈ above ∧ cct.getD p 0 ≠ 0)
  | [], p => by simp [pkOfAbove]
  | a :: rest, p => by
    have ih := mem_pkOfAbove cct rest p
    simp only [pkOfAbove]
    by_cases hc : 0 ≤ a ∧ cct.getD a.toNat 0 ≠ 0
    · rw [if_pos hc, List.mem_cons, ih, List.mem_cons]
      constructor
      · rintro (h | h)
        · subst h
          have : ((a.toNat : Nat) : Int) = a := by omega
          exact ⟨Or.inl this, hc.2⟩
        · exact ⟨Or.inr h.1, h.2⟩
      · rintro ⟨h | h, h2⟩
        · left; rw [← h]; simp
        · exact Or.inr ⟨h, h2⟩
    · rw [if_neg hc, ih, List.mem_cons]
      constructor
      · rintro ⟨h, h2⟩; exact ⟨Or.inr h, h2⟩
      · rintro ⟨h | h, h2⟩
        · exfalso; apply hc
          rw [← h]; exact ⟨by omega, by simpa using h2⟩
        · exact ⟨h, h2⟩

theorem pkOfAbove_sorted (cct : List Nat) : ∀ (above : List Int),
    (above.filter (fun a => decide (0 ≤ a))).Pairwise (· > ·) → (pkOfAbove cct above).Pairwise (· > ·)
  | [], _ => by simp [pkOfAbove]
  | a :: rest, h => by
    simp only [List.filter_cons] at h
    simp only [pkOfAbove]
    by_cases h0 : 0 ≤ a
    · simp only [h0, decide_true, if_true] at h
      rw [List.pairwise_cons] at h
      have ih := pkOfAbove_sorted cct rest h.2
      by_cases hc : cct.getD a.toNat 0 ≠ 0
      · rw [if_pos ⟨h0, hc⟩, List.pairwise_cons]
        refine ⟨fun b hb => ?_, ih⟩
        have hb' := (mem_pkOfAbove cct rest b).mp hb
        have := h.1 (b : Int) (by simp [List.mem_filter, hb'.1])
        omega
      · rw [if_neg (fun hh => hc hh.2)]; exact ih
    · have hd : decide (0 ≤ a) = false := by simp [h0]
      simp only [hd, Bool.false_eq_true, if_false] at h
      rw [if_neg (fun hh => h0 hh.1)]
      exact pkOfAbove_sorted cct rest h

/-- a right end `j` of an arbitrary table: the partner is on the stack, the pop loop finds it and moves the crossing
    left ends to `auxpk`; after the lettering batch the invariant holds for `j+1` -/
theorem ginv_right_end (simple : Bool) (n : Nat) (ct : List Nat) (hct : CtOk n ct) {j : Nat} {pda : List Int} {st : C2W} {cct : List Nat}
    {rb : List Int} (inv : GInv n ct j pda st cct rb) (hnm : simple = true → ∀ a ∈ pda, 0 ≤ a)
    (hj1 : 1 ≤ j) (hjn : j ≤ n) (h0 : cct.getD j 0 ≠ 0)
    (hleft : ¬ j < cct.getD j 0) :
    ∃ above below, pda = above ++ ((cct.getD j 0 : Nat) : Int) :: below ∧
      (∀ a ∈ above, (a < 0 ∧ -4 ≤ a) ∨ (0 ≤ a ∧ 1 ≤ a.toNat ∧ a.toNat ≤ n ∧ cct.getD a.toNat 0 ≠ j)) ∧
      (∀ a ∈ (pkOfAbove cct above).reverse, cct.getD j 0 < a ∧ a < j ∧ cct.getD a 0 ≠ 0 ∧ j < ct.getD a 0) ∧
      ((pkOfAbove cct above).reverse).Pairwise (· < ·) ∧
      ∀ res, popLoop simple ct.toArray j pda 0 (-1) st = .ok res →
        res.1 = true ∧ res.2.2.cct = cct.toArray ∧ res.2.2.auxpk = (pkOfAbove cct above).reverse ∧
        (res.2.2.reached = st.reached + 1 ∧ res.2.2.ss.size = n ∧ res.2.2.rb = st.rb ∧
          ∀ p, 1 ≤ p → p < ct.getD p 0 → cct.getD p 0 = 0 → ssAt res.2.2.ss (p-1) = ssAt st.ss (p-1)) ∧
        ∃ hd, res.2.1 = hd ++ below ∧ (∀ a ∈ hd, a < 0 ∧ -4 ≤ a) ∧ (simple = true → hd = []) ∧
          ∀ st2, ((pkOfAbove cct above).reverse = [] ∧ st2 = res.2.2) ∨
                 pkLoop ct.toArray j (pkOfAbove cct above).reverse ((cct.getD j 0 : Nat) : Int)
                   (((cct.getD j 0 : Nat) : Int) + 1) (-1) res.2.2 = .ok st2 →
            ∃ cct' rb', GInv n ct (j+1) (hd ++ below) st2 cct' rb' := by
  have hsj := cct_sym hct inv.cok j h0
  have hi : 1 ≤ cct.getD j 0 ∧ cct.getD j 0 < j := ⟨hsj.2.2.2.2.1, by omega⟩
  have hij : cct.getD (cct.getD j 0) 0 = j := hsj.2.1
  have hi0ne : cct.getD (cct.getD j 0) 0 ≠ 0 := by rw [hij]; omega
  have himem := inv.lefts (cct.getD j 0) hi.1 hi.2 hi0ne (by rw [hij]; exact Nat.le_refl _)
  obtain ⟨above, below, hsplit⟩ := List.append_of_mem himem
  have hsorted := inv.sorted
  rw [hsplit, filter_nonneg_append, List.pairwise_append] at hsorted
  have habove_pos : ∀ a ∈ above, 0 ≤ a → (cct.getD j 0 : Int) < a ∧ a.toNat < j := by
    intro a ha h0a
    have hmem : a ∈ pda := by rw [hsplit]; simp [ha]
    have hgt : a > (cct.getD j 0 : Int) := hsorted.2.2 a (by simp [List.mem_filter, ha, h0a]) _ (by simp)
    rcases inv.ent a hmem with h1 | h1
    · omega
    · exact ⟨hgt, h1.2.2⟩
  have habove : ∀ a ∈ above, (a < 0 ∧ -4 ≤ a) ∨ (0 ≤ a ∧ 1 ≤ a.toNat ∧ a.toNat ≤ n ∧ cct.getD a.toNat 0 ≠ j) := by
    intro a ha
    have hmem : a ∈ pda := by rw [hsplit]; simp [ha]
    rcases inv.ent a hmem with h1 | h1
    · exact Or.inl h1
    · right
      refine ⟨h1.1, h1.2.1, by omega, ?_⟩
      intro e
      have hs := cct_sym hct inv.cok a.toNat (by rw [e]; omega)
      rw [e] at hs
      have := habove_pos a ha h1.1
      omega
  have hbelow_lt : ∀ b ∈ below, 0 ≤ b → b < (cct.getD j 0 : Int) := by
    intro b hb h0b
    exact (List.pairwise_cons.mp hsorted.2.1).1 b (by simp [List.mem_filter, hb, h0b])
  -- the items of the batch
  have hitems : ∀ a ∈ (pkOfAbove cct above).reverse,
      cct.getD j 0 < a ∧ a < j ∧ cct.getD a 0 ≠ 0 ∧ j < ct.getD a 0 := by
    intro a ha
    rw [List.mem_reverse, mem_pkOfAbove] at ha
    have hp := habove_pos (a : Int) ha.1 (by omega)
    have hmem : (a : Int) ∈ pda := by rw [hsplit]; simp [ha.1]
    have hge := inv.paired (a : Int) hmem (by omega) (by simpa using ha.2)
    simp only [Int.toNat_natCast] at hge hp
    have hs := cct_sym hct inv.cok a ha.2
    have hne : cct.getD a 0 ≠ j := by
      intro e; rw [e] at hs; omega
    refine ⟨by omega, hp.2, ha.2, ?_⟩
    rw [← hs.1]; omega
  have hitsorted : ((pkOfAbove cct above).reverse).Pairwise (· < ·) := by
    rw [List.pairwise_reverse]
    exact pkOfAbove_sorted cct above hsorted.1
  refine ⟨above, below, hsplit, habove, hitems, hitsorted, ?_⟩
  intro res hres
  rw [hsplit] at hres
  obtain ⟨found, pda1, st1⟩ := res
  have hcti : ct.getD (cct.getD j 0) 0 ≠ 0 := by
    have := cct_sym hct inv.cok (cct.getD j 0) hi0ne
    rw [← this.1]; exact hi0ne
  have hctj : ct.getD j 0 ≠ 0 := by rw [← hsj.1]; exact h0
  have sp : found = true ∧ (∃ hd, pda1 = hd ++ below ∧ (∀ a ∈ hd, a < 0 ∧ -4 ≤ a) ∧ (simple = true → hd = [])) ∧
      st1.cct = cct.toArray ∧ st1.auxpk = (pkOfAbove cct above).reverse ++ st.auxpk ∧ st1.auxss = [] ∧
      st1.ss.size = n ∧ st1.rb = st.rb ∧
      (isOpenBr (ssAt st1.ss (cct.getD j 0 - 1)) = true ∧ ssAt st1.ss (j-1) = closerOf (ssAt st1.ss (cct.getD j 0 - 1))) ∧
      (∀ q, q ≠ cct.getD j 0 - 1 → q ≠ j - 1 → (ct.getD (q+1) 0 ≠ 0 ∨ n ≤ q) → ssAt st1.ss q = ssAt st.ss q) ∧
      (∀ q, q < n → ct.getD (q+1) 0 = 0 → isUnpairedSym (ssAt st.ss q) = true → isUnpairedSym (ssAt st1.ss q) = true) ∧
      st1.reached = st.reached + 1 := by
    cases simple with
    | false =>
      have sp := popLoopG n ct cct hct.1 inv.cok.len j (cct.getD j 0) below ⟨hj1, hjn⟩ hi hij hcti hctj above 0 (-1) st _
        habove (by omega) (by omega) inv.hcct inv.sssize (by rw [inv.noaux]; simp) hres
      simp only at sp
      obtain ⟨hfound, ⟨mf', hpda1, hmf1, hmf2⟩, r⟩ := sp
      refine ⟨hfound, ⟨[mf'], by rw [hpda1]; rfl, ?_, fun h => by cases h⟩, r⟩
      intro a ha
      simp only [List.mem_singleton] at ha
      subst ha; exact ⟨by omega, hmf1⟩
    | true =>
      have habove' : ∀ a ∈ above, 0 ≤ a ∧ 1 ≤ a.toNat ∧ a.toNat ≤ n ∧ cct.getD a.toNat 0 ≠ j := by
        intro a ha
        have h0a := hnm rfl a (by rw [hsplit]; simp [ha])
        rcases habove a ha with h1 | h1
        · omega
        · exact h1
      have sp := popLoopGS n ct cct hct.1 inv.cok.len j (cct.getD j 0) below ⟨hj1, hjn⟩ hi hij hcti hctj above 0 (-1) st _
        habove' inv.hcct inv.sssize hres
      simp only at sp
      obtain ⟨hfound, hpda1, hc, hp, ha, r⟩ := sp
      exact ⟨hfound, ⟨[], by rw [hpda1]; rfl, fun a ha => by simp at ha, fun _ => rfl⟩, hc, hp, by rw [ha, inv.noaux], r⟩
  obtain ⟨hfound, ⟨hd, hpda1, hhd, hhds⟩, hcct1, hpk1, haux1, hsz1, hrb1, hbr, hsame, hunp, hreach1⟩ := sp
  rw [inv.nopk, List.append_nil] at hpk1
  -- the letter invariant survives the bracket / unpaired-symbol writes of the pop loop
  have hpkcells : ∀ p, 1 ≤ p → p < ct.getD p 0 → cct.getD p 0 = 0 →
      ssAt st1.ss (p-1) = ssAt st.ss (p-1) ∧ ssAt st1.ss (ct.getD p 0 - 1) = ssAt st.ss (ct.getD p 0 - 1) := by
    intro p hp1 hp2 hp3
    have hpp := hct.2 p (by omega)
    have h1 : p ≠ cct.getD j 0 := by intro e; rw [e] at hp3; exact hi0ne hp3
    have h2 : p ≠ j := by intro e; rw [e] at hp3; exact h0 hp3
    have h3 : ct.getD p 0 ≠ cct.getD j 0 := by
      intro e
      have := hpp.2.2.2.2.1
      rw [e, ← (cct_sym hct inv.cok _ hi0ne).1, hij] at this
      exact h2 this.symm
    have h4 : ct.getD p 0 ≠ j := by
      intro e
      have := hpp.2.2.2.2.1
      rw [e, ← hsj.1] at this
      exact h1 this.symm
    constructor
    · apply hsame <;> first | omega | (left; have : p - 1 + 1 = p := by omega
                                       rw [this]; omega)
    · apply hsame <;> first | omega | (left; have : ct.getD p 0 - 1 + 1 = ct.getD p 0 := by omega
                                       rw [this, hpp.2.2.2.2.1]; omega)
  refine ⟨hfound, hcct1, hpk1, ⟨hreach1, hsz1, hrb1, fun p a b c => (hpkcells p a b c).1⟩, hd, hpda1, hhd, hhds, ?_⟩
  intro st2 hst2
  have linv1 : LInv ct cct st1.ss rb := {
    rblen := inv.linv.rblen
    lab := by
      intro p hp1 hp2 hp3
      obtain ⟨x, hx, c1, c2, c3⟩ := inv.linv.lab p hp1 hp2 hp3
      have hc := hpkcells p hp1 hp2 hp3
      exact ⟨x, hx, by rw [hc.1]; exact c1, by rw [hc.2]; exact c2, c3⟩
    non := by
      intro p p' hp1 hp2 hp3 hp2' hp3' hlt hlt2 hsm
      have hc := hpkcells p hp1 hp2 hp3
      have hc' := hpkcells p' (by omega) hp2' hp3'
      rw [hc.1, hc'.1] at hsm
      exact inv.linv.non p p' hp1 hp2 hp3 hp2' hp3' hlt hlt2 hsm }
  -- the batch
  have hpost : PkPost n ct cct (pkOfAbove cct above).reverse st1 st2 := by
    rcases hst2 with ⟨hnil, rfl⟩ | hrun
    · rw [hnil]
      exact ⟨cct, rb, hcct1, by rw [hrb1]; exact inv.hrb, inv.cok, hsz1, linv1, by rw [hpk1, hnil], rfl,
             fun p => by simp, fun q _ _ => rfl⟩
    · exact pkLoopG n ct hct j (cct.getD j 0) ⟨hi.1, hi.2, hjn⟩ _ _ _ _ st1 st2 cct rb hcct1 (by rw [hrb1]; exact inv.hrb)
        inv.cok hsz1 linv1 hitsorted hitems rfl (Or.inl ⟨rfl, rfl⟩) (by omega) (by omega) (by omega) hrun
  obtain ⟨cct', rb', g1, g2, g3, g4, g5, g6, g7, g8, g9⟩ := hpost
  -- reading the new working table
  have hnew : ∀ p, cct'.getD p 0 ≠ 0 → cct'.getD p 0 = cct.getD p 0 ∧ p ∉ (pkOfAbove cct above).reverse := by
    intro p hp
    rw [g8 p] at hp ⊢
    split at hp
    · exact absurd rfl hp
    · rename_i hc
      rw [if_neg hc]
      exact ⟨rfl, fun hm => hc (Or.inl hm)⟩
  have hkeep : ∀ p, p ∉ (pkOfAbove cct above).reverse → (∀ a ∈ (pkOfAbove cct above).reverse, p ≠ ct.getD a 0) →
      cct'.getD p 0 = cct.getD p 0 := by
    intro p h1 h2
    rw [g8 p, if_neg]
    rintro (h | ⟨a, ha, h⟩)
    · exact h1 h
    · exact h2 a ha h
  have hj' : cct'.getD j 0 = cct.getD j 0 :=
    hkeep j (fun hm => by have := hitems j hm; omega) (fun a ha e => by have := hitems a ha; omega)
  have hi0' : cct'.getD (cct.getD j 0) 0 = j := by
    rw [hkeep (cct.getD j 0) (fun hm => by have := hitems _ hm; omega) (fun a ha e => by have := hitems a ha; omega)]
    exact hij
  -- cells written by the batch
  have hss2 : ∀ q, (q + 1 ∉ (pkOfAbove cct above).reverse) → (∀ a ∈ (pkOfAbove cct above).reverse, q + 1 ≠ ct.getD a 0) →
      ssAt st2.ss q = ssAt st1.ss q := g9
  refine ⟨cct', rb', ?_⟩
  exact {
    hcct := g1, hrb := g2, cok := g3, nopk := g6, noaux := by rw [g7]; exact haux1, sssize := g4
    ent := by
      intro a ha
      rcases List.mem_append.mp ha with ha | ha
      · exact Or.inl (hhd a ha)
      · rcases inv.ent a (by rw [hsplit]; simp [ha]) with h1 | h1
        · exact Or.inl h1
        · exact Or.inr ⟨h1.1, h1.2.1, by omega⟩
    sorted := by
      have : (hd ++ below).filter (fun a => decide (0 ≤ a)) = below.filter (fun a => decide (0 ≤ a)) := by
        rw [List.filter_append]
        have : hd.filter (fun a => decide (0 ≤ a)) = [] := by
          rw [List.filter_eq_nil_iff]
          intro a ha
          have := hhd a ha
          simp only [decide_eq_true_eq]; omega
        rw [this, List.nil_append]
      rw [this]
      exact (List.pairwise_cons.mp hsorted.2.1).2
    lefts := by
      intro p h1 h2 h3 h4
      have hn := hnew p h3
      rw [hn.1] at h3 h4
      have hpj : p ≠ j := by intro e; rw [e] at h4; omega
      have hm := inv.lefts p h1 (by omega) h3 (by omega)
      rw [hsplit, List.mem_append, List.mem_cons] at hm
      rcases hm with hm | hm | hm
      · exfalso
        exact hn.2 (by rw [List.mem_reverse, mem_pkOfAbove]; exact ⟨hm, h3⟩)
      · exfalso
        have : p = cct.getD j 0 := by omega
        rw [this, hij] at h4; omega
      · exact List.mem_append_right _ hm
    paired := by
      intro a ha h0a hne
      rcases List.mem_append.mp ha with ha | ha
      · have := hhd a ha; omega
      · have hn := hnew a.toNat hne
        rw [hn.1] at hne ⊢
        have hold := inv.paired a (by rw [hsplit]; simp [ha]) h0a hne
        have hx : cct.getD a.toNat 0 ≠ j := by
          intro e
          have hs := cct_sym hct inv.cok a.toNat hne
          rw [e] at hs
          have hlt := hbelow_lt a ha h0a
          omega
        omega
    l1 := by
      intro q hq h0q
      have hu1 := hunp q hq h0q (inv.l1 q hq h0q)
      rw [hss2 q]
      · exact hu1
      · intro hm; have := (hitems _ hm).2.2.1
        have hs := cct_sym hct inv.cok _ this
        rw [hs.1] at this; exact this h0q
      · intro a ha e
        have h3 := (hitems a ha)
        have hs := cct_sym hct inv.cok a h3.2.2.1
        have hpp := hct.2 a (by rw [← hs.1]; exact h3.2.2.1)
        rw [e, hpp.2.2.2.2.1] at h0q
        omega
    l2 := by
      intro j0 h1 h2 h3 h4
      have hn := hnew j0 h3
      rw [hn.1] at h3 h4 ⊢
      have hs0 := cct_sym hct inv.cok j0 h3
      -- neither end of a bracket pair is touched by the batch
      have hno1 : ∀ q, (q + 1 = j0 ∨ q + 1 = cct.getD j0 0) → ssAt st2.ss q = ssAt st1.ss q := by
        intro q hq
        apply hss2
        · intro hm
          have hi' := hitems _ hm
          rcases hq with hq | hq
          · rw [hq] at hi'
            have := cct_sym hct inv.cok j0 h3
            rw [this.1] at h4; omega
          · -- the left end of a found pair is not an item: its working entry is non-zero after the batch
            have hz : cct'.getD (q+1) 0 = 0 := by
              rw [g8]; exact if_pos (Or.inl hm)
            rw [hq] at hz
            have hb := (g3.both j0 (by rw [← hs0.1]; exact h3))
            rw [← hs0.1] at hb
            have hj0' : cct'.getD j0 0 ≠ 0 := by rw [hn.1]; exact h3
            exact hj0' (hb.mpr hz)
        · intro a ha e
          have hi' := hitems a ha
          rcases hq with hq | hq
          · rw [hq] at e; omega
          · rw [hq] at e
            have hsa := cct_sym hct inv.cok a hi'.2.2.1
            have : cct.getD (ct.getD a 0) 0 = a := by rw [← hsa.1]; exact hsa.2.1
            rw [← e, hs0.2.1] at this
            rw [this] at h4
            rw [← e] at hi'
            omega
      by_cases hp : j0 = j
      · subst hp
        rw [hno1 (cct.getD j0 0 - 1) (Or.inr (by omega)), hno1 (j0 - 1) (Or.inl (by omega))]
        exact hbr
      · have hold := inv.l2 j0 h1 (by omega) h3 h4
        have e1 : ssAt st1.ss (cct.getD j0 0 - 1) = ssAt st.ss (cct.getD j0 0 - 1) := by
          apply hsame
          · intro e
            have : cct.getD j0 0 = cct.getD j 0 := by omega
            rw [this, hij] at hs0; omega
          · omega
          · left
            have : cct.getD j0 0 - 1 + 1 = cct.getD j0 0 := by omega
            rw [this]
            have := cct_sym hct inv.cok (cct.getD j0 0) (by rw [hs0.2.1]; omega)
            rw [← this.1, hs0.2.1]; omega
        have e2 : ssAt st1.ss (j0 - 1) = ssAt st.ss (j0 - 1) := by
          apply hsame
          · intro e
            have : j0 = cct.getD j 0 := by omega
            rw [this, hij] at h4; omega
          · omega
          · left
            have : j0 - 1 + 1 = j0 := by omega
            rw [this, ← hs0.1]; exact h3
        rw [hno1 (cct.getD j0 0 - 1) (Or.inr (by omega)), hno1 (j0 - 1) (Or.inl (by omega)), e1, e2]
        exact hold
    bn := by
      intro j0 i' h1 h2 h3 h4 h5 h6 h7 h8
      have hn := hnew j0 h3
      have hn' := hnew i' h7
      rw [hn.1] at h3 h4 h5
      rw [hn'.1] at h7 h8 ⊢
      by_cases hp : j0 = j
      · subst hp
        rcases Nat.lt_or_ge (cct.getD i' 0) j0 with hlt | hge
        · exact hlt
        · exfalso
          have hm := inv.lefts i' (by omega) h6 h7 hge
          rw [hsplit, List.mem_append, List.mem_cons] at hm
          rcases hm with hm | hm | hm
          · exact hn'.2 (by rw [List.mem_reverse, mem_pkOfAbove]; exact ⟨hm, h7⟩)
          · omega
          · have := hbelow_lt _ hm (by omega); omega
      · exact inv.bn j0 i' h1 (by omega) h3 h4 h5 h6 h7 h8
    linv := g5 }

/-- the main loop keeps the invariant to the end, whatever the table -/
theorem nomark_push {simple : Bool} {pda : List Int} (j : Nat) (h : simple = true → ∀ a ∈ pda, 0 ≤ a) :
    simple = true → ∀ a ∈ (j : Int) :: pda, 0 ≤ a := by
  intro hs a ha
  simp only [List.mem_cons] at ha
  rcases ha with rfl | ha
  · omega
  · exact h hs a ha

theorem nomark_next {simple : Bool} {above below hd : List Int} {x : Int} (h : simple = true → ∀ a ∈ above ++ x :: below, 0 ≤ a)
    (hhd : simple = true → hd = []) : simple = true → ∀ a ∈ hd ++ below, 0 ≤ a := by
  intro hs a ha
  rw [hhd hs, List.nil_append] at ha
  exact h hs a (by simp [ha])

theorem c2wMainG (simple : Bool) (n : Nat) (ct : List Nat) (hct : CtOk n ct) :
    ∀ (fuel j : Nat) (pda : List Int) (st st' : C2W) (cct : List Nat) (rb : List Int),
      n + 1 ≤ j + fuel → j ≤ n + 1 → 1 ≤ j → GInv n ct j pda st cct rb → (simple = true → ∀ a ∈ pda, 0 ≤ a) →
      c2wMain simple ct.toArray n fuel j pda st = .ok st' → ∃ pda' cct' rb', GInv n ct (n+1) pda' st' cct' rb' := by
  intro fuel
  induction fuel with
  | zero =>
    intro j pda st st' cct rb hf hju _ inv _ h
    simp only [c2wMain] at h
    injection h with h; subst h
    have : j = n + 1 := by omega
    subst this; exact ⟨pda, cct, rb, inv⟩
  | succ fuel ih =>
    intro j pda st st' cct rb hf hju hj1 inv hnm h
    unfold c2wMain at h
    by_cases hend : j > n
    · rw [if_pos hend] at h
      injection h with h; subst h
      have : j = n + 1 := by omega
      subst this; exact ⟨pda, cct, rb, inv⟩
    have hjn : j ≤ n := by omega
    rw [if_neg (by omega)] at h
    simp only [bind, Except.bind, pure, Except.pure] at h
    rw [inv.hcct, rdNat_toArray cct (j : Int) (by omega) (by simp; rw [inv.cok.len]; omega)] at h
    simp only [Int.toNat_natCast] at h
    by_cases h0 : cct.getD j 0 = 0
    · simp only [h0, beq_self_eq_true, if_true] at h
      exact ih (j+1) _ st st' cct rb (by omega) (by omega) (by omega) (ginv_push hct inv hj1 (Or.inl h0)) (nomark_push j hnm) h
    · have hb : (cct.getD j 0 == 0) = false := by rw [beq_eq_false_iff_ne]; exact h0
      simp only [hb, Bool.false_eq_true, if_false] at h
      by_cases hleft : j < cct.getD j 0
      · rw [if_pos hleft] at h
        exact ih (j+1) _ st st' cct rb (by omega) (by omega) (by omega) (ginv_push hct inv hj1 (Or.inr hleft)) (nomark_push j hnm) h
      · rw [if_neg hleft] at h
        obtain ⟨above, below, hsplit, _, _, _, hstep⟩ := ginv_right_end simple n ct hct inv hnm hj1 hjn h0 hleft
        split at h
        · cases h
        · rename_i res hres
          obtain ⟨hfound, hcct1, hpk1, _, hd, hpda1, _, hhds, hnext⟩ := hstep res hres
          obtain ⟨found, pda1, st1⟩ := res
          simp only at hfound hcct1 hpk1 hpda1 hnext h
          subst hfound hpda1
          simp only [Bool.not_true, Bool.false_eq_true, if_false] at h
          split at h
          · cases h
          · rename_i st2 hst2
            have hdis : ((pkOfAbove cct above).reverse = [] ∧ st2 = st1) ∨
                pkLoop ct.toArray j (pkOfAbove cct above).reverse ((cct.getD j 0 : Nat) : Int)
                  (((cct.getD j 0 : Nat) : Int) + 1) (-1) st1 = .ok st2 := by
              rw [hpk1] at hst2
              cases hit : (pkOfAbove cct above).reverse with
              | nil =>
                rw [hit] at hst2
                simp only at hst2
                injection hst2 with hst2
                exact Or.inl ⟨rfl, hst2.symm⟩
              | cons a tl =>
                rw [hit] at hst2
                simp only at hst2
                rw [hcct1, rdNat_toArray cct (j : Int) (by omega) (by simp; rw [inv.cok.len]; omega)] at hst2
                simp only [Int.toNat_natCast] at hst2
                exact Or.inr hst2
            obtain ⟨cct', rb', inv'⟩ := hnext st2 hdis
            exact ih (j+1) (hd ++ below) st2 st' cct' rb' (by omega) (by omega) (by omega) inv' (nomark_next (hsplit ▸ hnm) hhds) h

/-- `esl_ct2wuss` on ANY symmetric pair table: when it returns `eslOK` the string is a class-nested labelling -/
theorem ginv_init (simple : Bool) (n : Nat) (ct : List Nat) (hct : CtOk n ct) :
    GInv n ct 1 [] { ss := Array.replicate n (if simple = true then (0x2e : UInt8) else 0x3a), cct := ct.toArray,
                     rb := Array.replicate 26 (-1), auxpk := [], auxss := [], reached := 0 } ct (List.replicate 26 (-1)) := by
  have hl1 : ct.length = n + 1 := hct.1
  have hrbrep : (Array.replicate 26 (-1 : Int)) = (List.replicate 26 (-1 : Int)).toArray := by
    apply Array.ext'; simp
  exact {
    hcct := rfl, hrb := hrbrep
    cok := ⟨hl1, fun p => Or.inl rfl, fun p hp => by
      have h1' := hct.2 p hp
      constructor
      · intro e; exact absurd e hp
      · intro e; rw [h1'.2.2.2.2.1] at e; omega⟩
    nopk := rfl, noaux := rfl, sssize := by simp
    ent := by intro a ha; simp at ha
    sorted := by simp
    lefts := by intro p h1 h2; omega
    paired := by intro a ha; simp at ha
    l1 := by
      intro q hq _
      simp only [ssAt, Array.toList_replicate, List.getD_eq_getElem?_getD, List.getElem?_replicate, hq, if_true,
                 Option.getD_some]
      cases simple <;> decide
    l2 := by intro j0 h1 h2; omega
    bn := by intro j0 i' h1 h2; omega
    linv := {
      rblen := by simp
      lab := by intro p hp1 hp2 hp3; omega
      non := by intro p p' hp1 hp2 hp3; omega } }

theorem ct2wussGen_class_labels (simple : Bool) (n : Nat) (ct : List Nat) (hct : CtOk n ct) (ss : Bytes)
    (h : ct2wussGen simple ct = .ok ss) :
    ss.length = n ∧ ClassLabels ct ss ∧ ClassNested ct ss := by
  unfold ct2wussGen at h
  simp only at h
  have hl1 : ct.length = n + 1 := hct.1
  have hn1 : ct.length - 1 = n := by omega
  rw [hn1] at h
  split at h
  · cases h
  · rename_i st hst
    split at h
    · cases h
    · injection h with h; subst h
      obtain ⟨pda', cct', rb', inv⟩ := c2wMainG simple n ct hct (n+1) 1 [] _ st ct _ (by omega) (by omega) (Nat.le_refl _)
        (ginv_init simple n ct hct) (fun _ a ha => by simp at ha) hst
      have hlen : st.ss.toList.length = n := by simp [inv.sssize]
      refine ⟨hlen, ?_, ?_⟩
      · -- every position carries the right kind of symbol
        intro p hp1 hp2
        rw [hlen] at hp2
        constructor
        · intro h0
          exact inv.l1 (p-1) (by omega) (by
            have : p - 1 + 1 = p := by omega
            rw [this]; exact h0)
        · intro hlt
          have hpp := hct.2 p (by omega)
          by_cases hz : cct'.getD p 0 = 0
          · right
            obtain ⟨x, hx, c1, c2, _⟩ := inv.linv.lab p hp1 hlt hz
            have lf := letter_facts x hx
            show isUpper (ssAt st.ss (p-1)) = true ∧ ssAt st.ss (ct.getD p 0 - 1) = toLower (ssAt st.ss (p-1))
            rw [c1, c2]; exact ⟨lf.1, lf.2.1.symm⟩
          · left
            have hs := cct_sym hct inv.cok p hz
            have hs2 := cct_sym hct inv.cok (cct'.getD p 0) (by rw [hs.2.1]; omega)
            have := inv.l2 (cct'.getD p 0) hs.2.2.2.2.1 (by omega) (by rw [hs.2.1]; omega) (by rw [hs.2.1, hs.1]; exact hlt)
            rw [hs.2.1, hs.1] at this
            exact this
      · -- pairs on the same stack do not cross
        have hbrk : ∀ p, cct'.getD p 0 ≠ 0 → p < ct.getD p 0 → isOpenBr (ssAt st.ss (p-1)) = true := by
          intro p hz hlt
          have hs := cct_sym hct inv.cok p hz
          have := inv.l2 (cct'.getD p 0) hs.2.2.2.2.1 (by omega) (by rw [hs.2.1]; omega) (by rw [hs.2.1, hs.1]; exact hlt)
          rw [hs.2.1] at this
          exact this.1
        intro i i' hi hi' hlt hlt2 hleft' hcls
        have hc : openerClass (ssAt st.ss (i-1)) = openerClass (ssAt st.ss (i'-1)) := hcls
        have hil : i < ct.getD i 0 := by omega
        have hi1 : 1 ≤ i := (hct.2 i hi).1
        by_cases hz : cct'.getD i 0 = 0
        · obtain ⟨x, hx, c1, _, _⟩ := inv.linv.lab i hi1 hil hz
          have lf := letter_facts x hx
          by_cases hz' : cct'.getD i' 0 = 0
          · obtain ⟨x', hx', c1', _, _⟩ := inv.linv.lab i' (by omega) hleft' hz'
            have lf' := letter_facts x' hx'
            rw [c1, c1', lf.2.2, lf'.2.2] at hc
            injection hc with hc
            have hxx : x = x' := by omega
            subst hxx
            exact inv.linv.non i i' hi1 hil hz hleft' hz' hlt hlt2 (c1.trans c1'.symm)
          · exfalso
            have hb := hbrk i' hz' hleft'
            rw [c1, lf.2.2, open_class0 _ hb] at hc
            injection hc with hc
            omega
        · have hb := hbrk i hz hil
          by_cases hz' : cct'.getD i' 0 = 0
          · exfalso
            obtain ⟨x', hx', c1', _, _⟩ := inv.linv.lab i' (by omega) hleft' hz'
            have lf' := letter_facts x' hx'
            rw [c1', lf'.2.2, open_class0 _ hb] at hc
            injection hc with hc
            omega
          · have hs := cct_sym hct inv.cok i hz
            have hs' := cct_sym hct inv.cok i' hz'
            have := inv.bn (cct'.getD i 0) i' hs.2.2.2.2.1 (by omega) (by rw [hs.2.1]; omega) (by rw [hs.2.1, hs.1]; exact hil)
              (by rw [hs.2.1]; exact hlt) (by rw [hs.1]; exact hlt2) hz' (by rw [hs'.1]; exact hleft')
            rw [hs.1, hs'.1] at this
            exact this

/-- PSEUDOKNOTTED ROUND TRIP: whenever `esl_ct2wuss` converts a symmetric pair table — crossing pairs, i.e. pseudoknots,
    allowed — `esl_wuss2ct` of the result is that table again -/
theorem pk_roundtripGen (simple : Bool) (n : Nat) (ct : List Nat) (hct : CtOk n ct) (ss : Bytes)
    (h : ct2wussGen simple ct = .ok ss) : wuss2ct ss = some ct := by
  obtain ⟨hlen, hl, hcn⟩ := ct2wussGen_class_labels simple n ct hct ss h
  exact wuss2ct_of_class_labels' ss ct (by rw [hlen]; exact hct) hcn hl

theorem ct2wuss_class_labels (n : Nat) (ct : List Nat) (hct : CtOk n ct) (ss : Bytes) (h : ct2wuss ct = .ok ss) :
    ss.length = n ∧ ClassLabels ct ss ∧ ClassNested ct ss :=
  ct2wussGen_class_labels false n ct hct ss h

theorem pk_roundtrip' (n : Nat) (ct : List Nat) (hct : CtOk n ct) (ss : Bytes) (h : ct2wuss ct = .ok ss) :
    wuss2ct ss = some ct :=
  pk_roundtripGen false n ct hct ss h

end EaselModel.Msa
