import EaselModel.Msa.LemmasRbbOk
import EaselModel.Msa.LemmasPk5
/-! Lemmas: on an alignment whose SS lines are balanced WUSS with at most 26 pseudoknotted pairs each,
    `esl_msa_RemoveBrokenBasepairs` cannot fail (removing pairs never creates a pseudoknotted pair). -/
namespace EaselModel.Msa

theorem filter_length_le_of_imp {α : Type} (p q : α → Bool) : ∀ (l : List α), (∀ x ∈ l, p x = true → q x = true) →
    (l.filter p).length ≤ (l.filter q).length
  | [], _ => Nat.le_refl _
  | x :: l, h => by
    have ih := filter_length_le_of_imp p q l (fun y hy => h y (by simp [hy]))
    have hx := h x (by simp)
    simp only [List.filter_cons]
    cases hp : p x <;> cases hq : q x <;> simp_all <;> omega

/-- a table obtained by un-pairing some pairs has no more pseudoknotted pairs -/
theorem pkPairs_sub (ct bt : List Nat) (hlen : bt.length = ct.length)
    (hsub : ∀ i, bt.getD i 0 = ct.getD i 0 ∨ bt.getD i 0 = 0) : (pkPairs bt).length ≤ (pkPairs ct).length := by
  unfold pkPairs
  rw [hlen]
  apply filter_length_le_of_imp
  intro p _ hp
  simp only [isPkPair, Bool.and_eq_true, decide_eq_true_eq, List.any_eq_true, List.mem_range] at hp ⊢
  obtain ⟨h1, q, hq, h2, h3, h4⟩ := hp
  have ep : bt.getD p 0 = ct.getD p 0 := by
    rcases hsub p with e | e
    · exact e
    · omega
  have eq : bt.getD q 0 = ct.getD q 0 := by
    rcases hsub q with e | e
    · exact e
    · omega
  rw [hlen] at hq
  exact ⟨by omega, q, hq, h2, by omega, by omega⟩

/-- an SS line that is balanced WUSS with at most 26 pseudoknotted pairs -/
def FewPkSS (s : Bytes) : Prop := ∃ ct, wuss2ct s = some ct ∧ (pkPairs ct).length ≤ 26

theorem removeBrokenFromSS_ok_few (s : Bytes) (useme : List Bool) (h : FewPkSS s) :
    ∃ s', removeBrokenFromSS s useme = .ok s' := by
  obtain ⟨ct, hct, hfew⟩ := h
  have hok := wuss2ct_ctOk s ct hct
  have hb := (breakPairs_ctOk_nested useme s.length ct hok).1
  simp only [removeBrokenFromSS, hct]
  apply ct2wuss_ok_of_few' s.length _ hb
  refine Nat.le_trans (pkPairs_sub ct _ (by rw [breakPairs_length']) ?_) hfew
  intro i
  rw [breakPairs_spec' useme s.length ct hok i]
  split
  · exact Or.inl rfl
  · exact Or.inr rfl

theorem rbbSeqs_ok_few (useme : List Bool) : ∀ (l : List (Option Bytes)),
    (∀ s b, s ∈ l → s = some b → FewPkSS b) → (rbbSeqs useme l).2 = none
  | [], _ => rfl
  | none :: rest, h => by
    simp only [rbbSeqs]
    exact rbbSeqs_ok_few useme rest (fun s b hs hb => h s b (by simp [hs]) hb)
  | some s0 :: rest, h => by
    obtain ⟨s', hs'⟩ := removeBrokenFromSS_ok_few s0 useme (h (some s0) s0 (by simp) rfl)
    simp only [rbbSeqs, hs']
    exact rbbSeqs_ok_few useme rest (fun s b hs hb => h s b (by simp [hs]) hb)

/-- `esl_msa_RemoveBrokenBasepairs` returns `eslOK` when SS_cons and every per-sequence SS line is balanced WUSS with at
    most 26 pseudoknotted pairs -/
theorem removeBrokenBasepairs_ok_few (m : Msa) (useme : List Bool)
    (hc : ∀ b, m.ss_cons = some b → FewPkSS b) (hs : ∀ s b, s ∈ m.ss → s = some b → FewPkSS b) :
    (removeBrokenBasepairs m useme).st = .ok := by
  unfold removeBrokenBasepairs
  cases hcons : m.ss_cons with
  | none =>
    simp only
    have := rbbSeqs_ok_few useme m.ss hs
    cases hr : rbbSeqs useme m.ss with
    | mk ss' e => rw [hr] at this; simp only at this; subst this; rfl
  | some s0 =>
    obtain ⟨s', hs'⟩ := removeBrokenFromSS_ok_few s0 useme (hc s0 hcons)
    simp only [hs', Except.map]
    have := rbbSeqs_ok_few useme m.ss hs
    cases hr : rbbSeqs useme m.ss with
    | mk ss' e => rw [hr] at this; simp only at this; subst this; rfl

end EaselModel.Msa
