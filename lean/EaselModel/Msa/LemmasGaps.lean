import EaselModel.Msa.LemmasMsa
/-! Lemmas: MinimGaps / NoGaps remove exactly the columns the documentation says, and keep the residues. -/
namespace EaselModel.Msa

theorem removesOnlyGaps_of_forall (isGap : UInt8 → Bool) :
    ∀ (mask : List Bool) (row : Bytes),
      (∀ i, i < mask.length → i < row.length → mask.getD i true = false → isGap (row.getD i 0) = true) →
      removesOnlyGaps isGap mask row
  | [], _, _ => by cases ‹Bytes› <;> trivial
  | _ :: _, [], _ => trivial
  | b :: mask, c :: row, h => by
    refine ⟨fun hb => ?_, removesOnlyGaps_of_forall isGap mask row (fun i h1 h2 h3 => ?_)⟩
    · have := h 0 (by simp) (by simp) (by simpa using hb)
      simpa using this
    · have := h (i+1) (by simpa using h1) (by simpa using h2) (by simpa using h3)
      simpa using this

theorem getD_map_range {α : Type} (f : Nat → α) (n i : Nat) (d : α) (h : i < n) :
    ((List.range n).map f).getD i d = f i := by
  simp [List.getD, h]

theorem colOf_mem (rows : List Bytes) (r : Bytes) (hr : r ∈ rows) (apos : Nat) : r.getD apos 0 ∈ colOf rows apos := by
  simp only [colOf, List.mem_map]
  exact ⟨r, hr, rfl⟩

/-- the text-mode MinimGaps mask: a column is removed iff it is a gap in every sequence and is not protected by RF -/
theorem minimGapsTextMask_spec (m : Msa) (gaps : Bytes) (considerRf : Bool) (apos : Nat) (h : apos < m.alen) :
    (minimGapsTextMask m gaps considerRf).getD apos true = false ↔
      ((colOf m.rows apos).all (inGaps gaps) = true ∧
       ¬ (considerRf = true ∧ ∃ rf, m.rf = some rf ∧ inGaps gaps (rf.getD apos 0) = false)) := by
  unfold minimGapsTextMask
  rw [getD_map_range _ _ _ _ h]
  cases hrf : m.rf with
  | none => cases considerRf <;> simp
  | some rf =>
    cases considerRf <;> cases hg : inGaps gaps (rf.getD apos 0) <;> simp <;> exact And.comm

theorem minimGapsTextMask_length (m : Msa) (gaps : Bytes) (c : Bool) : (minimGapsTextMask m gaps c).length = m.alen := by
  simp [minimGapsTextMask]

/-- MinimGaps removes only cells that are gaps in the row they belong to -/
theorem minimGapsTextMask_removesOnlyGaps (m : Msa) (gaps : Bytes) (c : Bool) (r : Bytes) (hr : r ∈ m.rows) :
    removesOnlyGaps (inGaps gaps) (minimGapsTextMask m gaps c) r := by
  apply removesOnlyGaps_of_forall
  intro i h1 _ h3
  rw [minimGapsTextMask_length] at h1
  have := ((minimGapsTextMask_spec m gaps c i h1).mp h3).1
  rw [List.all_eq_true] at this
  exact this _ (colOf_mem m.rows r hr i)

theorem minimGapsDigitalMask_length (m : Msa) (a : Abc) (c : Bool) : (minimGapsDigitalMask m a c).length = m.alen := by
  simp [minimGapsDigitalMask]

theorem minimGapsDigitalMask_spec (m : Msa) (a : Abc) (considerRf : Bool) (apos : Nat) (h : apos < m.alen) :
    (minimGapsDigitalMask m a considerRf).getD apos true = false ↔
      ((colOf m.rows apos).all (fun x => a.xIsGap x || a.xIsMissing x) = true ∧
       ¬ (considerRf = true ∧ ∃ rf, m.rf = some rf ∧
            (a.cIsGap (rf.getD apos 0) || a.cIsMissing (rf.getD apos 0)) = false)) := by
  unfold minimGapsDigitalMask
  rw [getD_map_range _ _ _ _ h]
  cases hrf : m.rf with
  | none => cases considerRf <;> simp
  | some rf =>
    cases considerRf <;> cases hg : a.cIsGap (rf.getD apos 0) <;> cases hm : a.cIsMissing (rf.getD apos 0) <;> simp <;> exact And.comm

theorem minimGapsDigitalMask_removesOnlyGaps (m : Msa) (a : Abc) (c : Bool) (r : Bytes) (hr : r ∈ m.rows) :
    removesOnlyGaps (fun x => a.xIsGap x || a.xIsMissing x) (minimGapsDigitalMask m a c) r := by
  apply removesOnlyGaps_of_forall
  intro i h1 _ h3
  rw [minimGapsDigitalMask_length] at h1
  have := ((minimGapsDigitalMask_spec m a c i h1).mp h3).1
  rw [List.all_eq_true] at this
  exact this _ (colOf_mem m.rows r hr i)

/-- NoGaps keeps a column iff no sequence has a gap there -/
theorem noGapsTextMask_spec (m : Msa) (gaps : Bytes) (apos : Nat) (h : apos < m.alen) :
    (noGapsTextMask m gaps).getD apos false = true ↔ (colOf m.rows apos).any (inGaps gaps) = false := by
  unfold noGapsTextMask
  rw [getD_map_range _ _ _ _ h]
  simp

theorem noGapsTextMask_length (m : Msa) (gaps : Bytes) : (noGapsTextMask m gaps).length = m.alen := by
  simp [noGapsTextMask]

theorem noGapsDigitalMask_spec (m : Msa) (a : Abc) (apos : Nat) (h : apos < m.alen) :
    (noGapsDigitalMask m a).getD apos false = true ↔
      (colOf m.rows apos).any (fun x => a.xIsGap x || a.xIsMissing x) = false := by
  unfold noGapsDigitalMask
  rw [getD_map_range _ _ _ _ h]
  simp

theorem noGapsDigitalMask_length (m : Msa) (a : Abc) : (noGapsDigitalMask m a).length = m.alen := by
  simp [noGapsDigitalMask]

/-- every row of the result of NoGaps is gap free -/
theorem maskFilter_noGaps_row (isGap : UInt8 → Bool) :
    ∀ (mask : List Bool) (row : Bytes), mask.length = row.length →
      (∀ i, i < row.length → mask.getD i false = true → isGap (row.getD i 0) = false) →
      ∀ c ∈ maskFilter mask row, isGap c = false
  | [], [], _, _ => by simp [maskFilter]
  | [], _ :: _, h, _ => by simp at h
  | _ :: _, [], _, _ => by simp [maskFilter]
  | b :: mask, x :: row, hl, h => by
    have ih := maskFilter_noGaps_row isGap mask row (by simpa using hl)
      (fun i h1 h2 => by simpa using h (i+1) (by simpa using h1) (by simpa using h2))
    intro c hc
    cases b with
    | false => simp [maskFilter] at hc; exact ih c hc
    | true =>
      simp [maskFilter] at hc
      rcases hc with rfl | hc
      · simpa using h 0 (by simp) (by simp)
      · exact ih c hc

end EaselModel.Msa

namespace EaselModel.Msa

theorem maskFilter_map_self {α : Type} (p : α → Bool) : ∀ (r : List α), maskFilter (r.map p) r = r.filter p
  | [] => rfl
  | x :: r => by
    simp only [List.map_cons, maskFilter, List.filter_cons, maskFilter_map_self p r]

/-- the sequence `esl_sq_FetchFromMSA` extracts is the ungapped row -/
theorem fetch_seq_eq (m : Msa) (which : Nat) (wf : m.WF) (hw : which < m.nseq) :
    (fetchFromMSA m which).map (·.seq) = some (dealign (fetchIsGap m) (m.rows.getD which [])) := by
  have hlen : which < m.rows.length := by rw [wf.rows_len]; exact hw
  have hrow : m.rows.getD which [] ∈ m.rows := by
    rw [List.getD_eq_getElem?_getD, List.getElem?_eq_getElem hlen]; exact List.getElem_mem hlen
  have htake : (m.rows.getD which []).take m.alen = m.rows.getD which [] :=
    List.take_of_length_le (by rw [(wf.rows_ok _ hrow).1]; exact Nat.le_refl _)
  simp only [fetchFromMSA, if_neg (by omega : ¬ which ≥ m.nseq), Option.map_some, htake, dealign]
  rw [maskFilter_map_self]

/-- residues intact, as observed through `esl_sq_FetchFromMSA`: removing columns that are gaps in a row does not
    change the sequence fetched for that row -/
theorem fetch_after_gap_removal' (m : Msa) (mask : List Bool) (which : Nat) (wf : m.WF) (hm : mask.length = m.alen)
    (hw : which < m.nseq) (hg : removesOnlyGaps (fetchIsGap m) mask (m.rows.getD which [])) :
    (fetchFromMSA (m.colFilter mask) which).map (·.seq) = (fetchFromMSA m which).map (·.seq) := by
  have hlen : which < m.rows.length := by rw [wf.rows_len]; exact hw
  have hrow : m.rows.getD which [] ∈ m.rows := by
    rw [List.getD_eq_getElem?_getD, List.getElem?_eq_getElem hlen]; exact List.getElem_mem hlen
  rw [fetch_seq_eq m which wf hw, fetch_seq_eq (m.colFilter mask) which (colFilter_wf m mask wf hm) hw]
  have hget : (m.colFilter mask).rows.getD which [] = maskFilter mask (m.rows.getD which []) := by
    simp only [Msa.colFilter, List.getD_eq_getElem?_getD, List.getElem?_map, List.getElem?_eq_getElem hlen,
               Option.map_some, Option.getD_some]
  have hgap : fetchIsGap (m.colFilter mask) = fetchIsGap m := rfl
  rw [hget, hgap, dealign_maskFilter _ mask _ (by rw [hm, (wf.rows_ok _ hrow).1]) hg]

end EaselModel.Msa
