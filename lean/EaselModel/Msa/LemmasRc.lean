import EaselModel.Msa.LemmasConv
/-! Lemmas: `esl_msa_ReverseComplement` keeps the alignment well formed. -/
namespace EaselModel.Msa

theorem wussComplChar_ne_zero_nat : ∀ n, n < 256 → n ≠ 0 → wussComplChar (UInt8.ofNat n) ≠ 0 := by decide +kernel

theorem wussComplChar_ne_zero (c : UInt8) (h : c ≠ 0) : wussComplChar c ≠ 0 := by
  have := wussComplChar_ne_zero_nat c.toNat c.toNat_lt (fun e => h (UInt8.toNat_inj.mp (by simpa using e)))
  simpa using this

theorem strOk_reverse (alen : Nat) (t : UInt8) (s : Bytes) (h : strOk alen t s) : strOk alen t s.reverse :=
  ⟨by simp [h.1], fun c hc => h.2 c (List.mem_reverse.mp hc)⟩

theorem optOk_reverse (alen : Nat) (s : Option Bytes) (h : optOk alen s) : optOk alen (s.map List.reverse) := by
  intro b hb
  cases s with
  | none => cases hb
  | some s0 => injection hb with hb; subst hb; exact strOk_reverse alen 0 s0 (h s0 rfl)

theorem strOk_wussReverse (alen : Nat) (s : Bytes) (h : strOk alen 0 s) : strOk alen 0 (wussReverse s) := by
  refine ⟨by simp [wussReverse, h.1], fun c hc => ?_⟩
  simp only [wussReverse, List.mem_reverse, List.mem_map] at hc
  obtain ⟨d, hd, rfl⟩ := hc
  exact wussComplChar_ne_zero d (h.2 d hd)

theorem optOk_wussReverse (alen : Nat) (s : Option Bytes) (h : optOk alen s) : optOk alen (s.map wussReverse) := by
  intro b hb
  cases s with
  | none => cases hb
  | some s0 => injection hb with hb; subst hb; exact strOk_wussReverse alen s0 (h s0 rfl)

/-- the reverse-complemented alignment is well formed (rows hold valid codes, so no sentinel appears) -/
theorem rcMsa_wf (a : Abc) (compl : List UInt8) (m : Msa) (wf : m.WF) (hd : m.isDigital = true) (hc : m.codesOk a)
    (hcompl : ∀ x, x < a.Kp → (compl.getD x 0).toNat < a.Kp) (hKp : a.Kp ≤ 255) : (rcMsa compl m).WF := by
  have hterm : (rcMsa compl m).rowTerm = dsqSentinel := by
    have : (rcMsa compl m).isDigital = true := hd
    simp [Msa.rowTerm, this]
  have hterm0 : m.rowTerm = dsqSentinel := by simp [Msa.rowTerm, hd]
  exact {
    nseq_pos := wf.nseq_pos
    flags_lt := wf.flags_lt
    rows_len := by simp [rcMsa, wf.rows_len]
    rows_ok := by
      intro r hr
      simp only [rcMsa, List.mem_map] at hr
      obtain ⟨r0, hr0, rfl⟩ := hr
      have h0 := wf.rows_ok r0 hr0
      refine ⟨by simp [revcompRow]; exact h0.1, fun c hcm => ?_⟩
      simp only [revcompRow, List.mem_reverse, List.mem_map] at hcm
      obtain ⟨x, hx, rfl⟩ := hcm
      rw [hterm]
      have := hcompl x.toNat (hc r0 hr0 x hx)
      intro e
      rw [e] at this
      simp [dsqSentinel] at this
      omega
    sqname_len := wf.sqname_len
    wgt_len := wf.wgt_len
    sqacc_len := wf.sqacc_len
    sqdesc_len := wf.sqdesc_len
    ss_len := by simp [rcMsa, wf.ss_len]
    sa_len := by simp [rcMsa, wf.sa_len]
    pp_len := by simp [rcMsa, wf.pp_len]
    ss_ok := by
      intro s hs
      simp only [rcMsa, List.mem_map] at hs
      obtain ⟨s0, hs0, rfl⟩ := hs
      exact optOk_wussReverse _ s0 (wf.ss_ok s0 hs0)
    sa_ok := by
      intro s hs
      simp only [rcMsa, List.mem_map] at hs
      obtain ⟨s0, hs0, rfl⟩ := hs
      exact optOk_reverse _ s0 (wf.sa_ok s0 hs0)
    pp_ok := by
      intro s hs
      simp only [rcMsa, List.mem_map] at hs
      obtain ⟨s0, hs0, rfl⟩ := hs
      exact optOk_reverse _ s0 (wf.pp_ok s0 hs0)
    ss_cons_ok := optOk_wussReverse _ _ wf.ss_cons_ok
    sa_cons_ok := optOk_reverse _ _ wf.sa_cons_ok
    pp_cons_ok := optOk_reverse _ _ wf.pp_cons_ok
    rf_ok := optOk_reverse _ _ wf.rf_ok
    mm_ok := optOk_reverse _ _ wf.mm_ok
    gc_ok := by
      intro t ht
      simp only [rcMsa, List.mem_map] at ht
      obtain ⟨t0, ht0, rfl⟩ := ht
      exact strOk_reverse _ 0 _ (wf.gc_ok t0 ht0)
    gr_len := by
      intro t ht
      simp only [rcMsa, List.mem_map] at ht
      obtain ⟨t0, ht0, rfl⟩ := ht
      simp only [List.length_map]
      exact wf.gr_len t0 ht0
    gr_ok := by
      intro t ht s hs
      simp only [rcMsa, List.mem_map] at ht
      obtain ⟨t0, ht0, rfl⟩ := ht
      simp only [List.mem_map] at hs
      obtain ⟨s0, hs0, rfl⟩ := hs
      exact optOk_reverse _ s0 (wf.gr_ok t0 ht0 s0 hs0)
    gs_len := wf.gs_len }

/-- cell `i` of a reverse-complemented row is the complement of the mirror cell -/
theorem revcompRow_getD (compl : List UInt8) (r : Bytes) (i : Nat) (hi : i < r.length) :
    (revcompRow compl r).getD i 0 = compl.getD (r.getD (r.length - 1 - i) 0).toNat 0 := by
  unfold revcompRow
  have hl : i < (r.map fun x => compl.getD x.toNat 0).length := by simpa using hi
  have h2 : r.length - 1 - i < r.length := by omega
  rw [List.getD_eq_getElem?_getD, List.getElem?_reverse hl, List.length_map, List.getElem?_map,
      List.getElem?_eq_getElem h2, List.getD_eq_getElem?_getD (l := r), List.getElem?_eq_getElem h2]
  rfl

end EaselModel.Msa
