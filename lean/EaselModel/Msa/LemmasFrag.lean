import EaselModel.Msa.Spec
/-! Lemmas: `esl_msa_MarkFragments_old` and `esl_msa_FlushLeftInserts` keep every row's residues and its length. -/
namespace EaselModel.Msa

theorem maskLead_length (isRes : UInt8 → Bool) (miss : UInt8) : ∀ (r : Bytes), (maskLead isRes miss r).length = r.length
  | [] => rfl
  | c :: rest => by
    simp only [maskLead]; split
    · rfl
    · simp [maskLead_length isRes miss rest]

theorem maskLead_filter (isRes : UInt8 → Bool) (miss : UInt8) (hm : isRes miss = false) :
    ∀ (r : Bytes), (maskLead isRes miss r).filter isRes = r.filter isRes
  | [] => rfl
  | c :: rest => by
    simp only [maskLead]; split
    · rfl
    · rename_i hc
      have hc' : isRes c = false := by simpa using hc
      simp [List.filter_cons, hm, hc', maskLead_filter isRes miss hm rest]

/-- every cell is either unchanged or a non-residue turned into the missing-data symbol -/
theorem maskLead_cells (isRes : UInt8 → Bool) (miss : UInt8) : ∀ (r : Bytes) (i : Nat),
    (maskLead isRes miss r).getD i 0 = r.getD i 0 ∨
    (isRes (r.getD i 0) = false ∧ (maskLead isRes miss r).getD i 0 = miss ∧ i < r.length)
  | [], i => by simp [maskLead]
  | c :: rest, i => by
    simp only [maskLead]; split
    · exact Or.inl rfl
    · rename_i hc
      cases i with
      | zero => right; simp; simpa using hc
      | succ i =>
        rcases maskLead_cells isRes miss rest i with h | h
        · left; simpa using h
        · right; simpa using h

theorem maskLead_mem (isRes : UInt8 → Bool) (miss : UInt8) : ∀ (r : Bytes) (c : UInt8),
    c ∈ maskLead isRes miss r → c ∈ r ∨ c = miss
  | [], c, h => by simp [maskLead] at h
  | x :: rest, c, h => by
    simp only [maskLead] at h; split at h
    · exact Or.inl h
    · simp only [List.mem_cons] at h
      rcases h with rfl | h
      · exact Or.inr rfl
      · rcases maskLead_mem isRes miss rest c h with h | h
        · exact Or.inl (List.mem_cons_of_mem _ h)
        · exact Or.inr h

/-- `esl_msa_MarkFragments_old` on one row: same length, same residues in the same order; only leading/trailing
    non-residues changed, into the missing-data symbol -/
theorem maskEnds_spec (isRes : UInt8 → Bool) (miss : UInt8) (hm : isRes miss = false) (r : Bytes) :
    (maskEnds isRes miss r).length = r.length ∧ (maskEnds isRes miss r).filter isRes = r.filter isRes ∧
    ∀ c ∈ maskEnds isRes miss r, c ∈ r ∨ c = miss := by
  refine ⟨by simp [maskEnds, maskLead_length], ?_, ?_⟩
  · simp only [maskEnds, List.filter_reverse, maskLead_filter isRes miss hm, List.reverse_reverse]
  · intro c hc
    simp only [maskEnds, List.mem_reverse] at hc
    rcases maskLead_mem isRes miss _ c hc with h | h
    · simp only [List.mem_reverse] at h
      exact maskLead_mem isRes miss r c h
    · exact Or.inr h

end EaselModel.Msa

namespace EaselModel.Msa

/-- `flushGo`: the written part never gets ahead of the read position; residues are appended in order; a consensus
    column keeps its own cell -/
theorem flushGo_spec (abc : Abc) (hg : abc.xIsGap abc.xGap = true) :
    ∀ (rf row : Bytes) (a : Nat) (out : Bytes), rf.length = row.length → out.length ≤ a →
      (flushGo abc rf row a out).length ≤ a + row.length ∧
      (flushGo abc rf row a out).filter (fun x => !abc.xIsGap x) =
        out.filter (fun x => !abc.xIsGap x) ++ row.filter (fun x => !abc.xIsGap x) ∧
      (∀ i, i < out.length → (flushGo abc rf row a out).getD i 0 = out.getD i 0) ∧
      (∀ i, i < row.length → abc.cIsGap (rf.getD i 0) = false → (flushGo abc rf row a out).getD (a + i) 0 = row.getD i 0) ∧
      out.length ≤ (flushGo abc rf row a out).length ∧
      (∀ i, i < row.length → abc.cIsGap (rf.getD i 0) = false → a + i < (flushGo abc rf row a out).length)
  | [], [], a, out, _, hle => by simp [flushGo]; omega
  | [], _ :: _, a, out, hl, _ => by simp at hl
  | _ :: _, [], a, out, hl, _ => by simp at hl
  | rfc :: rf, x :: row, a, out, hl, hle => by
    have hl' : rf.length = row.length := by simpa using hl
    simp only [flushGo]
    by_cases hcons : abc.cIsGap rfc = false
    · -- consensus column
      simp only [hcons, Bool.not_false, if_true]
      have hlen : (out ++ List.replicate (a - out.length) abc.xGap ++ [x]).length = a + 1 := by simp; omega
      have hl2 : (out ++ List.replicate (a - out.length) abc.xGap).length = a := by simp; omega
      have hlast : (out ++ List.replicate (a - out.length) abc.xGap ++ [x]).getD a 0 = x := by
        rw [List.getD_eq_getElem?_getD, List.getElem?_append_right (by rw [hl2]; exact Nat.le_refl _), hl2]
        simp
      have ih := flushGo_spec abc hg rf row (a+1) (out ++ List.replicate (a - out.length) abc.xGap ++ [x]) hl' (by omega)
      refine ⟨by have := ih.1; simp at this ⊢; omega, ?_, ?_, ?_, by have := ih.2.2.2.2.1; rw [hlen] at this; omega, ?_⟩
      · rw [ih.2.1]
        have hrep : (List.replicate (a - out.length) abc.xGap).filter (fun x => !abc.xIsGap x) = [] := by
          simp [hg]
        by_cases hxg : abc.xIsGap x = true <;> simp [List.filter_append, hrep, List.filter_cons, hxg]
      · intro i hi
        rw [ih.2.2.1 i (by rw [hlen]; omega)]
        simp [List.getD_eq_getElem?_getD, List.getElem?_append_left, hi]
      · intro i hi hc
        cases i with
        | zero =>
          have := ih.2.2.1 a (by rw [hlen]; omega)
          simp only [Nat.add_zero]
          rw [this, hlast]; simp
        | succ i =>
          have := ih.2.2.2.1 i (by simpa using hi) (by simpa using hc)
          have e : a + (i + 1) = a + 1 + i := by omega
          rw [e, this]; simp
      · intro i hi hc
        cases i with
        | zero => have := ih.2.2.2.2.1; rw [hlen] at this; omega
        | succ i =>
          have := ih.2.2.2.2.2 i (by simpa using hi) (by simpa using hc)
          omega
    · have hins : abc.cIsGap rfc = true := by simpa using hcons
      simp only [hins, Bool.not_true, Bool.false_eq_true, if_false]
      by_cases hx : abc.xIsGap x = true
      · simp only [hx, if_true]
        have ih := flushGo_spec abc hg rf row (a+1) out hl' (by omega)
        refine ⟨by have := ih.1; simp at this ⊢; omega, ?_, ih.2.2.1, ?_, ih.2.2.2.2.1, ?_⟩
        · rw [ih.2.1]; simp [List.filter_cons, hx]
        · intro i hi hc
          cases i with
          | zero => simp [hins] at hc
          | succ i =>
            have := ih.2.2.2.1 i (by simpa using hi) (by simpa using hc)
            have e : a + (i + 1) = a + 1 + i := by omega
            rw [e, this]; simp
        · intro i hi hc
          cases i with
          | zero => simp [hins] at hc
          | succ i =>
            have := ih.2.2.2.2.2 i (by simpa using hi) (by simpa using hc)
            omega
      · have hxf : abc.xIsGap x = false := by simpa using hx
        simp only [hxf, Bool.false_eq_true, if_false]
        have ih := flushGo_spec abc hg rf row (a+1) (out ++ [x]) hl' (by simp; omega)
        refine ⟨by have := ih.1; simp at this ⊢; omega, ?_, ?_, ?_, by have := ih.2.2.2.2.1; simp at this; omega, ?_⟩
        · rw [ih.2.1]; simp [List.filter_append, List.filter_cons, hxf]
        · intro i hi
          rw [ih.2.2.1 i (by simp; omega)]
          simp [List.getD_eq_getElem?_getD, List.getElem?_append_left, hi]
        · intro i hi hc
          cases i with
          | zero => simp [hins] at hc
          | succ i =>
            have := ih.2.2.2.1 i (by simpa using hi) (by simpa using hc)
            have e : a + (i + 1) = a + 1 + i := by omega
            rw [e, this]; simp
        · intro i hi hc
          cases i with
          | zero => simp [hins] at hc
          | succ i =>
            have := ih.2.2.2.2.2 i (by simpa using hi) (by simpa using hc)
            omega

/-- `esl_msa_FlushLeftInserts` on one well-formed row: same length, same residues in the same order, and every
    consensus (RF non-gap) column keeps its own cell -/
theorem flushRow_spec (abc : Abc) (hg : abc.xIsGap abc.xGap = true) (rf row : Bytes) (alen : Nat)
    (hrf : rf.length = alen) (hrow : row.length = alen) :
    (flushRow abc rf alen row).length = alen ∧
    (flushRow abc rf alen row).filter (fun x => !abc.xIsGap x) = row.filter (fun x => !abc.xIsGap x) ∧
    (∀ i, i < alen → abc.cIsGap (rf.getD i 0) = false → (flushRow abc rf alen row).getD i 0 = row.getD i 0) := by
  have h1 : rf.take alen = rf := List.take_of_length_le (by omega)
  have h2 : row.take alen = row := List.take_of_length_le (by omega)
  have sp := flushGo_spec abc hg rf row 0 [] (by omega) (by simp)
  simp only [flushRow, h1, h2]
  refine ⟨by have := sp.1; simp at this ⊢; omega, ?_, ?_⟩
  · have hrep : (List.replicate (alen - (flushGo abc rf row 0 []).length) abc.xGap).filter (fun x => !abc.xIsGap x) = [] := by
      simp [hg]
    rw [List.filter_append, hrep, sp.2.1]; simp
  · intro i hi hc
    have h3 := sp.2.2.2.1 i (by omega) hc
    have h4 := sp.2.2.2.2.2 i (by omega) hc
    simp only [Nat.zero_add] at h3 h4
    rw [← h3]
    simp [List.getD_eq_getElem?_getD, List.getElem?_append_left, h4]

end EaselModel.Msa
