import EaselModel.Msa.LemmasPk
/-! Lemmas: the pseudoknot-lettering loop (`pkLoop`) of `esl_ct2wuss` keeps the letter invariant: every lettered pair
    carries the same letter on both ends (upper left, lower right), the letter's right bound `rb[x]` covers it, and two
    pairs with the same letter never cross. -/
namespace EaselModel.Msa

/-- working table `cct` = `ct` with some pairs zeroed (both ends together) -/
structure CctOk (n : Nat) (ct cct : List Nat) : Prop where
  len : cct.length = n + 1
  sub : ∀ p, cct.getD p 0 = ct.getD p 0 ∨ cct.getD p 0 = 0
  both : ∀ p, ct.getD p 0 ≠ 0 → (cct.getD p 0 = 0 ↔ cct.getD (ct.getD p 0) 0 = 0)

/-- letter invariant -/
structure LInv (ct cct : List Nat) (ss : Array UInt8) (rb : List Int) : Prop where
  rblen : rb.length = 26
  lab : ∀ p, 1 ≤ p → p < ct.getD p 0 → cct.getD p 0 = 0 →
    ∃ x : Nat, x < 26 ∧ ssAt ss (p-1) = UInt8.ofNat (65 + x) ∧ ssAt ss (ct.getD p 0 - 1) = UInt8.ofNat (97 + x) ∧
      (ct.getD p 0 : Int) ≤ rb.getD x 0
  non : ∀ p p', 1 ≤ p → p < ct.getD p 0 → cct.getD p 0 = 0 → p' < ct.getD p' 0 → cct.getD p' 0 = 0 →
    p < p' → p' < ct.getD p 0 → ssAt ss (p-1) = ssAt ss (p'-1) → ct.getD p' 0 < ct.getD p 0

theorem toArray_getD_int (l : List Int) (i : Nat) : l.toArray.getD i 0 = l.getD i 0 := by
  by_cases h : i < l.length
  · simp [Array.getD, List.getD_eq_getElem?_getD, h]
  · simp [Array.getD, List.getD_eq_getElem?_getD, h]

theorem rdInt_toList (rb : List Int) (x : Int) (h0 : 0 ≤ x) (h : x.toNat < rb.length) :
    rdInt rb.toArray x = .ok (rb.getD x.toNat 0) := by
  unfold rdInt
  rw [if_pos ⟨h0, by simpa using h⟩]
  simp [Array.getD, List.getD_eq_getElem?_getD, h]

theorem wrNat_toList {l : List Nat} {i : Int} {v : Nat} {a' : Array Nat} (h : wrNat l.toArray i v = .ok a') :
    0 ≤ i ∧ i.toNat < l.length ∧ a' = (l.set i.toNat v).toArray := by
  unfold wrNat at h
  split at h
  · rename_i hc; injection h with h
    exact ⟨hc.1, by simpa using hc.2, by rw [← h]; simp⟩
  · cases h

theorem ofNat_letter_inj (x y : Nat) (hx : x < 26) (hy : y < 26) (h : UInt8.ofNat (65 + x) = UInt8.ofNat (65 + y)) : x = y := by
  have := congrArg UInt8.toNat h
  simp only [UInt8.toNat_ofNat'] at this
  omega

/-- chain state of the pseudoknot currently being lettered with `xpk` -/
def Chain (ct cct : List Nat) (ss : Array UInt8) (items : List Nat) (lb rbd xpk : Int) : Prop :=
  (xpk = -1 ∧ rbd = lb + 1) ∨
  (0 ≤ xpk ∧ ∃ lo am lastb : Nat,
    (∀ k2 : Int, (lastb : Int) < k2 → k2 < rbd → (cct.getD k2.toNat 0 = 0 ∨ (cct.getD k2.toNat 0 : Int) > rbd)) ∧
    (∀ p, 1 ≤ p → p < ct.getD p 0 → cct.getD p 0 = 0 → ssAt ss (p-1) = UInt8.ofNat (65 + xpk.toNat) →
        (ct.getD p 0 ≤ lo ∨ (lo ≤ p ∧ p ≤ am ∧ lastb ≤ ct.getD p 0))) ∧
    (∀ a ∈ items, am < a) ∧ cct.getD lastb 0 = 0 ∧ (lastb : Int) ≤ rbd ∧ lo ≤ am)

/-- what the batch leaves behind -/
def PkPost (n : Nat) (ct cct : List Nat) (items : List Nat) (st st' : C2W) : Prop :=
  ∃ cct' rb', st'.cct = cct'.toArray ∧ st'.rb = rb'.toArray ∧ CctOk n ct cct' ∧ st'.ss.size = n ∧
    LInv ct cct' st'.ss rb' ∧ st'.auxpk = [] ∧ st'.auxss = st.auxss ∧
    (∀ p, cct'.getD p 0 = if p ∈ items ∨ (∃ a ∈ items, p = ct.getD a 0) then 0 else cct.getD p 0) ∧
    (∀ q, q + 1 ∉ items → (∀ a ∈ items, q + 1 ≠ ct.getD a 0) → ssAt st'.ss q = ssAt st.ss q)

theorem pkLoopG (n : Nat) (ct : List Nat) (hct : CtOk n ct) (j i0 : Nat) (hi0 : 1 ≤ i0 ∧ i0 < j ∧ j ≤ n) :
    ∀ (items : List Nat) (lb rbd xpk : Int) (st st' : C2W) (cct : List Nat) (rb : List Int),
      st.cct = cct.toArray → st.rb = rb.toArray → CctOk n ct cct → st.ss.size = n → LInv ct cct st.ss rb →
      items.Pairwise (· < ·) →
      (∀ a ∈ items, i0 < a ∧ a < j ∧ cct.getD a 0 ≠ 0 ∧ j < ct.getD a 0) →
      cct.getD j 0 = i0 →
      Chain ct cct st.ss items lb rbd xpk → 0 ≤ lb → lb < rbd → rbd ≤ (n : Int) →
      pkLoop ct.toArray j items lb rbd xpk st = .ok st' → PkPost n ct cct items st st'
  | [], lb, rbd, xpk, st, st', cct, rb, hcct, hrbeq, hok, hsz, linv, _, _, _, _, _, _, _, h => by
    simp only [pkLoop] at h
    injection h with h; subst h
    exact ⟨cct, rb, hcct, hrbeq, hok, hsz, linv, rfl, rfl, fun p => by simp, fun q _ _ => rfl⟩
  | i :: rest, lb, rbd, xpk, st, st', cct, rb, hcct, hrbeq, hok, hsz, linv, hsorted, hitems, hcj, chain, hlb0, hlbr, hrbn, h => by
    have hi := hitems i (by simp)
    have hci : cct.getD i 0 = ct.getD i 0 := by
      rcases hok.sub i with h1 | h1
      · exact h1
      · exact absurd h1 hi.2.2.1
    have hpi := hct.2 i (by omega)
    have hsrt := List.pairwise_cons.mp hsorted
    -- abbreviations
    have hclen := hok.len
    have hcci : cct.getD (ct.getD i 0) 0 ≠ 0 := fun e => hi.2.2.1 ((hok.both i (by omega)).mpr e)
    unfold pkLoop at h
    simp only [bind, Except.bind, pure, Except.pure] at h
    rw [hcct, hrbeq] at h
    split at h
    · cases h
    · rename_i k hk
      have hsc := scanK_spec cct i lb rbd (cct.toArray.size + 2) (rbd - 1) k (by omega) (by simp; omega) hk
      rw [rdNat_toArray cct (i : Int) (by omega) (by simp; omega)] at h
      simp only [Int.toNat_natCast] at h
      split at h
      · cases h
      · rename_i trip htrip
        obtain ⟨x, lb', rbd'⟩ := trip
        simp only at h
        split at h
        · rename_i hx122
          split at h
          · cases h
          · rename_i r hr
            have hrv := rdInt_ok_inv hr
            have hx0 : 0 ≤ x := hrv.1
            have hx25 : x ≤ 25 := by omega
            have hxn : x.toNat < 26 := by omega
            split at h
            · cases h
            · rename_i ss1 h1
              split at h
              · cases h
              · rename_i ss2 h2
                split at h
                · cases h
                · rename_i cct1 hc1
                  rw [rdNat_toArray ct (i : Int) (by omega) (by simp; rw [hct.1]; omega)] at h
                  simp only [Int.toNat_natCast] at h
                  have hw1 := wrNat_toList hc1
                  simp only [Int.toNat_natCast] at hw1
                  rw [hw1.2.2] at h
                  split at h
                  · cases h
                  · rename_i cct2 hc2
                    have hw2 := wrNat_toList hc2
                    simp only [Int.toNat_natCast] at hw2
                    rw [hw2.2.2, hci] at h
                    -- the new tables
                    have w1 := wrSs_ok_inv h1
                    have w2 := wrSs_ok_inv h2
                    have e1 : ((i : Int) - 1).toNat = i - 1 := by omega
                    have e2 : ((ct.getD i 0 : Nat) : Int) - 1 = ((ct.getD i 0 - 1 : Nat) : Int) := by omega
                    rw [e1] at w1
                    rw [hci, e2, Int.toNat_natCast] at w2
                    have hl1 : (x + 65).toNat = 65 + x.toNat := by omega
                    have hl2 : (x + 97).toNat = 97 + x.toNat := by omega
                    rw [hl1] at w1; rw [hl2] at w2
                    have hne12 : i - 1 ≠ ct.getD i 0 - 1 := by omega
                    -- reading cct2
                    have hilen : i < cct.length := by rw [hclen]; omega
                    have hcilen : ct.getD i 0 < (cct.set i 0).length := by rw [List.length_set, hclen]; omega
                    have rd2_i : ((cct.set i 0).set (ct.getD i 0) 0).getD i 0 = 0 := by
                      rw [getD_set_ne _ _ _ _ _ (by omega), getD_set_self _ _ _ _ hilen]
                    have rd2_ci : ((cct.set i 0).set (ct.getD i 0) 0).getD (ct.getD i 0) 0 = 0 :=
                      getD_set_self _ _ _ _ hcilen
                    have rd2_o : ∀ p, p ≠ i → p ≠ ct.getD i 0 → ((cct.set i 0).set (ct.getD i 0) 0).getD p 0 = cct.getD p 0 := by
                      intro p h1' h2'
                      rw [getD_set_ne _ _ _ _ _ (fun e => h2' e.symm), getD_set_ne _ _ _ _ _ (fun e => h1' e.symm)]
                    -- the facts of the branch taken: letter x is free at i, chain for the rest
                    have hrl : r = rb.getD x.toNat 0 := by
                      have h' := rdInt_toList rb x hx0 (by rw [linv.rblen]; exact hxn)
                      rw [h'] at hr; injection hr with hr; exact hr.symm
                    have hcisym : ct.getD (ct.getD i 0) 0 = i := hpi.2.2.2.2.1
                    -- what the branch taken (new pseudoknot / continued pseudoknot) provides
                    have hbr : 0 ≤ lb' ∧ lb' < rbd' ∧ rbd' ≤ (n : Int) ∧ ((ct.getD i 0 : Nat) : Int) ≤ rbd' ∧
                        ∃ lo : Nat, lo ≤ i ∧
                          (∀ k2 : Int, ((ct.getD i 0 : Nat) : Int) < k2 → k2 < rbd' →
                              (cct.getD k2.toNat 0 = 0 ∨ (cct.getD k2.toNat 0 : Int) > rbd')) ∧
                          (∀ p, 1 ≤ p → p < ct.getD p 0 → cct.getD p 0 = 0 →
                              ssAt st.ss (p-1) = UInt8.ofNat (65 + x.toNat) →
                              (ct.getD p 0 ≤ lo ∨ (lo ≤ p ∧ p ≤ i ∧ ct.getD i 0 ≤ ct.getD p 0))) := by
                      by_cases hkl : k = lb
                      · -- a new pseudoknot: the letter comes from the rb[] search
                        have hkb : (k == lb) = true := by simp [hkl]
                        rw [if_pos hkb] at htrip
                        split at htrip
                        · cases htrip
                        · rename_i xb hxb
                          rw [rdNat_toArray cct (j : Int) (by omega) (by simp; omega)] at htrip
                          simp only [Int.toNat_natCast, hcj, hci] at htrip
                          injection htrip with htrip
                          injection htrip with hx1 htrip
                          injection htrip with hlb1 hrb1
                          subst hx1
                          have hxpk0 : 0 ≤ xpk + 1 := by
                            rcases chain with hc | hc
                            · omega
                            · omega
                          have hb := bumpXpk_spec rb.toArray i 64 (xpk+1) xb hxpk0 hxb
                          have hrbx : rb.getD xb.toNat 0 ≤ (i : Int) := by
                            have := hb.2 (by omega)
                            rw [toArray_getD_int] at this; exact this
                          refine ⟨by rw [← hlb1]; split <;> omega, by rw [← hlb1, ← hrb1]; split <;> omega,
                                  by rw [← hrb1]; omega, by rw [← hrb1]; exact Int.le_refl _, i, Nat.le_refl _, ?_, ?_⟩
                          · intro k2 h1' h2'; rw [← hrb1] at h2'; omega
                          · intro p hp1 hp2 hp3 hp4
                            left
                            obtain ⟨xp, hxp, hc1', _, hrbp⟩ := linv.lab p hp1 hp2 hp3
                            rw [hc1'] at hp4
                            have := ofNat_letter_inj xp xb.toNat hxp hxn hp4
                            subst this
                            omega
                      · -- the pseudoknot is continued with the same letter
                        have hkb : (k == lb) = false := by simp [hkl]
                        rw [hkb] at htrip
                        simp only [Bool.false_eq_true, if_false] at htrip
                        injection htrip with htrip
                        injection htrip with hx1 htrip
                        injection htrip with hlb1 hrb1
                        subst hx1 hlb1 hrb1
                        rcases hsc with hsc | hsc
                        · exact absurd hsc hkl
                        · obtain ⟨hk1, hk2, hk3, hk4, hk5, hk6, hk7⟩ := hsc
                          -- k is the partner of i
                          have hkct : ct.getD k.toNat 0 = i := by
                            rcases hok.sub k.toNat with h1' | h1'
                            · rw [← h1']; exact hk4
                            · rw [h1'] at hk4; exact absurd hk4.symm hk5
                          have hkci : k.toNat = ct.getD i 0 := by
                            have := (hct.2 k.toNat (by rw [hkct]; exact hk5)).2.2.2.2.1
                            rw [hkct] at this; exact this.symm
                          rcases chain with hc | hc
                          · omega
                          · obtain ⟨hxp0, lo, am, lastb, K1, K3, Kam, Klast, Klb, Klo⟩ := hc
                            have ham : am < i := Kam i (by simp)
                            -- the partner lies below the last end of the chain
                            have hcilt : ct.getD i 0 < lastb := by
                              have hne : ct.getD i 0 ≠ lastb := by
                                intro e; rw [← e] at Klast; exact hcci Klast
                              rcases Nat.lt_or_ge (ct.getD i 0) lastb with h1' | h1'
                              · exact h1'
                              · exfalso
                                have hk' : k = ((ct.getD i 0 : Nat) : Int) := by omega
                                have := K1 k (by omega) (by omega)
                                rw [hkci] at this
                                rcases this with h2' | h2'
                                · exact hcci h2'
                                · rw [← hkci, hk4] at h2'; omega
                            refine ⟨hlb0, hlbr, hrbn, by omega, lo, by omega, ?_, ?_⟩
                            · intro k2 h1' h2'
                              exact hk7 k2 (by omega) (by omega)
                            · intro p hp1 hp2 hp3 hp4
                              rcases K3 p hp1 hp2 hp3 hp4 with h1' | h1'
                              · exact Or.inl h1'
                              · exact Or.inr ⟨h1'.1, by omega, by omega⟩
                    obtain ⟨hlb0', hlbr', hrbn', hcirb, lo, hlo, PC1, PC3⟩ := hbr
                    -- every old lettered pair with this letter lies left of i or around (i, ct i)
                    have hF : ∀ p, 1 ≤ p → p < ct.getD p 0 → cct.getD p 0 = 0 →
                        ssAt st.ss (p-1) = UInt8.ofNat (65 + x.toNat) →
                        (ct.getD p 0 ≤ i ∨ (p < i ∧ ct.getD i 0 < ct.getD p 0)) := by
                      intro p hp1 hp2 hp3 hp4
                      rcases PC3 p hp1 hp2 hp3 hp4 with h1' | h1'
                      · left; omega
                      · right
                        have hpne : p ≠ i := by intro e; rw [e] at hp3; exact hi.2.2.1 hp3
                        have hcne : ct.getD p 0 ≠ ct.getD i 0 := by
                          intro e
                          have h3' := (hct.2 p (by omega)).2.2.2.2.1
                          rw [e, hcisym] at h3'; exact hpne h3'.symm
                        omega
                    -- the new working table
                    have hok2 : CctOk n ct ((cct.set i 0).set (ct.getD i 0) 0) := {
                      len := by simp [hclen]
                      sub := by
                        intro p
                        by_cases h1' : p = i
                        · right; rw [h1']; exact rd2_i
                        · by_cases h2' : p = ct.getD i 0
                          · right; rw [h2']; exact rd2_ci
                          · rw [rd2_o p h1' h2']; exact hok.sub p
                      both := by
                        intro p hp
                        have hpp := hct.2 p hp
                        by_cases h1' : p = i
                        · subst h1'; rw [rd2_i, rd2_ci]
                        · by_cases h2' : p = ct.getD i 0
                          · subst h2'; rw [rd2_ci, hcisym, rd2_i]
                          · have h3' : ct.getD p 0 ≠ i := by
                              intro e; apply h2'
                              have := hpp.2.2.2.2.1; rw [e] at this; exact this.symm
                            have h4' : ct.getD p 0 ≠ ct.getD i 0 := by
                              intro e; apply h1'
                              have := hpp.2.2.2.2.1; rw [e, hcisym] at this; exact this.symm
                            rw [rd2_o p h1' h2', rd2_o _ h3' h4']; exact hok.both p hp }
                    -- old lettered pairs keep their cells
                    have hcell : ∀ p, 1 ≤ p → p < ct.getD p 0 → cct.getD p 0 = 0 →
                        ssAt ss2 (p-1) = ssAt st.ss (p-1) ∧ ssAt ss2 (ct.getD p 0 - 1) = ssAt st.ss (ct.getD p 0 - 1) := by
                      intro p hp1 hp2 hp3
                      have hpne : p ≠ i := by intro e; rw [e] at hp3; exact hi.2.2.1 hp3
                      have hpne2 : p ≠ ct.getD i 0 := by intro e; rw [e] at hp3; exact hcci hp3
                      have h3' : ct.getD p 0 ≠ i := by
                        intro e
                        have := (hct.2 p (by omega)).2.2.2.2.1; rw [e] at this; exact hpne2 this.symm
                      have h4' : ct.getD p 0 ≠ ct.getD i 0 := by
                        intro e
                        have := (hct.2 p (by omega)).2.2.2.2.1; rw [e, hcisym] at this; exact hpne this.symm
                      constructor
                      · rw [w2.2.2.2.2 _ (by omega), w1.2.2.2.2 _ (by omega)]
                      · rw [w2.2.2.2.2 _ (by omega), w1.2.2.2.2 _ (by omega)]
                    have hcell_i : ssAt ss2 (i-1) = UInt8.ofNat (65 + x.toNat) := by
                      rw [w2.2.2.2.2 _ hne12, w1.2.2.2.1]
                    have hcell_ci : ssAt ss2 (ct.getD i 0 - 1) = UInt8.ofNat (97 + x.toNat) := w2.2.2.2.1
                    -- classification of the lettered left ends of the new table
                    have hcls : ∀ p, p < ct.getD p 0 → ((cct.set i 0).set (ct.getD i 0) 0).getD p 0 = 0 →
                        p = i ∨ (p ≠ i ∧ cct.getD p 0 = 0) := by
                      intro p hp2 hp3
                      by_cases h1' : p = i
                      · exact Or.inl h1'
                      · right
                        have h2' : p ≠ ct.getD i 0 := by
                          intro e; rw [e, hcisym] at hp2; omega
                        rw [rd2_o p h1' h2'] at hp3
                        exact ⟨h1', hp3⟩
                    -- the new right bounds
                    have hrbset : (if ((ct.getD i 0 : Nat) : Int) > r then rb.toArray.setIfInBounds x.toNat ((ct.getD i 0 : Nat) : Int) else rb.toArray)
                        = (if ((ct.getD i 0 : Nat) : Int) > r then rb.set x.toNat ((ct.getD i 0 : Nat) : Int) else rb).toArray := by
                      split <;> simp
                    have hrb'len : (if ((ct.getD i 0 : Nat) : Int) > r then rb.set x.toNat ((ct.getD i 0 : Nat) : Int) else rb).length = 26 := by
                      split <;> simp [linv.rblen]
                    have hrb'ge : ∀ y, rb.getD y 0 ≤ (if ((ct.getD i 0 : Nat) : Int) > r then rb.set x.toNat ((ct.getD i 0 : Nat) : Int) else rb).getD y 0 := by
                      intro y
                      split
                      · rename_i hgt
                        by_cases hy : x.toNat = y
                        · subst hy; rw [getD_set_self _ _ _ _ (by rw [linv.rblen]; exact hxn)]; omega
                        · rw [getD_set_ne _ _ _ _ _ hy]; exact Int.le_refl _
                      · exact Int.le_refl _
                    have hrb'x : ((ct.getD i 0 : Nat) : Int) ≤ (if ((ct.getD i 0 : Nat) : Int) > r then rb.set x.toNat ((ct.getD i 0 : Nat) : Int) else rb).getD x.toNat 0 := by
                      split
                      · rw [getD_set_self _ _ _ _ (by rw [linv.rblen]; exact hxn)]; exact Int.le_refl _
                      · omega
                    have linv2 : LInv ct ((cct.set i 0).set (ct.getD i 0) 0) ss2
                        (if ((ct.getD i 0 : Nat) : Int) > r then rb.set x.toNat ((ct.getD i 0 : Nat) : Int) else rb) := {
                      rblen := hrb'len
                      lab := by
                        intro p hp1 hp2 hp3
                        rcases hcls p hp2 hp3 with h1' | ⟨_, h1'⟩
                        · subst h1'
                          exact ⟨x.toNat, hxn, hcell_i, hcell_ci, hrb'x⟩
                        · obtain ⟨xp, hxp, hc1', hc2', hrbp⟩ := linv.lab p hp1 hp2 h1'
                          have hc := hcell p hp1 hp2 h1'
                          exact ⟨xp, hxp, by rw [hc.1]; exact hc1', by rw [hc.2]; exact hc2', Int.le_trans hrbp (hrb'ge xp)⟩
                      non := by
                        intro p p' hp1 hp2 hp3 hp2' hp3' hlt hlt2 hsame
                        rcases hcls p hp2 hp3 with h1' | ⟨hpi', h1'⟩
                        · subst h1'
                          rcases hcls p' hp2' hp3' with h2' | ⟨_, h2'⟩
                          · omega
                          · -- an old pair with the same letter cannot start inside (i, ct i)
                            exfalso
                            have hc := hcell p' (by omega) hp2' h2'
                            rw [hcell_i, hc.1] at hsame
                            rcases hF p' (by omega) hp2' h2' hsame.symm with h3' | h3' <;> omega
                        · rcases hcls p' hp2' hp3' with h2' | ⟨_, h2'⟩
                          · subst h2'
                            have hc := hcell p hp1 hp2 h1'
                            rw [hcell_i, hc.1] at hsame
                            rcases hF p hp1 hp2 h1' hsame with h3' | h3' <;> omega
                          · have hc := hcell p hp1 hp2 h1'
                            have hc' := hcell p' (by omega) hp2' h2'
                            rw [hc.1, hc'.1] at hsame
                            exact linv.non p p' hp1 hp2 h1' hp2' h2' hlt hlt2 hsame }
                    -- items of the rest
                    have hitems' : ∀ a ∈ rest, i0 < a ∧ a < j ∧ ((cct.set i 0).set (ct.getD i 0) 0).getD a 0 ≠ 0 ∧ j < ct.getD a 0 := by
                      intro a ha
                      have h1' := hitems a (by simp [ha])
                      have h2' : i < a := hsrt.1 a ha
                      rw [rd2_o a (by omega) (by omega)]
                      exact h1'
                    have hcj' : ((cct.set i 0).set (ct.getD i 0) 0).getD j 0 = i0 := by
                      rw [rd2_o j (by omega) (by omega)]; exact hcj
                    have hle2 : ∀ q, ((cct.set i 0).set (ct.getD i 0) 0).getD q 0 = cct.getD q 0 ∨
                        ((cct.set i 0).set (ct.getD i 0) 0).getD q 0 = 0 := by
                      intro q
                      by_cases h1' : q = i
                      · right; rw [h1']; exact rd2_i
                      · by_cases h2' : q = ct.getD i 0
                        · right; rw [h2']; exact rd2_ci
                        · left; exact rd2_o q h1' h2'
                    have chain' : Chain ct ((cct.set i 0).set (ct.getD i 0) 0) ss2 rest lb' rbd' x := by
                      right
                      refine ⟨hx0, lo, i, ct.getD i 0, ?_, ?_, fun a ha => hsrt.1 a ha, rd2_ci, hcirb, hlo⟩
                      · intro k2 h1' h2'
                        rcases hle2 k2.toNat with h3' | h3'
                        · rw [h3']; exact PC1 k2 h1' h2'
                        · left; exact h3'
                      · intro p hp1 hp2 hp3 hp4
                        rcases hcls p hp2 hp3 with h1' | ⟨_, h1'⟩
                        · subst h1'; right; exact ⟨hlo, Nat.le_refl _, Nat.le_refl _⟩
                        · have hc := hcell p hp1 hp2 h1'
                          rw [hc.1] at hp4
                          exact PC3 p hp1 hp2 h1' hp4
                    rw [hrbset] at h
                    have ih := pkLoopG n ct hct j i0 hi0 rest lb' rbd' x _ st' _ _ rfl rfl hok2
                      (by show ss2.size = n; rw [w2.2.2.1, w1.2.2.1, hsz]) linv2 hsrt.2 hitems' hcj' chain' hlb0' hlbr' hrbn' h
                    obtain ⟨cct', rb', g1, g2, g3, g4, g5, g6, g7, g8, g9⟩ := ih
                    refine ⟨cct', rb', g1, g2, g3, g4, g5, g6, g7, ?_, ?_⟩
                    · intro p
                      rw [g8 p]
                      by_cases hc1' : p ∈ rest ∨ ∃ a ∈ rest, p = ct.getD a 0
                      · rw [if_pos hc1', if_pos]
                        rcases hc1' with h1' | ⟨a, ha, h1'⟩
                        · exact Or.inl (List.mem_cons_of_mem _ h1')
                        · exact Or.inr ⟨a, List.mem_cons_of_mem _ ha, h1'⟩
                      · rw [if_neg hc1']
                        by_cases h1' : p = i
                        · rw [h1', rd2_i, if_pos (Or.inl (by simp))]
                        · by_cases h2' : p = ct.getD i 0
                          · rw [h2', rd2_ci, if_pos (Or.inr ⟨i, by simp, rfl⟩)]
                          · rw [rd2_o p h1' h2', if_neg]
                            intro hc2'
                            rcases hc2' with h3' | ⟨a, ha, h3'⟩
                            · simp only [List.mem_cons] at h3'
                              rcases h3' with h3' | h3'
                              · exact h1' h3'
                              · exact hc1' (Or.inl h3')
                            · simp only [List.mem_cons] at ha
                              rcases ha with ha | ha
                              · subst ha; exact h2' h3'
                              · exact hc1' (Or.inr ⟨a, ha, h3'⟩)
                    · intro q hq1 hq2
                      simp only [List.mem_cons, not_or] at hq1
                      rw [g9 q hq1.2 (fun a ha => hq2 a (List.mem_cons_of_mem _ ha))]
                      show ssAt ss2 q = ssAt st.ss q
                      have h3' := hq2 i (by simp)
                      rw [w2.2.2.2.2 q (by omega), w1.2.2.2.2 q (by omega)]
        · cases h

end EaselModel.Msa
