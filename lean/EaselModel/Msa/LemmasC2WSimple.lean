import EaselModel.Msa.LemmasC2W
/-! Lemmas: the same nested round trip for `esl_ct2simplewuss` (`<>` for every pair, `.` for unpaired, no face markers). -/
namespace EaselModel.Msa

/-- pop loop of `esl_ct2simplewuss` at a right end of a nested table -/
theorem popLoopS_nested (n : Nat) (ct : List Nat) (hlen : ct.length = n + 1) (j i : Nat) (below : List Int)
    (hj : 1 ≤ j ∧ j ≤ n) (hi : 1 ≤ i ∧ i < j) (hij : ct.getD i 0 = j) (hji : ct.getD j 0 = i) :
    ∀ (above : List Int) (nf : Nat) (mf : Int) (st : C2W) (res : Bool × List Int × C2W),
      (∀ a ∈ above, 0 ≤ a ∧ 1 ≤ a.toNat ∧ a.toNat ≤ n ∧ ct.getD a.toNat 0 = 0) →
      st.cct = ct.toArray → st.auxpk = [] → st.ss.size = n →
      popLoop true ct.toArray j (above ++ (i : Int) :: below) nf mf st = .ok res →
      res.1 = true ∧ res.2.1 = below ∧
      res.2.2.cct = ct.toArray ∧ res.2.2.auxpk = [] ∧ res.2.2.auxss = st.auxss ∧ res.2.2.ss.size = n ∧
      (isOpenBr (ssAt res.2.2.ss (i-1)) = true ∧ ssAt res.2.2.ss (j-1) = closerOf (ssAt res.2.2.ss (i-1))) ∧
      (∀ q, q ≠ i - 1 → q ≠ j - 1 → (ct.getD (q+1) 0 ≠ 0 ∨ n ≤ q) → ssAt res.2.2.ss q = ssAt st.ss q) ∧
      (∀ q, q < n → ct.getD (q+1) 0 = 0 → isUnpairedSym (ssAt st.ss q) = true → isUnpairedSym (ssAt res.2.2.ss q) = true) ∧
      res.2.2.reached = st.reached + 1
  | [], nf, mf, st, res, _, hcct, hpk, hsz, h => by
    simp only [List.nil_append] at h
    unfold popLoop at h
    have hnot : ¬ ((!true && decide ((i : Int) < 0)) = true) := by simp
    rw [if_neg hnot] at h
    simp only [bind, Except.bind, pure, Except.pure] at h
    rw [hcct, rdNat_toArray ct (i : Int) (by omega) (by simp; omega)] at h
    simp only [Int.toNat_natCast, hij, beq_self_eq_true, if_true] at h
    split at h
    · cases h
    · rename_i ss1 h1
      split at h
      · cases h
      · rename_i ss2 h2
        injection h with h; subst h
        have w1 := wrSs_ok_inv h1
        have w2 := wrSs_ok_inv h2
        have e1 : ((i : Int) - 1).toNat = i - 1 := by omega
        have e2 : ((j : Int) - 1).toNat = j - 1 := by omega
        rw [e1] at w1; rw [e2] at w2
        have hne : i - 1 ≠ j - 1 := by omega
        have r_i : ssAt ss2 (i-1) = chLt := by rw [w2.2.2.2.2 _ hne, w1.2.2.2.1]
        have r_j : ssAt ss2 (j-1) = chGt := w2.2.2.2.1
        refine ⟨rfl, rfl, rfl, hpk, rfl, by show ss2.size = n; rw [w2.2.2.1, w1.2.2.1, hsz], ?_, ?_, ?_, rfl⟩
        · show isOpenBr (ssAt ss2 (i-1)) = true ∧ ssAt ss2 (j-1) = closerOf (ssAt ss2 (i-1))
          rw [r_i, r_j]; decide
        · intro q hq1 hq2 _
          show ssAt ss2 q = ssAt st.ss q
          rw [w2.2.2.2.2 q hq2, w1.2.2.2.2 q hq1]
        · intro q hqn hq0 hqu
          show isUnpairedSym (ssAt ss2 q) = true
          have hq1 : q ≠ i - 1 := by
            intro e; rw [e] at hq0
            have e' : i - 1 + 1 = i := by omega
            rw [e', hij] at hq0; omega
          have hq2 : q ≠ j - 1 := by
            intro e; rw [e] at hq0
            have e' : j - 1 + 1 = j := by omega
            rw [e', hji] at hq0; omega
          rw [w2.2.2.2.2 q hq2, w1.2.2.2.2 q hq1]; exact hqu
  | a :: above, nf, mf, st, res, habove, hcct, hpk, hsz, h => by
    obtain ⟨hnn, h1, h2, h3⟩ := habove a (by simp)
    have habove' : ∀ a' ∈ above, 0 ≤ a' ∧ 1 ≤ a'.toNat ∧ a'.toNat ≤ n ∧ ct.getD a'.toNat 0 = 0 :=
      fun a' h' => habove a' (by simp [h'])
    simp only [List.cons_append] at h
    unfold popLoop at h
    have hc : ¬ ((!true && decide (a < 0)) = true) := by simp
    rw [if_neg hc] at h
    simp only [bind, Except.bind, pure, Except.pure] at h
    rw [hcct, rdNat_toArray ct a hnn (by omega), h3] at h
    have hne : ((0:Nat) == j) = false := by simp; omega
    simp only [hne, Bool.false_eq_true, if_false, beq_self_eq_true, if_true] at h
    split at h
    · cases h
    · rename_i ss1 h1'
      have w := wrSs_ok_inv h1'
      have ea : (a - 1).toNat = a.toNat - 1 := by omega
      rw [ea] at w
      have ih := popLoopS_nested n ct hlen j i below hj hi hij hji above nf mf
        { ss := ss1, cct := ct.toArray, rb := st.rb, auxpk := st.auxpk, auxss := st.auxss, reached := st.reached }
        res habove' rfl hpk (by show ss1.size = n; rw [w.2.2.1, hsz]) h
      obtain ⟨g1, g2, g3, g4, g5, g6, g7, g8, g9, g10⟩ := ih
      refine ⟨g1, g2, g3, g4, g5, g6, g7, ?_, ?_, g10⟩
      · intro q hq1 hq2 hq3
        rw [g8 q hq1 hq2 hq3]
        show ssAt ss1 q = ssAt st.ss q
        apply w.2.2.2.2
        intro e
        rcases hq3 with hq3 | hq3
        · apply hq3; rw [e]
          have : a.toNat - 1 + 1 = a.toNat := by omega
          rw [this]; exact h3
        · omega
      · intro q hqn hq0 hqu
        apply g9 q hqn hq0
        show isUnpairedSym (ssAt ss1 q) = true
        by_cases e : q = a.toNat - 1
        · rw [e, w.2.2.2.1]; decide
        · rw [w.2.2.2.2 q e]; exact hqu

theorem popLoopS_nested_noerr (n : Nat) (ct : List Nat) (hlen : ct.length = n + 1) (j i : Nat) (below : List Int)
    (hj : 1 ≤ j ∧ j ≤ n) (hi : 1 ≤ i ∧ i < j) (hij : ct.getD i 0 = j) :
    ∀ (above : List Int) (nf : Nat) (mf : Int) (st : C2W) (e : WErr),
      (∀ a ∈ above, 0 ≤ a ∧ 1 ≤ a.toNat ∧ a.toNat ≤ n ∧ ct.getD a.toNat 0 = 0) →
      st.cct = ct.toArray → st.ss.size = n →
      popLoop true ct.toArray j (above ++ (i : Int) :: below) nf mf st ≠ .error e
  | [], nf, mf, st, e, _, hcct, hsz, h => by
    simp only [List.nil_append] at h
    unfold popLoop at h
    have hnot : ¬ ((!true && decide ((i : Int) < 0)) = true) := by simp
    rw [if_neg hnot] at h
    simp only [bind, Except.bind, pure, Except.pure] at h
    rw [hcct, rdNat_toArray ct (i : Int) (by omega) (by simp; omega)] at h
    simp only [Int.toNat_natCast, hij, beq_self_eq_true, if_true] at h
    obtain ⟨ss1, h1⟩ := wrSs_ok_of_range st.ss ((i : Int) - 1) chLt (by omega) (by omega)
    rw [h1] at h
    simp only at h
    have hs1 := (wrSs_ok_inv h1).2.2.1
    obtain ⟨ss2, h2⟩ := wrSs_ok_of_range ss1 ((j : Int) - 1) chGt (by omega) (by omega)
    rw [h2] at h
    cases h
  | a :: above, nf, mf, st, e, habove, hcct, hsz, h => by
    obtain ⟨hnn, h1, h2, h3⟩ := habove a (by simp)
    have habove' : ∀ a' ∈ above, 0 ≤ a' ∧ 1 ≤ a'.toNat ∧ a'.toNat ≤ n ∧ ct.getD a'.toNat 0 = 0 :=
      fun a' h' => habove a' (by simp [h'])
    simp only [List.cons_append] at h
    unfold popLoop at h
    have hc : ¬ ((!true && decide (a < 0)) = true) := by simp
    rw [if_neg hc] at h
    simp only [bind, Except.bind, pure, Except.pure] at h
    rw [hcct, rdNat_toArray ct a hnn (by omega), h3] at h
    have hne : ((0:Nat) == j) = false := by simp; omega
    simp only [hne, Bool.false_eq_true, if_false, beq_self_eq_true, if_true] at h
    obtain ⟨ss1, h1'⟩ := wrSs_ok_of_range st.ss (a - 1) (0x2e : UInt8) (by omega) (by omega)
    rw [h1'] at h
    simp only at h
    exact popLoopS_nested_noerr n ct hlen j i below hj hi hij above nf mf
      { ss := ss1, cct := ct.toArray, rb := st.rb, auxpk := st.auxpk, auxss := st.auxss, reached := st.reached }
      e habove' rfl (by show ss1.size = n; rw [(wrSs_ok_inv h1').2.2.1, hsz]) h

/-- `esl_ct2simplewuss` never pushes face markers -/
def NoMark (pda : List Int) : Prop := ∀ a ∈ pda, 0 ≤ a

theorem cinvS_right_end (n : Nat) (ct : List Nat) (hct : CtOk n ct) (hn : Nested ct) {j : Nat} {pda : List Int} {st : C2W}
    (inv : CInv n ct j pda st) (hnm : NoMark pda) (hj1 : 1 ≤ j) (hjn : j ≤ n) (h0 : ct.getD j 0 ≠ 0)
    (hleft : ¬ j < ct.getD j 0) :
    ∃ above below, pda = above ++ ((ct.getD j 0 : Nat) : Int) :: below ∧
      (∀ a ∈ above, 0 ≤ a ∧ 1 ≤ a.toNat ∧ a.toNat ≤ n ∧ ct.getD a.toNat 0 = 0) ∧
      (1 ≤ ct.getD j 0 ∧ ct.getD j 0 < j) ∧ ct.getD (ct.getD j 0) 0 = j ∧ NoMark below ∧
      ∀ res, popLoop true ct.toArray j pda 0 (-1) st = .ok res →
        res.1 = true ∧ res.2.2.auxpk = [] ∧ res.2.1 = below ∧ CInv n ct (j+1) below res.2.2 := by
  have hpj := hct.2 j h0
  have hi : 1 ≤ ct.getD j 0 ∧ ct.getD j 0 < j := ⟨hpj.2.2.1, by omega⟩
  have hij : ct.getD (ct.getD j 0) 0 = j := hpj.2.2.2.2.1
  have himem := inv.lefts (ct.getD j 0) hi.1 hi.2 (by rw [hij]; exact Nat.le_refl _)
  obtain ⟨above, below, hsplit⟩ := List.append_of_mem himem
  have hsorted := inv.sorted
  rw [hsplit, filter_nonneg_append, List.pairwise_append] at hsorted
  have habove0 : ∀ a ∈ above, (a < 0 ∧ -4 ≤ a) ∨ (0 ≤ a ∧ 1 ≤ a.toNat ∧ a.toNat ≤ n ∧ ct.getD a.toNat 0 = 0) := by
    intro a ha
    have hmem : a ∈ pda := by rw [hsplit]; simp [ha]
    rcases inv.ent a hmem with h1 | h1
    · exact Or.inl h1
    · right
      refine ⟨h1.1, h1.2.1, by omega, ?_⟩
      rcases Nat.eq_zero_or_pos (ct.getD a.toNat 0) with hz | hz
      · exact hz
      · exfalso
        have hgt : a > (ct.getD j 0 : Int) :=
          hsorted.2.2 a (by simp [List.mem_filter, ha, h1.1]) _ (by simp)
        have hge := inv.paired a hmem h1.1 (by omega)
        have hne : ct.getD a.toNat 0 ≠ j := by
          intro e
          have := (hct.2 a.toNat (by omega)).2.2.2.2.1
          rw [e] at this; omega
        have := hn (ct.getD j 0) a.toNat (by rw [hij]; omega) (by omega) (by omega) (by rw [hij]; omega)
        rw [hij] at this; omega
  have habove : ∀ a ∈ above, 0 ≤ a ∧ 1 ≤ a.toNat ∧ a.toNat ≤ n ∧ ct.getD a.toNat 0 = 0 := by
    intro a ha
    rcases habove0 a ha with h1 | h1
    · have := hnm a (by rw [hsplit]; simp [ha]); omega
    · exact h1
  have hnmb : NoMark below := fun a ha => hnm a (by rw [hsplit]; simp [ha])
  refine ⟨above, below, hsplit, habove, hi, hij, hnmb, ?_⟩
  intro res hres
  rw [hsplit] at hres
  obtain ⟨found, pda1, st1⟩ := res
  have sp := popLoopS_nested n ct hct.1 j (ct.getD j 0) below ⟨hj1, hjn⟩ hi hij rfl above 0 (-1) st _
    habove inv.cct inv.nopk inv.sssize hres
  simp only at sp
  obtain ⟨hfound, hpda1, hcct1, hpk1, haux1, hsz1, hbr, hsame, hunp, hreach⟩ := sp
  subst hfound
  refine ⟨rfl, hpk1, hpda1, ?_⟩
  show CInv n ct (j+1) below st1
  have hbelow_lt : ∀ b ∈ below, 0 ≤ b → b < (ct.getD j 0 : Int) := by
    intro b hb h0b
    have := (List.pairwise_cons.mp hsorted.2.1).1 b (by simp [List.mem_filter, hb, h0b])
    exact this
  exact {
    cct := hcct1, nopk := hpk1, noaux := by rw [haux1]; exact inv.noaux, sssize := hsz1
    reached := by
      rw [rightEnds_succ, if_pos ⟨h0, by omega⟩, hreach, inv.reached]
    ent := by
      intro a ha
      rcases inv.ent a (by rw [hsplit]; simp [ha]) with h1 | h1
      · exact Or.inl h1
      · exact Or.inr ⟨h1.1, h1.2.1, by omega⟩
    sorted := (List.pairwise_cons.mp hsorted.2.1).2
    lefts := by
      intro p h1 h2 h3
      have hpj' : p ≠ j := by intro e; rw [e] at h3; omega
      have hm := inv.lefts p h1 (by omega) (by omega)
      rw [hsplit, List.mem_append, List.mem_cons] at hm
      rcases hm with hm | hm | hm
      · exfalso
        have hx := habove _ hm
        have := hx.2.2.2; rw [Int.toNat_natCast] at this; omega
      · exfalso
        have : p = ct.getD j 0 := by omega
        rw [this, hij] at h3; omega
      · exact hm
    paired := by
      intro a ha h0a hne
      have hold := inv.paired a (by rw [hsplit]; simp [ha]) h0a hne
      have hx : ct.getD a.toNat 0 ≠ j := by
        intro e
        have := (hct.2 a.toNat hne).2.2.2.2.1
        rw [e] at this
        have hlt := hbelow_lt a ha h0a
        omega
      omega
    l1 := fun q hq h0q => hunp q hq h0q (inv.l1 q hq h0q)
    l2 := by
      intro j0 h1 h2 h3 h4
      by_cases hp : j0 = j
      · subst hp; exact hbr
      · have hold := inv.l2 j0 h1 (by omega) h3 h4
        have hp0 := hct.2 j0 h3
        have hi0 : ct.getD (ct.getD j0 0) 0 = j0 := hp0.2.2.2.2.1
        have e1 : ssAt st1.ss (ct.getD j0 0 - 1) = ssAt st.ss (ct.getD j0 0 - 1) := by
          apply hsame
          · intro e
            have : ct.getD j0 0 = ct.getD j 0 := by omega
            rw [this, hij] at hi0; omega
          · omega
          · left
            have : ct.getD j0 0 - 1 + 1 = ct.getD j0 0 := by omega
            rw [this, hi0]; omega
        have e2 : ssAt st1.ss (j0 - 1) = ssAt st.ss (j0 - 1) := by
          apply hsame
          · intro e
            have : j0 = ct.getD j 0 := by omega
            rw [this, hij] at h4; omega
          · omega
          · left
            have : j0 - 1 + 1 = j0 := by omega
            rw [this]; exact h3
        rw [e1, e2]; exact hold }

theorem cinvS_push_nomark {pda : List Int} (j : Nat) (h : NoMark pda) : NoMark ((j : Int) :: pda) := by
  intro a ha
  simp only [List.mem_cons] at ha
  rcases ha with rfl | ha
  · omega
  · exact h a ha

theorem c2wMainS_nested (n : Nat) (ct : List Nat) (hct : CtOk n ct) (hn : Nested ct) :
    ∀ (fuel j : Nat) (pda : List Int) (st st' : C2W), n + 1 ≤ j + fuel → j ≤ n + 1 → 1 ≤ j → CInv n ct j pda st →
      NoMark pda → c2wMain true ct.toArray n fuel j pda st = .ok st' → ∃ pda', CInv n ct (n+1) pda' st' := by
  intro fuel
  induction fuel with
  | zero =>
    intro j pda st st' hf hju _ inv _ h
    simp only [c2wMain] at h
    injection h with h; subst h
    have : j = n + 1 := by omega
    subst this; exact ⟨pda, inv⟩
  | succ fuel ih =>
    intro j pda st st' hf hju hj1 inv hnm h
    unfold c2wMain at h
    by_cases hend : j > n
    · rw [if_pos hend] at h
      injection h with h; subst h
      have : j = n + 1 := by omega
      subst this; exact ⟨pda, inv⟩
    have hjn : j ≤ n := by omega
    rw [if_neg (by omega)] at h
    simp only [bind, Except.bind, pure, Except.pure] at h
    rw [inv.cct, rdNat_toArray ct (j : Int) (by omega) (by simp; rw [hct.1]; omega)] at h
    simp only [Int.toNat_natCast] at h
    by_cases h0 : ct.getD j 0 = 0
    · simp only [h0, beq_self_eq_true, if_true] at h
      exact ih (j+1) _ st st' (by omega) (by omega) (by omega) (cinv_push hct inv hj1 (Or.inl h0)) (cinvS_push_nomark j hnm) h
    · have hb : (ct.getD j 0 == 0) = false := by rw [beq_eq_false_iff_ne]; exact h0
      simp only [hb, Bool.false_eq_true, if_false] at h
      by_cases hleft : j < ct.getD j 0
      · rw [if_pos hleft] at h
        exact ih (j+1) _ st st' (by omega) (by omega) (by omega) (cinv_push hct inv hj1 (Or.inr hleft)) (cinvS_push_nomark j hnm) h
      · rw [if_neg hleft] at h
        obtain ⟨above, below, _, _, _, _, hnmb, hstep⟩ := cinvS_right_end n ct hct hn inv hnm hj1 hjn h0 hleft
        split at h
        · cases h
        · rename_i res hres
          obtain ⟨hfound, hpk1, hpda1, inv1⟩ := hstep res hres
          obtain ⟨found, pda1, st1⟩ := res
          simp only at hfound hpk1 hpda1 inv1 h
          subst hfound hpda1
          simp only [Bool.not_true, Bool.false_eq_true, if_false, hpk1] at h
          exact ih (j+1) pda1 st1 st' (by omega) (by omega) (by omega) inv1 hnmb h

theorem c2wMainS_nested_noerr (n : Nat) (ct : List Nat) (hct : CtOk n ct) (hn : Nested ct) :
    ∀ (fuel j : Nat) (pda : List Int) (st : C2W) (e : WErr), j ≤ n + 1 → 1 ≤ j → CInv n ct j pda st → NoMark pda →
      c2wMain true ct.toArray n fuel j pda st ≠ .error e := by
  intro fuel
  induction fuel with
  | zero => intro j pda st e _ _ _ _ h; simp only [c2wMain] at h; cases h
  | succ fuel ih =>
    intro j pda st e hju hj1 inv hnm h
    unfold c2wMain at h
    by_cases hend : j > n
    · rw [if_pos hend] at h; cases h
    have hjn : j ≤ n := by omega
    rw [if_neg (by omega)] at h
    simp only [bind, Except.bind, pure, Except.pure] at h
    rw [inv.cct, rdNat_toArray ct (j : Int) (by omega) (by simp; rw [hct.1]; omega)] at h
    simp only [Int.toNat_natCast] at h
    by_cases h0 : ct.getD j 0 = 0
    · simp only [h0, beq_self_eq_true, if_true] at h
      exact ih (j+1) _ st e (by omega) (by omega) (cinv_push hct inv hj1 (Or.inl h0)) (cinvS_push_nomark j hnm) h
    · have hb : (ct.getD j 0 == 0) = false := by rw [beq_eq_false_iff_ne]; exact h0
      simp only [hb, Bool.false_eq_true, if_false] at h
      by_cases hleft : j < ct.getD j 0
      · rw [if_pos hleft] at h
        exact ih (j+1) _ st e (by omega) (by omega) (cinv_push hct inv hj1 (Or.inr hleft)) (cinvS_push_nomark j hnm) h
      · rw [if_neg hleft] at h
        obtain ⟨above, below, hsplit, habove, hi, hij, hnmb, hstep⟩ := cinvS_right_end n ct hct hn inv hnm hj1 hjn h0 hleft
        split at h
        · rename_i err herr
          rw [hsplit] at herr
          exact popLoopS_nested_noerr n ct hct.1 j (ct.getD j 0) below ⟨hj1, hjn⟩ hi hij above 0 (-1) st err
            habove inv.cct inv.sssize herr
        · rename_i res hres
          obtain ⟨hfound, hpk1, hpda1, inv1⟩ := hstep res hres
          obtain ⟨found, pda1, st1⟩ := res
          simp only at hfound hpk1 hpda1 inv1 h
          subst hfound hpda1
          simp only [Bool.not_true, Bool.false_eq_true, if_false, hpk1] at h
          exact ih (j+1) pda1 st1 e (by omega) (by omega) inv1 hnmb h

/-- UNCONDITIONAL nested round trip for `esl_ct2simplewuss` -/
theorem simple_nested_roundtrip_total' (n : Nat) (ct : List Nat) (hct : CtOk n ct) (hn : Nested ct) :
    ∃ ss, ct2simplewuss ct = .ok ss ∧ wuss2ct ss = some ct := by
  have hl1 : ct.length = n + 1 := hct.1
  have hn1 : ct.length - 1 = n := by omega
  have hinit : CInv n ct 1 [] { ss := Array.replicate n (0x2e : UInt8), cct := ct.toArray, rb := Array.replicate 26 (-1),
                                auxpk := [], auxss := [], reached := 0 } := {
    cct := rfl, nopk := rfl, noaux := rfl, sssize := by simp
    reached := by simp [rightEnds]
    ent := by intro a ha; simp at ha
    sorted := by simp
    lefts := by intro p h1 h2; omega
    paired := by intro a ha; simp at ha
    l1 := by
      intro q hq _
      simp only [ssAt, Array.toList_replicate, List.getD_eq_getElem?_getD, List.getElem?_replicate, hq, if_true,
                 Option.getD_some]
      decide
    l2 := by intro j0 h1 h2; omega }
  have hnm0 : NoMark [] := by intro a ha; simp at ha
  unfold ct2simplewuss ct2wussGen
  simp only [if_true]
  rw [hn1]
  cases hrun : c2wMain true ct.toArray n (n + 1) 1 []
      { ss := Array.replicate n (0x2e : UInt8), cct := ct.toArray,
        rb := Array.replicate 26 (-1), auxpk := [], auxss := [], reached := 0 } with
  | error e =>
    exfalso
    exact c2wMainS_nested_noerr n ct hct hn (n+1) 1 [] _ e (by omega) (Nat.le_refl _) hinit hnm0 hrun
  | ok st =>
    obtain ⟨pda', inv⟩ := c2wMainS_nested n ct hct hn (n+1) 1 [] _ st (by omega) (by omega) (Nat.le_refl _) hinit hnm0 hrun
    have : countPairs ct = st.reached := by rw [inv.reached, countPairs_eq_rightEnds n ct hct]
    simp only [this, bne_self_eq_false, Bool.false_eq_true, if_false]
    refine ⟨_, rfl, ?_⟩
    have hlen : st.ss.toList.length = n := by simp [inv.sssize]
    apply wuss2ct_of_labels' st.ss.toList ct (by rw [hlen]; exact hct) hn
    intro p hp1 hp2
    rw [hlen] at hp2
    constructor
    · intro h0
      exact inv.l1 (p-1) (by omega) (by
        have : p - 1 + 1 = p := by omega
        rw [this]; exact h0)
    · intro hlt
      have hp0 : ct.getD p 0 ≠ 0 := by omega
      have hpp := hct.2 p hp0
      have := inv.l2 (ct.getD p 0) hpp.2.2.1 (by omega) (by rw [hpp.2.2.2.2.1]; omega) (by rw [hpp.2.2.2.2.1]; exact hlt)
      rw [hpp.2.2.2.2.1] at this
      exact this

end EaselModel.Msa
