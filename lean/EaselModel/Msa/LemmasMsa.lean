import EaselModel.Msa.Spec
import EaselModel.Msa.LemmasCompact
/-! Lemmas about the alignment transformations (ColumnSubset, SequenceSubset, mode conversion, reverse complement). -/
namespace EaselModel.Msa

theorem optMapM_eq {α β : Type} (f : α → Option β) (g : α → β) :
    ∀ (l : List α), (∀ x ∈ l, f x = some (g x)) → optMapM f l = some (l.map g)
  | [], _ => rfl
  | x :: xs, h => by
    have hx := h x (by simp)
    have ih := optMapM_eq f g xs (fun y hy => h y (by simp [hy]))
    simp [optMapM, hx, ih]

theorem optField_eq (f : Bytes → Option Bytes) (g : Bytes → Bytes) (s : Option Bytes)
    (h : ∀ b, s = some b → f b = some (g b)) : optField f s = some (s.map g) := by
  cases s with
  | none => rfl
  | some b => simp [optField, h b rfl]

theorem compactField_optOk (mask : List Bool) (alen : Nat) (hm : mask.length = alen) (s : Option Bytes)
    (h : optOk alen s) : optField (compactField mask alen 0) s = some (s.map (maskFilter mask)) := by
  apply optField_eq
  intro b hb
  exact compactField_eq mask alen 0 b hm (h b hb).1 (h b hb).2

/-- `esl_msa_ColumnSubset`'s in-place loop, on a well-formed alignment, IS the column filter on every aligned field -/
theorem columnCompact_eq (m : Msa) (mask : List Bool) (wf : m.WF) (hm : mask.length = m.alen) :
    columnCompact m mask = some (m.colFilter mask) := by
  have h0 := compactAlen_eq mask m.alen hm
  have hrows : optMapM (compactField mask m.alen (if m.isDigital then dsqSentinel else 0)) m.rows
      = some (m.rows.map (maskFilter mask)) :=
    optMapM_eq _ _ _ (fun r hr => compactField_eq mask m.alen _ r hm (wf.rows_ok r hr).1 (wf.rows_ok r hr).2)
  have hopt : ∀ (l : List (Option Bytes)), (∀ s ∈ l, optOk m.alen s) →
      optMapM (optField (compactField mask m.alen 0)) l = some (l.map (Option.map (maskFilter mask))) :=
    fun l hl => optMapM_eq _ _ _ (fun s hs => compactField_optOk mask m.alen hm s (hl s hs))
  have hss := hopt m.ss wf.ss_ok
  have hsa := hopt m.sa wf.sa_ok
  have hpp := hopt m.pp wf.pp_ok
  have hgr : optMapM (fun (t : Bytes × List (Option Bytes)) =>
        (optMapM (optField (compactField mask m.alen 0)) t.2).map (fun v => (t.1, v))) m.gr
      = some (m.gr.map (fun t => (t.1, t.2.map (Option.map (maskFilter mask))))) :=
    optMapM_eq _ _ _ (fun t ht => by rw [hopt t.2 (wf.gr_ok t ht)]; rfl)
  have hgc : optMapM (fun (t : Bytes × Bytes) => (compactField mask m.alen 0 t.2).map (fun v => (t.1, v))) m.gc
      = some (m.gc.map (fun t => (t.1, maskFilter mask t.2))) :=
    optMapM_eq _ _ _ (fun t ht => by
      rw [compactField_eq mask m.alen 0 t.2 hm (wf.gc_ok t ht).1 (wf.gc_ok t ht).2]; rfl)
  have h1 := compactField_optOk mask m.alen hm _ wf.ss_cons_ok
  have h2 := compactField_optOk mask m.alen hm _ wf.sa_cons_ok
  have h3 := compactField_optOk mask m.alen hm _ wf.pp_cons_ok
  have h4 := compactField_optOk mask m.alen hm _ wf.rf_ok
  have h5 := compactField_optOk mask m.alen hm _ wf.mm_ok
  simp only [columnCompact, h0, hrows, hss, hsa, hpp, hgr, hgc, h1, h2, h3, h4, h5, Msa.colFilter]

theorem maskFilter_strOk (mask : List Bool) (alen : Nat) (term : UInt8) (s : Bytes) (hm : mask.length = alen)
    (h : strOk alen term s) : strOk (mask.filter id).length term (maskFilter mask s) :=
  ⟨maskFilter_length_eq_count mask s (by rw [hm, h.1]), fun c hc => h.2 c (mem_maskFilter _ _ _ hc)⟩

theorem map_optOk (mask : List Bool) (alen : Nat) (hm : mask.length = alen) (s : Option Bytes) (h : optOk alen s) :
    optOk (mask.filter id).length (s.map (maskFilter mask)) := by
  intro b hb
  cases s with
  | none => simp at hb
  | some b0 =>
    simp at hb; subst hb
    exact maskFilter_strOk mask alen 0 b0 hm (h b0 rfl)

theorem colFilter_isDigital (m : Msa) (mask : List Bool) : (m.colFilter mask).isDigital = m.isDigital := rfl

/-- well-formedness is preserved by the column selection -/
theorem colFilter_wf (m : Msa) (mask : List Bool) (wf : m.WF) (hm : mask.length = m.alen) : (m.colFilter mask).WF where
  nseq_pos := wf.nseq_pos
  flags_lt := wf.flags_lt
  rows_len := by simp [Msa.colFilter, wf.rows_len]
  rows_ok := by
    intro r hr
    simp only [Msa.colFilter, List.mem_map] at hr
    obtain ⟨r0, hr0, rfl⟩ := hr
    exact maskFilter_strOk mask m.alen _ r0 hm (wf.rows_ok r0 hr0)
  sqname_len := wf.sqname_len
  wgt_len := wf.wgt_len
  sqacc_len := wf.sqacc_len
  sqdesc_len := wf.sqdesc_len
  ss_len := by simp [Msa.colFilter, wf.ss_len]
  sa_len := by simp [Msa.colFilter, wf.sa_len]
  pp_len := by simp [Msa.colFilter, wf.pp_len]
  ss_ok := by
    intro s hs
    simp only [Msa.colFilter, List.mem_map] at hs
    obtain ⟨s0, hs0, rfl⟩ := hs
    exact map_optOk mask m.alen hm s0 (wf.ss_ok s0 hs0)
  sa_ok := by
    intro s hs
    simp only [Msa.colFilter, List.mem_map] at hs
    obtain ⟨s0, hs0, rfl⟩ := hs
    exact map_optOk mask m.alen hm s0 (wf.sa_ok s0 hs0)
  pp_ok := by
    intro s hs
    simp only [Msa.colFilter, List.mem_map] at hs
    obtain ⟨s0, hs0, rfl⟩ := hs
    exact map_optOk mask m.alen hm s0 (wf.pp_ok s0 hs0)
  ss_cons_ok := map_optOk mask m.alen hm _ wf.ss_cons_ok
  sa_cons_ok := map_optOk mask m.alen hm _ wf.sa_cons_ok
  pp_cons_ok := map_optOk mask m.alen hm _ wf.pp_cons_ok
  rf_ok := map_optOk mask m.alen hm _ wf.rf_ok
  mm_ok := map_optOk mask m.alen hm _ wf.mm_ok
  gc_ok := by
    intro t ht
    simp only [Msa.colFilter, List.mem_map] at ht
    obtain ⟨t0, ht0, rfl⟩ := ht
    exact maskFilter_strOk mask m.alen 0 t0.2 hm (wf.gc_ok t0 ht0)
  gr_len := by
    intro t ht
    simp only [Msa.colFilter, List.mem_map] at ht
    obtain ⟨t0, ht0, rfl⟩ := ht
    simp [wf.gr_len t0 ht0, Msa.colFilter]
  gr_ok := by
    intro t ht s hs
    simp only [Msa.colFilter, List.mem_map] at ht
    obtain ⟨t0, ht0, rfl⟩ := ht
    simp only [List.mem_map] at hs
    obtain ⟨s0, hs0, rfl⟩ := hs
    exact map_optOk mask m.alen hm s0 (wf.gr_ok t0 ht0 s0 hs0)
  gs_len := wf.gs_len

/-- removing only gap cells does not change the ungapped sequence -/
theorem dealign_maskFilter (isGap : UInt8 → Bool) :
    ∀ (mask : List Bool) (row : Bytes), mask.length = row.length → removesOnlyGaps isGap mask row →
      dealign isGap (maskFilter mask row) = dealign isGap row
  | [], [], _, _ => rfl
  | [], _ :: _, h, _ => by simp at h
  | _ :: _, [], h, _ => by simp at h
  | b :: mask, c :: row, hl, hg => by
    have ih := dealign_maskFilter isGap mask row (by simpa using hl) hg.2
    cases b with
    | true => simp only [maskFilter, if_true, dealign, List.filter_cons] at ih ⊢; rw [ih]
    | false =>
      have hc : isGap c = true := hg.1 rfl
      simp only [maskFilter, Bool.false_eq_true, if_false, dealign, List.filter_cons, hc, Bool.not_true] at ih ⊢
      exact ih

/-! ## SequenceSubset -/

theorem maskFilter_length_take {α : Type} : ∀ (useme : List Bool) (xs : List α) (n : Nat), xs.length = n →
    (maskFilter useme xs).length = ((useme.take n).filter id).length
  | [], xs, n, _ => by simp [maskFilter_nil_left]
  | _ :: _, [], n, h => by simp at h; subst h; simp [maskFilter]
  | b :: us, x :: xs, n, h => by
    cases n with
    | zero => simp at h
    | succ n =>
      have ih := maskFilter_length_take us xs n (by simpa using h)
      cases b <;> simp [maskFilter, ih]

theorem subsetTags_nil_src (add : TagTable → Bytes → Nat → Bytes → TagTable) (useme : List Bool) :
    ∀ (fuel oidx nidx : Nat) (acc : TagTable), subsetTags add [] useme oidx nidx fuel acc = acc := by
  intro fuel
  induction fuel with
  | zero => intros; rfl
  | succ fuel ih =>
    intro oidx nidx acc
    simp only [subsetTags, List.foldl_nil]
    split <;> exact ih _ _ _

theorem sequenceSubset_ok (m : Msa) (useme : List Bool) (b : Msa) (h : sequenceSubset m useme = .ok b) :
    countSelected m useme ≠ 0 ∧ b = sequenceSubsetMsa m useme (countSelected m useme) := by
  unfold sequenceSubset at h
  split at h
  · cases h
  · rename_i hn
    injection h with h
    exact ⟨by simpa using hn, h.symm⟩

/-- well-formedness of the subset (the unparsed GS/GR tables are handled in `LemmasTags`) -/
theorem sequenceSubsetMsa_wf_core (m : Msa) (useme : List Bool) (wf : m.WF) (hn : countSelected m useme ≠ 0)
    (hgs : ∀ t ∈ (sequenceSubsetMsa m useme (countSelected m useme)).gs, t.2.length = countSelected m useme)
    (hgr : ∀ t ∈ (sequenceSubsetMsa m useme (countSelected m useme)).gr, t.2.length = countSelected m useme)
    (hgrok : ∀ t ∈ (sequenceSubsetMsa m useme (countSelected m useme)).gr, ∀ s ∈ t.2, optOk m.alen s) :
    (sequenceSubsetMsa m useme (countSelected m useme)).WF := by
  have hlen : ∀ {α : Type} (xs : List α), xs.length = m.nseq →
      (maskFilter useme xs).length = countSelected m useme :=
    fun xs hx => maskFilter_length_take useme xs m.nseq hx
  have hcut : ∀ (s : Option Bytes), optOk m.alen s → optOk m.alen (s.map (fun b => b.take m.alen)) := by
    intro s hs b hb
    cases s with
    | none => simp at hb
    | some b0 =>
      simp at hb; subst hb
      have := hs b0 rfl
      rw [List.take_of_length_le (by rw [this.1]; exact Nat.le_refl _)]
      exact this
  exact {
    nseq_pos := Nat.pos_of_ne_zero hn
    flags_lt := wf.flags_lt
    rows_len := hlen _ wf.rows_len
    rows_ok := fun r hr => wf.rows_ok r (mem_maskFilter _ _ _ hr)
    sqname_len := hlen _ wf.sqname_len
    wgt_len := hlen _ wf.wgt_len
    sqacc_len := hlen _ wf.sqacc_len
    sqdesc_len := hlen _ wf.sqdesc_len
    ss_len := hlen _ wf.ss_len
    sa_len := hlen _ wf.sa_len
    pp_len := hlen _ wf.pp_len
    ss_ok := fun s hs => wf.ss_ok s (mem_maskFilter _ _ _ hs)
    sa_ok := fun s hs => wf.sa_ok s (mem_maskFilter _ _ _ hs)
    pp_ok := fun s hs => wf.pp_ok s (mem_maskFilter _ _ _ hs)
    ss_cons_ok := hcut _ wf.ss_cons_ok
    sa_cons_ok := hcut _ wf.sa_cons_ok
    pp_cons_ok := hcut _ wf.pp_cons_ok
    rf_ok := hcut _ wf.rf_ok
    mm_ok := hcut _ wf.mm_ok
    gc_ok := by intro t ht; simp [sequenceSubsetMsa] at ht
    gr_len := hgr
    gr_ok := hgrok
    gs_len := hgs }

end EaselModel.Msa
