import EaselModel.Msa.LemmasWuss2
import EaselModel.Msa.LemmasConv
/-! Lemmas: `esl_wuss_reverse` mirrors the pair set of any balanced WUSS string (pseudoknot letters included). -/
namespace EaselModel.Msa

/-- the pair table of the reversed structure: position `p` becomes `n+1-p` -/
def mirrorCt (n : Nat) (ct : List Nat) : List Nat :=
  (List.range (n+1)).map fun p => if p = 0 then 0 else (if ct.getD (n+1-p) 0 = 0 then 0 else n + 1 - ct.getD (n+1-p) 0)

theorem mirrorCt_getD (n : Nat) (ct : List Nat) (p : Nat) :
    (mirrorCt n ct).getD p 0 = if p = 0 ∨ n < p then 0 else (if ct.getD (n+1-p) 0 = 0 then 0 else n + 1 - ct.getD (n+1-p) 0) := by
  unfold mirrorCt
  rw [List.getD_eq_getElem?_getD, List.getElem?_map]
  by_cases hp : p < n + 1
  · rw [List.getElem?_range hp]
    simp only [Option.map_some, Option.getD_some]
    by_cases h0 : p = 0
    · simp [h0]
    · have : ¬ (p = 0 ∨ n < p) := by omega
      rw [if_neg h0, if_neg this]
  · rw [List.getElem?_eq_none (by simp; omega)]
    have : p = 0 ∨ n < p := by omega
    simp [this]

theorem wussCompl_facts_nat : ∀ n, n < 256 →
    (isOpenBr (UInt8.ofNat n) = true → wussComplChar (closerOf (UInt8.ofNat n)) = UInt8.ofNat n ∧
        wussComplChar (UInt8.ofNat n) = closerOf (UInt8.ofNat n)) ∧
    (isUpper (UInt8.ofNat n) = true → wussComplChar (toLower (UInt8.ofNat n)) = UInt8.ofNat n ∧
        wussComplChar (UInt8.ofNat n) = toLower (UInt8.ofNat n)) ∧
    (isUnpairedSym (UInt8.ofNat n) = true → isUnpairedSym (wussComplChar (UInt8.ofNat n)) = true) := by decide +kernel

theorem wussCompl_facts (c : UInt8) :
    (isOpenBr c = true → wussComplChar (closerOf c) = c ∧ wussComplChar c = closerOf c) ∧
    (isUpper c = true → wussComplChar (toLower c) = c ∧ wussComplChar c = toLower c) ∧
    (isUnpairedSym c = true → isUnpairedSym (wussComplChar c) = true) := by
  have := wussCompl_facts_nat c.toNat (UInt8.toNat_lt c)
  rw [ofNat_toNat] at this; exact this

/-- cell `p` (1-based) of the reversed string is the complemented cell `n+1-p` of the original -/
theorem wussReverse_getD (ss : Bytes) (p : Nat) (h1 : 1 ≤ p) (h2 : p ≤ ss.length) :
    (wussReverse ss).getD (p-1) 0 = wussComplChar (ss.getD (ss.length - p) 0) := by
  unfold wussReverse
  have hl : p - 1 < (ss.map wussComplChar).length := by simp; omega
  have h3 : ss.length - p < ss.length := by omega
  rw [List.getD_eq_getElem?_getD, List.getElem?_reverse hl, List.length_map, List.getElem?_map]
  have e : ss.length - 1 - (p - 1) = ss.length - p := by omega
  rw [e, List.getElem?_eq_getElem h3, List.getD_eq_getElem?_getD, List.getElem?_eq_getElem h3]
  rfl


/-- key fact: in the reversed string the mirror image of a right end carries the ORIGINAL opening symbol of its pair, and the
    mirror image of the left end its closing symbol -/
theorem mirror_pair_syms (ss : Bytes) (ct : List Nat) (hct : CtOk ss.length ct) (hl : ClassLabels ct ss) (Q : Nat)
    (h0 : ct.getD Q 0 ≠ 0) (hlt : Q < ct.getD Q 0) :
    (wussReverse ss).getD (ss.length + 1 - ct.getD Q 0 - 1) 0 = ss.getD (Q-1) 0 ∧
    ((isOpenBr (ss.getD (Q-1) 0) = true ∧ (wussReverse ss).getD (ss.length + 1 - Q - 1) 0 = closerOf (ss.getD (Q-1) 0)) ∨
     (isUpper (ss.getD (Q-1) 0) = true ∧ (wussReverse ss).getD (ss.length + 1 - Q - 1) 0 = toLower (ss.getD (Q-1) 0))) := by
  have hq := hct.2 Q h0
  have hlab := (hl Q hq.1 hq.2.1).2 hlt
  have r1 := wussReverse_getD ss (ss.length + 1 - ct.getD Q 0) (by omega) (by omega)
  have r2 := wussReverse_getD ss (ss.length + 1 - Q) (by omega) (by omega)
  have e1 : ss.length - (ss.length + 1 - ct.getD Q 0) = ct.getD Q 0 - 1 := by omega
  have e2 : ss.length - (ss.length + 1 - Q) = Q - 1 := by omega
  rw [e1] at r1; rw [e2] at r2
  rcases hlab with ⟨ho, hc⟩ | ⟨hu, hc⟩
  · have f := (wussCompl_facts (ss.getD (Q-1) 0)).1 ho
    exact ⟨by rw [r1, hc]; exact f.1, Or.inl ⟨ho, by rw [r2]; exact f.2⟩⟩
  · have f := (wussCompl_facts (ss.getD (Q-1) 0)).2.1 hu
    exact ⟨by rw [r1, hc]; exact f.1, Or.inr ⟨hu, by rw [r2]; exact f.2⟩⟩

theorem mirror_class (ss : Bytes) (ct : List Nat) (hct : CtOk ss.length ct) (hl : ClassLabels ct ss) (hcn : ClassNested ct ss) :
    CtOk ss.length (mirrorCt ss.length ct) ∧ ClassLabels (mirrorCt ss.length ct) (wussReverse ss) ∧
    ClassNested (mirrorCt ss.length ct) (wussReverse ss) := by
  have hrl : (wussReverse ss).length = ss.length := by simp [wussReverse]
  -- reading the mirrored table at a position whose image is paired
  have rd : ∀ p, (mirrorCt ss.length ct).getD p 0 ≠ 0 →
      1 ≤ p ∧ p ≤ ss.length ∧ ct.getD (ss.length + 1 - p) 0 ≠ 0 ∧
      (mirrorCt ss.length ct).getD p 0 = ss.length + 1 - ct.getD (ss.length + 1 - p) 0 := by
    intro p hp
    rw [mirrorCt_getD] at hp ⊢
    split at hp
    · exact absurd rfl hp
    · rename_i h1
      split at hp
      · exact absurd rfl hp
      · rename_i h2
        rw [if_neg h1, if_neg h2]
        exact ⟨by omega, by omega, h2, rfl⟩
  have rd0 : ∀ p, 1 ≤ p → p ≤ ss.length → (mirrorCt ss.length ct).getD p 0 = 0 → ct.getD (ss.length + 1 - p) 0 = 0 := by
    intro p h1 h2 hz
    rw [mirrorCt_getD, if_neg (by omega)] at hz
    split at hz
    · assumption
    · rename_i h3
      have := (hct.2 _ h3).2.2.2.1
      omega
  refine ⟨⟨by simp [mirrorCt], ?_⟩, ?_, ?_⟩
  · intro i hi
    obtain ⟨h1, h2, h3, h4⟩ := rd i hi
    have hq := hct.2 _ h3
    have hback : (mirrorCt ss.length ct).getD (ss.length + 1 - ct.getD (ss.length + 1 - i) 0) 0 = i := by
      rw [mirrorCt_getD, if_neg (by omega)]
      have e : ss.length + 1 - (ss.length + 1 - ct.getD (ss.length + 1 - i) 0) = ct.getD (ss.length + 1 - i) 0 := by omega
      rw [e, hq.2.2.2.2.1, if_neg (by omega)]
      omega
    rw [h4]
    exact ⟨h1, h2, by omega, by omega, hback, by omega⟩
  · intro p hp1 hp2
    rw [hrl] at hp2
    constructor
    · intro hz
      have := rd0 p hp1 hp2 hz
      have hu := (hl (ss.length + 1 - p) (by omega) (by omega)).1 this
      rw [wussReverse_getD ss p hp1 hp2]
      have e : ss.length - p = ss.length + 1 - p - 1 := by omega
      rw [e]
      exact (wussCompl_facts _).2.2 hu
    · intro hlt
      have hnz : (mirrorCt ss.length ct).getD p 0 ≠ 0 := by omega
      obtain ⟨h1, h2, h3, h4⟩ := rd p hnz
      have hq := hct.2 _ h3
      -- the original pair (Q, P) with P = n+1-p, Q = ct P < P
      have hQ0 : ct.getD (ct.getD (ss.length + 1 - p) 0) 0 ≠ 0 := by rw [hq.2.2.2.2.1]; omega
      have hQlt : ct.getD (ss.length + 1 - p) 0 < ct.getD (ct.getD (ss.length + 1 - p) 0) 0 := by
        rw [hq.2.2.2.2.1]; rw [h4] at hlt; omega
      have key := mirror_pair_syms ss ct hct hl (ct.getD (ss.length + 1 - p) 0) hQ0 hQlt
      rw [hq.2.2.2.2.1] at key
      have e1 : ss.length + 1 - (ss.length + 1 - p) - 1 = p - 1 := by omega
      rw [e1] at key
      rw [h4, key.1]
      exact key.2
  · intro i i' hi hi' hlt hlt2 hleft' hcls
    obtain ⟨a1, a2, a3, a4⟩ := rd i hi
    obtain ⟨b1, b2, b3, b4⟩ := rd i' hi'
    have hP := hct.2 _ a3
    have hP' := hct.2 _ b3
    rw [a4] at hlt2 ⊢
    rw [b4] at hleft' ⊢
    -- Q < P and Q' < P'
    have hQ0 : ct.getD (ct.getD (ss.length + 1 - i) 0) 0 ≠ 0 := by rw [hP.2.2.2.2.1]; omega
    have hQlt : ct.getD (ss.length + 1 - i) 0 < ct.getD (ct.getD (ss.length + 1 - i) 0) 0 := by rw [hP.2.2.2.2.1]; omega
    have hQ0' : ct.getD (ct.getD (ss.length + 1 - i') 0) 0 ≠ 0 := by rw [hP'.2.2.2.2.1]; omega
    have hQlt' : ct.getD (ss.length + 1 - i') 0 < ct.getD (ct.getD (ss.length + 1 - i') 0) 0 := by rw [hP'.2.2.2.2.1]; omega
    have k1 := (mirror_pair_syms ss ct hct hl _ hQ0 hQlt).1
    have k2 := (mirror_pair_syms ss ct hct hl _ hQ0' hQlt').1
    rw [hP.2.2.2.2.1] at k1; rw [hP'.2.2.2.2.1] at k2
    have e1 : ss.length + 1 - (ss.length + 1 - i) - 1 = i - 1 := by omega
    have e2 : ss.length + 1 - (ss.length + 1 - i') - 1 = i' - 1 := by omega
    rw [e1] at k1; rw [e2] at k2
    rw [k1, k2] at hcls
    rcases Nat.lt_trichotomy (ct.getD (ss.length + 1 - i) 0) (ct.getD (ss.length + 1 - i') 0) with h | h | h
    · omega
    · exfalso
      have : ct.getD (ct.getD (ss.length + 1 - i) 0) 0 = ct.getD (ct.getD (ss.length + 1 - i') 0) 0 := by rw [h]
      rw [hP.2.2.2.2.1, hP'.2.2.2.2.1] at this
      omega
    · exfalso
      have := hcn (ct.getD (ss.length + 1 - i') 0) (ct.getD (ss.length + 1 - i) 0) hQ0' hQ0 h
        (by rw [hP'.2.2.2.2.1]; omega) (by rw [hP.2.2.2.2.1]; omega) hcls.symm
      rw [hP.2.2.2.2.1, hP'.2.2.2.2.1] at this
      omega

/-- `esl_wuss_reverse` MIRRORS THE PAIR SET: the reversed string of a balanced WUSS string (pseudoknot letters included) is
    balanced, and its pair table is the original one with every position `p` sent to `len+1-p` -/
theorem wussReverse_pairs' (ss : Bytes) (ct : List Nat) (h : wuss2ct ss = some ct) :
    wuss2ct (wussReverse ss) = some (mirrorCt ss.length ct) := by
  have hct := wuss2ct_ctOk ss ct h
  obtain ⟨hl, hcn⟩ := wuss2ct_class_labels ss ct h
  obtain ⟨m1, m2, m3⟩ := mirror_class ss ct hct hl hcn
  have hrl : (wussReverse ss).length = ss.length := by simp [wussReverse]
  exact wuss2ct_of_class_labels' (wussReverse ss) _ (by rw [hrl]; exact m1) m3 m2

end EaselModel.Msa
