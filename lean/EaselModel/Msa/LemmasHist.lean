import EaselModel.Msa.LemmasSet
import EaselModel.Msa.LemmasWf
import EaselModel.Msa.LemmasRc
import EaselModel.Msa.LemmasRbb
import EaselModel.Msa.LemmasFrag
import EaselModel.Msa.LemmasTags
import EaselModel.Msa.LemmasConv2
/-! Histories: every alignment reachable from a well-formed one by ANY chain of (successful) transformations is well
    formed, digital rows keep valid codes, and mode and alphabet stay consistent. -/
namespace EaselModel.Msa

/-- what the transformations need from an alphabet's tables (holds for the generated ones: `generated_abcOk`) -/
structure AbcOk (a : Abc) : Prop where
  Kp_le : a.Kp ≤ 255
  sym_nz : ∀ x, x < a.Kp → a.sym.getD x 0 ≠ 0
  compl_closed : ∀ compl, a.complement = some compl → ∀ x, x < a.Kp → (compl.getD x 0).toNat < a.Kp
  K_lt : a.K < a.Kp
  Kp_pos : 0 < a.Kp
  degen : a.degenOk

/-- the invariant of a history: well formed; digital mode comes with an alphabet whose codes the rows hold; text mode
    comes without alphabet -/
structure Inv (m : Msa) : Prop where
  wf : m.WF
  dig : m.isDigital = true → ∃ a, AbcOk a ∧ m.abc = some a ∧ m.codesOk a
  txt : m.isDigital = false → m.abc = none
  gsND : (m.gs.map (·.1)).Nodup
  grND : (m.gr.map (·.1)).Nodup

/-- one successful transformation -/
inductive Step : Msa → Msa → Prop where
  | col (m : Msa) (mask : List Bool) : mask.length = m.alen → (columnSubset m mask).st = .ok → Step m (columnSubset m mask).msa
  | rbb (m : Msa) (mask : List Bool) : (removeBrokenBasepairs m mask).st = .ok → Step m (removeBrokenBasepairs m mask).msa
  | setStr (m : Msa) (f : StrField) (idx : Int) (s : Option Bytes) (n : Int) : Step m (setStr m f idx s n).msa
  | formatStr (m : Msa) (f : StrField) (idx : Int) (out : Option Bytes) : Step m (formatStr m f idx out).msa
  | digitize (m : Msa) (a : Abc) : AbcOk a → (digitize a m).st = .ok → Step m (digitize a m).msa
  | textize (m : Msa) : (textize m).st = .ok → Step m (textize m).msa
  | revcomp (m : Msa) : (reverseComplement m).st = .ok → Step m (reverseComplement m).msa
  | flushLeft (m : Msa) : m.isDigital = true → (flushLeftInserts m).st = .ok → Step m (flushLeftInserts m).msa
  | markFragOld (m : Msa) (isFrag : Nat → Bool) : Step m (markFragmentsOld m isFrag)
  | seqSubset (m : Msa) (useme : List Bool) (b : Msa) : sequenceSubset m useme = .ok b → Step m b
  | degen2X (m : Msa) : (convertDegen2X m).st = .ok → Step m (convertDegen2X m).msa
  | defWgts (m : Msa) : Step m (setDefaultWeights m)
  | symConv (m : Msa) (olds news : Bytes) : (∀ x ∈ news, x ≠ 0) → (symConvert m olds news).st = .ok →
      Step m (symConvert m olds news).msa

/-- a history -/
inductive Steps : Msa → Msa → Prop where
  | refl (m : Msa) : Steps m m
  | tail (a b c : Msa) : Steps a b → Step b c → Steps a c

theorem Inv_of_same_rows (a b : Msa) (wf : a.WF) (hf : a.flags = b.flags) (ha : a.abc = b.abc)
    (hr : ∀ r ∈ a.rows, ∀ x ∈ r, ∃ r' ∈ b.rows, x ∈ r') (hgs : a.gs.map (·.1) = b.gs.map (·.1))
    (hgr : a.gr.map (·.1) = b.gr.map (·.1)) (inv : Inv b) : Inv a := by
  have hd : a.isDigital = b.isDigital := by simp [Msa.isDigital, hf]
  refine ⟨wf, ?_, ?_, by rw [hgs]; exact inv.gsND, by rw [hgr]; exact inv.grND⟩
  · intro h
    obtain ⟨al, hok, habc, hc⟩ := inv.dig (by rw [← hd]; exact h)
    refine ⟨al, hok, by rw [ha]; exact habc, ?_⟩
    intro r hr' x hx
    obtain ⟨r', hr'', hx'⟩ := hr r hr' x hx
    exact hc r' hr'' x hx'
  · intro h
    rw [ha]; exact inv.txt (by rw [← hd]; exact h)

theorem colFilter_inv (m : Msa) (mask : List Bool) (hm : mask.length = m.alen) (inv : Inv m) : Inv (m.colFilter mask) := by
  apply Inv_of_same_rows _ m (colFilter_wf m mask inv.wf hm) rfl rfl _ rfl
    (by simp [Msa.colFilter, List.map_map, Function.comp_def]) inv
  intro r hr x hx
  simp only [Msa.colFilter, List.mem_map] at hr
  obtain ⟨r0, hr0, rfl⟩ := hr
  exact ⟨r0, hr0, mem_maskFilter mask r0 x hx⟩

theorem rbb_inv (m : Msa) (mask : List Bool) (hok : (removeBrokenBasepairs m mask).st = .ok) (inv : Inv m) :
    Inv (removeBrokenBasepairs m mask).msa := by
  obtain ⟨wf', _, sc, ss', hform⟩ := removeBrokenBasepairs_wf m mask inv.wf hok
  apply Inv_of_same_rows _ m wf' (by rw [hform]) (by rw [hform]) _ (by rw [hform]) (by rw [hform]) inv
  intro r hr x hx
  rw [hform] at hr
  exact ⟨r, hr, hx⟩

theorem columnSubset_inv (m : Msa) (mask : List Bool) (hm : mask.length = m.alen) (hok : (columnSubset m mask).st = .ok)
    (inv : Inv m) : Inv (columnSubset m mask).msa := by
  cases habc : m.abc with
  | none =>
    have h := columnCompact_eq m mask inv.wf hm
    have e : columnSubset m mask = { msa := m.colFilter mask, st := .ok } := by simp [columnSubset, habc, h]
    rw [e]; exact colFilter_inv m mask hm inv
  | some a =>
    by_cases hn : a.isNucleic = true
    · by_cases hst : (removeBrokenBasepairs m mask).st = .ok
      · obtain ⟨wf', hal, _⟩ := removeBrokenBasepairs_wf m mask inv.wf hst
        have hm' : mask.length = (removeBrokenBasepairs m mask).msa.alen := by rw [hal]; exact hm
        have h := columnCompact_eq _ mask wf' hm'
        have e : columnSubset m mask = { msa := (removeBrokenBasepairs m mask).msa.colFilter mask, st := .ok } := by
          simp [columnSubset, habc, hn, hst, h]
        rw [e]; exact colFilter_inv _ mask hm' (rbb_inv m mask hst inv)
      · have e : columnSubset m mask = removeBrokenBasepairs m mask := by simp [columnSubset, habc, hn, hst]
        rw [e] at hok; exact absurd hok hst
    · have hn' : a.isNucleic = false := by simpa using hn
      have h := columnCompact_eq m mask inv.wf hm
      have e : columnSubset m mask = { msa := m.colFilter mask, st := .ok } := by simp [columnSubset, habc, hn', h]
      rw [e]; exact colFilter_inv m mask hm inv

theorem isDigital_or_flag (f : Nat) : ((f ||| flagDigital) / 2 % 2 == 1) = true := by
  have e : (f ||| 2).testBit 1 = true := by rw [Nat.testBit_or]; simp; right; decide
  rw [Nat.testBit_eq_decide_div_mod_eq] at e
  simpa [flagDigital] using e

theorem digitize_inv (m : Msa) (a : Abc) (hA : AbcOk a) (hok : (digitize a m).st = .ok) (inv : Inv m) :
    Inv (digitize a m).msa := by
  have hd : m.isDigital = false := by
    cases h : m.isDigital with
    | false => rfl
    | true => simp [digitize, h] at hok
  have hv' : (m.rows.all fun r => (r.take m.alen).all a.cIsValid) = true := by
    cases h : (m.rows.all fun r => (r.take m.alen).all a.cIsValid) with
    | true => rfl
    | false => simp [digitize, hd, h] at hok
  have hv : (m.rows.all fun r => r.all a.cIsValid) = true := by
    rw [List.all_eq_true] at hv' ⊢
    intro r hr
    have := hv' r hr
    rwa [List.take_of_length_le (by rw [(inv.wf.rows_ok r hr).1]; exact Nat.le_refl _)] at this
  have hres : digitize a m = { msa := { m with rows := m.rows.map (fun r => r.map a.digit), abc := some a, flags := m.flags ||| flagDigital },
                               st := .ok } := by
    unfold digitize; simp [hd, hv']
  have hwf := (digitize_wf a m inv.wf hd hv hA.Kp_le).2
  rw [hres] at hwf ⊢
  refine ⟨hwf, ?_, ?_, inv.gsND, inv.grND⟩
  · intro _
    refine ⟨a, hA, rfl, ?_⟩
    intro r hr x hx
    simp only [List.mem_map] at hr
    obtain ⟨r0, hr0, rfl⟩ := hr
    simp only [List.mem_map] at hx
    obtain ⟨c, hc, rfl⟩ := hx
    rw [List.all_eq_true] at hv
    have := hv r0 hr0
    rw [List.all_eq_true] at this
    have hcv := this c hc
    simp only [Abc.cIsValid, Bool.and_eq_true, decide_eq_true_eq] at hcv
    exact hcv.2
  · intro h
    exfalso
    have : Msa.isDigital { m with rows := m.rows.map (fun r => r.map a.digit), abc := some a, flags := m.flags ||| flagDigital } = true :=
      isDigital_or_flag m.flags
    rw [this] at h; cases h

theorem textize_inv (m : Msa) (hok : (textize m).st = .ok) (inv : Inv m) : Inv (textize m).msa := by
  have hd : m.isDigital = true := by
    cases h : m.isDigital with
    | true => rfl
    | false => simp [textize, h] at hok
  obtain ⟨a, hA, habc, hc⟩ := inv.dig hd
  have hwf := (textize_wf a m inv.wf hd habc hc hA.sym_nz).2
  have hres : textize m = { msa := { m with rows := m.rows.map (fun r => (r.take m.alen).map (fun x => a.sym.getD x.toNat 0)), abc := none,
                                            flags := m.flags - flagDigital }, st := .ok } := by
    simp [textize, hd, habc]
  rw [hres] at hwf ⊢
  have hnd : Msa.isDigital { m with rows := m.rows.map (fun r => (r.take m.alen).map (fun x => a.sym.getD x.toNat 0)), abc := none,
                                    flags := m.flags - flagDigital } = false := by
    rcases flags_digital m inv.wf hd with h | h <;> simp [Msa.isDigital, h, flagDigital]
  refine ⟨hwf, ?_, fun _ => rfl, inv.gsND, inv.grND⟩
  intro h; rw [hnd] at h; cases h

theorem revcomp_inv (m : Msa) (hok : (reverseComplement m).st = .ok) (inv : Inv m) : Inv (reverseComplement m).msa := by
  have hd : m.isDigital = true := by
    cases h : m.isDigital with
    | true => rfl
    | false => simp [reverseComplement, h] at hok
  obtain ⟨a, hA, habc, hc⟩ := inv.dig hd
  cases hcompl : a.complement with
  | none => simp [reverseComplement, hd, habc, hcompl] at hok
  | some compl =>
    have hres : reverseComplement m = { msa := rcMsa compl m, st := .ok } := by simp [reverseComplement, hd, habc, hcompl]
    rw [hres]
    have hwf := rcMsa_wf a compl m inv.wf hd hc (hA.compl_closed compl hcompl) hA.Kp_le
    refine ⟨hwf, ?_, ?_, inv.gsND, by simpa [rcMsa, List.map_map, Function.comp_def] using inv.grND⟩
    · intro _
      refine ⟨a, hA, habc, ?_⟩
      intro r hr x hx
      simp only [rcMsa, List.mem_map] at hr
      obtain ⟨r0, hr0, rfl⟩ := hr
      simp only [revcompRow, List.mem_reverse, List.mem_map] at hx
      obtain ⟨y, hy, rfl⟩ := hx
      exact hA.compl_closed compl hcompl y.toNat (hc r0 hr0 y hy)
    · intro h
      have : (rcMsa compl m).isDigital = true := hd
      rw [this] at h; cases h

theorem flushLeft_inv (m : Msa) (hd : m.isDigital = true) (hok : (flushLeftInserts m).st = .ok) (inv : Inv m) :
    Inv (flushLeftInserts m).msa := by
  obtain ⟨a, hA, habc, hc⟩ := inv.dig hd
  cases hrf : m.rf with
  | none => simp [flushLeftInserts, hrf] at hok
  | some rf =>
    have e : flushLeftInserts m = { msa := { m with rows := m.rows.map (flushRow a rf m.alen) }, st := .ok } := by
      simp [flushLeftInserts, hrf, habc]
    rw [e]
    have hg : a.xIsGap a.xGap = true := by
      have := hA.K_lt; have := hA.Kp_le
      simp [Abc.xIsGap, Abc.xGap, UInt8.toNat_ofNat]; omega
    have hwf := flushLeftInserts_wf m a rf inv.wf hrf hd hg (by have := hA.K_lt; have := hA.Kp_le; omega)
    refine ⟨hwf, ?_, ?_, inv.gsND, inv.grND⟩
    · intro _
      refine ⟨a, hA, habc, ?_⟩
      intro r hr x hx
      simp only [List.mem_map] at hr
      obtain ⟨r0, hr0, rfl⟩ := hr
      rcases flushRow_mem a rf r0 m.alen x hx with h1 | h1
      · exact hc r0 hr0 x h1
      · rw [h1]
        have := hA.K_lt; have := hA.Kp_le
        simp [Abc.xGap, UInt8.toNat_ofNat]; omega
    · intro h
      have : Msa.isDigital { m with rows := m.rows.map (flushRow a rf m.alen) } = true := hd
      rw [this] at h; cases h

theorem markFragOld_inv (m : Msa) (isFrag : Nat → Bool) (inv : Inv m) : Inv (markFragmentsOld m isFrag) := by
  have hdig : (markFragmentsOld m isFrag).isDigital = m.isDigital := rfl
  have habc' : (markFragmentsOld m isFrag).abc = m.abc := rfl
  cases hd : m.isDigital with
  | false =>
    have hnone := inv.txt hd
    have hmiss : (fragSyms m).2 ≠ m.rowTerm := by simp [fragSyms, hnone, Msa.rowTerm, hd]
    refine ⟨markFragmentsOld_wf m isFrag inv.wf hmiss, ?_, ?_, inv.gsND, inv.grND⟩
    · intro h; rw [hdig, hd] at h; cases h
    · intro _; rw [habc']; exact hnone
  | true =>
    obtain ⟨a, hA, habc, hc⟩ := inv.dig hd
    have hK := hA.Kp_le; have hp := hA.Kp_pos
    have hm : (fragSyms m).2 = a.xMissing := by simp [fragSyms, habc, hd]
    have hmlt : (a.xMissing).toNat < a.Kp := by simp [Abc.xMissing, UInt8.toNat_ofNat]; omega
    have hmiss : (fragSyms m).2 ≠ m.rowTerm := by
      rw [hm]
      simp only [Msa.rowTerm, hd, if_true, dsqSentinel]
      intro e
      have := congrArg UInt8.toNat e
      simp at this; omega
    refine ⟨markFragmentsOld_wf m isFrag inv.wf hmiss, ?_, ?_, inv.gsND, inv.grND⟩
    · intro _
      refine ⟨a, hA, by rw [habc']; exact habc, ?_⟩
      intro r hr x hx
      simp only [markFragmentsOld, List.mem_map] at hr
      obtain ⟨r0, hr0, rfl⟩ := hr
      split at hx
      · have hmt : a.xMissing.toNat = a.Kp - 1 := by
          have : a.Kp - 1 < 256 := by omega
          simp [Abc.xMissing, Nat.mod_eq_of_lt this]
        have hkk := hA.K_lt
        have hne : (fragSyms m).1 (fragSyms m).2 = false := by
          simp only [fragSyms, habc, hd, if_true, Abc.xIsResidue, hmt]
          simp; omega
        rcases (maskEnds_spec (fragSyms m).1 (fragSyms m).2 hne r0).2.2 x hx with h1 | h1
        · exact hc r0 hr0 x h1
        · rw [h1, hm]; exact hmlt
      · exact hc r0 hr0 x hx
    · intro h; rw [hdig, hd] at h; cases h

theorem seqSubset_inv (m : Msa) (useme : List Bool) (b : Msa) (h : sequenceSubset m useme = .ok b) (inv : Inv m) : Inv b := by
  obtain ⟨hn, rfl⟩ := sequenceSubset_ok m useme b h
  have ht := subset_tables m useme inv.gsND inv.grND
  have hd : (sequenceSubsetMsa m useme (countSelected m useme)).isDigital = m.isDigital := rfl
  refine ⟨sequenceSubsetMsa_wf m useme inv.wf hn inv.gsND inv.grND, ?_, ?_, ht.2.2.1, ht.2.2.2.1⟩
  · intro hdig
    obtain ⟨a, hA, habc, hc⟩ := inv.dig (by rw [← hd]; exact hdig)
    refine ⟨a, hA, habc, ?_⟩
    intro r hr x hx
    exact hc r (mem_maskFilter useme m.rows r hr) x hx
  · intro htx
    exact inv.txt (by rw [← hd]; exact htx)

theorem degen2X_inv (m : Msa) (hok : (convertDegen2X m).st = .ok) (inv : Inv m) : Inv (convertDegen2X m).msa := by
  have hd : m.isDigital = true := by
    cases h : m.isDigital with
    | true => rfl
    | false => simp [convertDegen2X, h] at hok
  obtain ⟨a, hA, habc, hc⟩ := inv.dig hd
  have e : convertDegen2X m = { msa := { m with rows := m.rows.map (degen2XRow a) }, st := .ok } := by
    simp [convertDegen2X, hd, habc]
  rw [e]
  refine ⟨convertDegen2X_wf a hA.degen m inv.wf hd, ?_, ?_, inv.gsND, inv.grND⟩
  · intro _
    refine ⟨a, hA, habc, ?_⟩
    intro r hr x hx
    simp only [List.mem_map] at hr
    obtain ⟨r0, hr0, rfl⟩ := hr
    simp only [degen2XRow, List.mem_map] at hx
    obtain ⟨y, hy, rfl⟩ := hx
    exact (degen2X_cell a hA.degen y).2.2.2.2.2.2 (hc r0 hr0 y hy)
  · intro h
    have : Msa.isDigital { m with rows := m.rows.map (degen2XRow a) } = true := hd
    rw [this] at h; cases h

theorem defWgts_inv (m : Msa) (inv : Inv m) : Inv (setDefaultWeights m) := by
  have hdig : (setDefaultWeights m).isDigital = m.isDigital := (setDefaultWeights_spec m).2.2.1
  have hterm : (setDefaultWeights m).rowTerm = m.rowTerm := by simp [Msa.rowTerm, hdig]
  have wf := inv.wf
  refine ⟨?_, ?_, ?_, inv.gsND, inv.grND⟩
  · exact {
      nseq_pos := wf.nseq_pos
      flags_lt := by have := wf.flags_lt; simp only [setDefaultWeights]; omega
      rows_len := wf.rows_len
      rows_ok := by rw [hterm]; exact wf.rows_ok
      sqname_len := wf.sqname_len
      wgt_len := by simp [setDefaultWeights, wf.wgt_len]
      sqacc_len := wf.sqacc_len
      sqdesc_len := wf.sqdesc_len
      ss_len := wf.ss_len
      sa_len := wf.sa_len
      pp_len := wf.pp_len
      ss_ok := wf.ss_ok
      sa_ok := wf.sa_ok
      pp_ok := wf.pp_ok
      ss_cons_ok := wf.ss_cons_ok
      sa_cons_ok := wf.sa_cons_ok
      pp_cons_ok := wf.pp_cons_ok
      rf_ok := wf.rf_ok
      mm_ok := wf.mm_ok
      gc_ok := wf.gc_ok
      gr_len := wf.gr_len
      gr_ok := wf.gr_ok
      gs_len := wf.gs_len }
  · intro h; exact inv.dig (by rw [← hdig]; exact h)
  · intro h; exact inv.txt (by rw [← hdig]; exact h)

theorem symConv_inv (m : Msa) (olds news : Bytes) (hn : ∀ x ∈ news, x ≠ 0) (hok : (symConvert m olds news).st = .ok)
    (inv : Inv m) : Inv (symConvert m olds news).msa := by
  have hd : m.isDigital = false := by
    cases h : m.isDigital with
    | false => rfl
    | true => simp [symConvert, h] at hok
  have hc : ¬ ((olds.length ≠ news.length && news.length ≠ 1) = true) := by
    intro hbad
    unfold symConvert at hok
    simp only [hd, Bool.false_eq_true, if_false, hbad, if_true] at hok
    cases hok
  have hlen : olds.length = news.length ∨ news.length = 1 := by
    by_cases h1 : olds.length = news.length
    · exact Or.inl h1
    · by_cases h2 : news.length = 1
      · exact Or.inr h2
      · exfalso; apply hc; simp [h1, h2]
  have wf := inv.wf
  have e : symConvert m olds news = { msa := { m with rows := m.rows.map (fun r => r.map (symConvChar olds news)) }, st := .ok } := by
    simp only [symConvert, hd, Bool.false_eq_true, if_false, hc, symConvert_rows m wf olds news]
  rw [e]
  have hdig : Msa.isDigital { m with rows := m.rows.map (fun r => r.map (symConvChar olds news)) } = false := hd
  have ht : Msa.rowTerm { m with rows := m.rows.map (fun r => r.map (symConvChar olds news)) } = 0 := by
    simp [Msa.rowTerm, hdig]
  have ht0 : m.rowTerm = 0 := by simp [Msa.rowTerm, hd]
  refine ⟨{ wf with rows_len := by simp [wf.rows_len], rows_ok := ?_ }, ?_, fun _ => inv.txt hd, inv.gsND, inv.grND⟩
  · intro r hr
    simp only [List.mem_map] at hr
    obtain ⟨r0, hr0, rfl⟩ := hr
    have h0 := wf.rows_ok r0 hr0
    refine ⟨by simp [h0.1], ?_⟩
    intro c hcm
    simp only [List.mem_map] at hcm
    obtain ⟨x, hx, rfl⟩ := hcm
    rw [ht]
    have hx0 := h0.2 x hx
    rw [ht0] at hx0
    exact symConvChar_ne_zero olds news hn hlen x hx0
  · intro h; rw [hdig] at h; cases h

theorem step_inv (m m' : Msa) (h : Step m m') (inv : Inv m) : Inv m' := by
  cases h with
  | col mask hm hok => exact columnSubset_inv m mask hm hok inv
  | rbb mask hok => exact rbb_inv m mask hok inv
  | setStr f idx s n =>
    have hs := setStr_same m f idx s n
    exact Inv_of_same_rows _ m (setStr_wf m inv.wf f idx s n) hs.flags hs.abc (fun r hr x hx => ⟨r, by rw [← hs.rows]; exact hr, hx⟩)
      (by rw [hs.gs]) (by rw [hs.gr]) inv
  | formatStr f idx out =>
    have hs := formatStr_same m f idx out
    exact Inv_of_same_rows _ m (formatStr_wf m inv.wf f idx out) hs.flags hs.abc (fun r hr x hx => ⟨r, by rw [← hs.rows]; exact hr, hx⟩)
      (by rw [hs.gs]) (by rw [hs.gr]) inv
  | digitize a hA hok => exact digitize_inv m a hA hok inv
  | textize hok => exact textize_inv m hok inv
  | revcomp hok => exact revcomp_inv m hok inv
  | flushLeft hd hok => exact flushLeft_inv m hd hok inv
  | markFragOld isFrag => exact markFragOld_inv m isFrag inv
  | seqSubset useme _ hb => exact seqSubset_inv m useme m' hb inv
  | degen2X hok => exact degen2X_inv m hok inv
  | defWgts => exact defWgts_inv m inv
  | symConv olds news hn hok => exact symConv_inv m olds news hn hok inv

/-- every history keeps the invariant -/
theorem steps_inv (m m' : Msa) (h : Steps m m') (inv : Inv m) : Inv m' := by
  induction h with
  | refl => exact inv
  | tail b c _ hbc ih => exact step_inv b c hbc ih

end EaselModel.Msa
