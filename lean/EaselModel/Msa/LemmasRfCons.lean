import EaselModel.Msa.Model2
/-! Lemmas: shape of the line written by `esl_msa_ReasonableRF(msa, symfrac, TRUE, rfline)`. -/
namespace EaselModel.Msa

theorem fCount_length {C : Type} (add : C → C → C) (divNat : C → Nat → C) (a : Abc) (ct : List C) (x : UInt8) (wt : C) :
    (fCount add divNat a ct x wt).length = ct.length := by
  unfold fCount
  split
  · simp
  · generalize List.range a.K = l
    induction l generalizing ct with
    | nil => rfl
    | cons y l ih =>
      simp only [List.foldl_cons]
      rw [ih]
      split <;> simp

theorem fArgMax_lt {C : Type} (gt : C → C → Bool) (d : C) (v : List C) (h : 0 < v.length) : fArgMax gt d v < v.length := by
  unfold fArgMax
  have key : ∀ (l : List Nat) (b : Nat), b < v.length → (∀ i ∈ l, i < v.length) →
      l.foldl (fun best i => if i ≥ 1 && gt (v.getD i d) (v.getD best d) then i else best) b < v.length := by
    intro l
    induction l with
    | nil => intro b hb _; exact hb
    | cons i l ih =>
      intro b hb hl
      simp only [List.foldl_cons]
      apply ih
      · split
        · exact hl i (by simp)
        · exact hb
      · intro j hj; exact hl j (by simp [hj])
  exact key _ 0 h (fun i hi => by simpa using hi)

/-- the line has `alen` characters; each is `.` or the symbol of one of the `K` canonical residues -/
theorem reasonableRFCons_shape {W C : Type} (A : WArith W) (B : CArith W C) (m : Msa) (a : Abc) (wgt : List W) (rf : Bytes)
    (habc : m.abc = some a) (hK : 0 < a.K) (h : reasonableRFCons A B m wgt = some rf) :
    rf.length = m.alen ∧ ∀ c ∈ rf, c = 0x2e ∨ ∃ k, k < a.K ∧ c = a.sym.getD k 0 := by
  unfold reasonableRFCons at h
  split at h
  · cases h
  · rw [habc] at h
    simp only [Option.some.injEq] at h
    subst h
    refine ⟨by simp, ?_⟩
    intro c hc
    simp only [List.mem_map] at hc
    obtain ⟨apos, _, rfl⟩ := hc
    split
    · right
      refine ⟨_, ?_, rfl⟩
      -- the count vector keeps its K cells through the column
      have hlen : ∀ (cells : List (UInt8 × W)) (acc : W × W × List C), acc.2.2.length = a.K →
          (cells.foldl (fun (acc : W × W × List C) cw =>
            if a.xIsResidue cw.1 then
              (A.add acc.1 cw.2, A.add acc.2.1 cw.2, fCount B.add B.divNat a acc.2.2 cw.1 (B.ofW cw.2))
            else if a.xIsGap cw.1 then (acc.1, A.add acc.2.1 cw.2, acc.2.2)
            else acc) acc).2.2.length = a.K := by
        intro cells
        induction cells with
        | nil => intro acc h; exact h
        | cons cw cells ih =>
          intro acc h
          simp only [List.foldl_cons]
          apply ih
          split
          · simp only; rw [fCount_length]; exact h
          · split <;> exact h
      have := hlen (((m.rows.take m.nseq).map (fun r => r.getD apos 0)).zip wgt) (A.zero, A.zero, List.replicate a.K B.zero)
        (by simp)
      have h2 := fArgMax_lt B.gt B.zero _ (by rw [this]; exact hK)
      rw [this] at h2
      exact h2
    · exact Or.inl rfl

end EaselModel.Msa
