import EaselModel.Msa.LemmasC2W
import EaselModel.Msa.LemmasGaps
/-! Lemmas: an SS line stays balanced WUSS through base-pair repair followed by column compaction (nested case). -/
namespace EaselModel.Msa

/-- dropping unpaired symbols does not disturb any of the 27 bracket languages -/
theorem dyckRun_maskFilter (k : Nat) : ∀ (mask : List Bool) (s : Bytes) (st : List UInt8), mask.length = s.length →
    removesOnlyGaps isUnpairedSym mask s → dyckRun k (maskFilter mask s) st = dyckRun k s st
  | [], [], st, _, _ => rfl
  | [], _ :: _, _, h, _ => by simp at h
  | _ :: _, [], _, h, _ => by simp at h
  | b :: mask, c :: s, st, hl, hg => by
    have hl' : mask.length = s.length := by simpa using hl
    cases b with
    | true =>
      simp only [maskFilter, if_true, dyckRun]
      split
      · exact dyckRun_maskFilter k mask s _ hl' hg.2
      · split
        · cases st with
          | nil => rfl
          | cons o st' =>
            simp only
            split
            · exact dyckRun_maskFilter k mask s _ hl' hg.2
            · rfl
        · exact dyckRun_maskFilter k mask s _ hl' hg.2
    | false =>
      have hu := hg.1 rfl
      have F := (cf c).2.2.2.2 hu
      have hoc : openerClass c = none := by simp [openerClass, F.2.1, F.2.2.2.1]
      have hcc : closerClass c = none := by simp [closerClass, F.2.2.1, F.2.2.2.2]
      simp only [maskFilter, Bool.false_eq_true, if_false, dyckRun, hoc, hcc]
      simp only [reduceCtorEq, if_false]
      exact dyckRun_maskFilter k mask s st hl' hg.2

/-- DNA/RNA ColumnSubset on a NESTED SS line: after the base-pair repair every removed column carries an unpaired
    symbol, so the compacted line is again a balanced WUSS string (accepted by `esl_wuss2ct`) -/
theorem repaired_then_compacted_balanced' (ss : Bytes) (mask : List Bool) (ct : List Nat) (h : wuss2ct ss = some ct)
    (hn : Nested ct) (hm : mask.length = ss.length) :
    ∃ ss', removeBrokenFromSS ss mask = .ok ss' ∧ ss'.length = ss.length ∧
      wuss2ct ss' = some (breakPairs mask 1 ss.length ct) ∧ ∃ ct2, wuss2ct (maskFilter mask ss') = some ct2 := by
  have hct := wuss2ct_ctOk ss ct h
  have hb := breakPairs_ctOk_nested mask ss.length ct hct
  obtain ⟨ss', h1⟩ := ct2wuss_nested_ok ss.length _ hb.1 (hb.2 hn)
  obtain ⟨hlen, hlab⟩ := ct2wuss_labels ss.length _ hb.1 (hb.2 hn) ss' h1
  have h2 := wuss2ct_of_labels' ss' _ (by rw [hlen]; exact hb.1) (hb.2 hn) hlab
  refine ⟨ss', by simp [removeBrokenFromSS, h, h1], hlen, h2, ?_⟩
  -- removed columns are unpaired in the repaired table, hence carry unpaired symbols
  have hrem : removesOnlyGaps isUnpairedSym mask ss' := by
    apply removesOnlyGaps_of_forall
    intro i h1' h2' h3
    have hz : (breakPairs mask 1 ss.length ct).getD (i+1) 0 = 0 := by
      rw [breakPairs_spec' mask ss.length ct hct (i+1)]
      rw [if_neg]
      intro hc
      have := hc.2.1
      simp only [Nat.add_sub_cancel] at this
      have h4 : mask.getD i false = false := by
        simp only [List.getD_eq_getElem?_getD, List.getElem?_eq_getElem h1', Option.getD_some] at h3 ⊢
        exact h3
      rw [h4] at this; cases this
    have := (hlab (i+1) (by omega) (by omega)).1 hz
    simpa using this
  have hacc := (wuss2ct_accepts_iff' ss').mp ⟨_, h2⟩
  apply (wuss2ct_accepts_iff' (maskFilter mask ss')).mpr
  refine ⟨fun c hc => hacc.1 c (mem_maskFilter _ _ _ hc), fun k hk => ?_⟩
  unfold balancedClass
  rw [dyckRun_maskFilter k mask ss' [] (by rw [hm, hlen]) hrem]
  exact hacc.2 k hk

end EaselModel.Msa

namespace EaselModel.Msa

/-- an SS line that is balanced WUSS without pseudoknot letters -/
def PlainSS (s : Bytes) : Prop := (∀ c ∈ s, isAlpha c = false) ∧ ∃ ct, wuss2ct s = some ct

end EaselModel.Msa
