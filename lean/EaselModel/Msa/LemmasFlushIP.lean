import EaselModel.Msa.LemmasFrag
import EaselModel.Msa.LemmasWuss
/-! Lemmas: the in-place row loop of `esl_msa_FlushLeftInserts` equals the left-to-right model `flushRow`. -/
namespace EaselModel.Msa

theorem gapFill_length (g : UInt8) : ∀ (n b : Nat) (buf : Bytes), (gapFill g n b buf).length = buf.length
  | 0, _, _ => rfl
  | n+1, b, buf => by simp [gapFill, gapFill_length g n]

theorem gapFill_getD (g : UInt8) : ∀ (n b : Nat) (buf : Bytes) (k : Nat), b + n ≤ buf.length →
    (gapFill g n b buf).getD k 0 = if b ≤ k ∧ k < b + n then g else buf.getD k 0
  | 0, b, buf, k, _ => by simp [gapFill]; intro h1 h2; omega
  | n+1, b, buf, k, h => by
    simp only [gapFill]
    rw [gapFill_getD g n (b+1) (buf.set b g) k (by simp; omega)]
    by_cases hk : k = b
    · subst hk
      have h1 : ¬ (k + 1 ≤ k ∧ k < k + 1 + n) := by omega
      have h2 : (k ≤ k ∧ k < k + (n + 1)) := by omega
      rw [if_neg h1, if_pos h2, getD_set_self _ _ _ _ (by omega)]
    · by_cases hin : b + 1 ≤ k ∧ k < b + 1 + n
      · rw [if_pos hin, if_pos (by omega)]
      · rw [if_neg hin, if_neg (by omega), getD_set_ne _ _ _ _ _ (fun e => hk e.symm)]

theorem bytes_ext_getD (x y : Bytes) (hl : x.length = y.length) (h : ∀ k, k < x.length → x.getD k 0 = y.getD k 0) : x = y := by
  apply List.ext_getElem hl
  intro k h1 h2
  have := h k h1
  simpa [List.getD_eq_getElem?_getD, List.getElem?_eq_getElem h1, List.getElem?_eq_getElem h2] using this

/-- the in-place loop and the left-to-right model agree: as long as `b <= a` the cells from `a` on are still the original
    ones, so every `ax[a]` read sees the original residue -/
theorem flushIP_eq (abc : Abc) (rf row : Bytes) (alen : Nat) (hrf : rf.length = alen) (hrow : row.length = alen) :
    ∀ (fuel a : Nat) (buf out : Bytes), alen ≤ a + fuel → a ≤ alen → buf.length = alen → out.length ≤ a →
      (∀ k, k < out.length → buf.getD k 0 = out.getD k 0) → (∀ k, a ≤ k → buf.getD k 0 = row.getD k 0) →
      flushIP abc rf alen fuel a out.length buf =
        (let o := flushGo abc (rf.drop a) (row.drop a) a out; o ++ List.replicate (alen - o.length) abc.xGap) := by
  intro fuel
  induction fuel with
  | zero =>
    intro a buf out hf ha hbl hol hpre hsuf
    have : a = alen := by omega
    subst this
    have e1 : rf.drop a = [] := List.drop_eq_nil_of_le (by omega)
    simp only [flushIP, e1, flushGo]
    apply bytes_ext_getD
    · rw [gapFill_length]; simp; omega
    · intro k hk
      rw [gapFill_length] at hk
      rw [gapFill_getD _ _ _ _ _ (by omega)]
      by_cases h1 : k < out.length
      · rw [if_neg (by omega), hpre k h1, List.getD_eq_getElem?_getD, List.getD_eq_getElem?_getD, List.getElem?_append_left h1]
      · rw [if_pos (by omega), List.getD_eq_getElem?_getD, List.getElem?_append_right (by omega), List.getElem?_replicate,
            if_pos (by omega)]
        rfl
  | succ fuel ih =>
    intro a buf out hf ha hbl hol hpre hsuf
    unfold flushIP
    by_cases hend : a ≥ alen
    · rw [if_pos hend]
      have : a = alen := by omega
      subst this
      have e1 : rf.drop a = [] := List.drop_eq_nil_of_le (by omega)
      simp only [e1, flushGo]
      apply bytes_ext_getD
      · rw [gapFill_length]; simp; omega
      · intro k hk
        rw [gapFill_length] at hk
        rw [gapFill_getD _ _ _ _ _ (by omega)]
        by_cases h1 : k < out.length
        · rw [if_neg (by omega), hpre k h1, List.getD_eq_getElem?_getD, List.getD_eq_getElem?_getD, List.getElem?_append_left h1]
        · rw [if_pos (by omega), List.getD_eq_getElem?_getD, List.getElem?_append_right (by omega), List.getElem?_replicate,
              if_pos (by omega)]
          rfl
    · rw [if_neg hend]
      have halt : a < alen := by omega
      have drf : rf.drop a = rf.getD a 0 :: rf.drop (a+1) := by
        rw [List.drop_eq_getElem_cons (by omega)]
        simp [List.getD_eq_getElem?_getD, List.getElem?_eq_getElem (show a < rf.length by omega)]
      have drow : row.drop a = row.getD a 0 :: row.drop (a+1) := by
        rw [List.drop_eq_getElem_cons (by omega)]
        simp [List.getD_eq_getElem?_getD, List.getElem?_eq_getElem (show a < row.length by omega)]
      have hba : buf.getD a 0 = row.getD a 0 := hsuf a (Nat.le_refl _)
      rw [drf, drow]
      simp only [flushGo]
      by_cases hcons : abc.cIsGap (rf.getD a 0) = false
      · simp only [hcons, Bool.not_false, if_true]
        -- consensus column: catch b up to a with gaps, then copy
        have hb1 : (if out.length < a then a else out.length) = a := by split <;> omega
        rw [hb1]
        have hg := gapFill_getD abc.xGap (a - out.length) out.length buf
        have hnew : (out ++ List.replicate (a - out.length) abc.xGap ++ [row.getD a 0]).length = a + 1 := by simp; omega
        have hl2 : (out ++ List.replicate (a - out.length) abc.xGap).length = a := by simp; omega
        have := ih (a+1) ((gapFill abc.xGap (a - out.length) out.length buf).set a
            ((gapFill abc.xGap (a - out.length) out.length buf).getD a 0))
          (out ++ List.replicate (a - out.length) abc.xGap ++ [row.getD a 0]) (by omega) (by omega)
          (by simp [gapFill_length, hbl]) (by omega) ?_ ?_
        · rw [hnew] at this; exact this
        · intro k hk
          rw [hnew] at hk
          by_cases hka : k = a
          · subst hka
            rw [getD_set_self _ _ _ _ (by rw [gapFill_length]; omega), hg k (by omega), if_neg (by omega), hba]
            rw [List.getD_eq_getElem?_getD (l := _ ++ [_]), List.getElem?_append_right (by rw [hl2]; exact Nat.le_refl _), hl2]
            simp
          · rw [getD_set_ne _ _ _ _ _ (fun e => hka e.symm), hg k (by omega)]
            rw [List.getD_eq_getElem?_getD (l := _ ++ [_]), List.getElem?_append_left (by rw [hl2]; omega)]
            by_cases h1 : k < out.length
            · rw [if_neg (by omega), hpre k h1, List.getElem?_append_left h1, List.getD_eq_getElem?_getD]
            · rw [if_pos (by omega), List.getElem?_append_right (by omega), List.getElem?_replicate, if_pos (by omega)]
              rfl
        · intro k hk
          rw [getD_set_ne _ _ _ _ _ (by omega), hg k (by omega), if_neg (by omega)]
          exact hsuf k (by omega)
      · have hc' : abc.cIsGap (rf.getD a 0) = true := by simpa using hcons
        simp only [hc', Bool.not_true, Bool.false_eq_true, if_false]
        rw [hba]
        by_cases hxg : abc.xIsGap (row.getD a 0) = true
        · simp only [hxg, if_true]
          exact ih (a+1) buf out (by omega) (by omega) hbl (by omega) hpre (fun k hk => hsuf k (by omega))
        · simp only [hxg, Bool.false_eq_true, if_false]
          have hnew : (out ++ [row.getD a 0]).length = out.length + 1 := by simp
          have := ih (a+1) (buf.set out.length (row.getD a 0)) (out ++ [row.getD a 0]) (by omega) (by omega)
            (by simp [hbl]) (by rw [hnew]; omega) ?_ ?_
          · rw [hnew] at this; exact this
          · intro k hk
            rw [hnew] at hk
            by_cases hkb : k = out.length
            · subst hkb
              rw [getD_set_self _ _ _ _ (by omega), List.getD_eq_getElem?_getD (l := _ ++ [_]),
                  List.getElem?_append_right (Nat.le_refl _)]
              simp
            · rw [getD_set_ne _ _ _ _ _ (fun e => hkb e.symm), hpre k (by omega),
                  List.getD_eq_getElem?_getD (l := _ ++ [_]), List.getElem?_append_left (by omega), List.getD_eq_getElem?_getD]
          · intro k hk
            rw [getD_set_ne _ _ _ _ _ (by omega)]
            exact hsuf k (by omega)

/-- THE IN-PLACE LOOP OF `esl_msa_FlushLeftInserts` computes `flushRow` -/
theorem flushIP_is_flushRow (abc : Abc) (rf row : Bytes) (alen : Nat) (hrf : rf.length = alen) (hrow : row.length = alen) :
    flushIP abc rf alen (alen + 1) 0 0 row = flushRow abc rf alen row := by
  have := flushIP_eq abc rf row alen hrf hrow (alen+1) 0 row [] (by omega) (by omega) hrow (by simp)
    (fun k hk => by simp at hk) (fun k _ => rfl)
  simp only [List.length_nil, List.drop_zero] at this
  rw [this]
  unfold flushRow
  rw [List.take_of_length_le (by omega), List.take_of_length_le (by omega)]

/-- on a well-formed alignment the in-place routine and the left-to-right model give the same alignment -/
theorem flushLeftInsertsIP_eq (m : Msa) (wf : m.WF) : flushLeftInsertsIP m = flushLeftInserts m := by
  unfold flushLeftInsertsIP flushLeftInserts
  cases hrf : m.rf with
  | none => rfl
  | some rf =>
    cases habc : m.abc with
    | none => rfl
    | some a =>
      simp only
      congr 2
      apply List.map_congr_left
      intro r hr
      exact flushIP_is_flushRow a rf r m.alen (wf.rf_ok rf hrf).1 (wf.rows_ok r hr).1

end EaselModel.Msa
