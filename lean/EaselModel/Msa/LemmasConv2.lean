import EaselModel.Msa.Model2
import EaselModel.Msa.Spec
/-! Lemmas: `esl_msa_Hash` / `CheckUniqueNames` (names unique), `esl_msa_ConvertDegen2X`, `esl_msa_SymConvert`,
    `esl_msa_Checksum`, `esl_msa_SetDefaultWeights`, `esl_msa_ReasonableRF`. -/
namespace EaselModel.Msa

/-! ### name index -/

theorem firstDup_none_iff : ∀ (names seen : List Bytes) (idx : Nat),
    firstDup seen names idx = none ↔ (names.Nodup ∧ ∀ n ∈ names, n ∉ seen)
  | [], seen, idx => by simp [firstDup]
  | n :: rest, seen, idx => by
    unfold firstDup
    by_cases h : n ∈ seen
    · have : seen.contains n = true := by simpa using h
      rw [if_pos this]
      constructor
      · intro hh; cases hh
      · intro hh; exact absurd h (hh.2 n (by simp))
    · have : ¬ (seen.contains n = true) := by simpa using h
      rw [if_neg this, firstDup_none_iff rest (n :: seen) (idx+1)]
      simp only [List.nodup_cons, List.mem_cons, not_or]
      constructor
      · rintro ⟨h1, h2⟩
        refine ⟨⟨fun hm => (h2 n hm).1 rfl, h1⟩, ?_⟩
        intro x hx
        rcases hx with rfl | hx
        · exact h
        · exact (h2 x hx).2
      · rintro ⟨⟨h1, h2⟩, h3⟩
        refine ⟨h2, fun x hx => ⟨fun e => h1 (e ▸ hx), h3 x (Or.inr hx)⟩⟩

theorem hashNames_ok_iff' (m : Msa) : hashNames m = .ok ↔ (m.sqname.take m.nseq).Nodup := by
  unfold hashNames
  cases h : firstDup [] (m.sqname.take m.nseq) 0 with
  | none =>
    have := (firstDup_none_iff _ _ _).1 h
    simp [this.1]
  | some k =>
    simp only [reduceCtorEq, false_iff]
    intro hn
    have := (firstDup_none_iff (m.sqname.take m.nseq) [] 0).2 ⟨hn, by simp⟩
    rw [h] at this; cases this

theorem hashNames_cases (m : Msa) : hashNames m = .ok ∨ hashNames m = .edup := by
  unfold hashNames; cases firstDup [] (m.sqname.take m.nseq) 0 <;> simp

theorem checkUniqueNames_eq (m : Msa) :
    checkUniqueNames m = (match hashNames m with | .ok => .ok | _ => .efail) := by
  unfold checkUniqueNames hashNames; cases firstDup [] (m.sqname.take m.nseq) 0 <;> rfl

/-! ### ConvertDegen2X -/

/-- the shape of an Easel alphabet that the conversion relies on: at least one degenerate code (the unknown residue
    `Kp-3` lies strictly above the gap code `K`), and codes fit in a byte below the sentinel -/
def Abc.degenOk (a : Abc) : Prop := a.K + 3 < a.Kp ∧ a.Kp ≤ 255

theorem xUnknown_toNat (a : Abc) (h : a.degenOk) : a.xUnknown.toNat = a.Kp - 3 := by
  unfold Abc.xUnknown
  rw [UInt8.toNat_ofNat']
  have := h.2
  omega

theorem degen2X_cell (a : Abc) (h : a.degenOk) (x : UInt8) :
    a.xIsResidue (degenCell a x) = a.xIsResidue x ∧ a.xIsGap (degenCell a x) = a.xIsGap x ∧
    a.xIsMissing (degenCell a x) = a.xIsMissing x ∧
    (a.xIsDegenerate (degenCell a x) = true → degenCell a x = a.xUnknown) ∧
    (a.xIsDegenerate x = false → degenCell a x = x) ∧ (x ≠ dsqSentinel → degenCell a x ≠ dsqSentinel) ∧
    (x.toNat < a.Kp → (degenCell a x).toNat < a.Kp) := by
  have hu := xUnknown_toNat a h
  have h1 := h.1
  have h2 := h.2
  unfold degenCell
  by_cases hd : a.xIsDegenerate x = true
  · rw [if_pos hd]
    have hd' := hd
    simp only [Abc.xIsDegenerate, Bool.and_eq_true, decide_eq_true_eq] at hd'
    refine ⟨?_, ?_, ?_, fun _ => rfl, fun hh => ?_, ?_, ?_⟩
    · simp only [Abc.xIsResidue, hu]
      have e1 : decide (a.Kp - 3 < a.K) = false := by simp; omega
      have e2 : decide (a.Kp - 3 > a.K) = true := by simp; omega
      have e3 : decide (a.Kp - 3 < a.Kp - 2) = true := by simp; omega
      have e4 : decide (x.toNat > a.K) = true := by simp; omega
      have e5 : decide (x.toNat < a.Kp - 2) = true := by simp; omega
      rw [e1, e2, e3, e4, e5]; simp
    · simp only [Abc.xIsGap, hu]
      have e1 : (a.Kp - 3 == a.K) = false := by simp; omega
      have e2 : (x.toNat == a.K) = false := by simp; omega
      rw [e1, e2]
    · simp only [Abc.xIsMissing, hu]
      have e1 : (a.Kp - 3 == a.Kp - 1) = false := by simp; omega
      have e2 : (x.toNat == a.Kp - 1) = false := by simp; omega
      rw [e1, e2]
    · rw [hd] at hh; cases hh
    · intro _ hc
      have := congrArg UInt8.toNat hc
      rw [hu] at this
      have hs : dsqSentinel.toNat = 255 := by decide
      rw [hs] at this
      omega
    · intro _; rw [hu]; omega
  · have hd' : a.xIsDegenerate x = false := by
      cases hh : a.xIsDegenerate x with
      | false => rfl
      | true => exact absurd hh hd
    rw [if_neg hd]
    refine ⟨rfl, rfl, rfl, fun hh => ?_, fun _ => rfl, fun hh => hh, fun hh => hh⟩
    rw [hd'] at hh; cases hh

theorem degen2XRow_length (a : Abc) (r : Bytes) : (degen2XRow a r).length = r.length := by simp [degen2XRow]

theorem degenCell_idem (a : Abc) (x : UInt8) : degenCell a (degenCell a x) = degenCell a x := by
  unfold degenCell
  by_cases hd : a.xIsDegenerate x = true
  · rw [if_pos hd]
    by_cases hu : a.xIsDegenerate a.xUnknown = true
    · rw [if_pos hu]
    · rw [if_neg hu]
  · rw [if_neg hd, if_neg hd]

theorem degen2XRow_idem (a : Abc) (r : Bytes) : degen2XRow a (degen2XRow a r) = degen2XRow a r := by
  simp only [degen2XRow, List.map_map]
  apply List.map_congr_left
  intro x _
  simp only [Function.comp]
  exact degenCell_idem a x

/-- the ungapped sequence keeps its length and positions: the residue / gap / missing pattern of a row is unchanged -/
theorem degen2XRow_pattern (a : Abc) (h : a.degenOk) (r : Bytes) :
    (degen2XRow a r).map a.xIsResidue = r.map a.xIsResidue ∧ (degen2XRow a r).map a.xIsGap = r.map a.xIsGap ∧
    (degen2XRow a r).map a.xIsMissing = r.map a.xIsMissing := by
  simp only [degen2XRow, List.map_map]
  refine ⟨?_, ?_, ?_⟩ <;> apply List.map_congr_left <;> intro x _ <;> simp only [Function.comp]
  · exact (degen2X_cell a h x).1
  · exact (degen2X_cell a h x).2.1
  · exact (degen2X_cell a h x).2.2.1

theorem convertDegen2X_wf (a : Abc) (h : a.degenOk) (m : Msa) (wf : m.WF) (hd : m.isDigital = true) :
    ({ m with rows := m.rows.map (degen2XRow a) } : Msa).WF := by
  refine { wf with rows_len := by simp [wf.rows_len], rows_ok := ?_ }
  intro r hr
  simp only [List.mem_map] at hr
  obtain ⟨r0, hr0, rfl⟩ := hr
  have h0 := wf.rows_ok r0 hr0
  refine ⟨by rw [degen2XRow_length]; exact h0.1, ?_⟩
  intro c hc
  simp only [degen2XRow, List.mem_map] at hc
  obtain ⟨x, hx, rfl⟩ := hc
  have hx' := h0.2 x hx
  have ht : Msa.rowTerm { m with rows := m.rows.map (degen2XRow a) } = dsqSentinel := by
    simp [Msa.rowTerm, Msa.isDigital] at hd ⊢; simp [hd]
  have ht0 : m.rowTerm = dsqSentinel := by simp [Msa.rowTerm, hd]
  rw [ht]; rw [ht0] at hx'
  exact (degen2X_cell a h x).2.2.2.2.2.1 hx'

/-! ### SymConvert -/

theorem symConvChar_not_mem (olds news : Bytes) (c : UInt8) (h : c ∉ olds) : symConvChar olds news c = c := by
  unfold symConvChar
  have : olds.findIdx? (· == c) = none := by
    rw [List.findIdx?_eq_none_iff]
    intro x hx
    simp only [beq_iff_eq, Bool.not_eq_true, beq_eq_false_iff_ne, ne_eq]
    intro e; subst e; exact h hx
  rw [this]

theorem symConvChar_mem (olds news : Bytes) (c : UInt8) (h : c ∈ olds) :
    ∃ k, k < olds.length ∧ olds.getD k 0 = c ∧ (∀ j, j < k → olds.getD j 0 ≠ c) ∧
      symConvChar olds news c = if news.length == 1 then news.getD 0 0 else news.getD k 0 := by
  unfold symConvChar
  cases hf : olds.findIdx? (· == c) with
  | none =>
    rw [List.findIdx?_eq_none_iff] at hf
    have := hf c h
    simp at this
  | some k =>
    rw [List.findIdx?_eq_some_iff_getElem] at hf
    obtain ⟨hk, hkc, hbefore⟩ := hf
    refine ⟨k, hk, ?_, ?_, rfl⟩
    · simp only [beq_iff_eq] at hkc
      simp [List.getD_eq_getElem?_getD, List.getElem?_eq_getElem hk, hkc]
    · intro j hj
      have := hbefore j hj
      simp only [beq_iff_eq, Bool.not_eq_true, beq_eq_false_iff_ne, ne_eq] at this
      simp only [List.getD_eq_getElem?_getD, List.getElem?_eq_getElem (Nat.lt_trans hj hk), Option.getD_some, ne_eq]
      exact this

theorem symConvert_rows (m : Msa) (wf : m.WF) (olds news : Bytes) :
    m.rows.map (fun r => (r.take m.alen).map (symConvChar olds news) ++ r.drop m.alen) =
    m.rows.map (fun r => r.map (symConvChar olds news)) := by
  apply List.map_congr_left
  intro r hr
  have hl := (wf.rows_ok r hr).1
  rw [List.take_of_length_le (by omega), List.drop_of_length_le (by omega), List.append_nil]

theorem symConvChar_ne_zero (olds news : Bytes) (hn : ∀ x ∈ news, x ≠ 0) (hlen : olds.length = news.length ∨ news.length = 1)
    (c : UInt8) (hc : c ≠ 0) : symConvChar olds news c ≠ 0 := by
  by_cases hm : c ∈ olds
  · obtain ⟨k, hk, _, _, e⟩ := symConvChar_mem olds news c hm
    rw [e]
    by_cases h1 : news.length = 1
    · simp only [h1, beq_self_eq_true, if_true]
      apply hn
      simp only [List.getD_eq_getElem?_getD, List.getElem?_eq_getElem (by omega : 0 < news.length), Option.getD_some]
      exact List.getElem_mem _
    · have h1' : (news.length == 1) = false := by simpa using h1
      rw [h1']; simp only [Bool.false_eq_true, if_false]
      have hk' : k < news.length := by rcases hlen with h | h <;> omega
      apply hn
      simp only [List.getD_eq_getElem?_getD, List.getElem?_eq_getElem hk', Option.getD_some]
      exact List.getElem_mem _
  · rw [symConvChar_not_mem olds news c hm]; exact hc

/-! ### Checksum -/

theorem checksum_flat (m : Msa) (wf : m.WF) :
    checksum m = jenkinsFinal (m.rows.flatten.foldl (fun v c => jenkinsStep v (cellWord m.isDigital c)) 0) := by
  unfold checksum
  congr 1
  rw [List.take_of_length_le (by rw [wf.rows_len]; exact Nat.le_refl _), List.foldl_flatten]
  have : ∀ (l : List Bytes) (v : UInt32), (∀ r ∈ l, r.length = m.alen) →
      l.foldl (fun v r => (r.take m.alen).foldl (fun v c => jenkinsStep v (cellWord m.isDigital c)) v) v =
      l.foldl (fun v r => r.foldl (fun v c => jenkinsStep v (cellWord m.isDigital c)) v) v := by
    intro l
    induction l with
    | nil => intros; rfl
    | cons r t ih =>
      intro v h
      simp only [List.foldl_cons]
      rw [List.take_of_length_le (by rw [h r (by simp)]; exact Nat.le_refl _)]
      exact ih _ (fun r' hr' => h r' (by simp [hr']))
  exact this m.rows 0 (fun r hr => (wf.rows_ok r hr).1)

/-! ### SetDefaultWeights -/

theorem setDefaultWeights_spec (m : Msa) :
    (setDefaultWeights m).wgt = List.replicate m.wgt.length 0x3ff0000000000000 ∧
    (setDefaultWeights m).hasWgts = false ∧ (setDefaultWeights m).isDigital = m.isDigital ∧
    setDefaultWeights m = { m with wgt := (setDefaultWeights m).wgt, flags := (setDefaultWeights m).flags } := by
  refine ⟨?_, ?_, ?_, rfl⟩
  · simp only [setDefaultWeights]
    apply List.ext_getElem (by simp)
    intro i h1 h2; simp
  · simp only [setDefaultWeights, Msa.hasWgts]
    have : (m.flags - m.flags % 2) % 2 = 0 := by omega
    simp [this]
  · simp only [setDefaultWeights, Msa.isDigital]
    have : (m.flags - m.flags % 2) / 2 = m.flags / 2 := by omega
    rw [this]

/-! ### ReasonableRF -/

theorem rfColumn_cases {W : Type} (A : WArith W) (isRes isGapLike : UInt8 → Bool) (cells : List (UInt8 × W)) :
    rfColumn A isRes isGapLike cells = 0x78 ∨ rfColumn A isRes isGapLike cells = 0x2e := by
  unfold rfColumn
  generalize List.foldl _ _ cells = p
  obtain ⟨r, t⟩ := p
  simp only []
  by_cases h : A.isCons r t = true <;> simp [h]

theorem rfFold_fst {W : Type} (A : WArith W) (isRes isGapLike : UInt8 → Bool) : ∀ (cells : List (UInt8 × W)) (acc : W × W),
    (∀ cw ∈ cells, isRes cw.1 = false) →
    (cells.foldl (fun (acc : W × W) cw =>
      if isRes cw.1 then (A.add acc.1 cw.2, A.add acc.2 cw.2)
      else if isGapLike cw.1 then (acc.1, A.add acc.2 cw.2)
      else acc) acc).1 = acc.1
  | [], acc, _ => rfl
  | cw :: rest, acc, h => by
    simp only [List.foldl_cons]
    have h0 := h cw (by simp)
    rw [h0]
    simp only [Bool.false_eq_true, if_false]
    by_cases hg : isGapLike cw.1 = true
    · rw [if_pos hg, rfFold_fst A isRes isGapLike rest _ (fun c hc => h c (by simp [hc]))]
    · rw [if_neg hg, rfFold_fst A isRes isGapLike rest _ (fun c hc => h c (by simp [hc]))]

/-- a column in which no sequence has a residue is never a consensus column (`r > 0.` fails) -/
theorem rfColumn_no_residue {W : Type} (A : WArith W) (hA : ∀ t, A.isCons A.zero t = false) (isRes isGapLike : UInt8 → Bool)
    (cells : List (UInt8 × W)) (h : ∀ cw ∈ cells, isRes cw.1 = false) : rfColumn A isRes isGapLike cells = 0x2e := by
  unfold rfColumn
  have := rfFold_fst A isRes isGapLike cells (A.zero, A.zero) h
  generalize List.foldl _ _ cells = p at this
  obtain ⟨r, t⟩ := p
  simp only [] at this ⊢
  subst this
  simp [hA t]

end EaselModel.Msa
