import EaselModel.Msa.LemmasWuss
/-! Lemmas: `esl_wuss2ct` accepts a string iff every symbol is legal and each of the 27 bracket languages
    (class 0 = `<>`, `()`, `[]`, `{}` sharing one stack; classes 1..26 = the letters `Aa`..`Zz`) is balanced and
    properly matched — each language checked on its own by the textbook single-stack recogniser `dyckRun`. -/
namespace EaselModel.Msa

/-- class of a closing symbol -/
def closerClass (c : UInt8) : Option Nat :=
  if isCloseBr c then some 0 else if isLower c then some (pkIndex c) else none

/-- in class 0 the closing bracket must be the partner of the opening one; a letter class has one kind of pair -/
def closes (k : Nat) (o c : UInt8) : Bool := if k = 0 then closerOf o == c else true

def legalSym (c : UInt8) : Bool := isOpenBr c || isCloseBr c || isUpper c || isLower c || isUnpairedSym c

/-- SPEC recogniser of ONE bracket language: symbols of other classes are skipped; the stack holds open symbols -/
def dyckRun (k : Nat) : Bytes → List UInt8 → Option (List UInt8)
  | [], st => some st
  | c :: rest, st =>
    if openerClass c = some k then dyckRun k rest (c :: st)
    else if closerClass c = some k then
      match st with
      | [] => none
      | o :: st' => if closes k o c then dyckRun k rest st' else none
    else dyckRun k rest st

def balancedClass (k : Nat) (ss : Bytes) : Prop := dyckRun k ss [] = some []

/-- the open symbols waiting on stack `k` of the C code -/
def symStack (ss : Bytes) (pda : List (List Nat)) (k : Nat) : List UInt8 :=
  (pda.getD k []).map (fun p => ss.getD (p-1) 0)

theorem class_facts : ∀ n, n < 256 →
    (isOpenBr (UInt8.ofNat n) = true → isCloseBr (UInt8.ofNat n) = false ∧ isUpper (UInt8.ofNat n) = false ∧
        isLower (UInt8.ofNat n) = false ∧ isPrint (UInt8.ofNat n) = true) ∧
    (isCloseBr (UInt8.ofNat n) = true → isUpper (UInt8.ofNat n) = false ∧ isLower (UInt8.ofNat n) = false ∧
        isPrint (UInt8.ofNat n) = true) ∧
    (isUpper (UInt8.ofNat n) = true → isLower (UInt8.ofNat n) = false ∧ isPrint (UInt8.ofNat n) = true) ∧
    (isLower (UInt8.ofNat n) = true → isPrint (UInt8.ofNat n) = true) ∧
    (isUnpairedSym (UInt8.ofNat n) = true → isPrint (UInt8.ofNat n) = true ∧ isOpenBr (UInt8.ofNat n) = false ∧
        isCloseBr (UInt8.ofNat n) = false ∧ isUpper (UInt8.ofNat n) = false ∧ isLower (UInt8.ofNat n) = false) := by
  decide +kernel

theorem cf (c : UInt8) :
    (isOpenBr c = true → isCloseBr c = false ∧ isUpper c = false ∧ isLower c = false ∧ isPrint c = true) ∧
    (isCloseBr c = true → isUpper c = false ∧ isLower c = false ∧ isPrint c = true) ∧
    (isUpper c = true → isLower c = false ∧ isPrint c = true) ∧
    (isLower c = true → isPrint c = true) ∧
    (isUnpairedSym c = true → isPrint c = true ∧ isOpenBr c = false ∧ isCloseBr c = false ∧ isUpper c = false ∧
        isLower c = false) := by
  have := class_facts c.toNat (UInt8.toNat_lt c)
  rw [ofNat_toNat] at this; exact this

theorem all_empty_iff (pda : List (List Nat)) (h : pda.length = 27) :
    pda.all (fun s => s.isEmpty) = true ↔ ∀ k, k < 27 → pda.getD k [] = [] := by
  rw [List.all_eq_true]
  constructor
  · intro hall k hk
    have hk' : k < pda.length := by omega
    have := hall (pda[k]) (List.getElem_mem hk')
    simp only [List.getD_eq_getElem?_getD, List.getElem?_eq_getElem hk', Option.getD_some]
    simpa [-List.getD_eq_getElem?_getD] using this
  · intro hk s hs
    obtain ⟨i, hi, rfl⟩ := List.getElem_of_mem hs
    have := hk i (by omega)
    simp only [List.getD_eq_getElem?_getD, List.getElem?_eq_getElem hi, Option.getD_some] at this
    simp [-List.getD_eq_getElem?_getD, this]

theorem symStack_push_same (ss : Bytes) (pda : List (List Nat)) (k pos : Nat) (hk : k < pda.length) :
    symStack ss (pushAt pda k pos) k = ss.getD (pos-1) 0 :: symStack ss pda k := by
  simp [-List.getD_eq_getElem?_getD, symStack, pushAt, getD_set_self _ _ _ _ hk]

theorem symStack_push_other (ss : Bytes) (pda : List (List Nat)) (k k' pos : Nat) (h : k ≠ k') :
    symStack ss (pushAt pda k pos) k' = symStack ss pda k' := by
  simp [-List.getD_eq_getElem?_getD, symStack, pushAt, getD_set_ne _ _ _ _ _ h]

theorem symStack_set_same (ss : Bytes) (pda : List (List Nat)) (k : Nat) (tl : List Nat) (hk : k < pda.length) :
    symStack ss (pda.set k tl) k = tl.map (fun p => ss.getD (p-1) 0) := by
  simp [-List.getD_eq_getElem?_getD, symStack, getD_set_self _ _ _ _ hk]

theorem symStack_set_other (ss : Bytes) (pda : List (List Nat)) (k k' : Nat) (tl : List Nat) (h : k ≠ k') :
    symStack ss (pda.set k tl) k' = symStack ss pda k' := by
  simp [-List.getD_eq_getElem?_getD, symStack, getD_set_ne _ _ _ _ _ h]

/-- success of the 27-stack loop (with all stacks empty at the end) = every symbol legal and every class balanced -/
theorem w2cLoop_iff (ss : Bytes) : ∀ (rest : Bytes) (pos : Nat) (pda : List (List Nat)) (ct : List Nat),
    ss.drop (pos-1) = rest → 1 ≤ pos → pda.length = 27 →
    ((∃ pda' ct', w2cLoop ss rest pos pda ct = some (pda', ct') ∧ pda'.all (fun s => s.isEmpty) = true) ↔
     ((∀ c ∈ rest, legalSym c = true) ∧ ∀ k, k < 27 → dyckRun k rest (symStack ss pda k) = some [])) := by
  intro rest
  induction rest with
  | nil =>
    intro pos pda ct _ _ hlen
    simp only [w2cLoop, Option.some.injEq, Prod.mk.injEq, List.not_mem_nil, false_implies, implies_true, true_and,
               dyckRun]
    constructor
    · rintro ⟨pda', ct', ⟨rfl, rfl⟩, hall⟩ k hk
      have := (all_empty_iff pda hlen).mp hall k hk
      simp [-List.getD_eq_getElem?_getD, symStack, this]
    · intro h
      refine ⟨pda, ct, ⟨rfl, rfl⟩, (all_empty_iff pda hlen).mpr (fun k hk => ?_)⟩
      have := h k hk
      simp only [symStack, List.map_eq_nil_iff] at this
      exact this
  | cons c rest ih =>
    intro pos pda ct hd hpos hlen
    obtain ⟨hc, hlt, hdrop⟩ := drop_cons_getD ss (pos-1) c rest hd
    have hd' : ss.drop (pos + 1 - 1) = rest := by
      have : pos + 1 - 1 = pos - 1 + 1 := by omega
      rw [this]; exact hdrop
    have F := cf c
    -- how the spec recogniser of class k moves on symbol c
    have hmem : (∀ c' ∈ c :: rest, legalSym c' = true) ↔ (legalSym c = true ∧ ∀ c' ∈ rest, legalSym c' = true) := by
      simp
    rw [hmem]
    by_cases hpr : isPrint c = true
    · by_cases hob : isOpenBr c = true
      · -- opening bracket: class 0 pushes
        have hstep : w2cLoop ss (c :: rest) pos pda ct = w2cLoop ss rest (pos+1) (pushAt pda 0 pos) ct := by
          simp [-List.getD_eq_getElem?_getD, w2cLoop, hpr, hob]
        rw [hstep, ih (pos+1) (pushAt pda 0 pos) ct hd' (by omega) (by simp [-List.getD_eq_getElem?_getD, pushAt, hlen])]
        have hleg : legalSym c = true := by simp [-List.getD_eq_getElem?_getD, legalSym, hob]
        have hoc : openerClass c = some 0 := by simp [-List.getD_eq_getElem?_getD, openerClass, hob]
        have hcc : closerClass c = none := by simp [-List.getD_eq_getElem?_getD, closerClass, (F.1 hob).1, (F.1 hob).2.2.1]
        simp only [hleg, true_and]
        apply and_congr_right; intro _
        apply forall_congr'; intro k; apply imp_congr_right; intro hk
        by_cases hk0 : k = 0
        · subst hk0
          rw [symStack_push_same ss pda 0 pos (by omega), hc]
          simp [-List.getD_eq_getElem?_getD, dyckRun, hoc]
        · rw [symStack_push_other ss pda 0 k pos (fun e => hk0 e.symm)]
          have : ¬ (openerClass c = some k) := by rw [hoc]; intro e; injection e with e; exact hk0 e.symm
          simp [-List.getD_eq_getElem?_getD, dyckRun, this, hcc]
      · have hobf : isOpenBr c = false := by simpa using hob
        by_cases hcb : isCloseBr c = true
        · -- closing bracket: class 0 pops
          have hleg : legalSym c = true := by simp [-List.getD_eq_getElem?_getD, legalSym, hcb]
          have hoc : openerClass c = none := by simp [-List.getD_eq_getElem?_getD, openerClass, hobf, (F.2.1 hcb).1]
          have hcc : closerClass c = some 0 := by simp [-List.getD_eq_getElem?_getD, closerClass, hcb]
          cases hs : pda.getD 0 [] with
          | nil =>
            have hstep : w2cLoop ss (c :: rest) pos pda ct = none := by simp [-List.getD_eq_getElem?_getD, w2cLoop, hpr, hobf, hcb, hs]
            rw [hstep]
            constructor
            · rintro ⟨_, _, h, _⟩; cases h
            · rintro ⟨_, h⟩
              have := h 0 (by omega)
              simp [-List.getD_eq_getElem?_getD, dyckRun, hoc, hcc, symStack, hs] at this
          | cons pair tl =>
            by_cases hmt : closerOf (ss.getD (pair-1) 0) = c
            · have hstep : w2cLoop ss (c :: rest) pos pda ct =
                  w2cLoop ss rest (pos+1) (pda.set 0 tl) ((ct.set pos pair).set pair pos) := by
                simp [-List.getD_eq_getElem?_getD, w2cLoop, hpr, hobf, hcb, hs, hmt]
              rw [hstep, ih (pos+1) (pda.set 0 tl) _ hd' (by omega) (by simp [-List.getD_eq_getElem?_getD, hlen])]
              simp only [hleg, true_and]
              apply and_congr_right; intro _
              apply forall_congr'; intro k; apply imp_congr_right; intro hk
              by_cases hk0 : k = 0
              · subst hk0
                rw [symStack_set_same ss pda 0 tl (by omega)]
                simp [-List.getD_eq_getElem?_getD, dyckRun, hoc, hcc, symStack, hs, closes, hmt]
              · rw [symStack_set_other ss pda 0 k tl (fun e => hk0 e.symm)]
                have : ¬ (closerClass c = some k) := by rw [hcc]; intro e; injection e with e; exact hk0 e.symm
                simp [-List.getD_eq_getElem?_getD, dyckRun, hoc, this]
            · have hstep : w2cLoop ss (c :: rest) pos pda ct = none := by
                simp [-List.getD_eq_getElem?_getD, w2cLoop, hpr, hobf, hcb, hs, hmt]
              rw [hstep]
              constructor
              · rintro ⟨_, _, h, _⟩; cases h
              · rintro ⟨_, h⟩
                have := h 0 (by omega)
                simp [-List.getD_eq_getElem?_getD, dyckRun, hoc, hcc, symStack, hs, closes, hmt] at this
        · have hcbf : isCloseBr c = false := by simpa using hcb
          by_cases hup : isUpper c = true
          · -- upper-case letter: its own class pushes
            have hkb := pkIndex_upper_bounds c hup
            have hstep : w2cLoop ss (c :: rest) pos pda ct = w2cLoop ss rest (pos+1) (pushAt pda (pkIndex c) pos) ct := by
              simp [-List.getD_eq_getElem?_getD, w2cLoop, hpr, hobf, hcbf, hup]
            rw [hstep, ih (pos+1) (pushAt pda (pkIndex c) pos) ct hd' (by omega) (by simp [-List.getD_eq_getElem?_getD, pushAt, hlen])]
            have hleg : legalSym c = true := by simp [-List.getD_eq_getElem?_getD, legalSym, hup]
            have hoc : openerClass c = some (pkIndex c) := by simp [-List.getD_eq_getElem?_getD, openerClass, hobf, hup]
            have hcc : closerClass c = none := by simp [-List.getD_eq_getElem?_getD, closerClass, hcbf, (F.2.2.1 hup).1]
            simp only [hleg, true_and]
            apply and_congr_right; intro _
            apply forall_congr'; intro k; apply imp_congr_right; intro hk
            by_cases hk0 : k = pkIndex c
            · subst hk0
              rw [symStack_push_same ss pda _ pos (by omega), hc]
              simp [-List.getD_eq_getElem?_getD, dyckRun, hoc]
            · rw [symStack_push_other ss pda _ k pos (fun e => hk0 e.symm)]
              have : ¬ (openerClass c = some k) := by rw [hoc]; intro e; injection e with e; exact hk0 e.symm
              simp [-List.getD_eq_getElem?_getD, dyckRun, this, hcc]
          · have hupf : isUpper c = false := by simpa using hup
            by_cases hlow : isLower c = true
            · -- lower-case letter: its class pops
              have hkb := pkIndex_lower_bounds c hlow
              have hleg : legalSym c = true := by simp [-List.getD_eq_getElem?_getD, legalSym, hlow]
              have hoc : openerClass c = none := by simp [-List.getD_eq_getElem?_getD, openerClass, hobf, hupf]
              have hcc : closerClass c = some (pkIndex c) := by simp [-List.getD_eq_getElem?_getD, closerClass, hcbf, hlow]
              have hk0ne : pkIndex c ≠ 0 := by omega
              cases hs : pda.getD (pkIndex c) [] with
              | nil =>
                have hstep : w2cLoop ss (c :: rest) pos pda ct = none := by
                  simp [-List.getD_eq_getElem?_getD, w2cLoop, hpr, hobf, hcbf, hupf, hlow, hs]
                rw [hstep]
                constructor
                · rintro ⟨_, _, h, _⟩; cases h
                · rintro ⟨_, h⟩
                  have := h (pkIndex c) hkb.2
                  simp [-List.getD_eq_getElem?_getD, dyckRun, hoc, hcc, symStack, hs] at this
              | cons pair tl =>
                have hstep : w2cLoop ss (c :: rest) pos pda ct =
                    w2cLoop ss rest (pos+1) (pda.set (pkIndex c) tl) ((ct.set pos pair).set pair pos) := by
                  simp [-List.getD_eq_getElem?_getD, w2cLoop, hpr, hobf, hcbf, hupf, hlow, hs]
                rw [hstep, ih (pos+1) (pda.set (pkIndex c) tl) _ hd' (by omega) (by simp [-List.getD_eq_getElem?_getD, hlen])]
                simp only [hleg, true_and]
                apply and_congr_right; intro _
                apply forall_congr'; intro k; apply imp_congr_right; intro hk
                by_cases hk0 : k = pkIndex c
                · subst hk0
                  rw [symStack_set_same ss pda _ tl (by omega)]
                  simp [-List.getD_eq_getElem?_getD, dyckRun, hoc, hcc, symStack, hs, closes, hk0ne]
                · rw [symStack_set_other ss pda _ k tl (fun e => hk0 e.symm)]
                  have : ¬ (closerClass c = some k) := by rw [hcc]; intro e; injection e with e; exact hk0 e.symm
                  simp [-List.getD_eq_getElem?_getD, dyckRun, hoc, this]
            · have hlowf : isLower c = false := by simpa using hlow
              have hoc : openerClass c = none := by simp [-List.getD_eq_getElem?_getD, openerClass, hobf, hupf]
              have hcc : closerClass c = none := by simp [-List.getD_eq_getElem?_getD, closerClass, hcbf, hlowf]
              by_cases hun : isUnpairedSym c = true
              · have hstep : w2cLoop ss (c :: rest) pos pda ct = w2cLoop ss rest (pos+1) pda ct := by
                  simp [-List.getD_eq_getElem?_getD, w2cLoop, hpr, hobf, hcbf, hupf, hlowf, hun]
                rw [hstep, ih (pos+1) pda ct hd' (by omega) hlen]
                have hleg : legalSym c = true := by simp [-List.getD_eq_getElem?_getD, legalSym, hun]
                simp only [hleg, true_and]
                apply and_congr_right; intro _
                apply forall_congr'; intro k; apply imp_congr_right; intro hk
                simp [-List.getD_eq_getElem?_getD, dyckRun, hoc, hcc]
              · have hunf : isUnpairedSym c = false := by simpa using hun
                have hstep : w2cLoop ss (c :: rest) pos pda ct = none := by
                  simp [-List.getD_eq_getElem?_getD, w2cLoop, hpr, hobf, hcbf, hupf, hlowf, hunf]
                rw [hstep]
                constructor
                · rintro ⟨_, _, h, _⟩; cases h
                · rintro ⟨⟨h, _⟩, _⟩
                  simp [-List.getD_eq_getElem?_getD, legalSym, hobf, hcbf, hupf, hlowf, hunf] at h
    · have hprf : isPrint c = false := by simpa using hpr
      have hstep : w2cLoop ss (c :: rest) pos pda ct = none := by simp [-List.getD_eq_getElem?_getD, w2cLoop, hprf]
      rw [hstep]
      constructor
      · rintro ⟨_, _, h, _⟩; cases h
      · rintro ⟨⟨h, _⟩, _⟩
        exfalso
        simp only [legalSym, Bool.or_eq_true] at h
        rcases h with (((h | h) | h) | h) | h
        · rw [(F.1 h).2.2.2] at hprf; cases hprf
        · rw [(F.2.1 h).2.2] at hprf; cases hprf
        · rw [(F.2.2.1 h).2] at hprf; cases hprf
        · rw [F.2.2.2.1 h] at hprf; cases hprf
        · rw [(F.2.2.2.2 h).1] at hprf; cases hprf

/-- `esl_wuss2ct` returns `eslOK` iff every symbol is legal and each of the 27 bracket languages is balanced -/
theorem wuss2ct_accepts_iff' (ss : Bytes) :
    (∃ ct, wuss2ct ss = some ct) ↔ ((∀ c ∈ ss, legalSym c = true) ∧ ∀ k, k < 27 → balancedClass k ss) := by
  have h := w2cLoop_iff ss ss 1 (List.replicate 27 []) (List.replicate (ss.length + 1) 0) (by simp) (Nat.le_refl _) (by simp)
  have hsym : ∀ k, symStack ss (List.replicate 27 []) k = [] := by
    intro k
    simp only [symStack, List.getD_eq_getElem?_getD, List.getElem?_replicate]
    split <;> rfl
  simp only [hsym] at h
  unfold balancedClass
  rw [← h]
  unfold wuss2ct
  constructor
  · rintro ⟨ct, hct⟩
    split at hct
    · cases hct
    · rename_i pda ct' hrun
      split at hct
      · rename_i hall; exact ⟨pda, ct', hrun, hall⟩
      · cases hct
  · rintro ⟨pda, ct, hrun, hall⟩
    refine ⟨ct, ?_⟩
    rw [hrun]
    simp only [hall, if_true]

end EaselModel.Msa
