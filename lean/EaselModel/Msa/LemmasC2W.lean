import EaselModel.Msa.LemmasNested
import EaselModel.Msa.LemmasShape
import EaselModel.Msa.LemmasCount
/-! Lemmas: for a NESTED pair table `esl_ct2wuss` never enters its pseudoknot branch and writes a bracket labelling of
    the table (`Labels`), so that `esl_wuss2ct` reads the same table back. -/
namespace EaselModel.Msa

/-- reading cell `q` (0-based) of the output buffer -/
def ssAt (a : Array UInt8) (q : Nat) : UInt8 := a.toList.getD q 0

theorem rdNat_toArray (ct : List Nat) (i : Int) (h0 : 0 ≤ i) (h : i.toNat < ct.length) :
    rdNat ct.toArray i = .ok (ct.getD i.toNat 0) := by
  unfold rdNat
  rw [if_pos ⟨h0, by simpa using h⟩]
  simp [Array.getD, List.getD_eq_getElem?_getD, h]

theorem rdNat_ok_inv {a : Array Nat} {i : Int} {v : Nat} (h : rdNat a i = .ok v) :
    0 ≤ i ∧ i.toNat < a.size ∧ v = a.getD i.toNat 0 := by
  unfold rdNat at h
  split at h
  · rename_i hc; injection h with h; exact ⟨hc.1, hc.2, h.symm⟩
  · cases h

theorem wrSs_ok_inv {a a' : Array UInt8} {i : Int} {v : UInt8} (h : wrSs a i v = .ok a') :
    0 ≤ i ∧ i.toNat < a.size ∧ a'.size = a.size ∧ ssAt a' i.toNat = v ∧ ∀ q, q ≠ i.toNat → ssAt a' q = ssAt a q := by
  unfold wrSs at h
  split at h
  · rename_i hc
    injection h with h; subst h
    refine ⟨hc.1, hc.2, by simp, ?_, ?_⟩
    · simp only [ssAt, Array.toList_setIfInBounds]
      exact getD_set_self _ _ _ _ (by simpa using hc.2)
    · intro q hq
      simp only [ssAt, Array.toList_setIfInBounds]
      exact getD_set_ne _ _ _ _ _ (fun e => hq e.symm)
  · cases h

theorem unpairedChar (nf : Nat) :
    isUnpairedSym (if nf == 0 then (0x5f : UInt8) else if nf == 1 then 0x2d else 0x2c) = true := by
  split
  · decide
  · split <;> decide

/-- `drainAuxss`: the listed (unpaired) positions get an unpaired symbol, nothing else changes -/
theorem drainAuxss_spec (nf : Nat) : ∀ (l : List Nat) (a a' : Array UInt8), (∀ p ∈ l, 1 ≤ p) →
    drainAuxss nf l a = .ok a' →
    a'.size = a.size ∧ (∀ p ∈ l, isUnpairedSym (ssAt a' (p-1)) = true) ∧ (∀ q, q + 1 ∉ l → ssAt a' q = ssAt a q)
  | [], a, a', _, h => by
    simp only [drainAuxss] at h; injection h with h; subst h
    exact ⟨rfl, by simp, fun _ _ => rfl⟩
  | i :: rest, a, a', hpos, h => by
    simp only [drainAuxss, bind, Except.bind] at h
    split at h
    · cases h
    · rename_i a1 h1
      have w := wrSs_ok_inv h1
      have hi1 : 1 ≤ i := hpos i (by simp)
      have hidx : ((i : Int) - 1).toNat = i - 1 := by omega
      rw [hidx] at w
      have ih := drainAuxss_spec nf rest a1 a' (fun p hp => hpos p (by simp [hp])) h
      refine ⟨by rw [ih.1, w.2.2.1], ?_, ?_⟩
      · intro p hp
        by_cases hpr : p ∈ rest
        · exact ih.2.1 p hpr
        · simp only [List.mem_cons] at hp
          rcases hp with rfl | hp
          · have hnot : p - 1 + 1 ∉ rest := by
              have : p - 1 + 1 = p := by omega
              rw [this]; exact hpr
            rw [ih.2.2 (p-1) hnot, w.2.2.2.1]
            exact unpairedChar nf
          · exact absurd hp hpr
      · intro q hq
        simp only [List.mem_cons, not_or] at hq
        rw [ih.2.2 q hq.2, w.2.2.2.2 q (by omega)]

theorem faceChars_open {mf : Int} {o c : UInt8}
    (h : (if mf == -1 then .ok (chLt, chGt) else if mf == -2 then .ok (chLp, chRp)
          else if mf == -3 then .ok (chLb, chRb) else if mf == -4 then .ok (chLc, chRc)
          else .error WErr.einconceivable : Except WErr (UInt8 × UInt8)) = .ok (o, c)) :
    isOpenBr o = true ∧ c = closerOf o := by
  split at h
  · injection h with h; injection h with h1 h2; subst h1 h2; decide
  · split at h
    · injection h with h; injection h with h1 h2; subst h1 h2; decide
    · split at h
      · injection h with h; injection h with h1 h2; subst h1 h2; decide
      · split at h
        · injection h with h; injection h with h1 h2; subst h1 h2; decide
        · cases h

/-- what the pop loop of a right end `j` does on a nested table: everything above the partner `i` on the stack is a
    face marker or an unpaired position; the partner is found, both ends get a matching bracket pair, the unpaired
    positions put aside get unpaired symbols, nothing else is written, and no pseudoknot is recorded -/
theorem popLoop_nested (n : Nat) (ct : List Nat) (hlen : ct.length = n + 1) (j i : Nat) (below : List Int)
    (hj : 1 ≤ j ∧ j ≤ n) (hi : 1 ≤ i ∧ i < j) (hij : ct.getD i 0 = j) (hji : ct.getD j 0 = i) :
    ∀ (above : List Int) (nf : Nat) (mf : Int) (st : C2W) (res : Bool × List Int × C2W),
      (∀ a ∈ above, (a < 0 ∧ -4 ≤ a) ∨ (0 ≤ a ∧ 1 ≤ a.toNat ∧ a.toNat ≤ n ∧ ct.getD a.toNat 0 = 0)) →
      -4 ≤ mf → mf ≤ -1 →
      st.cct = ct.toArray → st.auxpk = [] → st.ss.size = n →
      (∀ p ∈ st.auxss, 1 ≤ p ∧ p ≤ n ∧ ct.getD p 0 = 0) →
      popLoop false ct.toArray j (above ++ (i : Int) :: below) nf mf st = .ok res →
      res.1 = true ∧ (∃ mf', res.2.1 = mf' :: below ∧ -4 ≤ mf' ∧ mf' ≤ -1) ∧
      res.2.2.cct = ct.toArray ∧ res.2.2.auxpk = [] ∧ res.2.2.auxss = [] ∧ res.2.2.ss.size = n ∧
      (isOpenBr (ssAt res.2.2.ss (i-1)) = true ∧ ssAt res.2.2.ss (j-1) = closerOf (ssAt res.2.2.ss (i-1))) ∧
      (∀ q, q ≠ i - 1 → q ≠ j - 1 → (ct.getD (q+1) 0 ≠ 0 ∨ n ≤ q) → ssAt res.2.2.ss q = ssAt st.ss q) ∧
      (∀ q, q < n → ct.getD (q+1) 0 = 0 → isUnpairedSym (ssAt st.ss q) = true → isUnpairedSym (ssAt res.2.2.ss q) = true) ∧
      res.2.2.reached = st.reached + 1
  | [], nf, mf, st, res, _, hmf1, hmf2, hcct, hpk, hsz, haux, h => by
    simp only [List.nil_append] at h
    unfold popLoop at h
    have hnot : ¬ ((!false && decide ((i : Int) < 0)) = true) := by simp
    rw [if_neg hnot] at h
    simp only [bind, Except.bind, pure, Except.pure] at h
    rw [hcct, rdNat_toArray ct (i : Int) (by omega) (by simp; omega)] at h
    simp only [Int.toNat_natCast, hij, beq_self_eq_true, if_true, Bool.false_eq_true, if_false] at h
    split at h
    · cases h
    · rename_i oc hoc
      obtain ⟨o, c⟩ := oc
      have hoc' := faceChars_open hoc
      simp only at h
      split at h
      · cases h
      · rename_i ss1 h1
        split at h
        · cases h
        · rename_i ss2 h2
          split at h
          · cases h
          · rename_i ss3 h3
            injection h with h; subst h
            have w1 := wrSs_ok_inv h1
            have w2 := wrSs_ok_inv h2
            have e1 : ((i : Int) - 1).toNat = i - 1 := by omega
            have e2 : ((j : Int) - 1).toNat = j - 1 := by omega
            rw [e1] at w1; rw [e2] at w2
            have d := drainAuxss_spec _ st.auxss ss2 ss3 (fun p hp => (haux p hp).1) h3
            have hne : i - 1 ≠ j - 1 := by omega
            -- the two bracket cells are not in auxss (their positions are paired)
            have hi_not : (i - 1) + 1 ∉ st.auxss := by
              intro hm
              have := (haux _ hm).2.2
              have e : i - 1 + 1 = i := by omega
              rw [e, hij] at this; omega
            have hj_not : (j - 1) + 1 ∉ st.auxss := by
              intro hm
              have := (haux _ hm).2.2
              have e : j - 1 + 1 = j := by omega
              rw [e, hji] at this; omega
            have r_i : ssAt ss3 (i-1) = o := by
              rw [d.2.2 _ hi_not, w2.2.2.2.2 _ hne, w1.2.2.2.1]
            have r_j : ssAt ss3 (j-1) = c := by
              rw [d.2.2 _ hj_not, w2.2.2.2.1]
            have hmfv : -4 ≤ (if (decide (nf > 1) && decide (mf > -4)) = true then mf - 1 else mf) ∧
                (if (decide (nf > 1) && decide (mf > -4)) = true then mf - 1 else mf) ≤ -1 := by
              split
              · rename_i hc
                simp only [Bool.and_eq_true, decide_eq_true_eq] at hc
                omega
              · omega
            have hsz3 : ss3.size = n := by rw [d.1, w2.2.2.1, w1.2.2.1, hsz]
            refine ⟨rfl, ⟨_, rfl, hmfv.1, hmfv.2⟩, rfl, hpk, rfl, hsz3, ?_, ?_, ?_, rfl⟩
            · show isOpenBr (ssAt ss3 (i-1)) = true ∧ ssAt ss3 (j-1) = closerOf (ssAt ss3 (i-1))
              rw [r_i, r_j]; exact hoc'
            · intro q hq1 hq2 hq3
              show ssAt ss3 q = ssAt st.ss q
              have hq_not : q + 1 ∉ st.auxss := by
                intro hm
                have := haux _ hm
                rcases hq3 with h3 | h3
                · exact h3 this.2.2
                · omega
              rw [d.2.2 q hq_not, w2.2.2.2.2 q hq2, w1.2.2.2.2 q hq1]
            · intro q hqn hq0 hqu
              show isUnpairedSym (ssAt ss3 q) = true
              by_cases hm : q + 1 ∈ st.auxss
              · have := d.2.1 _ hm
                simpa using this
              · have hq1 : q ≠ i - 1 := by
                  intro e; rw [e] at hq0
                  have e' : i - 1 + 1 = i := by omega
                  rw [e', hij] at hq0; omega
                have hq2 : q ≠ j - 1 := by
                  intro e; rw [e] at hq0
                  have e' : j - 1 + 1 = j := by omega
                  rw [e', hji] at hq0; omega
                rw [d.2.2 q hm, w2.2.2.2.2 q hq2, w1.2.2.2.2 q hq1]; exact hqu
  | a :: above, nf, mf, st, res, habove, hmf1, hmf2, hcct, hpk, hsz, haux, h => by
    have ha := habove a (by simp)
    have habove' : ∀ a' ∈ above, (a' < 0 ∧ -4 ≤ a') ∨ (0 ≤ a' ∧ 1 ≤ a'.toNat ∧ a'.toNat ≤ n ∧ ct.getD a'.toNat 0 = 0) :=
      fun a' h' => habove a' (by simp [h'])
    simp only [List.cons_append] at h
    unfold popLoop at h
    rcases ha with ⟨hneg, hge⟩ | ⟨hnn, h1, h2, h3⟩
    · -- a face marker
      have hc : ((!false && decide (a < 0)) = true) := by simp [hneg]
      rw [if_pos hc] at h
      exact popLoop_nested n ct hlen j i below hj hi hij hji above (nf+1) (if a < mf then a else mf) st res habove'
        (by split <;> omega) (by split <;> omega) hcct hpk hsz haux h
    · -- an unpaired position: put aside in auxss
      have hc : ¬ ((!false && decide (a < 0)) = true) := by simp; omega
      rw [if_neg hc] at h
      simp only [bind, Except.bind, pure, Except.pure] at h
      rw [hcct, rdNat_toArray ct a hnn (by omega), h3] at h
      have hne : ((0:Nat) == j) = false := by simp; omega
      simp only [hne, Bool.false_eq_true, if_false, beq_self_eq_true, if_true] at h
      exact popLoop_nested n ct hlen j i below hj hi hij hji above nf mf
        { ss := st.ss, cct := ct.toArray, rb := st.rb, auxpk := st.auxpk, auxss := a.toNat :: st.auxss, reached := st.reached }
        res habove' hmf1 hmf2 rfl hpk hsz
        (by
          intro p hp
          change p ∈ a.toNat :: st.auxss at hp
          simp only [List.mem_cons] at hp
          rcases hp with rfl | hp
          · exact ⟨h1, h2, h3⟩
          · exact haux p hp) h

theorem wrSs_ok_of_range (a : Array UInt8) (i : Int) (v : UInt8) (h0 : 0 ≤ i) (h : i.toNat < a.size) :
    ∃ a', wrSs a i v = .ok a' := ⟨_, by unfold wrSs; rw [if_pos ⟨h0, h⟩]⟩

theorem drainAuxss_ok (nf : Nat) : ∀ (l : List Nat) (a : Array UInt8), (∀ p ∈ l, 1 ≤ p ∧ p ≤ a.size) →
    ∃ a', drainAuxss nf l a = .ok a'
  | [], a, _ => ⟨a, rfl⟩
  | i :: rest, a, h => by
    have hi := h i (by simp)
    obtain ⟨a1, h1⟩ := wrSs_ok_of_range a ((i : Int) - 1)
      (if nf == 0 then (0x5f : UInt8) else if nf == 1 then 0x2d else 0x2c) (by omega) (by omega)
    have hs := (wrSs_ok_inv h1).2.2.1
    obtain ⟨a', h'⟩ := drainAuxss_ok nf rest a1 (fun p hp => by rw [hs]; exact h p (by simp [hp]))
    exact ⟨a', by simp only [drainAuxss, bind, Except.bind, h1, h']⟩

theorem faceChars_ok (mf : Int) (h1 : -4 ≤ mf) (h2 : mf ≤ -1) :
    ∃ oc, (if mf == -1 then .ok (chLt, chGt) else if mf == -2 then .ok (chLp, chRp)
          else if mf == -3 then .ok (chLb, chRb) else if mf == -4 then .ok (chLc, chRc)
          else .error WErr.einconceivable : Except WErr (UInt8 × UInt8)) = .ok oc := by
  have : mf = -1 ∨ mf = -2 ∨ mf = -3 ∨ mf = -4 := by omega
  rcases this with h | h | h | h <;> subst h <;> exact ⟨_, rfl⟩

/-- ... and the pop loop cannot fail on a nested table -/
theorem popLoop_nested_noerr (n : Nat) (ct : List Nat) (hlen : ct.length = n + 1) (j i : Nat) (below : List Int)
    (hj : 1 ≤ j ∧ j ≤ n) (hi : 1 ≤ i ∧ i < j) (hij : ct.getD i 0 = j) :
    ∀ (above : List Int) (nf : Nat) (mf : Int) (st : C2W) (e : WErr),
      (∀ a ∈ above, (a < 0 ∧ -4 ≤ a) ∨ (0 ≤ a ∧ 1 ≤ a.toNat ∧ a.toNat ≤ n ∧ ct.getD a.toNat 0 = 0)) →
      -4 ≤ mf → mf ≤ -1 →
      st.cct = ct.toArray → st.ss.size = n →
      (∀ p ∈ st.auxss, 1 ≤ p ∧ p ≤ n ∧ ct.getD p 0 = 0) →
      popLoop false ct.toArray j (above ++ (i : Int) :: below) nf mf st ≠ .error e
  | [], nf, mf, st, e, _, hmf1, hmf2, hcct, hsz, haux, h => by
    simp only [List.nil_append] at h
    unfold popLoop at h
    have hnot : ¬ ((!false && decide ((i : Int) < 0)) = true) := by simp
    rw [if_neg hnot] at h
    simp only [bind, Except.bind, pure, Except.pure] at h
    rw [hcct, rdNat_toArray ct (i : Int) (by omega) (by simp; omega)] at h
    simp only [Int.toNat_natCast, hij, beq_self_eq_true, if_true, Bool.false_eq_true, if_false] at h
    have hmfv : -4 ≤ (if (decide (nf > 1) && decide (mf > -4)) = true then mf - 1 else mf) ∧
        (if (decide (nf > 1) && decide (mf > -4)) = true then mf - 1 else mf) ≤ -1 := by
      split
      · rename_i hc
        simp only [Bool.and_eq_true, decide_eq_true_eq] at hc
        omega
      · omega
    obtain ⟨oc, hoc⟩ := faceChars_ok _ hmfv.1 hmfv.2
    rw [hoc] at h
    simp only at h
    obtain ⟨ss1, h1⟩ := wrSs_ok_of_range st.ss ((i : Int) - 1) oc.1 (by omega) (by omega)
    rw [h1] at h
    simp only at h
    have hs1 := (wrSs_ok_inv h1).2.2.1
    obtain ⟨ss2, h2⟩ := wrSs_ok_of_range ss1 ((j : Int) - 1) oc.2 (by omega) (by omega)
    rw [h2] at h
    simp only at h
    have hs2 := (wrSs_ok_inv h2).2.2.1
    obtain ⟨ss3, h3⟩ := drainAuxss_ok nf st.auxss ss2 (fun p hp => by
      have := haux p hp; rw [hs2, hs1, hsz]; exact ⟨this.1, this.2.1⟩)
    rw [h3] at h
    cases h
  | a :: above, nf, mf, st, e, habove, hmf1, hmf2, hcct, hsz, haux, h => by
    have ha := habove a (by simp)
    have habove' : ∀ a' ∈ above, (a' < 0 ∧ -4 ≤ a') ∨ (0 ≤ a' ∧ 1 ≤ a'.toNat ∧ a'.toNat ≤ n ∧ ct.getD a'.toNat 0 = 0) :=
      fun a' h' => habove a' (by simp [h'])
    simp only [List.cons_append] at h
    unfold popLoop at h
    rcases ha with ⟨hneg, hge⟩ | ⟨hnn, h1, h2, h3⟩
    · have hc : ((!false && decide (a < 0)) = true) := by simp [hneg]
      rw [if_pos hc] at h
      exact popLoop_nested_noerr n ct hlen j i below hj hi hij above (nf+1) (if a < mf then a else mf) st e habove'
        (by split <;> omega) (by split <;> omega) hcct hsz haux h
    · have hc : ¬ ((!false && decide (a < 0)) = true) := by simp; omega
      rw [if_neg hc] at h
      simp only [bind, Except.bind, pure, Except.pure] at h
      rw [hcct, rdNat_toArray ct a hnn (by omega), h3] at h
      have hne : ((0:Nat) == j) = false := by simp; omega
      simp only [hne, Bool.false_eq_true, if_false, beq_self_eq_true, if_true] at h
      exact popLoop_nested_noerr n ct hlen j i below hj hi hij above nf mf
        { ss := st.ss, cct := ct.toArray, rb := st.rb, auxpk := st.auxpk, auxss := a.toNat :: st.auxss, reached := st.reached }
        e habove' hmf1 hmf2 rfl hsz
        (by
          intro p hp
          change p ∈ a.toNat :: st.auxss at hp
          simp only [List.mem_cons] at hp
          rcases hp with rfl | hp
          · exact ⟨h1, h2, h3⟩
          · exact haux p hp) h

/-- invariant of the main loop `for (j = 1; j <= n; j++)` on a nested table -/
structure CInv (n : Nat) (ct : List Nat) (j : Nat) (pda : List Int) (st : C2W) : Prop where
  cct : st.cct = ct.toArray
  nopk : st.auxpk = []
  noaux : st.auxss = []
  sssize : st.ss.size = n
  reached : st.reached = rightEnds ct j
  ent : ∀ a ∈ pda, (a < 0 ∧ -4 ≤ a) ∨ (0 ≤ a ∧ 1 ≤ a.toNat ∧ a.toNat < j)
  sorted : (pda.filter (fun a => decide (0 ≤ a))).Pairwise (· > ·)
  lefts : ∀ p, 1 ≤ p → p < j → j ≤ ct.getD p 0 → (p : Int) ∈ pda
  paired : ∀ a ∈ pda, 0 ≤ a → ct.getD a.toNat 0 ≠ 0 → j ≤ ct.getD a.toNat 0
  l1 : ∀ q, q < n → ct.getD (q+1) 0 = 0 → isUnpairedSym (ssAt st.ss q) = true
  l2 : ∀ j0, 1 ≤ j0 → j0 < j → ct.getD j0 0 ≠ 0 → ct.getD j0 0 < j0 →
        isOpenBr (ssAt st.ss (ct.getD j0 0 - 1)) = true ∧
        ssAt st.ss (j0-1) = closerOf (ssAt st.ss (ct.getD j0 0 - 1))

theorem cinv_push {n : Nat} {ct : List Nat} (hct : CtOk n ct) {j : Nat} {pda : List Int} {st : C2W}
    (inv : CInv n ct j pda st) (hj : 1 ≤ j) (hcase : ct.getD j 0 = 0 ∨ j < ct.getD j 0) :
    CInv n ct (j+1) ((j : Int) :: pda) st where
  cct := inv.cct
  nopk := inv.nopk
  noaux := inv.noaux
  sssize := inv.sssize
  reached := by
    rw [rightEnds_succ, if_neg (by rcases hcase with h | h <;> omega), Nat.add_zero]; exact inv.reached
  ent := by
    intro a ha
    simp only [List.mem_cons] at ha
    rcases ha with rfl | ha
    · right; exact ⟨by omega, by omega, by omega⟩
    · rcases inv.ent a ha with h | h
      · exact Or.inl h
      · exact Or.inr ⟨h.1, h.2.1, by omega⟩
  sorted := by
    have : ((j : Int) :: pda).filter (fun a => decide (0 ≤ a)) = (j : Int) :: pda.filter (fun a => decide (0 ≤ a)) := by
      simp [List.filter_cons]
    rw [this, List.pairwise_cons]
    refine ⟨fun b hb => ?_, inv.sorted⟩
    simp only [List.mem_filter, decide_eq_true_eq] at hb
    rcases inv.ent b hb.1 with h | h
    · omega
    · omega
  lefts := by
    intro p h1 h2 h3
    by_cases hp : p = j
    · subst hp; simp
    · exact List.mem_cons_of_mem _ (inv.lefts p h1 (by omega) (by omega))
  paired := by
    intro a ha h0 hne
    simp only [List.mem_cons] at ha
    rcases ha with rfl | ha
    · simp only [Int.toNat_natCast] at hne ⊢
      rcases hcase with h | h
      · exact absurd h hne
      · omega
    · have hold := inv.paired a ha h0 hne
      have hx : ct.getD a.toNat 0 ≠ j := by
        intro e
        have := (hct.2 a.toNat hne).2.2.2.2.1
        rw [e] at this
        rcases inv.ent a ha with h | h
        · omega
        · rcases hcase with hc | hc
          · rw [hc] at this; omega
          · omega
      omega
  l1 := inv.l1
  l2 := by
    intro j0 h1 h2 h3 h4
    by_cases hp : j0 = j
    · subst hp
      rcases hcase with h | h
      · exact absurd h h3
      · omega
    · exact inv.l2 j0 h1 (by omega) h3 h4

theorem filter_nonneg_append (above below : List Int) (i : Nat) :
    (above ++ (i : Int) :: below).filter (fun a => decide (0 ≤ a)) =
      above.filter (fun a => decide (0 ≤ a)) ++ (i : Int) :: below.filter (fun a => decide (0 ≤ a)) := by
  simp [List.filter_append, List.filter_cons]

/-- one right end `j` of a nested table: the stack splits at the partner, everything above it is a marker or an
    unpaired position, and whatever the pop loop returns re-establishes the invariant for `j+1` -/
theorem cinv_right_end (n : Nat) (ct : List Nat) (hct : CtOk n ct) (hn : Nested ct) {j : Nat} {pda : List Int} {st : C2W}
    (inv : CInv n ct j pda st) (hj1 : 1 ≤ j) (hjn : j ≤ n) (h0 : ct.getD j 0 ≠ 0) (hleft : ¬ j < ct.getD j 0) :
    ∃ above below, pda = above ++ ((ct.getD j 0 : Nat) : Int) :: below ∧
      (∀ a ∈ above, (a < 0 ∧ -4 ≤ a) ∨ (0 ≤ a ∧ 1 ≤ a.toNat ∧ a.toNat ≤ n ∧ ct.getD a.toNat 0 = 0)) ∧
      (1 ≤ ct.getD j 0 ∧ ct.getD j 0 < j) ∧ ct.getD (ct.getD j 0) 0 = j ∧
      ∀ res, popLoop false ct.toArray j pda 0 (-1) st = .ok res →
        res.1 = true ∧ res.2.2.auxpk = [] ∧ ∃ mf', res.2.1 = mf' :: below ∧ CInv n ct (j+1) (mf' :: below) res.2.2 := by
  have hpj := hct.2 j h0
  have hi : 1 ≤ ct.getD j 0 ∧ ct.getD j 0 < j := ⟨hpj.2.2.1, by omega⟩
  have hij : ct.getD (ct.getD j 0) 0 = j := hpj.2.2.2.2.1
  have himem := inv.lefts (ct.getD j 0) hi.1 hi.2 (by rw [hij]; exact Nat.le_refl _)
  obtain ⟨above, below, hsplit⟩ := List.append_of_mem himem
  have hsorted := inv.sorted
  rw [hsplit, filter_nonneg_append, List.pairwise_append] at hsorted
  have habove : ∀ a ∈ above, (a < 0 ∧ -4 ≤ a) ∨ (0 ≤ a ∧ 1 ≤ a.toNat ∧ a.toNat ≤ n ∧ ct.getD a.toNat 0 = 0) := by
    intro a ha
    have hmem : a ∈ pda := by rw [hsplit]; simp [ha]
    rcases inv.ent a hmem with h1 | h1
    · exact Or.inl h1
    · right
      refine ⟨h1.1, h1.2.1, by omega, ?_⟩
      rcases Nat.eq_zero_or_pos (ct.getD a.toNat 0) with hz | hz
      · exact hz
      · exfalso
        have hgt : a > (ct.getD j 0 : Int) :=
          hsorted.2.2 a (by simp [List.mem_filter, ha, h1.1]) _ (by simp)
        have hge := inv.paired a hmem h1.1 (by omega)
        have hne : ct.getD a.toNat 0 ≠ j := by
          intro e
          have := (hct.2 a.toNat (by omega)).2.2.2.2.1
          rw [e] at this; omega
        have := hn (ct.getD j 0) a.toNat (by rw [hij]; omega) (by omega) (by omega) (by rw [hij]; omega)
        rw [hij] at this; omega
  refine ⟨above, below, hsplit, habove, hi, hij, ?_⟩
  intro res hres
  rw [hsplit] at hres
  obtain ⟨found, pda1, st1⟩ := res
  have sp := popLoop_nested n ct hct.1 j (ct.getD j 0) below ⟨hj1, hjn⟩ hi hij rfl above 0 (-1) st _
    habove (by omega) (by omega) inv.cct inv.nopk inv.sssize (by rw [inv.noaux]; simp) hres
  simp only at sp
  obtain ⟨hfound, ⟨mf', hpda1, hmf1, hmf2⟩, hcct1, hpk1, haux1, hsz1, hbr, hsame, hunp, hreach⟩ := sp
  subst hfound hpda1
  refine ⟨rfl, hpk1, mf', rfl, ?_⟩
  show CInv n ct (j+1) (mf' :: below) st1
  have hbelow_lt : ∀ b ∈ below, 0 ≤ b → b < (ct.getD j 0 : Int) := by
    intro b hb h0b
    have := (List.pairwise_cons.mp hsorted.2.1).1 b (by simp [List.mem_filter, hb, h0b])
    exact this
  exact {
    cct := hcct1, nopk := hpk1, noaux := haux1, sssize := hsz1
    reached := by
      rw [rightEnds_succ, if_pos ⟨h0, by omega⟩, hreach, inv.reached]
    ent := by
      intro a ha
      simp only [List.mem_cons] at ha
      rcases ha with rfl | ha
      · exact Or.inl ⟨by omega, hmf1⟩
      · rcases inv.ent a (by rw [hsplit]; simp [ha]) with h1 | h1
        · exact Or.inl h1
        · exact Or.inr ⟨h1.1, h1.2.1, by omega⟩
    sorted := by
      have : (mf' :: below).filter (fun a => decide (0 ≤ a)) = below.filter (fun a => decide (0 ≤ a)) := by
        simp [List.filter_cons]; omega
      rw [this]
      exact (List.pairwise_cons.mp hsorted.2.1).2
    lefts := by
      intro p h1 h2 h3
      have hpj' : p ≠ j := by intro e; rw [e] at h3; omega
      have hm := inv.lefts p h1 (by omega) (by omega)
      rw [hsplit, List.mem_append, List.mem_cons] at hm
      rcases hm with hm | hm | hm
      · exfalso
        rcases habove _ hm with hx | hx
        · omega
        · have := hx.2.2.2; rw [Int.toNat_natCast] at this; omega
      · exfalso
        have : p = ct.getD j 0 := by omega
        rw [this, hij] at h3; omega
      · exact List.mem_cons_of_mem _ hm
    paired := by
      intro a ha h0a hne
      simp only [List.mem_cons] at ha
      rcases ha with rfl | ha
      · omega
      · have hold := inv.paired a (by rw [hsplit]; simp [ha]) h0a hne
        have hx : ct.getD a.toNat 0 ≠ j := by
          intro e
          have := (hct.2 a.toNat hne).2.2.2.2.1
          rw [e] at this
          have hlt := hbelow_lt a ha h0a
          omega
        omega
    l1 := fun q hq h0q => hunp q hq h0q (inv.l1 q hq h0q)
    l2 := by
      intro j0 h1 h2 h3 h4
      by_cases hp : j0 = j
      · subst hp; exact hbr
      · have hold := inv.l2 j0 h1 (by omega) h3 h4
        have hp0 := hct.2 j0 h3
        have hi0 : ct.getD (ct.getD j0 0) 0 = j0 := hp0.2.2.2.2.1
        have e1 : ssAt st1.ss (ct.getD j0 0 - 1) = ssAt st.ss (ct.getD j0 0 - 1) := by
          apply hsame
          · intro e
            have : ct.getD j0 0 = ct.getD j 0 := by omega
            rw [this, hij] at hi0; omega
          · omega
          · left
            have : ct.getD j0 0 - 1 + 1 = ct.getD j0 0 := by omega
            rw [this, hi0]; omega
        have e2 : ssAt st1.ss (j0 - 1) = ssAt st.ss (j0 - 1) := by
          apply hsame
          · intro e
            have : j0 = ct.getD j 0 := by omega
            rw [this, hij] at h4; omega
          · omega
          · left
            have : j0 - 1 + 1 = j0 := by omega
            rw [this]; exact h3
        rw [e1, e2]; exact hold }

/-- the main loop on a nested table keeps the invariant to the end -/
theorem c2wMain_nested (n : Nat) (ct : List Nat) (hct : CtOk n ct) (hn : Nested ct) :
    ∀ (fuel j : Nat) (pda : List Int) (st st' : C2W), n + 1 ≤ j + fuel → j ≤ n + 1 → 1 ≤ j → CInv n ct j pda st →
      c2wMain false ct.toArray n fuel j pda st = .ok st' → ∃ pda', CInv n ct (n+1) pda' st' := by
  intro fuel
  induction fuel with
  | zero =>
    intro j pda st st' hf hju _ inv h
    simp only [c2wMain] at h
    injection h with h; subst h
    have : j = n + 1 := by omega
    subst this; exact ⟨pda, inv⟩
  | succ fuel ih =>
    intro j pda st st' hf hju hj1 inv h
    unfold c2wMain at h
    by_cases hend : j > n
    · rw [if_pos hend] at h
      injection h with h; subst h
      have : j = n + 1 := by omega
      subst this; exact ⟨pda, inv⟩
    have hjn : j ≤ n := by omega
    rw [if_neg (by omega)] at h
    simp only [bind, Except.bind, pure, Except.pure] at h
    rw [inv.cct, rdNat_toArray ct (j : Int) (by omega) (by simp; rw [hct.1]; omega)] at h
    simp only [Int.toNat_natCast] at h
    by_cases h0 : ct.getD j 0 = 0
    · simp only [h0, beq_self_eq_true, if_true] at h
      exact ih (j+1) _ st st' (by omega) (by omega) (by omega) (cinv_push hct inv hj1 (Or.inl h0)) h
    · have hb : (ct.getD j 0 == 0) = false := by rw [beq_eq_false_iff_ne]; exact h0
      simp only [hb, Bool.false_eq_true, if_false] at h
      by_cases hleft : j < ct.getD j 0
      · rw [if_pos hleft] at h
        exact ih (j+1) _ st st' (by omega) (by omega) (by omega) (cinv_push hct inv hj1 (Or.inr hleft)) h
      · rw [if_neg hleft] at h
        obtain ⟨above, below, _, _, _, _, hstep⟩ := cinv_right_end n ct hct hn inv hj1 hjn h0 hleft
        split at h
        · cases h
        · rename_i res hres
          obtain ⟨hfound, hpk1, mf', hpda1, inv1⟩ := hstep res hres
          obtain ⟨found, pda1, st1⟩ := res
          simp only at hfound hpk1 hpda1 inv1 h
          subst hfound hpda1
          simp only [Bool.not_true, Bool.false_eq_true, if_false, hpk1] at h
          exact ih (j+1) (mf' :: below) st1 st' (by omega) (by omega) (by omega) inv1 h

/-- ... and the main loop cannot fail on a nested table -/
theorem c2wMain_nested_noerr (n : Nat) (ct : List Nat) (hct : CtOk n ct) (hn : Nested ct) :
    ∀ (fuel j : Nat) (pda : List Int) (st : C2W) (e : WErr), j ≤ n + 1 → 1 ≤ j → CInv n ct j pda st →
      c2wMain false ct.toArray n fuel j pda st ≠ .error e := by
  intro fuel
  induction fuel with
  | zero => intro j pda st e _ _ _ h; simp only [c2wMain] at h; cases h
  | succ fuel ih =>
    intro j pda st e hju hj1 inv h
    unfold c2wMain at h
    by_cases hend : j > n
    · rw [if_pos hend] at h; cases h
    have hjn : j ≤ n := by omega
    rw [if_neg (by omega)] at h
    simp only [bind, Except.bind, pure, Except.pure] at h
    rw [inv.cct, rdNat_toArray ct (j : Int) (by omega) (by simp; rw [hct.1]; omega)] at h
    simp only [Int.toNat_natCast] at h
    by_cases h0 : ct.getD j 0 = 0
    · simp only [h0, beq_self_eq_true, if_true] at h
      exact ih (j+1) _ st e (by omega) (by omega) (cinv_push hct inv hj1 (Or.inl h0)) h
    · have hb : (ct.getD j 0 == 0) = false := by rw [beq_eq_false_iff_ne]; exact h0
      simp only [hb, Bool.false_eq_true, if_false] at h
      by_cases hleft : j < ct.getD j 0
      · rw [if_pos hleft] at h
        exact ih (j+1) _ st e (by omega) (by omega) (cinv_push hct inv hj1 (Or.inr hleft)) h
      · rw [if_neg hleft] at h
        obtain ⟨above, below, hsplit, habove, hi, hij, hstep⟩ := cinv_right_end n ct hct hn inv hj1 hjn h0 hleft
        split at h
        · rename_i err herr
          rw [hsplit] at herr
          exact popLoop_nested_noerr n ct hct.1 j (ct.getD j 0) below ⟨hj1, hjn⟩ hi hij above 0 (-1) st err
            habove (by omega) (by omega) inv.cct inv.sssize (by rw [inv.noaux]; simp) herr
        · rename_i res hres
          obtain ⟨hfound, hpk1, mf', hpda1, inv1⟩ := hstep res hres
          obtain ⟨found, pda1, st1⟩ := res
          simp only at hfound hpk1 hpda1 inv1 h
          subst hfound hpda1
          simp only [Bool.not_true, Bool.false_eq_true, if_false, hpk1] at h
          exact ih (j+1) (mf' :: below) st1 e (by omega) (by omega) inv1 h

/-- `esl_ct2wuss` on a nested pair table: when it returns `eslOK`, the string is a bracket labelling of the table -/
theorem ct2wuss_labels (n : Nat) (ct : List Nat) (hct : CtOk n ct) (hn : Nested ct) (ss : Bytes)
    (h : ct2wuss ct = .ok ss) : ss.length = n ∧ Labels ct ss := by
  unfold ct2wuss ct2wussGen at h
  simp only at h
  have hl1 : ct.length = n + 1 := hct.1
  have hn1 : ct.length - 1 = n := by omega
  rw [hn1] at h
  split at h
  · cases h
  · rename_i st hst
    split at h
    · cases h
    · injection h with h; subst h
      have hinit : CInv n ct 1 [] { ss := Array.replicate n (0x3a : UInt8), cct := ct.toArray, rb := Array.replicate 26 (-1),
                                    auxpk := [], auxss := [], reached := 0 } := {
        cct := rfl, nopk := rfl, noaux := rfl, sssize := by simp
        reached := by simp [rightEnds]
        ent := by intro a ha; simp at ha
        sorted := by simp
        lefts := by intro p h1 h2; omega
        paired := by intro a ha; simp at ha
        l1 := by
          intro q hq _
          simp only [ssAt, Array.toList_replicate, List.getD_eq_getElem?_getD, List.getElem?_replicate, hq, if_true,
                     Option.getD_some]
          decide
        l2 := by intro j0 h1 h2; omega }
      obtain ⟨pda', inv⟩ := c2wMain_nested n ct hct hn (n+1) 1 [] _ st (by omega) (by omega) (Nat.le_refl _) hinit hst
      have hlen : st.ss.toList.length = n := by simp [inv.sssize]
      refine ⟨hlen, ?_⟩
      intro p hp1 hp2
      rw [hlen] at hp2
      constructor
      · intro h0
        have := inv.l1 (p-1) (by omega) (by
          have : p - 1 + 1 = p := by omega
          rw [this]; exact h0)
        exact this
      · intro hlt
        have hp0 : ct.getD p 0 ≠ 0 := by omega
        have hpp := hct.2 p hp0
        have := inv.l2 (ct.getD p 0) hpp.2.2.1 (by omega) (by rw [hpp.2.2.2.2.1]; omega) (by rw [hpp.2.2.2.2.1]; exact hlt)
        rw [hpp.2.2.2.2.1] at this
        exact this

/-- NESTED ROUND TRIP: if `esl_ct2wuss` converts a nested (non-pseudoknotted) pair table, `esl_wuss2ct` of the result is
    that table again -/
theorem nested_roundtrip' (n : Nat) (ct : List Nat) (hct : CtOk n ct) (hn : Nested ct) (ss : Bytes)
    (h : ct2wuss ct = .ok ss) : wuss2ct ss = some ct := by
  obtain ⟨hlen, hlab⟩ := ct2wuss_labels n ct hct hn ss h
  exact wuss2ct_of_labels' ss ct (by rw [hlen]; exact hct) hn hlab

/-- `esl_ct2wuss` succeeds on every symmetric nested pair table (all pairs are found: `npairs == npairs_reached`) -/
theorem ct2wuss_nested_ok (n : Nat) (ct : List Nat) (hct : CtOk n ct) (hn : Nested ct) : ∃ ss, ct2wuss ct = .ok ss := by
  have hl1 : ct.length = n + 1 := hct.1
  have hn1 : ct.length - 1 = n := by omega
  have hinit : CInv n ct 1 [] { ss := Array.replicate n (0x3a : UInt8), cct := ct.toArray, rb := Array.replicate 26 (-1),
                                auxpk := [], auxss := [], reached := 0 } := {
    cct := rfl, nopk := rfl, noaux := rfl, sssize := by simp
    reached := by simp [rightEnds]
    ent := by intro a ha; simp at ha
    sorted := by simp
    lefts := by intro p h1 h2; omega
    paired := by intro a ha; simp at ha
    l1 := by
      intro q hq _
      simp only [ssAt, Array.toList_replicate, List.getD_eq_getElem?_getD, List.getElem?_replicate, hq, if_true,
                 Option.getD_some]
      decide
    l2 := by intro j0 h1 h2; omega }
  unfold ct2wuss ct2wussGen
  simp only
  rw [hn1]
  cases hrun : c2wMain false ct.toArray n (n + 1) 1 []
      { ss := Array.replicate n (if false = true then (0x2e : UInt8) else 0x3a), cct := ct.toArray,
        rb := Array.replicate 26 (-1), auxpk := [], auxss := [], reached := 0 } with
  | error e =>
    exfalso
    exact c2wMain_nested_noerr n ct hct hn (n+1) 1 [] _ e (by omega) (Nat.le_refl _) hinit hrun
  | ok st =>
    obtain ⟨pda', inv⟩ := c2wMain_nested n ct hct hn (n+1) 1 [] _ st (by omega) (by omega) (Nat.le_refl _) hinit hrun
    have : countPairs ct = st.reached := by rw [inv.reached, countPairs_eq_rightEnds n ct hct]
    simp only [this, bne_self_eq_false, Bool.false_eq_true, if_false]
    exact ⟨_, rfl⟩

/-- UNCONDITIONAL nested round trip -/
theorem nested_roundtrip_total' (n : Nat) (ct : List Nat) (hct : CtOk n ct) (hn : Nested ct) :
    ∃ ss, ct2wuss ct = .ok ss ∧ wuss2ct ss = some ct := by
  obtain ⟨ss, h⟩ := ct2wuss_nested_ok n ct hct hn
  exact ⟨ss, h, nested_roundtrip' n ct hct hn ss h⟩

end EaselModel.Msa

namespace EaselModel.Msa

theorem breakPairs_length' (useme : List Bool) : ∀ (fuel apos : Nat) (ct : List Nat),
    (breakPairs useme apos fuel ct).length = ct.length := by
  intro fuel
  induction fuel with
  | zero => intros; rfl
  | succ fuel ih =>
    intro apos ct
    simp only [breakPairs]
    split
    · rw [ih]; simp only [List.length_set]; split <;> simp
    · exact ih _ _

/-- the table left by the pair-removal loop is again a symmetric table, and nested if the original was -/
theorem breakPairs_ctOk_nested (useme : List Bool) (n : Nat) (ct : List Nat) (hct : CtOk n ct) :
    CtOk n (breakPairs useme 1 n ct) ∧ (Nested ct → Nested (breakPairs useme 1 n ct)) := by
  have sp := breakPairs_spec' useme n ct hct
  have hval : ∀ i, (breakPairs useme 1 n ct).getD i 0 ≠ 0 →
      (breakPairs useme 1 n ct).getD i 0 = ct.getD i 0 ∧ ct.getD i 0 ≠ 0 ∧
      useme.getD (i-1) false = true ∧ useme.getD (ct.getD i 0 - 1) false = true := by
    intro i hi
    rw [sp i] at hi ⊢
    split at hi
    · rename_i hc; rw [if_pos hc]; exact ⟨rfl, hc.1, hc.2.1, hc.2.2⟩
    · exact absurd rfl hi
  constructor
  · refine ⟨by rw [breakPairs_length', hct.1], fun i hi => ?_⟩
    obtain ⟨he, h0, hu1, hu2⟩ := hval i hi
    have hp := hct.2 i h0
    rw [he]
    refine ⟨hp.1, hp.2.1, hp.2.2.1, hp.2.2.2.1, ?_, hp.2.2.2.2.2⟩
    rw [sp (ct.getD i 0), hp.2.2.2.2.1]
    rw [if_pos ⟨by omega, hu2, hu1⟩]
  · intro hn i i' hi hi' hlt hlt2
    obtain ⟨he, h0, _, _⟩ := hval i hi
    obtain ⟨he', h0', _, _⟩ := hval i' hi'
    rw [he] at hlt2 ⊢
    rw [he']
    exact hn i i' h0 h0' hlt hlt2

/-- NESTED structures, string level: `esl_msa_RemoveBrokenBasepairsFromSS` succeeds and the string it writes reads back
    (`esl_wuss2ct`) as exactly the original pairs whose two partners are both kept -/
theorem removeBroken_nested' (ss : Bytes) (useme : List Bool) (ct : List Nat) (h : wuss2ct ss = some ct) (hn : Nested ct) :
    ∃ ss', removeBrokenFromSS ss useme = .ok ss' ∧ wuss2ct ss' = some (breakPairs useme 1 ss.length ct) := by
  have hct := wuss2ct_ctOk ss ct h
  have hb := breakPairs_ctOk_nested useme ss.length ct hct
  obtain ⟨ss', h1, h2⟩ := nested_roundtrip_total' ss.length _ hb.1 (hb.2 hn)
  exact ⟨ss', by simp [removeBrokenFromSS, h, h1], h2⟩

end EaselModel.Msa
