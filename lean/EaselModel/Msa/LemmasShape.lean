import EaselModel.Msa.Wuss
/-! Lemmas: `esl_ct2wuss` / `esl_ct2simplewuss` write exactly `n` non-NUL symbols. -/
namespace EaselModel.Msa

def Shape (n : Nat) (a : Array UInt8) : Prop := a.size = n ∧ ∀ c ∈ a.toList, c ≠ 0

theorem wrSs_shape {n : Nat} {a a' : Array UInt8} {i : Int} {v : UInt8} (h : wrSs a i v = .ok a') (hv : v ≠ 0)
    (hs : Shape n a) : Shape n a' := by
  unfold wrSs at h
  split at h
  · injection h with h; subst h
    refine ⟨by simp [hs.1], ?_⟩
    intro c hc
    rw [Array.toList_setIfInBounds] at hc
    rcases List.mem_or_eq_of_mem_set hc with h1 | h1
    · exact hs.2 c h1
    · rw [h1]; exact hv
  · cases h

theorem drainAuxss_shape {n : Nat} (nf : Nat) : ∀ (l : List Nat) (a a' : Array UInt8),
    drainAuxss nf l a = .ok a' → Shape n a → Shape n a'
  | [], a, a', h, hs => by simp [drainAuxss] at h; subst h; exact hs
  | i :: rest, a, a', h, hs => by
    simp only [drainAuxss, bind, Except.bind] at h
    split at h
    · cases h
    · rename_i a1 h1
      have hv : (if nf == 0 then (0x5f : UInt8) else if nf == 1 then 0x2d else 0x2c) ≠ 0 := by
        split
        · decide
        · split <;> decide
      exact drainAuxss_shape nf rest a1 a' h (wrSs_shape h1 hv hs)


theorem faceChars_ne {mf : Int} {o c : UInt8}
    (h : (if mf == -1 then .ok (chLt, chGt) else if mf == -2 then .ok (chLp, chRp)
          else if mf == -3 then .ok (chLb, chRb) else if mf == -4 then .ok (chLc, chRc)
          else .error WErr.einconceivable : Except WErr (UInt8 × UInt8)) = .ok (o, c)) : o ≠ 0 ∧ c ≠ 0 := by
  split at h
  · injection h with h; injection h with h1 h2; subst h1 h2; decide
  · split at h
    · injection h with h; injection h with h1 h2; subst h1 h2; decide
    · split at h
      · injection h with h; injection h with h1 h2; subst h1 h2; decide
      · split at h
        · injection h with h; injection h with h1 h2; subst h1 h2; decide
        · cases h

theorem popLoop_shape {n : Nat} (simple : Bool) (ct : Array Nat) (j : Nat) :
    ∀ (pda : List Int) (nf : Nat) (mf : Int) (st : C2W) (res : Bool × List Int × C2W),
      popLoop simple ct j pda nf mf st = .ok res → Shape n st.ss → Shape n res.2.2.ss
  | [], nf, mf, st, res, h, hs => by
    simp only [popLoop] at h
    injection h with h; subst h; exact hs
  | i :: pda, nf, mf, st, res, h, hs => by
    unfold popLoop at h
    split at h
    · exact popLoop_shape simple ct j pda _ _ st res h hs
    · simp only [bind, Except.bind, pure, Except.pure] at h
      split at h
      · cases h
      · rename_i ci hci
        split at h
        · -- found the partner
          split at h
          · -- simple
            split at h
            · cases h
            · rename_i ss1 h1
              split at h
              · cases h
              · rename_i ss2 h2
                injection h with h; subst h
                exact wrSs_shape h2 (by decide) (wrSs_shape h1 (by decide) hs)
          · split at h
            · cases h
            · rename_i oc hoc
              obtain ⟨o, c⟩ := oc
              have hne := faceChars_ne hoc
              simp only at h
              split at h
              · cases h
              · rename_i ss1 h1
                split at h
                · cases h
                · rename_i ss2 h2
                  split at h
                  · cases h
                  · rename_i ss3 h3
                    injection h with h; subst h
                    exact drainAuxss_shape _ _ _ _ h3 (wrSs_shape h2 hne.2 (wrSs_shape h1 hne.1 hs))
        · split at h
          · -- cct[i] == 0
            split at h
            · cases h
            · rename_i oi hoi
              split at h
              · -- simple: maybe write '.'
                split at h
                · cases h
                · rename_i ss1 h1
                  apply popLoop_shape simple ct j pda _ _ _ res h
                  show Shape n ss1
                  split at h1
                  · exact wrSs_shape h1 (by decide) hs
                  · injection h1 with h1; subst h1; exact hs
              · apply popLoop_shape simple ct j pda _ _ _ res h
                split <;> exact hs
          · exact popLoop_shape simple ct j pda _ _ _ res h hs

theorem rdInt_nonneg {a : Array Int} {i r : Int} (h : rdInt a i = .ok r) : 0 ≤ i := by
  unfold rdInt at h
  split at h
  · rename_i hc; exact hc.1
  · cases h

theorem ofNat_ne_zero (m : Nat) (h1 : 1 ≤ m) (h2 : m ≤ 255) : UInt8.ofNat m ≠ 0 := by
  intro e
  have h := congrArg UInt8.toNat e
  rw [UInt8.toNat_ofNat'] at h
  have : (0 : UInt8).toNat = 0 := rfl
  rw [this] at h
  omega

theorem letter_ne_zero (x : Int) (base : Nat) (h0 : 0 ≤ x) (h1 : x ≤ 25) (hb : 1 ≤ base ∧ base ≤ 200) :
    UInt8.ofNat (x + (base : Int)).toNat ≠ 0 := by
  have hx : (x + (base : Int)).toNat = x.toNat + base := by omega
  rw [hx]
  exact ofNat_ne_zero _ (by omega) (by omega)

theorem pkLoop_shape {n : Nat} (ct : Array Nat) (j : Nat) :
    ∀ (auxpk : List Nat) (lb rbd xpk : Int) (st st' : C2W),
      pkLoop ct j auxpk lb rbd xpk st = .ok st' → Shape n st.ss → Shape n st'.ss
  | [], lb, rbd, xpk, st, st', h, hs => by
    simp only [pkLoop] at h
    injection h with h; subst h; exact hs
  | i :: rest, lb, rbd, xpk, st, st', h, hs => by
    unfold pkLoop at h
    simp only [bind, Except.bind, pure, Except.pure] at h
    split at h
    · cases h
    · split at h
      · cases h
      · split at h
        · cases h
        · rename_i trip htrip
          obtain ⟨xpk', lb', rbd'⟩ := trip
          simp only at h
          split at h
          · rename_i hle
            split at h
            · cases h
            · rename_i r hr
              have h0 := rdInt_nonneg hr
              split at h
              · cases h
              · rename_i ss1 h1
                split at h
                · cases h
                · rename_i ss2 h2
                  split at h
                  · cases h
                  · split at h
                    · cases h
                    · split at h
                      · cases h
                      · apply pkLoop_shape ct j rest _ _ _ _ st' h
                        have hx : xpk' ≤ 25 := by omega
                        exact wrSs_shape h2 (letter_ne_zero xpk' 97 h0 hx (by omega))
                          (wrSs_shape h1 (letter_ne_zero xpk' 65 h0 hx (by omega)) hs)
          · cases h

theorem c2wMain_shape {n : Nat} (simple : Bool) (ct : Array Nat) (len : Nat) :
    ∀ (fuel j : Nat) (pda : List Int) (st st' : C2W),
      c2wMain simple ct len fuel j pda st = .ok st' → Shape n st.ss → Shape n st'.ss := by
  intro fuel
  induction fuel with
  | zero =>
    intro j pda st st' h hs
    simp only [c2wMain] at h
    injection h with h; subst h; exact hs
  | succ fuel ih =>
    intro j pda st st' h hs
    unfold c2wMain at h
    split at h
    · injection h with h; subst h; exact hs
    · simp only [bind, Except.bind, pure, Except.pure] at h
      split at h
      · cases h
      · split at h
        · exact ih _ _ _ _ h hs
        · split at h
          · exact ih _ _ _ _ h hs
          · split at h
            · cases h
            · rename_i res hres
              obtain ⟨found, pda', st1⟩ := res
              have hs1 : Shape n st1.ss := popLoop_shape simple ct j pda 0 (-1) st _ hres hs
              simp only at h
              split at h
              · cases h
              · split at h
                · cases h
                · rename_i st2 hst2
                  apply ih _ _ _ _ h
                  split at hst2
                  · injection hst2 with e; subst e; exact hs1
                  · split at hst2
                    · cases hst2
                    · exact pkLoop_shape ct j _ _ _ _ _ _ hst2 hs1

/-- `esl_ct2wuss` / `esl_ct2simplewuss` on success write exactly `n` symbols, none of them NUL -/
theorem ct2wussGen_shape (simple : Bool) (ct : List Nat) (ss : Bytes) (h : ct2wussGen simple ct = .ok ss) :
    ss.length = ct.length - 1 ∧ ∀ c ∈ ss, c ≠ 0 := by
  unfold ct2wussGen at h
  simp only at h
  split at h
  · cases h
  · rename_i st hst
    split at h
    · cases h
    · injection h with h; subst h
      have hs0 : Shape (ct.length - 1) (Array.replicate (ct.length - 1) (if simple then (0x2e : UInt8) else 0x3a)) := by
        refine ⟨by simp, ?_⟩
        intro c hc
        simp only [Array.toList_replicate, List.mem_replicate] at hc
        rw [hc.2]; split <;> decide
      have := c2wMain_shape simple ct.toArray (ct.length - 1) _ _ _ _ st hst hs0
      exact ⟨by simpa using this.1, this.2⟩

end EaselModel.Msa
