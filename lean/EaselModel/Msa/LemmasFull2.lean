import EaselModel.Msa.LemmasFull
import EaselModel.Msa.LemmasWuss2
/-! Lemmas: `esl_wuss_nopseudo` removes exactly the pseudoknot-letter pairs, and `esl_wuss_full` keeps the pair table of
    EVERY balanced WUSS string (pseudoknot letters included). -/
namespace EaselModel.Msa

theorem alpha_facts_nat : ∀ n, n < 256 →
    (isOpenBr (UInt8.ofNat n) = true → isAlpha (UInt8.ofNat n) = false ∧ isAlpha (closerOf (UInt8.ofNat n)) = false) ∧
    (isUpper (UInt8.ofNat n) = true → isAlpha (UInt8.ofNat n) = true ∧ isAlpha (toLower (UInt8.ofNat n)) = true ∧
        1 ≤ pkIndex (UInt8.ofNat n) ∧ openerClass (UInt8.ofNat n) = some (pkIndex (UInt8.ofNat n))) ∧
    (isUnpairedSym (UInt8.ofNat n) = true → isAlpha (UInt8.ofNat n) = false) ∧
    isUnpairedSym 0x2e = true := by decide +kernel

theorem alpha_facts (c : UInt8) :
    (isOpenBr c = true → isAlpha c = false ∧ isAlpha (closerOf c) = false) ∧
    (isUpper c = true → isAlpha c = true ∧ isAlpha (toLower c) = true ∧ 1 ≤ pkIndex c ∧ openerClass c = some (pkIndex c)) ∧
    (isUnpairedSym c = true → isAlpha c = false) := by
  have := alpha_facts_nat c.toNat (UInt8.toNat_lt c)
  rw [ofNat_toNat] at this
  exact ⟨this.1, this.2.1, this.2.2.1⟩

/-- the pair table with the pseudoknot-letter pairs removed -/
def nopkCt (ss : Bytes) (ct : List Nat) : List Nat :=
  (List.range ct.length).map fun p => if isAlpha (ss.getD (p-1) 0) then 0 else ct.getD p 0

theorem nopkCt_getD (ss : Bytes) (ct : List Nat) (p : Nat) :
    (nopkCt ss ct).getD p 0 = if isAlpha (ss.getD (p-1) 0) then 0 else ct.getD p 0 := by
  unfold nopkCt
  rw [List.getD_eq_getElem?_getD, List.getElem?_map]
  by_cases hp : p < ct.length
  · rw [List.getElem?_range hp]; rfl
  · rw [List.getElem?_eq_none (by simp; omega)]
    have : ct.getD p 0 = 0 := by simp [List.getD_eq_getElem?_getD, List.getElem?_eq_none (Nat.le_of_not_lt hp)]
    rw [this]
    split <;> rfl

theorem nopseudo_getD (ss : Bytes) (k : Nat) (hk : k < ss.length) : (wussNopseudo ss).getD k 0 = nopseudoChar (ss.getD k 0) := by
  simp [wussNopseudo, List.getD_eq_getElem?_getD, List.getElem?_map, List.getElem?_eq_getElem hk]

/-- both ends of a pair are letters, or neither is -/
theorem pair_alpha (ss : Bytes) (ct : List Nat) (hct : CtOk ss.length ct) (hl : ClassLabels ct ss) (i : Nat) (hi : ct.getD i 0 ≠ 0) :
    isAlpha (ss.getD (ct.getD i 0 - 1) 0) = isAlpha (ss.getD (i-1) 0) := by
  have hq := hct.2 i hi
  rcases Nat.lt_or_ge i (ct.getD i 0) with hlt | hge
  · rcases (hl i hq.1 hq.2.1).2 hlt with ⟨ho, hc⟩ | ⟨hu, hc⟩
    · have f := (alpha_facts _).1 ho; rw [hc, f.1, f.2]
    · have f := (alpha_facts _).2.1 hu; rw [hc, f.1, f.2.1]
  · have hq0 : ct.getD (ct.getD i 0) 0 ≠ 0 := by rw [hq.2.2.2.2.1]; omega
    have hlt : ct.getD i 0 < ct.getD (ct.getD i 0) 0 := by rw [hq.2.2.2.2.1]; omega
    have := (hl (ct.getD i 0) hq.2.2.1 hq.2.2.2.1).2 hlt
    rw [hq.2.2.2.2.1] at this
    rcases this with ⟨ho, hc⟩ | ⟨hu, hc⟩
    · have f := (alpha_facts _).1 ho; rw [hc, f.1, f.2]
    · have f := (alpha_facts _).2.1 hu; rw [hc, f.1, f.2.1]

theorem nopk_class (ss : Bytes) (ct : List Nat) (hct : CtOk ss.length ct) (hl : ClassLabels ct ss) (hcn : ClassNested ct ss) :
    CtOk ss.length (nopkCt ss ct) ∧ ClassLabels (nopkCt ss ct) (wussNopseudo ss) ∧ ClassNested (nopkCt ss ct) (wussNopseudo ss) := by
  have hrl : (wussNopseudo ss).length = ss.length := by simp [wussNopseudo]
  have rd : ∀ p, (nopkCt ss ct).getD p 0 ≠ 0 →
      isAlpha (ss.getD (p-1) 0) = false ∧ (nopkCt ss ct).getD p 0 = ct.getD p 0 ∧ ct.getD p 0 ≠ 0 := by
    intro p hp
    rw [nopkCt_getD] at hp ⊢
    split at hp
    · exact absurd rfl hp
    · rename_i h1
      rw [if_neg h1]
      exact ⟨by simpa using h1, rfl, hp⟩
  refine ⟨⟨by simp [nopkCt, hct.1], ?_⟩, ?_, ?_⟩
  · intro i hi
    obtain ⟨h1, h2, h3⟩ := rd i hi
    have hq := hct.2 i h3
    have hpa := pair_alpha ss ct hct hl i h3
    rw [h2]
    refine ⟨hq.1, hq.2.1, hq.2.2.1, hq.2.2.2.1, ?_, hq.2.2.2.2.2⟩
    rw [nopkCt_getD, hpa, h1]
    simp only [Bool.false_eq_true, if_false]
    exact hq.2.2.2.2.1
  · intro p hp1 hp2
    rw [hrl] at hp2
    rw [nopseudo_getD ss (p-1) (by omega)]
    constructor
    · intro hz
      rw [nopkCt_getD] at hz
      by_cases ha : isAlpha (ss.getD (p-1) 0) = true
      · simp only [nopseudoChar, ha, if_true]; decide
      · have ha' : isAlpha (ss.getD (p-1) 0) = false := by simpa using ha
        rw [ha'] at hz
        simp only [Bool.false_eq_true, if_false] at hz
        simp only [nopseudoChar, ha', Bool.false_eq_true, if_false]
        exact (hl p hp1 hp2).1 hz
    · intro hlt
      have hnz : (nopkCt ss ct).getD p 0 ≠ 0 := by omega
      obtain ⟨h1, h2, h3⟩ := rd p hnz
      rw [h2] at hlt ⊢
      have hq := hct.2 p h3
      have hpa := pair_alpha ss ct hct hl p h3
      rw [nopseudo_getD ss (ct.getD p 0 - 1) (by omega)]
      simp only [nopseudoChar, h1, hpa, Bool.false_eq_true, if_false]
      rcases (hl p hp1 hp2).2 hlt with hb | ⟨hu, _⟩
      · exact Or.inl hb
      · have := ((alpha_facts _).2.1 hu).1; rw [h1] at this; cases this
  · intro i i' hi hi' hlt hlt2 hleft' hcls
    obtain ⟨a1, a2, a3⟩ := rd i hi
    obtain ⟨b1, b2, b3⟩ := rd i' hi'
    have hq := hct.2 i a3
    have hq' := hct.2 i' b3
    rw [a2] at hlt2 ⊢
    rw [b2] at hleft' ⊢
    rw [nopseudo_getD ss (i-1) (by omega), nopseudo_getD ss (i'-1) (by omega)] at hcls
    simp only [nopseudoChar, a1, b1, Bool.false_eq_true, if_false] at hcls
    exact hcn i i' a3 b3 hlt hlt2 hleft' hcls

/-- `esl_wuss_nopseudo` removes exactly the pseudoknot-letter pairs from the pair table -/
theorem wussNopseudo_pairs' (ss : Bytes) (ct : List Nat) (h : wuss2ct ss = some ct) :
    wuss2ct (wussNopseudo ss) = some (nopkCt ss ct) := by
  have hct := wuss2ct_ctOk ss ct h
  obtain ⟨hl, hcn⟩ := wuss2ct_class_labels ss ct h
  obtain ⟨m1, m2, m3⟩ := nopk_class ss ct hct hl hcn
  have hrl : (wussNopseudo ss).length = ss.length := by simp [wussNopseudo]
  exact wuss2ct_of_class_labels' (wussNopseudo ss) _ (by rw [hrl]; exact m1) m3 m2

theorem openerClass_open (c : UInt8) (h : isOpenBr c = true) : openerClass c = some 0 := by
  unfold openerClass; rw [if_pos h]

theorem zipWith_getD {α : Type} (g : α → α → α) (d : α) : ∀ (a b : List α) (k : Nat), k < a.length → k < b.length →
    (List.zipWith g a b).getD k d = g (a.getD k d) (b.getD k d)
  | x :: a, y :: b, 0, _, _ => by simp
  | x :: a, y :: b, k+1, h1, h2 => by
    have := zipWith_getD g d a b k (by simpa using h1) (by simpa using h2)
    simpa [List.getD_eq_getElem?_getD] using this
  | [], _, _, h1, _ => by simp at h1
  | _ :: _, [], _, _, h2 => by simp at h2

/-- `esl_wuss_full` on EVERY balanced WUSS string: it succeeds, keeps the length, keeps the pseudoknot letters where they
    were and relabels the bracket pairs, and the result has the same pair table -/
theorem wussFull_total' (ss : Bytes) (ct : List Nat) (h : wuss2ct ss = some ct) :
    ∃ full, wussFull ss = .ok full ∧ full.length = ss.length ∧ wuss2ct full = some ct := by
  have hct := wuss2ct_ctOk ss ct h
  obtain ⟨hl, hcn⟩ := wuss2ct_class_labels ss ct h
  have hA := wussNopseudo_pairs' ss ct h
  have hrl : (wussNopseudo ss).length = ss.length := by simp [wussNopseudo]
  have hct' : CtOk ss.length (nopkCt ss ct) := by
    have := wuss2ct_ctOk _ _ hA; rw [hrl] at this; exact this
  have hnest : Nested (nopkCt ss ct) := by
    apply wuss2ct_nopk_nested' (wussNopseudo ss) _ _ hA
    intro c hc
    simp only [wussNopseudo, List.mem_map] at hc
    obtain ⟨d, _, rfl⟩ := hc
    unfold nopseudoChar
    split
    · decide
    · rename_i hd; simpa using hd
  obtain ⟨f, hf⟩ := ct2wuss_nested_ok ss.length _ hct' hnest
  obtain ⟨hflen, hflab⟩ := ct2wuss_labels ss.length _ hct' hnest f hf
  refine ⟨List.zipWith (fun o t => if isAlpha o then o else t) ss f, ?_, by simp [hflen], ?_⟩
  · simp only [wussFull, hA, hf]
  · have hzl : (List.zipWith (fun o t => if isAlpha o then o else t) ss f).length = ss.length := by simp [hflen]
    have rz : ∀ p, 1 ≤ p → p ≤ ss.length →
        (List.zipWith (fun o t => if isAlpha o then o else t) ss f).getD (p-1) 0 =
          if isAlpha (ss.getD (p-1) 0) then ss.getD (p-1) 0 else f.getD (p-1) 0 := by
      intro p h1 h2
      exact zipWith_getD _ 0 ss f (p-1) (by omega) (by omega)
    have nk : ∀ p, isAlpha (ss.getD (p-1) 0) = false → (nopkCt ss ct).getD p 0 = ct.getD p 0 := by
      intro p hp; rw [nopkCt_getD, hp]; rfl
    apply wuss2ct_of_class_labels' _ ct (by rw [hzl]; exact hct)
    · -- class nested
      intro i i' hi hi' hlt hlt2 hleft' hcls
      have hq := hct.2 i hi
      have hq' := hct.2 i' hi'
      have hil : i < ct.getD i 0 := by omega
      rw [rz i hq.1 hq.2.1, rz i' hq'.1 hq'.2.1] at hcls
      have lab := (hl i hq.1 hq.2.1).2 hil
      have lab' := (hl i' hq'.1 hq'.2.1).2 hleft'
      rcases lab with ⟨ho, _⟩ | ⟨hu, _⟩
      · have fa := ((alpha_facts _).1 ho).1
        have fo := (hflab i hq.1 (by rw [hflen]; exact hq.2.1)).2 (by rw [nk i fa]; exact hil)
        rcases lab' with ⟨ho', _⟩ | ⟨hu', _⟩
        · have fa' := ((alpha_facts _).1 ho').1
          have := hnest i i' (by rw [nk i fa]; exact hi) (by rw [nk i' fa']; exact hi') hlt (by rw [nk i fa]; exact hlt2)
          rw [nk i fa, nk i' fa'] at this; exact this
        · exfalso
          have fu' := (alpha_facts _).2.1 hu'
          rw [fa, fu'.1] at hcls
          simp only [Bool.false_eq_true, if_false, if_true] at hcls
          rw [openerClass_open _ fo.1, fu'.2.2.2] at hcls
          injection hcls with hcls; omega
      · have fu := (alpha_facts _).2.1 hu
        rcases lab' with ⟨ho', _⟩ | ⟨hu', _⟩
        · exfalso
          have fa' := ((alpha_facts _).1 ho').1
          have fo' := (hflab i' hq'.1 (by rw [hflen]; exact hq'.2.1)).2 (by rw [nk i' fa']; exact hleft')
          rw [fu.1, fa'] at hcls
          simp only [Bool.false_eq_true, if_false, if_true] at hcls
          rw [openerClass_open _ fo'.1, fu.2.2.2] at hcls
          injection hcls with hcls; omega
        · have fu' := (alpha_facts _).2.1 hu'
          rw [fu.1, fu'.1] at hcls
          simp only [if_true] at hcls
          exact hcn i i' hi hi' hlt hlt2 hleft' hcls
    · -- class labels
      intro p hp1 hp2
      rw [hzl] at hp2
      rw [rz p hp1 hp2]
      constructor
      · intro hz
        have hu := (hl p hp1 hp2).1 hz
        have fa := (alpha_facts _).2.2 hu
        rw [fa]
        simp only [Bool.false_eq_true, if_false]
        exact (hflab p hp1 (by rw [hflen]; exact hp2)).1 (by rw [nk p fa]; exact hz)
      · intro hlt
        have hq := hct.2 p (by omega)
        rw [rz (ct.getD p 0) hq.2.2.1 hq.2.2.2.1]
        have hpa := pair_alpha ss ct hct hl p (by omega)
        rw [hpa]
        rcases (hl p hp1 hp2).2 hlt with ⟨ho, _⟩ | ⟨hu, hc⟩
        · have fa := ((alpha_facts _).1 ho).1
          rw [fa]
          simp only [Bool.false_eq_true, if_false]
          have fo := (hflab p hp1 (by rw [hflen]; exact hp2)).2 (by rw [nk p fa]; exact hlt)
          rw [nk p fa] at fo
          exact Or.inl fo
        · have fu := (alpha_facts _).2.1 hu
          rw [fu.1]
          simp only [if_true]
          exact Or.inr ⟨hu, hc⟩

/-- WUSS -> KH -> WUSS on one symbol: every opening bracket becomes `<`, every closing one `>`, every unpaired symbol `.`,
    letters stay -/
theorem khkh_facts_nat : ∀ n, n < 256 →
    (isOpenBr (UInt8.ofNat n) = true → kh2wussChar (wuss2khChar (UInt8.ofNat n)) = chLt ∧
        kh2wussChar (wuss2khChar (closerOf (UInt8.ofNat n))) = chGt) ∧
    (isUpper (UInt8.ofNat n) = true → kh2wussChar (wuss2khChar (UInt8.ofNat n)) = UInt8.ofNat n ∧
        kh2wussChar (wuss2khChar (toLower (UInt8.ofNat n))) = toLower (UInt8.ofNat n)) ∧
    (isUnpairedSym (UInt8.ofNat n) = true → isUnpairedSym (kh2wussChar (wuss2khChar (UInt8.ofNat n))) = true) := by
  decide +kernel

theorem khkh_facts (c : UInt8) :
    (isOpenBr c = true → kh2wussChar (wuss2khChar c) = chLt ∧ kh2wussChar (wuss2khChar (closerOf c)) = chGt) ∧
    (isUpper c = true → kh2wussChar (wuss2khChar c) = c ∧ kh2wussChar (wuss2khChar (toLower c)) = toLower c) ∧
    (isUnpairedSym c = true → isUnpairedSym (kh2wussChar (wuss2khChar c)) = true) := by
  have := khkh_facts_nat c.toNat (UInt8.toNat_lt c)
  rw [ofNat_toNat] at this; exact this

theorem khkh_getD (ss : Bytes) (k : Nat) (hk : k < ss.length) :
    (kh2wuss (wuss2kh ss)).getD k 0 = kh2wussChar (wuss2khChar (ss.getD k 0)) := by
  simp [kh2wuss, wuss2kh, List.getD_eq_getElem?_getD, List.getElem?_map, List.getElem?_eq_getElem hk]

/-- `esl_wuss2kh` followed by `esl_kh2wuss` keeps the pair table of every balanced WUSS string -/
theorem kh_roundtrip_pairs' (ss : Bytes) (ct : List Nat) (h : wuss2ct ss = some ct) :
    wuss2ct (kh2wuss (wuss2kh ss)) = some ct := by
  have hct := wuss2ct_ctOk ss ct h
  obtain ⟨hl, hcn⟩ := wuss2ct_class_labels ss ct h
  have hrl : (kh2wuss (wuss2kh ss)).length = ss.length := by simp [kh2wuss, wuss2kh]
  -- the opener class of a left end is unchanged
  have hcls : ∀ p, ct.getD p 0 ≠ 0 → p < ct.getD p 0 →
      openerClass ((kh2wuss (wuss2kh ss)).getD (p-1) 0) = openerClass (ss.getD (p-1) 0) := by
    intro p h0 hlt
    have hq := hct.2 p h0
    rw [khkh_getD ss (p-1) (by omega)]
    rcases (hl p hq.1 hq.2.1).2 hlt with ⟨ho, _⟩ | ⟨hu, _⟩
    · rw [((khkh_facts _).1 ho).1, openerClass_open _ ho]; decide
    · rw [((khkh_facts _).2.1 hu).1]
  apply wuss2ct_of_class_labels' _ ct (by rw [hrl]; exact hct)
  · intro i i' hi hi' hlt hlt2 hleft' hc
    rw [hcls i hi (by omega), hcls i' hi' hleft'] at hc
    exact hcn i i' hi hi' hlt hlt2 hleft' hc
  · intro p hp1 hp2
    rw [hrl] at hp2
    rw [khkh_getD ss (p-1) (by omega)]
    constructor
    · intro hz
      exact (khkh_facts _).2.2 ((hl p hp1 hp2).1 hz)
    · intro hlt
      have hq := hct.2 p (by omega)
      rw [khkh_getD ss (ct.getD p 0 - 1) (by omega)]
      rcases (hl p hp1 hp2).2 hlt with ⟨ho, hc⟩ | ⟨hu, hc⟩
      · left
        have f := (khkh_facts _).1 ho
        rw [hc, f.1, f.2]; decide
      · right
        have f := (khkh_facts _).2.1 hu
        rw [hc, f.1, f.2]; exact ⟨hu, rfl⟩

end EaselModel.Msa
