import EaselModel.Msa.LemmasMsa
/-! Lemmas: `esl_msa_SequenceSubset` rebuilds the unparsed GS / GR tables so that every retained sequence keeps exactly
    its own markup (`esl_msa_AddGS` / `esl_msa_AppendGR` called per retained sequence and tag). -/
namespace EaselModel.Msa

/-- all rows of a tag table have `nnew` slots -/
def tblWidth (nnew : Nat) (tbl : TagTable) : Prop := ∀ t ∈ tbl, t.2.length = nnew

/-- new index of old sequence `o`: the number of selected sequences before it -/
def rankOf (useme : List Bool) (o : Nat) : Nat := ((useme.take o).filter id).length

theorem getD_modify_opt (l : List (Option Bytes)) (i j : Nat) (f : Option Bytes → Option Bytes) (hj : j < l.length) :
    (l.modify i f).getD j none = if i = j then f (l.getD j none) else l.getD j none := by
  simp only [List.getD_eq_getElem?_getD, List.getElem?_modify, List.getElem?_eq_getElem hj]
  split <;> simp

theorem getD_modify_opt_ne (l : List (Option Bytes)) (i j : Nat) (f : Option Bytes → Option Bytes) (hij : i ≠ j) :
    (l.modify i f).getD j none = l.getD j none := by
  simp only [List.getD_eq_getElem?_getD, List.getElem?_modify]
  cases l[j]? <;> simp [hij]

theorem tblUpdate_width (nnew : Nat) (f : Option Bytes → Option Bytes) (tag : Bytes) (nidx : Nat) :
    ∀ (tbl : TagTable), tblWidth nnew tbl → tblWidth nnew (tblUpdate nnew f tag nidx tbl)
  | [], _ => by
    intro t ht
    simp only [tblUpdate, List.mem_singleton] at ht
    subst ht; simp [List.length_modify]
  | (t, vals) :: rest, hw => by
    have hrest : tblWidth nnew rest := fun x hx => hw x (List.mem_cons_of_mem _ hx)
    have hhead : vals.length = nnew := hw (t, vals) (by simp)
    intro x hx
    simp only [tblUpdate] at hx
    split at hx
    · simp only [List.mem_cons] at hx
      rcases hx with rfl | hx
      · simp [List.length_modify, hhead]
      · exact hrest x hx
    · simp only [List.mem_cons] at hx
      rcases hx with rfl | hx
      · exact hhead
      · exact tblUpdate_width nnew f tag nidx rest hrest x hx

/-- reading a table after one `AddGS`/`AppendGR`: only slot `nidx` of row `tag` changed -/
theorem tblLookup_update (nnew : Nat) (f : Option Bytes → Option Bytes) (tag : Bytes) (nidx : Nat) (hn : nidx < nnew)
    (tag' : Bytes) (j : Nat) :
    ∀ (tbl : TagTable), tblWidth nnew tbl →
      tblLookup tag' j (tblUpdate nnew f tag nidx tbl) =
        if tag' = tag ∧ j = nidx then f (tblLookup tag nidx tbl) else tblLookup tag' j tbl
  | [], _ => by
    have hlen : (List.replicate nnew (none : Option Bytes)).length = nnew := by simp
    have hrep : ∀ k, (List.replicate nnew (none : Option Bytes)).getD k none = none := by
      intro k; simp only [List.getD_eq_getElem?_getD, List.getElem?_replicate]; split <;> rfl
    simp only [tblUpdate, tblLookup]
    by_cases h1 : tag = tag'
    · subst h1
      by_cases h2 : j = nidx
      · subst h2
        rw [if_pos rfl, getD_modify_opt _ _ _ _ (by rw [hlen]; exact hn), if_pos rfl, hrep, if_pos ⟨rfl, rfl⟩]
      · rw [if_pos rfl, getD_modify_opt_ne _ _ _ _ (fun e => h2 e.symm), hrep, if_neg (fun h => h2 h.2)]
    · rw [if_neg h1, if_neg (fun h => h1 h.1.symm)]
  | (t, vals) :: rest, hw => by
    have hrest : tblWidth nnew rest := fun x hx => hw x (List.mem_cons_of_mem _ hx)
    have hhead : vals.length = nnew := hw (t, vals) (by simp)
    have ih := tblLookup_update nnew f tag nidx hn tag' j rest hrest
    simp only [tblUpdate]
    by_cases ht : t = tag
    · subst ht
      simp only [if_true, tblLookup]
      by_cases h1 : t = tag'
      · subst h1
        by_cases h2 : j = nidx
        · subst h2
          rw [if_pos rfl, getD_modify_opt _ _ _ _ (by omega : j < vals.length), if_pos rfl, if_pos ⟨rfl, rfl⟩]
        · rw [if_pos rfl, getD_modify_opt_ne _ _ _ _ (fun e => h2 e.symm), if_neg (fun h => h2 h.2), if_pos rfl]
      · rw [if_neg h1, if_neg (fun h => h1 h.1.symm), if_neg h1]
    · simp only [ht, if_false, tblLookup]
      by_cases h1 : t = tag'
      · subst h1
        rw [if_pos rfl, if_neg (fun h => ht h.1), if_pos rfl]
      · simp only [h1, if_false]
        exact ih

theorem tblLookup_not_mem (tag : Bytes) (i : Nat) : ∀ (tbl : TagTable), tag ∉ tbl.map (·.1) → tblLookup tag i tbl = none
  | [], _ => rfl
  | (t, vals) :: rest, h => by
    simp only [List.map_cons, List.mem_cons, not_or] at h
    have : ¬ t = tag := fun e => h.1 e.symm
    simp [tblLookup, this, tblLookup_not_mem tag i rest h.2]

/-- the per-sequence inner loop `for (i = 0; i < ngs; i++) if (gs[i][oidx]) AddGS(new, tag[i], nidx, gs[i][oidx])` -/
theorem foldl_rows (nnew nidx oidx : Nat) (store : Bytes → Option Bytes → Option Bytes) (hn : nidx < nnew) :
    ∀ (l : TagTable) (acc : TagTable), (l.map (·.1)).Nodup → tblWidth nnew acc →
      (∀ tag ∈ l.map (·.1), tblLookup tag nidx acc = none) →
      tblWidth nnew (l.foldl (fun acc (t : Bytes × List (Option Bytes)) =>
          match t.2.getD oidx none with
          | some v => tblUpdate nnew (store v) t.1 nidx acc
          | none => acc) acc) ∧
      (∀ tag j, j ≠ nidx → tblLookup tag j (l.foldl (fun acc (t : Bytes × List (Option Bytes)) =>
          match t.2.getD oidx none with
          | some v => tblUpdate nnew (store v) t.1 nidx acc
          | none => acc) acc) = tblLookup tag j acc) ∧
      (∀ tag, tblLookup tag nidx (l.foldl (fun acc (t : Bytes × List (Option Bytes)) =>
          match t.2.getD oidx none with
          | some v => tblUpdate nnew (store v) t.1 nidx acc
          | none => acc) acc) =
        if tag ∈ l.map (·.1) then (match tblLookup tag oidx l with | some v => store v none | none => none)
        else tblLookup tag nidx acc)
  | [], acc, _, hw, _ => by simp [hw]
  | (t, vals) :: l, acc, hnd, hw, hz => by
    simp only [List.map_cons, List.nodup_cons] at hnd
    simp only [List.foldl_cons]
    -- the table after handling row `t`
    have hacc1 : ∃ acc1, acc1 = (match vals.getD oidx none with
          | some v => tblUpdate nnew (store v) t nidx acc
          | none => acc) := ⟨_, rfl⟩
    obtain ⟨acc1, hdef⟩ := hacc1
    have hw1 : tblWidth nnew acc1 := by
      rw [hdef]; split
      · exact tblUpdate_width _ _ _ _ _ hw
      · exact hw
    have hlk : ∀ tag j, tblLookup tag j acc1 =
        (match vals.getD oidx none with
         | some v => if tag = t ∧ j = nidx then store v (tblLookup t nidx acc) else tblLookup tag j acc
         | none => tblLookup tag j acc) := by
      intro tag j; rw [hdef]; split
      · exact tblLookup_update nnew _ t nidx hn tag j acc hw
      · rfl
    have hz1 : ∀ tag ∈ l.map (·.1), tblLookup tag nidx acc1 = none := by
      intro tag htag
      have hne : ¬ tag = t := fun e => hnd.1 (e ▸ htag)
      rw [hlk]; split
      · simp [hne]; exact hz tag (by simp [htag])
      · exact hz tag (by simp [htag])
    have ih := foldl_rows nnew nidx oidx store hn l acc1 hnd.2 hw1 hz1
    rw [← hdef]
    refine ⟨ih.1, ?_, ?_⟩
    · intro tag j hj
      rw [ih.2.1 tag j hj, hlk]; split
      · simp [hj]
      · rfl
    · intro tag
      rw [ih.2.2 tag]
      by_cases hmem : tag ∈ l.map (·.1)
      · have hne : ¬ t = tag := fun e => hnd.1 (e ▸ hmem)
        simp [hmem, tblLookup, hne]
      · by_cases hteq : tag = t
        · subst hteq
          have hzt := hz tag (by simp)
          simp only [hmem, if_false, List.map_cons, List.mem_cons, true_or, if_true, tblLookup]
          rw [hlk]; split <;> simp_all
        · have hne : ¬ t = tag := fun e => hteq e.symm
          simp only [hmem, if_false, List.map_cons, List.mem_cons, hteq, false_or]
          rw [hlk]; split
          · simp [hteq]
          · rfl

theorem rankOf_succ (useme : List Bool) (o : Nat) :
    rankOf useme (o+1) = rankOf useme o + (if useme.getD o false then 1 else 0) := by
  simp only [rankOf, List.take_add_one, List.filter_append, List.length_append, List.getD_eq_getElem?_getD]
  cases h : useme[o]? with
  | none => simp
  | some b => cases b <;> simp

theorem rankOf_mono (useme : List Bool) : ∀ (a b : Nat), a ≤ b → rankOf useme a ≤ rankOf useme b := by
  intro a b hab
  induction b with
  | zero => have : a = 0 := by omega
            subst this; exact Nat.le_refl _
  | succ b ih =>
    rcases Nat.lt_or_ge a (b+1) with h | h
    · have := ih (by omega); rw [rankOf_succ]; omega
    · have : a = b + 1 := by omega
      subst this; exact Nat.le_refl _

/-- SPEC of the rebuilt table: slot of retained sequence `o` under `tag` holds what `store` makes of the old value -/
def expectedSlot (store : Bytes → Option Bytes → Option Bytes) (src : TagTable) (tag : Bytes) (o : Nat) : Option Bytes :=
  match tblLookup tag o src with
  | some v => store v none
  | none => none

/-- main invariant of `subsetTags` -/
theorem subsetTags_inv (nnew nseq : Nat) (store : Bytes → Option Bytes → Option Bytes) (src : TagTable) (useme : List Bool)
    (hnd : (src.map (·.1)).Nodup) (hnnew : nnew = rankOf useme nseq) :
    ∀ (fuel oidx : Nat) (acc : TagTable), oidx + fuel = nseq → tblWidth nnew acc →
      (∀ tag j, rankOf useme oidx ≤ j → tblLookup tag j acc = none) →
      (∀ o, o < oidx → useme.getD o false = true → ∀ tag,
          tblLookup tag (rankOf useme o) acc = expectedSlot store src tag o) →
      let T := subsetTags (fun tbl tag nidx v => tblUpdate nnew (store v) tag nidx tbl) src useme oidx (rankOf useme oidx) fuel acc
      tblWidth nnew T ∧
      (∀ o, o < nseq → useme.getD o false = true → ∀ tag,
          tblLookup tag (rankOf useme o) T = expectedSlot store src tag o) := by
  intro fuel
  induction fuel with
  | zero =>
    intro oidx acc hf hw _ hd
    have : oidx = nseq := by omega
    subst this
    exact ⟨hw, hd⟩
  | succ fuel ih =>
    intro oidx acc hf hw hz hd
    simp only [subsetTags]
    by_cases hu : useme.getD oidx false = true
    · simp only [hu, if_true]
      have hr : rankOf useme (oidx + 1) = rankOf useme oidx + 1 := by rw [rankOf_succ, hu]; rfl
      have hn : rankOf useme oidx < nnew := by
        have := rankOf_mono useme (oidx+1) nseq (by omega); omega
      have hfold := foldl_rows nnew (rankOf useme oidx) oidx store hn src acc hnd hw
        (fun tag _ => hz tag _ (Nat.le_refl _))
      rw [← hr]
      apply ih (oidx+1) _ (by omega) hfold.1
      · intro tag j hj
        rw [hfold.2.1 tag j (by omega)]
        exact hz tag j (by omega)
      · intro o ho huo tag
        rcases Nat.lt_or_ge o oidx with hlt | hge
        · have hrk : rankOf useme o ≠ rankOf useme oidx := by
            have h1 := rankOf_mono useme (o+1) oidx (by omega)
            rw [rankOf_succ, huo] at h1; simp only [if_true] at h1; omega
          rw [hfold.2.1 tag _ hrk]
          exact hd o hlt huo tag
        · have : o = oidx := by omega
          subst this
          rw [hfold.2.2 tag]
          by_cases hmem : tag ∈ src.map (·.1)
          · simp [hmem, expectedSlot]
          · simp only [hmem, if_false, expectedSlot, tblLookup_not_mem tag o src hmem]
            exact hz tag _ (Nat.le_refl _)
    · have huf : useme.getD oidx false = false := by simpa using hu
      simp only [huf, Bool.false_eq_true, if_false]
      have hr : rankOf useme (oidx + 1) = rankOf useme oidx := by rw [rankOf_succ, huf]; rfl
      rw [← hr]
      apply ih (oidx+1) acc (by omega) hw
      · intro tag j hj; exact hz tag j (by omega)
      · intro o ho huo tag
        rcases Nat.lt_or_ge o oidx with hlt | hge
        · exact hd o hlt huo tag
        · have : o = oidx := by omega
          subst this; rw [huf] at huo; cases huo

end EaselModel.Msa

namespace EaselModel.Msa

/-! ### tags stay distinct; every cell of the rebuilt table is a lookup -/

theorem tblUpdate_tags (nnew : Nat) (f : Option Bytes → Option Bytes) (tag : Bytes) (nidx : Nat) :
    ∀ (tbl : TagTable), (tblUpdate nnew f tag nidx tbl).map (·.1) =
      if tag ∈ tbl.map (·.1) then tbl.map (·.1) else tbl.map (·.1) ++ [tag]
  | [] => by simp [tblUpdate]
  | (t, vals) :: rest => by
    have ih := tblUpdate_tags nnew f tag nidx rest
    simp only [tblUpdate]
    by_cases ht : t = tag
    · subst ht; simp
    · have hne : ¬ tag = t := fun e => ht e.symm
      simp only [ht, if_false, List.map_cons, ih, List.mem_cons, hne, false_or]
      split <;> simp

theorem tblUpdate_nodup (nnew : Nat) (f : Option Bytes → Option Bytes) (tag : Bytes) (nidx : Nat) (tbl : TagTable)
    (h : (tbl.map (·.1)).Nodup) : ((tblUpdate nnew f tag nidx tbl).map (·.1)).Nodup := by
  rw [tblUpdate_tags]
  split
  · exact h
  · rename_i hn
    rw [List.nodup_append]
    exact ⟨h, by simp, by intro a ha b hb; simp at hb; subst hb; intro e; subst e; exact hn ha⟩

theorem foldl_rows_nodup (nnew nidx oidx : Nat) (store : Bytes → Option Bytes → Option Bytes) :
    ∀ (l : TagTable) (acc : TagTable), (acc.map (·.1)).Nodup →
      ((l.foldl (fun acc (t : Bytes × List (Option Bytes)) =>
          match t.2.getD oidx none with
          | some v => tblUpdate nnew (store v) t.1 nidx acc
          | none => acc) acc).map (·.1)).Nodup
  | [], acc, h => h
  | t :: l, acc, h => by
    simp only [List.foldl_cons]
    apply foldl_rows_nodup nnew nidx oidx store l
    split
    · exact tblUpdate_nodup _ _ _ _ _ h
    · exact h

theorem subsetTags_nodup (nnew : Nat) (store : Bytes → Option Bytes → Option Bytes) (src : TagTable) (useme : List Bool) :
    ∀ (fuel oidx nidx : Nat) (acc : TagTable), (acc.map (·.1)).Nodup →
      ((subsetTags (fun tbl tag nidx v => tblUpdate nnew (store v) tag nidx tbl) src useme oidx nidx fuel acc).map (·.1)).Nodup := by
  intro fuel
  induction fuel with
  | zero => intro _ _ acc h; exact h
  | succ fuel ih =>
    intro oidx nidx acc h
    simp only [subsetTags]
    split
    · exact ih _ _ _ (foldl_rows_nodup nnew nidx oidx store src acc h)
    · exact ih _ _ _ h

theorem tblLookup_of_mem (j : Nat) : ∀ (tbl : TagTable), (tbl.map (·.1)).Nodup → ∀ t ∈ tbl,
    tblLookup t.1 j tbl = t.2.getD j none
  | [], _, t, ht => by simp at ht
  | (t0, vals) :: rest, hnd, t, ht => by
    simp only [List.map_cons, List.nodup_cons] at hnd
    simp only [List.mem_cons] at ht
    rcases ht with rfl | ht
    · simp [tblLookup]
    · have hne : ¬ t0 = t.1 := by
        intro e; apply hnd.1; rw [e]; exact List.mem_map_of_mem (f := (·.1)) ht
      simp only [tblLookup, hne, if_false]
      exact tblLookup_of_mem j rest hnd.2 t ht

theorem tblLookup_some_mem (tag : Bytes) (o : Nat) (v : Bytes) : ∀ (tbl : TagTable), tblLookup tag o tbl = some v →
    ∃ t ∈ tbl, some v ∈ t.2
  | [], h => by simp [tblLookup] at h
  | (t0, vals) :: rest, h => by
    simp only [tblLookup] at h
    split at h
    · refine ⟨(t0, vals), by simp, ?_⟩
      simp only [List.getD_eq_getElem?_getD] at h
      cases hv : vals[o]? with
      | none => simp [hv] at h
      | some x => simp [hv] at h; subst h; exact List.mem_of_getElem? hv
    · obtain ⟨t, ht, hv⟩ := tblLookup_some_mem tag o v rest h
      exact ⟨t, List.mem_cons_of_mem _ ht, hv⟩

/-- every new index is the rank of some retained old index -/
theorem rank_surj (useme : List Bool) : ∀ (n j : Nat), j < rankOf useme n →
    ∃ o, o < n ∧ useme.getD o false = true ∧ rankOf useme o = j := by
  intro n
  induction n with
  | zero => intro j hj; simp [rankOf] at hj
  | succ n ih =>
    intro j hj
    rw [rankOf_succ] at hj
    by_cases hu : useme.getD n false = true
    · rw [hu] at hj; simp only [if_true] at hj
      rcases Nat.lt_or_ge j (rankOf useme n) with h | h
      · obtain ⟨o, ho, h1, h2⟩ := ih j h; exact ⟨o, by omega, h1, h2⟩
      · exact ⟨n, by omega, hu, by omega⟩
    · have huf : useme.getD n false = false := by simpa using hu
      rw [huf] at hj; simp only [Bool.false_eq_true, if_false, Nat.add_zero] at hj
      obtain ⟨o, ho, h1, h2⟩ := ih j hj; exact ⟨o, by omega, h1, h2⟩

end EaselModel.Msa

namespace EaselModel.Msa

theorem countSelected_eq_rank (m : Msa) (useme : List Bool) : countSelected m useme = rankOf useme m.nseq := rfl

theorem rankOf_cons_succ (b : Bool) (us : List Bool) (o : Nat) :
    rankOf (b :: us) (o+1) = (if b then 1 else 0) + rankOf us o := by
  cases b <;> simp [rankOf, Nat.add_comm]

/-- a retained element sits at its rank in the filtered list: names, weights, rows, annotation stay attached -/
theorem maskFilter_getD_rank {α : Type} (d : α) : ∀ (useme : List Bool) (xs : List α) (o : Nat), o < xs.length →
    useme.getD o false = true → (maskFilter useme xs).getD (rankOf useme o) d = xs.getD o d
  | [], _, o, _, hu => by simp at hu
  | _ :: _, [], o, ho, _ => by simp at ho
  | b :: us, x :: xs, 0, _, hu => by
    have : b = true := by simpa using hu
    subst this; simp [maskFilter, rankOf]
  | b :: us, x :: xs, o+1, ho, hu => by
    have ih := maskFilter_getD_rank d us xs o (by simpa using ho) (by simpa using hu)
    rw [rankOf_cons_succ]
    cases b
    · simpa [maskFilter] using ih
    · simp only [maskFilter, if_true]
      rw [Nat.add_comm]
      simpa using ih

theorem gsStore_none (v : Bytes) : gsStore v none = some v := rfl
theorem grStore_none (v : Bytes) : grStore v none = if v.isEmpty then none else some v := by
  simp [grStore]

theorem expectedSlot_gs (src : TagTable) (tag : Bytes) (o : Nat) : expectedSlot gsStore src tag o = tblLookup tag o src := by
  simp only [expectedSlot]; split <;> simp_all [gsStore_none]

theorem expectedSlot_gr (src : TagTable) (tag : Bytes) (o : Nat) :
    expectedSlot grStore src tag o = (tblLookup tag o src).bind (fun v => if v.isEmpty then none else some v) := by
  simp only [expectedSlot]; split <;> simp_all [grStore_none]

/-- the rebuilt GS and GR tables of `esl_msa_SequenceSubset` -/
theorem subset_tables (m : Msa) (useme : List Bool) (hgs : (m.gs.map (·.1)).Nodup) (hgr : (m.gr.map (·.1)).Nodup) :
    let b := sequenceSubsetMsa m useme (countSelected m useme)
    tblWidth (countSelected m useme) b.gs ∧ tblWidth (countSelected m useme) b.gr ∧
    (b.gs.map (·.1)).Nodup ∧ (b.gr.map (·.1)).Nodup ∧
    (∀ o, o < m.nseq → useme.getD o false = true → ∀ tag,
        tblLookup tag (rankOf useme o) b.gs = tblLookup tag o m.gs ∧
        tblLookup tag (rankOf useme o) b.gr = (tblLookup tag o m.gr).bind (fun v => if v.isEmpty then none else some v)) := by
  have h0 : rankOf useme 0 = 0 := rfl
  have hz : ∀ (tag : Bytes) (j : Nat), rankOf useme 0 ≤ j → tblLookup tag j ([] : TagTable) = none := fun _ _ _ => rfl
  have hd : ∀ (store : Bytes → Option Bytes → Option Bytes) (src : TagTable) (o : Nat), o < 0 → useme.getD o false = true →
      ∀ tag, tblLookup tag (rankOf useme o) ([] : TagTable) = expectedSlot store src tag o := fun _ _ o ho => by omega
  have hw0 : tblWidth (countSelected m useme) [] := fun t ht => by simp at ht
  have g1 := subsetTags_inv (countSelected m useme) m.nseq gsStore m.gs useme hgs rfl m.nseq 0 [] (by omega) hw0 hz (hd _ _)
  have g2 := subsetTags_inv (countSelected m useme) m.nseq grStore m.gr useme hgr rfl m.nseq 0 [] (by omega) hw0 hz (hd _ _)
  have n1 := subsetTags_nodup (countSelected m useme) gsStore m.gs useme m.nseq 0 0 [] (by simp)
  have n2 := subsetTags_nodup (countSelected m useme) grStore m.gr useme m.nseq 0 0 [] (by simp)
  rw [h0] at g1 g2
  refine ⟨g1.1, g2.1, n1, n2, fun o ho hu tag => ⟨?_, ?_⟩⟩
  · have := g1.2 o ho hu tag; rw [expectedSlot_gs] at this; exact this
  · have := g2.2 o ho hu tag; rw [expectedSlot_gr] at this; exact this

/-- full well-formedness of the subset -/
theorem sequenceSubsetMsa_wf (m : Msa) (useme : List Bool) (wf : m.WF) (hn : countSelected m useme ≠ 0)
    (hgs : (m.gs.map (·.1)).Nodup) (hgr : (m.gr.map (·.1)).Nodup) :
    (sequenceSubsetMsa m useme (countSelected m useme)).WF := by
  have ht := subset_tables m useme hgs hgr
  apply sequenceSubsetMsa_wf_core m useme wf hn ht.1 ht.2.1
  intro t htm s hs b' hb
  subst hb
  -- the cell is slot j of row t
  obtain ⟨j, hj, hget⟩ := List.getElem_of_mem hs
  have hw := ht.2.1 t htm
  have hlk := tblLookup_of_mem j _ ht.2.2.2.1 t htm
  have hcell : t.2.getD j none = some b' := by
    simp [List.getD_eq_getElem?_getD, List.getElem?_eq_getElem hj, hget]
  rw [hcell] at hlk
  obtain ⟨o, ho, hu, hr⟩ := rank_surj useme m.nseq j (by rw [← countSelected_eq_rank, ← hw]; exact hj)
  have hsp := (ht.2.2.2.2 o ho hu t.1).2
  rw [hr, hlk] at hsp
  cases hv : tblLookup t.1 o m.gr with
  | none => rw [hv] at hsp; simp at hsp
  | some v =>
    rw [hv] at hsp
    simp only [Option.bind_some] at hsp
    split at hsp
    · cases hsp
    · injection hsp with hsp
      subst hsp
      obtain ⟨t', ht', hv'⟩ := tblLookup_some_mem t.1 o b' m.gr hv
      exact wf.gr_ok t' ht' _ hv' b' rfl

end EaselModel.Msa
