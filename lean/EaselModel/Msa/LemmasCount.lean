import EaselModel.Msa.LemmasBreak
/-! Lemmas: a symmetric pair table has as many left ends as right ends (`npairs == npairs_reached` in `esl_ct2wuss`). -/
namespace EaselModel.Msa

/-- number of right ends among the positions `< j` -/
def rightEnds (ct : List Nat) (j : Nat) : Nat :=
  ((List.range j).filter (fun q => decide (ct.getD q 0 ≠ 0 ∧ ct.getD q 0 < q))).length

theorem filter_length_or {α : Type} (p q : α → Bool) : ∀ (l : List α), (∀ x ∈ l, ¬ (p x = true ∧ q x = true)) →
    (l.filter (fun x => p x || q x)).length = (l.filter p).length + (l.filter q).length
  | [], _ => rfl
  | x :: l, h => by
    have ih := filter_length_or p q l (fun y hy => h y (by simp [-List.getD_eq_getElem?_getD, hy]))
    have hx := h x (by simp)
    simp only [List.filter_cons]
    cases hp : p x <;> cases hq : q x <;> simp_all [-List.getD_eq_getElem?_getD] <;> omega

theorem filter_length_congr {α : Type} (p q : α → Bool) (l : List α) (h : ∀ x ∈ l, p x = q x) :
    (l.filter p).length = (l.filter q).length := by
  rw [List.filter_congr h]

theorem filter_eq_range (m i : Nat) : ((List.range m).filter (fun q => decide (q = i))).length = if i < m then 1 else 0 := by
  induction m with
  | zero => simp
  | succ m ih =>
    rw [List.range_succ, List.filter_append, List.length_append, ih]
    by_cases h1 : i < m
    · have : ¬ m = i := by omega
      simp [-List.getD_eq_getElem?_getD, h1, this]; omega
    · by_cases h2 : i = m
      · subst h2; simp
      · have : ¬ m = i := fun e => h2 e.symm
        have h3 : ¬ i < m + 1 := by omega
        simp [-List.getD_eq_getElem?_getD, h1, this, h3]

theorem rightEnds_succ (ct : List Nat) (j : Nat) :
    rightEnds ct (j+1) = rightEnds ct j + (if ct.getD j 0 ≠ 0 ∧ ct.getD j 0 < j then 1 else 0) := by
  simp only [rightEnds, List.range_succ, List.filter_append, List.length_append, List.filter_cons, List.filter_nil]
  by_cases h : ct.getD j 0 ≠ 0 ∧ ct.getD j 0 < j
  · simp [-List.getD_eq_getElem?_getD, h]
  · simp [-List.getD_eq_getElem?_getD, h]

/-- left ends whose partner is `≤ k` -/
def leftsUpTo (n : Nat) (ct : List Nat) (k : Nat) : Nat :=
  ((List.range (n+1)).filter (fun q => decide (q < ct.getD q 0 ∧ ct.getD q 0 ≤ k))).length

theorem leftsUpTo_eq_rightEnds (n : Nat) (ct : List Nat) (hct : CtOk n ct) :
    ∀ k, k ≤ n → leftsUpTo n ct k = rightEnds ct (k+1) := by
  intro k
  induction k with
  | zero =>
    intro _
    have h0 : ct.getD 0 0 = 0 := by
      rcases Nat.eq_zero_or_pos (ct.getD 0 0) with h | h
      · exact h
      · have := (hct.2 0 (by omega)).1; omega
    have e1 : leftsUpTo n ct 0 = 0 := by
      simp only [leftsUpTo, List.length_eq_zero_iff, List.filter_eq_nil_iff, decide_eq_true_eq]
      intro q _ h; omega
    rw [e1, rightEnds_succ]
    simp [-List.getD_eq_getElem?_getD, rightEnds, h0]
  | succ k ih =>
    intro hk
    have ihk := ih (by omega)
    rw [rightEnds_succ ct (k+1), ← ihk]
    -- split the left ends by "partner ≤ k" or "partner = k+1"
    have hsplit : leftsUpTo n ct (k+1) =
        leftsUpTo n ct k + ((List.range (n+1)).filter (fun q => decide (q < ct.getD q 0 ∧ ct.getD q 0 = k+1))).length := by
      simp only [leftsUpTo]
      rw [← filter_length_or]
      · apply filter_length_congr
        intro q _
        by_cases h1 : q < ct.getD q 0 <;> by_cases h2 : ct.getD q 0 ≤ k <;> by_cases h3 : ct.getD q 0 = k+1 <;>
          simp [-List.getD_eq_getElem?_getD, h1, h2, h3] <;> omega
      · intro q _ h
        simp only [decide_eq_true_eq] at h
        omega
    rw [hsplit]
    congr 1
    by_cases hr : ct.getD (k+1) 0 ≠ 0 ∧ ct.getD (k+1) 0 < k+1
    · -- k+1 is a right end: exactly its partner is counted
      rw [if_pos hr]
      have hp := hct.2 (k+1) hr.1
      have : ((List.range (n+1)).filter (fun q => decide (q < ct.getD q 0 ∧ ct.getD q 0 = k+1))).length =
             ((List.range (n+1)).filter (fun q => decide (q = ct.getD (k+1) 0))).length := by
        apply filter_length_congr
        intro q _
        by_cases hq : q = ct.getD (k+1) 0
        · have : q < ct.getD q 0 ∧ ct.getD q 0 = k + 1 := by
            rw [hq, hp.2.2.2.2.1]; exact ⟨hr.2, rfl⟩
          simp [-List.getD_eq_getElem?_getD, hq, this]
          rw [← hq]; exact this
        · have : ¬ (q < ct.getD q 0 ∧ ct.getD q 0 = k + 1) := by
            intro h
            have hq0 : ct.getD q 0 ≠ 0 := by omega
            have := (hct.2 q hq0).2.2.2.2.1
            rw [h.2] at this
            exact hq this.symm
          simp [-List.getD_eq_getElem?_getD, hq, this]
      rw [this, filter_eq_range, if_pos (by omega)]
    · rw [if_neg hr]
      simp only [List.length_eq_zero_iff, List.filter_eq_nil_iff, decide_eq_true_eq]
      intro q _ h
      have hq0 : ct.getD q 0 ≠ 0 := by omega
      have := (hct.2 q hq0).2.2.2.2.1
      rw [h.2] at this
      have hq1 := (hct.2 q hq0).1
      apply hr
      rw [this]; omega

/-- `npairs` (the count `esl_ct2wuss` makes first) equals the number of right ends -/
theorem countPairs_eq_rightEnds (n : Nat) (ct : List Nat) (hct : CtOk n ct) : countPairs ct = rightEnds ct (n+1) := by
  rw [← leftsUpTo_eq_rightEnds n ct hct n (Nat.le_refl _)]
  simp only [countPairs, leftsUpTo, hct.1]
  apply filter_length_congr
  intro q _
  by_cases h0 : ct.getD q 0 = 0
  · simp [-List.getD_eq_getElem?_getD, h0]
  · have := hct.2 q h0
    by_cases h1 : q < ct.getD q 0
    · have h2 : 1 ≤ q := this.1
      have h3 : ct.getD q 0 > 0 := by omega
      have h4 : ct.getD q 0 ≤ n := this.2.2.2.1
      simp [-List.getD_eq_getElem?_getD, h1, h2, h3, h4]
    · simp [-List.getD_eq_getElem?_getD, h1]

end EaselModel.Msa
