import EaselModel.Msa.Model2
import EaselModel.Msa.Spec
/-! Lemmas: `esl_msa_Compare` returns `eslOK` exactly when the two alignments agree in the fields its documentation lists
    (weights and cutoffs up to the tolerance comparison the code uses), never reads outside an array, and ignores the
    alphabet pointer and all unparsed markup. -/
namespace EaselModel.Msa

/-- the array shape `esl_msa_Compare` relies on: every per-sequence array has `nseq` entries, `cutoff`/`cutset` have 6 -/
structure Msa.Shape (m : Msa) : Prop where
  sqname_len : m.sqname.length = m.nseq
  wgt_len : m.wgt.length = m.nseq
  rows_len : m.rows.length = m.nseq
  sqacc_len : m.sqacc.length = m.nseq
  sqdesc_len : m.sqdesc.length = m.nseq
  ss_len : m.ss.length = m.nseq
  sa_len : m.sa.length = m.nseq
  pp_len : m.pp.length = m.nseq
  cutoff_len : m.cutoff.length = 6
  cutset_len : m.cutset.length = 6

theorem Msa.WF.shape {m : Msa} (wf : m.WF) (hc : m.cutoff.length = 6) (hs : m.cutset.length = 6) : m.Shape :=
  ⟨wf.sqname_len, wf.wgt_len, wf.rows_len, wf.sqacc_len, wf.sqdesc_len, wf.ss_len, wf.sa_len, wf.pp_len, hc, hs⟩

/-- SPEC: what the documentation of `esl_msa_Compare` / `CompareMandatory` / `CompareOptional` lists -/
structure SameMandatory (dcmp : UInt64 → UInt64 → Bool) (a b : Msa) : Prop where
  nseq : a.nseq = b.nseq
  alen : a.alen = b.alen
  flags : a.flags = b.flags
  sqname : a.sqname = b.sqname
  rows : a.rows = b.rows
  wgt : ∀ k, k < a.nseq → dcmp (a.wgt.getD k 0) (b.wgt.getD k 0) = true

structure SameOptional (fcmp : UInt32 → UInt32 → Bool) (a b : Msa) : Prop where
  name : a.name = b.name
  desc : a.desc = b.desc
  acc : a.acc = b.acc
  au : a.au = b.au
  ss_cons : a.ss_cons = b.ss_cons
  sa_cons : a.sa_cons = b.sa_cons
  pp_cons : a.pp_cons = b.pp_cons
  rf : a.rf = b.rf
  mm : a.mm = b.mm
  sqacc : a.sqacc = b.sqacc
  sqdesc : a.sqdesc = b.sqdesc
  ss : a.ss = b.ss
  sa : a.sa = b.sa
  pp : a.pp = b.pp
  cutset : a.cutset = b.cutset
  cutoff : ∀ k, k < 6 → a.cutset.getD k false = true → fcmp (a.cutoff.getD k 0) (b.cutoff.getD k 0) = true

theorem cCompare_iff (x y : Option Bytes) : cCompare x y = true ↔ x = y := by
  cases x <;> cases y <;> simp [cCompare]

theorem getElem?_getD' {α : Type} (l : List α) (i : Nat) (d : α) (h : i < l.length) : l[i]? = some (l.getD i d) := by
  simp [List.getD_eq_getElem?_getD, List.getElem?_eq_getElem h]

/-! ### the mandatory loop -/

theorem mandLoop_spec (dcmp : UInt64 → UInt64 → Bool) (a b : Msa) : ∀ (fuel i : Nat),
    i + fuel ≤ a.sqname.length → i + fuel ≤ b.sqname.length → i + fuel ≤ a.wgt.length → i + fuel ≤ b.wgt.length →
    i + fuel ≤ a.rows.length → i + fuel ≤ b.rows.length →
    (mandLoop dcmp a b fuel i = .ok ∨ mandLoop dcmp a b fuel i = .efail) ∧
    (mandLoop dcmp a b fuel i = .ok ↔
      ∀ k, i ≤ k → k < i + fuel → a.sqname.getD k [] = b.sqname.getD k [] ∧
        dcmp (a.wgt.getD k 0) (b.wgt.getD k 0) = true ∧ a.rows.getD k [] = b.rows.getD k []) := by
  intro fuel
  induction fuel with
  | zero =>
    intro i _ _ _ _ _ _
    refine ⟨Or.inl rfl, ?_⟩
    simp only [mandLoop, true_iff]
    intro k h1 h2; omega
  | succ fuel ih =>
    intro i h1 h2 h3 h4 h5 h6
    have ih' := ih (i+1) (by omega) (by omega) (by omega) (by omega) (by omega) (by omega)
    unfold mandLoop
    rw [getElem?_getD' a.sqname i [] (by omega), getElem?_getD' b.sqname i [] (by omega),
        getElem?_getD' a.wgt i 0 (by omega), getElem?_getD' b.wgt i 0 (by omega),
        getElem?_getD' a.rows i [] (by omega), getElem?_getD' b.rows i [] (by omega)]
    simp only []
    by_cases hn : a.sqname.getD i [] = b.sqname.getD i []
    · rw [if_neg (fun hh => hh hn)]
      by_cases hw : dcmp (a.wgt.getD i 0) (b.wgt.getD i 0) = true
      · rw [if_neg (by rw [hw]; decide)]
        by_cases hr : a.rows.getD i [] = b.rows.getD i []
        · rw [if_neg (fun hh => hh hr)]
          refine ⟨ih'.1, ?_⟩
          rw [ih'.2]
          constructor
          · intro h k hk1 hk2
            by_cases hki : k = i
            · subst hki; exact ⟨hn, hw, hr⟩
            · exact h k (by omega) (by omega)
          · intro h k hk1 hk2
            exact h k (by omega) (by omega)
        · rw [if_pos hr]
          refine ⟨Or.inr rfl, ?_⟩
          constructor
          · intro h; cases h
          · intro h; exact absurd (h i (Nat.le_refl _) (by omega)).2.2 hr
      · rw [if_pos (by rw [Bool.eq_false_iff.mpr hw]; rfl)]
        refine ⟨Or.inr rfl, ?_⟩
        constructor
        · intro h; cases h
        · intro h; exact absurd (h i (Nat.le_refl _) (by omega)).2.1 hw
    · rw [if_pos hn]
      refine ⟨Or.inr rfl, ?_⟩
      constructor
      · intro h; cases h
      · intro h; exact absurd (h i (Nat.le_refl _) (by omega)).1 hn

theorem list_eq_of_getD {α : Type} (d : α) (x y : List α) (n : Nat) (hx : x.length = n) (hy : y.length = n)
    (h : ∀ k, k < n → x.getD k d = y.getD k d) : x = y := by
  apply List.ext_getElem (by rw [hx, hy])
  intro k h1 h2
  have := h k (by omega)
  simpa [List.getD_eq_getElem?_getD, List.getElem?_eq_getElem h1, List.getElem?_eq_getElem h2] using this

theorem compareMandatory_spec (dcmp : UInt64 → UInt64 → Bool) (a b : Msa) (ha : a.Shape) (hb : b.Shape) :
    (compareMandatory dcmp a b = .ok ∨ compareMandatory dcmp a b = .efail) ∧
    (compareMandatory dcmp a b = .ok ↔ SameMandatory dcmp a b) := by
  unfold compareMandatory
  by_cases h1 : a.nseq = b.nseq
  · rw [if_neg (fun hh => hh h1)]
    by_cases h2 : a.alen = b.alen
    · rw [if_neg (fun hh => hh h2)]
      by_cases h3 : a.flags = b.flags
      · rw [if_neg (fun hh => hh h3)]
        have hl := mandLoop_spec dcmp a b a.nseq 0 (by rw [ha.sqname_len]; omega) (by rw [hb.sqname_len]; omega)
          (by rw [ha.wgt_len]; omega) (by rw [hb.wgt_len]; omega) (by rw [ha.rows_len]; omega) (by rw [hb.rows_len]; omega)
        refine ⟨hl.1, ?_⟩
        rw [hl.2]
        constructor
        · intro h
          refine ⟨h1, h2, h3, ?_, ?_, ?_⟩
          · exact list_eq_of_getD [] _ _ a.nseq ha.sqname_len (by rw [hb.sqname_len, h1]) (fun k hk => (h k (Nat.zero_le _) (by omega)).1)
          · exact list_eq_of_getD [] _ _ a.nseq ha.rows_len (by rw [hb.rows_len, h1]) (fun k hk => (h k (Nat.zero_le _) (by omega)).2.2)
          · intro k hk; exact (h k (Nat.zero_le _) (by omega)).2.1
        · intro h k _ hk
          exact ⟨by rw [h.sqname], h.wgt k (by omega), by rw [h.rows]⟩
      · rw [if_pos h3]
        exact ⟨Or.inr rfl, ⟨fun h => St.noConfusion h, fun h => absurd h.flags h3⟩⟩
    · rw [if_pos h2]
      exact ⟨Or.inr rfl, ⟨fun h => St.noConfusion h, fun h => absurd h.alen h2⟩⟩
  · rw [if_pos h1]
    exact ⟨Or.inr rfl, ⟨fun h => St.noConfusion h, fun h => absurd h.nseq h1⟩⟩

theorem notc_true {x y : Option Bytes} (h : ¬ x = y) : (!cCompare x y) = true := by
  cases hh : cCompare x y with
  | false => rfl
  | true => exact absurd ((cCompare_iff _ _).1 hh) h

theorem notc_false {x y : Option Bytes} (h : x = y) : ¬ ((!cCompare x y) = true) := by
  rw [(cCompare_iff _ _).2 h]; decide

/-! ### optional per-sequence arrays -/

theorem optLoop_spec (x y : List (Option Bytes)) : ∀ (fuel i : Nat), i + fuel ≤ x.length → i + fuel ≤ y.length →
    (optLoop x y fuel i = .ok ∨ optLoop x y fuel i = .efail) ∧
    (optLoop x y fuel i = .ok ↔ ∀ k, i ≤ k → k < i + fuel → x.getD k none = y.getD k none) := by
  intro fuel
  induction fuel with
  | zero =>
    intro i _ _
    refine ⟨Or.inl rfl, ?_⟩
    simp only [optLoop, true_iff]
    intro k h1 h2; omega
  | succ fuel ih =>
    intro i h1 h2
    have ih' := ih (i+1) (by omega) (by omega)
    unfold optLoop
    rw [getElem?_getD' x i none (by omega), getElem?_getD' y i none (by omega)]
    simp only []
    by_cases hc : x.getD i none = y.getD i none
    · rw [if_neg (notc_false hc)]
      refine ⟨ih'.1, ?_⟩
      rw [ih'.2]
      constructor
      · intro h k hk1 hk2
        by_cases hki : k = i
        · subst hki; exact hc
        · exact h k (by omega) (by omega)
      · intro h k hk1 hk2; exact h k (by omega) (by omega)
    · rw [if_pos (notc_true hc)]
      exact ⟨Or.inr rfl, ⟨fun h => St.noConfusion h, fun h => absurd (h i (Nat.le_refl _) (by omega)) hc⟩⟩

theorem arrAlloc_false_iff (x : List (Option Bytes)) : arrAlloc x = false ↔ x = List.replicate x.length none := by
  unfold arrAlloc
  induction x with
  | nil => simp
  | cons h t ih =>
    cases h with
    | none => simp [List.replicate_succ, ih]
    | some v => simp [List.replicate_succ]

theorem optArrCmp_spec (n : Nat) (x y : List (Option Bytes)) (hx : x.length = n) (hy : y.length = n) :
    (optArrCmp n x y = .ok ∨ optArrCmp n x y = .efail) ∧ (optArrCmp n x y = .ok ↔ x = y) := by
  unfold optArrCmp
  cases hax : arrAlloc x <;> cases hay : arrAlloc y
  · -- neither allocated: both are all-NULL
    rw [if_neg (by decide), if_neg (by decide)]
    refine ⟨Or.inl rfl, ⟨fun _ => ?_, fun _ => rfl⟩⟩
    rw [(arrAlloc_false_iff x).1 hax, (arrAlloc_false_iff y).1 hay, hx, hy]
  · rw [if_neg (by decide), if_pos (by decide)]
    refine ⟨Or.inr rfl, ⟨fun h => St.noConfusion h, fun h => ?_⟩⟩
    subst h; rw [hax] at hay; cases hay
  · rw [if_neg (by decide), if_pos (by decide)]
    refine ⟨Or.inr rfl, ⟨fun h => St.noConfusion h, fun h => ?_⟩⟩
    subst h; rw [hax] at hay; cases hay
  · rw [if_pos (by decide)]
    have hl := optLoop_spec x y n 0 (by omega) (by omega)
    refine ⟨hl.1, ?_⟩
    rw [hl.2]
    constructor
    · intro h
      exact list_eq_of_getD none x y n hx hy (fun k hk => h k (Nat.zero_le _) (by omega))
    · intro h k _ _; rw [h]

/-! ### cutoffs -/

theorem cutLoop_spec (fcmp : UInt32 → UInt32 → Bool) (a b : Msa) : ∀ (fuel i : Nat),
    i + fuel ≤ a.cutset.length → i + fuel ≤ b.cutset.length → i + fuel ≤ a.cutoff.length → i + fuel ≤ b.cutoff.length →
    (cutLoop fcmp a b fuel i = .ok ∨ cutLoop fcmp a b fuel i = .efail) ∧
    (cutLoop fcmp a b fuel i = .ok ↔
      ∀ k, i ≤ k → k < i + fuel → a.cutset.getD k false = b.cutset.getD k false ∧
        (a.cutset.getD k false = true → fcmp (a.cutoff.getD k 0) (b.cutoff.getD k 0) = true)) := by
  intro fuel
  induction fuel with
  | zero =>
    intro i _ _ _ _
    refine ⟨Or.inl rfl, ?_⟩
    simp only [cutLoop, true_iff]
    intro k h1 h2; omega
  | succ fuel ih =>
    intro i h1 h2 h3 h4
    have ih' := ih (i+1) (by omega) (by omega) (by omega) (by omega)
    unfold cutLoop
    rw [getElem?_getD' a.cutset i false (by omega), getElem?_getD' b.cutset i false (by omega),
        getElem?_getD' a.cutoff i 0 (by omega), getElem?_getD' b.cutoff i 0 (by omega)]
    simp only []
    have step : ∀ (P : Nat → Prop), P i → ((∀ k, i + 1 ≤ k → k < i + 1 + fuel → P k) ↔ (∀ k, i ≤ k → k < i + (fuel + 1) → P k)) := by
      intro P hp
      constructor
      · intro h k hk1 hk2
        by_cases hki : k = i
        · subst hki; exact hp
        · exact h k (by omega) (by omega)
      · intro h k hk1 hk2; exact h k (by omega) (by omega)
    cases hs1 : a.cutset.getD i false <;> cases hs2 : b.cutset.getD i false
    · rw [if_neg (by decide), if_neg (by decide)]
      refine ⟨ih'.1, ?_⟩
      rw [ih'.2]
      exact step (fun k => a.cutset.getD k false = b.cutset.getD k false ∧
        (a.cutset.getD k false = true → fcmp (a.cutoff.getD k 0) (b.cutoff.getD k 0) = true))
        ⟨by rw [hs1, hs2], by rw [hs1]; intro h; cases h⟩
    · rw [if_neg (by decide), if_pos (by decide)]
      refine ⟨Or.inr rfl, ⟨fun h => St.noConfusion h, fun h => ?_⟩⟩
      have := (h i (Nat.le_refl _) (by omega)).1
      rw [hs1, hs2] at this; cases this
    · rw [if_neg (by decide), if_pos (by decide)]
      refine ⟨Or.inr rfl, ⟨fun h => St.noConfusion h, fun h => ?_⟩⟩
      have := (h i (Nat.le_refl _) (by omega)).1
      rw [hs1, hs2] at this; cases this
    · rw [if_pos (by decide)]
      cases hf : fcmp (a.cutoff.getD i 0) (b.cutoff.getD i 0)
      · rw [if_pos (by decide)]
        refine ⟨Or.inr rfl, ⟨fun h => St.noConfusion h, fun h => ?_⟩⟩
        have := (h i (Nat.le_refl _) (by omega)).2 hs1
        rw [hf] at this; cases this
      · rw [if_neg (by decide)]
        refine ⟨ih'.1, ?_⟩
        rw [ih'.2]
        exact step (fun k => a.cutset.getD k false = b.cutset.getD k false ∧
          (a.cutset.getD k false = true → fcmp (a.cutoff.getD k 0) (b.cutoff.getD k 0) = true))
          ⟨by rw [hs1, hs2], fun _ => hf⟩

theorem andThen_ok_iff (s k : St) : s.andThen k = .ok ↔ s = .ok ∧ k = .ok := by
  unfold St.andThen
  by_cases h : s = .ok
  · simp [h]
  · simp [h]

theorem andThen_nofault (s k : St) (hs : s = .ok ∨ s = .efail) (hk : k = .ok ∨ k = .efail) :
    s.andThen k = .ok ∨ s.andThen k = .efail := by
  unfold St.andThen
  rcases hs with h | h <;> simp [h, hk]

theorem compareOptional_spec (fcmp : UInt32 → UInt32 → Bool) (a b : Msa) (ha : a.Shape) (hb : b.Shape) (hn : a.nseq = b.nseq) :
    (compareOptional fcmp a b = .ok ∨ compareOptional fcmp a b = .efail) ∧
    (compareOptional fcmp a b = .ok ↔ SameOptional fcmp a b) := by
  have e1 := optArrCmp_spec a.nseq a.sqacc b.sqacc ha.sqacc_len (by rw [hb.sqacc_len, hn])
  have e2 := optArrCmp_spec a.nseq a.sqdesc b.sqdesc ha.sqdesc_len (by rw [hb.sqdesc_len, hn])
  have e3 := optArrCmp_spec a.nseq a.ss b.ss ha.ss_len (by rw [hb.ss_len, hn])
  have e4 := optArrCmp_spec a.nseq a.sa b.sa ha.sa_len (by rw [hb.sa_len, hn])
  have e5 := optArrCmp_spec a.nseq a.pp b.pp ha.pp_len (by rw [hb.pp_len, hn])
  have e6 := cutLoop_spec fcmp a b 6 0 (by rw [ha.cutset_len]; omega) (by rw [hb.cutset_len]; omega)
    (by rw [ha.cutoff_len]; omega) (by rw [hb.cutoff_len]; omega)
  have hcut : (∀ k, 0 ≤ k → k < 0 + 6 → a.cutset.getD k false = b.cutset.getD k false ∧
        (a.cutset.getD k false = true → fcmp (a.cutoff.getD k 0) (b.cutoff.getD k 0) = true)) ↔
      (a.cutset = b.cutset ∧ ∀ k, k < 6 → a.cutset.getD k false = true → fcmp (a.cutoff.getD k 0) (b.cutoff.getD k 0) = true) := by
    constructor
    · intro h
      exact ⟨list_eq_of_getD false _ _ 6 ha.cutset_len hb.cutset_len (fun k hk => (h k (Nat.zero_le _) (by omega)).1),
             fun k hk => (h k (Nat.zero_le _) (by omega)).2⟩
    · intro h k _ hk
      exact ⟨by rw [h.1], h.2 k (by omega)⟩
  unfold compareOptional
  by_cases c1 : a.name = b.name
  case neg =>
    rw [if_pos (notc_true c1)]
    exact ⟨Or.inr rfl, ⟨fun h => St.noConfusion h, fun h => absurd h.name c1⟩⟩
  rw [if_neg (notc_false c1)]
  by_cases c2 : a.desc = b.desc
  case neg =>
    rw [if_pos (notc_true c2)]
    exact ⟨Or.inr rfl, ⟨fun h => St.noConfusion h, fun h => absurd h.desc c2⟩⟩
  rw [if_neg (notc_false c2)]
  by_cases c3 : a.acc = b.acc
  case neg =>
    rw [if_pos (notc_true c3)]
    exact ⟨Or.inr rfl, ⟨fun h => St.noConfusion h, fun h => absurd h.acc c3⟩⟩
  rw [if_neg (notc_false c3)]
  by_cases c4 : a.au = b.au
  case neg =>
    rw [if_pos (notc_true c4)]
    exact ⟨Or.inr rfl, ⟨fun h => St.noConfusion h, fun h => absurd h.au c4⟩⟩
  rw [if_neg (notc_false c4)]
  by_cases c5 : a.ss_cons = b.ss_cons
  case neg =>
    rw [if_pos (notc_true c5)]
    exact ⟨Or.inr rfl, ⟨fun h => St.noConfusion h, fun h => absurd h.ss_cons c5⟩⟩
  rw [if_neg (notc_false c5)]
  by_cases c6 : a.sa_cons = b.sa_cons
  case neg =>
    rw [if_pos (notc_true c6)]
    exact ⟨Or.inr rfl, ⟨fun h => St.noConfusion h, fun h => absurd h.sa_cons c6⟩⟩
  rw [if_neg (notc_false c6)]
  by_cases c7 : a.pp_cons = b.pp_cons
  case neg =>
    rw [if_pos (notc_true c7)]
    exact ⟨Or.inr rfl, ⟨fun h => St.noConfusion h, fun h => absurd h.pp_cons c7⟩⟩
  rw [if_neg (notc_false c7)]
  by_cases c8 : a.rf = b.rf
  case neg =>
    rw [if_pos (notc_true c8)]
    exact ⟨Or.inr rfl, ⟨fun h => St.noConfusion h, fun h => absurd h.rf c8⟩⟩
  rw [if_neg (notc_false c8)]
  by_cases c9 : a.mm = b.mm
  case neg =>
    rw [if_pos (notc_true c9)]
    exact ⟨Or.inr rfl, ⟨fun h => St.noConfusion h, fun h => absurd h.mm c9⟩⟩
  rw [if_neg (notc_false c9)]
  refine ⟨andThen_nofault _ _ e1.1 (andThen_nofault _ _ e2.1 (andThen_nofault _ _ e3.1 (andThen_nofault _ _ e4.1
    (andThen_nofault _ _ e5.1 e6.1)))), ?_⟩
  simp only [andThen_ok_iff, e1.2, e2.2, e3.2, e4.2, e5.2, e6.2, hcut]
  constructor
  · rintro ⟨h1, h2, h3, h4, h5, h6, h7⟩
    exact ⟨c1, c2, c3, c4, c5, c6, c7, c8, c9, h1, h2, h3, h4, h5, h6, h7⟩
  · intro h
    exact ⟨h.sqacc, h.sqdesc, h.ss, h.sa, h.pp, h.cutset, h.cutoff⟩

theorem mandLoop_congr (dcmp : UInt64 → UInt64 → Bool) (a a' b b' : Msa) (h1 : a.sqname = a'.sqname) (h2 : a.wgt = a'.wgt)
    (h3 : a.rows = a'.rows) (h4 : b.sqname = b'.sqname) (h5 : b.wgt = b'.wgt) (h6 : b.rows = b'.rows) :
    ∀ fuel i, mandLoop dcmp a b fuel i = mandLoop dcmp a' b' fuel i := by
  intro fuel
  induction fuel with
  | zero => intro i; rfl
  | succ fuel ih =>
    intro i
    unfold mandLoop
    rw [h1, h2, h3, h4, h5, h6]
    simp only [ih]

theorem cutLoop_congr (fcmp : UInt32 → UInt32 → Bool) (a a' b b' : Msa) (h1 : a.cutset = a'.cutset) (h2 : a.cutoff = a'.cutoff)
    (h3 : b.cutset = b'.cutset) (h4 : b.cutoff = b'.cutoff) :
    ∀ fuel i, cutLoop fcmp a b fuel i = cutLoop fcmp a' b' fuel i := by
  intro fuel
  induction fuel with
  | zero => intro i; rfl
  | succ fuel ih =>
    intro i
    unfold cutLoop
    rw [h1, h2, h3, h4]
    simp only [ih]

/-- `esl_msa_Compare` looks at nothing but the fields listed here -/
theorem compare_congr (dcmp : UInt64 → UInt64 → Bool) (fcmp : UInt32 → UInt32 → Bool) (a a' b b' : Msa)
    (ea : { a with abc := none, comment := [], gf := [], gs := [], gc := [], gr := [] } =
          { a' with abc := none, comment := [], gf := [], gs := [], gc := [], gr := [] })
    (eb : { b with abc := none, comment := [], gf := [], gs := [], gc := [], gr := [] } =
          { b' with abc := none, comment := [], gf := [], gs := [], gc := [], gr := [] }) :
    compare dcmp fcmp a b = compare dcmp fcmp a' b' := by
  injection ea with a1 a2 a3 a4 a5 a6 a7 a8 a9 a10 a11 a12 a13 a14 a15 a16 a17 a18 a19 a20 a21 a22 a23
  injection eb with b1 b2 b3 b4 b5 b6 b7 b8 b9 b10 b11 b12 b13 b14 b15 b16 b17 b18 b19 b20 b21 b22 b23
  unfold compare compareMandatory compareOptional
  rw [mandLoop_congr dcmp a a' b b' a6 a7 a5 b6 b7 b5 a.nseq 0, cutLoop_congr fcmp a a' b b' a23 a22 b23 b22 6 0,
      a1, a2, a3, a8, a9, a10, a11, a12, a13, a14, a15, a16, a17, a18, a19, a20, a21,
      b1, b2, b3, b8, b9, b10, b11, b12, b13, b14, b15, b16, b17, b18, b19, b20, b21]

theorem compare_spec (dcmp : UInt64 → UInt64 → Bool) (fcmp : UInt32 → UInt32 → Bool) (a b : Msa) (ha : a.Shape) (hb : b.Shape) :
    (compare dcmp fcmp a b = .ok ∨ compare dcmp fcmp a b = .efail) ∧
    (compare dcmp fcmp a b = .ok ↔ SameMandatory dcmp a b ∧ SameOptional fcmp a b) := by
  have hm := compareMandatory_spec dcmp a b ha hb
  unfold compare
  rcases hm.1 with h | h
  · have hn := (hm.2.1 h).nseq
    have ho := compareOptional_spec fcmp a b ha hb hn
    rw [h]
    simp only []
    rcases ho.1 with h2 | h2
    · rw [h2]
      exact ⟨Or.inl rfl, ⟨fun _ => ⟨hm.2.1 h, ho.2.1 h2⟩, fun _ => rfl⟩⟩
    · rw [h2]
      refine ⟨Or.inr rfl, ⟨fun hh => St.noConfusion hh, fun hh => ?_⟩⟩
      have := ho.2.2 hh.2
      rw [h2] at this; cases this
  · rw [h]
    refine ⟨Or.inr rfl, ⟨fun hh => St.noConfusion hh, fun hh => ?_⟩⟩
    have := hm.2.2 hh.1
    rw [h] at this; cases this

end EaselModel.Msa
