import EaselModel.Msa.LemmasDyck
import EaselModel.Msa.LemmasBreak
/-! Lemmas: `esl_wuss2ct` reconstructs every NESTED pair table from ANY bracket labelling of it (the reading half of the
    `ct -> WUSS -> ct` round trip for non-pseudoknotted structures). -/
namespace EaselModel.Msa

/-- no two pairs cross -/
def Nested (ct : List Nat) : Prop :=
  ∀ i i', ct.getD i 0 ≠ 0 → ct.getD i' 0 ≠ 0 → i < i' → i' < ct.getD i 0 → ct.getD i' 0 < ct.getD i 0

/-- `ss` spells the pair table `ct` with brackets only: an unpaired position carries an unpaired symbol, the left end
    of a pair an opening bracket and the right end ITS closing bracket (any of the four kinds) -/
def Labels (ct : List Nat) (ss : Bytes) : Prop :=
  ∀ p, 1 ≤ p → p ≤ ss.length →
    (ct.getD p 0 = 0 → isUnpairedSym (ss.getD (p-1) 0) = true) ∧
    (p < ct.getD p 0 → isOpenBr (ss.getD (p-1) 0) = true ∧ ss.getD (ct.getD p 0 - 1) 0 = closerOf (ss.getD (p-1) 0))

theorem closer_facts : ∀ n, n < 256 → isOpenBr (UInt8.ofNat n) = true →
    isCloseBr (closerOf (UInt8.ofNat n)) = true ∧ isOpenBr (closerOf (UInt8.ofNat n)) = false ∧
    isPrint (closerOf (UInt8.ofNat n)) = true := by decide +kernel

theorem closer_is_close (o : UInt8) (h : isOpenBr o = true) :
    isCloseBr (closerOf o) = true ∧ isOpenBr (closerOf o) = false ∧ isPrint (closerOf o) = true := by
  have := closer_facts o.toNat (UInt8.toNat_lt o) (by rw [ofNat_toNat]; exact h)
  rw [ofNat_toNat] at this; exact this

/-- the table filled in so far: the pairs whose two ends are both `< pos` -/
def ctUpTo (ct : List Nat) (pos p : Nat) : Nat :=
  if ct.getD p 0 ≠ 0 ∧ p < pos ∧ ct.getD p 0 < pos then ct.getD p 0 else 0

structure NInv (n : Nat) (ct : List Nat) (pos : Nat) (pda : List (List Nat)) (cur : List Nat) : Prop where
  pdalen : pda.length = 27
  others : ∀ k, 1 ≤ k → pda.getD k [] = []
  sorted : (pda.getD 0 []).Pairwise (· > ·)
  mem : ∀ p, p ∈ pda.getD 0 [] ↔ (1 ≤ p ∧ p < pos ∧ pos ≤ ct.getD p 0)
  curlen : cur.length = n + 1
  cur : ∀ p, cur.getD p 0 = ctUpTo ct pos p

theorem list_ext_getD (a b : List Nat) (hl : a.length = b.length) (h : ∀ p, a.getD p 0 = b.getD p 0) : a = b := by
  apply List.ext_getElem hl
  intro i h1 h2
  have := h i
  simpa [List.getD_eq_getElem?_getD, List.getElem?_eq_getElem h1, List.getElem?_eq_getElem h2] using this

theorem wuss2ct_of_labels_loop (ss : Bytes) (ct : List Nat) (hct : CtOk ss.length ct) (hn : Nested ct) (hl : Labels ct ss) :
    ∀ (rest : Bytes) (pos : Nat) (pda : List (List Nat)) (cur : List Nat),
      ss.drop (pos-1) = rest → 1 ≤ pos → NInv ss.length ct pos pda cur →
      ∃ pda', w2cLoop ss rest pos pda cur = some (pda', ct) ∧ pda'.all (fun s => s.isEmpty) = true := by
  intro rest
  induction rest with
  | nil =>
    intro pos pda cur hd hpos inv
    have hge : ss.length ≤ pos - 1 := by
      rcases Nat.lt_or_ge (pos-1) ss.length with h1 | h1
      · rw [List.drop_eq_getElem_cons h1] at hd; cases hd
      · exact h1
    have hcur : cur = ct := by
      apply list_ext_getD _ _ (by rw [inv.curlen, hct.1])
      intro p
      rw [inv.cur p]
      simp only [ctUpTo]
      by_cases h0 : ct.getD p 0 = 0
      · rw [if_neg (fun h => h.1 h0), h0]
      · have := hct.2 p h0
        rw [if_pos ⟨h0, by omega, by omega⟩]
    subst hcur
    refine ⟨pda, rfl, (all_empty_iff pda inv.pdalen).mpr (fun k hk => ?_)⟩
    rcases Nat.eq_zero_or_pos k with h0 | h0
    · subst h0
      cases hs : pda.getD 0 [] with
      | nil => rfl
      | cons p tl =>
        exfalso
        have := (inv.mem p).mp (by rw [hs]; simp)
        have h0 : cur.getD p 0 ≠ 0 := by omega
        have := (hct.2 p h0).2.2.2.1
        omega
    · exact inv.others k h0
  | cons c rest ih =>
    intro pos pda cur hd hpos inv
    obtain ⟨hc, hlt, hdrop⟩ := drop_cons_getD ss (pos-1) c rest hd
    have hd' : ss.drop (pos + 1 - 1) = rest := by
      have : pos + 1 - 1 = pos - 1 + 1 := by omega
      rw [this]; exact hdrop
    have hle : pos ≤ ss.length := by omega
    have hlab := hl pos hpos hle
    rw [hc] at hlab
    -- no position is paired with itself, and pairing is symmetric
    have hsym : ∀ p, ct.getD p 0 = pos → ct.getD pos 0 = p := by
      intro p hp
      have := (hct.2 p (by rw [hp]; omega)).2.2.2.2.1
      rw [hp] at this; exact this
    by_cases h0 : ct.getD pos 0 = 0
    · -- unpaired position
      have hun := hlab.1 h0
      have F := (cf c).2.2.2.2 hun
      have hstep : w2cLoop ss (c :: rest) pos pda cur = w2cLoop ss rest (pos+1) pda cur := by
        simp [-List.getD_eq_getElem?_getD, w2cLoop, F.1, F.2.1, F.2.2.1, F.2.2.2.1, F.2.2.2.2, hun]
      rw [hstep]
      apply ih (pos+1) pda cur hd' (by omega)
      have hnp : ∀ p, ct.getD p 0 ≠ pos := by
        intro p hp
        have := hsym p hp
        have h1 := (hct.2 p (by rw [hp]; omega)).1
        omega
      exact {
        pdalen := inv.pdalen, others := inv.others, sorted := inv.sorted, curlen := inv.curlen
        mem := by
          intro p
          rw [inv.mem p]
          constructor
          · rintro ⟨h1, h2, h3⟩
            have := hnp p
            exact ⟨h1, by omega, by omega⟩
          · rintro ⟨h1, h2, h3⟩
            have : p ≠ pos := by intro e; rw [e, h0] at h3; omega
            exact ⟨h1, by omega, by omega⟩
        cur := by
          intro p
          rw [inv.cur p]
          simp only [ctUpTo]
          have := hnp p
          by_cases hp : p = pos
          · subst hp; rw [if_neg (fun h => h.1 h0), if_neg (fun h => h.1 h0)]
          · have e1 : (p < pos + 1) ↔ (p < pos) := by omega
            have e2 : (ct.getD p 0 < pos + 1) ↔ (ct.getD p 0 < pos) := by omega
            simp only [e1, e2] }
    · have hpair := hct.2 pos h0
      by_cases hleft : pos < ct.getD pos 0
      · -- left end of a pair: push
        have hop := (hlab.2 hleft).1
        have F := (cf c).1 hop
        have hstep : w2cLoop ss (c :: rest) pos pda cur = w2cLoop ss rest (pos+1) (pushAt pda 0 pos) cur := by
          simp [-List.getD_eq_getElem?_getD, w2cLoop, F.2.2.2, hop]
        rw [hstep]
        apply ih (pos+1) _ cur hd' (by omega)
        have hnp : ∀ p, p < pos → ct.getD p 0 ≠ pos := by
          intro p hplt hp
          have := hsym p hp
          omega
        exact {
          pdalen := by simp [pushAt, inv.pdalen]
          others := by
            intro k hk
            rw [pushAt, getD_set_ne _ _ _ _ _ (by omega : (0:Nat) ≠ k)]
            exact inv.others k hk
          sorted := by
            rw [pushAt, getD_set_self _ _ _ _ (by rw [inv.pdalen]; omega), List.pairwise_cons]
            exact ⟨fun p hp => ((inv.mem p).mp hp).2.1, inv.sorted⟩
          mem := by
            intro p
            rw [pushAt, getD_set_self _ _ _ _ (by rw [inv.pdalen]; omega), List.mem_cons, inv.mem p]
            constructor
            · rintro (rfl | ⟨h1, h2, h3⟩)
              · exact ⟨hpos, by omega, by omega⟩
              · have := hnp p h2
                exact ⟨h1, by omega, by omega⟩
            · rintro ⟨h1, h2, h3⟩
              by_cases hp : p = pos
              · exact Or.inl hp
              · exact Or.inr ⟨h1, by omega, by omega⟩
          curlen := inv.curlen
          cur := by
            intro p
            rw [inv.cur p]
            simp only [ctUpTo]
            by_cases hp : p < pos
            · have := hnp p hp
              have e1 : (p < pos + 1) ↔ (p < pos) := by omega
              have e2 : (ct.getD p 0 < pos + 1) ↔ (ct.getD p 0 < pos) := by omega
              simp only [e1, e2]
            · by_cases hp2 : p = pos
              · subst hp2
                rw [if_neg (fun h => by omega), if_neg (fun h => by omega)]
              · rw [if_neg (fun h => by omega), if_neg (fun h => by omega)] }
      · -- right end of a pair: pop its partner
        have hi : ct.getD pos 0 < pos := by omega
        have hpi := hpair.2.2.2.2.1     -- ct[ct[pos]] = pos
        have hlabi := hl (ct.getD pos 0) hpair.2.2.1 hpair.2.2.2.1
        have hopi := hlabi.2 (by rw [hpi]; exact hi)
        rw [hpi, hc] at hopi
        -- c is the closing bracket of the symbol at i
        have FC := closer_is_close _ hopi.1
        rw [← hopi.2] at FC
        -- the partner is on top of the stack
        have himem : ct.getD pos 0 ∈ pda.getD 0 [] := (inv.mem _).mpr ⟨hpair.2.2.1, hi, by rw [hpi]; exact Nat.le_refl _⟩
        cases hs : pda.getD 0 [] with
        | nil => rw [hs] at himem; simp at himem
        | cons t tl =>
          have hsorted := inv.sorted
          rw [hs, List.pairwise_cons] at hsorted
          have htmem := (inv.mem t).mp (by rw [hs]; simp)
          have htop : t = ct.getD pos 0 := by
            rw [hs, List.mem_cons] at himem
            rcases himem with h | h
            · exact h.symm
            · exfalso
              have hgt := hsorted.1 _ h      -- t > i
              have hctt : ct.getD t 0 ≠ 0 := by omega
              have hne : ct.getD t 0 ≠ pos := by
                intro e
                have := hsym t e
                omega
              have := hn (ct.getD pos 0) t (by omega) hctt hgt (by rw [hpi]; exact htmem.2.1)
              rw [hpi] at this
              omega
          subst htop
          have hstep : w2cLoop ss (c :: rest) pos pda cur =
              w2cLoop ss rest (pos+1) (pda.set 0 tl) ((cur.set pos (ct.getD pos 0)).set (ct.getD pos 0) pos) := by
            have hm : closerOf (ss.getD (ct.getD pos 0 - 1) 0) = c := hopi.2.symm
            simp [-List.getD_eq_getElem?_getD, w2cLoop, FC.2.2, FC.2.1, FC.1, hs, hm]
          rw [hstep]
          apply ih (pos+1) _ _ hd' (by omega)
          have hposlen : pos < cur.length := by rw [inv.curlen]; omega
          have hilen : ct.getD pos 0 < (cur.set pos (ct.getD pos 0)).length := by rw [List.length_set, inv.curlen]; omega
          exact {
            pdalen := by simp [inv.pdalen]
            others := by
              intro k hk
              rw [getD_set_ne _ _ _ _ _ (by omega : (0:Nat) ≠ k)]
              exact inv.others k hk
            sorted := by
              rw [getD_set_self _ _ _ _ (by rw [inv.pdalen]; omega)]; exact hsorted.2
            mem := by
              intro p
              rw [getD_set_self _ _ _ _ (by rw [inv.pdalen]; omega)]
              have hm := inv.mem p
              rw [hs, List.mem_cons] at hm
              constructor
              · intro hp
                have hlt' := hsorted.1 p hp
                have := hm.mp (Or.inr hp)
                have hne : ct.getD p 0 ≠ pos := by
                  intro e
                  have := hsym p e
                  omega
                exact ⟨this.1, by omega, by omega⟩
              · rintro ⟨h1, h2, h3⟩
                have hne : p ≠ pos := by intro e; rw [e] at h3; omega
                rcases hm.mpr ⟨h1, by omega, by omega⟩ with h | h
                · exfalso; rw [h, hpi] at h3; omega
                · exact h
            curlen := by simp [inv.curlen]
            cur := by
              intro p
              simp only [ctUpTo]
              by_cases hp1 : p = ct.getD pos 0
              · rw [hp1, getD_set_self _ _ _ _ hilen, hpi, if_pos ⟨by omega, by omega, by omega⟩]
              · by_cases hp2 : p = pos
                · rw [hp2, getD_set_ne _ _ _ _ _ (by omega), getD_set_self _ _ _ _ hposlen,
                      if_pos ⟨h0, by omega, by omega⟩]
                · rw [getD_set_ne _ _ _ _ _ (fun e => hp1 e.symm), getD_set_ne _ _ _ _ _ (fun e => hp2 e.symm), inv.cur p]
                  simp only [ctUpTo]
                  have hne : ct.getD p 0 ≠ pos := by
                    intro e
                    exact hp1 (hsym p e).symm
                  have e1 : (p < pos + 1) ↔ (p < pos) := by omega
                  have e2 : (ct.getD p 0 < pos + 1) ↔ (ct.getD p 0 < pos) := by omega
                  simp only [e1, e2] }

/-- for a nested pair table, `esl_wuss2ct` of ANY bracket labelling of it returns exactly that table -/
theorem wuss2ct_of_labels' (ss : Bytes) (ct : List Nat) (hct : CtOk ss.length ct) (hn : Nested ct) (hl : Labels ct ss) :
    wuss2ct ss = some ct := by
  have hinit : NInv ss.length ct 1 (List.replicate 27 []) (List.replicate (ss.length + 1) 0) := by
    have hrep : ∀ k, (List.replicate 27 ([] : List Nat)).getD k [] = [] := by
      intro k
      simp only [List.getD_eq_getElem?_getD, List.getElem?_replicate]
      split <;> rfl
    exact {
      pdalen := by simp
      others := fun k _ => hrep k
      sorted := by rw [hrep]; exact List.Pairwise.nil
      mem := by
        intro p; rw [hrep]
        constructor
        · intro h; simp at h
        · rintro ⟨h1, h2, _⟩; omega
      curlen := by simp
      cur := by
        intro p
        simp only [ctUpTo]
        rw [if_neg (fun h => by omega)]
        simp only [List.getD_eq_getElem?_getD, List.getElem?_replicate]
        split <;> rfl }
  obtain ⟨pda', hrun, hall⟩ := wuss2ct_of_labels_loop ss ct hct hn hl ss 1 _ _ (by simp) (Nat.le_refl _) hinit
  unfold wuss2ct
  rw [hrun]
  simp only [hall, if_true]

end EaselModel.Msa
