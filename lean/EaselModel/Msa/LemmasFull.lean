import EaselModel.Msa.LemmasC2W
import EaselModel.Msa.LemmasNoPk
/-! Lemmas: `esl_wuss_full` on a balanced string without pseudoknot letters keeps the pair table. -/
namespace EaselModel.Msa

/-- `esl_wuss_full` (simple "input" WUSS -> full "output" WUSS): for a balanced string without pseudoknot letters it
    succeeds, keeps the length, and the full-format string has the same pair table -/
theorem wussFull_nopk' (ss : Bytes) (hnl : ∀ c ∈ ss, isAlpha c = false) (ct : List Nat) (h : wuss2ct ss = some ct) :
    ∃ full, wussFull ss = .ok full ∧ full.length = ss.length ∧ wuss2ct full = some ct := by
  have hct := wuss2ct_ctOk ss ct h
  have hn := wuss2ct_nopk_nested' ss hnl ct h
  obtain ⟨full, hf⟩ := ct2wuss_nested_ok ss.length ct hct hn
  obtain ⟨hlen, _⟩ := ct2wuss_labels ss.length ct hct hn full hf
  refine ⟨full, ?_, hlen, nested_roundtrip' ss.length ct hct hn full hf⟩
  simp only [wussFull, map_nopseudo_id ss hnl, h, hf, zipWith_overlay_id ss full hnl hlen.symm]

end EaselModel.Msa
