/-! # Model of esl_wuss.c (kind H): WUSS secondary-structure strings and CT pair tables.

Mirrors `esl_wuss2ct` (27 push-down stacks), `esl_ct2wuss` / `esl_ct2simplewuss` (main stack with face counters,
`auxpk`, `auxss`, the `rb[26]` right-bound table), `esl_wuss2kh`, `esl_kh2wuss`, `esl_wuss_full`, `esl_wuss_nopseudo`,
`esl_wuss_reverse`. Core Lean only. Positions are 1-based as in the C code; `ct` has `n+1` cells, `ct[0] = 0`.
Allocation failure (`eslEMEM`) is not modelled. -/
namespace EaselModel.Msa

abbrev Bytes := List UInt8

/-! ## ctype.h in the C locale -/
def isPrint (c : UInt8) : Bool := 0x20 ≤ c && c ≤ 0x7e
def isUpper (c : UInt8) : Bool := 0x41 ≤ c && c ≤ 0x5a
def isLower (c : UInt8) : Bool := 0x61 ≤ c && c ≤ 0x7a
def isAlpha (c : UInt8) : Bool := isUpper c || isLower c
def isDigit (c : UInt8) : Bool := 0x30 ≤ c && c ≤ 0x39
def isAlnum (c : UInt8) : Bool := isAlpha c || isDigit c
def toLower (c : UInt8) : UInt8 := if isUpper c then c + 32 else c
def toUpper (c : UInt8) : UInt8 := if isLower c then c - 32 else c

def chLt : UInt8 := 0x3c   -- '<'
def chGt : UInt8 := 0x3e   -- '>'
def chLp : UInt8 := 0x28   -- '('
def chRp : UInt8 := 0x29   -- ')'
def chLb : UInt8 := 0x5b   -- '['
def chRb : UInt8 := 0x5d   -- ']'
def chLc : UInt8 := 0x7b   -- '{'
def chRc : UInt8 := 0x7d   -- '}'

def isOpenBr (c : UInt8) : Bool := c == chLt || c == chLp || c == chLb || c == chLc
def isCloseBr (c : UInt8) : Bool := c == chGt || c == chRp || c == chRb || c == chRc
/-- the closing bracket that `esl_wuss2ct` demands for an opening one -/
def closerOf (c : UInt8) : UInt8 :=
  if c == chLt then chGt else if c == chLp then chRp else if c == chLb then chRb else if c == chLc then chRc else 0
/-- `strchr(":,_-.~", c) != NULL` for a printable `c` -/
def isUnpairedSym (c : UInt8) : Bool :=
  c == 0x3a || c == 0x2c || c == 0x5f || c == 0x2d || c == 0x2e || c == 0x7e

/-! ## esl_wuss2ct -/

/-- stack index: 0 for the four bracket kinds, 1..26 for the pseudoknot letters -/
def pkIndex (c : UInt8) : Nat := if isUpper c then (c - 0x41).toNat + 1 else if isLower c then (c - 0x61).toNat + 1 else 0

def pushAt (pda : List (List Nat)) (k : Nat) (x : Nat) : List (List Nat) := pda.set k (x :: pda.getD k [])

/-- The main loop `for (pos = 1; pos <= len; pos++)`; `none` = `status = eslESYNTAX; goto FINISH`.
    `pda` are the 27 stacks (top = head; a stack never created and an empty one are the same to the C code:
    `pda[i] == NULL || esl_stack_IPop(...) == eslEOD`). -/
def w2cLoop (ss : Bytes) : (rest : Bytes) → (pos : Nat) → (pda : List (List Nat)) → (ct : List Nat) →
    Option (List (List Nat) × List Nat)
  | [], _, pda, ct => some (pda, ct)
  | c :: rest, pos, pda, ct =>
    if !isPrint c then none
    else if isOpenBr c then w2cLoop ss rest (pos+1) (pushAt pda 0 pos) ct
    else if isCloseBr c then
      match pda.getD 0 [] with
      | [] => none                                    -- no closing bracket
      | pair :: tl =>
        if closerOf (ss.getD (pair-1) 0) != c then none   -- brackets don't match
        else w2cLoop ss rest (pos+1) (pda.set 0 tl) ((ct.set pos pair).set pair pos)
    else if isUpper c then w2cLoop ss rest (pos+1) (pushAt pda (pkIndex c) pos) ct
    else if isLower c then
      match pda.getD (pkIndex c) [] with
      | [] => none
      | pair :: tl => w2cLoop ss rest (pos+1) (pda.set (pkIndex c) tl) ((ct.set pos pair).set pair pos)
    else if isUnpairedSym c then w2cLoop ss rest (pos+1) pda ct
    else none

/-- `esl_wuss2ct(ss, len, ct)` with `len = strlen(ss)`: `some ct` = `eslOK`, `none` = `eslESYNTAX`. -/
def wuss2ct (ss : Bytes) : Option (List Nat) :=
  match w2cLoop ss ss 1 (List.replicate 27 []) (List.replicate (ss.length + 1) 0) with
  | none => none
  | some (pda, ct) => if pda.all (fun s => s.isEmpty) then some ct else none   -- "nothing should be left on stacks"

/-! ## esl_ct2wuss / esl_ct2simplewuss -/

inductive WErr where
  | einval | einconceivable | efail | esyntax
  | einvalLetters (partialSs : List UInt8)   -- eslEINVAL "not enough letters"; the caller's buffer holds this partial string
  | fault          -- out-of-bounds access (the C code has no check there)
  deriving Repr, DecidableEq, Inhabited

structure C2W where
  ss : Array UInt8           -- n cells
  cct : Array Nat            -- n+1 cells (working copy of ct)
  rb : Array Int             -- 26 cells, right bound per pseudoknot letter
  auxpk : List Nat
  auxss : List Nat
  reached : Nat
  deriving Inhabited

def rdNat (a : Array Nat) (i : Int) : Except WErr Nat :=
  if 0 ≤ i ∧ i.toNat < a.size then .ok (a.getD i.toNat 0) else .error .fault
def rdInt (a : Array Int) (i : Int) : Except WErr Int :=
  if 0 ≤ i ∧ i.toNat < a.size then .ok (a.getD i.toNat 0) else .error .fault
def wrSs (a : Array UInt8) (i : Int) (v : UInt8) : Except WErr (Array UInt8) :=
  if 0 ≤ i ∧ i.toNat < a.size then .ok (a.setIfInBounds i.toNat v) else .error .fault
def wrNat (a : Array Nat) (i : Int) (v : Nat) : Except WErr (Array Nat) :=
  if 0 ≤ i ∧ i.toNat < a.size then .ok (a.setIfInBounds i.toNat v) else .error .fault

/-- label the unpaired residues put aside in `auxss` according to the number of faces above them -/
def drainAuxss (nfaces : Nat) : List Nat → Array UInt8 → Except WErr (Array UInt8)
  | [], ss => .ok ss
  | i :: rest, ss => do
    let ch : UInt8 := if nfaces == 0 then 0x5f else if nfaces == 1 then 0x2d else 0x2c
    let ss ← wrSs ss ((i : Int) - 1) ch
    drainAuxss nfaces rest ss

/-- `while (esl_stack_ObjectCount(pda)) { pop i; ... }` for the right end `j` of a pair.
    Returns (found_partner, pda, state). `simple = true` is `esl_ct2simplewuss` (no face counters, no auxss). -/
def popLoop (simple : Bool) (ct : Array Nat) (j : Nat) :
    (pda : List Int) → (nfaces : Nat) → (minface : Int) → C2W → Except WErr (Bool × List Int × C2W)
  | [], _, _, st => .ok (false, [], st)
  | i :: pda, nfaces, minface, st =>
    if !simple && i < 0 then
      popLoop simple ct j pda (nfaces + 1) (if i < minface then i else minface) st
    else do
      let ci ← rdNat st.cct i
      if ci == j then
        if simple then
          let ss ← wrSs st.ss (i - 1) chLt
          let ss ← wrSs ss ((j : Int) - 1) chGt
          return (true, pda, { st with ss := ss, reached := st.reached + 1 })
        else
          let minface := if nfaces > 1 && minface > -4 then minface - 1 else minface
          let (o, c) ← (if minface == -1 then .ok (chLt, chGt) else if minface == -2 then .ok (chLp, chRp)
                        else if minface == -3 then .ok (chLb, chRb) else if minface == -4 then .ok (chLc, chRc)
                        else .error WErr.einconceivable : Except WErr (UInt8 × UInt8))
          let ss ← wrSs st.ss (i - 1) o
          let ss ← wrSs ss ((j : Int) - 1) c
          let ss ← drainAuxss nfaces st.auxss ss
          return (true, minface :: pda, { st with ss := ss, auxss := [], reached := st.reached + 1 })
      else if ci == 0 then
        let oi ← rdNat ct i
        if simple then
          let ss ← (if oi == 0 then wrSs st.ss (i - 1) 0x2e else .ok st.ss)
          popLoop simple ct j pda nfaces minface { st with ss := ss }
        else
          popLoop simple ct j pda nfaces minface (if oi == 0 then { st with auxss := i.toNat :: st.auxss } else st)
      else
        popLoop simple ct j pda nfaces minface { st with auxpk := i.toNat :: st.auxpk }

/-- `for (k = rightbound-1; k > leftbound; k--)`; returns the value of `k` after the loop -/
def scanK (cct : Array Nat) (i : Nat) (leftbound rightbound : Int) : (fuel : Nat) → (k : Int) → Except WErr Int
  | 0, k => .ok k
  | fuel+1, k =>
    if k > leftbound then do
      let ck ← rdNat cct k
      if ck == 0 then scanK cct i leftbound rightbound fuel (k - 1)
      else if (ck : Int) > rightbound then scanK cct i leftbound rightbound fuel (k - 1)
      else if ck == i then .ok k
      else .ok leftbound
    else .ok k

/-- `while (xpk < 26 && i < rb[xpk]) xpk++;` — `rb` has 26 cells; `xpk == 26` is "not enough letters" in the caller -/
def bumpXpk (rb : Array Int) (i : Nat) : (fuel : Nat) → (xpk : Int) → Except WErr Int
  | 0, _ => .error .fault
  | fuel+1, xpk =>
    if xpk < 26 then do
      let r ← rdInt rb xpk
      if (i : Int) < r then bumpXpk rb i fuel (xpk + 1) else .ok xpk
    else .ok xpk

/-- `while (esl_stack_IPop(auxpk, &i) == eslOK) { ... }` -/
def pkLoop (ct : Array Nat) (j : Nat) :
    (auxpk : List Nat) → (leftbound rightbound xpk : Int) → C2W → Except WErr C2W
  | [], _, _, _, st => .ok { st with auxpk := [] }
  | i :: rest, leftbound, rightbound, xpk, st => do
    let k ← scanK st.cct i leftbound rightbound (st.cct.size + 2) (rightbound - 1)
    let ci ← rdNat st.cct i
    let (xpk, leftbound, rightbound) ←
      (if k == leftbound then do
        let xpk ← bumpXpk st.rb i 64 (xpk + 1)
        let cj ← rdNat st.cct j
        let lb : Int := if rightbound < (ci : Int) then rightbound else (cj : Int)
        pure (xpk, lb, (ci : Int))
      else pure (xpk, leftbound, rightbound) : Except WErr (Int × Int × Int))
    if xpk + 97 ≤ 122 then
      let r ← rdInt st.rb xpk
      let rb := if (ci : Int) > r then st.rb.setIfInBounds xpk.toNat (ci : Int) else st.rb
      let ss ← wrSs st.ss ((i : Int) - 1) (UInt8.ofNat (xpk + 65).toNat)
      let ss ← wrSs ss ((ci : Int) - 1) (UInt8.ofNat (xpk + 97).toNat)
      let cct ← wrNat st.cct i 0
      let oi ← rdNat ct i
      let cct ← wrNat cct oi 0
      pkLoop ct j rest leftbound rightbound xpk { st with rb := rb, ss := ss, cct := cct, reached := st.reached + 1 }
    else .error (.einvalLetters st.ss.toList)   -- "Don't have enough letters to describe all different pseudoknots."

/-- `for (j = 1; j <= n; j++)` -/
def c2wMain (simple : Bool) (ct : Array Nat) (n : Nat) : (fuel : Nat) → (j : Nat) → (pda : List Int) → C2W →
    Except WErr C2W
  | 0, _, _, st => .ok st
  | fuel+1, j, pda, st =>
    if j > n then .ok st
    else do
      let cj ← rdNat st.cct j
      if cj == 0 then c2wMain simple ct n fuel (j+1) ((j : Int) :: pda) st
      else if cj > j then c2wMain simple ct n fuel (j+1) ((j : Int) :: pda) st
      else
        let (found, pda, st) ← popLoop simple ct j pda 0 (-1) st
        if !found then .error .einval      -- "Cannot find left partner ... Likely a triplet"
        else
          let st ← (match st.auxpk with
            | [] => pure st
            | _ => do
              let cj ← rdNat st.cct j
              pkLoop ct j st.auxpk (cj : Int) ((cj : Int) + 1) (-1) st : Except WErr C2W)
          c2wMain simple ct n fuel (j+1) pda st

def countPairs (ct : List Nat) : Nat :=
  ((List.range ct.length).filter fun j => 1 ≤ j && ct.getD j 0 > 0 && j < ct.getD j 0).length

/-- `esl_ct2wuss(ct, n, ss)` (`simple = false`) and `esl_ct2simplewuss` (`simple = true`); `ct` has `n+1` cells -/
def ct2wussGen (simple : Bool) (ct : List Nat) : Except WErr Bytes :=
  let n := ct.length - 1
  let cta := ct.toArray
  let st0 : C2W :=
    { ss := Array.replicate n (if simple then 0x2e else 0x3a), cct := cta, rb := Array.replicate 26 (-1),
      auxpk := [], auxss := [], reached := 0 }
  match c2wMain simple cta n (n + 1) 1 [] st0 with
  | .error e => .error e
  | .ok st => if countPairs ct != st.reached then .error .efail else .ok st.ss.toList

def ct2wuss (ct : List Nat) : Except WErr Bytes := ct2wussGen false ct
def ct2simplewuss (ct : List Nat) : Except WErr Bytes := ct2wussGen true ct

/-! ## character-wise conversions -/

def wuss2khChar (c : UInt8) : UInt8 :=
  if isOpenBr c then chGt else if isCloseBr c then chLt
  else if c == 0x5f || c == 0x2d || c == 0x2c || c == 0x3a || c == 0x7e then 0x2e else c
def wuss2kh (ss : Bytes) : Bytes := ss.map wuss2khChar

def kh2wussChar (c : UInt8) : UInt8 :=
  if c == chGt then chLt else if c == chLt then chGt else if c == 0x20 then 0x2e else c
def kh2wuss (kh : Bytes) : Bytes := kh.map kh2wussChar

def nopseudoChar (c : UInt8) : UInt8 := if isAlpha c then 0x2e else c
def wussNopseudo (ss : Bytes) : Bytes := ss.map nopseudoChar

def wussComplChar (c : UInt8) : UInt8 :=
  if isUpper c then toLower c else if isLower c then toUpper c
  else if c == chLt then chGt else if c == chGt then chLt
  else if c == chLp then chRp else if c == chRp then chLp
  else if c == chLb then chRb else if c == chRb then chLb
  else if c == chLc then chRc else if c == chRc then chLc else c
/-- `esl_wuss_reverse`: complement every symbol, then reverse -/
def wussReverse (ss : Bytes) : Bytes := (ss.map wussComplChar).reverse

/-- `esl_wuss_full(oldss, newss)` -/
def wussFull (ss : Bytes) : Except WErr Bytes :=
  let tmp := wussNopseudo ss
  match wuss2ct tmp with
  | none => .error .esyntax
  | some ct =>
    match ct2wuss ct with
    | .error .einval => .error .einconceivable
    | .error (.einvalLetters _) => .error .einconceivable
    | .error e => .error e
    | .ok full => .ok (List.zipWith (fun o t => if isAlpha o then o else t) ss full)

/-- `esl_msa_RemoveBrokenBasepairsFromSS`'s loop: `if (!useme[apos-1]) { if (ct[apos]) ct[ct[apos]] = 0; ct[apos] = 0; }` -/
def breakPairs (useme : List Bool) : (apos : Nat) → (fuel : Nat) → List Nat → List Nat
  | _, 0, ct => ct
  | apos, fuel+1, ct =>
    if !useme.getD (apos-1) false then
      let p := ct.getD apos 0
      let ct := if p != 0 then ct.set p 0 else ct
      breakPairs useme (apos+1) fuel (ct.set apos 0)
    else breakPairs useme (apos+1) fuel ct

/-- `esl_msa_RemoveBrokenBasepairsFromSS(ss, errbuf, len, useme)`; on error the string is left untouched by the caller -/
def removeBrokenFromSS (ss : Bytes) (useme : List Bool) : Except WErr Bytes :=
  match wuss2ct ss with
  | none => .error .esyntax
  | some ct => ct2wuss (breakPairs useme 1 ss.length ct)

end EaselModel.Msa
