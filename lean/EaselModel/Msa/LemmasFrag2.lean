import EaselModel.Msa.LemmasFrag
/-! Lemmas: `esl_msa_MarkFragments` — the two scans find the first and the last residue of a row. -/
namespace EaselModel.Msa

theorem firstIdx_spec (p : UInt8 → Bool) : ∀ (r : Bytes),
    (firstIdx p r = r.length ∧ ∀ c ∈ r, p c = false) ∨
    (firstIdx p r < r.length ∧ p (r.getD (firstIdx p r) 0) = true ∧ ∀ k, k < firstIdx p r → p (r.getD k 0) = false)
  | [] => Or.inl ⟨rfl, fun c hc => by simp at hc⟩
  | c :: rest => by
    by_cases hc : p c = true
    · right
      have : firstIdx p (c :: rest) = 0 := by simp [firstIdx, List.findIdx?_cons, hc]
      rw [this]
      exact ⟨by simp, by simpa using hc, fun k hk => by omega⟩
    · have hcf : p c = false := by simpa using hc
      have hstep : firstIdx p (c :: rest) = firstIdx p rest + 1 := by
        simp only [firstIdx, List.findIdx?_cons, hcf, Bool.false_eq_true, if_false, List.length_cons]
        cases List.findIdx? p rest <;> simp
      rw [hstep]
      rcases firstIdx_spec p rest with ⟨h1, h2⟩ | ⟨h1, h2, h3⟩
      · left
        refine ⟨by simp [h1], fun d hd => ?_⟩
        simp only [List.mem_cons] at hd
        rcases hd with rfl | hd
        · exact hcf
        · exact h2 d hd
      · right
        refine ⟨by simp; omega, by simpa using h2, fun k hk => ?_⟩
        cases k with
        | zero => simpa using hcf
        | succ k => simpa using h3 k (by omega)

theorem getD_reverse (r : Bytes) (k : Nat) (hk : k < r.length) : r.reverse.getD k 0 = r.getD (r.length - 1 - k) 0 := by
  simp [List.getD_eq_getElem?_getD, List.getElem?_reverse hk]

/-- the flag `esl_msa_MarkFragments` computes for one row -/
def fragFlag (isRes : UInt8 → Bool) (alen : Nat) (minspan : Int) (r : Bytes) : Bool :=
  decide (((lastIdx1 isRes (r.take alen) : Nat) : Int) - ((firstIdx isRes (r.take alen) : Nat) + 1 : Int) + 1 < minspan)

/-- a row without any residue: `lpos = alen+1, rpos = 0` (text mode: `alen`, `-1`), span `-alen` -/
theorem fragFlag_empty (isRes : UInt8 → Bool) (minspan : Int) (r : Bytes) (h : ∀ c ∈ r, isRes c = false) :
    fragFlag isRes r.length minspan r = decide (-(r.length : Int) < minspan) := by
  unfold fragFlag
  rw [List.take_length]
  have h1 : firstIdx isRes r = r.length := by
    rcases firstIdx_spec isRes r with ⟨a, _⟩ | ⟨a, b, _⟩
    · exact a
    · exfalso
      have := h (r.getD (firstIdx isRes r) 0) (by
        rw [List.getD_eq_getElem?_getD, List.getElem?_eq_getElem a]; simp)
      rw [this] at b; cases b
  have h2 : firstIdx isRes r.reverse = r.length := by
    rcases firstIdx_spec isRes r.reverse with ⟨a, _⟩ | ⟨a, b, _⟩
    · simpa using a
    · exfalso
      have := h (r.reverse.getD (firstIdx isRes r.reverse) 0) (by
        rw [List.getD_eq_getElem?_getD, List.getElem?_eq_getElem a]
        simp only [Option.getD_some]
        exact List.mem_reverse.mp (List.getElem_mem a))
      rw [this] at b; cases b
  simp only [lastIdx1, h1, h2]
  congr 1
  apply propext
  constructor <;> intro h' <;> omega

/-- a row whose first residue is at index `f` and whose last residue is at index `l` (0-based): span `l - f + 1` -/
theorem fragFlag_span (isRes : UInt8 → Bool) (minspan : Int) (r : Bytes) (f l : Nat) (hf : f < r.length) (hl : l < r.length)
    (hf1 : isRes (r.getD f 0) = true) (hf2 : ∀ k, k < f → isRes (r.getD k 0) = false)
    (hl1 : isRes (r.getD l 0) = true) (hl2 : ∀ k, l < k → k < r.length → isRes (r.getD k 0) = false) :
    fragFlag isRes r.length minspan r = decide ((l : Int) - f + 1 < minspan) := by
  unfold fragFlag
  rw [List.take_length]
  have h1 : firstIdx isRes r = f := by
    rcases firstIdx_spec isRes r with ⟨_, b⟩ | ⟨a, b, c⟩
    · exfalso
      have := b (r.getD f 0) (by rw [List.getD_eq_getElem?_getD, List.getElem?_eq_getElem hf]; simp)
      rw [this] at hf1; cases hf1
    · rcases Nat.lt_trichotomy (firstIdx isRes r) f with h | h | h
      · have := hf2 _ h; rw [this] at b; cases b
      · exact h
      · have := c f h; rw [this] at hf1; cases hf1
  have h2 : firstIdx isRes r.reverse = r.length - 1 - l := by
    rcases firstIdx_spec isRes r.reverse with ⟨_, b⟩ | ⟨a, b, c⟩
    · exfalso
      have := b (r.getD l 0) (by
        rw [List.getD_eq_getElem?_getD, List.getElem?_eq_getElem hl]
        simp only [Option.getD_some]
        exact List.mem_reverse.mpr (List.getElem_mem hl))
      rw [this] at hl1; cases hl1
    · have a' : firstIdx isRes r.reverse < r.length := by simpa using a
      rw [getD_reverse r _ a'] at b
      rcases Nat.lt_trichotomy (firstIdx isRes r.reverse) (r.length - 1 - l) with h | h | h
      · exfalso
        have := hl2 (r.length - 1 - firstIdx isRes r.reverse) (by omega) (by omega)
        rw [this] at b; cases b
      · exact h
      · exfalso
        have := c (r.length - 1 - l) h
        rw [getD_reverse r _ (by omega)] at this
        have e : r.length - 1 - (r.length - 1 - l) = l := by omega
        rw [e] at this; rw [this] at hl1; cases hl1
  simp only [lastIdx1, h1, h2]
  congr 1
  apply propext
  constructor <;> intro h' <;> omega

/-- what `esl_msa_MarkFragments` calls a residue: `esl_abc_XIsResidue` in digital mode, `isalpha` in text mode -/
def fragIsRes (m : Msa) : UInt8 → Bool :=
  match m.abc with
  | some a => if m.isDigital then a.xIsResidue else isAlpha
  | none => isAlpha

/-- `esl_msa_MarkFragments` is that flag on every row, with the residue test of the mode -/
theorem markFragments_eq (m : Msa) (minspan : Int) :
    markFragments m minspan = m.rows.map (fragFlag (fragIsRes m) m.alen minspan) := by
  unfold markFragments fragFlag fragIsRes
  rfl

end EaselModel.Msa
