import EaselModel.Msa.LemmasPk
import EaselModel.Msa.LemmasC2WSimple
/-! Lemmas: the pop loop of `esl_ct2simplewuss` (`simple = true`: no face markers, `<>` for every pair found on the main
    stack, `.` for unpaired residues) on an ARBITRARY symmetric pair table. -/
namespace EaselModel.Msa

theorem popLoopGS (n : Nat) (ct cct : List Nat) (hlen : ct.length = n + 1) (hclen : cct.length = n + 1) (j i : Nat)
    (below : List Int) (hj : 1 ≤ j ∧ j ≤ n) (hi : 1 ≤ i ∧ i < j) (hij : cct.getD i 0 = j)
    (hcti : ct.getD i 0 ≠ 0) (hctj : ct.getD j 0 ≠ 0) :
    ∀ (above : List Int) (nf : Nat) (mf : Int) (st : C2W) (res : Bool × List Int × C2W),
      (∀ a ∈ above, 0 ≤ a ∧ 1 ≤ a.toNat ∧ a.toNat ≤ n ∧ cct.getD a.toNat 0 ≠ j) →
      st.cct = cct.toArray → st.ss.size = n →
      popLoop true ct.toArray j (above ++ (i : Int) :: below) nf mf st = .ok res →
      res.1 = true ∧ res.2.1 = below ∧
      res.2.2.cct = cct.toArray ∧ res.2.2.auxpk = (pkOfAbove cct above).reverse ++ st.auxpk ∧ res.2.2.auxss = st.auxss ∧
      res.2.2.ss.size = n ∧ res.2.2.rb = st.rb ∧
      (isOpenBr (ssAt res.2.2.ss (i-1)) = true ∧ ssAt res.2.2.ss (j-1) = closerOf (ssAt res.2.2.ss (i-1))) ∧
      (∀ q, q ≠ i - 1 → q ≠ j - 1 → (ct.getD (q+1) 0 ≠ 0 ∨ n ≤ q) → ssAt res.2.2.ss q = ssAt st.ss q) ∧
      (∀ q, q < n → ct.getD (q+1) 0 = 0 → isUnpairedSym (ssAt st.ss q) = true → isUnpairedSym (ssAt res.2.2.ss q) = true) ∧
      res.2.2.reached = st.reached + 1
  | [], nf, mf, st, res, _, hcct, hsz, h => by
    simp only [List.nil_append] at h
    unfold popLoop at h
    have hnot : ¬ ((!true && decide ((i : Int) < 0)) = true) := by simp
    rw [if_neg hnot] at h
    simp only [bind, Except.bind, pure, Except.pure] at h
    rw [hcct, rdNat_toArray cct (i : Int) (by omega) (by simp; omega)] at h
    simp only [Int.toNat_natCast, hij, beq_self_eq_true, if_true] at h
    split at h
    · cases h
    · rename_i ss1 h1
      split at h
      · cases h
      · rename_i ss2 h2
        injection h with h; subst h
        have w1 := wrSs_ok_inv h1
        have w2 := wrSs_ok_inv h2
        have e1 : ((i : Int) - 1).toNat = i - 1 := by omega
        have e2 : ((j : Int) - 1).toNat = j - 1 := by omega
        rw [e1] at w1; rw [e2] at w2
        have hne : i - 1 ≠ j - 1 := by omega
        have r_i : ssAt ss2 (i-1) = chLt := by rw [w2.2.2.2.2 _ hne, w1.2.2.2.1]
        have r_j : ssAt ss2 (j-1) = chGt := w2.2.2.2.1
        refine ⟨rfl, rfl, rfl, by simp [pkOfAbove], rfl, by show ss2.size = n; rw [w2.2.2.1, w1.2.2.1, hsz], rfl, ?_, ?_, ?_, rfl⟩
        · show isOpenBr (ssAt ss2 (i-1)) = true ∧ ssAt ss2 (j-1) = closerOf (ssAt ss2 (i-1))
          rw [r_i, r_j]; decide
        · intro q hq1 hq2 _
          show ssAt ss2 q = ssAt st.ss q
          rw [w2.2.2.2.2 q hq2, w1.2.2.2.2 q hq1]
        · intro q hqn hq0 hqu
          show isUnpairedSym (ssAt ss2 q) = true
          have hq1 : q ≠ i - 1 := by
            intro e; rw [e] at hq0
            have e' : i - 1 + 1 = i := by omega
            rw [e'] at hq0; exact hcti hq0
          have hq2 : q ≠ j - 1 := by
            intro e; rw [e] at hq0
            have e' : j - 1 + 1 = j := by omega
            rw [e'] at hq0; exact hctj hq0
          rw [w2.2.2.2.2 q hq2, w1.2.2.2.2 q hq1]; exact hqu
  | a :: above, nf, mf, st, res, habove, hcct, hsz, h => by
    obtain ⟨hnn, h1, h2, h3⟩ := habove a (by simp)
    have habove' : ∀ a' ∈ above, 0 ≤ a' ∧ 1 ≤ a'.toNat ∧ a'.toNat ≤ n ∧ cct.getD a'.toNat 0 ≠ j :=
      fun a' h' => habove a' (by simp [h'])
    simp only [List.cons_append] at h
    unfold popLoop at h
    have hc : ¬ ((!true && decide (a < 0)) = true) := by simp
    rw [if_neg hc] at h
    simp only [bind, Except.bind, pure, Except.pure] at h
    rw [hcct, rdNat_toArray cct a hnn (by omega)] at h
    have hne : (cct.getD a.toNat 0 == j) = false := by rw [beq_eq_false_iff_ne]; exact h3
    simp only [hne, Bool.false_eq_true, if_false] at h
    by_cases hz : cct.getD a.toNat 0 = 0
    · have hpk : pkOfAbove cct (a :: above) = pkOfAbove cct above := by
        simp only [pkOfAbove]; rw [if_neg (fun hh => hh.2 hz)]
      rw [hpk]
      simp only [hz, beq_self_eq_true, if_true] at h
      rw [rdNat_toArray ct a hnn (by omega)] at h
      simp only at h
      by_cases ho : ct.getD a.toNat 0 = 0
      · simp only [ho, beq_self_eq_true, if_true] at h
        split at h
        · cases h
        · rename_i ss1 h1'
          have w := wrSs_ok_inv h1'
          have ea : (a - 1).toNat = a.toNat - 1 := by omega
          rw [ea] at w
          have ih := popLoopGS n ct cct hlen hclen j i below hj hi hij hcti hctj above nf mf
            { ss := ss1, cct := cct.toArray, rb := st.rb, auxpk := st.auxpk, auxss := st.auxss, reached := st.reached }
            res habove' rfl (by show ss1.size = n; rw [w.2.2.1, hsz]) h
          obtain ⟨g1, g2, g3, g4, g5, g6, g7, g8, g9, g10, g11⟩ := ih
          refine ⟨g1, g2, g3, g4, g5, g6, g7, g8, ?_, ?_, g11⟩
          · intro q hq1 hq2 hq3
            rw [g9 q hq1 hq2 hq3]
            show ssAt ss1 q = ssAt st.ss q
            apply w.2.2.2.2
            intro e
            rcases hq3 with hq3 | hq3
            · apply hq3; rw [e]
              have : a.toNat - 1 + 1 = a.toNat := by omega
              rw [this]; exact ho
            · omega
          · intro q hqn hq0 hqu
            apply g10 q hqn hq0
            show isUnpairedSym (ssAt ss1 q) = true
            by_cases e : q = a.toNat - 1
            · rw [e, w.2.2.2.1]; decide
            · rw [w.2.2.2.2 q e]; exact hqu
      · have hb : (ct.getD a.toNat 0 == 0) = false := by rw [beq_eq_false_iff_ne]; exact ho
        simp only [hb, Bool.false_eq_true, if_false] at h
        exact popLoopGS n ct cct hlen hclen j i below hj hi hij hcti hctj above nf mf
          { ss := st.ss, cct := cct.toArray, rb := st.rb, auxpk := st.auxpk, auxss := st.auxss, reached := st.reached }
          res habove' rfl hsz h
    · have hpk : pkOfAbove cct (a :: above) = a.toNat :: pkOfAbove cct above := by
        simp only [pkOfAbove]; rw [if_pos ⟨hnn, hz⟩]
      rw [hpk]
      have hb : (cct.getD a.toNat 0 == 0) = false := by rw [beq_eq_false_iff_ne]; exact hz
      simp only [hb, Bool.false_eq_true, if_false] at h
      have := popLoopGS n ct cct hlen hclen j i below hj hi hij hcti hctj above nf mf
        { ss := st.ss, cct := cct.toArray, rb := st.rb, auxpk := a.toNat :: st.auxpk, auxss := st.auxss, reached := st.reached }
        res habove' rfl hsz h
      simp only [List.reverse_cons, List.append_assoc, List.singleton_append]
      exact this

theorem popLoopGS_noerr (n : Nat) (ct cct : List Nat) (hlen : ct.length = n + 1) (hclen : cct.length = n + 1) (j i : Nat)
    (below : List Int) (hj : 1 ≤ j ∧ j ≤ n) (hi : 1 ≤ i ∧ i < j) (hij : cct.getD i 0 = j) :
    ∀ (above : List Int) (nf : Nat) (mf : Int) (st : C2W) (e : WErr),
      (∀ a ∈ above, 0 ≤ a ∧ 1 ≤ a.toNat ∧ a.toNat ≤ n ∧ cct.getD a.toNat 0 ≠ j) →
      st.cct = cct.toArray → st.ss.size = n →
      popLoop true ct.toArray j (above ++ (i : Int) :: below) nf mf st ≠ .error e
  | [], nf, mf, st, e, _, hcct, hsz, h => by
    simp only [List.nil_append] at h
    unfold popLoop at h
    have hnot : ¬ ((!true && decide ((i : Int) < 0)) = true) := by simp
    rw [if_neg hnot] at h
    simp only [bind, Except.bind, pure, Except.pure] at h
    rw [hcct, rdNat_toArray cct (i : Int) (by omega) (by simp; omega)] at h
    simp only [Int.toNat_natCast, hij, beq_self_eq_true, if_true] at h
    obtain ⟨ss1, h1⟩ := wrSs_ok_of_range st.ss ((i : Int) - 1) chLt (by omega) (by omega)
    rw [h1] at h
    simp only at h
    have hs1 := (wrSs_ok_inv h1).2.2.1
    obtain ⟨ss2, h2⟩ := wrSs_ok_of_range ss1 ((j : Int) - 1) chGt (by omega) (by omega)
    rw [h2] at h
    cases h
  | a :: above, nf, mf, st, e, habove, hcct, hsz, h => by
    obtain ⟨hnn, h1, h2, h3⟩ := habove a (by simp)
    have habove' : ∀ a' ∈ above, 0 ≤ a' ∧ 1 ≤ a'.toNat ∧ a'.toNat ≤ n ∧ cct.getD a'.toNat 0 ≠ j :=
      fun a' h' => habove a' (by simp [h'])
    simp only [List.cons_append] at h
    unfold popLoop at h
    have hc : ¬ ((!true && decide (a < 0)) = true) := by simp
    rw [if_neg hc] at h
    simp only [bind, Except.bind, pure, Except.pure] at h
    rw [hcct, rdNat_toArray cct a hnn (by omega)] at h
    have hne : (cct.getD a.toNat 0 == j) = false := by rw [beq_eq_false_iff_ne]; exact h3
    simp only [hne, Bool.false_eq_true, if_false] at h
    by_cases hz : cct.getD a.toNat 0 = 0
    · simp only [hz, beq_self_eq_true, if_true] at h
      rw [rdNat_toArray ct a hnn (by omega)] at h
      simp only at h
      by_cases ho : ct.getD a.toNat 0 = 0
      · simp only [ho, beq_self_eq_true, if_true] at h
        obtain ⟨ss1, h1'⟩ := wrSs_ok_of_range st.ss (a - 1) (0x2e : UInt8) (by omega) (by omega)
        rw [h1'] at h
        simp only at h
        exact popLoopGS_noerr n ct cct hlen hclen j i below hj hi hij above nf mf
          { ss := ss1, cct := cct.toArray, rb := st.rb, auxpk := st.auxpk, auxss := st.auxss, reached := st.reached }
          e habove' rfl (by show ss1.size = n; rw [(wrSs_ok_inv h1').2.2.1, hsz]) h
      · have hb : (ct.getD a.toNat 0 == 0) = false := by rw [beq_eq_false_iff_ne]; exact ho
        simp only [hb, Bool.false_eq_true, if_false] at h
        exact popLoopGS_noerr n ct cct hlen hclen j i below hj hi hij above nf mf
          { ss := st.ss, cct := cct.toArray, rb := st.rb, auxpk := st.auxpk, auxss := st.auxss, reached := st.reached }
          e habove' rfl hsz h
    · have hb : (cct.getD a.toNat 0 == 0) = false := by rw [beq_eq_false_iff_ne]; exact hz
      simp only [hb, Bool.false_eq_true, if_false] at h
      exact popLoopGS_noerr n ct cct hlen hclen j i below hj hi hij above nf mf
        { ss := st.ss, cct := cct.toArray, rb := st.rb, auxpk := a.toNat :: st.auxpk, auxss := st.auxss, reached := st.reached }
        e habove' rfl hsz h

end EaselModel.Msa
