import EaselModel.Msa.Model
/-! # Specification side for C15: well-formedness, column selection as a pure function, dealignment. -/
namespace EaselModel.Msa

/-- terminator of the aligned rows: NUL in text mode, `eslDSQ_SENTINEL` in digital mode -/
def Msa.rowTerm (m : Msa) : UInt8 := if m.isDigital then dsqSentinel else 0

/-- an aligned string field: exactly `alen` cells, none of them the terminator -/
def strOk (alen : Nat) (term : UInt8) (s : Bytes) : Prop := s.length = alen ∧ ∀ c ∈ s, c ≠ term

def optOk (alen : Nat) (s : Option Bytes) : Prop := ∀ b, s = some b → strOk alen 0 b

/-- Well-formed alignment (what `esl_msa_Validate` checks, plus the widths of the unparsed GC/GR/GS tables and the
    per-sequence arrays, which `Validate` does not look at). -/
structure Msa.WF (m : Msa) : Prop where
  nseq_pos : 1 ≤ m.nseq
  flags_lt : m.flags < 4
  rows_len : m.rows.length = m.nseq
  rows_ok : ∀ r ∈ m.rows, strOk m.alen m.rowTerm r
  sqname_len : m.sqname.length = m.nseq
  wgt_len : m.wgt.length = m.nseq
  sqacc_len : m.sqacc.length = m.nseq
  sqdesc_len : m.sqdesc.length = m.nseq
  ss_len : m.ss.length = m.nseq
  sa_len : m.sa.length = m.nseq
  pp_len : m.pp.length = m.nseq
  ss_ok : ∀ s ∈ m.ss, optOk m.alen s
  sa_ok : ∀ s ∈ m.sa, optOk m.alen s
  pp_ok : ∀ s ∈ m.pp, optOk m.alen s
  ss_cons_ok : optOk m.alen m.ss_cons
  sa_cons_ok : optOk m.alen m.sa_cons
  pp_cons_ok : optOk m.alen m.pp_cons
  rf_ok : optOk m.alen m.rf
  mm_ok : optOk m.alen m.mm
  gc_ok : ∀ t ∈ m.gc, strOk m.alen 0 t.2
  gr_len : ∀ t ∈ m.gr, t.2.length = m.nseq
  gr_ok : ∀ t ∈ m.gr, ∀ s ∈ t.2, optOk m.alen s
  gs_len : ∀ t ∈ m.gs, t.2.length = m.nseq

/-- the digital rows hold valid codes of the alphabet -/
def Msa.codesOk (m : Msa) (a : Abc) : Prop := ∀ r ∈ m.rows, ∀ x ∈ r, x.toNat < a.Kp

/-- SPEC of `esl_msa_ColumnSubset`'s compaction: the same column selection applied to the rows and to EVERY
    per-column and per-residue annotation; everything else untouched -/
def Msa.colFilter (m : Msa) (mask : List Bool) : Msa :=
  let f : Bytes → Bytes := maskFilter mask
  { m with alen := (mask.filter id).length,
           rows := m.rows.map f,
           ss := m.ss.map (Option.map f), sa := m.sa.map (Option.map f), pp := m.pp.map (Option.map f),
           gr := m.gr.map (fun t => (t.1, t.2.map (Option.map f))),
           ss_cons := m.ss_cons.map f, sa_cons := m.sa_cons.map f, pp_cons := m.pp_cons.map f,
           rf := m.rf.map f, mm := m.mm.map f,
           gc := m.gc.map (fun t => (t.1, f t.2)) }

/-- the ungapped sequence spelled by an aligned row -/
def dealign (isGap : UInt8 → Bool) (row : Bytes) : Bytes := row.filter (fun c => !isGap c)

/-- the column mask removes only cells that are gaps in this row -/
def removesOnlyGaps (isGap : UInt8 → Bool) : List Bool → Bytes → Prop
  | b :: bs, c :: cs => (b = false → isGap c = true) ∧ removesOnlyGaps isGap bs cs
  | _, _ => True

/-- tables of an alphabet are mutually consistent: `inmap[sym[x]] = x` for every code -/
def Abc.symInmapOk (a : Abc) : Prop := ∀ x, x < a.Kp → (a.inmap.getD (a.sym.getD x 0).toNat 254).toNat = x ∧ (a.sym.getD x 0).toNat < 128

def Abc.complInvolutive (a : Abc) (compl : List UInt8) : Prop :=
  ∀ x, x < a.Kp → (compl.getD x 0).toNat < a.Kp ∧ compl.getD (compl.getD x 0).toNat 0 = UInt8.ofNat x

end EaselModel.Msa
