import EaselModel.Msa.Model2
/-!
Round 6 additions to the C15 model (core Lean only, executable; the driver imports this file).

* `esl_msa_ReasonableRF(msa, symfrac, TRUE, rfline)` as repaired by 0c757a4: every branch — no alphabet (`eslEINVAL`),
  digital branch, TEXT branch with a caller-supplied alphabet (`esl_abc_FCount` on `inmap[c]`, `counts[]` reset per column,
  `rfline[apos]`).
* exact rational arithmetic for the thresholds of `esl_msa_ReasonableRF` / `esl_msa_MarkFragments`.
-/
namespace EaselModel.Msa

/-! ## esl_abc_FCount, every branch -/

/-- `esl_abc_FCount(abc, ct, x, wt)` on a vector `ct[0..K-1]` (what `esl_msa_ReasonableRF` allocates), for EVERY code `x`:
    canonical: `ct[x] += wt`; gap: `ct[K] += wt` — one cell past the vector: `none`; missing / nonresidue: nothing;
    anything else: `abc->degen[x][y]` for `y < K`, which is a read outside `degen[0..Kp-1]` when `x >= Kp`: `none`. -/
def fCountX {C : Type} (add : C → C → C) (divNat : C → Nat → C) (a : Abc) (ct : List C) (x : UInt8) (wt : C) : Option (List C) :=
  if x.toNat < a.K then some (ct.modify x.toNat (fun c => add c wt))
  else if x.toNat == a.K then none
  else if x.toNat == a.Kp - 1 || x.toNat == a.Kp - 2 then some ct
  else if x.toNat < a.Kp then
    some ((List.range a.K).foldl (fun ct y =>
      if (a.degen.getD x.toNat []).getD y false then ct.modify y (fun c => add c (divNat wt (a.ndegen.getD x.toNat 0)))
      else ct) ct)
  else none

/-! ## esl_msa_ReasonableRF (useconsseq = TRUE), the repaired function -/

inductive RfOut where
  /-- `eslOK`, the line written to `rfline[0..alen-1]` -/
  | ok (rf : Bytes)
  /-- `ESL_EXCEPTION(eslEINVAL, "consensus residues need an alphabet …")` -/
  | einval
  /-- an access outside `counts[0..K-1]` or `abc->degen[0..Kp-1]` -/
  | fault
  deriving Repr, DecidableEq, Inhabited

/-- one column of the TEXT branch: `isalpha(c)`: `r += w; totwgt += w; esl_abc_FCount(abc, counts, abc->inmap[(int) c], w)`;
    anything else: `totwgt += w`. `none` = `esl_abc_FCount` left its arrays. -/
def rfTextColumn {W C : Type} (A : WArith W) (B : CArith W C) (a : Abc) (cells : List (UInt8 × W)) : Option UInt8 :=
  let acc := cells.foldl (fun (acc : Option (W × W × List C)) cw =>
    match acc with
    | none => none
    | some acc =>
      if isAlpha cw.1 then
        match fCountX B.add B.divNat a acc.2.2 (a.digit cw.1) (B.ofW cw.2) with
        | some ct => some (A.add acc.1 cw.2, A.add acc.2.1 cw.2, ct)
        | none => none
      else some (acc.1, A.add acc.2.1 cw.2, acc.2.2)) (some (A.zero, A.zero, List.replicate a.K B.zero))
  match acc with
  | none => none
  | some acc => some (if A.isCons acc.1 acc.2.1 then a.sym.getD (fArgMax B.gt B.zero acc.2.2) 0 else 0x2e)

/-- one column of the DIGITAL branch (as in `reasonableRFCons`) -/
def rfDigitalColumn {W C : Type} (A : WArith W) (B : CArith W C) (a : Abc) (cells : List (UInt8 × W)) : UInt8 :=
  let acc := cells.foldl (fun (acc : W × W × List C) cw =>
    if a.xIsResidue cw.1 then
      (A.add acc.1 cw.2, A.add acc.2.1 cw.2, fCount B.add B.divNat a acc.2.2 cw.1 (B.ofW cw.2))
    else if a.xIsGap cw.1 then (acc.1, A.add acc.2.1 cw.2, acc.2.2)
    else acc) (A.zero, A.zero, List.replicate a.K B.zero)
  if A.isCons acc.1 acc.2.1 then a.sym.getD (fArgMax B.gt B.zero acc.2.2) 0 else 0x2e

/-- the cells of column `apos`: residue of each of the first `nseq` rows, with the weight of the sequence -/
def rfCells {W : Type} (m : Msa) (wgt : List W) (apos : Nat) : List (UInt8 × W) :=
  ((m.rows.take m.nseq).map (fun r => r.getD apos 0)).zip wgt

/-- all columns of the text branch; the first failing column fails the call -/
def rfTextLine {W C : Type} (A : WArith W) (B : CArith W C) (a : Abc) (m : Msa) (wgt : List W) : Option Bytes :=
  (List.range m.alen).mapM fun apos => rfTextColumn A B a (rfCells m wgt apos)

/-- `esl_msa_ReasonableRF(msa, symfrac, TRUE, rfline)` after 0c757a4, with `msa->abc = abc` whatever the mode
    (a text-mode alignment built by the library has `abc = none`; a caller may have set one). -/
def reasonableRFConsX {W C : Type} (A : WArith W) (B : CArith W C) (m : Msa) (abc : Option Abc) (wgt : List W) : RfOut :=
  match abc with
  | none => .einval
  | some a =>
    if m.isDigital then .ok ((List.range m.alen).map fun apos => rfDigitalColumn A B a (rfCells m wgt apos))
    else match rfTextLine A B a m wgt with
      | some rf => .ok rf
      | none => .fault

/-! ## exact arithmetic: the thresholds over ℚ -/

/-- `double` replaced by ℚ: `r > 0. && r / totwgt >= symfrac` -/
def ratArith (symfrac : Rat) : WArith Rat :=
  { zero := 0, add := (· + ·), isCons := fun r tot => decide (0 < r) && decide (symfrac ≤ r / tot) }

/-- `float` counts replaced by ℚ -/
def ratCArith : CArith Rat Rat :=
  { zero := 0, ofW := id, add := (· + ·), divNat := fun c n => c / (n : Rat), gt := fun a b => decide (b < a) }

/-- weight of the cells selected by `p` -/
def wsum (p : UInt8 → Bool) : List (UInt8 × Rat) → Rat
  | [] => 0
  | cw :: cs => (if p cw.1 then cw.2 else 0) + wsum p cs

/-! ## esl_msa_Set{Name,Desc,Accession,Author,SeqName,SeqAccession,SeqDescription} and the esl_msa_Format* family -/

inductive StrField where
  | name | desc | acc | au | sqname | sqacc | sqdesc
  deriving Repr, DecidableEq, Inhabited

/-- `n >= 0 ? esl_memstrdup(s, n, &dst) : esl_strdup(s, -1, &dst)`: `NULL` stays `NULL`; the first `n` bytes, or the whole
    string (the protocol's strings are NUL free; `n <= strlen(s)` is the caller's contract for a NUL-terminated `s`) -/
def dupMem (s : Option Bytes) (n : Int) : Option Bytes :=
  s.map fun b => if 0 ≤ n then b.take n.toNat else b

/-- `esl_msa_Set…(msa, [idx,] s, n)`. `sqalloc = nseq` for every alignment the library hands out (Create, SequenceSubset,
    Copy/Clone of those). Per-sequence setters: `idx >= sqalloc` is `eslEINCONCEIVABLE` (exception), a NULL name too;
    a negative `idx` indexes before the arrays: `.fault`. An optional per-sequence array whose last entry was erased is
    freed: not observable (all entries `none`). -/
def setStr (m : Msa) (f : StrField) (idx : Int) (s : Option Bytes) (n : Int) : Res :=
  match f with
  | .name => { msa := { m with name := dupMem s n }, st := .ok }
  | .desc => { msa := { m with desc := dupMem s n }, st := .ok }
  | .acc => { msa := { m with acc := dupMem s n }, st := .ok }
  | .au => { msa := { m with au := dupMem s n }, st := .ok }
  | .sqname =>
    if idx ≥ m.nseq then { msa := m, st := .einconceivable, exc := true }
    else match s with
      | none => { msa := m, st := .einconceivable, exc := true }
      | some b =>
        if idx < 0 then { msa := m, st := .fault }
        else { msa := { m with sqname := m.sqname.set idx.toNat (if 0 ≤ n then b.take n.toNat else b) }, st := .ok }
  | .sqacc =>
    if idx ≥ m.nseq then { msa := m, st := .einconceivable, exc := true }
    else if idx < 0 then { msa := m, st := .fault }
    else { msa := { m with sqacc := m.sqacc.set idx.toNat (dupMem s n) }, st := .ok }
  | .sqdesc =>
    if idx ≥ m.nseq then { msa := m, st := .einconceivable, exc := true }
    else if idx < 0 then { msa := m, st := .fault }
    else { msa := { m with sqdesc := m.sqdesc.set idx.toNat (dupMem s n) }, st := .ok }

/-- `esl_msa_Format…(msa, [idx,] fmt, …)` where `out` is what `esl_vsprintf` produces for the format and its arguments
    (`none` = a NULL format): the alignment-level fields and the optional per-sequence fields are erased by NULL, a NULL
    sequence name and `idx >= sqalloc` are `eslEINVAL` (exception) — NOT the `eslEINCONCEIVABLE` of the `Set` family. -/
def formatStr (m : Msa) (f : StrField) (idx : Int) (out : Option Bytes) : Res :=
  match f with
  | .name => { msa := { m with name := out }, st := .ok }
  | .desc => { msa := { m with desc := out }, st := .ok }
  | .acc => { msa := { m with acc := out }, st := .ok }
  | .au => { msa := { m with au := out }, st := .ok }
  | .sqname =>
    if idx ≥ m.nseq then { msa := m, st := .einval, exc := true }
    else match out with
      | none => { msa := m, st := .einval, exc := true }
      | some b =>
        if idx < 0 then { msa := m, st := .fault }
        else { msa := { m with sqname := m.sqname.set idx.toNat b }, st := .ok }
  | .sqacc =>
    if idx ≥ m.nseq then { msa := m, st := .einval, exc := true }
    else if idx < 0 then { msa := m, st := .fault }
    else { msa := { m with sqacc := m.sqacc.set idx.toNat out }, st := .ok }
  | .sqdesc =>
    if idx ≥ m.nseq then { msa := m, st := .einval, exc := true }
    else if idx < 0 then { msa := m, st := .fault }
    else { msa := { m with sqdesc := m.sqdesc.set idx.toNat out }, st := .ok }

/-- what `esl_vsprintf` makes of the harness's format `"%s|%d"` -/
def fmtSD (v : Bytes) (k : Int) : Bytes := v ++ [0x7c] ++ (toString k).toUTF8.toList

end EaselModel.Msa
