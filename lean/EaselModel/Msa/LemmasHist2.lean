import EaselModel.Msa.LemmasHist
/-! Round 6b: the markup adders (`esl_msa_AddComment`, `esl_msa_AddGF`, `esl_msa_AddGS`, `esl_msa_AppendGR`,
    `esl_msa_AppendGC`) inside the history invariant. -/
namespace EaselModel.Msa

theorem mem_modify {α : Type} (f : α → α) (d : α) : ∀ (l : List α) (i : Nat) (x : α), x ∈ l.modify i f →
    x ∈ l ∨ (i < l.length ∧ x = f (l.getD i d))
  | [], _, x, h => by simp at h
  | a :: l, 0, x, h => by
    simp only [List.modify_zero_cons, List.mem_cons] at h
    rcases h with h | h
    · exact Or.inr ⟨by simp, by simpa using h⟩
    · exact Or.inl (List.mem_cons_of_mem _ h)
  | a :: l, i+1, x, h => by
    simp only [List.modify_succ_cons, List.mem_cons] at h
    rcases h with h | h
    · exact Or.inl (by simp [h])
    · rcases mem_modify f d l i x h with h1 | ⟨h1, h2⟩
      · exact Or.inl (List.mem_cons_of_mem _ h1)
      · exact Or.inr ⟨by simp; omega, by simpa using h2⟩

/-- every slot of the updated table is an old slot, an empty slot of a fresh row, or `f` of the slot addressed -/
theorem tblUpdate_mem (nnew : Nat) (f : Option Bytes → Option Bytes) (tag : Bytes) (nidx : Nat) :
    ∀ (tbl : TagTable), ∀ t ∈ tblUpdate nnew f tag nidx tbl, ∀ s ∈ t.2,
      (∃ t' ∈ tbl, s ∈ t'.2) ∨ s = none ∨ s = f (tblLookup tag nidx tbl)
  | [], t, ht, s, hs => by
    simp only [tblUpdate, List.mem_singleton] at ht
    subst ht
    rcases mem_modify f none _ nidx s hs with h | ⟨_, h⟩
    · exact Or.inr (Or.inl (by simpa using (List.eq_of_mem_replicate h)))
    · right; right
      rw [h]
      congr 1
      simp [tblLookup, List.getD_eq_getElem?_getD, List.getElem?_replicate]
      split <;> rfl
  | (t0, vals) :: rest, t, ht, s, hs => by
    simp only [tblUpdate] at ht
    by_cases e : t0 = tag
    · simp only [e, if_true, List.mem_cons] at ht
      rcases ht with ht | ht
      · subst ht
        rcases mem_modify f none vals nidx s hs with h | ⟨_, h⟩
        · exact Or.inl ⟨(t0, vals), by simp, h⟩
        · right; right; rw [h]; simp [tblLookup, e]
      · exact Or.inl ⟨t, by simp [ht], hs⟩
    · simp only [e, if_false, List.mem_cons] at ht
      rcases ht with ht | ht
      · subst ht; exact Or.inl ⟨(t0, vals), by simp, hs⟩
      · rcases tblUpdate_mem nnew f tag nidx rest t ht s hs with ⟨t', ht', h⟩ | h | h
        · exact Or.inl ⟨t', by simp [ht'], h⟩
        · exact Or.inr (Or.inl h)
        · right; right; rw [h]; simp [tblLookup, e]

/-- one call of a markup adder, under the contract its callers (the Stockholm/Pfam parsers) keep: a per-residue GR value
    completes its slot to exactly `alen` characters, a GC line is new and `alen` long -/
inductive StepM : Msa → Msa → Prop where
  | addComment (m : Msa) (v : Bytes) : StepM m (addComment m v)
  | addGF (m : Msa) (tag v : Bytes) : StepM m (addGF m tag v)
  | addGS (m : Msa) (tag : Bytes) (i : Nat) (v : Bytes) : i < m.nseq → StepM m { m with gs := addGS m.nseq m.gs tag i v }
  | appendGR (m : Msa) (tag : Bytes) (i : Nat) (v : Bytes) : i < m.nseq →
      optOk m.alen (grStore v (tblLookup tag i m.gr)) → StepM m { m with gr := appendGR m.nseq m.gr tag i v }
  | appendGC (m : Msa) (tag v : Bytes) : tag ∉ m.gc.map (·.1) → strOk m.alen 0 v →
      StepM m { m with gc := appendGC m.gc tag v }

theorem appendGC_new' (tbl : List (Bytes × Bytes)) (tag v : Bytes) (h : tag ∉ tbl.map (·.1)) :
    appendGC tbl tag v = tbl ++ [(tag, v)] := by
  unfold appendGC
  have : tbl.findIdx? (fun t => t.1 == tag) = none := by
    rw [List.findIdx?_eq_none_iff]
    intro t ht
    simp only [beq_iff_eq, Bool.not_eq_true, beq_eq_false_iff_ne, ne_eq]
    intro e; exact h (List.mem_map.2 ⟨t, ht, e⟩)
  rw [this]

theorem stepM_inv (m m' : Msa) (h : StepM m m') (inv : Inv m) : Inv m' := by
  have wf := inv.wf
  cases h with
  | addComment v => exact ⟨{ wf with }, inv.dig, inv.txt, inv.gsND, inv.grND⟩
  | addGF tag v => exact ⟨{ wf with }, inv.dig, inv.txt, inv.gsND, inv.grND⟩
  | addGS tag i v hi =>
    refine ⟨{ wf with gs_len := ?_ }, inv.dig, inv.txt, tblUpdate_nodup _ _ _ _ _ inv.gsND, inv.grND⟩
    exact tblUpdate_width m.nseq (gsStore v) tag i m.gs wf.gs_len
  | appendGR tag i v hi hres =>
    refine ⟨{ wf with gr_len := ?_, gr_ok := ?_ }, inv.dig, inv.txt, inv.gsND, tblUpdate_nodup _ _ _ _ _ inv.grND⟩
    · exact tblUpdate_width m.nseq (grStore v) tag i m.gr wf.gr_len
    · intro t ht s hs
      rcases tblUpdate_mem m.nseq (grStore v) tag i m.gr t ht s hs with ⟨t', ht', h⟩ | h | h
      · exact wf.gr_ok t' ht' s h
      · rw [h]; intro b hb; cases hb
      · rw [h]; exact hres
  | appendGC tag v hnew hv =>
    refine ⟨{ wf with gc_ok := ?_ }, inv.dig, inv.txt, inv.gsND, inv.grND⟩
    intro t ht
    simp only [appendGC_new' m.gc tag v hnew, List.mem_append, List.mem_singleton] at ht
    rcases ht with ht | ht
    · exact wf.gc_ok t ht
    · rw [ht]; exact hv

/-- a transformation or a markup adder -/
inductive Step2 : Msa → Msa → Prop where
  | op (m m' : Msa) : Step m m' → Step2 m m'
  | markup (m m' : Msa) : StepM m m' → Step2 m m'

inductive Steps2 : Msa → Msa → Prop where
  | refl (m : Msa) : Steps2 m m
  | tail (a b c : Msa) : Steps2 a b → Step2 b c → Steps2 a c

theorem steps2_inv (m m' : Msa) (h : Steps2 m m') (inv : Inv m) : Inv m' := by
  induction h with
  | refl => exact inv
  | tail b c _ hbc ih =>
    cases hbc with
    | op hs => exact step_inv b c hs ih
    | markup hs => exact stepM_inv b c hs ih

/-- the contract of `StepM.appendGR` in the usual case: the slot is still empty and the value is one full line -/
theorem appendGR_contract_of_empty (alen : Nat) (tag : Bytes) (i : Nat) (v : Bytes) (gr : TagTable)
    (he : tblLookup tag i gr = none) (hv : strOk alen 0 v) : optOk alen (grStore v (tblLookup tag i gr)) := by
  rw [he]
  intro b hb
  unfold grStore at hb
  split at hb
  · cases hb
  · simp only [Option.getD_none, List.nil_append, Option.some.injEq] at hb
    subst hb; exact hv

end EaselModel.Msa
