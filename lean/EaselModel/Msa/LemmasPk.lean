import EaselModel.Msa.LemmasC2W
import EaselModel.Msa.LemmasClass
/-! Lemmas towards the pseudoknotted `ct -> WUSS -> ct` round trip: `esl_ct2wuss` on an ARBITRARY symmetric pair table.
    `cct` is the working copy in which the pairs already given a pseudoknot letter have been zeroed. -/
namespace EaselModel.Msa

/-- the paired entries above the partner, in pop order: they go to `auxpk` -/
def pkOfAbove (cct : List Nat) : List Int → List Nat
  | [] => []
  | a :: rest => if 0 ≤ a ∧ cct.getD a.toNat 0 ≠ 0 then a.toNat :: pkOfAbove cct rest else pkOfAbove cct rest

/-- the pop loop of a right end `j` (partner `i = cct[j]`) on an arbitrary table: markers are counted, positions whose
    working entry is 0 are skipped (and relabelled if truly unpaired), still-paired positions are moved to `auxpk` -/
theorem popLoopG (n : Nat) (ct cct : List Nat) (hlen : ct.length = n + 1) (hclen : cct.length = n + 1) (j i : Nat)
    (below : List Int) (hj : 1 ≤ j ∧ j ≤ n) (hi : 1 ≤ i ∧ i < j) (hij : cct.getD i 0 = j)
    (hcti : ct.getD i 0 ≠ 0) (hctj : ct.getD j 0 ≠ 0) :
    ∀ (above : List Int) (nf : Nat) (mf : Int) (st : C2W) (res : Bool × List Int × C2W),
      (∀ a ∈ above, (a < 0 ∧ -4 ≤ a) ∨ (0 ≤ a ∧ 1 ≤ a.toNat ∧ a.toNat ≤ n ∧ cct.getD a.toNat 0 ≠ j)) →
      -4 ≤ mf → mf ≤ -1 →
      st.cct = cct.toArray → st.ss.size = n →
      (∀ p ∈ st.auxss, 1 ≤ p ∧ p ≤ n ∧ ct.getD p 0 = 0) →
      popLoop false ct.toArray j (above ++ (i : Int) :: below) nf mf st = .ok res →
      res.1 = true ∧ (∃ mf', res.2.1 = mf' :: below ∧ -4 ≤ mf' ∧ mf' ≤ -1) ∧
      res.2.2.cct = cct.toArray ∧ res.2.2.auxpk = (pkOfAbove cct above).reverse ++ st.auxpk ∧ res.2.2.auxss = [] ∧
      res.2.2.ss.size = n ∧ res.2.2.rb = st.rb ∧
      (isOpenBr (ssAt res.2.2.ss (i-1)) = true ∧ ssAt res.2.2.ss (j-1) = closerOf (ssAt res.2.2.ss (i-1))) ∧
      (∀ q, q ≠ i - 1 → q ≠ j - 1 → (ct.getD (q+1) 0 ≠ 0 ∨ n ≤ q) → ssAt res.2.2.ss q = ssAt st.ss q) ∧
      (∀ q, q < n → ct.getD (q+1) 0 = 0 → isUnpairedSym (ssAt st.ss q) = true → isUnpairedSym (ssAt res.2.2.ss q) = true) ∧
      res.2.2.reached = st.reached + 1
  | [], nf, mf, st, res, _, hmf1, hmf2, hcct, hsz, haux, h => by
    simp only [List.nil_append] at h
    unfold popLoop at h
    have hnot : ¬ ((!false && decide ((i : Int) < 0)) = true) := by simp
    rw [if_neg hnot] at h
    simp only [bind, Except.bind, pure, Except.pure] at h
    rw [hcct, rdNat_toArray cct (i : Int) (by omega) (by simp; omega)] at h
    simp only [Int.toNat_natCast, hij, beq_self_eq_true, if_true, Bool.false_eq_true, if_false] at h
    split at h
    · cases h
    · rename_i oc hoc
      obtain ⟨o, c⟩ := oc
      have hoc' := faceChars_open hoc
      simp only at h
      split at h
      · cases h
      · rename_i ss1 h1
        split at h
        · cases h
        · rename_i ss2 h2
          split at h
          · cases h
          · rename_i ss3 h3
            injection h with h; subst h
            have w1 := wrSs_ok_inv h1
            have w2 := wrSs_ok_inv h2
            have e1 : ((i : Int) - 1).toNat = i - 1 := by omega
            have e2 : ((j : Int) - 1).toNat = j - 1 := by omega
            rw [e1] at w1; rw [e2] at w2
            have d := drainAuxss_spec _ st.auxss ss2 ss3 (fun p hp => (haux p hp).1) h3
            have hne : i - 1 ≠ j - 1 := by omega
            have hi_not : (i - 1) + 1 ∉ st.auxss := by
              intro hm
              have := (haux _ hm).2.2
              have e : i - 1 + 1 = i := by omega
              rw [e] at this; exact hcti this
            have hj_not : (j - 1) + 1 ∉ st.auxss := by
              intro hm
              have := (haux _ hm).2.2
              have e : j - 1 + 1 = j := by omega
              rw [e] at this; exact hctj this
            have r_i : ssAt ss3 (i-1) = o := by
              rw [d.2.2 _ hi_not, w2.2.2.2.2 _ hne, w1.2.2.2.1]
            have r_j : ssAt ss3 (j-1) = c := by
              rw [d.2.2 _ hj_not, w2.2.2.2.1]
            have hmfv : -4 ≤ (if (decide (nf > 1) && decide (mf > -4)) = true then mf - 1 else mf) ∧
                (if (decide (nf > 1) && decide (mf > -4)) = true then mf - 1 else mf) ≤ -1 := by
              split
              · rename_i hc
                simp only [Bool.and_eq_true, decide_eq_true_eq] at hc
                omega
              · omega
            have hsz3 : ss3.size = n := by rw [d.1, w2.2.2.1, w1.2.2.1, hsz]
            refine ⟨rfl, ⟨_, rfl, hmfv.1, hmfv.2⟩, rfl, by simp [pkOfAbove], rfl, hsz3, rfl, ?_, ?_, ?_, rfl⟩
            · show isOpenBr (ssAt ss3 (i-1)) = true ∧ ssAt ss3 (j-1) = closerOf (ssAt ss3 (i-1))
              rw [r_i, r_j]; exact hoc'
            · intro q hq1 hq2 hq3
              show ssAt ss3 q = ssAt st.ss q
              have hq_not : q + 1 ∉ st.auxss := by
                intro hm
                have := haux _ hm
                rcases hq3 with h3 | h3
                · exact h3 this.2.2
                · omega
              rw [d.2.2 q hq_not, w2.2.2.2.2 q hq2, w1.2.2.2.2 q hq1]
            · intro q hqn hq0 hqu
              show isUnpairedSym (ssAt ss3 q) = true
              by_cases hm : q + 1 ∈ st.auxss
              · have := d.2.1 _ hm
                simpa using this
              · have hq1 : q ≠ i - 1 := by
                  intro e; rw [e] at hq0
                  have e' : i - 1 + 1 = i := by omega
                  rw [e'] at hq0; exact hcti hq0
                have hq2 : q ≠ j - 1 := by
                  intro e; rw [e] at hq0
                  have e' : j - 1 + 1 = j := by omega
                  rw [e'] at hq0; exact hctj hq0
                rw [d.2.2 q hm, w2.2.2.2.2 q hq2, w1.2.2.2.2 q hq1]; exact hqu
  | a :: above, nf, mf, st, res, habove, hmf1, hmf2, hcct, hsz, haux, h => by
    have ha := habove a (by simp)
    have habove' : ∀ a' ∈ above, (a' < 0 ∧ -4 ≤ a') ∨ (0 ≤ a' ∧ 1 ≤ a'.toNat ∧ a'.toNat ≤ n ∧ cct.getD a'.toNat 0 ≠ j) :=
      fun a' h' => habove a' (by simp [h'])
    simp only [List.cons_append] at h
    unfold popLoop at h
    rcases ha with ⟨hneg, hge⟩ | ⟨hnn, h1, h2, h3⟩
    · -- a face marker
      have hc : ((!false && decide (a < 0)) = true) := by simp [hneg]
      rw [if_pos hc] at h
      have hpk : pkOfAbove cct (a :: above) = pkOfAbove cct above := by
        simp only [pkOfAbove]; rw [if_neg (fun hh => by omega)]
      rw [hpk]
      exact popLoopG n ct cct hlen hclen j i below hj hi hij hcti hctj above (nf+1) (if a < mf then a else mf) st res habove'
        (by split <;> omega) (by split <;> omega) hcct hsz haux h
    · have hc : ¬ ((!false && decide (a < 0)) = true) := by simp; omega
      rw [if_neg hc] at h
      simp only [bind, Except.bind, pure, Except.pure] at h
      rw [hcct, rdNat_toArray cct a hnn (by omega)] at h
      have hne : (cct.getD a.toNat 0 == j) = false := by rw [beq_eq_false_iff_ne]; exact h3
      simp only [hne, Bool.false_eq_true, if_false] at h
      by_cases hz : cct.getD a.toNat 0 = 0
      · -- working entry 0: a truly unpaired residue is put aside, the end of a lettered pair is skipped
        have hpk : pkOfAbove cct (a :: above) = pkOfAbove cct above := by
          simp only [pkOfAbove]; rw [if_neg (fun hh => hh.2 hz)]
        rw [hpk]
        simp only [hz, beq_self_eq_true, if_true] at h
        rw [rdNat_toArray ct a hnn (by omega)] at h
        simp only at h
        by_cases ho : ct.getD a.toNat 0 = 0
        · simp only [ho, beq_self_eq_true, if_true] at h
          exact popLoopG n ct cct hlen hclen j i below hj hi hij hcti hctj above nf mf
            { ss := st.ss, cct := cct.toArray, rb := st.rb, auxpk := st.auxpk, auxss := a.toNat :: st.auxss, reached := st.reached }
            res habove' hmf1 hmf2 rfl hsz
            (by
              intro p hp
              change p ∈ a.toNat :: st.auxss at hp
              simp only [List.mem_cons] at hp
              rcases hp with rfl | hp
              · exact ⟨h1, h2, ho⟩
              · exact haux p hp) h
        · have hb : (ct.getD a.toNat 0 == 0) = false := by rw [beq_eq_false_iff_ne]; exact ho
          simp only [hb, Bool.false_eq_true, if_false] at h
          exact popLoopG n ct cct hlen hclen j i below hj hi hij hcti hctj above nf mf st
            res habove' hmf1 hmf2 hcct hsz haux h
      · -- still paired, not to j: a pseudoknot; moved to auxpk
        have hpk : pkOfAbove cct (a :: above) = a.toNat :: pkOfAbove cct above := by
          simp only [pkOfAbove]; rw [if_pos ⟨hnn, hz⟩]
        rw [hpk]
        have hb : (cct.getD a.toNat 0 == 0) = false := by rw [beq_eq_false_iff_ne]; exact hz
        simp only [hb, Bool.false_eq_true, if_false] at h
        have := popLoopG n ct cct hlen hclen j i below hj hi hij hcti hctj above nf mf
          { ss := st.ss, cct := cct.toArray, rb := st.rb, auxpk := a.toNat :: st.auxpk, auxss := st.auxss, reached := st.reached }
          res habove' hmf1 hmf2 rfl hsz haux h
        simp only [List.reverse_cons, List.append_assoc, List.singleton_append]
        exact this

theorem rdInt_ok_inv {a : Array Int} {i r : Int} (h : rdInt a i = .ok r) :
    0 ≤ i ∧ i.toNat < a.size ∧ r = a.getD i.toNat 0 := by
  unfold rdInt at h
  split at h
  · rename_i hc; injection h with h; exact ⟨hc.1, hc.2, h.symm⟩
  · cases h

/-- the scan `for (k = rightbound-1; k > leftbound; k--)`: either it ends on `leftbound` ("a new pseudoknot"), or it
    stops on the partner of `i` after skipping only positions that are unpaired in the working table or paired beyond
    `rightbound` -/
theorem scanK_spec (cct : List Nat) (i : Nat) (lb rbd : Int) :
    ∀ (fuel : Nat) (k r : Int), lb ≤ k → (k - lb).toNat ≤ fuel → scanK cct.toArray i lb rbd fuel k = .ok r →
      r = lb ∨ (lb < r ∧ r ≤ k ∧ 0 ≤ r ∧ cct.getD r.toNat 0 = i ∧ i ≠ 0 ∧ (i : Int) ≤ rbd ∧
                ∀ k2 : Int, r < k2 → k2 ≤ k → (cct.getD k2.toNat 0 = 0 ∨ (cct.getD k2.toNat 0 : Int) > rbd)) := by
  intro fuel
  induction fuel with
  | zero =>
    intro k r hk hf h
    simp only [scanK] at h
    injection h with h
    left; omega
  | succ fuel ih =>
    intro k r hk hf h
    unfold scanK at h
    by_cases hgt : k > lb
    · rw [if_pos hgt] at h
      simp only [bind, Except.bind] at h
      split at h
      · cases h
      · rename_i ck hck
        have hr := rdNat_ok_inv hck
        have hv : ck = cct.getD k.toNat 0 := by
          have h' := rdNat_toArray cct k hr.1 (by simpa using hr.2.1)
          rw [h'] at hck; injection hck with hck; exact hck.symm
        split at h
        · rename_i hz
          have hz' : ck = 0 := by simpa using hz
          rcases ih (k-1) r (by omega) (by omega) h with h1 | h1
          · exact Or.inl h1
          · right
            refine ⟨h1.1, by omega, h1.2.2.1, h1.2.2.2.1, h1.2.2.2.2.1, h1.2.2.2.2.2.1, ?_⟩
            intro k2 hk2 hk2'
            by_cases h2 : k2 < k
            · exact h1.2.2.2.2.2.2 k2 hk2 (by omega)
            · have : k2 = k := by omega
              subst this; left; rw [← hv]; exact hz'
        · split at h
          · rename_i _ hbig
            have hbig' : (ck : Int) > rbd := by simpa using hbig
            rcases ih (k-1) r (by omega) (by omega) h with h1 | h1
            · exact Or.inl h1
            · right
              refine ⟨h1.1, by omega, h1.2.2.1, h1.2.2.2.1, h1.2.2.2.2.1, h1.2.2.2.2.2.1, ?_⟩
              intro k2 hk2 hk2'
              by_cases h2 : k2 < k
              · exact h1.2.2.2.2.2.2 k2 hk2 (by omega)
              · have : k2 = k := by omega
                subst this; right; rw [← hv]; exact hbig'
          · split at h
            · rename_i hnz hnb heq
              have heq' : ck = i := by simpa using heq
              have hnz' : ck ≠ 0 := by simpa using hnz
              have hnb' : ¬ ((ck : Int) > rbd) := by simpa using hnb
              injection h with h; subst h
              right
              refine ⟨hgt, Int.le_refl _, hr.1, by rw [← hv]; exact heq', by rw [← heq']; exact hnz', by rw [← heq']; omega, ?_⟩
              intro k2 h1 h2; omega
            · injection h with h; exact Or.inl h.symm
    · rw [if_neg hgt] at h
      injection h with h
      left; omega

/-- `while (xpk < 26 && i < rb[xpk]) xpk++` -/
theorem bumpXpk_spec (rb : Array Int) (i : Nat) : ∀ (fuel : Nat) (xpk x : Int), 0 ≤ xpk →
    bumpXpk rb i fuel xpk = .ok x → xpk ≤ x ∧ (x < 26 → rb.getD x.toNat 0 ≤ (i : Int)) := by
  intro fuel
  induction fuel with
  | zero => intro xpk x _ h; simp only [bumpXpk] at h; cases h
  | succ fuel ih =>
    intro xpk x h0 h
    unfold bumpXpk at h
    split at h
    · simp only [bind, Except.bind] at h
      split at h
      · cases h
      · rename_i r hr
        have hv := rdInt_ok_inv hr
        split at h
        · have := ih (xpk+1) x (by omega) h
          exact ⟨by omega, this.2⟩
        · rename_i hlt
          injection h with h; subst h
          exact ⟨Int.le_refl _, fun _ => by rw [← hv.2.2]; omega⟩
    · injection h with h; subst h
      exact ⟨Int.le_refl _, fun hx => by omega⟩

end EaselModel.Msa
