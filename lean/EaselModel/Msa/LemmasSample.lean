import EaselModel.Msa.Sample
import EaselModel.Msa.Spec
import EaselModel.Random.SamplersLen
/-! Lemmas: whatever the source of random words, an alignment returned by `esl_msa_Sample` is well formed. -/
namespace EaselModel.Msa
open EaselModel.Random

variable {σ : Type}

theorem SRes.bind_ok {α β : Type} {x : SRes α} {f : α → SRes β} {b : β} (h : x.bind f = .ok b) :
    ∃ a, x = .ok a ∧ f a = .ok b := by
  cases x with
  | ok a => exact ⟨a, rfl, h⟩
  | nofuel => cases h
  | fault => cases h

theorem repeatS_spec {α : Type} (f : σ → SRes (α × σ)) (P : α → Prop)
    (hf : ∀ s v s', f s = .ok (v, s') → P v) :
    ∀ (k : Nat) (s : σ) (l : List α) (s' : σ), repeatS f k s = .ok (l, s') → l.length = k ∧ ∀ x ∈ l, P x := by
  intro k
  induction k with
  | zero =>
    intro s l s' h
    simp only [repeatS, SRes.ok.injEq, Prod.mk.injEq] at h
    obtain ⟨rfl, _⟩ := h
    exact ⟨rfl, fun x hx => by cases hx⟩
  | succ k ih =>
    intro s l s' h
    simp only [repeatS] at h
    obtain ⟨r, hr, h⟩ := SRes.bind_ok h
    obtain ⟨rs, hrs, h⟩ := SRes.bind_ok h
    simp only [SRes.ok.injEq, Prod.mk.injEq] at h
    obtain ⟨rfl, _⟩ := h
    obtain ⟨hl, hp⟩ := ih r.2 rs.1 rs.2 hrs
    refine ⟨by simp [hl], ?_⟩
    intro x hx
    rcases List.mem_cons.mp hx with rfl | hx
    · exact hf s r.1 r.2 hr
    · exact hp x hx

/-- a sampled cell is a residue code or the gap code: never missing data, the nonresidue code or the sentinel -/
theorem sampleCell_ok (next : σ → UInt32 × σ) (fu : Nat) (a : Abc) (hKp : a.Kp ≤ 255) (hK : a.K + 3 ≤ a.Kp) (s : σ) (c : UInt8) (s' : σ)
    (h : sampleCell next fu a s = .ok (c, s')) : c.toNat < a.Kp - 2 := by
  unfold sampleCell at h
  split at h
  · simp only [SRes.ok.injEq, Prod.mk.injEq] at h
    obtain ⟨rfl, _⟩ := h
    have : a.K < 256 := by omega
    simp [UInt8.toNat_ofNat, Nat.mod_eq_of_lt this]; omega
  · split at h
    · obtain ⟨r, hr, h⟩ := SRes.bind_ok h
      have hlt := rollS_lt next _ _ _ r.1 r.2 hr
      simp only [SRes.ok.injEq, Prod.mk.injEq] at h
      obtain ⟨rfl, _⟩ := h
      have : a.K + 1 + r.1 < 256 := by omega
      simp [UInt8.toNat_ofNat, Nat.mod_eq_of_lt this]; omega
    · obtain ⟨r, hr, h⟩ := SRes.bind_ok h
      have hlt := rollS_lt next _ _ _ r.1 r.2 hr
      simp only [SRes.ok.injEq, Prod.mk.injEq] at h
      obtain ⟨rfl, _⟩ := h
      have : r.1 < 256 := by omega
      simp [UInt8.toNat_ofNat, Nat.mod_eq_of_lt this]; omega

def isGraph (c : UInt8) : Bool := 0x21 ≤ c && c ≤ 0x7e

theorem graphChar_graph (k : Nat) (h : k < 94) : isGraph (graphChar k) = true := by
  have : ∀ k, k < 94 → isGraph (graphChar k) = true := by decide
  exact this k h

/-- a sampled name: 1 to `maxn` (30) graphic characters, the first one not punctuation -/
def NameOk (b : Bytes) : Prop := 1 ≤ b.length ∧ b.length ≤ Gen.sampleMaxName ∧ (∀ c ∈ b, isGraph c = true) ∧ isPunct (b.getD 0 0) = false

theorem sampleName_ok (next : σ → UInt32 × σ) (fu : Nat) :
    ∀ (f : Nat) (s : σ) (b : Bytes) (s' : σ), sampleName next fu f s = .ok (b, s') → NameOk b := by
  intro f
  induction f with
  | zero => intro s b s' h; cases h
  | succ f ih =>
    intro s b s' h
    simp only [sampleName] at h
    obtain ⟨r, hr, h⟩ := SRes.bind_ok h
    obtain ⟨g, hg, h⟩ := SRes.bind_ok h
    have hlt := rollS_lt next _ _ _ r.1 r.2 hr
    split at h
    · exact ih _ _ _ h
    · rename_i hp
      obtain ⟨g1, g2⟩ := g
      simp only [SRes.ok.injEq, Prod.mk.injEq] at h
      obtain ⟨rfl, rfl⟩ := h
      have := repeatS_spec (fun s => (rollS next 94 s fu).bind fun r => .ok (graphChar r.1, r.2)) (fun c => isGraph c = true)
        (by
          intro s v s'' hv
          obtain ⟨q, hq, hv⟩ := SRes.bind_ok hv
          simp only [SRes.ok.injEq, Prod.mk.injEq] at hv
          obtain ⟨rfl, _⟩ := hv
          exact graphChar_graph _ (rollS_lt next _ _ _ q.1 q.2 hq))
        (1 + r.1) r.2 g1 g2 hg
      refine ⟨by omega, by omega, this.2, by simpa using hp⟩

theorem sampledMsa_wf (a : Abc) (nseq alen : Nat) (rows names : List Bytes) (rf : Bytes) (hn : 1 ≤ nseq)
    (hrl : rows.length = nseq) (hr : ∀ r ∈ rows, r.length = alen ∧ ∀ x ∈ r, x.toNat < 255)
    (hnl : names.length = nseq) (hfl : rf.length = alen) (hf : ∀ c ∈ rf, c = 0x78 ∨ c = 0x2e) :
    (sampledMsa a nseq alen rows names rf).WF := by
  have hdig : (sampledMsa a nseq alen rows names rf).isDigital = true := by
    show ((2 : Nat) / 2 % 2 == 1) = true; decide
  constructor
  · exact hn
  · show (2 : Nat) < 4; decide
  · exact hrl
  · intro r hr'
    refine ⟨(hr r hr').1, ?_⟩
    intro c hc
    have := (hr r hr').2 c hc
    simp only [Msa.rowTerm, hdig, if_true, dsqSentinel]
    intro e; subst e
    simp at this
  · exact hnl
  · simp [sampledMsa, Msa.create]
  · simp [sampledMsa, Msa.create]
  · simp [sampledMsa, Msa.create]
  · simp [sampledMsa, Msa.create]
  · simp [sampledMsa, Msa.create]
  · simp [sampledMsa, Msa.create]
  · intro s hs; simp [sampledMsa, Msa.create] at hs; obtain ⟨_, rfl⟩ := hs; intro b hb; cases hb
  · intro s hs; simp [sampledMsa, Msa.create] at hs; obtain ⟨_, rfl⟩ := hs; intro b hb; cases hb
  · intro s hs; simp [sampledMsa, Msa.create] at hs; obtain ⟨_, rfl⟩ := hs; intro b hb; cases hb
  · intro b hb; simp [sampledMsa, Msa.create] at hb
  · intro b hb; simp [sampledMsa, Msa.create] at hb
  · intro b hb; simp [sampledMsa, Msa.create] at hb
  · intro b hb
    simp only [sampledMsa, Option.some.injEq] at hb
    subst hb
    refine ⟨hfl, ?_⟩
    intro c hc
    rcases hf c hc with rfl | rfl <;> decide
  · intro b hb; simp [sampledMsa, Msa.create] at hb
  · intro t ht; simp [sampledMsa, Msa.create] at ht
  · intro t ht; simp [sampledMsa, Msa.create] at ht
  · intro t ht; simp [sampledMsa, Msa.create] at ht
  · intro t ht; simp [sampledMsa, Msa.create] at ht

theorem sampleMsa_spec (next : σ → UInt32 × σ) (fu : Nat) (a : Abc) (hKp : a.Kp ≤ 255) (hK : a.K + 3 ≤ a.Kp)
    (maxNseq maxAlen : Nat) (s : σ) (m : Msa) (s' : σ) (h : sampleMsa next fu a maxNseq maxAlen s = .ok (m, s')) :
    m.WF ∧ m.isDigital = true ∧ m.abc = some a ∧ (1 ≤ m.nseq ∧ m.nseq ≤ maxNseq) ∧ (1 ≤ m.alen ∧ m.alen ≤ maxAlen) ∧
    (∀ r ∈ m.rows, ∀ x ∈ r, x.toNat < a.Kp - 2) ∧ (∀ nm ∈ m.sqname, NameOk nm) ∧
    (∃ rf, m.rf = some rf ∧ ∀ c ∈ rf, c = 0x78 ∨ c = 0x2e) ∧
    m.wgt = List.replicate m.nseq 0x3ff0000000000000 ∧ m.hasWgts = false := by
  unfold sampleMsa at h
  obtain ⟨rn, hrn, h⟩ := SRes.bind_ok h
  obtain ⟨ra, hra, h⟩ := SRes.bind_ok h
  simp only at h
  obtain ⟨rows, hrows, h⟩ := SRes.bind_ok h
  obtain ⟨names, hnames, h⟩ := SRes.bind_ok h
  obtain ⟨rf, hrf, h⟩ := SRes.bind_ok h
  simp only [SRes.ok.injEq, Prod.mk.injEq] at h
  obtain ⟨rfl, _⟩ := h
  have hn := rollS_lt next _ _ _ rn.1 rn.2 hrn
  have ha := rollS_lt next _ _ _ ra.1 ra.2 hra
  have hR := repeatS_spec (repeatS (sampleCell next fu a) (1 + ra.1)) (fun r => r.length = 1 + ra.1 ∧ ∀ x ∈ r, x.toNat < a.Kp - 2)
    (by
      intro s v s'' hv
      exact repeatS_spec (sampleCell next fu a) (fun c => c.toNat < a.Kp - 2)
        (fun s c s' hc => sampleCell_ok next fu a hKp hK s c s' hc) _ _ _ _ hv)
    (1 + rn.1) ra.2 rows.1 rows.2 hrows
  have hN := repeatS_spec (sampleName next fu fu) NameOk (fun s v s'' hv => sampleName_ok next fu fu s v s'' hv)
    (1 + rn.1) rows.2 names.1 names.2 hnames
  have hF := repeatS_spec (fun s => SRes.ok (if (next s).1.toNat < thrCons then (0x78 : UInt8) else 0x2e, (next s).2))
    (fun c => c = 0x78 ∨ c = 0x2e)
    (by
      intro s v s'' hv
      simp only [SRes.ok.injEq, Prod.mk.injEq] at hv
      obtain ⟨rfl, _⟩ := hv
      split <;> simp)
    (1 + ra.1) names.2 rf.1 rf.2 hrf
  refine ⟨sampledMsa_wf a _ _ _ _ _ (by omega) hR.1 (fun r hr => ⟨(hR.2 r hr).1, fun x hx => by have := (hR.2 r hr).2 x hx; omega⟩) hN.1 hF.1 hF.2,
    (by show ((2 : Nat) / 2 % 2 == 1) = true; decide), rfl, ⟨by simp [sampledMsa, Msa.create], by simp [sampledMsa, Msa.create]; omega⟩,
    ⟨by simp [sampledMsa, Msa.create], by simp [sampledMsa, Msa.create]; omega⟩,
    fun r hr x hx => (hR.2 r hr).2 x hx, hN.2, ⟨rf.1, rfl, hF.2⟩, by simp [sampledMsa, Msa.create], (by show ((2 : Nat) % 2 == 1) = false; decide)⟩

end EaselModel.Msa
