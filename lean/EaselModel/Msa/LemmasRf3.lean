import EaselModel.Msa.Model3
import EaselModel.Msa.LemmasRfCons
/-! Lemmas about the repaired `esl_msa_ReasonableRF(useconsseq=TRUE)` (0c757a4): text branch total on valid text, equal to
    the digital branch on the digitized alignment; exact thresholds over ℚ. -/
namespace EaselModel.Msa

theorem fCountX_of_residue {C : Type} (add : C → C → C) (divNat : C → Nat → C) (a : Abc) (ct : List C) (x : UInt8) (wt : C)
    (h : a.xIsResidue x = true) : fCountX add divNat a ct x wt = some (fCount add divNat a ct x wt) := by
  unfold fCountX fCount
  simp only [Abc.xIsResidue, Bool.or_eq_true, decide_eq_true_eq, Bool.and_eq_true] at h
  by_cases h1 : x.toNat < a.K
  · simp [h1]
  · have h2 : a.K < x.toNat ∧ x.toNat < a.Kp - 2 := by
      rcases h with h | h
      · exact absurd h h1
      · exact h
    have e1 : (x.toNat == a.K) = false := by simp; omega
    have e2 : (x.toNat == a.Kp - 1) = false := by simp; omega
    have e3 : (x.toNat == a.Kp - 2) = false := by simp; omega
    have e4 : x.toNat < a.Kp := by omega
    simp [h1, e1, e2, e3, e4]

/-- the fold of the digital branch -/
def rfDigFold {W C : Type} (A : WArith W) (B : CArith W C) (a : Abc) (acc : W × W × List C) (cw : UInt8 × W) : W × W × List C :=
  if a.xIsResidue cw.1 then
    (A.add acc.1 cw.2, A.add acc.2.1 cw.2, fCount B.add B.divNat a acc.2.2 cw.1 (B.ofW cw.2))
  else if a.xIsGap cw.1 then (acc.1, A.add acc.2.1 cw.2, acc.2.2)
  else acc

/-- the fold of the text branch -/
def rfTextFold {W C : Type} (A : WArith W) (B : CArith W C) (a : Abc) (acc : Option (W × W × List C)) (cw : UInt8 × W) :
    Option (W × W × List C) :=
  match acc with
  | none => none
  | some acc =>
    if isAlpha cw.1 then
      match fCountX B.add B.divNat a acc.2.2 (a.digit cw.1) (B.ofW cw.2) with
      | some ct => some (A.add acc.1 cw.2, A.add acc.2.1 cw.2, ct)
      | none => none
    else some (acc.1, A.add acc.2.1 cw.2, acc.2.2)

theorem rfTextColumn_eq {W C : Type} (A : WArith W) (B : CArith W C) (a : Abc) (cells : List (UInt8 × W)) :
    rfTextColumn A B a cells =
      (cells.foldl (rfTextFold A B a) (some (A.zero, A.zero, List.replicate a.K B.zero))).map
        (fun acc => if A.isCons acc.1 acc.2.1 then a.sym.getD (fArgMax B.gt B.zero acc.2.2) 0 else 0x2e) := by
  unfold rfTextColumn
  show (match cells.foldl (rfTextFold A B a) _ with | none => none | some acc => _) = _
  cases cells.foldl (rfTextFold A B a) (some (A.zero, A.zero, List.replicate a.K B.zero)) <;> rfl

theorem rfDigitalColumn_eq {W C : Type} (A : WArith W) (B : CArith W C) (a : Abc) (cells : List (UInt8 × W)) :
    rfDigitalColumn A B a cells =
      (fun (acc : W × W × List C) => if A.isCons acc.1 acc.2.1 then a.sym.getD (fArgMax B.gt B.zero acc.2.2) 0 else 0x2e)
        (cells.foldl (rfDigFold A B a) (A.zero, A.zero, List.replicate a.K B.zero)) := rfl

/-- a cell of a digitizable text column without missing-data / nonresidue characters: a letter is a residue of the
    alphabet, anything else one of its gap characters -/
def RfTextCell (a : Abc) (c : UInt8) : Prop :=
  (isAlpha c = true → a.xIsResidue (a.digit c) = true) ∧ (isAlpha c = false → a.xIsGap (a.digit c) = true)

theorem rfTextFold_eq_dig {W C : Type} (A : WArith W) (B : CArith W C) (a : Abc) :
    ∀ (cells : List (UInt8 × W)) (acc : W × W × List C), (∀ cw ∈ cells, RfTextCell a cw.1) →
      cells.foldl (rfTextFold A B a) (some acc) =
        some ((cells.map fun cw => (a.digit cw.1, cw.2)).foldl (rfDigFold A B a) acc) := by
  intro cells
  induction cells with
  | nil => intro acc _; rfl
  | cons cw cells ih =>
    intro acc h
    have hc := h cw (by simp)
    simp only [List.foldl_cons, List.map_cons]
    have step : rfTextFold A B a (some acc) cw = some (rfDigFold A B a acc (a.digit cw.1, cw.2)) := by
      unfold rfTextFold rfDigFold
      cases hal : isAlpha cw.1
      · have hg := hc.2 hal
        have hnr : a.xIsResidue (a.digit cw.1) = false := by
          simp only [Abc.xIsGap, beq_iff_eq] at hg
          simp only [Abc.xIsResidue, hg]
          simp
        simp [hnr, hg]
      · have hr := hc.1 hal
        simp only [if_true]
        rw [fCountX_of_residue _ _ _ _ _ _ hr]
        simp [hr]
    rw [step]
    exact ih _ (fun cw' hcw' => h cw' (by simp [hcw']))

theorem rfTextColumn_eq_digital {W C : Type} (A : WArith W) (B : CArith W C) (a : Abc)
    (cells : List (UInt8 × W)) (h : ∀ cw ∈ cells, RfTextCell a cw.1) :
    rfTextColumn A B a cells = some (rfDigitalColumn A B a (cells.map fun cw => (a.digit cw.1, cw.2))) := by
  rw [rfTextColumn_eq, rfTextFold_eq_dig A B a cells _ h, rfDigitalColumn_eq]
  rfl

/-- every cell the text branch looks at is a letter of the alphabet or one of its gap characters -/
def RfTextOk (a : Abc) (m : Msa) : Prop :=
  ∀ r ∈ m.rows.take m.nseq, m.alen ≤ r.length ∧ ∀ c ∈ r.take m.alen, RfTextCell a c

theorem rfCells_mem {W : Type} (m : Msa) (wgt : List W) (apos : Nat) (cw : UInt8 × W) (h : cw ∈ rfCells m wgt apos) :
    ∃ r ∈ m.rows.take m.nseq, cw.1 = r.getD apos 0 := by
  unfold rfCells at h
  have := (List.of_mem_zip h).1
  simp only [List.mem_map] at this
  obtain ⟨r, hr, e⟩ := this
  exact ⟨r, hr, e.symm⟩

theorem rfCells_ok {W : Type} (a : Abc) (m : Msa) (wgt : List W) (h : RfTextOk a m) (apos : Nat) (hap : apos < m.alen) :
    ∀ cw ∈ rfCells m wgt apos, RfTextCell a cw.1 := by
  intro cw hcw
  obtain ⟨r, hr, e⟩ := rfCells_mem m wgt apos cw hcw
  obtain ⟨hl, hc⟩ := h r hr
  rw [e]
  apply hc
  have h1 : apos < r.length := by omega
  rw [List.getD_eq_getElem?_getD, List.getElem?_eq_getElem h1, Option.getD_some]
  rw [List.mem_iff_getElem]
  exact ⟨apos, by simp; omega, by simp⟩

theorem mapM_some_of_forall {α β : Type} (f : α → Option β) (g : α → β) :
    ∀ (l : List α), (∀ x ∈ l, f x = some (g x)) → l.mapM f = some (l.map g) := by
  intro l
  induction l with
  | nil => intro _; rfl
  | cons x l ih =>
    intro h
    rw [List.mapM_cons, h x (by simp), ih (fun y hy => h y (by simp [hy]))]
    rfl

/-- the cells of a column of the digitized alignment are the digitized cells -/
theorem rfCells_digitized {W : Type} (a : Abc) (m : Msa) (wgt : List W) (h : RfTextOk a m) (apos : Nat) (hap : apos < m.alen) :
    rfCells { m with rows := m.rows.map (fun r => r.map a.digit), abc := some a, flags := m.flags ||| flagDigital } wgt apos =
      (rfCells m wgt apos).map fun cw => (a.digit cw.1, cw.2) := by
  unfold rfCells
  simp only
  rw [← List.map_take, List.map_map]
  have : ∀ (rs : List Bytes) (w : List W), (∀ r ∈ rs, apos < r.length) →
      (rs.map ((fun r => r.getD apos 0) ∘ fun r => r.map a.digit)).zip w =
        ((rs.map fun r => r.getD apos 0).zip w).map fun cw => (a.digit cw.1, cw.2) := by
    intro rs
    induction rs with
    | nil => intro w _; simp
    | cons r rs ih =>
      intro w hr
      cases w with
      | nil => simp
      | cons w0 w =>
        have h1 := hr r (by simp)
        simp only [List.map_cons, List.zip_cons_cons, Function.comp]
        rw [ih w (fun r' hr' => hr r' (by simp [hr']))]
        congr 1
        simp [List.getD_eq_getElem?_getD, List.getElem?_map, List.getElem?_eq_getElem h1]
  apply this
  intro r hr
  have := (h r hr).1
  omega

theorem reasonableRFConsX_text_eq_digital {W C : Type} (A : WArith W) (B : CArith W C) (a : Abc) (m : Msa)
    (wgt : List W) (htext : m.isDigital = false) (hok : RfTextOk a m) :
    reasonableRFConsX A B m (some a) wgt =
      .ok ((List.range m.alen).map fun apos => rfDigitalColumn A B a
        (rfCells { m with rows := m.rows.map (fun r => r.map a.digit), abc := some a, flags := m.flags ||| flagDigital } wgt apos)) := by
  unfold reasonableRFConsX
  simp only [htext, Bool.false_eq_true, if_false]
  unfold rfTextLine
  rw [mapM_some_of_forall _ (fun apos => rfDigitalColumn A B a ((rfCells m wgt apos).map fun cw => (a.digit cw.1, cw.2)))]
  · simp only
    congr 1
    apply List.map_congr_left
    intro apos hap
    rw [rfCells_digitized a m wgt hok apos (by simpa using hap)]
  · intro apos hap
    exact rfTextColumn_eq_digital A B a _ (rfCells_ok a m wgt hok apos (by simpa using hap))

/-- on a digital alignment `reasonableRFConsX` is `reasonableRFCons` -/
theorem reasonableRFConsX_digital {W C : Type} (A : WArith W) (B : CArith W C) (m : Msa) (wgt : List W)
    (hd : m.isDigital = true) :
    reasonableRFConsX A B m m.abc wgt = (match reasonableRFCons A B m wgt with | some rf => .ok rf | none => .einval) := by
  unfold reasonableRFConsX reasonableRFCons
  cases m.abc with
  | none => simp [hd]
  | some a => simp only [hd, Bool.not_true, Bool.false_eq_true, if_false, if_true]; rfl

/-- shape of a digital column -/
theorem rfDigitalColumn_shape {W C : Type} (A : WArith W) (B : CArith W C) (a : Abc) (hK : 0 < a.K) (cells : List (UInt8 × W)) :
    rfDigitalColumn A B a cells = 0x2e ∨ ∃ k, k < a.K ∧ rfDigitalColumn A B a cells = a.sym.getD k 0 := by
  rw [rfDigitalColumn_eq]
  simp only
  split
  · right
    have hlen : ∀ (cells : List (UInt8 × W)) (acc : W × W × List C), acc.2.2.length = a.K →
        (cells.foldl (rfDigFold A B a) acc).2.2.length = a.K := by
      intro cells
      induction cells with
      | nil => intro acc h; exact h
      | cons cw cells ih =>
        intro acc h
        simp only [List.foldl_cons]
        apply ih
        unfold rfDigFold
        split
        · simp only; rw [fCount_length]; exact h
        · split <;> exact h
    have := hlen cells (A.zero, A.zero, List.replicate a.K B.zero) (by simp)
    have h2 := fArgMax_lt B.gt B.zero _ (by rw [this]; exact hK)
    rw [this] at h2
    exact ⟨_, h2, rfl⟩
  · exact Or.inl rfl

/-! ## exact thresholds over ℚ -/

theorem rfFold_rat (isRes isGapLike : UInt8 → Bool) : ∀ (cells : List (UInt8 × Rat)) (r t : Rat),
    cells.foldl (fun (acc : Rat × Rat) cw =>
      if isRes cw.1 then (acc.1 + cw.2, acc.2 + cw.2)
      else if isGapLike cw.1 then (acc.1, acc.2 + cw.2)
      else acc) (r, t) =
    (r + wsum isRes cells, t + wsum (fun c => isRes c || isGapLike c) cells) := by
  intro cells
  induction cells with
  | nil => intro r t; simp [wsum, Rat.add_zero]
  | cons cw cells ih =>
    intro r t
    simp only [List.foldl_cons, wsum]
    by_cases h1 : isRes cw.1 = true
    · simp only [h1, if_true, Bool.true_or]
      rw [ih]; simp only [Rat.add_assoc]
    · simp only [Bool.not_eq_true] at h1
      by_cases h2 : isGapLike cw.1 = true
      · simp only [h1, h2, Bool.false_eq_true, if_false, if_true, Bool.false_or]
        rw [ih]; simp only [Rat.add_assoc, Rat.zero_add]
      · simp only [Bool.not_eq_true] at h2
        simp only [h1, h2, Bool.false_eq_true, if_false, Bool.false_or]
        rw [ih]; simp only [Rat.zero_add]

/-- the column rule of `esl_msa_ReasonableRF` in exact arithmetic: `x` iff the weight `R` of the sequences with a residue
    is positive and `R / (R + G) >= symfrac`, `G` the weight of the sequences with a gap (cells that are neither —
    missing data in digital mode — are in neither sum) -/
theorem rfColumn_rat (symfrac : Rat) (isRes isGapLike : UInt8 → Bool) (cells : List (UInt8 × Rat)) :
    rfColumn (ratArith symfrac) isRes isGapLike cells =
      if 0 < wsum isRes cells ∧ symfrac ≤ wsum isRes cells / wsum (fun c => isRes c || isGapLike c) cells then 0x78 else 0x2e := by
  have key := rfFold_rat isRes isGapLike cells 0 0
  simp only [Rat.zero_add] at key
  show (match cells.foldl (fun (acc : Rat × Rat) cw =>
      if isRes cw.1 then (acc.1 + cw.2, acc.2 + cw.2)
      else if isGapLike cw.1 then (acc.1, acc.2 + cw.2)
      else acc) ((0 : Rat), (0 : Rat)) with
    | (r, tot) => if (decide (0 < r) && decide (symfrac ≤ r / tot)) = true then (0x78 : UInt8) else 0x2e) = _
  rw [key]
  simp only [Bool.and_eq_true, decide_eq_true_eq]

end EaselModel.Msa
