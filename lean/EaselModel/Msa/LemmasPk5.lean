import EaselModel.Msa.LemmasPk4
/-! Lemmas: a SUFFICIENT, purely combinatorial condition for `esl_ct2wuss` to succeed. Every pair that receives a
    pseudoknot letter has its 5' end inside a pair opened before it that closes before it does (`isPkPair`); each letter
    in use is carried by at least one such pair; so "not enough letters" needs at least 27 of them. -/
namespace EaselModel.Msa

/-- `p` is the 5' end of a pair `(p, ct[p])` crossed by a pair `(q, ct[q])` with `q < p < ct[q] < ct[p]` -/
def isPkPair (ct : List Nat) (p : Nat) : Bool :=
  decide (p < ct.getD p 0) &&
    (List.range ct.length).any (fun q => decide (q < p ∧ p < ct.getD q 0 ∧ ct.getD q 0 < ct.getD p 0))

/-- the pseudoknotted pairs of a table (by their 5' ends) -/
def pkPairs (ct : List Nat) : List Nat := (List.range ct.length).filter (isPkPair ct)

theorem mem_pkPairs (ct : List Nat) (p : Nat) (h : isPkPair ct p = true) : p ∈ pkPairs ct := by
  unfold pkPairs
  rw [List.mem_filter]
  refine ⟨?_, h⟩
  rw [List.mem_range]
  rcases Nat.lt_or_ge p ct.length with h1 | h1
  · exact h1
  · exfalso
    simp only [isPkPair, Bool.and_eq_true, decide_eq_true_eq] at h
    have : ct.getD p 0 = 0 := by simp [List.getD_eq_getElem?_getD, List.getElem?_eq_none h1]
    omega

theorem isPkPair_of (ct : List Nat) (p q : Nat) (hq : q < ct.length) (h1 : q < p) (h2 : p < ct.getD q 0)
    (h3 : ct.getD q 0 < ct.getD p 0) : isPkPair ct p = true := by
  simp only [isPkPair, Bool.and_eq_true, decide_eq_true_eq, List.any_eq_true, List.mem_range]
  exact ⟨by omega, q, hq, h1, h2, h3⟩

theorem nodup_subset_length : ∀ (l m : List Nat), l.Nodup → (∀ p ∈ l, p ∈ m) → l.length ≤ m.length
  | [], _, _, _ => Nat.zero_le _
  | a :: l, m, hn, hs => by
    have hn' := List.nodup_cons.mp hn
    have ha : a ∈ m := hs a (by simp)
    have ih := nodup_subset_length l (m.erase a) hn'.2 (fun p hp => by
      have hne : p ≠ a := fun e => hn'.1 (e ▸ hp)
      exact (List.mem_erase_of_ne hne).mpr (hs p (by simp [hp])))
    rw [List.length_erase_of_mem ha] at ih
    have : 1 ≤ m.length := List.length_pos_of_mem ha
    simp only [List.length_cons]; omega

/-- light invariant of the lettering: every letter in use is carried by a lettered pair, and lettered pairs are
    pseudoknotted pairs -/
structure UInv (ct cct : List Nat) (ss : Array UInt8) (rb : List Int) : Prop where
  used : ∀ x : Nat, x < 26 → 0 ≤ rb.getD x 0 →
    ∃ p, 1 ≤ p ∧ p < ct.getD p 0 ∧ cct.getD p 0 = 0 ∧ ssAt ss (p-1) = UInt8.ofNat (65 + x)
  cross : ∀ p, 1 ≤ p → p < ct.getD p 0 → cct.getD p 0 = 0 → isPkPair ct p = true

/-- `k` letters in use give `k` distinct lettered pseudoknotted pairs -/
theorem letters_give_pairs (ct cct : List Nat) (ss : Array UInt8) (rb : List Int) (u : UInv ct cct ss rb) :
    ∀ k, k ≤ 26 → (∀ x, x < k → 0 ≤ rb.getD x 0) →
      ∃ l : List Nat, l.length = k ∧ l.Nodup ∧
        ∀ p ∈ l, isPkPair ct p = true ∧ cct.getD p 0 = 0 ∧ ∃ x, x < k ∧ ssAt ss (p-1) = UInt8.ofNat (65 + x) := by
  intro k
  induction k with
  | zero => intro _ _; exact ⟨[], rfl, List.nodup_nil, fun p hp => by simp at hp⟩
  | succ k ih =>
    intro hk hall
    obtain ⟨l, hl, hnd, hmem⟩ := ih (by omega) (fun x hx => hall x (by omega))
    obtain ⟨p, hp1, hp2, hp3, hp4⟩ := u.used k (by omega) (hall k (by omega))
    refine ⟨p :: l, by simp [hl], ?_, ?_⟩
    · rw [List.nodup_cons]
      refine ⟨fun hin => ?_, hnd⟩
      obtain ⟨_, _, x, hx, hss⟩ := hmem p hin
      rw [hp4] at hss
      have := ofNat_letter_inj k x (by omega) (by omega) hss
      omega
    · intro q hq
      simp only [List.mem_cons] at hq
      rcases hq with rfl | hq
      · exact ⟨u.cross q hp1 hp2 hp3, hp3, k, by omega, hp4⟩
      · obtain ⟨a, b, x, hx, hss⟩ := hmem q hq
        exact ⟨a, b, x, by omega, hss⟩

/-- `while (xpk < 26 && i < rb[xpk]) xpk++`: every index skipped has `i < rb[.]` -/
theorem bumpXpk_between (rb : Array Int) (i : Nat) : ∀ (fuel : Nat) (xpk x : Int), 0 ≤ xpk →
    bumpXpk rb i fuel xpk = .ok x → ∀ x' : Int, xpk ≤ x' → x' < x → (i : Int) < rb.getD x'.toNat 0 := by
  intro fuel
  induction fuel with
  | zero => intro xpk x _ h; simp only [bumpXpk] at h; cases h
  | succ fuel ih =>
    intro xpk x h0 h x' h1 h2
    unfold bumpXpk at h
    split at h
    · simp only [bind, Except.bind] at h
      split at h
      · cases h
      · rename_i r hr
        have hv := rdInt_ok_inv hr
        split at h
        · rename_i hlt
          by_cases he : x' = xpk
          · subst he; rw [← hv.2.2]; exact hlt
          · exact ih (xpk+1) x (by omega) h x' (by omega) h2
        · injection h with h; subst h; omega
    · injection h with h; subst h; omega

/-- outcome of a lettering batch under the light invariant -/
def PkOut (ct cct : List Nat) (items : List Nat) (r : Except WErr C2W) : Prop :=
  (∀ st', r = .ok st' → ∃ rb', st'.rb = rb'.toArray ∧ rb'.length = 26 ∧ UInv ct (zeroPairs ct items cct) st'.ss rb') ∧
  (∀ p, r = .error (.einvalLetters p) → 27 ≤ (pkPairs ct).length)

theorem pkLoop_light (n : Nat) (ct : List Nat) (hlen : ct.length = n + 1) (j : Nat) (hjn : j ≤ n) (i0 : Nat)
    (hi0 : ct.getD i0 0 = j ∧ i0 < j) :
    ∀ (items : List Nat) (lb rbd xpk : Int) (st : C2W) (cct : List Nat) (rb : List Int) (r : Except WErr C2W),
      st.cct = cct.toArray → st.rb = rb.toArray → cct.length = n + 1 → st.ss.size = n → rb.length = 26 →
      items.Pairwise (· < ·) →
      (∀ a ∈ items, i0 < a ∧ a < j ∧ cct.getD a 0 = ct.getD a 0 ∧ j < ct.getD a 0 ∧ ct.getD a 0 ≤ n ∧
        ct.getD (ct.getD a 0) 0 = a) →
      0 ≤ lb → 0 ≤ rbd → rbd ≤ (n : Int) → ((xpk = -1 ∧ rbd = lb + 1) ∨ (0 ≤ xpk ∧ xpk ≤ 25)) →
      UInv ct cct st.ss rb → (∀ x' : Nat, (x' : Int) ≤ xpk → 0 ≤ rb.getD x' 0) →
      pkLoop ct.toArray j items lb rbd xpk st = r → PkOut ct cct items r
  | [], lb, rbd, xpk, st, cct, rb, r, _, hrb, _, _, hrbl, _, _, _, _, _, _, u, _, h => by
    simp only [pkLoop] at h
    subst h
    refine ⟨fun st' h => ?_, fun p h => by cases h⟩
    injection h with h; subst h
    exact ⟨rb, hrb, hrbl, u⟩
  | i :: rest, lb, rbd, xpk, st, cct, rb, r, hcct, hrb, hclen, hsz, hrbl, hsorted, hitems, hlb, hrbd0, hrbn, hx, u, hV, h => by
    have hi := hitems i (by simp)
    have hsrt := List.pairwise_cons.mp hsorted
    have hrbsz : st.rb.size = 26 := by rw [hrb]; simpa using hrbl
    unfold pkLoop at h
    simp only [bind, Except.bind, pure, Except.pure] at h
    cases hk : scanK st.cct i lb rbd (st.cct.size + 2) (rbd - 1) with
    | error e' =>
      rw [hcct] at hk
      exact absurd hk (scanK_noerr cct i lb rbd hlb _ _ e' (by omega))
    | ok k =>
      rw [hk] at h; simp only at h
      rw [rdNat_st st cct hcct (i:Int) (by omega) (by simp; omega)] at h
      simp only [Int.toNat_natCast] at h
      have hrdj := rdNat_st st cct hcct (j:Int) (by omega) (by simp; omega)
      have hx1 : 0 ≤ xpk + 1 ∧ xpk + 1 ≤ 26 := by rcases hx with ⟨h1,_⟩ | ⟨h1,h2⟩ <;> omega
      obtain ⟨x0, hbx, hx0, hx26⟩ := bumpXpk_ok st.rb i hrbsz 64 (xpk+1) hx1.1 hx1.2 (by omega)
      have hbetw := bumpXpk_between st.rb i 64 (xpk+1) x0 hx1.1 hbx
      -- the item is a pseudoknotted pair
      have hipk : isPkPair ct i = true :=
        isPkPair_of ct i i0 (by omega) hi.1 (by rw [hi0.1]; exact hi.2.1) (by rw [hi0.1]; exact hi.2.2.2.1)
      split at h
      · rename_i err herr
        by_cases hkl : k = lb
        · simp only [hkl, beq_self_eq_true, if_true, hbx, hrdj] at herr
          cases herr
        · have : (k == lb) = false := by rw [beq_eq_false_iff_ne]; exact hkl
          simp only [this, Bool.false_eq_true, if_false] at herr
          cases herr
      · rename_i trip htrip
        obtain ⟨x, lb', rbd'⟩ := trip
        simp only at h
        have hb : 0 ≤ x ∧ x ≤ 26 ∧ 0 ≤ lb' ∧ 0 ≤ rbd' ∧ rbd' ≤ (n : Int) ∧
            (∀ x' : Nat, (x' : Int) < x → 0 ≤ rb.getD x' 0) := by
          by_cases hkl : k = lb
          · simp only [hkl, beq_self_eq_true, if_true, hbx, hrdj] at htrip
            injection htrip with htrip
            injection htrip with e1 e2
            injection e2 with e2 e3
            subst e1; subst e3
            refine ⟨by omega, hx26, ?_, by omega, by rw [hi.2.2.1]; omega, ?_⟩
            · rw [← e2]; split <;> omega
            · intro x' hx'
              by_cases hle : (x' : Int) ≤ xpk
              · exact hV x' hle
              · have := hbetw (x' : Int) (by omega) hx'
                rw [hrb] at this
                simp only [Int.toNat_natCast, toArray_getD_int] at this
                omega
          · have : (k == lb) = false := by rw [beq_eq_false_iff_ne]; exact hkl
            simp only [this, Bool.false_eq_true, if_false] at htrip
            injection htrip with htrip
            injection htrip with e1 e2
            injection e2 with e2 e3
            subst e1; subst e2; subst e3
            rcases hx with ⟨h1, h2⟩ | ⟨h1, h2⟩
            · exfalso
              subst h2
              have hf := scanK_first st.cct i lb (st.cct.size + 1)
              have : Except.ok k = (Except.ok lb : Except WErr Int) := hk.symm.trans hf
              injection this with this
              exact hkl this
            · exact ⟨h1, by omega, hlb, hrbd0, hrbn, fun x' hx' => hV x' (by omega)⟩
        obtain ⟨hx0', hx26', hlb', hrbd0', hrbn', hVx⟩ := hb
        by_cases hx25 : x + 97 ≤ 122
        · rw [if_pos hx25] at h
          have hxn : x.toNat < 26 := by omega
          have hrd : rdInt st.rb x = .ok (rb.getD x.toNat 0) := by
            rw [hrb]; exact rdInt_toList rb x hx0' (by rw [hrbl]; exact hxn)
          rw [hrd] at h; simp only at h
          obtain ⟨ss1, h1⟩ := wrSs_ok_of_range st.ss ((i:Int) - 1) (UInt8.ofNat (x + 65).toNat) (by omega) (by omega)
          rw [h1] at h; simp only at h
          have hw1 := wrSs_ok_inv h1
          obtain ⟨ss2, h2⟩ := wrSs_ok_of_range ss1 (((cct.getD i 0 : Nat) : Int) - 1) (UInt8.ofNat (x + 97).toNat)
            (by rw [hi.2.2.1]; omega) (by rw [hw1.2.2.1, hsz, hi.2.2.1]; omega)
          rw [h2] at h; simp only at h
          have hw2 := wrSs_ok_inv h2
          rw [hcct, wrNat_ok_of_range cct (i:Int) 0 (by omega) (by simp; omega)] at h
          simp only [Int.toNat_natCast] at h
          rw [rdNat_toArray ct (i:Int) (by omega) (by simp; omega)] at h
          simp only [Int.toNat_natCast] at h
          rw [wrNat_ok_of_range (cct.set i 0) ((ct.getD i 0 : Nat) : Int) 0 (by omega)
            (by simp only [List.length_set, Int.toNat_natCast]; omega)] at h
          simp only [Int.toNat_natCast] at h
          have e1 : ((i:Int) - 1).toNat = i - 1 := by omega
          have e2 : (((cct.getD i 0 : Nat) : Int) - 1).toNat = ct.getD i 0 - 1 := by rw [hi.2.2.1]; omega
          rw [e1] at hw1; rw [e2] at hw2
          have hxA : (x + 65).toNat = 65 + x.toNat := by omega
          -- cells of the new string
          have hss_i : ssAt ss2 (i-1) = UInt8.ofNat (65 + x.toNat) := by
            rw [hw2.2.2.2.2 (i-1) (by omega), hw1.2.2.2.1, hxA]
          have hss_o : ∀ p, 1 ≤ p → p ≠ i → p ≠ ct.getD i 0 → ssAt ss2 (p-1) = ssAt st.ss (p-1) := by
            intro p hp1 hp2 hp3
            rw [hw2.2.2.2.2 (p-1) (by omega), hw1.2.2.2.2 (p-1) (by omega)]
          -- the new working table
          have hc_i : ((cct.set i 0).set (ct.getD i 0) 0).getD i 0 = 0 := by
            rw [getD_set_ne _ _ _ _ _ (by omega), getD_set_self _ _ _ _ (by omega)]
          have hc_o : ∀ p, p ≠ i → p ≠ ct.getD i 0 → ((cct.set i 0).set (ct.getD i 0) 0).getD p 0 = cct.getD p 0 := by
            intro p hp2 hp3
            rw [getD_set_ne _ _ _ _ _ (Ne.symm hp3), getD_set_ne _ _ _ _ _ (Ne.symm hp2)]
          -- the new right bounds
          have hrbset : (if ((cct.getD i 0 : Nat) : Int) > rb.getD x.toNat 0 then rb.toArray.setIfInBounds x.toNat ((cct.getD i 0 : Nat) : Int) else rb.toArray)
              = (if ((cct.getD i 0 : Nat) : Int) > rb.getD x.toNat 0 then rb.set x.toNat ((cct.getD i 0 : Nat) : Int) else rb).toArray := by
            split <;> simp
          have hrb'len : (if ((cct.getD i 0 : Nat) : Int) > rb.getD x.toNat 0 then rb.set x.toNat ((cct.getD i 0 : Nat) : Int) else rb).length = 26 := by
            split <;> simp [hrbl]
          have hrb'o : ∀ y, y ≠ x.toNat → (if ((cct.getD i 0 : Nat) : Int) > rb.getD x.toNat 0 then rb.set x.toNat ((cct.getD i 0 : Nat) : Int) else rb).getD y 0 = rb.getD y 0 := by
            intro y hy
            split
            · rw [getD_set_ne _ _ _ _ _ (Ne.symm hy)]
            · rfl
          have hrb'x : 0 ≤ (if ((cct.getD i 0 : Nat) : Int) > rb.getD x.toNat 0 then rb.set x.toNat ((cct.getD i 0 : Nat) : Int) else rb).getD x.toNat 0 := by
            split
            · rw [getD_set_self _ _ _ _ (by rw [hrbl]; exact hxn)]; omega
            · omega
          have u2 : UInv ct ((cct.set i 0).set (ct.getD i 0) 0) ss2
              (if ((cct.getD i 0 : Nat) : Int) > rb.getD x.toNat 0 then rb.set x.toNat ((cct.getD i 0 : Nat) : Int) else rb) := {
            used := by
              intro y hy hge
              by_cases hyx : y = x.toNat
              · subst hyx
                exact ⟨i, by omega, by omega, hc_i, hss_i⟩
              · rw [hrb'o y hyx] at hge
                obtain ⟨p, hp1, hp2, hp3, hp4⟩ := u.used y hy hge
                have hpi : p ≠ i := by intro e; rw [e, hi.2.2.1] at hp3; omega
                have hpc : p ≠ ct.getD i 0 := by intro e; rw [e, hi.2.2.2.2.2] at hp2; omega
                exact ⟨p, hp1, hp2, by rw [hc_o p hpi hpc]; exact hp3, by rw [hss_o p hp1 hpi hpc]; exact hp4⟩
            cross := by
              intro p hp1 hp2 hp3
              by_cases hpi : p = i
              · rw [hpi]; exact hipk
              · by_cases hpc : p = ct.getD i 0
                · exfalso; rw [hpc, hi.2.2.2.2.2] at hp2; omega
                · rw [hc_o p hpi hpc] at hp3
                  exact u.cross p hp1 hp2 hp3 }
          rw [hrb, hrbset] at h
          refine (fun (hrec : PkOut ct ((cct.set i 0).set (ct.getD i 0) 0) rest r) => ?_)
            (pkLoop_light n ct hlen j hjn i0 hi0 rest lb' rbd' x _ ((cct.set i 0).set (ct.getD i 0) 0) _ r rfl rfl
              (by simp [hclen]) (by rw [hw2.2.2.1, hw1.2.2.1, hsz]) hrb'len hsrt.2 (by
                intro a ha
                have hA := hitems a (by simp [ha])
                have hlt := hsrt.1 a ha
                refine ⟨hA.1, hA.2.1, ?_, hA.2.2.2⟩
                rw [hc_o a (by omega) (by omega)]
                exact hA.2.2.1) hlb' hrbd0' hrbn' (Or.inr ⟨hx0', by omega⟩) u2 (by
                intro x' hx'
                by_cases hyx : x' = x.toNat
                · rw [hyx]; exact hrb'x
                · rw [hrb'o x' hyx]; exact hVx x' (by omega)) h)
          exact hrec
        · rw [if_neg hx25] at h
          subst h
          unfold PkOut
          refine ⟨fun st' h' => (by cases h'), fun p _ => ?_⟩
          have hx26e : x = 26 := by omega
          obtain ⟨l, hl, hnd, hmem⟩ := letters_give_pairs ct cct st.ss rb u 26 (Nat.le_refl _)
            (fun y hy => hVx y (by omega))
          have hnd2 : (i :: l).Nodup := by
            rw [List.nodup_cons]
            refine ⟨fun hin => ?_, hnd⟩
            have := (hmem i hin).2.1
            rw [hi.2.2.1] at this; omega
          have hsub : ∀ p ∈ i :: l, p ∈ pkPairs ct := by
            intro p hp
            simp only [List.mem_cons] at hp
            rcases hp with rfl | hp
            · exact mem_pkPairs ct _ hipk
            · exact mem_pkPairs ct p (hmem p hp).1
          have := nodup_subset_length (i :: l) (pkPairs ct) hnd2 hsub
          simp only [List.length_cons, hl] at this
          exact this
theorem toArray_inj_int {a b : List Int} (h : a.toArray = b.toArray) : a = b := by
  have := congrArg Array.toList h
  simpa using this

/-- "not enough letters" needs at least 27 pseudoknotted pairs -/
theorem c2wMain_fewpk (simple : Bool) (n : Nat) (ct : List Nat) (hct : CtOk n ct) :
    ∀ (fuel j : Nat) (pda : List Int) (st : C2W) (cct : List Nat) (rb : List Int) (p : Bytes),
      j ≤ n + 1 → 1 ≤ j → GInv n ct j pda st cct rb → (simple = true → ∀ a ∈ pda, 0 ≤ a) → UInv ct cct st.ss rb →
      c2wMain simple ct.toArray n fuel j pda st = .error (.einvalLetters p) → 27 ≤ (pkPairs ct).length := by
  intro fuel
  induction fuel with
  | zero => intro j pda st cct rb p _ _ _ _ _ h; simp only [c2wMain] at h; cases h
  | succ fuel ih =>
    intro j pda st cct rb p hju hj1 inv hnm u h
    unfold c2wMain at h
    by_cases hend : j > n
    · rw [if_pos hend] at h; cases h
    have hjn : j ≤ n := by omega
    rw [if_neg (by omega)] at h
    simp only [bind, Except.bind, pure, Except.pure] at h
    rw [inv.hcct, rdNat_toArray cct (j : Int) (by omega) (by simp; rw [inv.cok.len]; omega)] at h
    simp only [Int.toNat_natCast] at h
    by_cases h0 : cct.getD j 0 = 0
    · simp only [h0, beq_self_eq_true, if_true] at h
      exact ih (j+1) _ st cct rb p (by omega) (by omega) (ginv_push hct inv hj1 (Or.inl h0)) (nomark_push j hnm) u h
    · have hb : (cct.getD j 0 == 0) = false := by rw [beq_eq_false_iff_ne]; exact h0
      simp only [hb, Bool.false_eq_true, if_false] at h
      by_cases hleft : j < cct.getD j 0
      · rw [if_pos hleft] at h
        exact ih (j+1) _ st cct rb p (by omega) (by omega) (ginv_push hct inv hj1 (Or.inr hleft)) (nomark_push j hnm) u h
      · rw [if_neg hleft] at h
        obtain ⟨above, below, hsplit, habove, hitems, hitsorted, hstep⟩ := ginv_right_end simple n ct hct inv hnm hj1 hjn h0 hleft
        have hsj := cct_sym hct inv.cok j h0
        split at h
        · rename_i err herr
          exfalso
          rw [hsplit] at herr
          exact popLoop_noerrB simple n ct cct hct.1 inv.cok.len j (cct.getD j 0) below above ⟨hj1, hjn⟩ ⟨hsj.2.2.2.2.1, by omega⟩ hsj.2.1
            st err habove (fun hs a ha => hnm hs a (by rw [hsplit]; simp [ha])) inv.hcct inv.sssize inv.noaux herr
        · rename_i res hres
          obtain ⟨hfound, hcct1, hpk1, ⟨hreach1, hsz1, hrb1, hcells⟩, hd, hpda1, _, hhds, hnext⟩ := hstep res hres
          obtain ⟨found, pda1, st1⟩ := res
          simp only at hfound hcct1 hpk1 hpda1 hnext h hreach1 hsz1 hrb1 hcells
          subst hfound hpda1
          simp only [Bool.not_true, Bool.false_eq_true, if_false] at h
          have u1 : UInv ct cct st1.ss rb := {
            used := by
              intro x hx hge
              obtain ⟨q, hq1, hq2, hq3, hq4⟩ := u.used x hx hge
              exact ⟨q, hq1, hq2, hq3, by rw [hcells q hq1 hq2 hq3]; exact hq4⟩
            cross := u.cross }
          have hi0 : ct.getD (cct.getD j 0) 0 = j ∧ cct.getD j 0 < j := by
            have := cct_sym hct inv.cok (cct.getD j 0) (by rw [hsj.2.1]; omega)
            exact ⟨by rw [← this.1]; exact hsj.2.1, by omega⟩
          have hitems' : ∀ a ∈ (pkOfAbove cct above).reverse,
              cct.getD j 0 < a ∧ a < j ∧ cct.getD a 0 = ct.getD a 0 ∧ j < ct.getD a 0 ∧ ct.getD a 0 ≤ n ∧
              ct.getD (ct.getD a 0) 0 = a := by
            intro a ha
            have hA := hitems a ha
            have hsa := cct_sym hct inv.cok a hA.2.2.1
            have hpa := hct.2 a (by rw [← hsa.1]; exact hA.2.2.1)
            exact ⟨hA.1, hA.2.1, hsa.1, hA.2.2.2, hpa.2.2.2.1, hpa.2.2.2.2.1⟩
          -- outcome of the batch
          have hout : ∀ r, pkLoop ct.toArray j (pkOfAbove cct above).reverse ((cct.getD j 0 : Nat) : Int)
              (((cct.getD j 0 : Nat) : Int) + 1) (-1) st1 = r → PkOut ct cct (pkOfAbove cct above).reverse r := by
            intro r hr
            exact pkLoop_light n ct hct.1 j hjn (cct.getD j 0) hi0 _ _ _ _ st1 cct rb r hcct1 (by rw [hrb1]; exact inv.hrb)
              inv.cok.len hsz1 inv.linv.rblen hitsorted hitems' (by omega) (by omega) (by omega) (Or.inl ⟨rfl, rfl⟩) u1
              (by intro x' hx'; omega) hr
          split at h
          · rename_i err herr
            injection h with h; subst h
            rw [hpk1] at herr
            cases hit : (pkOfAbove cct above).reverse with
            | nil => rw [hit] at herr; simp only at herr; cases herr
            | cons a tl =>
              rw [hit] at herr
              simp only at herr
              rw [hcct1, rdNat_toArray cct (j : Int) (by omega) (by simp; rw [inv.cok.len]; omega)] at herr
              simp only [Int.toNat_natCast] at herr
              rw [← hit] at herr
              exact (hout _ herr).2 p rfl
          · rename_i st2 hst2
            have hdis : ((pkOfAbove cct above).reverse = [] ∧ st2 = st1) ∨
                pkLoop ct.toArray j (pkOfAbove cct above).reverse ((cct.getD j 0 : Nat) : Int)
                  (((cct.getD j 0 : Nat) : Int) + 1) (-1) st1 = .ok st2 := by
              rw [hpk1] at hst2
              cases hit : (pkOfAbove cct above).reverse with
              | nil =>
                rw [hit] at hst2
                simp only at hst2
                injection hst2 with hst2
                exact Or.inl ⟨rfl, hst2.symm⟩
              | cons a tl =>
                rw [hit] at hst2
                simp only at hst2
                rw [hcct1, rdNat_toArray cct (j : Int) (by omega) (by simp; rw [inv.cok.len]; omega)] at hst2
                simp only [Int.toNat_natCast] at hst2
                exact Or.inr hst2
            obtain ⟨cct', rb', inv'⟩ := hnext st2 hdis
            have u2 : UInv ct cct' st2.ss rb' := by
              rcases hdis with ⟨hnil, rfl⟩ | hrun
              · have e1 : cct' = cct := toArray_inj_nat (inv'.hcct.symm.trans hcct1)
                have e2 : rb' = rb := toArray_inj_int (inv'.hrb.symm.trans (hrb1.trans inv.hrb))
                rw [e1, e2]; exact u1
              · obtain ⟨rb2, hrb2, _, u2⟩ := (hout _ hrun).1 st2 rfl
                have hs := pkLoop_struct ct j _ _ _ _ st1 st2 cct hcct1 hrun
                have e1 : cct' = zeroPairs ct (pkOfAbove cct above).reverse cct := toArray_inj_nat (inv'.hcct.symm.trans hs.2)
                have e2 : rb' = rb2 := toArray_inj_int (inv'.hrb.symm.trans hrb2)
                rw [e1, e2]; exact u2
            exact ih (j+1) (hd ++ below) st2 cct' rb' p (by omega) (by omega) inv' (nomark_next (hsplit ▸ hnm) hhds) u2 h

/-- SUFFICIENT CONDITION: a symmetric table with at most 26 pseudoknotted pairs is always converted
    (by `esl_ct2wuss` and by `esl_ct2simplewuss`) -/
theorem ct2wussGen_ok_of_few (simple : Bool) (n : Nat) (ct : List Nat) (hct : CtOk n ct) (hfew : (pkPairs ct).length ≤ 26) :
    ∃ ss, ct2wussGen simple ct = .ok ss := by
  rcases ct2wussGen_total simple n ct hct with h | ⟨p, hp⟩
  · exact h
  · exfalso
    have hl1 : ct.length = n + 1 := hct.1
    have hn1 : ct.length - 1 = n := by omega
    unfold ct2wussGen at hp
    simp only at hp
    rw [hn1] at hp
    split at hp
    · rename_i e he
      injection hp with hp; subst hp
      have hu : UInv ct ct (Array.replicate n (if simple = true then (0x2e : UInt8) else 0x3a)) (List.replicate 26 (-1)) := {
        used := by
          intro x hx hge
          have : (List.replicate 26 (-1 : Int)).getD x 0 = -1 := by
            rw [List.getD_eq_getElem?_getD, List.getElem?_replicate, if_pos hx]; rfl
          rw [this] at hge; omega
        cross := by intro q h1 h2 h3; omega }
      have := c2wMain_fewpk simple n ct hct (n+1) 1 [] _ ct _ p (by omega) (Nat.le_refl _) (ginv_init simple n ct hct)
        (fun _ a ha => by simp at ha) hu he
      omega
    · split at hp <;> cases hp

theorem ct2wuss_ok_of_few' (n : Nat) (ct : List Nat) (hct : CtOk n ct) (hfew : (pkPairs ct).length ≤ 26) :
    ∃ ss, ct2wuss ct = .ok ss :=
  ct2wussGen_ok_of_few false n ct hct hfew

end EaselModel.Msa
